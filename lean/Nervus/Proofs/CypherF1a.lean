/-
  C11 on F1a: one MATCH clause followed by core clauses.  Part 1: the reference's core clauses are congruent under
  "same bag of rows after erasing a hidden column" — what relates the rows of a MATCH plan (which carry the hidden
  `__nervus_internal_path_N` column and come in the engine's enumeration order) to the reference's rows.
-/
import Nervus.Proofs.CypherCore
import Nervus.Proofs.CypherJoin
namespace Nervus.Cy
open Nervus.Cy Nervus.Cy.Compile

variable (A : Algebra) (env : Env)

theorem perm_flatMap_left {α β} (f : α → List β) {l₁ l₂ : List α} (h : l₁.Perm l₂) :
    (l₁.flatMap f).Perm (l₂.flatMap f) := by
  induction h with
  | nil => exact List.Perm.refl _
  | cons x _ ih => simp only [List.flatMap_cons]; exact List.Perm.append_left _ ih
  | swap x y l =>
    simp only [List.flatMap_cons, ← List.append_assoc]
    exact List.Perm.append_right _ List.perm_append_comm
  | trans _ _ ih1 ih2 => exact ih1.trans ih2

/-- expressions that do not mention the hidden column do not see it -/
theorem eval_eraseCol (pa : String) (r : Row) (e : Expr) (h : pa ∉ e.vars) :
    eval A env (eraseCol pa r) e = eval A env r e := by
  induction e with
  | lit l => rfl
  | var x =>
    have : x ≠ pa := fun hx => h (by simp [Expr.vars, hx])
    simp only [eval, get_eraseCol_ne pa x r this]
  | prop x k =>
    have : x ≠ pa := fun hx => h (by simp [Expr.vars, hx])
    simp only [eval, get_eraseCol_ne pa x r this]
  | param p => rfl
  | cmp op a b iha ihb =>
    simp only [Expr.vars, List.mem_append, not_or] at h
    simp only [eval, iha h.1, ihb h.2]
  | bool op a b iha ihb =>
    simp only [Expr.vars, List.mem_append, not_or] at h
    simp only [eval, iha h.1, ihb h.2]
  | not a ih => simp only [Expr.vars] at h; simp only [eval, ih h]
  | isNull a ih => simp only [Expr.vars] at h; simp only [eval, ih h]
  | isNotNull a ih => simp only [Expr.vars] at h; simp only [eval, ih h]
  | hasLabel a l ih => simp only [Expr.vars] at h; simp only [eval, ih h]
  | listLit xs => rfl

theorem not_mem_vars_of_exprOk (s : List String) (e : Expr) (pa : String) (hs : pa ∉ s)
    (he : Spec.exprOk s e = true) : pa ∉ e.vars := by
  unfold Spec.exprOk at he
  rw [all_contains_iff] at he
  exact fun h => hs (he pa h)

theorem eraseCol_of_not_mem (pa : String) (r : Row) (h : pa ∉ r.cols) : eraseCol pa r = r := by
  unfold eraseCol
  rw [List.filter_eq_self]
  intro p hp
  have : p.1 ≠ pa := fun hh => h (hh ▸ List.mem_map_of_mem (f := (·.1)) hp)
  simpa using this

/-- model table `T'` against reference table `T`: the same bag once the hidden column `pa` is erased -/
def HRel (pa : String) (T' T : Table) : Prop := (T'.map (eraseCol pa)).Perm T

theorem HRel.filter (pa : String) (T' T : Table) (h : HRel pa T' T) (e : Expr) (he : pa ∉ e.vars) :
    HRel pa (T'.filter (evalBool A env · e)) (T.filter (evalBool A env · e)) := by
  unfold HRel at *
  have : (T'.filter (evalBool A env · e)).map (eraseCol pa) =
      (T'.map (eraseCol pa)).filter (evalBool A env · e) := by
    rw [List.filter_map]
    congr 1
    apply List.filter_congr
    intro r _
    simp only [Function.comp, evalBool, eval_eraseCol A env pa r e he]
  rw [this]
  exact h.filter _

theorem denoteUnwind_erase (pa : String) (T' : Table) (e : Expr) (x : String) (he : pa ∉ e.vars) (hx : x ≠ pa) :
    (Spec.denoteUnwind A env e x T').map (eraseCol pa) = Spec.denoteUnwind A env e x (T'.map (eraseCol pa)) := by
  unfold Spec.denoteUnwind
  rw [List.map_flatMap, List.flatMap_map]
  apply flatMap_congr_mem
  intro r _
  rw [eval_eraseCol A env pa r e he]
  cases eval A env r e <;> simp [eraseCol_set_ne pa x r _ hx, List.map_map, Function.comp_def]

theorem HRel.unwind (pa : String) (T' T : Table) (h : HRel pa T' T) (e : Expr) (x : String) (he : pa ∉ e.vars)
    (hx : x ≠ pa) : HRel pa (Spec.denoteUnwind A env e x T') (Spec.denoteUnwind A env e x T) := by
  unfold HRel at *
  rw [denoteUnwind_erase A env pa T' e x he hx]
  exact perm_flatMap_left _ h

/-! ### projections of the bag regime -/

def projOut (p : Proj) (r : Row) : Row := p.items.map fun it => (it.alias, Spec.itemVal A env [r] it)

theorem dedup_nodup (L : Table) : (Spec.dedupBy id L).Nodup := by
  induction L with
  | nil => exact List.nodup_nil
  | cons x xs ih =>
    simp only [Spec.dedupBy, id]
    rw [List.nodup_cons]
    refine ⟨?_, List.Pairwise.filter _ ih⟩
    intro h
    have := (List.mem_filter.mp h).2
    simp at this

theorem mem_dedup (L : Table) (a : Row) : a ∈ Spec.dedupBy id L ↔ a ∈ L := by
  induction L with
  | nil => simp [Spec.dedupBy]
  | cons x xs ih =>
    simp only [Spec.dedupBy, id, List.mem_cons, List.mem_filter, ih]
    constructor
    · rintro (h | ⟨h, _⟩)
      · exact Or.inl h
      · exact Or.inr h
    · rintro (h | h)
      · exact Or.inl h
      · by_cases hax : a = x
        · exact Or.inl hax
        · exact Or.inr ⟨h, by simpa using hax⟩

/-- DISTINCT respects permutations -/
theorem dedup_perm (L' L : Table) (h : L'.Perm L) : (Spec.dedupBy id L').Perm (Spec.dedupBy id L) := by
  rw [List.perm_ext_iff_of_nodup (dedup_nodup L') (dedup_nodup L)]
  intro a
  rw [mem_dedup, mem_dedup]
  exact h.mem_iff

/-- the table a bag projection denotes -/
def projTable (p : Proj) (T : Table) : Table :=
  if p.distinct then Spec.dedupBy id (T.map (projOut A env p)) else T.map (projOut A env p)

theorem denoteProj_bag (p : Proj) (T : Table) (hb : bagProj p = true) :
    Spec.denoteProj A env p none T = .ok (projTable A env p T) := by
  unfold bagProj coreProj at hb
  simp only [Bool.and_eq_true, Bool.not_eq_true', List.isEmpty_iff, Option.isNone_iff_eq_none] at hb
  obtain ⟨⟨⟨hplain, hord⟩, hskip⟩, hlim⟩ := hb
  unfold projTable
  cases hd : p.distinct
  · simp [Spec.denoteProj, Spec.window, hskip, hlim, hord, hd, Spec.projectRows, hplain, bind, Except.bind, pure,
      Except.pure, List.map_map, Function.comp_def, projOut]
  · have hfst : (Spec.projectRows A env p T).map (·.1) = T.map (projOut A env p) := by
      simp [Spec.projectRows, hplain, List.map_map, Function.comp_def, projOut]
    simp only [Spec.denoteProj, Spec.window, hskip, hlim, hord, hd, bind, Except.bind, pure, Except.pure,
      List.isEmpty_nil, ↓reduceIte, dedupBy_map_fst, hfst]

theorem projTable_cols (pa : String) (p : Proj) (T : Table) (hal : pa ∉ p.items.map (·.alias)) :
    ∀ r ∈ projTable A env p T, pa ∉ r.cols := by
  intro r hr
  have hmem : r ∈ T.map (projOut A env p) := by
    unfold projTable at hr
    split at hr
    · exact (mem_dedup _ r).mp hr
    · exact hr
  obtain ⟨r0, _, rfl⟩ := List.mem_map.mp hmem
  simpa [projOut, Row.cols, List.map_map, Function.comp_def] using hal

theorem projOut_erase (pa : String) (p : Proj) (s : List String) (hs : pa ∉ s)
    (hitems : p.items.all (fun it => match it.expr with | .plain e => Spec.exprOk s e | .agg _ a => Spec.exprOk s a) = true)
    (hplain : p.items.any Spec.isAgg = false) (r : Row) :
    projOut A env p (eraseCol pa r) = projOut A env p r := by
  unfold projOut
  apply List.map_congr_left
  intro it hit
  have h1 := List.all_eq_true.mp hitems it hit
  have h2 : Spec.isAgg it = false := by simpa using List.any_eq_false.mp hplain it hit
  obtain ⟨ex, al⟩ := it
  cases ex with
  | plain e =>
    simp only at h1
    simp only [Spec.itemVal, eval_eraseCol A env pa r e (not_mem_vars_of_exprOk s e pa hs h1)]
  | agg k a => simp [Spec.isAgg] at h2

theorem HRel.proj (pa : String) (T' T : Table) (h : HRel pa T' T) (p : Proj) (s : List String) (hs : pa ∉ s)
    (hitems : p.items.all (fun it => match it.expr with | .plain e => Spec.exprOk s e | .agg _ a => Spec.exprOk s a) = true)
    (hplain : p.items.any Spec.isAgg = false) (hal : pa ∉ p.items.map (·.alias)) :
    HRel pa (T'.map (projOut A env p)) (T.map (projOut A env p)) := by
  unfold HRel at *
  have : (T'.map (projOut A env p)).map (eraseCol pa) = (T'.map (eraseCol pa)).map (projOut A env p) := by
    rw [List.map_map, List.map_map]
    apply List.map_congr_left
    intro r _
    simp only [Function.comp]
    rw [projOut_erase A env pa p s hs hitems hplain r]
    apply eraseCol_of_not_mem
    simpa [projOut, Row.cols, List.map_map, Function.comp_def] using hal
  rw [this]
  exact h.map _

theorem map_erase_id (pa : String) (X : Table) (h : ∀ r ∈ X, pa ∉ r.cols) : X.map (eraseCol pa) = X := by
  have : X.map (eraseCol pa) = X.map id := by
    apply List.map_congr_left
    intro r hr
    exact eraseCol_of_not_mem pa r (h r hr)
  rw [this, List.map_id]

theorem HRel.projT (pa : String) (T' T : Table) (h : HRel pa T' T) (p : Proj) (s : List String) (hs : pa ∉ s)
    (hitems : p.items.all (fun it => match it.expr with | .plain e => Spec.exprOk s e | .agg _ a => Spec.exprOk s a) = true)
    (hplain : p.items.any Spec.isAgg = false) (hal : pa ∉ p.items.map (·.alias)) :
    HRel pa (projTable A env p T') (projTable A env p T) := by
  have h0 := HRel.proj A env pa T' T h p s hs hitems hplain hal
  unfold HRel at h0 ⊢
  rw [map_erase_id pa _ (projTable_cols A env pa p T' hal)]
  have hid : (T'.map (projOut A env p)).map (eraseCol pa) = T'.map (projOut A env p) := by
    apply map_erase_id
    intro r hr
    obtain ⟨r0, _, rfl⟩ := List.mem_map.mp hr
    simpa [projOut, Row.cols, List.map_map, Function.comp_def] using hal
  rw [hid] at h0
  unfold projTable
  cases p.distinct
  · exact h0
  · exact dedup_perm _ _ h0

/-! ### the reference's core clauses respect `HRel` -/

theorem denote_bag_congr (pa : String) (q : Query) : ∀ (b : Bool) (s s' : List String) (T' T : Table),
    bagClauses b q = true → Spec.scopeAfter s q = some s' → pa ∉ s → pa ∉ introduced q → HRel pa T' T →
    ∃ R' R, Spec.denoteClauses A env q T' = .ok R' ∧ Spec.denoteClauses A env q T = .ok R ∧
      R'.rows.Perm R.rows := by
  induction q with
  | nil => intro b s s' T' T hc; cases b <;> simp [bagClauses] at hc
  | cons c rest ih =>
    intro b s s' T' T hc hs hpa hin hrel
    cases c with
    | match_ o ps => cases b <;> simp [bagClauses] at hc
    | where_ e =>
      cases b with
      | false => simp [bagClauses] at hc
      | true =>
        have hc' : bagClauses true rest = true := by simpa [bagClauses] using hc
        simp only [Spec.scopeAfter] at hs
        split at hs
        · rename_i hok
          simp only [Spec.denoteClauses]
          exact ih true s s' _ _ hc' hs hpa (by simpa [introduced] using hin)
            (HRel.filter A env pa T' T hrel e (not_mem_vars_of_exprOk s e pa hpa hok))
        · cases hs
    | unwind e x =>
      have hc' : bagClauses true rest = true := by cases b <;> simpa [bagClauses] using hc
      simp only [introduced, List.mem_cons, not_or] at hin
      simp only [Spec.scopeAfter] at hs
      split at hs
      · rename_i hok
        simp only [Bool.and_eq_true] at hok
        simp only [Spec.denoteClauses]
        refine ih true (s ++ [x]) s' _ _ hc' hs ?_ hin.2
          (HRel.unwind A env pa T' T hrel e x (not_mem_vars_of_exprOk s e pa hpa hok.1) (fun h => hin.1 h.symm))
        simp only [List.mem_append, List.mem_singleton, not_or]
        exact ⟨hpa, hin.1⟩
      · cases hs
    | with_ p w =>
      cases w with
      | some w => cases b <;> simp [bagClauses] at hc
      | none =>
        have hc' : bagProj p = true ∧ bagClauses true rest = true := by
          cases b <;> simpa [bagClauses] using hc
        simp only [introduced, List.mem_append, not_or] at hin
        simp only [Spec.scopeAfter] at hs
        split at hs
        · rename_i hok
          have hb := hc'.1
          unfold bagProj coreProj at hb
          simp only [Bool.and_eq_true, Bool.not_eq_true', List.isEmpty_iff, Option.isNone_iff_eq_none] at hb
          unfold Spec.projOk at hok
          simp only [Bool.and_eq_true] at hok
          obtain ⟨⟨⟨⟨_, _⟩, hitems⟩, _⟩, _⟩ := hok
          simp only [Spec.denoteClauses, denoteProj_bag A env p _ hc'.1, bind, Except.bind]
          exact ih true _ s' _ _ hc'.2 hs hin.1 hin.2
            (HRel.projT A env pa T' T hrel p s hpa hitems hb.1.1.1 hin.1)
        · cases hs
    | return_ p =>
      have hc' : bagProj p = true ∧ rest = [] := by
        cases rest with
        | nil => cases b <;> simpa [bagClauses] using hc
        | cons c' r' => cases b <;> simp [bagClauses] at hc
      obtain ⟨hcp, rfl⟩ := hc'
      simp only [introduced, List.append_nil] at hin
      simp only [Spec.scopeAfter, List.isEmpty_nil, Bool.and_true] at hs
      split at hs
      · rename_i hok
        have hb := hcp
        unfold bagProj coreProj at hb
        simp only [Bool.and_eq_true, Bool.not_eq_true', List.isEmpty_iff, Option.isNone_iff_eq_none] at hb
        unfold Spec.projOk at hok
        simp only [Bool.and_eq_true] at hok
        obtain ⟨⟨⟨⟨_, _⟩, hitems⟩, _⟩, _⟩ := hok
        have hr := HRel.projT A env pa T' T hrel p s hpa hitems hb.1.1.1 hin
        have hord : p.orderBy = [] := hb.1.1.2
        refine ⟨.bag (projTable A env p T'), .bag (projTable A env p T), ?_, ?_, ?_⟩
        · simp [Spec.denoteClauses, denoteProj_bag A env p _ hcp, bind, Except.bind, pure, Except.pure, hord]
        · simp [Spec.denoteClauses, denoteProj_bag A env p _ hcp, bind, Except.bind, pure, Except.pure, hord]
        · show (projTable A env p T').Perm (projTable A env p T)
          unfold HRel at hr
          rw [map_erase_id pa _ (projTable_cols A env pa p T' hin)] at hr
          exact hr
      · cases hs

/-! ## Part 2: the MATCH step.  Filters the planner stacks on a plan -/

theorem filter_const_true {α} (l : List α) : l.filter (fun _ => true) = l := by
  induction l with
  | nil => rfl
  | cons x xs ih => simp [List.filter_cons, ih]

/-- the pushed-down equality conjuncts recorded for alias `x` hold on row `r` -/
def pushedOK (x : String) (m : Preds) (r : Row) : Bool :=
  match m.lookup x with
  | some fields => fields.all fun kv => evalBool A env r (.cmp .eq (.prop x kv.1) kv.2)
  | none => true

def labelOK (x : String) (ls : List String) (r : Row) : Bool :=
  ls.all fun l => evalBool A env r (.bool .or (.isNull (.var x)) (.hasLabel (.var x) l))

theorem exec_applyFilters (P : Plan) (R : Table) (h : Exec.exec A env P = .ok R) (x : String) (m : Preds) :
    Exec.exec A env (applyFilters P x m) = .ok (R.filter (pushedOK A env x m)) := by
  unfold applyFilters pushedOK
  cases hl : m.lookup x with
  | none => simp [h, filter_const_true]
  | some fields =>
    cases hc : andChain (fields.map fun (kv : String × Expr) => Expr.cmp .eq (.prop x kv.1) kv.2) with
    | none =>
      have : fields = [] := by
        have := (andChain_nil_iff _).mp hc
        simpa using this
      subst this
      simp [andChain, h, filter_const_true]
    | some e =>
      have hc' : andChain (fields.map fun x_1 => match x_1 with | (k, v) => Expr.cmp CmpOp.eq (Expr.prop x k) v) = some e := hc
      simp only [hc', Exec.exec, h, bind, Except.bind, pure, Except.pure]
      congr 1
      apply List.filter_congr
      intro r _
      rw [evalBool_andChain A env r _ e hc, List.all_map]
      rfl

theorem exec_applyLabelFilters (P : Plan) (R : Table) (h : Exec.exec A env P = .ok R) (x : String) (ls : List String) :
    Exec.exec A env (applyLabelFilters P x ls) = .ok (R.filter (labelOK A env x ls)) := by
  unfold applyLabelFilters labelOK
  cases hc : andChain (ls.map fun l => Expr.bool .or (.isNull (.var x)) (.hasLabel (.var x) l)) with
  | none =>
    have : ls = [] := by
      have := (andChain_nil_iff _).mp hc
      simpa using this
    subst this
    simp [h, filter_const_true]
  | some e =>
    simp only [Exec.exec, h, bind, Except.bind, pure, Except.pure]
    congr 1
    apply List.filter_congr
    intro r _
    rw [evalBool_andChain A env r _ e hc, List.all_map]
    rfl

/-! ### what `extract_predicates` pushes down is implied by the WHERE it was extracted from -/

theorem mem_insertSorted {β} (m : List (String × β)) (k : String) (v : β) (p : String × β)
    (h : p ∈ insertSorted m k v) : p = (k, v) ∨ p ∈ m := by
  induction m with
  | nil => simp [insertSorted] at h; exact Or.inl h
  | cons q rest ih =>
    obtain ⟨k', v'⟩ := q
    simp only [insertSorted] at h
    split at h
    · rcases List.mem_cons.mp h with h | h
      · exact Or.inl h
      · exact Or.inr h
    · split at h
      · rcases List.mem_cons.mp h with h | h
        · exact Or.inl h
        · exact Or.inr (List.mem_cons_of_mem _ h)
      · rcases List.mem_cons.mp h with h | h
        · exact Or.inr (h ▸ List.mem_cons_self)
        · rcases ih h with h | h
          · exact Or.inl h
          · exact Or.inr (List.mem_cons_of_mem _ h)

/-- every recorded conjunct holds on `r` -/
def PredsHold (m : Preds) (r : Row) : Prop :=
  ∀ x fields, m.lookup x = some fields → ∀ kv ∈ fields, evalBool A env r (.cmp .eq (.prop x kv.1) kv.2) = true

theorem PredsHold.insert (m : Preds) (r : Row) (h : PredsHold A env m r) (x k : String) (v : Expr)
    (hv : evalBool A env r (.cmp .eq (.prop x k) v) = true) : PredsHold A env (predsInsert m x k v) r := by
  intro x' fields hl kv hkv
  unfold predsInsert at hl
  rw [lookup_insertSorted] at hl
  by_cases hx : (x' == x) = true
  · have hxx : x' = x := by simpa using hx
    subst hxx
    simp only [hx, ↓reduceIte, Option.some.injEq] at hl
    subst hl
    rcases mem_insertSorted _ k v kv hkv with rfl | hmem
    · exact hv
    · cases hm : m.lookup x' with
      | none => simp [hm] at hmem
      | some f0 =>
        simp only [hm, Option.getD_some] at hmem
        exact h x' f0 hm kv hmem
  · simp only [hx, Bool.false_eq_true, ↓reduceIte] at hl
    exact h x' fields hl kv hkv

theorem PredsHold.nil (r : Row) : PredsHold A env [] r := by
  intro x fields hl; simp [List.lookup] at hl

/-- `=` of the value algebra is symmetric (true of every equality the engine implements; needed because
    `extract_predicates` also accepts `<literal> = x.k`) -/
def EqSymm (A : Algebra) : Prop := ∀ a b, A.cmp .eq a b = A.cmp .eq b a

theorem extractPredicates_hold (hsym : EqSymm A) (r : Row) (w : Expr) :
    ∀ m, evalBool A env r w = true → PredsHold A env m r → PredsHold A env (extractPredicates w m) r := by
  induction w with
  | bool op a b iha ihb =>
    intro m hw hm
    cases op with
    | and =>
      simp only [extractPredicates]
      have := hw
      rw [evalBool_and, Bool.and_eq_true] at this
      exact ihb _ this.2 (iha _ this.1 hm)
    | _ => simpa [extractPredicates] using hm
  | cmp op a b _ _ =>
    intro m hw hm
    cases op with
    | eq =>
      have hw' : evalBool A env r (.cmp .eq b a) = true := by
        simp only [evalBool, eval] at hw ⊢
        rw [hsym]; exact hw
      simp only [extractPredicates]
      have chk : ∀ (l rr : Expr) (m : Preds), evalBool A env r (.cmp .eq l rr) = true → PredsHold A env m r →
          PredsHold A env (match l, rr with
            | .prop x k, .lit v => predsInsert m x k (.lit v)
            | .prop x k, .param p => predsInsert m x k (.param p)
            | _, _ => m) r := by
        intro l rr m hlr hm
        split
        · exact PredsHold.insert A env m r hm _ _ _ hlr
        · exact PredsHold.insert A env m r hm _ _ _ hlr
        · exact hm
      exact chk b a _ hw' (chk a b m hw hm)
    | _ => simpa [extractPredicates] using hm
  | _ => intro m _ hm; simpa [extractPredicates] using hm

theorem pushedOK_of_hold (x : String) (m : Preds) (r : Row) (h : PredsHold A env m r) : pushedOK A env x m r = true := by
  unfold pushedOK
  cases hl : m.lookup x with
  | none => rfl
  | some fields =>
    simp only [List.all_eq_true]
    exact fun kv hkv => h x fields hl kv hkv

/-! ### F1a, node patterns: `MATCH (a:L1:L2…)` as the first clause, then core clauses -/

def scanRows (a : String) (l : Option String) : Table :=
  (env.g.nodes.filter fun n => match l with | some l => n.labels.contains l | none => true).map
    fun n => [(a, Val.node n.id)]

/-- the plan `compile_pattern_chain` builds for a fresh single-node pattern without property map -/
def nodePlan (a : String) (ls : List String) (preds : Preds) : Plan :=
  let start : Plan := .nodeScan a ls.head?
  let start := match ls.head?, (preds.lookup a).bind (·.head?) with
    | some l, some (field, v) => Plan.indexSeek a l field v start
    | _, _ => start
  applyLabelFilters (applyFilters start a preds) a ls

theorem compileChain_node (a : String) (ls : List String) (preds : Preds) (s : St) :
    (compileChain none ⟨⟨some a, ls, []⟩, []⟩ preds [] s).1 = nodePlan a ls preds := by
  unfold compileChain nodePlan
  simp only [extendPreds, List.foldl_nil, compileChain.hops]
  cases ls.head? with
  | none => rfl
  | some l =>
    cases (preds.lookup a).bind (·.head?) with
    | none => rfl
    | some fv => rfl

theorem exec_nodePlan (a : String) (ls : List String) (preds : Preds) :
    Exec.exec A env (nodePlan a ls preds) =
      .ok (((scanRows env a ls.head?).filter (pushedOK A env a preds)).filter (labelOK A env a ls)) := by
  unfold nodePlan
  apply exec_applyLabelFilters
  apply exec_applyFilters
  cases ls.head? with
  | none => rfl
  | some l =>
    cases (preds.lookup a).bind (·.head?) with
    | none => rfl
    | some fv => obtain ⟨f, v⟩ := fv; rfl

theorem outKinds_nodePlan (a : String) (ls : List String) (preds : Preds) :
    outKinds (nodePlan a ls preds) = [(a, Kind.node)] := by
  have h1 : ∀ P x m, outKinds (applyFilters P x m) = outKinds P := by
    intro P x m; unfold applyFilters; split
    · split <;> rfl
    · rfl
  have h2 : ∀ P x l, outKinds (applyLabelFilters P x l) = outKinds P := by
    intro P x l; unfold applyLabelFilters; split <;> rfl
  unfold nodePlan
  rw [h2, h1]
  cases ls.head? with
  | none => rfl
  | some l =>
    cases (preds.lookup a).bind (·.head?) with
    | none => rfl
    | some fv =>
      obtain ⟨f, v⟩ := fv
      simp [outKinds, outKindsAcc, mergeKind, List.lookup, insertSorted]

/-- the reference rows of the node pattern -/
theorem spec_node_rows (hg : env.g.NodesDistinct) (a : String) (ls : List String) :
    Spec.denoteMatch A env false [⟨⟨some a, ls, []⟩, []⟩] [[]] = (scanRows env a ls.head?).filter (labelOK A env a ls) := by
  have h1 := scan_label_correct A env hg a ls []
  rw [exec_applyLabelFilters A env (.nodeScan a ls.head?) (scanRows env a ls.head?) rfl a ls] at h1
  have h1' := Except.ok.inj h1
  rw [h1']
  simp [Spec.denoteMatch, Spec.matches_, Spec.matchPats, List.flatMap_cons, List.map_flatMap]

theorem bagClauses_core (q : Query) : ∀ b, bagClauses b q = true → coreClauses b q = true := by
  induction q with
  | nil => intro b h; cases b <;> simp [bagClauses] at h
  | cons c rest ih =>
    intro b h
    cases c with
    | match_ o ps => cases b <;> simp [bagClauses] at h
    | where_ e => cases b <;> simp [bagClauses, coreClauses] at h ⊢; exact ih true h
    | unwind e x => cases b <;> simp [bagClauses, coreClauses] at h ⊢ <;> exact ih true h
    | with_ p w =>
      cases w with
      | some w => cases b <;> simp [bagClauses] at h
      | none =>
        cases b <;> simp [bagClauses, coreClauses, bagProj] at h ⊢ <;> exact ⟨h.1.1.1, ih true h.2⟩
    | return_ p =>
      cases rest with
      | nil => cases b <;> simp [bagClauses, coreClauses, bagProj] at h ⊢ <;> exact h.1.1
      | cons c' r' => cases b <;> simp [bagClauses] at h

/-- predicates pushed down from the clause that follows the MATCH -/
def predsOf (tail : Query) : Preds := match tail with | .where_ w :: _ => extractPredicates w [] | _ => []

theorem compileClauses_nodeMatch (a : String) (ls : List String) (tail : Query) :
    ∃ st, compileClauses (.match_ false [⟨⟨some a, ls, []⟩, []⟩] :: tail) {} =
      compileClauses tail { plan := some (nodePlan a ls (predsOf tail)), st := st, pending := none } := by
  have hm : ∀ preds, compileMatch none [⟨⟨some a, ls, []⟩, []⟩] preds {} =
      .ok (compileChain none ⟨⟨some a, ls, []⟩, []⟩ preds [] {}) := by
    intro preds
    simp only [compileMatch, List.forIn_cons, List.forIn_nil, maybeReanchor, List.isEmpty_nil, ↓reduceIte,
      validatePattern, bind, Except.bind, pure, Except.pure, List.lookup, boundAsNode, usesOuter, List.map_nil,
      List.any_cons, List.any_nil, Bool.or_false, Bool.false_eq_true]
  refine ⟨(compileChain none ⟨⟨some a, ls, []⟩, []⟩ (predsOf tail) [] {}).2, ?_⟩
  have hpair : compileChain none ⟨⟨some a, ls, []⟩, []⟩ (predsOf tail) [] {} =
      (nodePlan a ls (predsOf tail), (compileChain none ⟨⟨some a, ls, []⟩, []⟩ (predsOf tail) [] {}).2) := by
    rw [← compileChain_node a ls (predsOf tail) {}]
  cases tail with
  | nil =>
    simp only [compileClauses, bind, Except.bind, predsOf] at hpair ⊢
    rw [hm, hpair]
    simp
  | cons c rest =>
    cases c <;> simp only [compileClauses, bind, Except.bind, predsOf] at hpair ⊢ <;> rw [hm, hpair] <;>
      simp only [Bool.false_eq_true, ↓reduceIte]

/-- **C11 on F1a, node patterns** — `MATCH (a:L1:L2…)` followed by any core clauses (WHERE with its equality
    conjuncts pushed down into the scan / an IndexSeek, UNWIND, WITH, RETURN with DISTINCT / SKIP / LIMIT): the
    modelled engine returns exactly the reference's list of rows, or the same error. -/
theorem f1a_node_refines (hsym : EqSymm A) (hg : env.g.NodesDistinct) (a : String) (ls : List String) (tail : Query)
    (hc : coreClauses true tail = true)
    (hs : Spec.WellScoped (.match_ false [⟨⟨some a, ls, []⟩, []⟩] :: tail)) :
    Exec.run A env (.match_ false [⟨⟨some a, ls, []⟩, []⟩] :: tail) =
      (Spec.denote A env (.match_ false [⟨⟨some a, ls, []⟩, []⟩] :: tail)).map Spec.Result.rows := by
  obtain ⟨st, hcomp⟩ := compileClauses_nodeMatch a ls tail
  unfold Spec.WellScoped at hs
  have hs1 : (Spec.scopeAfter [a] tail).isSome = true := by
    simpa [Spec.scopeAfter, Spec.patsOk, Spec.patVars] using hs
  obtain ⟨s', hs'⟩ := Option.isSome_iff_exists.mp hs1
  have hK : KOk (outKinds (nodePlan a ls (predsOf tail))) [a] := by
    rw [outKinds_nodePlan]
    intro v
    by_cases hv : v = a
    · subst hv; simp [List.lookup]
    · have : (v == a) = false := by simpa using hv
      simp [List.lookup, this, hv]
  have hind := core_induction A env tail true
    { plan := some (nodePlan a ls (predsOf tail)), st := st, pending := none } _ [a] s' hc hs' rfl (fun _ => rfl)
    (exec_nodePlan A env a ls (predsOf tail)) hK
  have hrun : Exec.run A env (.match_ false [⟨⟨some a, ls, []⟩, []⟩] :: tail) =
      runLoop A env tail { plan := some (nodePlan a ls (predsOf tail)), st := st, pending := none } := by
    unfold Exec.run compile runLoop
    rw [hcomp]
    rfl
  rw [hrun, hind]
  unfold Spec.denote
  rw [if_pos hs]
  have hspec : Spec.denoteClauses A env (.match_ false [⟨⟨some a, ls, []⟩, []⟩] :: tail) [[]] =
      Spec.denoteClauses A env tail ((scanRows env a ls.head?).filter (labelOK A env a ls)) := by
    rw [← spec_node_rows A env hg a ls]
    cases tail with
    | nil => simp [Spec.denoteClauses]
    | cons c rest => cases c <;> simp [Spec.denoteClauses]
  rw [hspec]
  congr 1
  -- the pushed-down conjuncts do not change what the tail computes
  cases tail with
  | nil => simp [coreClauses] at hc
  | cons c rest =>
    cases c with
    | where_ w =>
      simp only [Spec.denoteClauses, predsOf]
      congr 1
      rw [List.filter_filter, List.filter_filter, List.filter_filter]
      apply List.filter_congr
      intro r _
      by_cases hw : evalBool A env r w = true
      · have := pushedOK_of_hold A env a _ r
          (extractPredicates_hold A env hsym r w [] hw (PredsHold.nil A env r))
        simp [hw, this]
      · simp [hw]
    | match_ o ps => simp [coreClauses] at hc
    | unwind e x =>
      have : predsOf (Clause.unwind e x :: rest) = [] := rfl
      rw [this]
      have hp : pushedOK A env a [] = fun _ => true := by funext r; rfl
      rw [hp, filter_const_true]
    | with_ p w =>
      have : predsOf (Clause.with_ p w :: rest) = [] := rfl
      rw [this]
      have hp : pushedOK A env a [] = fun _ => true := by funext r; rfl
      rw [hp, filter_const_true]
    | return_ p =>
      have : predsOf (Clause.return_ p :: rest) = [] := rfl
      rw [this]
      have hp : pushedOK A env a [] = fun _ => true := by funext r; rfl
      rw [hp, filter_const_true]

/-! ### F1a, single hop (outgoing): `MATCH (a:La)-[ev:T…]->(d:Ld)` as the first clause -/

theorem perm_flatMap_pointwise {α β} (l : List α) (f g : α → List β) (h : ∀ x ∈ l, (f x).Perm (g x)) :
    (l.flatMap f).Perm (l.flatMap g) := by
  induction l with
  | nil => exact List.Perm.refl _
  | cons x xs ih =>
    simp only [List.flatMap_cons]
    exact List.Perm.append (h x (by simp)) (ih fun y hy => h y (List.mem_cons_of_mem _ hy))

theorem expandOut_flatMap (g : Graph) (src : String) (rels : List String) (edge : Option String) (dst : String)
    (dl : List String) (path : Option String) (T : Table) (h : ∀ r ∈ T, ∃ id, r.get src = some (.node id)) :
    Exec.expandOut g src rels edge dst dl path T = .ok (T.flatMap fun r =>
      match r.get src with
      | some (.node s) => Exec.stepOut g r s rels edge dst dl path
      | _ => []) := by
  induction T with
  | nil => rfl
  | cons r rest ih =>
    obtain ⟨id, hid⟩ := h r (by simp)
    simp only [Exec.expandOut, hid, ih (fun x hx => h x (List.mem_cons_of_mem _ hx)), bind, Except.bind, pure,
      Except.pure, List.flatMap_cons]

/-- the reference's step from a one-column row `[(a, node id)]` -/
def specStep (a : String) (steps : List (RelPat × NodePat)) (r : Row) : Table :=
  match r.get a with
  | some (.node id) => (Spec.matchSteps A env [] id r steps).map (·.1)
  | _ => []

theorem flatMap_if_nil {α β} (l : List α) (c : α → Bool) (f : α → List β) :
    (l.flatMap fun x => if c x = true then [] else f x) = (l.filter fun x => !c x).flatMap f := by
  induction l with
  | nil => rfl
  | cons x xs ih =>
    simp only [List.flatMap_cons, List.filter_cons, ih]
    cases c x <;> simp

theorem flatMap_singleton_map {α β} (l : List α) (f : α → β) : (l.flatMap fun x => [f x]) = l.map f := by
  induction l with
  | nil => rfl
  | cons x xs ih => simp [List.flatMap_cons, ih]

theorem node_rows_eq (hg : env.g.NodesDistinct) (a : String) (la : List String) :
    (scanRows env a la.head?).filter (labelOK A env a la) =
      (env.g.nodes.filter fun n => la.all (env.g.hasLabel n.id)).map fun n => [(a, Val.node n.id)] := by
  rw [← spec_node_rows A env hg a la]
  simp only [Spec.denoteMatch, Spec.matches_, Spec.matchPats, List.flatMap_cons, List.flatMap_nil, List.append_nil,
    Bool.false_and, Bool.false_eq_true, ↓reduceIte, Spec.matchPath, Spec.nodeOk, Spec.propsOk, List.all_nil,
    Bool.and_true, Spec.bind, Row.get_nil, Row.set, Spec.matchSteps]
  rw [flatMap_ite_singleton]
  simp only [List.map_map, Function.comp_def, List.flatMap_map, List.map_flatMap, List.map_cons, List.map_nil,
    Bool.not_not]
  exact flatMap_singleton_map _ _

/-- the reference rows of `(a:la)` followed by `steps`: node rows, each continued -/
theorem spec_chain_rows (hg : env.g.NodesDistinct) (a : String) (la : List String) (steps : List (RelPat × NodePat)) :
    Spec.denoteMatch A env false [⟨⟨some a, la, []⟩, steps⟩] [[]] =
      ((scanRows env a la.head?).filter (labelOK A env a la)).flatMap (specStep A env a steps) := by
  rw [node_rows_eq A env hg a la, List.flatMap_map]
  simp only [Spec.denoteMatch, Spec.matches_, Spec.matchPats, List.flatMap_cons, List.flatMap_nil, List.append_nil,
    Bool.false_and, Bool.false_eq_true, ↓reduceIte, Spec.matchPath, Spec.nodeOk, Spec.propsOk, List.all_nil,
    Bool.and_true, Spec.bind, Row.get_nil, Row.set, specStep, Row.get_singleton]
  have : ∀ (l : List (Row × List RelId)), (l.flatMap fun s => [s]) = l := by
    intro l; induction l with
    | nil => rfl
    | cons x xs ih => simp [List.flatMap_cons, ih]
  rw [this, flatMap_if_nil, List.map_flatMap]
  congr 1
  apply List.filter_congr
  intro n _
  simp

/-- one step without property maps depends on the graph only -/
theorem matchSteps_env (used : List RelId) (cur : Nat) (r : Row) (ev : Option String) (rels : List String)
    (dir : Dir) (d : String) (dl : List String) :
    Spec.matchSteps A env used cur r [(⟨ev, rels, dir, []⟩, ⟨some d, dl, []⟩)] =
      Spec.matchSteps A { g := env.g } used cur r [(⟨ev, rels, dir, []⟩, ⟨some d, dl, []⟩)] := by
  simp [Spec.matchSteps, Spec.relOk, Spec.nodeOk, Spec.propsOk]

def stepOutRow (a : String) (rels : List String) (ev : Option String) (d : String) (dl : List String) (pa : String)
    (r : Row) : Table :=
  match r.get a with
  | some (.node s) => Exec.stepOut env.g r s rels ev d dl (some pa)
  | _ => []

theorem hop_out_rel (hnp : NoParallel env.g) (a d pa : String) (ev : Option String) (rels : List String)
    (hrels : rels.Nodup) (dl : List String) (T0 : Table) (hT0 : ∀ r ∈ T0, ∃ id, r = [(a, Val.node id)])
    (ha : a ≠ pa) (hd : d ≠ pa) (hev : ∀ x, ev = some x → x ≠ pa ∧ x ≠ d ∧ x ≠ a) :
    HRel pa (T0.flatMap (stepOutRow env a rels ev d dl pa))
      (T0.flatMap (specStep A env a [(⟨ev, rels, .out, []⟩, ⟨some d, dl, []⟩)])) := by
  unfold HRel
  rw [List.map_flatMap]
  apply perm_flatMap_pointwise
  intro r hr
  obtain ⟨id, rfl⟩ := hT0 r hr
  have hget : Row.get [(a, Val.node id)] pa = none := by
    have : (pa == a) = false := by simpa using (fun h : pa = a => ha h.symm)
    simp [Row.get, List.lookup, this]
  have hpr : PathRel [(a, Val.node id)] pa [] := by simp [PathRel, hget]
  have herase : eraseCol pa [(a, Val.node id)] = [(a, Val.node id)] := by
    apply eraseCol_of_not_mem; simpa [Row.cols] using fun h : pa = a => ha h.symm
  have hev' : ∀ x, ev = some x → x ≠ pa ∧ x ≠ d ∧ Row.get [(a, Val.node id)] x = none := by
    intro x hx
    obtain ⟨h1, h2, h3⟩ := hev x hx
    refine ⟨h1, h2, ?_⟩
    have : (x == a) = false := by simpa using h3
    simp [Row.get, List.lookup, this]
  have := expand_out_row A env.g hnp [(a, Val.node id)] id rels hrels ev d pa dl [] hpr hd hev'
  rw [herase] at this
  simp only [stepOutRow, specStep, Row.get_singleton, matchSteps_env]
  exact this

/-! ### push-down does not change what the following WHERE keeps -/

/-- the values `extract_predicates` records are literals or parameters -/
def ClosedVal : Expr → Prop
  | .lit _ => True | .param _ => True | _ => False

def PredsClosed (m : Preds) : Prop := ∀ x fields, m.lookup x = some fields → ∀ kv ∈ fields, ClosedVal kv.2

theorem PredsClosed.insert (m : Preds) (h : PredsClosed m) (x k : String) (v : Expr) (hv : ClosedVal v) :
    PredsClosed (predsInsert m x k v) := by
  intro x' fields hl kv hkv
  unfold predsInsert at hl
  rw [lookup_insertSorted] at hl
  by_cases hx : (x' == x) = true
  · have hxx : x' = x := by simpa using hx
    subst hxx
    simp only [hx, ↓reduceIte, Option.some.injEq] at hl
    subst hl
    rcases mem_insertSorted _ k v kv hkv with rfl | hmem
    · exact hv
    · cases hm : m.lookup x' with
      | none => simp [hm] at hmem
      | some f0 =>
        simp only [hm, Option.getD_some] at hmem
        exact h x' f0 hm kv hmem
  · simp only [hx, Bool.false_eq_true, ↓reduceIte] at hl
    exact h x' fields hl kv hkv

theorem extractPredicates_closed (w : Expr) : ∀ m, PredsClosed m → PredsClosed (extractPredicates w m) := by
  induction w with
  | bool op a b iha ihb =>
    intro m hm
    cases op with
    | and => simp only [extractPredicates]; exact ihb _ (iha _ hm)
    | _ => simpa [extractPredicates] using hm
  | cmp op a b _ _ =>
    intro m hm
    cases op with
    | eq =>
      simp only [extractPredicates]
      have chk : ∀ (l rr : Expr) (m : Preds), PredsClosed m →
          PredsClosed (match l, rr with
            | .prop x k, .lit v => predsInsert m x k (.lit v)
            | .prop x k, .param p => predsInsert m x k (.param p)
            | _, _ => m) := by
        intro l rr m hm
        split
        · exact PredsClosed.insert m hm _ _ _ trivial
        · exact PredsClosed.insert m hm _ _ _ trivial
        · exact hm
      exact chk b a _ (chk a b m hm)
    | _ => simpa [extractPredicates] using hm
  | _ => intro m hm; simpa [extractPredicates] using hm

theorem PredsClosed.nil : PredsClosed [] := by intro x f h; simp [List.lookup] at h

theorem pushedOK_congr (x : String) (m : Preds) (hm : PredsClosed m) (r r' : Row) (h : r.get x = r'.get x) :
    pushedOK A env x m r = pushedOK A env x m r' := by
  unfold pushedOK
  cases hl : m.lookup x with
  | none => rfl
  | some fields =>
    apply all_congr_mem
    intro kv hkv
    have hc := hm x fields hl kv hkv
    obtain ⟨k, v⟩ := kv
    cases v <;> simp [ClosedVal] at hc <;> simp [evalBool, eval, h]

theorem filter_flatMap_filter {α β} (l : List α) (p : α → Bool) (f : α → List β) (w : β → Bool)
    (h : ∀ r ∈ l, ∀ x ∈ f r, w x = true → p r = true) :
    ((l.filter p).flatMap f).filter w = (l.flatMap f).filter w := by
  induction l with
  | nil => rfl
  | cons r rest ih =>
    have ih' := ih (fun r' hr' => h r' (List.mem_cons_of_mem _ hr'))
    by_cases hp : p r = true
    · simp only [List.filter_cons, hp, ↓reduceIte, List.flatMap_cons, List.filter_append, ih']
    · simp only [List.filter_cons, hp, Bool.false_eq_true, ↓reduceIte, List.flatMap_cons, List.filter_append, ih']
      have : (f r).filter w = [] := by
        rw [List.filter_eq_nil_iff]
        intro x hx hw
        exact hp (h r (by simp) x hx hw)
      rw [this, List.nil_append]

theorem filter_filter_implied {α} (l : List α) (q w : α → Bool) (h : ∀ x, w x = true → q x = true) :
    (l.filter q).filter w = l.filter w := by
  rw [List.filter_filter]
  apply List.filter_congr
  intro x _
  by_cases hw : w x = true
  · simp [hw, h x hw]
  · simp [hw]

/-- rows of one outgoing step keep every binding of the input row except the new ones -/
theorem stepOut_get (g : Graph) (r : Row) (s : Nat) (rels : List String) (ev : Option String) (d : String)
    (dl : List String) (pa : String) (c : String) (hcd : c ≠ d) (hcp : c ≠ pa) (hce : ∀ y, ev = some y → c ≠ y) :
    ∀ x ∈ Exec.stepOut g r s rels ev d dl (some pa), x.get c = r.get c := by
  intro x hx
  unfold Exec.stepOut at hx
  obtain ⟨e, _, he⟩ := List.mem_filterMap.mp hx
  split at he
  · cases he
  · simp only [Option.some.injEq] at he
    subst he
    have h1 : ∀ (row : Row), (Exec.joinPathOpt row (some pa) e.src e e.dst).get c = row.get c := by
      intro row
      simp only [Exec.joinPathOpt, Exec.joinPath]
      split <;> exact Row.get_set_ne _ pa c _ hcp
    rw [h1, Row.get_set_ne _ d c _ hcd]
    cases ev with
    | none => rfl
    | some y => exact Row.get_set_ne _ y c _ (hce y rfl)

/-! ### the plan of `(a:la)-[ev:rels]->(d:dl)` and its rows -/

def hopPlan (a : String) (la : List String) (ev : Option String) (rels : List String) (d : String) (dl : List String)
    (preds : Preds) (pa : String) : Plan :=
  let h := applyFilters (.matchOut (nodePlan a la preds) a rels ev d dl false (some pa)) d preds
  match ev with | some ea => applyFilters h ea preds | none => h

/-- the hidden path alias of the first chain of a query -/
def pa0 : String := (genPath {}).1

abbrev hopPat (a : String) (la : List String) (ev : Option String) (rels : List String) (d : String)
    (dl : List String) : PathPat := ⟨⟨some a, la, []⟩, [(⟨ev, rels, .out, []⟩, ⟨some d, dl, []⟩)]⟩

theorem compileMatch_hop (a d : String) (la dl rels : List String) (ev : Option String) (preds : Preds) :
    compileMatch none [hopPat a la ev rels d dl] preds {} =
      .ok (compileChain none (hopPat a la ev rels d dl) preds [] {}) := by
  cases ev <;>
  simp [compileMatch, maybeReanchor, validatePattern, boundAsNode, usesOuter, lastNode, bind, Except.bind,
    pure, Except.pure, List.lookup]

theorem compileChain_hop (a d : String) (la dl rels : List String) (ev : Option String) (preds : Preds) :
    (compileChain none (hopPat a la ev rels d dl) preds [] {}).1 = hopPlan a la ev rels d dl preds pa0 := by
  unfold compileChain hopPlan nodePlan pa0
  simp only [extendPreds, List.foldl_nil, compileChain.hops, mkHop, List.contains_nil, boundAsNode, List.lookup,
    Bool.or_self, List.isEmpty_nil]
  cases ev <;> simp <;>
    (cases la.head? with
      | none => rfl
      | some l =>
        cases (List.lookup a preds).bind (·.head?) with
        | none => rfl
        | some fv => rfl)

theorem nodeRows_shape (a : String) (la : List String) (preds : Preds) :
    ∀ r ∈ ((scanRows env a la.head?).filter (pushedOK A env a preds)).filter (labelOK A env a la),
      ∃ id, r = [(a, Val.node id)] := by
  intro r hr
  have h1 := (List.mem_filter.mp (List.mem_filter.mp hr).1).1
  unfold scanRows at h1
  obtain ⟨n, _, rfl⟩ := List.mem_map.mp h1
  exact ⟨n.id, rfl⟩

theorem exec_hopPlan (a d pa : String) (la dl rels : List String) (ev : Option String) (preds : Preds) :
    Exec.exec A env (hopPlan a la ev rels d dl preds pa) = .ok
      ((((((scanRows env a la.head?).filter (pushedOK A env a preds)).filter (labelOK A env a la)).flatMap
          (stepOutRow env a rels ev d dl pa)).filter (pushedOK A env d preds)).filter
        (match ev with | some ea => pushedOK A env ea preds | none => fun _ => true)) := by
  have hx : Exec.exec A env (.matchOut (nodePlan a la preds) a rels ev d dl false (some pa)) = .ok
      ((((scanRows env a la.head?).filter (pushedOK A env a preds)).filter (labelOK A env a la)).flatMap
        (stepOutRow env a rels ev d dl pa)) := by
    simp only [Exec.exec, exec_nodePlan, bind, Except.bind]
    rw [expandOut_flatMap]
    · rfl
    · intro r hr
      obtain ⟨id, rfl⟩ := nodeRows_shape A env a la preds r hr
      exact ⟨id, Row.get_singleton a _⟩
  unfold hopPlan
  cases ev with
  | none =>
    simp only [filter_const_true]
    exact exec_applyFilters A env _ _ hx d preds
  | some ea =>
    exact exec_applyFilters A env _ _ (exec_applyFilters A env _ _ hx d preds) ea preds

/-! ### compile-time scope of the hop plan -/

theorem lookup_mergeKind_fresh (m : Kinds) (k : String) (v : Kind) (h : m.lookup k = none) (x : String) :
    (mergeKind m k v).lookup x = if x == k then some v else m.lookup x := by
  unfold mergeKind
  rw [h]
  exact lookup_insertSorted m k v x

theorem mergeKind_same (m : Kinds) (k : String) (v : Kind) (h : m.lookup k = some v) : mergeKind m k v = m := by
  unfold mergeKind
  simp [h]

theorem outKinds_filters (P : Plan) (x : String) (m : Preds) : outKinds (applyFilters P x m) = outKinds P := by
  unfold applyFilters; split
  · split <;> rfl
  · rfl

theorem pa0_internal : isInternalPath pa0 = true := by decide

theorem lookup_outKinds_hop (a d : String) (la dl rels : List String) (ev : Option String) (preds : Preds)
    (had : a ≠ d) (hev : ∀ e, ev = some e → e ≠ a ∧ e ≠ d) (x : String) :
    (outKinds (hopPlan a la ev rels d dl preds pa0)).lookup x =
      match ev with
      | some e => if x == e then some Kind.rel else if x == d then some .node else if x == a then some .node else none
      | none => if x == d then some Kind.node else if x == a then some .node else none := by
  have hbase : outKinds (Plan.matchOut (nodePlan a la preds) a rels ev d dl false (some pa0)) =
      matchKinds [(a, Kind.node)] a ev d (some pa0) := by
    show matchKinds (outKinds (nodePlan a la preds)) a ev d (some pa0) = _
    rw [outKinds_nodePlan]
  have hda : (d == a) = false := by simpa using fun h : d = a => had h.symm
  have h1 : mergeKind [(a, Kind.node)] a .node = [(a, Kind.node)] := mergeKind_same _ _ _ (by simp [List.lookup])
  have h2 : ([(a, Kind.node)] : Kinds).lookup d = none := by simp [List.lookup, hda]
  unfold hopPlan
  cases ev with
  | none =>
    simp only [outKinds_filters, hbase, matchKinds, pa0_internal, ↓reduceIte, h1]
    rw [lookup_mergeKind_fresh _ d .node h2]
    simp [List.lookup]
    cases hxa : x == a <;> simp_all
  | some e =>
    obtain ⟨hea, hed⟩ := hev e rfl
    simp only [outKinds_filters, hbase, matchKinds, pa0_internal, ↓reduceIte, h1]
    have h3 : (mergeKind [(a, Kind.node)] d .node).lookup e = none := by
      rw [lookup_mergeKind_fresh _ d .node h2]
      have : (e == d) = false := by simpa using hed
      have : (e == a) = false := by simpa using hea
      simp [List.lookup, *]
    rw [lookup_mergeKind_fresh _ e .rel h3, lookup_mergeKind_fresh _ d .node h2]
    simp [List.lookup]
    cases hxa : x == a <;> simp_all

theorem KOk_hop (a d : String) (la dl rels : List String) (ev : Option String) (preds : Preds)
    (had : a ≠ d) (hev : ∀ e, ev = some e → e ≠ a ∧ e ≠ d) :
    KOk (outKinds (hopPlan a la ev rels d dl preds pa0)) ([a] ++ ev.toList ++ [d]) := by
  intro x
  rw [lookup_outKinds_hop a d la dl rels ev preds had hev x]
  cases ev with
  | none =>
    by_cases hxd : x = d
    · subst hxd; simp
    · by_cases hxa : x = a
      · subst hxa; simp [hxd]
      · simp [hxd, hxa]
  | some e =>
    by_cases hxe : x = e
    · subst hxe; simp
    · by_cases hxd : x = d
      · subst hxd; simp [hxe]
      · by_cases hxa : x = a
        · subst hxa; simp [hxe, hxd]
        · simp [hxe, hxd, hxa]

/-! ### F1a, single outgoing hop: assembly -/

theorem compileClauses_hopMatch (a d : String) (la dl rels : List String) (ev : Option String) (tail : Query) :
    ∃ st, compileClauses (.match_ false [hopPat a la ev rels d dl] :: tail) {} =
      compileClauses tail { plan := some (hopPlan a la ev rels d dl (predsOf tail) pa0), st := st, pending := none } := by
  refine ⟨(compileChain none (hopPat a la ev rels d dl) (predsOf tail) [] {}).2, ?_⟩
  have hpair : compileChain none (hopPat a la ev rels d dl) (predsOf tail) [] {} =
      (hopPlan a la ev rels d dl (predsOf tail) pa0,
        (compileChain none (hopPat a la ev rels d dl) (predsOf tail) [] {}).2) := by
    rw [← compileChain_hop a d la dl rels ev (predsOf tail)]
  cases tail with
  | nil =>
    simp only [compileClauses, bind, Except.bind, predsOf] at hpair ⊢
    rw [compileMatch_hop, hpair]
    simp
  | cons c rest =>
    cases c <;> simp only [compileClauses, bind, Except.bind, predsOf] at hpair ⊢ <;>
      rw [compileMatch_hop, hpair] <;> simp only [Bool.false_eq_true, ↓reduceIte]

theorem filter_comm' {α} (l : List α) (p q : α → Bool) : (l.filter p).filter q = (l.filter q).filter p := by
  rw [List.filter_filter, List.filter_filter]
  apply List.filter_congr
  intro x _
  exact Bool.and_comm _ _

/-- the rows of the hop plan under the following WHERE are those of the plan without push-down -/
theorem hop_pushdown_elim (hsym : EqSymm A) (a d pa : String) (la dl rels : List String) (ev : Option String)
    (w : Expr) (had : a ≠ d) (hap : a ≠ pa) (hae : ∀ e, ev = some e → a ≠ e) :
    ((((((scanRows env a la.head?).filter (pushedOK A env a (extractPredicates w []))).filter (labelOK A env a la)).flatMap
          (stepOutRow env a rels ev d dl pa)).filter (pushedOK A env d (extractPredicates w []))).filter
        (match ev with | some ea => pushedOK A env ea (extractPredicates w []) | none => fun _ => true)).filter
        (evalBool A env · w) =
      (((scanRows env a la.head?).filter (labelOK A env a la)).flatMap (stepOutRow env a rels ev d dl pa)).filter
        (evalBool A env · w) := by
  have hold : ∀ x, evalBool A env x w = true → PredsHold A env (extractPredicates w []) x :=
    fun x hw => extractPredicates_hold A env hsym x w [] hw (PredsHold.nil A env x)
  have hclosed : PredsClosed (extractPredicates w []) := extractPredicates_closed w [] PredsClosed.nil
  rw [filter_filter_implied _ _ _ (by
        intro x hw
        cases ev with
        | none => rfl
        | some ea => exact pushedOK_of_hold A env ea _ x (hold x hw)),
      filter_filter_implied _ _ _ (fun x hw => pushedOK_of_hold A env d _ x (hold x hw)),
      filter_comm', filter_flatMap_filter]
  intro r _ x hx hw
  have hpx := pushedOK_of_hold A env a _ x (hold x hw)
  unfold stepOutRow at hx
  split at hx
  · rename_i s hs
    have hget := stepOut_get env.g r s rels ev d dl pa a had hap hae x hx
    rw [← pushedOK_congr A env a _ hclosed x r hget]
    exact hpx
  · cases hx

/-- **C11 on F1a, single outgoing hop** — `MATCH (a:La)-[ev:T…]->(d:Ld)` as the first clause (anchor scan, label
    filters, MatchOut with destination labels and the hidden path column `__nervus_internal_path_0`, WHERE
    push-down on all three aliases), followed by core clauses without DISTINCT / SKIP / LIMIT, on a graph without
    parallel relationship copies: the modelled engine and the reference return the same bag of rows. -/
theorem f1a_hop_out_agrees (hsym : EqSymm A) (hg : env.g.NodesDistinct) (hnp : NoParallel env.g)
    (a d : String) (la dl rels : List String) (ev : Option String) (tail : Query)
    (hrels : rels.Nodup) (had : a ≠ d) (hev : ∀ e, ev = some e → e ≠ a ∧ e ≠ d)
    (hap : a ≠ pa0) (hdp : d ≠ pa0) (hep : ∀ e, ev = some e → e ≠ pa0) (hin : pa0 ∉ introduced tail)
    (hc : bagClauses true tail = true)
    (hs : Spec.WellScoped (.match_ false [hopPat a la ev rels d dl] :: tail)) :
    Agrees (Exec.run A env (.match_ false [hopPat a la ev rels d dl] :: tail))
      (Spec.denote A env (.match_ false [hopPat a la ev rels d dl] :: tail)) := by
  obtain ⟨st, hcomp⟩ := compileClauses_hopMatch a d la dl rels ev tail
  unfold Spec.WellScoped at hs
  have hs1 : (Spec.scopeAfter ([a] ++ ev.toList ++ [d]) tail).isSome = true := by
    cases ev <;> simpa [Spec.scopeAfter, Spec.patsOk, Spec.patVars] using hs
  obtain ⟨s', hs'⟩ := Option.isSome_iff_exists.mp hs1
  have hpas : pa0 ∉ [a] ++ ev.toList ++ [d] := by
    cases ev with
    | none => simp [hap.symm, hdp.symm]
    | some e => simp [hap.symm, hdp.symm, (hep e rfl).symm]
  have hind := core_induction A env tail true
    { plan := some (hopPlan a la ev rels d dl (predsOf tail) pa0), st := st, pending := none } _ _ s'
    (bagClauses_core tail true hc) hs' rfl (fun _ => rfl)
    (exec_hopPlan A env a d pa0 la dl rels ev (predsOf tail)) (KOk_hop a d la dl rels ev (predsOf tail) had hev)
  have hrun : Exec.run A env (.match_ false [hopPat a la ev rels d dl] :: tail) =
      runLoop A env tail { plan := some (hopPlan a la ev rels d dl (predsOf tail) pa0), st := st, pending := none } := by
    unfold Exec.run compile runLoop
    rw [hcomp]
    rfl
  have hspec : Spec.denote A env (.match_ false [hopPat a la ev rels d dl] :: tail) =
      Spec.denoteClauses A env tail
        (((scanRows env a la.head?).filter (labelOK A env a la)).flatMap
          (specStep A env a [(⟨ev, rels, .out, []⟩, ⟨some d, dl, []⟩)])) := by
    unfold Spec.denote
    rw [if_pos hs, ← spec_chain_rows A env hg a la]
    cases tail with
    | nil => simp [Spec.denoteClauses]
    | cons c rest => cases c <;> simp [Spec.denoteClauses]
  have hrel : HRel pa0 (((scanRows env a la.head?).filter (labelOK A env a la)).flatMap (stepOutRow env a rels ev d dl pa0))
      (((scanRows env a la.head?).filter (labelOK A env a la)).flatMap
        (specStep A env a [(⟨ev, rels, .out, []⟩, ⟨some d, dl, []⟩)])) := by
    apply hop_out_rel A env hnp a d pa0 ev rels hrels dl _ _ hap hdp
    · intro x hx; obtain ⟨h1, h2⟩ := hev x hx; exact ⟨hep x hx, h2, h1⟩
    · intro r hr
      have h1 := (List.mem_filter.mp hr).1
      unfold scanRows at h1
      obtain ⟨n, _, rfl⟩ := List.mem_map.mp h1
      exact ⟨n.id, rfl⟩
  -- what the tail computes from the model rows and from the reference rows
  have key : ∃ R' R, Spec.denoteClauses A env tail
        ((((((scanRows env a la.head?).filter (pushedOK A env a (predsOf tail))).filter (labelOK A env a la)).flatMap
          (stepOutRow env a rels ev d dl pa0)).filter (pushedOK A env d (predsOf tail))).filter
        (match ev with | some ea => pushedOK A env ea (predsOf tail) | none => fun _ => true)) = .ok R' ∧
      Spec.denoteClauses A env tail (((scanRows env a la.head?).filter (labelOK A env a la)).flatMap
          (specStep A env a [(⟨ev, rels, .out, []⟩, ⟨some d, dl, []⟩)])) = .ok R ∧ R'.rows.Perm R.rows := by
    cases tail with
    | nil => simp [bagClauses] at hc
    | cons c rest =>
      cases c with
      | where_ w =>
        have hc' : bagClauses true rest = true := by simpa [bagClauses] using hc
        simp only [Spec.scopeAfter] at hs'
        split at hs'
        · rename_i hok
          simp only [Spec.denoteClauses, predsOf]
          rw [hop_pushdown_elim A env hsym a d pa0 la dl rels ev w had hap (fun e he => (hev e he).1.symm)]
          exact denote_bag_congr A env pa0 rest true _ s' _ _ hc' hs' hpas (by simpa [introduced] using hin)
            (HRel.filter A env pa0 _ _ hrel w (not_mem_vars_of_exprOk _ w pa0 hpas hok))
        · cases hs'
      | match_ o ps => simp [bagClauses] at hc
      | unwind e x =>
        have hp : ∀ y, pushedOK A env y [] = fun _ => true := by intro y; funext r; rfl
        have : predsOf (Clause.unwind e x :: rest) = [] := rfl
        rw [this]
        simp only [hp, filter_const_true]
        cases ev <;> simp only [filter_const_true] <;>
          exact denote_bag_congr A env pa0 _ true _ s' _ _ hc hs' hpas hin hrel
      | with_ p w =>
        have hp : ∀ y, pushedOK A env y [] = fun _ => true := by intro y; funext r; rfl
        have : predsOf (Clause.with_ p w :: rest) = [] := rfl
        rw [this]
        simp only [hp, filter_const_true]
        cases ev <;> simp only [filter_const_true] <;>
          exact denote_bag_congr A env pa0 _ true _ s' _ _ hc hs' hpas hin hrel
      | return_ p =>
        have hp : ∀ y, pushedOK A env y [] = fun _ => true := by intro y; funext r; rfl
        have : predsOf (Clause.return_ p :: rest) = [] := rfl
        rw [this]
        simp only [hp, filter_const_true]
        cases ev <;> simp only [filter_const_true] <;>
          exact denote_bag_congr A env pa0 _ true _ s' _ _ hc hs' hpas hin hrel
  obtain ⟨R', R, h1, h2, hperm⟩ := key
  rw [hrun, hind, hspec, h1, h2]
  unfold Agrees agreesB
  simp only [Except.map]
  exact List.isPerm_iff.mpr hperm

end Nervus.Cy
