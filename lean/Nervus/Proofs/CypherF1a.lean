/-
  C11 on F1a: one MATCH clause followed by core clauses.  Part 1: the reference's core clauses are congruent under
  "same bag of rows after erasing a hidden column" — what relates the rows of a MATCH plan (which carry the hidden
  `__nervus_internal_path_N` column and come in the engine's enumeration order) to the reference's rows.
-/
import Nervus.Proofs.CypherCore
import Nervus.Proofs.CypherJoin
namespace Nervus.Cy
open Nervus.Cy Nervus.Cy.Compile

variable (A : Algebra) (env : Env)

theorem perm_flatMap_left {α β} (f : α → List β) {l₁ l₂ : List α} (h : l₁.Perm l₂) :
    (l₁.flatMap f).Perm (l₂.flatMap f) := by
  induction h with
  | nil => exact List.Perm.refl _
  | cons x _ ih => simp only [List.flatMap_cons]; exact List.Perm.append_left _ ih
  | swap x y l =>
    simp only [List.flatMap_cons, ← List.append_assoc]
    exact List.Perm.append_right _ List.perm_append_comm
  | trans _ _ ih1 ih2 => exact ih1.trans ih2

/-- expressions that do not mention the hidden column do not see it -/
theorem eval_eraseCol (pa : String) (r : Row) (e : Expr) (h : pa ∉ e.vars) :
    eval A env (eraseCol pa r) e = eval A env r e := by
  induction e with
  | lit l => rfl
  | var x =>
    have : x ≠ pa := fun hx => h (by simp [Expr.vars, hx])
    simp only [eval, get_eraseCol_ne pa x r this]
  | prop x k =>
    have : x ≠ pa := fun hx => h (by simp [Expr.vars, hx])
    simp only [eval, get_eraseCol_ne pa x r this]
  | param p => rfl
  | cmp op a b iha ihb =>
    simp only [Expr.vars, List.mem_append, not_or] at h
    simp only [eval, iha h.1, ihb h.2]
  | bool op a b iha ihb =>
    simp only [Expr.vars, List.mem_append, not_or] at h
    simp only [eval, iha h.1, ihb h.2]
  | not a ih => simp only [Expr.vars] at h; simp only [eval, ih h]
  | isNull a ih => simp only [Expr.vars] at h; simp only [eval, ih h]
  | isNotNull a ih => simp only [Expr.vars] at h; simp only [eval, ih h]
  | hasLabel a l ih => simp only [Expr.vars] at h; simp only [eval, ih h]
  | listLit xs => rfl

theorem not_mem_vars_of_exprOk (s : List String) (e : Expr) (pa : String) (hs : pa ∉ s)
    (he : Spec.exprOk s e = true) : pa ∉ e.vars := by
  unfold Spec.exprOk at he
  rw [all_contains_iff] at he
  exact fun h => hs (he pa h)

theorem eraseCol_of_not_mem (pa : String) (r : Row) (h : pa ∉ r.cols) : eraseCol pa r = r := by
  unfold eraseCol
  rw [List.filter_eq_self]
  intro p hp
  have : p.1 ≠ pa := fun hh => h (hh ▸ List.mem_map_of_mem (f := (·.1)) hp)
  simpa using this

/-- model table `T'` against reference table `T`: the same bag once the hidden column `pa` is erased -/
def HRel (pa : String) (T' T : Table) : Prop := (T'.map (eraseCol pa)).Perm T

theorem HRel.filter (pa : String) (T' T : Table) (h : HRel pa T' T) (e : Expr) (he : pa ∉ e.vars) :
    HRel pa (T'.filter (evalBool A env · e)) (T.filter (evalBool A env · e)) := by
  unfold HRel at *
  have : (T'.filter (evalBool A env · e)).map (eraseCol pa) =
      (T'.map (eraseCol pa)).filter (evalBool A env · e) := by
    rw [List.filter_map]
    congr 1
    apply List.filter_congr
    intro r _
    simp only [Function.comp, evalBool, eval_eraseCol A env pa r e he]
  rw [this]
  exact h.filter _

theorem denoteUnwind_erase (pa : String) (T' : Table) (e : Expr) (x : String) (he : pa ∉ e.vars) (hx : x ≠ pa) :
    (Spec.denoteUnwind A env e x T').map (eraseCol pa) = Spec.denoteUnwind A env e x (T'.map (eraseCol pa)) := by
  unfold Spec.denoteUnwind
  rw [List.map_flatMap, List.flatMap_map]
  apply flatMap_congr_mem
  intro r _
  rw [eval_eraseCol A env pa r e he]
  cases eval A env r e <;> simp [eraseCol_set_ne pa x r _ hx, List.map_map, Function.comp_def]

theorem HRel.unwind (pa : String) (T' T : Table) (h : HRel pa T' T) (e : Expr) (x : String) (he : pa ∉ e.vars)
    (hx : x ≠ pa) : HRel pa (Spec.denoteUnwind A env e x T') (Spec.denoteUnwind A env e x T) := by
  unfold HRel at *
  rw [denoteUnwind_erase A env pa T' e x he hx]
  exact perm_flatMap_left _ h

/-! ### projections of the bag regime -/

def projOut (p : Proj) (r : Row) : Row := p.items.map fun it => (it.alias, Spec.itemVal A env [r] it)

theorem denoteProj_bag (p : Proj) (T : Table) (hb : bagProj p = true) :
    Spec.denoteProj A env p none T = .ok (T.map (projOut A env p)) := by
  unfold bagProj coreProj at hb
  simp only [Bool.and_eq_true, Bool.not_eq_true', List.isEmpty_iff, Option.isNone_iff_eq_none] at hb
  obtain ⟨⟨⟨⟨hplain, hord⟩, hdist⟩, hskip⟩, hlim⟩ := hb
  simp [Spec.denoteProj, Spec.window, hskip, hlim, hord, hdist, Spec.projectRows, hplain, bind, Except.bind, pure,
    Except.pure, List.map_map, Function.comp_def, projOut]

theorem projOut_erase (pa : String) (p : Proj) (s : List String) (hs : pa ∉ s)
    (hitems : p.items.all (fun it => match it.expr with | .plain e => Spec.exprOk s e | .agg _ a => Spec.exprOk s a) = true)
    (hplain : p.items.any Spec.isAgg = false) (r : Row) :
    projOut A env p (eraseCol pa r) = projOut A env p r := by
  unfold projOut
  apply List.map_congr_left
  intro it hit
  have h1 := List.all_eq_true.mp hitems it hit
  have h2 : Spec.isAgg it = false := by simpa using List.any_eq_false.mp hplain it hit
  obtain ⟨ex, al⟩ := it
  cases ex with
  | plain e =>
    simp only at h1
    simp only [Spec.itemVal, eval_eraseCol A env pa r e (not_mem_vars_of_exprOk s e pa hs h1)]
  | agg k a => simp [Spec.isAgg] at h2

theorem HRel.proj (pa : String) (T' T : Table) (h : HRel pa T' T) (p : Proj) (s : List String) (hs : pa ∉ s)
    (hitems : p.items.all (fun it => match it.expr with | .plain e => Spec.exprOk s e | .agg _ a => Spec.exprOk s a) = true)
    (hplain : p.items.any Spec.isAgg = false) (hal : pa ∉ p.items.map (·.alias)) :
    HRel pa (T'.map (projOut A env p)) (T.map (projOut A env p)) := by
  unfold HRel at *
  have : (T'.map (projOut A env p)).map (eraseCol pa) = (T'.map (eraseCol pa)).map (projOut A env p) := by
    rw [List.map_map, List.map_map]
    apply List.map_congr_left
    intro r _
    simp only [Function.comp]
    rw [projOut_erase A env pa p s hs hitems hplain r]
    apply eraseCol_of_not_mem
    simpa [projOut, Row.cols, List.map_map, Function.comp_def] using hal
  rw [this]
  exact h.map _

/-! ### the reference's core clauses respect `HRel` -/

theorem denote_bag_congr (pa : String) (q : Query) : ∀ (b : Bool) (s s' : List String) (T' T : Table),
    bagClauses b q = true → Spec.scopeAfter s q = some s' → pa ∉ s → pa ∉ introduced q → HRel pa T' T →
    ∃ R' R, Spec.denoteClauses A env q T' = .ok R' ∧ Spec.denoteClauses A env q T = .ok R ∧
      R'.rows.Perm R.rows := by
  induction q with
  | nil => intro b s s' T' T hc; cases b <;> simp [bagClauses] at hc
  | cons c rest ih =>
    intro b s s' T' T hc hs hpa hin hrel
    cases c with
    | match_ o ps => cases b <;> simp [bagClauses] at hc
    | where_ e =>
      cases b with
      | false => simp [bagClauses] at hc
      | true =>
        have hc' : bagClauses true rest = true := by simpa [bagClauses] using hc
        simp only [Spec.scopeAfter] at hs
        split at hs
        · rename_i hok
          simp only [Spec.denoteClauses]
          exact ih true s s' _ _ hc' hs hpa (by simpa [introduced] using hin)
            (HRel.filter A env pa T' T hrel e (not_mem_vars_of_exprOk s e pa hpa hok))
        · cases hs
    | unwind e x =>
      have hc' : bagClauses true rest = true := by cases b <;> simpa [bagClauses] using hc
      simp only [introduced, List.mem_cons, not_or] at hin
      simp only [Spec.scopeAfter] at hs
      split at hs
      · rename_i hok
        simp only [Bool.and_eq_true] at hok
        simp only [Spec.denoteClauses]
        refine ih true (s ++ [x]) s' _ _ hc' hs ?_ hin.2
          (HRel.unwind A env pa T' T hrel e x (not_mem_vars_of_exprOk s e pa hpa hok.1) (fun h => hin.1 h.symm))
        simp only [List.mem_append, List.mem_singleton, not_or]
        exact ⟨hpa, hin.1⟩
      · cases hs
    | with_ p w =>
      cases w with
      | some w => cases b <;> simp [bagClauses] at hc
      | none =>
        have hc' : bagProj p = true ∧ bagClauses true rest = true := by
          cases b <;> simpa [bagClauses] using hc
        simp only [introduced, List.mem_append, not_or] at hin
        simp only [Spec.scopeAfter] at hs
        split at hs
        · rename_i hok
          have hb := hc'.1
          unfold bagProj coreProj at hb
          simp only [Bool.and_eq_true, Bool.not_eq_true', List.isEmpty_iff, Option.isNone_iff_eq_none] at hb
          unfold Spec.projOk at hok
          simp only [Bool.and_eq_true] at hok
          obtain ⟨⟨⟨⟨_, _⟩, hitems⟩, _⟩, _⟩ := hok
          simp only [Spec.denoteClauses, denoteProj_bag A env p _ hc'.1, bind, Except.bind]
          exact ih true _ s' _ _ hc'.2 hs hin.1 hin.2
            (HRel.proj A env pa T' T hrel p s hpa hitems hb.1.1.1.1 hin.1)
        · cases hs
    | return_ p =>
      have hc' : bagProj p = true ∧ rest = [] := by
        cases rest with
        | nil => cases b <;> simpa [bagClauses] using hc
        | cons c' r' => cases b <;> simp [bagClauses] at hc
      obtain ⟨hcp, rfl⟩ := hc'
      simp only [introduced, List.append_nil] at hin
      simp only [Spec.scopeAfter, List.isEmpty_nil, Bool.and_true] at hs
      split at hs
      · rename_i hok
        have hb := hcp
        unfold bagProj coreProj at hb
        simp only [Bool.and_eq_true, Bool.not_eq_true', List.isEmpty_iff, Option.isNone_iff_eq_none] at hb
        unfold Spec.projOk at hok
        simp only [Bool.and_eq_true] at hok
        obtain ⟨⟨⟨⟨_, _⟩, hitems⟩, _⟩, _⟩ := hok
        have hr := HRel.proj A env pa T' T hrel p s hpa hitems hb.1.1.1.1 hin
        have hord : p.orderBy = [] := hb.1.1.1.2
        refine ⟨.bag (T'.map (projOut A env p)), .bag (T.map (projOut A env p)), ?_, ?_, ?_⟩
        · simp [Spec.denoteClauses, denoteProj_bag A env p _ hcp, bind, Except.bind, pure, Except.pure, hord]
        · simp [Spec.denoteClauses, denoteProj_bag A env p _ hcp, bind, Except.bind, pure, Except.pure, hord]
        · show (T'.map (projOut A env p)).Perm (T.map (projOut A env p))
          unfold HRel at hr
          have hid : (T'.map (projOut A env p)).map (eraseCol pa) = T'.map (projOut A env p) := by
            rw [List.map_map]
            apply List.map_congr_left
            intro r _
            apply eraseCol_of_not_mem
            simpa [projOut, Row.cols, List.map_map, Function.comp_def] using hin
          rw [hid] at hr
          exact hr
      · cases hs

/-! ## Part 2: the MATCH step.  Filters the planner stacks on a plan -/

theorem filter_const_true {α} (l : List α) : l.filter (fun _ => true) = l := by
  induction l with
  | nil => rfl
  | cons x xs ih => simp [List.filter_cons, ih]

/-- the pushed-down equality conjuncts recorded for alias `x` hold on row `r` -/
def pushedOK (x : String) (m : Preds) (r : Row) : Bool :=
  match m.lookup x with
  | some fields => fields.all fun kv => evalBool A env r (.cmp .eq (.prop x kv.1) kv.2)
  | none => true

def labelOK (x : String) (ls : List String) (r : Row) : Bool :=
  ls.all fun l => evalBool A env r (.bool .or (.isNull (.var x)) (.hasLabel (.var x) l))

theorem exec_applyFilters (P : Plan) (R : Table) (h : Exec.exec A env P = .ok R) (x : String) (m : Preds) :
    Exec.exec A env (applyFilters P x m) = .ok (R.filter (pushedOK A env x m)) := by
  unfold applyFilters pushedOK
  cases hl : m.lookup x with
  | none => simp [h, filter_const_true]
  | some fields =>
    cases hc : andChain (fields.map fun (kv : String × Expr) => Expr.cmp .eq (.prop x kv.1) kv.2) with
    | none =>
      have : fields = [] := by
        have := (andChain_nil_iff _).mp hc
        simpa using this
      subst this
      simp [andChain, h, filter_const_true]
    | some e =>
      have hc' : andChain (fields.map fun x_1 => match x_1 with | (k, v) => Expr.cmp CmpOp.eq (Expr.prop x k) v) = some e := hc
      simp only [hc', Exec.exec, h, bind, Except.bind, pure, Except.pure]
      congr 1
      apply List.filter_congr
      intro r _
      rw [evalBool_andChain A env r _ e hc, List.all_map]
      rfl

theorem exec_applyLabelFilters (P : Plan) (R : Table) (h : Exec.exec A env P = .ok R) (x : String) (ls : List String) :
    Exec.exec A env (applyLabelFilters P x ls) = .ok (R.filter (labelOK A env x ls)) := by
  unfold applyLabelFilters labelOK
  cases hc : andChain (ls.map fun l => Expr.bool .or (.isNull (.var x)) (.hasLabel (.var x) l)) with
  | none =>
    have : ls = [] := by
      have := (andChain_nil_iff _).mp hc
      simpa using this
    subst this
    simp [h, filter_const_true]
  | some e =>
    simp only [Exec.exec, h, bind, Except.bind, pure, Except.pure]
    congr 1
    apply List.filter_congr
    intro r _
    rw [evalBool_andChain A env r _ e hc, List.all_map]
    rfl

/-! ### what `extract_predicates` pushes down is implied by the WHERE it was extracted from -/

theorem mem_insertSorted {β} (m : List (String × β)) (k : String) (v : β) (p : String × β)
    (h : p ∈ insertSorted m k v) : p = (k, v) ∨ p ∈ m := by
  induction m with
  | nil => simp [insertSorted] at h; exact Or.inl h
  | cons q rest ih =>
    obtain ⟨k', v'⟩ := q
    simp only [insertSorted] at h
    split at h
    · rcases List.mem_cons.mp h with h | h
      · exact Or.inl h
      · exact Or.inr h
    · split at h
      · rcases List.mem_cons.mp h with h | h
        · exact Or.inl h
        · exact Or.inr (List.mem_cons_of_mem _ h)
      · rcases List.mem_cons.mp h with h | h
        · exact Or.inr (h ▸ List.mem_cons_self)
        · rcases ih h with h | h
          · exact Or.inl h
          · exact Or.inr (List.mem_cons_of_mem _ h)

/-- every recorded conjunct holds on `r` -/
def PredsHold (m : Preds) (r : Row) : Prop :=
  ∀ x fields, m.lookup x = some fields → ∀ kv ∈ fields, evalBool A env r (.cmp .eq (.prop x kv.1) kv.2) = true

theorem PredsHold.insert (m : Preds) (r : Row) (h : PredsHold A env m r) (x k : String) (v : Expr)
    (hv : evalBool A env r (.cmp .eq (.prop x k) v) = true) : PredsHold A env (predsInsert m x k v) r := by
  intro x' fields hl kv hkv
  unfold predsInsert at hl
  rw [lookup_insertSorted] at hl
  by_cases hx : (x' == x) = true
  · have hxx : x' = x := by simpa using hx
    subst hxx
    simp only [hx, ↓reduceIte, Option.some.injEq] at hl
    subst hl
    rcases mem_insertSorted _ k v kv hkv with rfl | hmem
    · exact hv
    · cases hm : m.lookup x' with
      | none => simp [hm] at hmem
      | some f0 =>
        simp only [hm, Option.getD_some] at hmem
        exact h x' f0 hm kv hmem
  · simp only [hx, Bool.false_eq_true, ↓reduceIte] at hl
    exact h x' fields hl kv hkv

theorem PredsHold.nil (r : Row) : PredsHold A env [] r := by
  intro x fields hl; simp [List.lookup] at hl

/-- `=` of the value algebra is symmetric (true of every equality the engine implements; needed because
    `extract_predicates` also accepts `<literal> = x.k`) -/
def EqSymm (A : Algebra) : Prop := ∀ a b, A.cmp .eq a b = A.cmp .eq b a

theorem extractPredicates_hold (hsym : EqSymm A) (r : Row) (w : Expr) :
    ∀ m, evalBool A env r w = true → PredsHold A env m r → PredsHold A env (extractPredicates w m) r := by
  induction w with
  | bool op a b iha ihb =>
    intro m hw hm
    cases op with
    | and =>
      simp only [extractPredicates]
      have := hw
      rw [evalBool_and, Bool.and_eq_true] at this
      exact ihb _ this.2 (iha _ this.1 hm)
    | _ => simpa [extractPredicates] using hm
  | cmp op a b _ _ =>
    intro m hw hm
    cases op with
    | eq =>
      have hw' : evalBool A env r (.cmp .eq b a) = true := by
        simp only [evalBool, eval] at hw ⊢
        rw [hsym]; exact hw
      simp only [extractPredicates]
      have chk : ∀ (l rr : Expr) (m : Preds), evalBool A env r (.cmp .eq l rr) = true → PredsHold A env m r →
          PredsHold A env (match l, rr with
            | .prop x k, .lit v => predsInsert m x k (.lit v)
            | .prop x k, .param p => predsInsert m x k (.param p)
            | _, _ => m) r := by
        intro l rr m hlr hm
        split
        · exact PredsHold.insert A env m r hm _ _ _ hlr
        · exact PredsHold.insert A env m r hm _ _ _ hlr
        · exact hm
      exact chk b a _ hw' (chk a b m hw hm)
    | _ => simpa [extractPredicates] using hm
  | _ => intro m _ hm; simpa [extractPredicates] using hm

theorem pushedOK_of_hold (x : String) (m : Preds) (r : Row) (h : PredsHold A env m r) : pushedOK A env x m r = true := by
  unfold pushedOK
  cases hl : m.lookup x with
  | none => rfl
  | some fields =>
    simp only [List.all_eq_true]
    exact fun kv hkv => h x fields hl kv hkv

/-! ### F1a, node patterns: `MATCH (a:L1:L2…)` as the first clause, then core clauses -/

def scanRows (a : String) (l : Option String) : Table :=
  (env.g.nodes.filter fun n => match l with | some l => n.labels.contains l | none => true).map
    fun n => [(a, Val.node n.id)]

/-- the plan `compile_pattern_chain` builds for a fresh single-node pattern without property map -/
def nodePlan (a : String) (ls : List String) (preds : Preds) : Plan :=
  let start : Plan := .nodeScan a ls.head?
  let start := match ls.head?, (preds.lookup a).bind (·.head?) with
    | some l, some (field, v) => Plan.indexSeek a l field v start
    | _, _ => start
  applyLabelFilters (applyFilters start a preds) a ls

theorem compileChain_node (a : String) (ls : List String) (preds : Preds) (s : St) :
    (compileChain none ⟨⟨some a, ls, []⟩, []⟩ preds [] s).1 = nodePlan a ls preds := by
  unfold compileChain nodePlan
  simp only [extendPreds, List.foldl_nil, compileChain.hops]
  cases ls.head? with
  | none => rfl
  | some l =>
    cases (preds.lookup a).bind (·.head?) with
    | none => rfl
    | some fv => rfl

theorem exec_nodePlan (a : String) (ls : List String) (preds : Preds) :
    Exec.exec A env (nodePlan a ls preds) =
      .ok (((scanRows env a ls.head?).filter (pushedOK A env a preds)).filter (labelOK A env a ls)) := by
  unfold nodePlan
  apply exec_applyLabelFilters
  apply exec_applyFilters
  cases ls.head? with
  | none => rfl
  | some l =>
    cases (preds.lookup a).bind (·.head?) with
    | none => rfl
    | some fv => obtain ⟨f, v⟩ := fv; rfl

theorem outKinds_nodePlan (a : String) (ls : List String) (preds : Preds) :
    outKinds (nodePlan a ls preds) = [(a, Kind.node)] := by
  have h1 : ∀ P x m, outKinds (applyFilters P x m) = outKinds P := by
    intro P x m; unfold applyFilters; split
    · split <;> rfl
    · rfl
  have h2 : ∀ P x l, outKinds (applyLabelFilters P x l) = outKinds P := by
    intro P x l; unfold applyLabelFilters; split <;> rfl
  unfold nodePlan
  rw [h2, h1]
  cases ls.head? with
  | none => rfl
  | some l =>
    cases (preds.lookup a).bind (·.head?) with
    | none => rfl
    | some fv =>
      obtain ⟨f, v⟩ := fv
      simp [outKinds, outKindsAcc, mergeKind, List.lookup, insertSorted]

/-- the reference rows of the node pattern -/
theorem spec_node_rows (hg : env.g.NodesDistinct) (a : String) (ls : List String) :
    Spec.denoteMatch A env false [⟨⟨some a, ls, []⟩, []⟩] [[]] = (scanRows env a ls.head?).filter (labelOK A env a ls) := by
  have h1 := scan_label_correct A env hg a ls []
  rw [exec_applyLabelFilters A env (.nodeScan a ls.head?) (scanRows env a ls.head?) rfl a ls] at h1
  have h1' := Except.ok.inj h1
  rw [h1']
  simp [Spec.denoteMatch, Spec.matches_, Spec.matchPats, List.flatMap_cons, List.map_flatMap]

theorem bagClauses_core (q : Query) : ∀ b, bagClauses b q = true → coreClauses b q = true := by
  induction q with
  | nil => intro b h; cases b <;> simp [bagClauses] at h
  | cons c rest ih =>
    intro b h
    cases c with
    | match_ o ps => cases b <;> simp [bagClauses] at h
    | where_ e => cases b <;> simp [bagClauses, coreClauses] at h ⊢; exact ih true h
    | unwind e x => cases b <;> simp [bagClauses, coreClauses] at h ⊢ <;> exact ih true h
    | with_ p w =>
      cases w with
      | some w => cases b <;> simp [bagClauses] at h
      | none =>
        cases b <;> simp [bagClauses, coreClauses, bagProj] at h ⊢ <;> exact ⟨h.1.1.1.1, ih true h.2⟩
    | return_ p =>
      cases rest with
      | nil => cases b <;> simp [bagClauses, coreClauses, bagProj] at h ⊢ <;> exact h.1.1.1
      | cons c' r' => cases b <;> simp [bagClauses] at h

/-- predicates pushed down from the clause that follows the MATCH -/
def predsOf (tail : Query) : Preds := match tail with | .where_ w :: _ => extractPredicates w [] | _ => []

theorem compileClauses_nodeMatch (a : String) (ls : List String) (tail : Query) :
    ∃ st, compileClauses (.match_ false [⟨⟨some a, ls, []⟩, []⟩] :: tail) {} =
      compileClauses tail { plan := some (nodePlan a ls (predsOf tail)), st := st, pending := none } := by
  have hm : ∀ preds, compileMatch none [⟨⟨some a, ls, []⟩, []⟩] preds {} =
      .ok (compileChain none ⟨⟨some a, ls, []⟩, []⟩ preds [] {}) := by
    intro preds
    simp only [compileMatch, List.forIn_cons, List.forIn_nil, maybeReanchor, List.isEmpty_nil, ↓reduceIte,
      validatePattern, bind, Except.bind, pure, Except.pure, List.lookup, boundAsNode, usesOuter, List.map_nil,
      List.any_cons, List.any_nil, Bool.or_false, Bool.false_eq_true]
  refine ⟨(compileChain none ⟨⟨some a, ls, []⟩, []⟩ (predsOf tail) [] {}).2, ?_⟩
  have hpair : compileChain none ⟨⟨some a, ls, []⟩, []⟩ (predsOf tail) [] {} =
      (nodePlan a ls (predsOf tail), (compileChain none ⟨⟨some a, ls, []⟩, []⟩ (predsOf tail) [] {}).2) := by
    rw [← compileChain_node a ls (predsOf tail) {}]
  cases tail with
  | nil =>
    simp only [compileClauses, bind, Except.bind, predsOf] at hpair ⊢
    rw [hm, hpair]
    simp
  | cons c rest =>
    cases c <;> simp only [compileClauses, bind, Except.bind, predsOf] at hpair ⊢ <;> rw [hm, hpair] <;>
      simp only [Bool.false_eq_true, ↓reduceIte]

/-- **C11 on F1a, node patterns** — `MATCH (a:L1:L2…)` followed by any core clauses (WHERE with its equality
    conjuncts pushed down into the scan / an IndexSeek, UNWIND, WITH, RETURN with DISTINCT / SKIP / LIMIT): the
    modelled engine returns exactly the reference's list of rows, or the same error. -/
theorem f1a_node_refines (hsym : EqSymm A) (hg : env.g.NodesDistinct) (a : String) (ls : List String) (tail : Query)
    (hc : coreClauses true tail = true)
    (hs : Spec.WellScoped (.match_ false [⟨⟨some a, ls, []⟩, []⟩] :: tail)) :
    Exec.run A env (.match_ false [⟨⟨some a, ls, []⟩, []⟩] :: tail) =
      (Spec.denote A env (.match_ false [⟨⟨some a, ls, []⟩, []⟩] :: tail)).map Spec.Result.rows := by
  obtain ⟨st, hcomp⟩ := compileClauses_nodeMatch a ls tail
  unfold Spec.WellScoped at hs
  have hs1 : (Spec.scopeAfter [a] tail).isSome = true := by
    simpa [Spec.scopeAfter, Spec.patsOk, Spec.patVars] using hs
  obtain ⟨s', hs'⟩ := Option.isSome_iff_exists.mp hs1
  have hK : KOk (outKinds (nodePlan a ls (predsOf tail))) [a] := by
    rw [outKinds_nodePlan]
    intro v
    by_cases hv : v = a
    · subst hv; simp [List.lookup]
    · have : (v == a) = false := by simpa using hv
      simp [List.lookup, this, hv]
  have hind := core_induction A env tail true
    { plan := some (nodePlan a ls (predsOf tail)), st := st, pending := none } _ [a] s' hc hs' rfl (fun _ => rfl)
    (exec_nodePlan A env a ls (predsOf tail)) hK
  have hrun : Exec.run A env (.match_ false [⟨⟨some a, ls, []⟩, []⟩] :: tail) =
      runLoop A env tail { plan := some (nodePlan a ls (predsOf tail)), st := st, pending := none } := by
    unfold Exec.run compile runLoop
    rw [hcomp]
    rfl
  rw [hrun, hind]
  unfold Spec.denote
  rw [if_pos hs]
  have hspec : Spec.denoteClauses A env (.match_ false [⟨⟨some a, ls, []⟩, []⟩] :: tail) [[]] =
      Spec.denoteClauses A env tail ((scanRows env a ls.head?).filter (labelOK A env a ls)) := by
    rw [← spec_node_rows A env hg a ls]
    cases tail with
    | nil => simp [Spec.denoteClauses]
    | cons c rest => cases c <;> simp [Spec.denoteClauses]
  rw [hspec]
  congr 1
  -- the pushed-down conjuncts do not change what the tail computes
  cases tail with
  | nil => simp [coreClauses] at hc
  | cons c rest =>
    cases c with
    | where_ w =>
      simp only [Spec.denoteClauses, predsOf]
      congr 1
      rw [List.filter_filter, List.filter_filter, List.filter_filter]
      apply List.filter_congr
      intro r _
      by_cases hw : evalBool A env r w = true
      · have := pushedOK_of_hold A env a _ r
          (extractPredicates_hold A env hsym r w [] hw (PredsHold.nil A env r))
        simp [hw, this]
      · simp [hw]
    | match_ o ps => simp [coreClauses] at hc
    | unwind e x =>
      have : predsOf (Clause.unwind e x :: rest) = [] := rfl
      rw [this]
      have hp : pushedOK A env a [] = fun _ => true := by funext r; rfl
      rw [hp, filter_const_true]
    | with_ p w =>
      have : predsOf (Clause.with_ p w :: rest) = [] := rfl
      rw [this]
      have hp : pushedOK A env a [] = fun _ => true := by funext r; rfl
      rw [hp, filter_const_true]
    | return_ p =>
      have : predsOf (Clause.return_ p :: rest) = [] := rfl
      rw [this]
      have hp : pushedOK A env a [] = fun _ => true := by funext r; rfl
      rw [hp, filter_const_true]

end Nervus.Cy
