/-
  C11 on F1a: one MATCH clause followed by core clauses.  Part 1: the reference's core clauses are congruent under
  "same bag of rows after erasing a hidden column" — what relates the rows of a MATCH plan (which carry the hidden
  `__nervus_internal_path_N` column and come in the engine's enumeration order) to the reference's rows.
-/
import Nervus.Proofs.CypherCore
import Nervus.Proofs.CypherJoin
namespace Nervus.Cy
open Nervus.Cy Nervus.Cy.Compile

variable (A : Algebra) (env : Env)

theorem perm_flatMap_left {α β} (f : α → List β) {l₁ l₂ : List α} (h : l₁.Perm l₂) :
    (l₁.flatMap f).Perm (l₂.flatMap f) := by
  induction h with
  | nil => exact List.Perm.refl _
  | cons x _ ih => simp only [List.flatMap_cons]; exact List.Perm.append_left _ ih
  | swap x y l =>
    simp only [List.flatMap_cons, ← List.append_assoc]
    exact List.Perm.append_right _ List.perm_append_comm
  | trans _ _ ih1 ih2 => exact ih1.trans ih2

/-- expressions that do not mention the hidden column do not see it -/
theorem eval_eraseCol (pa : String) (r : Row) (e : Expr) (h : pa ∉ e.vars) :
    eval A env (eraseCol pa r) e = eval A env r e := by
  induction e with
  | lit l => rfl
  | var x =>
    have : x ≠ pa := fun hx => h (by simp [Expr.vars, hx])
    simp only [eval, get_eraseCol_ne pa x r this]
  | prop x k =>
    have : x ≠ pa := fun hx => h (by simp [Expr.vars, hx])
    simp only [eval, get_eraseCol_ne pa x r this]
  | param p => rfl
  | cmp op a b iha ihb =>
    simp only [Expr.vars, List.mem_append, not_or] at h
    simp only [eval, iha h.1, ihb h.2]
  | bool op a b iha ihb =>
    simp only [Expr.vars, List.mem_append, not_or] at h
    simp only [eval, iha h.1, ihb h.2]
  | not a ih => simp only [Expr.vars] at h; simp only [eval, ih h]
  | isNull a ih => simp only [Expr.vars] at h; simp only [eval, ih h]
  | isNotNull a ih => simp only [Expr.vars] at h; simp only [eval, ih h]
  | hasLabel a l ih => simp only [Expr.vars] at h; simp only [eval, ih h]
  | listLit xs => rfl

theorem not_mem_vars_of_exprOk (s : List String) (e : Expr) (pa : String) (hs : pa ∉ s)
    (he : Spec.exprOk s e = true) : pa ∉ e.vars := by
  unfold Spec.exprOk at he
  rw [all_contains_iff] at he
  exact fun h => hs (he pa h)

theorem eraseCol_of_not_mem (pa : String) (r : Row) (h : pa ∉ r.cols) : eraseCol pa r = r := by
  unfold eraseCol
  rw [List.filter_eq_self]
  intro p hp
  have : p.1 ≠ pa := fun hh => h (hh ▸ List.mem_map_of_mem (f := (·.1)) hp)
  simpa using this

/-- model table `T'` against reference table `T`: the same bag once the hidden column `pa` is erased -/
def HRel (pa : String) (T' T : Table) : Prop := (T'.map (eraseCol pa)).Perm T

theorem HRel.filter (pa : String) (T' T : Table) (h : HRel pa T' T) (e : Expr) (he : pa ∉ e.vars) :
    HRel pa (T'.filter (evalBool A env · e)) (T.filter (evalBool A env · e)) := by
  unfold HRel at *
  have : (T'.filter (evalBool A env · e)).map (eraseCol pa) =
      (T'.map (eraseCol pa)).filter (evalBool A env · e) := by
    rw [List.filter_map]
    congr 1
    apply List.filter_congr
    intro r _
    simp only [Function.comp, evalBool, eval_eraseCol A env pa r e he]
  rw [this]
  exact h.filter _

theorem denoteUnwind_erase (pa : String) (T' : Table) (e : Expr) (x : String) (he : pa ∉ e.vars) (hx : x ≠ pa) :
    (Spec.denoteUnwind A env e x T').map (eraseCol pa) = Spec.denoteUnwind A env e x (T'.map (eraseCol pa)) := by
  unfold Spec.denoteUnwind
  rw [List.map_flatMap, List.flatMap_map]
  apply flatMap_congr_mem
  intro r _
  rw [eval_eraseCol A env pa r e he]
  cases eval A env r e <;> simp [eraseCol_set_ne pa x r _ hx, List.map_map, Function.comp_def]

theorem HRel.unwind (pa : String) (T' T : Table) (h : HRel pa T' T) (e : Expr) (x : String) (he : pa ∉ e.vars)
    (hx : x ≠ pa) : HRel pa (Spec.denoteUnwind A env e x T') (Spec.denoteUnwind A env e x T) := by
  unfold HRel at *
  rw [denoteUnwind_erase A env pa T' e x he hx]
  exact perm_flatMap_left _ h

/-! ### projections of the bag regime -/

def projOut (p : Proj) (r : Row) : Row := p.items.map fun it => (it.alias, Spec.itemVal A env [r] it)

theorem denoteProj_bag (p : Proj) (T : Table) (hb : bagProj p = true) :
    Spec.denoteProj A env p none T = .ok (T.map (projOut A env p)) := by
  unfold bagProj coreProj at hb
  simp only [Bool.and_eq_true, Bool.not_eq_true', List.isEmpty_iff, Option.isNone_iff_eq_none] at hb
  obtain ⟨⟨⟨⟨hplain, hord⟩, hdist⟩, hskip⟩, hlim⟩ := hb
  simp [Spec.denoteProj, Spec.window, hskip, hlim, hord, hdist, Spec.projectRows, hplain, bind, Except.bind, pure,
    Except.pure, List.map_map, Function.comp_def, projOut]

theorem projOut_erase (pa : String) (p : Proj) (s : List String) (hs : pa ∉ s)
    (hitems : p.items.all (fun it => match it.expr with | .plain e => Spec.exprOk s e | .agg _ a => Spec.exprOk s a) = true)
    (hplain : p.items.any Spec.isAgg = false) (r : Row) :
    projOut A env p (eraseCol pa r) = projOut A env p r := by
  unfold projOut
  apply List.map_congr_left
  intro it hit
  have h1 := List.all_eq_true.mp hitems it hit
  have h2 : Spec.isAgg it = false := by simpa using List.any_eq_false.mp hplain it hit
  obtain ⟨ex, al⟩ := it
  cases ex with
  | plain e =>
    simp only at h1
    simp only [Spec.itemVal, eval_eraseCol A env pa r e (not_mem_vars_of_exprOk s e pa hs h1)]
  | agg k a => simp [Spec.isAgg] at h2

theorem HRel.proj (pa : String) (T' T : Table) (h : HRel pa T' T) (p : Proj) (s : List String) (hs : pa ∉ s)
    (hitems : p.items.all (fun it => match it.expr with | .plain e => Spec.exprOk s e | .agg _ a => Spec.exprOk s a) = true)
    (hplain : p.items.any Spec.isAgg = false) (hal : pa ∉ p.items.map (·.alias)) :
    HRel pa (T'.map (projOut A env p)) (T.map (projOut A env p)) := by
  unfold HRel at *
  have : (T'.map (projOut A env p)).map (eraseCol pa) = (T'.map (eraseCol pa)).map (projOut A env p) := by
    rw [List.map_map, List.map_map]
    apply List.map_congr_left
    intro r _
    simp only [Function.comp]
    rw [projOut_erase A env pa p s hs hitems hplain r]
    apply eraseCol_of_not_mem
    simpa [projOut, Row.cols, List.map_map, Function.comp_def] using hal
  rw [this]
  exact h.map _

/-! ### the reference's core clauses respect `HRel` -/

theorem denote_bag_congr (pa : String) (q : Query) : ∀ (b : Bool) (s s' : List String) (T' T : Table),
    bagClauses b q = true → Spec.scopeAfter s q = some s' → pa ∉ s → pa ∉ introduced q → HRel pa T' T →
    ∃ R' R, Spec.denoteClauses A env q T' = .ok R' ∧ Spec.denoteClauses A env q T = .ok R ∧
      R'.rows.Perm R.rows := by
  induction q with
  | nil => intro b s s' T' T hc; cases b <;> simp [bagClauses] at hc
  | cons c rest ih =>
    intro b s s' T' T hc hs hpa hin hrel
    cases c with
    | match_ o ps => cases b <;> simp [bagClauses] at hc
    | where_ e =>
      cases b with
      | false => simp [bagClauses] at hc
      | true =>
        have hc' : bagClauses true rest = true := by simpa [bagClauses] using hc
        simp only [Spec.scopeAfter] at hs
        split at hs
        · rename_i hok
          simp only [Spec.denoteClauses]
          exact ih true s s' _ _ hc' hs hpa (by simpa [introduced] using hin)
            (HRel.filter A env pa T' T hrel e (not_mem_vars_of_exprOk s e pa hpa hok))
        · cases hs
    | unwind e x =>
      have hc' : bagClauses true rest = true := by cases b <;> simpa [bagClauses] using hc
      simp only [introduced, List.mem_cons, not_or] at hin
      simp only [Spec.scopeAfter] at hs
      split at hs
      · rename_i hok
        simp only [Bool.and_eq_true] at hok
        simp only [Spec.denoteClauses]
        refine ih true (s ++ [x]) s' _ _ hc' hs ?_ hin.2
          (HRel.unwind A env pa T' T hrel e x (not_mem_vars_of_exprOk s e pa hpa hok.1) (fun h => hin.1 h.symm))
        simp only [List.mem_append, List.mem_singleton, not_or]
        exact ⟨hpa, hin.1⟩
      · cases hs
    | with_ p w =>
      cases w with
      | some w => cases b <;> simp [bagClauses] at hc
      | none =>
        have hc' : bagProj p = true ∧ bagClauses true rest = true := by
          cases b <;> simpa [bagClauses] using hc
        simp only [introduced, List.mem_append, not_or] at hin
        simp only [Spec.scopeAfter] at hs
        split at hs
        · rename_i hok
          have hb := hc'.1
          unfold bagProj coreProj at hb
          simp only [Bool.and_eq_true, Bool.not_eq_true', List.isEmpty_iff, Option.isNone_iff_eq_none] at hb
          unfold Spec.projOk at hok
          simp only [Bool.and_eq_true] at hok
          obtain ⟨⟨⟨⟨_, _⟩, hitems⟩, _⟩, _⟩ := hok
          simp only [Spec.denoteClauses, denoteProj_bag A env p _ hc'.1, bind, Except.bind]
          exact ih true _ s' _ _ hc'.2 hs hin.1 hin.2
            (HRel.proj A env pa T' T hrel p s hpa hitems hb.1.1.1.1 hin.1)
        · cases hs
    | return_ p =>
      have hc' : bagProj p = true ∧ rest = [] := by
        cases rest with
        | nil => cases b <;> simpa [bagClauses] using hc
        | cons c' r' => cases b <;> simp [bagClauses] at hc
      obtain ⟨hcp, rfl⟩ := hc'
      simp only [introduced, List.append_nil] at hin
      simp only [Spec.scopeAfter, List.isEmpty_nil, Bool.and_true] at hs
      split at hs
      · rename_i hok
        have hb := hcp
        unfold bagProj coreProj at hb
        simp only [Bool.and_eq_true, Bool.not_eq_true', List.isEmpty_iff, Option.isNone_iff_eq_none] at hb
        unfold Spec.projOk at hok
        simp only [Bool.and_eq_true] at hok
        obtain ⟨⟨⟨⟨_, _⟩, hitems⟩, _⟩, _⟩ := hok
        have hr := HRel.proj A env pa T' T hrel p s hpa hitems hb.1.1.1.1 hin
        have hord : p.orderBy = [] := hb.1.1.1.2
        refine ⟨.bag (T'.map (projOut A env p)), .bag (T.map (projOut A env p)), ?_, ?_, ?_⟩
        · simp [Spec.denoteClauses, denoteProj_bag A env p _ hcp, bind, Except.bind, pure, Except.pure, hord]
        · simp [Spec.denoteClauses, denoteProj_bag A env p _ hcp, bind, Except.bind, pure, Except.pure, hord]
        · show (T'.map (projOut A env p)).Perm (T.map (projOut A env p))
          unfold HRel at hr
          have hid : (T'.map (projOut A env p)).map (eraseCol pa) = T'.map (projOut A env p) := by
            rw [List.map_map]
            apply List.map_congr_left
            intro r _
            apply eraseCol_of_not_mem
            simpa [projOut, Row.cols, List.map_map, Function.comp_def] using hin
          rw [hid] at hr
          exact hr
      · cases hs

end Nervus.Cy
