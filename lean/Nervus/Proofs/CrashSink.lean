/-
  Proofs.CrashSink — compaction's property sinking into a single-leaf tree (no split): the
  actions, the leaf it builds, and the block judgement for the crash images.
-/
import Nervus.Proofs.CrashPBlk
namespace Nervus.Crash

/-! ### sorted insertion -/

def insNat (q : Nat) : List Nat → List Nat
  | [] => [q]
  | e :: es => if e < q then e :: insNat q es else q :: e :: es

theorem insertSorted_map (q : Nat) : ∀ xs : List Nat, insertSorted q (xs.map some) = (insNat q xs).map some
  | [] => rfl
  | e :: es => by
    simp only [List.map_cons, insertSorted, insNat, optLt]
    by_cases h : e < q <;> simp [h, insertSorted_map q es]

theorem mem_insNat (q y : Nat) : ∀ xs : List Nat, y ∈ insNat q xs ↔ y = q ∨ y ∈ xs
  | [] => by simp [insNat]
  | e :: es => by
    simp only [insNat]
    by_cases h : e < q
    · simp only [h, if_true, List.mem_cons, mem_insNat q y es]
      constructor
      · rintro (h1 | h1 | h1)
        · exact Or.inr (Or.inl h1)
        · exact Or.inl h1
        · exact Or.inr (Or.inr h1)
      · rintro (h1 | h1 | h1)
        · exact Or.inr (Or.inl h1)
        · exact Or.inl h1
        · exact Or.inr (Or.inr h1)
    · simp [h]

theorem length_insNat (q : Nat) : ∀ xs : List Nat, (insNat q xs).length = xs.length + 1
  | [] => rfl
  | e :: es => by
    simp only [insNat]
    by_cases h : e < q <;> simp [h, length_insNat q es]

theorem pairwise_insNat (q : Nat) : ∀ xs : List Nat, xs.Pairwise (· ≤ ·) → (insNat q xs).Pairwise (· ≤ ·)
  | [], _ => by simp [insNat]
  | e :: es, h => by
    rw [List.pairwise_cons] at h
    simp only [insNat]
    by_cases hq : e < q
    · simp only [hq, if_true, List.pairwise_cons]
      refine ⟨?_, pairwise_insNat q es h.2⟩
      intro y hy
      rcases (mem_insNat q y es).mp hy with rfl | hy
      · omega
      · exact h.1 y hy
    · simp only [hq, if_false, List.pairwise_cons]
      refine ⟨?_, h.1, h.2⟩
      intro y hy
      rcases List.mem_cons.mp hy with rfl | hy
      · omega
      · have := h.1 y hy; omega

theorem sortedNat_insNat (q : Nat) (xs : List Nat) (h : SortedNat xs) : SortedNat (insNat q xs) :=
  (sortedNat_iff _).mpr (pairwise_insNat q xs ((sortedNat_iff _).mp h))

/-- the leaf after sinking `qs` one by one -/
def sinkXs : List Nat → List Nat → List Nat
  | xs, [] => xs
  | xs, q :: qs => sinkXs (insNat q xs) qs

theorem mem_sinkXs (y : Nat) : ∀ (qs xs : List Nat), y ∈ sinkXs xs qs ↔ y ∈ xs ∨ y ∈ qs
  | [], xs => by simp [sinkXs]
  | q :: qs, xs => by
    rw [sinkXs, mem_sinkXs y qs, mem_insNat, List.mem_cons]
    constructor
    · rintro ((h | h) | h)
      · exact Or.inr (Or.inl h)
      · exact Or.inl h
      · exact Or.inr (Or.inr h)
    · rintro (h | h | h)
      · exact Or.inl (Or.inr h)
      · exact Or.inl (Or.inl h)
      · exact Or.inr h

theorem sortedNat_sinkXs : ∀ (qs xs : List Nat), SortedNat xs → SortedNat (sinkXs xs qs)
  | [], _, h => h
  | q :: qs, xs, h => sortedNat_sinkXs qs _ (sortedNat_insNat q xs h)

/-! ### one insertion without split -/

/-- a tree that consists of one intact leaf -/
structure Leaf1 (t : TreeImg) (xs : List Nat) (pid : Nat) : Prop where
  leaves : t.leaves = [⟨xs.map some, false, pid⟩]
  noinode : t.inode = none

def sunk (t : TreeImg) (xs qs : List Nat) (pid : Nat) : TreeImg :=
  { t with blobs := qs.reverse ++ t.blobs, leaves := [⟨(sinkXs xs qs).map some, false, pid⟩] }

/-- the key is not in the leaf yet: `replace_property_entry` deletes nothing -/
theorem filter_ne_some (q : Nat) (xs : List Nat) (h : q ∉ xs) :
    (xs.map some).filter (fun e => e != some q) = xs.map some := by
  rw [List.filter_eq_self]
  intro e he
  obtain ⟨x, hx, rfl⟩ := List.mem_map.mp he
  have : x ≠ q := fun h' => h (h' ▸ hx)
  simpa using this

theorem sinkOneA_eq (cfg : Cfg) (ps : PS) (t : TreeImg) (q : Nat) (xs : List Nat) (pid : Nat) (h : Leaf1 t xs pid)
    (hcap : xs.length < cfg.leafCap) (hq : q ∉ xs) :
    sinkOneA cfg ps t q =
      ((allocA ps).1 ++ [ioA (.pg (.blob t.key q) (allocA ps).2.2)] ++
          [ioA (.pg (.leaf t.key 0 ((insNat q xs).map some) false pid) pid)],
        (allocA ps).2.1, sunk t xs [q] pid) := by
  have hl := h.leaves
  unfold sinkOneA
  simp only [hl, List.length_singleton, Nat.sub_self, List.getD_cons_zero, filter_ne_some q xs hq, List.length_map, hcap, if_true,
    Nat.lt_irrefl, if_false, List.append_nil,
    insertSorted_map, setLeaf, sunk, sinkXs, List.reverse_singleton, List.singleton_append]

def sinkEffs (key pid : Nat) : List Nat → List Nat → List PEff
  | _, [] => []
  | xs, q :: qs => .blob key q :: .leaf key 0 ((insNat q xs).map some) false pid :: sinkEffs key pid (insNat q xs) qs

theorem leaf1_sunk {t : TreeImg} {xs : List Nat} {pid : Nat} (h : Leaf1 t xs pid) (qs : List Nat) :
    Leaf1 (sunk t xs qs pid) (sinkXs xs qs) pid := ⟨rfl, h.noinode⟩

theorem sunk_sunk (t : TreeImg) (xs : List Nat) (q : Nat) (qs : List Nat) (pid : Nat) :
    sunk (sunk t xs [q] pid) (insNat q xs) qs pid = sunk t xs (q :: qs) pid := by
  simp [sunk, sinkXs, List.append_assoc]

variable {p0 : PImg} {live lo : Nat} {allowed covered : List Nat} {lv : LiveP}

/-- **sinking without split**: block judgement, resulting scratch tree -/
theorem pblk_sink (cfg : Cfg) :
    ∀ (qs : List Nat) (nd : Nat) (ps : PS) (t : TreeImg) (xs : List Nat) (pid : Nat),
      SameKey p0.hdr ps.pm → min ps.bm ps.pm.nextPage = nd → Leaf1 t xs pid → xs.length + qs.length ≤ cfg.leafCap →
      qs.Nodup → (∀ q ∈ qs, q ∉ xs) →
      (t.key ≠ live ∨ (lv.Xi = [] ∧ SortedNat xs ∧ (∀ x ∈ xs, x ∈ allowed) ∧ (∀ x ∈ covered, x ∈ xs) ∧ ∀ q ∈ qs, q ∈ allowed)) →
      PBlk p0 live allowed covered lv lo nd ps (sinkA cfg ps t qs).1 (sinkEffs t.key pid xs qs) (nd + qs.length)
        (sinkA cfg ps t qs).2.1 ∧
      (sinkA cfg ps t qs).2.2 = sunk t xs qs pid
  | [], nd, ps, t, xs, pid, hsk, hnp, hl, _, _, _, _ => by
    refine ⟨by simpa [sinkA, sinkEffs] using PBlk.nil (live := live) (lo := lo) (allowed := allowed) (covered := covered) (lv := lv) hsk hnp, ?_⟩
    simp only [sinkA, sunk, sinkXs, List.reverse_nil, List.nil_append, ← hl.leaves]
  | q :: qs, nd, ps, t, xs, pid, hsk, hnp, hl, hcap, hnd, hfresh, hsafe => by
    have hcap1 : xs.length < cfg.leafCap := by simp at hcap; omega
    have hnd' := List.nodup_cons.mp hnd
    have hone := sinkOneA_eq cfg ps t q xs pid hl hcap1 (hfresh q (by simp))
    obtain ⟨ba, hpid, _⟩ := pblk_alloc_eq (p0 := p0) (live := live) (lo := lo) (allowed := allowed) (covered := covered) (lv := lv) ps hsk hnp
    have bb := pblk_write (p0 := p0) (live := live) (lo := lo) (allowed := allowed) (covered := covered) (lv := lv) ba.sk ba.np
      (.blob t.key q) (allocA ps).2.2 trivial
    have hleaf : CEff p0 live allowed covered lv lo (nd + 1) (.leaf t.key 0 ((insNat q xs).map some) false pid) := by
      rcases hsafe with h | ⟨h0, h1, h2, h3, h4⟩
      · exact Or.inl h
      · refine Or.inr ⟨by rw [h0]; rfl, rfl, insNat q xs, rfl, by rw [h0]; simpa using sortedNat_insNat q xs h1,
          fun hx => absurd h0 hx, ?_, ?_⟩
        · intro y hy
          rcases (mem_insNat q y xs).mp hy with rfl | hy
          · exact h4 _ (by simp)
          · exact h2 y hy
        · intro y hy
          rw [h0]
          simpa using (mem_insNat q y xs).mpr (Or.inr (h3 y hy))
    have bl := pblk_write (p0 := p0) (live := live) (lo := lo) (allowed := allowed) (covered := covered) (lv := lv) ba.sk ba.np
      (.leaf t.key 0 ((insNat q xs).map some) false pid) pid hleaf
    have hsafe' : (sunk t xs [q] pid).key ≠ live ∨ (lv.Xi = [] ∧ SortedNat (insNat q xs) ∧ (∀ x ∈ insNat q xs, x ∈ allowed) ∧
        (∀ x ∈ covered, x ∈ insNat q xs) ∧ ∀ q' ∈ qs, q' ∈ allowed) := by
      rcases hsafe with h | ⟨h0, h1, h2, h3, h4⟩
      · exact Or.inl h
      · refine Or.inr ⟨h0, sortedNat_insNat q xs h1, ?_, ?_, fun q' hq' => h4 q' (by simp [hq'])⟩
        · intro y hy
          rcases (mem_insNat q y xs).mp hy with rfl | hy
          · exact h4 _ (by simp)
          · exact h2 y hy
        · intro y hy
          exact (mem_insNat q y xs).mpr (Or.inr (h3 y hy))
    obtain ⟨br, hres⟩ := pblk_sink cfg qs (nd + 1) (allocA ps).2.1 (sunk t xs [q] pid) (insNat q xs) pid ba.sk ba.np
      (leaf1_sunk hl [q]) (by rw [length_insNat]; simp at hcap; omega) hnd'.2
      (by
        intro q' hq' hin
        rcases (mem_insNat q q' xs).mp hin with rfl | hin
        · exact hnd'.1 hq'
        · exact hfresh q' (by simp [hq']) hin) hsafe'
    have hacts : (sinkA cfg ps t (q :: qs)).1 =
        (((allocA ps).1 ++ [ioA (.pg (.blob t.key q) (allocA ps).2.2)]) ++
          [ioA (.pg (.leaf t.key 0 ((insNat q xs).map some) false pid) pid)]) ++
          (sinkA cfg (allocA ps).2.1 (sunk t xs [q] pid) qs).1 := by
      simp only [sinkA, hone]
    have hps : (sinkA cfg ps t (q :: qs)).2.1 = (sinkA cfg (allocA ps).2.1 (sunk t xs [q] pid) qs).2.1 := by
      simp only [sinkA, hone]
    have ht : (sinkA cfg ps t (q :: qs)).2.2 = (sinkA cfg (allocA ps).2.1 (sunk t xs [q] pid) qs).2.2 := by
      simp only [sinkA, hone]
    rw [hacts, hps, ht, hres, sunk_sunk]
    refine ⟨?_, rfl⟩
    have := ((ba.append bb).append bl).append br
    have hl' : nd + (q :: qs).length = nd + 1 + qs.length := by simp; omega
    rw [hl']
    simpa [sinkEffs, sunk] using this

/-! ### the volatile tree after the sink operations -/

theorem treeFind_congr {p p' : PImg} (h : p.trees = p'.trees) (k : Nat) : treeFind p k = treeFind p' k := by
  simp [treeFind, h]

theorem treeFind_sinkEffs (key pid : Nat) : ∀ (qs xs : List Nat) (p : PImg) (t : TreeImg),
    treeFind p key = some t → Leaf1 t xs pid →
    treeFind (applyEffs (sinkEffs key pid xs qs) p) key = some (sunk t xs qs pid)
  | [], xs, p, t, hf, hl => by
    simp only [sinkEffs, applyEffs, List.foldl_nil, hf, sunk, sinkXs, List.reverse_nil, List.nil_append, ← hl.leaves]
  | q :: qs, xs, p, t, hf, hl => by
    have hk : t.key = key := (treeFind_key hf).2
    have h1 : treeFind (applyEff (.blob key q) p) key = some { t with blobs := q :: t.blobs } := by
      have := find_updTree p.trees key (fun t => { t with blobs := q :: t.blobs }) (fun _ => rfl) key
      simp only [treeFind] at hf
      rw [hf] at this
      simpa [treeFind, applyEff, hk] using this
    have h2 : treeFind (applyEff (.leaf key 0 ((insNat q xs).map some) false pid) (applyEff (.blob key q) p)) key =
        some (sunk t xs [q] pid) := by
      have := find_updTree (applyEff (.blob key q) p).trees key
        (fun t => { t with leaves := setLeaf t.leaves 0 ⟨(insNat q xs).map some, false, pid⟩ }) (fun _ => rfl) key
      simp only [treeFind] at h1
      rw [h1] at this
      simpa [treeFind, applyEff, hk, hl.leaves, setLeaf, sunk, sinkXs] using this
    have := treeFind_sinkEffs key pid qs (insNat q xs) _ _ h2 (leaf1_sunk hl [q])
    rw [sunk_sunk] at this
    simpa [sinkEffs, applyEffs] using this

end Nervus.Crash
