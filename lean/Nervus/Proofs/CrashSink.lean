/-
  Proofs.CrashSink — compaction's property sinking into a single-leaf tree (no split): the
  actions, the leaf it builds, and the block judgement for the crash images.
-/
import Nervus.Proofs.CrashPBlk
namespace Nervus.Crash

/-! ### sorted insertion -/

def insNat (q : Nat) : List Nat → List Nat
  | [] => [q]
  | e :: es => if e < q then e :: insNat q es else q :: e :: es

theorem insertSorted_map (q : Nat) : ∀ xs : List Nat, insertSorted q (xs.map some) = (insNat q xs).map some
  | [] => rfl
  | e :: es => by
    simp only [List.map_cons, insertSorted, insNat, optLt]
    by_cases h : e < q <;> simp [h, insertSorted_map q es]

theorem mem_insNat (q y : Nat) : ∀ xs : List Nat, y ∈ insNat q xs ↔ y = q ∨ y ∈ xs
  | [] => by simp [insNat]
  | e :: es => by
    simp only [insNat]
    by_cases h : e < q
    · simp only [h, if_true, List.mem_cons, mem_insNat q y es]
      constructor
      · rintro (h1 | h1 | h1)
        · exact Or.inr (Or.inl h1)
        · exact Or.inl h1
        · exact Or.inr (Or.inr h1)
      · rintro (h1 | h1 | h1)
        · exact Or.inr (Or.inl h1)
        · exact Or.inl h1
        · exact Or.inr (Or.inr h1)
    · simp [h]

theorem length_insNat (q : Nat) : ∀ xs : List Nat, (insNat q xs).length = xs.length + 1
  | [] => rfl
  | e :: es => by
    simp only [insNat]
    by_cases h : e < q <;> simp [h, length_insNat q es]

theorem pairwise_insNat (q : Nat) : ∀ xs : List Nat, xs.Pairwise (· ≤ ·) → (insNat q xs).Pairwise (· ≤ ·)
  | [], _ => by simp [insNat]
  | e :: es, h => by
    rw [List.pairwise_cons] at h
    simp only [insNat]
    by_cases hq : e < q
    · simp only [hq, if_true, List.pairwise_cons]
      refine ⟨?_, pairwise_insNat q es h.2⟩
      intro y hy
      rcases (mem_insNat q y es).mp hy with rfl | hy
      · omega
      · exact h.1 y hy
    · simp only [hq, if_false, List.pairwise_cons]
      refine ⟨?_, h.1, h.2⟩
      intro y hy
      rcases List.mem_cons.mp hy with rfl | hy
      · omega
      · have := h.1 y hy; omega

theorem sortedNat_insNat (q : Nat) (xs : List Nat) (h : SortedNat xs) : SortedNat (insNat q xs) :=
  (sortedNat_iff _).mpr (pairwise_insNat q xs ((sortedNat_iff _).mp h))

/-- `replace_property_entry`: the entry the key already has is deleted, then the key is inserted -/
def rmNat (q : Nat) (xs : List Nat) : List Nat := xs.filter (fun x => x != q)

def insR (q : Nat) (xs : List Nat) : List Nat := insNat q (rmNat q xs)

theorem filter_map_some (q : Nat) (xs : List Nat) :
    (xs.map some).filter (fun e => e != some q) = (rmNat q xs).map some := by
  induction xs with
  | nil => rfl
  | cons x xs ih =>
    by_cases h : x = q
    · subst h; simpa [rmNat] using ih
    · have h1 : (some x != some q) = true := by simpa using h
      have h2 : (x != q) = true := by simpa using h
      simp only [List.map_cons, List.filter_cons, h1, if_true, rmNat, h2, List.cons.injEq, true_and]
      exact ih

theorem mem_rmNat (q y : Nat) (xs : List Nat) : y ∈ rmNat q xs ↔ y ∈ xs ∧ y ≠ q := by
  simp [rmNat]

theorem mem_insR (q y : Nat) (xs : List Nat) : y ∈ insR q xs ↔ y = q ∨ y ∈ xs := by
  rw [insR, mem_insNat, mem_rmNat]
  constructor
  · rintro (h | ⟨h, _⟩)
    · exact Or.inl h
    · exact Or.inr h
  · rintro (h | h)
    · exact Or.inl h
    · by_cases hq : y = q
      · exact Or.inl hq
      · exact Or.inr ⟨h, hq⟩

theorem length_rmNat_le (q : Nat) (xs : List Nat) : (rmNat q xs).length ≤ xs.length := List.length_filter_le _ _

theorem length_insR_le (q : Nat) (xs : List Nat) : (insR q xs).length ≤ xs.length + 1 := by
  rw [insR, length_insNat]; have := length_rmNat_le q xs; omega

theorem sortedNat_rmNat (q : Nat) (xs : List Nat) (h : SortedNat xs) : SortedNat (rmNat q xs) :=
  (sortedNat_iff _).mpr (((sortedNat_iff _).mp h).sublist List.filter_sublist)

theorem sortedNat_insR (q : Nat) (xs : List Nat) (h : SortedNat xs) : SortedNat (insR q xs) :=
  sortedNat_insNat q _ (sortedNat_rmNat q xs h)

/-- the leaf after sinking `qs` one by one -/
def sinkXs : List Nat → List Nat → List Nat
  | xs, [] => xs
  | xs, q :: qs => sinkXs (insR q xs) qs

theorem mem_sinkXs (y : Nat) : ∀ (qs xs : List Nat), y ∈ sinkXs xs qs ↔ y ∈ xs ∨ y ∈ qs
  | [], xs => by simp [sinkXs]
  | q :: qs, xs => by
    rw [sinkXs, mem_sinkXs y qs, mem_insR, List.mem_cons]
    constructor
    · rintro ((h | h) | h)
      · exact Or.inr (Or.inl h)
      · exact Or.inl h
      · exact Or.inr (Or.inr h)
    · rintro (h | h | h)
      · exact Or.inl (Or.inr h)
      · exact Or.inl (Or.inl h)
      · exact Or.inr h

theorem sortedNat_sinkXs : ∀ (qs xs : List Nat), SortedNat xs → SortedNat (sinkXs xs qs)
  | [], _, h => h
  | q :: qs, xs, h => sortedNat_sinkXs qs _ (sortedNat_insR q xs h)

/-! ### one insertion without split -/

/-- a tree that consists of one intact leaf -/
structure Leaf1 (t : TreeImg) (xs : List Nat) (pid : Nat) : Prop where
  leaves : t.leaves = [⟨xs.map some, false, pid⟩]
  noinode : t.inode = none

def sunk (t : TreeImg) (xs qs : List Nat) (pid : Nat) : TreeImg :=
  { t with blobs := qs.reverse ++ t.blobs, leaves := [⟨(sinkXs xs qs).map some, false, pid⟩] }

/-- the key is not in the leaf yet: `replace_property_entry` deletes nothing -/
theorem filter_ne_some (q : Nat) (xs : List Nat) (h : q ∉ xs) :
    (xs.map some).filter (fun e => e != some q) = xs.map some := by
  rw [List.filter_eq_self]
  intro e he
  obtain ⟨x, hx, rfl⟩ := List.mem_map.mp he
  have : x ≠ q := fun h' => h (h' ▸ hx)
  simpa using this

/-- a leaf without unreadable cells -/
theorem all_isSome_map (xs : List Nat) : (xs.map some).all Option.isSome = true := by
  simp

/-- the write that deletes the old entry of the key (if there is one) -/
def delEffs (key pid q : Nat) (xs : List Nat) : List PEff :=
  if (rmNat q xs).length < xs.length then [.leaf key 0 ((rmNat q xs).map some) false pid] else []

theorem sinkOneA_eq (cfg : Cfg) (ps : PS) (t : TreeImg) (q : Nat) (xs : List Nat) (pid : Nat) (h : Leaf1 t xs pid)
    (hcap : (rmNat q xs).length < cfg.leafCap) :
    sinkOneA cfg ps t q =
      ((allocA ps).1 ++ [ioA (.pg (.blob t.key q) (allocA ps).2.2)] ++ (delEffs t.key pid q xs).map (fun e => ioA (.pg e pid)) ++
          [ioA (.pg (.leaf t.key 0 ((insR q xs).map some) false pid) pid)],
        (allocA ps).2.1, sunk t xs [q] pid) := by
  have hl := h.leaves
  unfold sinkOneA
  by_cases hd : (rmNat q xs).length < xs.length
  · simp only [hl, List.length_singleton, Nat.sub_self, List.getD_cons_zero, all_isSome_map, filter_map_some, List.length_map, hcap, hd, if_true,
      insertSorted_map, setLeaf, sunk, sinkXs, insR, delEffs, List.reverse_singleton, List.singleton_append, List.map_cons, List.map_nil]
  · simp only [hl, List.length_singleton, Nat.sub_self, List.getD_cons_zero, all_isSome_map, filter_map_some, List.length_map, hcap, hd, if_true, if_false,
      List.append_nil, insertSorted_map, setLeaf, sunk, sinkXs, insR, delEffs, List.reverse_singleton, List.singleton_append, List.map_nil]

def sinkEffs (key pid : Nat) : List Nat → List Nat → List PEff
  | _, [] => []
  | xs, q :: qs => .blob key q :: (delEffs key pid q xs ++ .leaf key 0 ((insR q xs).map some) false pid :: sinkEffs key pid (insR q xs) qs)

theorem leaf1_sunk {t : TreeImg} {xs : List Nat} {pid : Nat} (h : Leaf1 t xs pid) (qs : List Nat) :
    Leaf1 (sunk t xs qs pid) (sinkXs xs qs) pid := ⟨rfl, h.noinode⟩

theorem sunk_sunk (t : TreeImg) (xs : List Nat) (q : Nat) (qs : List Nat) (pid : Nat) :
    sunk (sunk t xs [q] pid) (insR q xs) qs pid = sunk t xs (q :: qs) pid := by
  simp [sunk, sinkXs, List.append_assoc]

variable {p0 : PImg} {live lo : Nat} {allowed covered : List Nat} {lv : LiveP}

/-- **sinking without split** (keys in any order; a key that is already there is replaced): block
    judgement, resulting scratch tree -/
theorem pblk_sink (cfg : Cfg) :
    ∀ (qs : List Nat) (nd : Nat) (ps : PS) (t : TreeImg) (xs : List Nat) (pid : Nat),
      SameKey p0.hdr ps.pm → min ps.bm ps.pm.nextPage = nd → Leaf1 t xs pid → xs.length + qs.length ≤ cfg.leafCap →
      (t.key ≠ live ∨ (lv.Xi = [] ∧ SortedNat xs ∧ (∀ x ∈ xs, x ∈ allowed) ∧ (∀ x ∈ covered, x ∈ xs) ∧ (∀ q ∈ qs, q ∈ allowed) ∧
        ∀ q ∈ qs, q ∉ covered)) →
      PBlk p0 live allowed covered lv lo nd ps (sinkA cfg ps t qs).1 (sinkEffs t.key pid xs qs) (nd + qs.length)
        (sinkA cfg ps t qs).2.1 ∧
      (sinkA cfg ps t qs).2.2 = sunk t xs qs pid
  | [], nd, ps, t, xs, pid, hsk, hnp, hl, _, _ => by
    refine ⟨by simpa [sinkA, sinkEffs] using PBlk.nil (live := live) (lo := lo) (allowed := allowed) (covered := covered) (lv := lv) hsk hnp, ?_⟩
    simp only [sinkA, sunk, sinkXs, List.reverse_nil, List.nil_append, ← hl.leaves]
  | q :: qs, nd, ps, t, xs, pid, hsk, hnp, hl, hcap, hsafe => by
    have hrm := length_rmNat_le q xs
    have hcap1 : (rmNat q xs).length < cfg.leafCap := by simp at hcap; omega
    have hone := sinkOneA_eq cfg ps t q xs pid hl hcap1
    obtain ⟨ba, hpid, _⟩ := pblk_alloc_eq (p0 := p0) (live := live) (lo := lo) (allowed := allowed) (covered := covered) (lv := lv) ps hsk hnp
    have bb := pblk_write (p0 := p0) (live := live) (lo := lo) (allowed := allowed) (covered := covered) (lv := lv) ba.sk ba.np
      (.blob t.key q) (allocA ps).2.2 trivial
    -- the delete write (if any)
    have bd : PBlk p0 live allowed covered lv lo (nd + 1) (allocA ps).2.1 ((delEffs t.key pid q xs).map (fun e => ioA (.pg e pid)))
        (delEffs t.key pid q xs) (nd + 1) (allocA ps).2.1 := by
      unfold delEffs
      by_cases hd : (rmNat q xs).length < xs.length
      · simp only [hd, if_true, List.map_cons, List.map_nil]
        refine pblk_write (p0 := p0) (live := live) (lo := lo) (allowed := allowed) (covered := covered) (lv := lv) ba.sk ba.np _ pid ?_
        rcases hsafe with h | ⟨h0, h1, h2, h3, h4, h5⟩
        · exact Or.inl h
        · refine Or.inr ⟨by rw [h0]; rfl, rfl, rmNat q xs, rfl, by rw [h0]; simpa using sortedNat_rmNat q xs h1,
            fun hx => absurd h0 hx, fun y hy => h2 y ((mem_rmNat q y xs).mp hy).1, ?_⟩
          intro y hy
          rw [h0]
          have : y ∈ rmNat q xs := (mem_rmNat q y xs).mpr ⟨h3 y hy, fun hyq => h5 q (by simp) (hyq ▸ hy)⟩
          simpa using this
      · simp only [hd, if_false, List.map_nil]
        exact PBlk.nil (live := live) (lo := lo) (allowed := allowed) (covered := covered) (lv := lv) ba.sk ba.np
    have hleaf : CEff p0 live allowed covered lv lo (nd + 1) (.leaf t.key 0 ((insR q xs).map some) false pid) := by
      rcases hsafe with h | ⟨h0, h1, h2, h3, h4, _⟩
      · exact Or.inl h
      · refine Or.inr ⟨by rw [h0]; rfl, rfl, insR q xs, rfl, by rw [h0]; simpa using sortedNat_insR q xs h1,
          fun hx => absurd h0 hx, ?_, ?_⟩
        · intro y hy
          rcases (mem_insR q y xs).mp hy with rfl | hy
          · exact h4 _ (by simp)
          · exact h2 y hy
        · intro y hy
          rw [h0]
          simpa using (mem_insR q y xs).mpr (Or.inr (h3 y hy))
    have bl := pblk_write (p0 := p0) (live := live) (lo := lo) (allowed := allowed) (covered := covered) (lv := lv) ba.sk ba.np
      (.leaf t.key 0 ((insR q xs).map some) false pid) pid hleaf
    have hsafe' : (sunk t xs [q] pid).key ≠ live ∨ (lv.Xi = [] ∧ SortedNat (insR q xs) ∧ (∀ x ∈ insR q xs, x ∈ allowed) ∧
        (∀ x ∈ covered, x ∈ insR q xs) ∧ (∀ q' ∈ qs, q' ∈ allowed) ∧ ∀ q' ∈ qs, q' ∉ covered) := by
      rcases hsafe with h | ⟨h0, h1, h2, h3, h4, h5⟩
      · exact Or.inl h
      · refine Or.inr ⟨h0, sortedNat_insR q xs h1, ?_, ?_, fun q' hq' => h4 q' (by simp [hq']), fun q' hq' => h5 q' (by simp [hq'])⟩
        · intro y hy
          rcases (mem_insR q y xs).mp hy with rfl | hy
          · exact h4 _ (by simp)
          · exact h2 y hy
        · intro y hy
          exact (mem_insR q y xs).mpr (Or.inr (h3 y hy))
    obtain ⟨br, hres⟩ := pblk_sink cfg qs (nd + 1) (allocA ps).2.1 (sunk t xs [q] pid) (insR q xs) pid ba.sk ba.np
      (leaf1_sunk hl [q]) (by have := length_insR_le q xs; simp at hcap; omega) hsafe'
    have hacts : (sinkA cfg ps t (q :: qs)).1 =
        ((((allocA ps).1 ++ [ioA (.pg (.blob t.key q) (allocA ps).2.2)]) ++ (delEffs t.key pid q xs).map (fun e => ioA (.pg e pid))) ++
          [ioA (.pg (.leaf t.key 0 ((insR q xs).map some) false pid) pid)]) ++
          (sinkA cfg (allocA ps).2.1 (sunk t xs [q] pid) qs).1 := by
      simp only [sinkA, hone]
    have hps : (sinkA cfg ps t (q :: qs)).2.1 = (sinkA cfg (allocA ps).2.1 (sunk t xs [q] pid) qs).2.1 := by
      simp only [sinkA, hone]
    have ht : (sinkA cfg ps t (q :: qs)).2.2 = (sinkA cfg (allocA ps).2.1 (sunk t xs [q] pid) qs).2.2 := by
      simp only [sinkA, hone]
    rw [hacts, hps, ht, hres, sunk_sunk]
    refine ⟨?_, rfl⟩
    have := (((ba.append bb).append bd).append bl).append br
    have hl' : nd + (q :: qs).length = nd + 1 + qs.length := by simp; omega
    rw [hl']
    simpa [sinkEffs, sunk] using this

/-! ### the volatile tree after the sink operations -/

theorem treeFind_congr {p p' : PImg} (h : p.trees = p'.trees) (k : Nat) : treeFind p k = treeFind p' k := by
  simp [treeFind, h]

theorem treeFind_sinkEffs (key pid : Nat) : ∀ (qs xs : List Nat) (p : PImg) (t : TreeImg),
    treeFind p key = some t → Leaf1 t xs pid →
    treeFind (applyEffs (sinkEffs key pid xs qs) p) key = some (sunk t xs qs pid)
  | [], xs, p, t, hf, hl => by
    simp only [sinkEffs, applyEffs, List.foldl_nil, hf, sunk, sinkXs, List.reverse_nil, List.nil_append, ← hl.leaves]
  | q :: qs, xs, p, t, hf, hl => by
    have hk : t.key = key := (treeFind_key hf).2
    have hupd : ∀ (p : PImg) (t' : TreeImg) (es : List (Option Nat)), treeFind p key = some t' →
        treeFind (applyEff (.leaf key 0 es false pid) p) key = some { t' with leaves := setLeaf t'.leaves 0 ⟨es, false, pid⟩ } := by
      intro p t' es hf'
      have hk' : t'.key = key := (treeFind_key hf').2
      have := find_updTree p.trees key (fun t => { t with leaves := setLeaf t.leaves 0 ⟨es, false, pid⟩ }) (fun _ => rfl) key
      simp only [treeFind] at hf'
      rw [hf'] at this
      simpa [treeFind, applyEff, hk'] using this
    have h1 : treeFind (applyEff (.blob key q) p) key = some { t with blobs := q :: t.blobs } := by
      have := find_updTree p.trees key (fun t => { t with blobs := q :: t.blobs }) (fun _ => rfl) key
      simp only [treeFind] at hf
      rw [hf] at this
      simpa [treeFind, applyEff, hk] using this
    -- after the (optional) delete write the leaf list still has one element; the insert write fixes it
    have h2 : ∃ t2 : TreeImg, treeFind (applyEffs (delEffs key pid q xs) (applyEff (.blob key q) p)) key = some t2 ∧
        t2.blobs = q :: t.blobs ∧ t2.key = t.key ∧ t2.inode = t.inode ∧ t2.inodePid = t.inodePid ∧ t2.leaves.length = 1 := by
      unfold delEffs
      by_cases hd : (rmNat q xs).length < xs.length
      · simp only [hd, if_true, applyEffs, List.foldl_cons, List.foldl_nil]
        exact ⟨_, hupd _ _ _ h1, rfl, rfl, rfl, rfl, by simp [hl.leaves, setLeaf]⟩
      · simp only [hd, if_false, applyEffs, List.foldl_nil]
        exact ⟨_, h1, rfl, rfl, rfl, rfl, by simp [hl.leaves]⟩
    obtain ⟨t2, hf2, hb2, hk2, hi2, hip2, hlen2⟩ := h2
    have h3 := hupd _ _ ((insR q xs).map some) hf2
    have ht3 : ({ t2 with leaves := setLeaf t2.leaves 0 ⟨(insR q xs).map some, false, pid⟩ } : TreeImg) = sunk t xs [q] pid := by
      obtain ⟨l0, hl0⟩ : ∃ l0, t2.leaves = [l0] := by
        cases hL : t2.leaves with
        | nil => rw [hL] at hlen2; simp at hlen2
        | cons a rest =>
          cases rest with
          | nil => exact ⟨a, rfl⟩
          | cons b r => rw [hL] at hlen2; simp at hlen2
      cases t2
      simp only at hb2 hk2 hi2 hip2 hl0
      subst hb2 hk2 hi2 hip2 hl0
      cases t
      simp [sunk, sinkXs, setLeaf]
    rw [ht3] at h3
    have := treeFind_sinkEffs key pid qs (insR q xs) _ _ h3 (leaf1_sunk hl [q])
    rw [sunk_sunk] at this
    simpa [sinkEffs, applyEffs, List.foldl_append] using this

end Nervus.Crash
