/-
  Proofs/EngineIdmap.lean — what step 3 of `commit` (created nodes, label additions, label removals)
  does to the idmap.
-/
import Nervus.Proofs.EngineStagedN
namespace Nervus.Storage

theorem foldStop_create (cs : List (Nat × Nat × Nat)) (m : IdMap)
    (hids : ∀ i c, cs[i]? = some c → c.2.2 = m.i2e.length + i)
    (hfresh : ∀ c ∈ cs, m.e2i.lookup c.1 = none) (hnd : (cs.map (·.1)).Nodup) :
    foldStop (fun m (c : Nat × Nat × Nat) => m.applyCreate c.1 c.2.1 c.2.2) m cs =
      ({ e2i := (cs.map (fun c => (c.1, c.2.2))).reverse ++ m.e2i,
         i2l := m.i2l ++ cs.map (fun c => [c.2.1]),
         i2e := m.i2e ++ cs.map (fun c => ⟨c.1, c.2.1⟩) }, none) := by
  induction cs generalizing m with
  | nil => simp [foldStop]
  | cons c cs ih =>
    obtain ⟨x, l, iid⟩ := c
    have h0 : iid = m.i2e.length := by
      have := hids 0 (x, l, iid) rfl; simpa using this
    have h1 : m.e2i.lookup x = none := hfresh (x, l, iid) List.mem_cons_self
    have hstep : m.applyCreate x l iid =
        .ok { e2i := (x, iid) :: m.e2i, i2l := m.i2l ++ [[l]], i2e := m.i2e ++ [⟨x, l⟩] } := by
      unfold IdMap.applyCreate IdMap.nextId
      simp [h0, h1]
    simp only [foldStop, hstep]
    rw [List.map_cons, List.nodup_cons] at hnd
    rw [ih]
    · simp [List.reverse_cons, List.append_assoc]
    · intro i c hc
      have := hids (i + 1) c (by simpa using hc)
      simp only [List.length_append, List.length_singleton]; omega
    · intro c hc
      have hne : c.1 ≠ x := by
        intro h; apply hnd.1; rw [← h]; exact List.mem_map.mpr ⟨c, hc, rfl⟩
      have hb : (c.1 == x) = false := by simpa using hne
      simp only [List.lookup_cons, hb]
      exact hfresh c (List.mem_cons_of_mem _ hc)
    · exact hnd.2

theorem getD_getElem?_set {α} (l : List (List α)) (n n' : Nat) (v : List α) (hn : n < l.length) :
    ((l.set n v)[n']?).getD [] = if n = n' then v else (l[n']?).getD [] := by
  rw [List.getElem?_set]
  by_cases h : n = n'
  · subst h; simp [hn]
  · simp [h]

theorem foldStop_add (ps : List (Nat × Nat)) (m : IdMap) (h : ∀ p ∈ ps, p.1 < m.i2l.length) :
    ∃ m', foldStop (fun m (p : Nat × Nat) => m.applyAddLabel p.1 p.2) m ps = (m', none) ∧
      m'.e2i = m.e2i ∧ m'.i2e = m.i2e ∧ m'.i2l.length = m.i2l.length ∧
      ∀ n lid, lid ∈ (m'.i2l[n]?).getD [] ↔ (lid ∈ (m.i2l[n]?).getD [] ∨ (n, lid) ∈ ps) := by
  induction ps generalizing m with
  | nil => exact ⟨m, rfl, rfl, rfl, rfl, by simp⟩
  | cons p ps ih =>
    obtain ⟨n0, l0⟩ := p
    have hn0 : n0 < m.i2l.length := h (n0, l0) List.mem_cons_self
    have hget : m.i2l[n0]? = some m.i2l[n0] := List.getElem?_eq_getElem hn0
    let ls := m.i2l[n0]
    let ls' := if ls.contains l0 then ls else isort (· ≤ ·) (ls ++ [l0])
    have hstep : m.applyAddLabel n0 l0 = .ok { m with i2l := m.i2l.set n0 ls' } := by
      unfold IdMap.applyAddLabel; rw [hget]
    have hmem : ∀ lid, lid ∈ ls' ↔ (lid ∈ ls ∨ lid = l0) := by
      intro lid
      show lid ∈ (if ls.contains l0 then ls else isort (· ≤ ·) (ls ++ [l0])) ↔ _
      by_cases hc : ls.contains l0 = true
      · rw [if_pos hc]
        have : l0 ∈ ls := by simpa using hc
        constructor
        · exact Or.inl
        · rintro (h | h)
          · exact h
          · rw [h]; exact this
      · rw [if_neg hc, mem_isort, List.mem_append, List.mem_singleton]
    obtain ⟨m', h1, h2, h3, h4, h5⟩ := ih { m with i2l := m.i2l.set n0 ls' }
      (by intro p hp; simp only [List.length_set]; exact h p (List.mem_cons_of_mem _ hp))
    refine ⟨m', ?_, h2, h3, by rw [h4]; simp, ?_⟩
    · simp only [foldStop, hstep]; exact h1
    · intro n lid
      rw [h5 n lid]
      simp only [getD_getElem?_set _ _ _ _ hn0, List.mem_cons, Prod.mk.injEq]
      by_cases hnn : n0 = n
      · subst hnn
        simp only [if_true, hmem, true_and]
        have : (m.i2l[n0]?).getD [] = ls := by rw [hget]; rfl
        rw [this]
        constructor
        · rintro ((h | h) | h)
          · exact Or.inl h
          · exact Or.inr (Or.inl h)
          · exact Or.inr (Or.inr h)
        · rintro (h | h | h)
          · exact Or.inl (Or.inl h)
          · exact Or.inl (Or.inr h)
          · exact Or.inr h
      · have hnn' : ¬ n = n0 := fun h => hnn h.symm
        simp only [hnn, if_false, hnn', false_and, false_or]

theorem foldStop_remove (ps : List (Nat × Nat)) (m : IdMap) (h : ∀ p ∈ ps, p.1 < m.i2l.length) :
    ∃ m', foldStop (fun m (p : Nat × Nat) => m.applyRemoveLabel p.1 p.2) m ps = (m', none) ∧
      m'.e2i = m.e2i ∧ m'.i2e = m.i2e ∧ m'.i2l.length = m.i2l.length ∧
      ∀ n lid, lid ∈ (m'.i2l[n]?).getD [] ↔ (lid ∈ (m.i2l[n]?).getD [] ∧ (n, lid) ∉ ps) := by
  induction ps generalizing m with
  | nil => exact ⟨m, rfl, rfl, rfl, rfl, by simp⟩
  | cons p ps ih =>
    obtain ⟨n0, l0⟩ := p
    have hn0 : n0 < m.i2l.length := h (n0, l0) List.mem_cons_self
    have hget : m.i2l[n0]? = some m.i2l[n0] := List.getElem?_eq_getElem hn0
    have hstep : m.applyRemoveLabel n0 l0 = .ok { m with i2l := m.i2l.set n0 (m.i2l[n0].filter (· != l0)) } := by
      unfold IdMap.applyRemoveLabel; rw [hget]
    obtain ⟨m', h1, h2, h3, h4, h5⟩ := ih { m with i2l := m.i2l.set n0 (m.i2l[n0].filter (· != l0)) }
      (by intro p hp; simp only [List.length_set]; exact h p (List.mem_cons_of_mem _ hp))
    refine ⟨m', ?_, h2, h3, by rw [h4]; simp, ?_⟩
    · simp only [foldStop, hstep]; exact h1
    · intro n lid
      rw [h5 n lid]
      simp only [getD_getElem?_set _ _ _ _ hn0, List.mem_cons, Prod.mk.injEq, not_or, not_and]
      by_cases hnn : n0 = n
      · subst hnn
        have : (m.i2l[n0]?).getD [] = m.i2l[n0] := by rw [hget]; rfl
        simp only [if_true, mem_filter_ne, this, forall_const]
        constructor
        · rintro ⟨⟨h1, h2⟩, h3⟩; exact ⟨h1, h2, h3⟩
        · rintro ⟨h1, h2, h3⟩; exact ⟨⟨h1, h2⟩, h3⟩
      · have hnn' : ¬ n = n0 := fun h => hnn h.symm
        simp only [hnn, if_false, hnn', false_implies, true_and]

end Nervus.Storage
