/-
  Proofs.TopK — soundness of top-k pruning under ORDER BY … [SKIP s] LIMIT l: removing from the input a row that
  at least k earlier rows precede in the FULL comparison (they then precede it in the stable order) does not
  change the first k rows of the stable sort (`topk_drop_sound`, `topk_drop_sound_slice`).  Core only.
-/
import Nervus.Proofs.Sort
namespace Nervus
open Order

section
variable {α : Type} (cmp : α → α → Ordering)

/-- insertion walks past the elements it is greater than -/
theorem insertSorted_append_of_gt (x : α) : ∀ (A C : List α), (∀ a ∈ A, cmp x a = .gt) →
    insertSorted cmp x (A ++ C) = A ++ insertSorted cmp x C
  | [], _, _ => rfl
  | a :: A, C, h => by
    have ha : cmp x a = .gt := h a (by simp)
    simp only [List.cons_append, insertSorted, ha]
    rw [insertSorted_append_of_gt x A C (fun b hb => h b (by simp [hb]))]
    rfl

/-- insertion stops inside `A` if some element of `A` is not smaller -/
theorem insertSorted_append_of_stop (x : α) : ∀ (A C : List α), (∃ a ∈ A, cmp x a ≠ .gt) →
    insertSorted cmp x (A ++ C) = insertSorted cmp x A ++ C
  | [], _, h => by obtain ⟨a, ha, _⟩ := h; simp at ha
  | a :: A, C, h => by
    by_cases hc : cmp x a = .gt
    · have : ∃ b ∈ A, cmp x b ≠ .gt := by
        obtain ⟨b, hb, hn⟩ := h
        rcases List.mem_cons.1 hb with e | hb
        · subst e; exact absurd hc hn
        · exact ⟨b, hb, hn⟩
      simp only [List.cons_append, insertSorted, hc]
      rw [insertSorted_append_of_stop x A C this]; rfl
    · have hb : (cmp x a != .gt) = true := by simpa using hc
      simp only [List.cons_append, insertSorted, hb, if_true]

theorem insertSorted_split (x : α) : ∀ (S : List α), ∃ A B, insertSorted cmp x S = A ++ x :: B ∧ S = A ++ B
  | [] => ⟨[], [], rfl, rfl⟩
  | y :: S => by
    by_cases hc : (cmp x y != .gt) = true
    · exact ⟨[], y :: S, by simp [insertSorted, hc], rfl⟩
    · obtain ⟨A, B, h1, h2⟩ := insertSorted_split x S
      exact ⟨y :: A, B, by simp [insertSorted, hc, h1], by simp [h2]⟩

/-- number of rows of `pre` that the full comparison does not place after `r` -/
def cntLe (r : α) (pre : List α) : Nat := (pre.filter (fun x => cmp x r != .gt)).length

/-- the invariant behind top-k pruning: `r` sits behind at least `cntLe r pre` rows of the sorted input, and
    removing `r` from the input removes exactly `r` from the sorted output -/
theorem isort_remove_mid {P : α → Prop} (h : CmpLawsOn cmp P) (r : α) (post : List α) :
    ∀ (pre : List α), (∀ x ∈ pre ++ r :: post, P x) →
      ∃ A B, isort cmp (pre ++ r :: post) = A ++ r :: B ∧ isort cmp (pre ++ post) = A ++ B ∧
        cntLe cmp r pre ≤ A.length
  | [], _ => by
    obtain ⟨A, B, h1, h2⟩ := insertSorted_split cmp r (isort cmp post)
    exact ⟨A, B, by simpa [isort] using h1, by simpa using h2, by simp [cntLe]⟩
  | x :: pre, hP => by
    have hP' : ∀ y ∈ pre ++ r :: post, P y := fun y hy => hP y (by simp at hy ⊢; right; exact hy)
    obtain ⟨A, B, e1, e2, hc⟩ := isort_remove_mid h r post pre hP'
    have px : P x := hP x (by simp)
    have pr : P r := hP r (by simp)
    have sorted1 : SortedBy cmp (A ++ r :: B) := by
      rw [← e1]; exact isort_sorted cmp h _ hP'
    have memT : ∀ y ∈ A ++ r :: B, P y := by
      intro y hy; rw [← e1] at hy; exact hP' y ((mem_isort cmp).1 hy)
    have hA : ∀ a ∈ A, cmp a r ≠ .gt := by
      intro a ha
      have := List.pairwise_append.1 sorted1
      exact this.2.2 a ha r (by simp)
    have hB : ∀ b ∈ B, cmp r b ≠ .gt := by
      intro b hb
      have := (List.pairwise_append.1 sorted1).2.1
      exact (List.pairwise_cons.1 this).1 b hb
    simp only [List.cons_append, isort, e1, e2]
    by_cases hxr : cmp x r = .gt
    · -- `x` is placed after `r`: it walks past all of `A` and past `r`
      have hall : ∀ a ∈ A, cmp x a = .gt := by
        intro a ha
        apply Classical.byContradiction
        intro hn
        exact (h.le_trans px (memT a (by simp [ha])) pr hn (hA a ha)) hxr
      refine ⟨A, insertSorted cmp x B, ?_, ?_, ?_⟩
      · rw [insertSorted_append_of_gt cmp x A _ hall]; simp [insertSorted, hxr]
      · rw [insertSorted_append_of_gt cmp x A _ hall]
      · simpa [cntLe, hxr] using hc
    · -- `x` is not placed after `r`: it lands in front of `r`
      have hb : (cmp x r != .gt) = true := by simpa using hxr
      refine ⟨insertSorted cmp x A, B, ?_, ?_, ?_⟩
      · by_cases hall : ∀ a ∈ A, cmp x a = .gt
        · rw [insertSorted_append_of_gt cmp x A _ hall]
          have := insertSorted_append_of_gt cmp x A [] hall
          simp only [List.append_nil, insertSorted] at this
          rw [this]; simp [insertSorted, hb]
        · have : ∃ a ∈ A, cmp x a ≠ .gt := by
            apply Classical.byContradiction
            intro hn; apply hall; intro a ha
            apply Classical.byContradiction
            intro hc'; exact hn ⟨a, ha, hc'⟩
          rw [insertSorted_append_of_stop cmp x A _ this]
      · by_cases hall : ∀ a ∈ A, cmp x a = .gt
        · rw [insertSorted_append_of_gt cmp x A _ hall]
          have := insertSorted_append_of_gt cmp x A [] hall
          simp only [List.append_nil, insertSorted] at this
          rw [this]
          cases B with
          | nil => simp [insertSorted]
          | cons b B' =>
            have : cmp x b ≠ .gt :=
              h.le_trans px pr (memT b (by simp)) hxr (hB b (by simp))
            have hb' : (cmp x b != .gt) = true := by simpa using this
            simp [insertSorted, hb']
        · have : ∃ a ∈ A, cmp x a ≠ .gt := by
            apply Classical.byContradiction
            intro hn; apply hall; intro a ha
            apply Classical.byContradiction
            intro hc'; exact hn ⟨a, ha, hc'⟩
          rw [insertSorted_append_of_stop cmp x A _ this]
      · have : (insertSorted cmp x A).length = A.length + 1 := by
          have := (insertSorted_perm cmp x A).length_eq; simpa using this
        simp only [cntLe, List.filter_cons, hb, if_true, List.length_cons] at hc ⊢
        omega

/-- **top-k pruning is sound when it uses the FULL comparison**: a row `r` may be dropped from the input of
    `ORDER BY … LIMIT k` as soon as `k` rows that arrived before it are not placed after it by the full key
    comparison (they precede `r` in the stable order) — the first `k` rows of the sort do not change. -/
theorem topk_drop_sound {P : α → Prop} (h : CmpLawsOn cmp P) (pre post : List α) (r : α) (k : Nat)
    (hP : ∀ x ∈ pre ++ r :: post, P x) (hk : k ≤ cntLe cmp r pre) :
    (isort cmp (pre ++ r :: post)).take k = (isort cmp (pre ++ post)).take k := by
  obtain ⟨A, B, e1, e2, hc⟩ := isort_remove_mid cmp h r post pre hP
  rw [e1, e2, List.take_append_of_le_length (by omega), List.take_append_of_le_length (by omega)]

/-- the same for `SKIP s LIMIT l` (the bound handed down is `s + l`) -/
theorem topk_drop_sound_slice {P : α → Prop} (h : CmpLawsOn cmp P) (pre post : List α) (r : α) (s l : Nat)
    (hP : ∀ x ∈ pre ++ r :: post, P x) (hk : s + l ≤ cntLe cmp r pre) :
    limit l (skip s (isort cmp (pre ++ r :: post))) = limit l (skip s (isort cmp (pre ++ post))) := by
  have := topk_drop_sound cmp h pre post r (s + l) hP hk
  simp only [limit, skip]
  rw [List.take_drop, List.take_drop, this]
end
end Nervus
