/-
  Proofs.F64 — the comparison of the dyadic model is a total preorder (`cmpTK_laws`) and
  `compare_int_float` (the exact Int/Float comparison of the `fix:` commit) computes the comparison of the
  exact values (`cmpIntFloat_exact`).  Core only.
-/
import Nervus.Proofs.Cmp
import Nervus.Model.Eval
namespace Nervus
open F64 Value Eval

theorem cmpTK_eq (a b : F64) : cmpTK a b = (cmpNat (tier a) (tier b)).then (cmpInt (skey a) (skey b)) := by
  unfold cmpTK cmpNat
  by_cases h1 : tier a < tier b <;> by_cases h2 : tier b < tier a <;> by_cases h3 : tier a = tier b <;>
    simp [h1, h2, h3, Ordering.then] <;> omega

theorem cmpTK_laws : CmpLaws cmpTK := by
  have h := CmpLaws.lex (α := F64) cmpNat_laws cmpInt_laws tier skey
  have e : cmpTK = fun x y => (cmpNat (tier x) (tier y)).then (cmpInt (skey x) (skey y)) := by
    funext a b; exact cmpTK_eq a b
  rw [e]; exact h

/-- pure integer core of `compare_int_float` -/
theorem cmp_trunc_core (i t r K P B : Int) (hP : 0 < P) (hK : K = t * P + r) (hr1 : -P < r) (hr2 : r < P)
    (hi1 : -B ≤ i) (hi2 : i < B) :
    (if B * P ≤ K then Ordering.lt else if K < -(B * P) then .gt else if i < t then .lt else if t < i then .gt
      else if t * P < K then .lt else if K < t * P then .gt else .eq) = cmpInt (i * P) K := by
  have h1 : (i + 1) * P ≤ B * P := Int.mul_le_mul_of_nonneg_right (by omega) (Int.le_of_lt hP)
  have h2 : (-B) * P ≤ i * P := Int.mul_le_mul_of_nonneg_right hi1 (Int.le_of_lt hP)
  rw [Int.add_mul, Int.one_mul] at h1
  rw [Int.neg_mul] at h2
  unfold cmpInt
  by_cases c1 : B * P ≤ K
  · simp only [c1, if_true]; rw [if_pos (by omega)]
  · by_cases c2 : K < -(B * P)
    · simp only [c1, c2, if_true, if_false]; rw [if_neg (by omega), if_neg (by omega)]
    · by_cases c3 : i < t
      · have : (i + 1) * P ≤ t * P := Int.mul_le_mul_of_nonneg_right (by omega) (Int.le_of_lt hP)
        rw [Int.add_mul, Int.one_mul] at this
        simp only [c1, c2, c3, if_true, if_false]; rw [if_pos (by omega)]
      · by_cases c4 : t < i
        · have : (t + 1) * P ≤ i * P := Int.mul_le_mul_of_nonneg_right (by omega) (Int.le_of_lt hP)
          rw [Int.add_mul, Int.one_mul] at this
          simp only [c1, c2, c3, c4, if_true, if_false]; rw [if_neg (by omega), if_neg (by omega)]
        · have : i = t := by omega
          subst this
          simp only [c1, c2, c3, if_false]
          by_cases c5 : i * P < K <;> by_cases c6 : K < i * P <;> by_cases c7 : i * P = K <;>
            simp [c5, c6, c7] <;> omega
/-- 2^n as an integer; kept folded so that the closed power 2^1074 is never evaluated -/
def Pn (n : Nat) : Int := ((2 ^ n : Nat) : Int)

theorem Pn_pos (n : Nat) : 0 < Pn n := Int.natCast_pos.2 (Nat.two_pow_pos n)

theorem Pn_add (a b : Nat) : Pn (a + b) = Pn a * Pn b := by
  unfold Pn; rw [Nat.pow_add, Int.natCast_mul]

theorem key_eq (s : Bool) (m e : Nat) : key s m e = (if s then -((m : Int) * Pn e) else (m : Int) * Pn e) := by
  unfold key Pn; rw [Int.natCast_mul]

theorem int_trunc (n m e : Nat) :
    ∃ r : Int, (m : Int) * Pn e =
      (((if e ≥ n then m * 2 ^ (e - n) else m / 2 ^ (n - e)) : Nat) : Int) * Pn n + r ∧ 0 ≤ r ∧ r < Pn n := by
  by_cases h : e ≥ n
  · refine ⟨0, ?_, by omega, Pn_pos n⟩
    simp only [h, if_true, Int.add_zero]
    have : e = (e - n) + n := by omega
    rw [Int.natCast_mul, Int.mul_assoc]
    conv => lhs; rw [this, Pn_add]
    rfl
  · simp only [h, if_false]
    have hD : Pn (n - e) * Pn e = Pn n := by rw [← Pn_add]; congr 1; omega
    refine ⟨((m % 2 ^ (n - e) : Nat) : Int) * Pn e, ?_, ?_, ?_⟩
    · rw [← hD, ← Int.mul_assoc, ← Int.add_mul]
      congr 1
      unfold Pn
      rw [← Int.natCast_mul, ← Int.natCast_add, Nat.div_add_mod']
    · exact Int.mul_nonneg (Int.natCast_nonneg _) (Int.le_of_lt (Pn_pos e))
    · rw [← hD]
      apply Int.mul_lt_mul_of_pos_right _ (Pn_pos e)
      unfold Pn
      exact Int.ofNat_lt.2 (Nat.mod_lt _ (Nat.two_pow_pos _))

theorem trunc_decomp (s : Bool) (m e : Nat) :
    ∃ r : Int, key s m e = truncInt (.fin s m e) * Pn 1074 + r ∧ -Pn 1074 < r ∧ r < Pn 1074 := by
  obtain ⟨r, h1, h2, h3⟩ := int_trunc 1074 m e
  have hP := Pn_pos 1074
  rw [key_eq]
  cases s
  · refine ⟨r, ?_, by omega, h3⟩
    simp only [truncInt, Bool.false_eq_true, if_false]
    exact h1
  · refine ⟨-r, ?_, by omega, by omega⟩
    simp only [truncInt, if_true]
    rw [h1, Int.neg_mul]; omega

theorem skey_exact (i : Int) : skey (exact i) = i * Pn 1074 := by
  show key (decide (i < 0)) i.natAbs 1074 = _
  rw [key_eq]
  by_cases h : i < 0
  · simp only [h, decide_true, if_true]
    rw [Int.ofNat_natAbs_of_nonpos (by omega), Int.neg_mul, Int.neg_neg]
  · simp only [h, decide_false, Bool.false_eq_true, if_false]
    rw [Int.natAbs_of_nonneg (by omega)]


theorem tier_exact (i : Int) : tier (exact i) = 1 := rfl

theorem ofBits_two63 : ofBits 0x43E0000000000000 = .fin false 4503599627370496 1085 := by decide
theorem ofBits_negTwo63 : ofBits 0xC3E0000000000000 = .fin true 4503599627370496 1085 := by decide

theorem Pn_1085 : (4503599627370496 : Int) * Pn 1085 = 9223372036854775808 * Pn 1074 := by
  have e : (1085 : Nat) = 11 + 1074 := rfl
  have p11 : Pn 11 = 2048 := by decide
  rw [e, Pn_add, p11]; omega

theorem le_fin (s : Bool) (m e : Nat) (t : Bool) (n f : Nat) :
    F64.le (.fin s m e) (.fin t n f) = decide (key s m e ≤ key t n f) := by
  simp only [F64.le, F64.cmp, isNaN, Bool.or_self, Bool.false_eq_true, if_false, cmpTK, tier,
    Nat.lt_irrefl, skey]
  unfold cmpInt
  by_cases h1 : key s m e < key t n f <;> by_cases h2 : key s m e = key t n f <;> simp [h1, h2] <;> omega

theorem lt_fin (s : Bool) (m e : Nat) (t : Bool) (n f : Nat) :
    F64.lt (.fin s m e) (.fin t n f) = decide (key s m e < key t n f) := by
  simp only [F64.lt, F64.cmp, isNaN, Bool.or_self, Bool.false_eq_true, if_false, cmpTK, tier,
    Nat.lt_irrefl, skey]
  unfold cmpInt
  by_cases h1 : key s m e < key t n f <;> by_cases h2 : key s m e = key t n f <;> simp [h1, h2]

/-- `compare_int_float` is the comparison of the exact values -/
theorem cmpIntFloat_exact (i : Int) (h1 : -9223372036854775808 ≤ i) (h2 : i < 9223372036854775808)
    (f : F64) (hf : f.isNaN = false) : cmpIntFloat i f = cmpTK (exact i) f := by
  cases f with
  | nan => simp [isNaN] at hf
  | inf b =>
    cases b <;>
      simp [cmpIntFloat, ofBits_two63, ofBits_negTwo63, F64.le, F64.lt, F64.cmp, isNaN, cmpTK, tier, exact]
  | fin s m e =>
    obtain ⟨r, hK, hr1, hr2⟩ := trunc_decomp s m e
    have core := cmp_trunc_core i (truncInt (.fin s m e)) r (key s m e) (Pn 1074) 9223372036854775808
      (Pn_pos _) hK hr1 hr2 h1 h2
    have ex : ∀ t : Int, key (decide (t < 0)) t.natAbs 1074 = t * Pn 1074 := skey_exact
    have k63 : key false 4503599627370496 1085 = 9223372036854775808 * Pn 1074 := by
      rw [key_eq]; simpa using Pn_1085
    have km63 : key true 4503599627370496 1085 = -(9223372036854775808 * Pn 1074) := by
      rw [key_eq]; simpa using Pn_1085
    rw [cmpTK_eq, tier_exact, skey_exact, show skey (.fin s m e) = key s m e from rfl]
    simp only [tier, cmpNat, Nat.lt_irrefl, if_false, if_true, Ordering.then]
    rw [← core]
    simp only [cmpIntFloat, ofBits_two63, ofBits_negTwo63, exact, le_fin, lt_fin, ex, k63, km63,
      decide_eq_true_eq]

end Nervus
