/-
  Helper lemmas for C35: invariants of the lock LTS, completeness of the feasible-cycle search.
-/
import Nervus.Model.LockLTS
namespace Nervus.LockLTS

@[simp] theorem upd_same (s : State) (t : Nat) (x : TState) : upd s t x t = x := by simp [upd]
theorem upd_other (s : State) (t u : Nat) (x : TState) (h : u ≠ t) : upd s t x u = s u := by simp [upd, h]

/-- invariants of every reachable state -/
structure Inv (A : List Acq) (s : State) : Prop where
  mutex : ∀ t u x, x ∈ (s t).held → x ∈ (s u).held → t = u
  site : ∀ t l, (s t).wait = some l → ∃ a, a ∈ A ∧ a.want = l ∧ SameSet a.held (s t).held

theorem inv_init (A : List Acq) : Inv A init :=
  ⟨fun t u x h => by simp [init] at h, fun t l h => by simp [init] at h⟩

theorem inv_step {A : List Acq} {s s' : State} (hi : Inv A s) (hs : Step A s s') : Inv A s' := by
  obtain ⟨hm, hsite⟩ := hi
  cases hs with
  | request t a hw ha hsame =>
    constructor
    · intro t' u x h1 h2
      have e1 : (upd s t { held := (s t).held, wait := some a.want } t').held = (s t').held := by
        by_cases h : t' = t <;> simp [upd, h]
      have e2 : (upd s t { held := (s t).held, wait := some a.want } u).held = (s u).held := by
        by_cases h : u = t <;> simp [upd, h]
      rw [e1] at h1; rw [e2] at h2; exact hm t' u x h1 h2
    · intro t' l hl
      by_cases h : t' = t
      · subst h; simp at hl; subst hl; exact ⟨a, ha, rfl, by simpa using hsame⟩
      · rw [upd_other _ _ _ _ h] at hl ⊢; exact hsite t' l hl
  | grant t l hw hfree =>
    constructor
    · intro t' u x h1 h2
      by_cases ht : t' = t <;> by_cases hu : u = t
      · rw [ht, hu]
      · subst ht; rw [upd_other _ _ _ _ hu] at h2; simp at h1
        rcases h1 with rfl | h1
        · exact absurd h2 (hfree u)
        · exact hm _ _ x h1 h2
      · subst hu; rw [upd_other _ _ _ _ ht] at h1; simp at h2
        rcases h2 with rfl | h2
        · exact absurd h1 (hfree t')
        · exact hm _ _ x h1 h2
      · rw [upd_other _ _ _ _ ht] at h1; rw [upd_other _ _ _ _ hu] at h2; exact hm _ _ x h1 h2
    · intro t' l' hl
      by_cases h : t' = t
      · subst h; simp at hl
      · rw [upd_other _ _ _ _ h] at hl ⊢; exact hsite t' l' hl
  | release t l hw =>
    constructor
    · intro t' u x h1 h2
      have e1 : x ∈ (s t').held := by
        by_cases h : t' = t
        · subst h; simp at h1; exact h1.1
        · rwa [upd_other _ _ _ _ h] at h1
      have e2 : x ∈ (s u).held := by
        by_cases h : u = t
        · subst h; simp at h2; exact h2.1
        · rwa [upd_other _ _ _ _ h] at h2
      exact hm t' u x e1 e2
    · intro t' l' hl
      by_cases h : t' = t
      · subst h; simp at hl
      · rw [upd_other _ _ _ _ h] at hl ⊢; exact hsite t' l' hl

theorem reach_inv {A : List Acq} {s : State} (h : Reach A s) : Inv A s := by
  induction h with
  | init => exact inv_init A
  | step _ hs ih => exact inv_step ih hs

/-! ### completeness of the search -/

theorem disjointL_true {a b : List Nat} (h : ∀ x, x ∈ a → x ∉ b) : disjointL a b = true := by
  simp only [disjointL, List.all_eq_true]
  intro x hx
  simp [h x hx]

theorem dfs_complete (A : List Acq) :
    ∀ (rest : List Acq) (cur : Acq) (used : List Nat) (fuel : Nat) (first : Acq),
      chainTo cur rest first → (∀ b ∈ rest, b ∈ A) → (∀ b ∈ rest, ∀ x, x ∈ b.held → x ∉ used) →
      rest.Pairwise Disj → rest.length < fuel → dfs A fuel used cur first = true := by
  intro rest
  induction rest with
  | nil =>
    intro cur used fuel first hc _ _ _ hf
    cases fuel with
    | zero => simp at hf
    | succ f => simp [dfs, chainTo] at hc ⊢; exact Or.inl hc
  | cons b rest ih =>
    intro cur used fuel first hc hA hu hp hf
    cases fuel with
    | zero => simp at hf
    | succ f =>
      obtain ⟨hcb, hrest⟩ := hc
      rw [List.pairwise_cons] at hp
      have hrec : dfs A f (b.held ++ used) b first = true := by
        apply ih b (b.held ++ used) f first hrest
        · intro b' hb'; exact hA b' (List.mem_cons_of_mem _ hb')
        · intro b' hb' x hx hmem
          rcases List.mem_append.mp hmem with h1 | h1
          · exact hp.1 b' hb' x h1 hx
          · exact hu b' (List.mem_cons_of_mem _ hb') x hx h1
        · exact hp.2
        · simp at hf; omega
      have hd : disjointL b.held used = true := disjointL_true (hu b (List.mem_cons_self ..))
      simp only [dfs, Bool.or_eq_true, List.any_eq_true]
      right
      exact ⟨b, hA b (List.mem_cons_self ..), by simp [hcb, hd, hrec]⟩

theorem chainTo_nonempty : ∀ (rest : List Acq) (cur first : Acq), chainTo cur rest first →
    first.held ≠ [] ∧ ∀ b ∈ rest, b.held ≠ [] := by
  intro rest
  induction rest with
  | nil => intro cur first h; exact ⟨by intro e; simp [chainTo, e] at h, by simp⟩
  | cons b rest ih =>
    intro cur first h
    obtain ⟨h1, h2⟩ := h
    obtain ⟨hf, hr⟩ := ih b first h2
    refine ⟨hf, ?_⟩
    intro b' hb'
    rcases List.mem_cons.mp hb' with rfl | hb'
    · intro e; simp [e] at h1
    · exact hr b' hb'

/-- a feasible cycle is no longer than the number of locks (its held-sets are non-empty and
    pairwise disjoint) -/
theorem feasible_length_le {A : List Acq} {n : Nat} (hwf : wellFormed A n = true) (c : List Acq)
    (hA : ∀ b ∈ c, b ∈ A) (hne : ∀ b ∈ c, b.held ≠ []) (hp : c.Pairwise Disj) : c.length ≤ n := by
  let rep : Acq → Nat := fun a => a.held.headD 0
  have hrep : ∀ b ∈ c, rep b ∈ b.held := by
    intro b hb
    have := hne b hb
    cases hh : b.held with
    | nil => exact absurd hh this
    | cons x xs => simp [rep, hh]
  have hnd : (c.map rep).Nodup := by
    rw [List.Nodup, List.pairwise_map]
    refine hp.imp_of_mem ?_
    intro a b ha hb hab heq
    exact hab (rep a) (hrep a ha) (heq ▸ hrep b hb)
  have hsub : c.map rep ⊆ List.range n := by
    intro x hx
    obtain ⟨b, hb, rfl⟩ := List.mem_map.mp hx
    simp only [wellFormed, List.all_eq_true, Bool.and_eq_true, decide_eq_true_eq] at hwf
    exact List.mem_range.mpr ((hwf b (hA b hb)).2 _ (hrep b hb))
  have := hnd.length_le_of_subset hsub
  simpa using this

theorem hasFeasibleCycle_complete {A : List Acq} {n : Nat} (hwf : wellFormed A n = true)
    (c : List Acq) (hc : FeasibleCycle A c) : hasFeasibleCycle A n = true := by
  cases c with
  | nil => exact hc.elim
  | cons a rest =>
    obtain ⟨hA, hp, hch⟩ := hc
    obtain ⟨hfne, hrne⟩ := chainTo_nonempty rest a a hch
    have hlen : (a :: rest).length ≤ n := feasible_length_le hwf (a :: rest) hA
      (by intro b hb; rcases List.mem_cons.mp hb with rfl | hb; exact hfne; exact hrne b hb) hp
    simp only [hasFeasibleCycle, List.any_eq_true]
    refine ⟨a, hA a (List.mem_cons_self ..), ?_⟩
    rw [List.pairwise_cons] at hp
    apply dfs_complete A rest a a.held n a hch
    · intro b hb; exact hA b (List.mem_cons_of_mem _ hb)
    · intro b hb x hx hxa; exact hp.1 b hb x hxa hx
    · exact hp.2
    · simp at hlen; omega

/-! ### from a wait-for cycle to a feasible cycle of the relation -/

theorem waitChain_waiting (s : State) : ∀ (rest : List Nat) (cur first : Nat), waitChain s cur rest first →
    ∀ u ∈ cur :: rest, ∃ l, (s u).wait = some l := by
  intro rest
  induction rest with
  | nil =>
    intro cur first h u hu
    simp at hu; subst hu
    obtain ⟨l, hl, _⟩ := h; exact ⟨l, hl⟩
  | cons v rest ih =>
    intro cur first h u hu
    obtain ⟨h1, h2⟩ := h
    rcases List.mem_cons.mp hu with rfl | hu
    · obtain ⟨l, hl, _⟩ := h1; exact ⟨l, hl⟩
    · exact ih v first h2 u hu

theorem deadlock_gives_feasible {A : List Acq} {s : State} (hi : Inv A s) (ts : List Nat)
    (hc : WaitCycle s ts) : ∃ c, FeasibleCycle A c := by
  cases ts with
  | nil => exact hc.elim
  | cons t rest =>
    obtain ⟨hnd, hch⟩ := hc
    -- choose the acquisition site of every waiting thread
    have hex : ∀ u, ∃ a : Acq, ∀ l, (s u).wait = some l → a ∈ A ∧ a.want = l ∧ SameSet a.held (s u).held := by
      intro u
      cases hw : (s u).wait with
      | none => exact ⟨⟨[], 0⟩, by intro l h; cases h⟩
      | some l =>
        obtain ⟨a, h1, h2, h3⟩ := hi.site u l hw
        exact ⟨a, by intro l' h; cases h; exact ⟨h1, h2, h3⟩⟩
    obtain ⟨f, hf⟩ := Classical.axiomOfChoice hex
    have hwait := waitChain_waiting s rest t t hch
    have link : ∀ u v, WaitsFor s u v → (∃ l, (s v).wait = some l) → (f u).want ∈ (f v).held := by
      intro u v ⟨l, hl, hlv⟩ ⟨l', hl'⟩
      rw [(hf u l hl).2.1]
      exact ((hf v l' hl').2.2 l).mpr hlv
    have chain : ∀ (rest : List Nat) (cur first : Nat), waitChain s cur rest first →
        (∀ u ∈ rest, ∃ l, (s u).wait = some l) → (∃ l, (s first).wait = some l) →
        chainTo (f cur) (rest.map f) (f first) := by
      intro rest
      induction rest with
      | nil => intro cur first h _ hfw; exact link cur first h hfw
      | cons v rest ih =>
        intro cur first h hr hfw
        obtain ⟨h1, h2⟩ := h
        exact ⟨link cur v h1 (hr v (List.mem_cons_self ..)),
          ih v first h2 (fun u hu => hr u (List.mem_cons_of_mem _ hu)) hfw⟩
    refine ⟨(t :: rest).map f, ?_⟩
    simp only [List.map_cons]
    refine ⟨?_, ?_, ?_⟩
    · intro b hb
      rw [← List.map_cons] at hb
      obtain ⟨u, hu, rfl⟩ := List.mem_map.mp hb
      obtain ⟨l, hl⟩ := hwait u hu
      exact (hf u l hl).1
    · rw [← List.map_cons, List.pairwise_map]
      refine (List.Pairwise.imp_of_mem ?_ hnd)
      intro u v hu hv huv x hxu hxv
      obtain ⟨lu, hlu⟩ := hwait u hu
      obtain ⟨lv, hlv⟩ := hwait v hv
      have h1 := ((hf u lu hlu).2.2 x).mp hxu
      have h2 := ((hf v lv hlv).2.2 x).mp hxv
      exact huv (hi.mutex u v x h1 h2)
    · exact chain rest t t hch (fun u hu => hwait u (List.mem_cons_of_mem _ hu)) (hwait t (List.mem_cons_self ..))

/-! ### progress: every blocked thread transitively waits for a thread that can take a step -/

/-- lock numbers held by threads are in range -/
theorem held_lt {A : List Acq} {n : Nat} (hwf : wellFormed A n = true) {s : State} (h : Reach A s) :
    ∀ t x, x ∈ (s t).held → x < n := by
  induction h with
  | init => intro t x hx; simp [init] at hx
  | step hr hs ih =>
    rename_i s0 s1
    have hinv := reach_inv hr
    cases hs with
    | request t a hw ha hsame =>
      intro t' x hx
      by_cases h : t' = t
      · subst h; simp at hx; exact ih _ x hx
      · rw [upd_other _ _ _ _ h] at hx; exact ih t' x hx
    | grant t l hw hfree =>
      intro t' x hx
      by_cases h : t' = t
      · subst h; simp at hx
        rcases hx with rfl | hx
        · obtain ⟨a, haA, hwant, _⟩ := hinv.site _ _ hw
          simp only [wellFormed, List.all_eq_true, Bool.and_eq_true, decide_eq_true_eq] at hwf
          rw [← hwant]; exact (hwf a haA).1
        · exact ih _ x hx
      · rw [upd_other _ _ _ _ h] at hx; exact ih t' x hx
    | release t l hw =>
      intro t' x hx
      by_cases h : t' = t
      · subst h; simp at hx; exact ih _ x hx.1
      · rw [upd_other _ _ _ _ h] at hx; exact ih t' x hx

/-- a forward path in the wait-for graph -/
def fwd (s : State) : List Nat → Prop
  | [] => True
  | [_] => True
  | a :: b :: r => WaitsFor s a b ∧ fwd s (b :: r)

theorem fwd_snoc (s : State) : ∀ (q : List Nat) (a b : Nat), fwd s (q ++ [a]) → WaitsFor s a b →
    fwd s (q ++ [a] ++ [b]) := by
  intro q
  induction q with
  | nil => intro a b _ hab; exact ⟨hab, trivial⟩
  | cons x q ih =>
    intro a b h hab
    cases q with
    | nil => exact ⟨h.1, hab, trivial⟩
    | cons y q' =>
      obtain ⟨hxy, hrest⟩ := h
      exact ⟨hxy, ih a b hrest hab⟩

theorem fwd_suffix (s : State) : ∀ (pre q : List Nat), fwd s (pre ++ q) → fwd s q := by
  intro pre
  induction pre with
  | nil => intro q h; exact h
  | cons x pre ih =>
    intro q h
    apply ih
    cases hpq : pre ++ q with
    | nil => trivial
    | cons y r => rw [List.cons_append, hpq] at h; exact h.2

/-- a forward path `a :: r` whose last element waits for `first` is a chain back to `first` -/
theorem waitChain_of_fwd (s : State) : ∀ (r : List Nat) (a last first : Nat), fwd s (a :: r) →
    (a :: r).getLast? = some last → WaitsFor s last first → waitChain s a r first := by
  intro r
  induction r with
  | nil => intro a last first _ hl hw; simp at hl; subst hl; exact hw
  | cons b r ih =>
    intro a last first h hl hw
    obtain ⟨hab, hrest⟩ := h
    refine ⟨hab, ih b last first hrest ?_ hw⟩
    simpa [List.getLast?_cons_cons] using hl

/-- every non-first element of a forward path holds a lock -/
theorem fwd_tail_holds (s : State) : ∀ (p : List Nat) (a : Nat), fwd s (a :: p) → ∀ b ∈ p, (s b).held ≠ [] := by
  intro p
  induction p with
  | nil => intro a _ b hb; cases hb
  | cons c p ih =>
    intro a h b hb
    obtain ⟨⟨l, _, hl⟩, hrest⟩ := h
    rcases List.mem_cons.mp hb with rfl | hb
    · intro e; rw [e] at hl; cases hl
    · exact ih c hrest b hb

theorem path_length_le {A : List Acq} {n : Nat} {s : State} (hi : Inv A s)
    (hlt : ∀ t x, x ∈ (s t).held → x < n) (p : List Nat) (hnd : p.Nodup)
    (hne : ∀ b ∈ p, (s b).held ≠ []) : p.length ≤ n := by
  let rep : Nat → Nat := fun t => (s t).held.headD 0
  have hrep : ∀ b ∈ p, rep b ∈ (s b).held := by
    intro b hb
    have := hne b hb
    cases hh : (s b).held with
    | nil => exact absurd hh this
    | cons x xs => simp [rep, hh]
  have hnd' : (p.map rep).Nodup := by
    rw [List.Nodup, List.pairwise_map]
    refine hnd.imp_of_mem ?_
    intro a b ha hb hab heq
    exact hab (hi.mutex a b (rep a) (hrep a ha) (heq ▸ hrep b hb))
  have hsub : p.map rep ⊆ List.range n := by
    intro x hx
    obtain ⟨b, hb, rfl⟩ := List.mem_map.mp hx
    exact List.mem_range.mpr (hlt b _ (hrep b hb))
  have := hnd'.length_le_of_subset hsub
  simpa using this

theorem progress_aux {A : List Acq} {n : Nat} {s : State} (hi : Inv A s)
    (hlt : ∀ t x, x ∈ (s t).held → x < n) (hnd : ¬ Deadlock s) :
    ∀ (fuel : Nat) (pre : List Nat) (cur : Nat), (pre ++ [cur]).Nodup → fwd s (pre ++ [cur]) →
      n + 2 ≤ (pre ++ [cur]).length + fuel → ∃ u, WaitsStar s cur u ∧ Runnable s u := by
  intro fuel
  induction fuel with
  | zero =>
    intro pre cur hn hf hlen
    exfalso
    -- all elements but the first hold a lock: at most n of them
    cases hp : pre ++ [cur] with
    | nil => simp at hp
    | cons a p =>
      rw [hp] at hn hf hlen
      have := path_length_le hi hlt p (List.nodup_cons.mp hn).2 (fwd_tail_holds s p a hf)
      simp at hlen; omega
  | succ fuel ih =>
    intro pre cur hn hf hlen
    by_cases hr : Runnable s cur
    · exact ⟨cur, .refl cur, hr⟩
    · -- cur is blocked on a lock that somebody holds
      simp only [Runnable, not_or] at hr
      obtain ⟨hw, hfree⟩ := hr
      cases hwc : (s cur).wait with
      | none => exact absurd hwc hw
      | some l =>
        have : ¬ ∀ v, l ∉ (s v).held := fun h => hfree ⟨l, hwc, h⟩
        obtain ⟨v, hv⟩ := Classical.not_forall.mp this
        have hv : l ∈ (s v).held := Classical.not_not.mp hv
        have hcv : WaitsFor s cur v := ⟨l, hwc, hv⟩
        by_cases hmem : v ∈ pre ++ [cur]
        · -- a cycle: contradiction with deadlock freedom
          exfalso
          obtain ⟨p1, p2, hsplit⟩ := List.append_of_mem hmem
          apply hnd
          refine ⟨v :: p2, ?_, ?_⟩
          · rw [hsplit] at hn
            exact (List.nodup_append.mp hn).2.1
          · have hf2 : fwd s (v :: p2) := fwd_suffix s p1 (v :: p2) (hsplit ▸ hf)
            have hlast : (v :: p2).getLast? = some cur := by
              have : (pre ++ [cur]).getLast? = some cur := by simp
              rw [hsplit, List.getLast?_append] at this
              cases hgl : (v :: p2).getLast? with
              | none => simp at hgl
              | some z => rw [hgl] at this; simpa using this
            exact waitChain_of_fwd s p2 v cur v hf2 hlast hcv
        · have hn' : (pre ++ [cur] ++ [v]).Nodup := by
            rw [List.nodup_append]
            refine ⟨hn, by simp, ?_⟩
            intro a ha b hb
            simp at hb; subst hb
            intro e; subst e; exact hmem ha
          obtain ⟨u, hvu, hru⟩ := ih (pre ++ [cur]) v hn' (fwd_snoc s pre cur v hf hcv) (by simp at hlen ⊢; omega)
          exact ⟨u, .step hcv hvu, hru⟩

end Nervus.LockLTS
