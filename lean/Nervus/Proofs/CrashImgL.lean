/-
  Proofs.CrashImgL — power-loss images of the page file in which no write of a leaf page of the
  LIVE property tree is torn (the tree the durable manifest points to is updated in place by
  compaction; a torn in-place leaf write is the known finding `C01-live-tree-in-place`).  Same
  closure principle as `CrashImg`, with the torn case excluded for those writes.
-/
import Nervus.Proofs.CrashImg
namespace Nervus.Crash

/-- the operation writes a leaf page of tree `live` -/
def isLiveLeaf (live : Nat) : PEff → Bool
  | .leaf k _ _ _ _ => k == live
  | _ => false

/-- the selection tears a leaf write of tree `live` -/
def tearsLive (live : Nat) (l : List (PEff × Sel)) : Bool :=
  l.any (fun x => x.2 == Sel.torn && isLiveLeaf live x.1)

/-- the crash mode tears a leaf write of tree `live` among the unsynced operations `pj` -/
def CrashMode.tearsLive (live : Nat) (pj : List PEff) : CrashMode → Bool
  | .proc => false
  | .power sel _ _ => Crash.tearsLive live (zipSel pj sel)

/-- `p'` is a power-loss image of `p` that does not tear a leaf write of tree `live` -/
def IsImgL (live : Nat) (pj : List PEff) (p p' : PImg) : Prop :=
  ∃ sel, tearsLive live (zipSel pj sel) = false ∧ p' = applySel (zipSel pj sel) p

theorem IsImgL.isImg {live : Nat} {pj : List PEff} {p p' : PImg} (h : IsImgL live pj p p') : IsImg pj p p' := by
  obtain ⟨sel, _, h⟩ := h
  exact ⟨sel, h⟩

theorem isImgL_snoc (live : Nat) (pj : List PEff) (e : PEff) (p p'' : PImg) (h : IsImgL live (pj ++ [e]) p p'') :
    ∃ p', IsImgL live pj p p' ∧
      (p'' = p' ∨ p'' = applyEff e p' ∨ (isLiveLeaf live e = false ∧ ∃ e', tornEff p' e = some e' ∧ p'' = applyEff e' p')) := by
  obtain ⟨sel, hsel, rfl⟩ := h
  induction pj generalizing p sel with
  | nil =>
    refine ⟨p, ⟨[], rfl, rfl⟩, ?_⟩
    cases sel with
    | nil => simp [zipSel, applySel]
    | cons s ss =>
      cases s
      · simp [zipSel, applySel]
      · simp [zipSel, applySel]
      · simp only [List.nil_append, zipSel, applySel]
        have hl : isLiveLeaf live e = false := by
          simpa [zipSel, tearsLive] using hsel
        cases ht : tornEff p e with
        | none => simp
        | some e' => exact Or.inr (Or.inr ⟨hl, e', rfl, rfl⟩)
  | cons x pj ih =>
    cases sel with
    | nil =>
      have hsel' : tearsLive live (zipSel (pj ++ [e]) []) = false := by
        simpa [zipSel, tearsLive] using hsel
      obtain ⟨p', ⟨sel', hs', hp'⟩, hcase⟩ := ih p [] hsel'
      refine ⟨p', ⟨Sel.drop :: sel', ?_, ?_⟩, ?_⟩
      · simpa [zipSel, tearsLive] using hs'
      · simp [zipSel, applySel, hp']
      · simpa [zipSel, applySel] using hcase
    | cons s ss =>
      have hsel' : tearsLive live (zipSel (pj ++ [e]) ss) = false := by
        have : tearsLive live ((x, s) :: zipSel (pj ++ [e]) ss) = false := by simpa [zipSel] using hsel
        simp only [tearsLive, List.any_cons, Bool.or_eq_false_iff] at this
        exact this.2
      have hx : (s == Sel.torn && isLiveLeaf live x) = false := by
        have : tearsLive live ((x, s) :: zipSel (pj ++ [e]) ss) = false := by simpa [zipSel] using hsel
        simp only [tearsLive, List.any_cons, Bool.or_eq_false_iff] at this
        exact this.1
      have hcons : ∀ sel', tearsLive live (zipSel pj sel') = false → tearsLive live (zipSel (x :: pj) (s :: sel')) = false := by
        intro sel' h'
        simp only [zipSel, tearsLive, List.any_cons, Bool.or_eq_false_iff]
        exact ⟨hx, h'⟩
      cases s with
      | drop =>
        obtain ⟨p', ⟨sel', hs', hp'⟩, hcase⟩ := ih p ss hsel'
        exact ⟨p', ⟨Sel.drop :: sel', hcons sel' hs', by simp [zipSel, applySel, hp']⟩, by simpa [zipSel, applySel] using hcase⟩
      | keep =>
        obtain ⟨p', ⟨sel', hs', hp'⟩, hcase⟩ := ih (applyEff x p) ss hsel'
        exact ⟨p', ⟨Sel.keep :: sel', hcons sel' hs', by simp [zipSel, applySel, hp']⟩, by simpa [zipSel, applySel] using hcase⟩
      | torn =>
        cases ht : tornEff p x with
        | none =>
          obtain ⟨p', ⟨sel', hs', hp'⟩, hcase⟩ := ih p ss hsel'
          exact ⟨p', ⟨Sel.torn :: sel', hcons sel' hs', by simp [zipSel, applySel, ht, hp']⟩, by simpa [zipSel, applySel, ht] using hcase⟩
        | some x' =>
          obtain ⟨p', ⟨sel', hs', hp'⟩, hcase⟩ := ih (applyEff x' p) ss hsel'
          exact ⟨p', ⟨Sel.torn :: sel', hcons sel' hs', by simp [zipSel, applySel, ht, hp']⟩, by simpa [zipSel, applySel, ht] using hcase⟩

theorem isImgL_nil (live : Nat) (p p' : PImg) (h : IsImgL live [] p p') : p' = p := isImg_nil p p' h.isImg

theorem isImgL_pv (live : Nat) (pj : List PEff) (p : PImg) : IsImgL live pj p (applyEffs pj p) := by
  refine ⟨pj.map (fun _ => Sel.keep), ?_, ?_⟩
  · induction pj with
    | nil => rfl
    | cons e pj ih => simpa [zipSel, tearsLive] using ih
  · induction pj generalizing p with
    | nil => rfl
    | cons e pj ih => simp [zipSel, applySel, applyEffs, List.foldl] at *; exact ih (applyEff e p)

theorem isImgL_pd (live : Nat) (pj : List PEff) (p : PImg) : IsImgL live pj p p := by
  refine ⟨[], ?_, by rw [zipSel_nil_sel, applySel_drop]⟩
  rw [zipSel_nil_sel]
  induction pj with
  | nil => rfl
  | cons e pj ih => simpa [tearsLive] using ih

/-- every power-loss image of the page file that tears no live leaf write is in class `C` -/
def AllImgsL (live : Nat) (fs : FS) (C : PImg → Prop) : Prop := ∀ p', IsImgL live fs.pj fs.pd p' → C p'

theorem AllImgs.toL {live : Nat} {fs : FS} {C : PImg → Prop} (h : AllImgs fs C) : AllImgsL live fs C :=
  fun p' hp' => h p' hp'.isImg

theorem allImgsL_pg (live : Nat) (fs : FS) (C : PImg → Prop) (e : PEff) (pid : Nat) (h : AllImgsL live fs C)
    (hc : ∀ p, C p → C (applyEff e p) ∧ (isLiveLeaf live e = false → ∀ e', tornEff p e = some e' → C (applyEff e' p))) :
    AllImgsL live (fs.step (.pg e pid)) C := by
  intro p'' himg
  obtain ⟨p', hp', hcase⟩ := isImgL_snoc live fs.pj e fs.pd p'' himg
  have hC := h p' hp'
  rcases hcase with rfl | rfl | ⟨hl, e', ht, rfl⟩
  · exact hC
  · exact (hc p' hC).1
  · exact (hc p' hC).2 hl e' ht

theorem allImgsL_ps (live : Nat) (fs : FS) (C : PImg → Prop) (h : C fs.pv) : AllImgsL live (fs.step .ps) C := by
  intro p' himg
  have := isImgL_nil _ _ _ himg
  rw [this]
  exact h

theorem allImgsL_pv (live : Nat) (fs : FS) (C : PImg → Prop) (h : AllImgsL live fs C) : C fs.pv := h _ (isImgL_pv _ _ _)

theorem allImgsL_pd (live : Nat) (fs : FS) (C : PImg → Prop) (h : AllImgsL live fs C) : C fs.pd := h _ (isImgL_pd _ _ _)

theorem allImgsL_mono (live : Nat) (fs : FS) (C C' : PImg → Prop) (h : AllImgsL live fs C) (hcc : ∀ p, C p → C' p) :
    AllImgsL live fs C' := fun p' hp' => hcc _ (h p' hp')

theorem allImgsL_wal (live : Nat) (fs fs' : FS) (C : PImg → Prop) (h : AllImgsL live fs C) (hpd : fs'.pd = fs.pd)
    (hpj : fs'.pj = fs.pj) : AllImgsL live fs' C := by
  intro p' himg
  rw [hpd, hpj] at himg
  exact h p' himg

theorem crashP_isImgL (live : Nat) (fs : FS) (mode : CrashMode) (h : mode.tearsLive live fs.pj = false) :
    IsImgL live fs.pj fs.pd (fs.crashP mode) := by
  cases mode with
  | proc => exact isImgL_pv _ _ _
  | power sel wk lose => exact ⟨sel, h, rfl⟩

theorem allImgsL_of_inert (live : Nat) (fs : FS) (C : PImg → Prop) (hi : Inert fs.pj) (h : C fs.pd) : AllImgsL live fs C := by
  intro p' hp'
  rw [isImg_inert _ hi _ _ hp'.isImg]
  exact h

end Nervus.Crash
