/-
  C26: a purely syntactic "keys fit" condition under which no insert overflows.
  If every key's cell length lies in [lcm, lcM] (leaf cells) / [icm, icM] (internal cells) and
      ((H / (m + slot)) + 2) / 2 * (M + slot) ≤ H        (H = page size − header, for both page kinds)
  then a split by COUNT never produces a half that exceeds a page: `rebuild_leaf(..).unwrap()` does not
  panic and `rebuild_internal(..)?` does not fail.  With keys of one size the condition is "one cell
  fits a page".  The only remaining failure of an insert is the exhaustion of page ids.
-/
import Nervus.Proofs.BTreeRun
set_option linter.unusedSectionVars false
set_option linter.unusedVariables false
namespace Nervus.BTree
open Nervus KO

variable {κ : Type} [KeyOrd κ] [LawfulKeyOrd κ]

/-- weighted size of a cell list -/
def wsum (f : κ × Nat → Nat) (es : List (κ × Nat)) : Nat := (es.map f).sum

theorem wsum_nil (f : κ × Nat → Nat) : wsum f [] = 0 := rfl
theorem wsum_cons (f : κ × Nat → Nat) (e : κ × Nat) (es : List (κ × Nat)) : wsum f (e :: es) = f e + wsum f es := by
  simp [wsum]
theorem wsum_append (f : κ × Nat → Nat) (a b : List (κ × Nat)) : wsum f (a ++ b) = wsum f a + wsum f b := by
  simp [wsum]
theorem wsum_take_drop (f : κ × Nat → Nat) (es : List (κ × Nat)) (i : Nat) :
    wsum f (es.take i) + wsum f (es.drop i) = wsum f es := by
  rw [← wsum_append, List.take_append_drop]
theorem wsum_insertIdx (f : κ × Nat → Nat) (es : List (κ × Nat)) (i : Nat) (x : κ × Nat) (h : i ≤ es.length) :
    wsum f (es.insertIdx i x) = wsum f es + f x := by
  rw [insertIdx_eq_take_drop _ _ _ h, wsum_append, wsum_cons, ← wsum_take_drop f es i]; omega
theorem wsum_eraseIdx (f : κ × Nat → Nat) (es : List (κ × Nat)) (i : Nat) : wsum f (es.eraseIdx i) ≤ wsum f es := by
  rw [List.eraseIdx_eq_take_drop_succ, wsum_append, ← wsum_take_drop f es i]
  have : wsum f (es.drop (i + 1)) ≤ wsum f (es.drop i) := by
    rw [← wsum_take_drop f (es.drop i) 1]
    simp only [List.drop_drop]
    rw [Nat.add_comm i 1] 
    omega
  omega
theorem wsum_le (f : κ × Nat → Nat) (M : Nat) : ∀ (es : List (κ × Nat)), (∀ e ∈ es, f e ≤ M) → wsum f es ≤ es.length * M
  | [], _ => by simp [wsum]
  | e :: es, h => by
    rw [wsum_cons, List.length_cons, Nat.succ_mul]
    have := wsum_le f M es (fun x hx => h x (List.mem_cons_of_mem _ hx))
    have := h e (List.mem_cons_self ..)
    omega
theorem wsum_ge (f : κ × Nat → Nat) (m : Nat) : ∀ (es : List (κ × Nat)), (∀ e ∈ es, m ≤ f e) → es.length * m ≤ wsum f es
  | [], _ => by simp [wsum]
  | e :: es, h => by
    rw [wsum_cons, List.length_cons, Nat.succ_mul]
    have := wsum_ge f m es (fun x hx => h x (List.mem_cons_of_mem _ hx))
    have := h e (List.mem_cons_self ..)
    omega

/-- bytes of a page used by cells + their slots -/
def used (c : Cfg) (f : κ × Nat → Nat) (es : List (κ × Nat)) : Nat := wsum (fun e => f e + c.slotW) es

theorem used_eq (c : Cfg) (f : κ × Nat → Nat) : ∀ es : List (κ × Nat), used c f es = wsum f es + es.length * c.slotW
  | [] => by simp [used, wsum]
  | e :: es => by
    have := used_eq c f es
    simp only [used] at this ⊢
    rw [wsum_cons, wsum_cons, this, List.length_cons, Nat.succ_mul]; omega

structure Bounds where
  lcm : Nat
  lcM : Nat
  icm : Nat
  icM : Nat

/-- the key's cell lengths are inside the bounds -/
def Good (c : Cfg) (B : Bounds) (k : κ) : Prop :=
  B.lcm ≤ leafCellLen c k ∧ leafCellLen c k ≤ B.lcM ∧ B.icm ≤ intCellLen c k ∧ intCellLen c k ≤ B.icM

/-- the syntactic fit condition on the layout and the bounds -/
structure FitCfg (c : Cfg) (B : Bounds) : Prop where
  slack : c.slack = c.slotW
  lpos : 0 < B.lcm + c.slotW
  ipos : 0 < B.icm + c.slotW
  hl : c.leafHdr ≤ c.ps
  hi : c.intHdr ≤ c.ps
  leaf : ((c.ps - c.leafHdr) / (B.lcm + c.slotW) + 2) / 2 * (B.lcM + c.slotW) ≤ c.ps - c.leafHdr
  int : ((c.ps - c.intHdr) / (B.icm + c.slotW) + 2) / 2 * (B.icM + c.slotW) ≤ c.ps - c.intHdr

def lcl (c : Cfg) (e : κ × Nat) : Nat := leafCellLen c e.1
def icl (c : Cfg) (e : κ × Nat) : Nat := intCellLen c e.1

/-- byte accounting of one page: slots do not run into the cell area, the live cells are inside it -/
def SizedNode (c : Cfg) (B : Bounds) : Node κ → Prop
  | .leaf es b _ => c.leafHdr + es.length * c.slotW ≤ b ∧ b ≤ c.ps ∧ wsum (lcl c) es ≤ c.ps - b ∧ ∀ e ∈ es, Good c B e.1
  | .internal _ cells b => c.intHdr + cells.length * c.slotW ≤ b ∧ b ≤ c.ps ∧ wsum (icl c) cells ≤ c.ps - b ∧ ∀ e ∈ cells, Good c B e.1

def Sized (c : Cfg) (B : Bounds) (pg : Pg κ) : Prop := ∀ p n, pg p = some n → SizedNode c B n

/-- a page whose cells are all ≥ m cannot hold more than H / (m + slot) of them -/
theorem count_le (c : Cfg) (f : κ × Nat → Nat) (m hdr b : Nat) (es : List (κ × Nat)) (hpos : 0 < m + c.slotW)
    (h1 : hdr + es.length * c.slotW ≤ b) (h2 : b ≤ c.ps) (h3 : wsum f es ≤ c.ps - b) (hm : ∀ e ∈ es, m ≤ f e) :
    es.length ≤ (c.ps - hdr) / (m + c.slotW) := by
  rw [Nat.le_div_iff_mul_le hpos, Nat.mul_add]
  have := wsum_ge f m es hm
  omega

/-- at most K cells, each ≤ M, fit a fresh page when K·(M + slot) ≤ H -/
theorem half_fits (c : Cfg) (f : κ × Nat → Nat) (M K H : Nat) (xs : List (κ × Nat)) (hM : ∀ e ∈ xs, f e ≤ M)
    (hK : xs.length ≤ K) (hH : K * (M + c.slotW) ≤ H) : wsum f xs + xs.length * c.slotW ≤ H := by
  have h1 := wsum_le f M xs hM
  have h2 : xs.length * (M + c.slotW) ≤ K * (M + c.slotW) := Nat.mul_le_mul_right _ hK
  rw [Nat.mul_add] at h2
  omega

/-! ### rebuild on a fresh page -/

theorem rebuildLeafGo_ok (c : Cfg) (hs : c.slack = c.slotW) : ∀ (xs acc : List (κ × Nat)) (b : Nat),
    c.leafHdr + acc.length * c.slotW ≤ b →
    wsum (lcl c) xs + xs.length * c.slotW ≤ b - c.leafHdr - acc.length * c.slotW →
    rebuildLeafGo c xs acc b = some (acc ++ xs, b - wsum (lcl c) xs)
  | [], acc, b, _, _ => by simp [rebuildLeafGo, wsum]
  | (k, v) :: xs, acc, b, h1, h2 => by
    rw [wsum_cons, List.length_cons, Nat.succ_mul] at h2
    have hcl : lcl c (k, v) = leafCellLen c k := rfl
    have hins : leafInsertAt c acc b acc.length k v = some (acc ++ [(k, v)], b - leafCellLen c k) := by
      unfold leafInsertAt freeSpace
      simp only [hs]
      have a1 : ¬ (b - (c.leafHdr + acc.length * c.slotW) < leafCellLen c k + c.slotW) := by rw [hcl] at h2; omega
      have a2 : ¬ (acc.length < acc.length) := Nat.lt_irrefl _
      have a3 : ¬ (b < leafCellLen c k) := by rw [hcl] at h2; omega
      simp only [a1, a2, a3, if_false, List.insertIdx_length_self]
    simp only [rebuildLeafGo, hins]
    have := rebuildLeafGo_ok c hs xs (acc ++ [(k, v)]) (b - leafCellLen c k)
      (by simp only [List.length_append, List.length_singleton, Nat.succ_mul]; rw [hcl] at h2; omega)
      (by simp only [List.length_append, List.length_singleton, Nat.succ_mul]; rw [hcl] at h2; omega)
    rw [this, wsum_cons, hcl]
    simp only [List.append_assoc, List.singleton_append]
    congr 2
    omega

theorem rebuildIntGo_ok (c : Cfg) (hs : c.slack = c.slotW) : ∀ (xs acc : List (κ × Nat)) (b : Nat),
    c.intHdr + acc.length * c.slotW ≤ b →
    wsum (icl c) xs + xs.length * c.slotW ≤ b - c.intHdr - acc.length * c.slotW →
    rebuildIntGo c xs acc b = some (acc ++ xs, b - wsum (icl c) xs)
  | [], acc, b, _, _ => by simp [rebuildIntGo, wsum]
  | (k, v) :: xs, acc, b, h1, h2 => by
    rw [wsum_cons, List.length_cons, Nat.succ_mul] at h2
    have hcl : icl c (k, v) = intCellLen c k := rfl
    have hins : intInsertAt c acc b acc.length k v = some (acc ++ [(k, v)], b - intCellLen c k) := by
      unfold intInsertAt freeSpace
      simp only [hs]
      have a1 : ¬ (b - (c.intHdr + acc.length * c.slotW) < intCellLen c k + c.slotW) := by rw [hcl] at h2; omega
      have a2 : ¬ (acc.length < acc.length) := Nat.lt_irrefl _
      have a3 : ¬ (b < intCellLen c k) := by rw [hcl] at h2; omega
      simp only [a1, a2, a3, if_false, List.insertIdx_length_self]
    simp only [rebuildIntGo, hins]
    have := rebuildIntGo_ok c hs xs (acc ++ [(k, v)]) (b - intCellLen c k)
      (by simp only [List.length_append, List.length_singleton, Nat.succ_mul]; rw [hcl] at h2; omega)
      (by simp only [List.length_append, List.length_singleton, Nat.succ_mul]; rw [hcl] at h2; omega)
    rw [this, wsum_cons, hcl]
    simp only [List.append_assoc, List.singleton_append]
    congr 2
    omega

/-- rebuild_leaf succeeds when cells + slots fit the page, and the result is sized -/
theorem rebuildLeaf_ok (c : Cfg) (B : Bounds) (hs : c.slack = c.slotW) (hl : c.leafHdr ≤ c.ps) (xs : List (κ × Nat)) (r : Nat)
    (hfit : wsum (lcl c) xs + xs.length * c.slotW ≤ c.ps - c.leafHdr) (hg : ∀ e ∈ xs, Good c B e.1) :
    rebuildLeaf c xs = some (xs, c.ps - wsum (lcl c) xs) ∧ SizedNode c B (.leaf xs (c.ps - wsum (lcl c) xs) r) := by
  constructor
  · have := rebuildLeafGo_ok c hs xs [] c.ps (by simpa using hl) (by simpa using hfit)
    simpa [rebuildLeaf] using this
  · refine ⟨by omega, by omega, by omega, hg⟩

theorem rebuildInternal_ok (c : Cfg) (B : Bounds) (hs : c.slack = c.slotW) (hi : c.intHdr ≤ c.ps) (xs : List (κ × Nat)) (lm : Nat)
    (hfit : wsum (icl c) xs + xs.length * c.slotW ≤ c.ps - c.intHdr) (hg : ∀ e ∈ xs, Good c B e.1) :
    rebuildInternal c xs = some (xs, c.ps - wsum (icl c) xs) ∧ SizedNode c B (.internal lm xs (c.ps - wsum (icl c) xs)) := by
  constructor
  · have := rebuildIntGo_ok c hs xs [] c.ps (by simpa using hi) (by simpa using hfit)
    simpa [rebuildInternal] using this
  · refine ⟨by omega, by omega, by omega, hg⟩

/-! ### sized pages under the page-level operations -/

theorem Sized_upd {c : Cfg} {B : Bounds} {pg : Pg κ} (h : Sized c B pg) (p : Nat) (n : Node κ) (hn : SizedNode c B n) :
    Sized c B (upd pg p n) := by
  intro q m hq
  by_cases e : q = p
  · subst e; simp at hq; subst hq; exact hn
  · rw [upd_other _ _ _ _ e] at hq; exact h q m hq

theorem leafInsertAt_sized (c : Cfg) (B : Bounds) (hs : c.slack = c.slotW) (es : List (κ × Nat)) (b idx : Nat) (k : κ) (v r : Nat)
    (es' : List (κ × Nat)) (b' : Nat) (h : leafInsertAt c es b idx k v = some (es', b'))
    (hn : SizedNode c B (.leaf es b r)) (hk : Good c B k) : SizedNode c B (.leaf es' b' r) := by
  obtain ⟨h1, h2, h3, h4⟩ := hn
  unfold leafInsertAt freeSpace at h
  simp only [hs] at h
  split at h
  · cases h
  · split at h
    · cases h
    · split at h
      · cases h
      · rename_i a1 a2 a3
        simp only [Option.some.injEq, Prod.mk.injEq] at h
        obtain ⟨rfl, rfl⟩ := h
        have hidx : idx ≤ es.length := by omega
        refine ⟨?_, by omega, ?_, ?_⟩
        · rw [List.length_insertIdx]; simp only [hidx, if_true, Nat.succ_mul]; omega
        · rw [wsum_insertIdx _ _ _ _ hidx]; show wsum (lcl c) es + leafCellLen c k ≤ _; omega
        · intro e he
          rw [insertIdx_eq_take_drop _ _ _ hidx] at he
          rcases List.mem_append.mp he with he | he
          · exact h4 e (List.mem_of_mem_take he)
          · rcases List.mem_cons.mp he with rfl | he
            · exact hk
            · exact h4 e (List.mem_of_mem_drop he)

theorem intInsertAt_sized (c : Cfg) (B : Bounds) (hs : c.slack = c.slotW) (es : List (κ × Nat)) (b idx : Nat) (k : κ) (v lm : Nat)
    (es' : List (κ × Nat)) (b' : Nat) (h : intInsertAt c es b idx k v = some (es', b'))
    (hn : SizedNode c B (.internal lm es b)) (hk : Good c B k) : SizedNode c B (.internal lm es' b') := by
  obtain ⟨h1, h2, h3, h4⟩ := hn
  unfold intInsertAt freeSpace at h
  simp only [hs] at h
  split at h
  · cases h
  · split at h
    · cases h
    · split at h
      · cases h
      · rename_i a1 a2 a3
        simp only [Option.some.injEq, Prod.mk.injEq] at h
        obtain ⟨rfl, rfl⟩ := h
        have hidx : idx ≤ es.length := by omega
        refine ⟨?_, by omega, ?_, ?_⟩
        · rw [List.length_insertIdx]; simp only [hidx, if_true, Nat.succ_mul]; omega
        · rw [wsum_insertIdx _ _ _ _ hidx]; show wsum (icl c) es + intCellLen c k ≤ _; omega
        · intro e he
          rw [insertIdx_eq_take_drop _ _ _ hidx] at he
          rcases List.mem_append.mp he with he | he
          · exact h4 e (List.mem_of_mem_take he)
          · rcases List.mem_cons.mp he with rfl | he
            · exact hk
            · exact h4 e (List.mem_of_mem_drop he)

/-- one cell of a good key fits an empty page (the fit condition with a half of at least one cell) -/
theorem one_int_fits (c : Cfg) (B : Bounds) (fc : FitCfg c B) (k : κ) (hk : Good c B k) :
    intCellLen c k + c.slotW ≤ c.ps - c.intHdr := by
  have h := fc.int
  have h1 : 1 ≤ ((c.ps - c.intHdr) / (B.icm + c.slotW) + 2) / 2 := by
    generalize (c.ps - c.intHdr) / (B.icm + c.slotW) = X
    omega
  have h2 : 1 * (B.icM + c.slotW) ≤ ((c.ps - c.intHdr) / (B.icm + c.slotW) + 2) / 2 * (B.icM + c.slotW) :=
    Nat.mul_le_mul_right _ h1
  have := hk.2.2.2
  omega

/-- the state insert_into_parent recurses in after an internal split (the step inside `iip_spec`) -/
theorem pend_step (t : Tree κ) (g : Ghost κ) (pid pos : Nat) (rest : List (Nat × Nat)) (lvl : Nat) (lo hi : Option κ)
    (lm : Nat) (cells : List (κ × Nat)) (b : Nat) (s : κ) (y : Nat)
    (hG : g.G pid = some (lvl + 1, lo, hi)) (hp : t.pages.get pid = some (.internal lm cells b))
    (hwf : ∀ bb, WF (upd t.pages.get pid (.internal lm (cells.insertIdx pos (s, y)) bb)) t.root t.next g)
    (hpath : PathOK t.pages.get g t.root pid (lvl + 1) rest)
    (promote : κ) (rlm : Nat) (rc : List (κ × Nat))
    (hd : (cells.insertIdx pos (s, y)).drop ((cells.insertIdx pos (s, y)).length / 2) = (promote, rlm) :: rc)
    (lb rb : Nat) :
    Pend ((t.pages.set pid (.internal lm ((cells.insertIdx pos (s, y)).take ((cells.insertIdx pos (s, y)).length / 2)) lb)).set
        t.next (.internal rlm rc rb)).get t.root (t.next + 1)
      ⟨splitG g.G pid t.next (lvl + 1) lo hi promote, g.L, g.H⟩ rest pid (lvl + 1) promote t.next := by
  have wfV := hwf b
  have hall : cells.insertIdx pos (s, y) =
      (cells.insertIdx pos (s, y)).take ((cells.insertIdx pos (s, y)).length / 2) ++ (promote, rlm) :: rc := by
    rw [← hd, List.take_append_drop]
  have st := int_split_step wfV pid lvl lo hi lm (cells.insertIdx pos (s, y)) b hG (by simp)
    _ rc promote rlm hall lb rb
  have hpathV : PathOK (upd t.pages.get pid (.internal lm (cells.insertIdx pos (s, y)) b)) g t.root pid (lvl + 1) rest := by
    apply PathOK_frame (pg := t.pages.get) (g := g) (g' := g) rfl rest pid (lvl + 1) _ hpath
    intro p l lo' hi' hpg hll
    refine ⟨rfl, upd_other _ _ _ _ ?_⟩
    intro e; rw [e, hG] at hpg
    simp only [Option.some.injEq, Prod.mk.injEq] at hpg; omega
  have hpend2 := pend_of_split wfV st rest hpathV
  rw [upd_upd_same] at hpend2
  rw [get_set_eq_upd, get_set_eq_upd]
  exact hpend2

/-- insert_into_parent never panics and fails only when the page ids are exhausted -/
theorem iip_total (c : Cfg) (B : Bounds) (fc : FitCfg c B) : ∀ (path : List (Nat × Nat)) (t : Tree κ) (g : Ghost κ)
    (x lvl : Nat) (s : κ) (y : Nat), Pend t.pages.get t.root t.next g path x lvl s y → Sized c B t.pages.get →
    Good c B s →
    ∃ t' o, insertIntoParent c t path x s y = (t', o) ∧
      ((o = .ok ∧ Sized c B t'.pages.get) ∨ (o = .err ∧ c.maxPages ≤ t'.next)) := by
  intro path
  induction path with
  | nil =>
    intro t g x lvl s y hpend hsz hs
    simp only [insertIntoParent]
    cases ha : alloc c t with
    | none =>
      refine ⟨t, .err, rfl, Or.inr ⟨rfl, ?_⟩⟩
      unfold alloc at ha
      split at ha
      · assumption
      · cases ha
    | some r =>
      obtain ⟨nr, t1⟩ := r
      obtain ⟨hnr, ht1⟩ := alloc_eq c t nr t1 ha
      subst hnr ht1
      have hfit := one_int_fits c B fc s hs
      have hins : intInsertAt c ([] : List (κ × Nat)) c.ps 0 s y = some ([(s, y)], c.ps - intCellLen c s) := by
        unfold intInsertAt freeSpace
        simp only [fc.slack, List.length_nil, Nat.zero_mul, Nat.add_zero]
        have a1 : ¬ (c.ps - c.intHdr < intCellLen c s + c.slotW) := by omega
        have a3 : ¬ (c.ps < intCellLen c s) := by have := fc.hi; omega
        simp [a1, a3]
      simp only [hins]
      refine ⟨_, .ok, rfl, Or.inl ⟨rfl, ?_⟩⟩
      simp only
      rw [get_set_eq_upd]
      apply Sized_upd hsz
      refine ⟨by simp; have := fc.hi; omega, by omega, ?_, ?_⟩
      · simp only [wsum_cons, wsum_nil, icl]; have := fc.hi; omega
      · intro e he; simp at he; subst he; exact hs
  | cons pp rest ih =>
    obtain ⟨pid, pos⟩ := pp
    intro t g x lvl s y hpend hsz hs
    obtain ⟨lo, hi, lm, cells, b, hG, hp, hpos, hwf, hpath⟩ := hpend
    have hnode := hsz pid _ hp
    simp only [insertIntoParent, hp]
    cases hi' : intInsertAt c cells b pos s y with
    | some r =>
      obtain ⟨cells', b'⟩ := r
      refine ⟨_, .ok, rfl, Or.inl ⟨rfl, ?_⟩⟩
      simp only
      rw [get_set_eq_upd]
      exact Sized_upd hsz _ _ (intInsertAt_sized c B fc.slack cells b pos s y lm cells' b' hi' hnode hs)
    | none =>
      have hnl : ¬ cells.length < pos := by omega
      simp only [hnl, if_false]
      obtain ⟨n1, n2, n3, n4⟩ := hnode
      have hlen : (cells.insertIdx pos (s, y)).length = cells.length + 1 := by
        rw [List.length_insertIdx]; simp [hpos]
      have hallgood : ∀ e ∈ cells.insertIdx pos (s, y), Good c B e.1 := by
        intro e he
        rw [insertIdx_eq_take_drop _ _ _ hpos] at he
        rcases List.mem_append.mp he with he | he
        · exact n4 e (List.mem_of_mem_take he)
        · rcases List.mem_cons.mp he with rfl | he
          · exact hs
          · exact n4 e (List.mem_of_mem_drop he)
      cases hd : (cells.insertIdx pos (s, y)).drop ((cells.insertIdx pos (s, y)).length / 2) with
      | nil =>
        have := List.drop_eq_nil_iff.mp hd
        omega
      | cons pr rcells =>
        obtain ⟨promote, rlm⟩ := pr
        simp only
        cases ha : alloc c t with
        | none =>
          refine ⟨t, .err, rfl, Or.inr ⟨rfl, ?_⟩⟩
          unfold alloc at ha
          split at ha
          · assumption
          · cases ha
        | some r =>
          obtain ⟨rp, t1⟩ := r
          obtain ⟨hrp, ht1⟩ := alloc_eq c t rp t1 ha
          subst hrp ht1
          simp only
          -- both halves fit a fresh page
          have hQ := count_le c (icl c) B.icm c.intHdr b cells fc.ipos n1 n2 n3 (fun e he => (n4 e he).2.2.1)
          have hrlen : rcells.length + 1 = (cells.insertIdx pos (s, y)).length - (cells.insertIdx pos (s, y)).length / 2 := by
            have := congrArg List.length hd
            simp only [List.length_drop, List.length_cons] at this
            omega
          have hlgood : ∀ e ∈ (cells.insertIdx pos (s, y)).take ((cells.insertIdx pos (s, y)).length / 2), Good c B e.1 :=
            fun e he => hallgood e (List.mem_of_mem_take he)
          have hrgood : ∀ e ∈ rcells, Good c B e.1 := by
            intro e he
            apply hallgood e
            apply List.mem_of_mem_drop (i := (cells.insertIdx pos (s, y)).length / 2)
            rw [hd]; exact List.mem_cons_of_mem _ he
          have hpgood : Good c B promote := by
            apply hallgood (promote, rlm)
            apply List.mem_of_mem_drop (i := (cells.insertIdx pos (s, y)).length / 2)
            rw [hd]; exact List.mem_cons_self ..
          have hlfit := half_fits c (icl c) B.icM _ _ _ (fun e he => (hlgood e he).2.2.2)
            (by rw [List.length_take]; omega :
              ((cells.insertIdx pos (s, y)).take ((cells.insertIdx pos (s, y)).length / 2)).length ≤
                ((c.ps - c.intHdr) / (B.icm + c.slotW) + 2) / 2) fc.int
          have hrfit := half_fits c (icl c) B.icM _ _ rcells (fun e he => (hrgood e he).2.2.2)
            (by omega : rcells.length ≤ ((c.ps - c.intHdr) / (B.icm + c.slotW) + 2) / 2) fc.int
          obtain ⟨hl1, hl2⟩ := rebuildInternal_ok c B fc.slack fc.hi _ lm hlfit hlgood
          obtain ⟨hr1, hr2⟩ := rebuildInternal_ok c B fc.slack fc.hi rcells rlm hrfit hrgood
          simp only [hl1, hr1]
          have hpend2 := pend_step t g pid pos rest lvl lo hi lm cells b s y hG hp hwf hpath promote rlm rcells hd
            (c.ps - wsum (icl c) ((cells.insertIdx pos (s, y)).take ((cells.insertIdx pos (s, y)).length / 2)))
            (c.ps - wsum (icl c) rcells)
          have hsz2 : Sized c B ((t.pages.set pid (.internal lm ((cells.insertIdx pos (s, y)).take ((cells.insertIdx pos (s, y)).length / 2))
              (c.ps - wsum (icl c) ((cells.insertIdx pos (s, y)).take ((cells.insertIdx pos (s, y)).length / 2))))).set
              t.next (.internal rlm rcells (c.ps - wsum (icl c) rcells))).get := by
            rw [get_set_eq_upd, get_set_eq_upd]
            exact Sized_upd (Sized_upd hsz _ _ hl2) _ _ hr2
          exact ih _ ⟨splitG g.G pid t.next (lvl + 1) lo hi promote, g.L, g.H⟩ pid (lvl + 1) promote t.next hpend2 hsz2 hpgood

theorem alloc_none (c : Cfg) (t : Tree κ) (h : alloc c t = none) : c.maxPages ≤ t.next := by
  unfold alloc at h
  split at h
  · assumption
  · cases h

/-- **BTree::insert is total under the fit condition**: on a well-formed, sized tree, inserting a good
    key that is not stored returns Ok (and the tree stays sized) — or Err because the page ids are used up -/
theorem insert_total (c : Cfg) (hc : c.Std) (B : Bounds) (fc : FitCfg c B) (t : Tree κ) (g : Ghost κ)
    (wf : WF t.pages.get t.root t.next g) (hsz : Sized c B t.pages.get) (k : κ) (v : Nat) (hk : Good c B k)
    (hfresh : Multimap.hasKey k (contents t.pages.get g.L) = false) :
    ∃ t' o, insert c t k v = (t', o) ∧
      ((o = .ok ∧ Sized c B t'.pages.get) ∨ (o = .err ∧ c.maxPages ≤ t'.next)) := by
  obtain ⟨p, es, b, r, lo, hi, path, hd, hf⟩ := descend_root c hc t g wf k
  obtain ⟨es0, b0, r0, hp0, hsorted, hin⟩ := wf.leaf p lo hi hf.ghost
  rw [hf.page] at hp0; cases hp0
  obtain ⟨idx, hidx, hle, hbefore, hafter⟩ := leafLowerBound_spec c hc es hsorted.weak k
  have hnode := hsz p _ hf.page
  simp only [insert, hd, hidx]
  cases hins : leafInsertAt c es b idx k v with
  | some r' =>
    obtain ⟨es', b'⟩ := r'
    refine ⟨_, .ok, rfl, Or.inl ⟨rfl, ?_⟩⟩
    simp only
    rw [get_set_eq_upd]
    exact Sized_upd hsz _ _ (leafInsertAt_sized c B fc.slack es b idx k v r es' b' hins hnode hk)
  | none =>
    simp only
    obtain ⟨A, Bl, p0, r', hL, hsegA, hr, hn, hsegB, hpos⟩ := chain_split wf p lo hi hf.ghost
    have hr' : r = r' := by simp [rightOf, hf.page] at hr; exact hr
    subst hr'
    have hcont : contents t.pages.get g.L = contents t.pages.get A ++ es ++ contents t.pages.get Bl := by
      rw [hL, contents_append, contents_cons]; simp [entriesOf, hf.page]
    have hnokey := mm_hasKey_false k _ hfresh
    have hnokey_es : ∀ e ∈ es, e.1 ≠ k := by
      intro e he
      apply hnokey e
      rw [hcont]
      exact List.mem_append_left _ (List.mem_append_right _ he)
    obtain ⟨bs, hbs, hspec⟩ := rustBinarySearch_spec (fun e : κ × Nat => kcmp e.1 k) es (kcmp_pat es k hsorted)
    simp only [hbs]
    cases bs with
    | found i =>
      obtain ⟨x, hx, hxe⟩ := hspec
      exact absurd (kcmp_eq hxe) (hnokey_es x (List.mem_of_getElem? hx))
    | missing i =>
      obtain ⟨hile, hlt, hgt⟩ := hspec
      simp only [BS.pos]
      have hb' : ∀ e ∈ es.take i, Lt e.1 k := by
        intro e he
        obtain ⟨j, hj, rfl⟩ := List.mem_take_iff_getElem.mp he
        have hjl : j < es.length := by omega
        exact kcmp_lt (hlt j _ (by omega) (List.getElem?_eq_getElem hjl))
      have ha' : ∀ e ∈ es.drop i, Lt k e.1 := by
        intro e he
        obtain ⟨j, hj⟩ := List.mem_iff_getElem?.mp he
        rw [List.getElem?_drop] at hj
        exact kcmp_gt (hgt (i + j) e (by omega) hj)
      have hsorted' : SSorted (es.insertIdx i (k, v)) := SSorted_insert es i k v hsorted hile hb' ha'
      have hin' : ∀ e ∈ es.insertIdx i (k, v), bLo lo e.1 ∧ bHi e.1 hi := by
        intro e he
        rw [insertIdx_eq_take_drop _ _ _ hile] at he
        rcases List.mem_append.mp he with he | he
        · exact hin e (List.mem_of_mem_take he)
        · rcases List.mem_cons.mp he with rfl | he
          · exact ⟨hf.lo, hf.hi⟩
          · exact hin e (List.mem_of_mem_drop he)
      obtain ⟨n1, n2, n3, n4⟩ := hnode
      have hlen : (es.insertIdx i (k, v)).length = es.length + 1 := by
        rw [List.length_insertIdx]; simp [hile]
      have hallgood : ∀ e ∈ es.insertIdx i (k, v), Good c B e.1 := by
        intro e he
        rw [insertIdx_eq_take_drop _ _ _ hile] at he
        rcases List.mem_append.mp he with he | he
        · exact n4 e (List.mem_of_mem_take he)
        · rcases List.mem_cons.mp he with rfl | he
          · exact hk
          · exact n4 e (List.mem_of_mem_drop he)
      cases hdrop : (es.insertIdx i (k, v)).drop ((es.insertIdx i (k, v)).length / 2) with
      | nil =>
        have := List.drop_eq_nil_iff.mp hdrop
        omega
      | cons sv rest' =>
        obtain ⟨sep, v0⟩ := sv
        simp only
        cases ha : alloc c t with
        | none => exact ⟨t, .err, rfl, Or.inr ⟨rfl, alloc_none c t ha⟩⟩
        | some ra =>
          obtain ⟨rid, t1⟩ := ra
          obtain ⟨hrid, ht1⟩ := alloc_eq c t rid t1 ha
          subst hrid ht1
          simp only
          have hQ := count_le c (lcl c) B.lcm c.leafHdr b es fc.lpos n1 n2 n3 (fun e he => (n4 e he).1)
          have hrlen : ((sep, v0) :: rest').length = (es.insertIdx i (k, v)).length - (es.insertIdx i (k, v)).length / 2 := by
            rw [← hdrop, List.length_drop]
          have hrgood : ∀ e ∈ (sep, v0) :: rest', Good c B e.1 := by
            intro e he
            apply hallgood e
            apply List.mem_of_mem_drop (i := (es.insertIdx i (k, v)).length / 2)
            rw [hdrop]; exact he
          have hlgood : ∀ e ∈ (es.insertIdx i (k, v)).take ((es.insertIdx i (k, v)).length / 2), Good c B e.1 :=
            fun e he => hallgood e (List.mem_of_mem_take he)
          have hrfit := half_fits c (lcl c) B.lcM _ _ ((sep, v0) :: rest') (fun e he => (hrgood e he).2.1)
            (by rw [hrlen]; omega : ((sep, v0) :: rest').length ≤ ((c.ps - c.leafHdr) / (B.lcm + c.slotW) + 2) / 2) fc.leaf
          have hlfit := half_fits c (lcl c) B.lcM _ _ _ (fun e he => (hlgood e he).2.1)
            (by rw [List.length_take]; omega :
              ((es.insertIdx i (k, v)).take ((es.insertIdx i (k, v)).length / 2)).length ≤
                ((c.ps - c.leafHdr) / (B.lcm + c.slotW) + 2) / 2) fc.leaf
          obtain ⟨hr1, hr2⟩ := rebuildLeaf_ok c B fc.slack fc.hl ((sep, v0) :: rest') r hrfit hrgood
          obtain ⟨hl1, hl2⟩ := rebuildLeaf_ok c B fc.slack fc.hl _ t.next hlfit hlgood
          simp only [hr1, hl1]
          have st := leaf_split_step wf p lo hi es b r hf.ghost hf.page (es.insertIdx i (k, v)) hsorted' hin'
            ((es.insertIdx i (k, v)).length / 2) sep v0 rest' hdrop
            (c.ps - wsum (lcl c) ((es.insertIdx i (k, v)).take ((es.insertIdx i (k, v)).length / 2)))
            (c.ps - wsum (lcl c) ((sep, v0) :: rest')) A Bl p0 hL hsegA hn hsegB hpos
          rw [hdrop] at st
          have hpend := pend_of_split wf st path hf.path
          have hsep : Good c B sep := hrgood (sep, v0) (List.mem_cons_self ..)
          apply iip_total c B fc path _ ⟨splitG g.G p t.next 0 lo hi sep, A ++ p :: t.next :: Bl, g.H⟩ p 0 sep t.next
          · simp only; rw [get_set_eq_upd, get_set_eq_upd]; exact hpend
          · simp only; rw [get_set_eq_upd, get_set_eq_upd]
            exact Sized_upd (Sized_upd hsz _ _ hl2) _ _ hr2
          · exact hsep

/-- delete keeps the pages sized (it only removes a slot) -/
theorem delete_sized (c : Cfg) (hc : c.Std) (B : Bounds) (t : Tree κ) (g : Ghost κ)
    (wf : WF t.pages.get t.root t.next g) (hsz : Sized c B t.pages.get) (k : κ) (v : Nat) :
    Sized c B (delete c t k v).1.pages.get := by
  obtain ⟨p, es, b, r, lo, hi, path, hd, hf⟩ := descend_root c hc t g wf k
  simp only [delete, hd]
  cases hbs : rustBinarySearch (fun e => pairCmp e k v) es with
  | none => exact hsz
  | some bs =>
    cases bs with
    | missing i => exact hsz
    | found i =>
      simp only
      by_cases hi' : i < es.length
      · simp only [hi', if_true]
        rw [get_set_eq_upd]
        apply Sized_upd hsz
        obtain ⟨n1, n2, n3, n4⟩ := hsz p _ hf.page
        refine ⟨?_, n2, Nat.le_trans (wsum_eraseIdx _ es i) n3, fun e he => n4 e (List.mem_of_mem_eraseIdx he)⟩
        rw [List.length_eraseIdx]; simp only [hi', if_true]
        have : (es.length - 1) * c.slotW ≤ es.length * c.slotW := Nat.mul_le_mul_right _ (by omega)
        omega
      · simp only [hi', if_false]; exact hsz

/-! ### next_page_id never decreases -/

theorem iip_next_mono (c : Cfg) : ∀ (path : List (Nat × Nat)) (t : Tree κ) (x : Nat) (s : κ) (y : Nat),
    t.next ≤ (insertIntoParent c t path x s y).1.next := by
  intro path
  induction path with
  | nil =>
    intro t x s y
    simp only [insertIntoParent]
    cases ha : alloc c t with
    | none => simp
    | some r =>
      obtain ⟨nr, t1⟩ := r
      obtain ⟨hnr, ht1⟩ := alloc_eq c t nr t1 ha
      subst hnr ht1
      simp only
      split <;> simp
  | cons pp rest ih =>
    obtain ⟨pid, pos⟩ := pp
    intro t x s y
    simp only [insertIntoParent]
    split
    · split
      · simp
      · split
        · simp
        · split
          · simp
          · cases ha : alloc c t with
            | none => simp
            | some r =>
              obtain ⟨rp, t1⟩ := r
              obtain ⟨hrp, ht1⟩ := alloc_eq c t rp t1 ha
              subst hrp ht1
              simp only
              split
              · simp
              · split
                · simp
                · refine Nat.le_trans (Nat.le_succ t.next) ?_
                  exact ih (Tree.mk _ t.root (t.next + 1)) _ _ _
    · simp

theorem insert_next_mono (c : Cfg) (t : Tree κ) (k : κ) (v : Nat) : t.next ≤ (insert c t k v).1.next := by
  simp only [insert]
  split
  · simp
  · simp
  · split
    · simp
    · split
      · simp
      · split
        · simp
        · split
          · simp
          · cases ha : alloc c t with
            | none => simp
            | some r =>
              obtain ⟨rid, t1⟩ := r
              obtain ⟨hrid, ht1⟩ := alloc_eq c t rid t1 ha
              subst hrid ht1
              simp only
              split
              · simp
              · split
                · simp
                · refine Nat.le_trans (Nat.le_succ t.next) ?_
                  exact iip_next_mono (κ := κ) c _ (Tree.mk _ t.root (t.next + 1)) _ _ _

theorem delete_next (c : Cfg) (t : Tree κ) (k : κ) (v : Nat) : (delete c t k v).1.next = t.next := by
  simp only [delete]
  split
  · rfl
  · rfl
  · split
    · rfl
    · rfl
    · split <;> rfl

theorem runFrom_next_mono (c : Cfg) : ∀ (ops : List (Multimap.Op κ)) (t : Tree κ), t.next ≤ (runFrom c t ops).1.next
  | [], t => Nat.le_refl _
  | op :: ops, t => by
    simp only [runFrom]
    have h1 : t.next ≤ (step c t op).1.next := by
      cases op with
      | insert k v => exact insert_next_mono c t k v
      | delete k v => simp only [step]; rw [delete_next]; exact Nat.le_refl _
    exact Nat.le_trans h1 (runFrom_next_mono c ops _)

/-- every key the history inserts is good -/
def goodOps (c : Cfg) (B : Bounds) (ops : List (Multimap.Op κ)) : Prop :=
  ∀ k p, Multimap.Op.insert k p ∈ ops → Good c B k

/-- **histories under the fit condition**: from a well-formed, sized tree, a history that never stores two
    pairs with one key and inserts only good keys has no failing op unless the page ids run out -/
theorem runFrom_fit (c : Cfg) (hc : c.Std) (B : Bounds) (fc : FitCfg c B) : ∀ (ops : List (Multimap.Op κ)) (t : Tree κ) (g : Ghost κ),
    WF t.pages.get t.root t.next g → Sized c B t.pages.get →
    Multimap.distinctKeys (contents t.pages.get g.L) ops = true → goodOps c B ops →
    (runFrom c t ops).1.next < c.maxPages → allOk (runFrom c t ops).2 = true := by
  intro ops
  induction ops with
  | nil => intro t g _ _ _ _ _; rfl
  | cons op ops ih =>
    intro t g wf hsz hdist hgood hroom
    have hgood' : goodOps c B ops := fun k p h => hgood k p (List.mem_cons_of_mem _ h)
    cases op with
    | insert k v =>
      simp only [Multimap.distinctKeys, Bool.and_eq_true, Bool.not_eq_true'] at hdist
      obtain ⟨hfresh, hdist'⟩ := hdist
      obtain ⟨t1, o, hins, hcase⟩ := insert_total c hc B fc t g wf hsz k v (hgood k v (List.mem_cons_self ..)) hfresh
      simp only [runFrom, step, hins] at hroom ⊢
      rcases hcase with ⟨rfl, hsz1⟩ | ⟨rfl, hfull⟩
      · obtain ⟨g1, wf1, hc1⟩ := insert_spec c hc t g wf k v hfresh t1 hins
        rw [← hc1] at hdist'
        simp only [allOk]
        exact ih t1 g1 wf1 hsz1 hdist' hgood' hroom
      · have := runFrom_next_mono c ops t1
        omega
    | delete k v =>
      simp only [Multimap.distinctKeys] at hdist
      obtain ⟨t1, b, hdel, wf1, hspec⟩ := delete_spec c hc t g wf k v
      have hsz1 : Sized c B t1.pages.get := by
        have := delete_sized c hc B t g wf hsz k v
        rw [hdel] at this; exact this
      have hc1 : contents t1.pages.get g.L = (Multimap.delete k v (contents t.pages.get g.L)).2 := by rw [← hspec]
      rw [← hc1] at hdist
      simp only [runFrom, step, hdel] at hroom ⊢
      simp only [allOk]
      exact ih t1 g wf1 hsz1 hdist hgood' hroom

theorem create_sized (c : Cfg) (B : Bounds) (fc : FitCfg c B) : Sized c B (create c : Tree κ).pages.get := by
  intro p n hp
  simp only [create, PageMap.get] at hp
  split at hp
  · cases hp
    exact ⟨by simp; exact fc.hl, Nat.le_refl _, by simp [wsum], fun e he => by cases he⟩
  · cases hp

/-- with cells of ONE size the fit condition is just "a cell and its slot fit a page" -/
theorem fitCfg_uniform (c : Cfg) (lm im : Nat) (hs : c.slack = c.slotW) (hl : c.leafHdr ≤ c.ps) (hi : c.intHdr ≤ c.ps)
    (hlp : 0 < lm + c.slotW) (hip : 0 < im + c.slotW)
    (h1 : lm + c.slotW ≤ c.ps - c.leafHdr) (h2 : im + c.slotW ≤ c.ps - c.intHdr) : FitCfg c ⟨lm, lm, im, im⟩ := by
  have key : ∀ H w : Nat, 0 < w → w ≤ H → (H / w + 2) / 2 * w ≤ H := by
    intro H w hw hle
    have hq : 1 ≤ H / w := (Nat.le_div_iff_mul_le hw).mpr (by omega)
    have h3 : (H / w + 2) / 2 ≤ H / w := by
      generalize H / w = q at hq ⊢
      omega
    exact Nat.le_trans (Nat.mul_le_mul_right _ h3) (Nat.div_mul_le_self H w)
  exact ⟨hs, hlp, hip, hl, hi, key _ _ hlp h1, key _ _ hip h2⟩

end Nervus.BTree
