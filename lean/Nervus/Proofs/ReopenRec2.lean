/-
  Proofs/ReopenRec2.lean — the recovery invariant, part 2: definition, fresh database, label
  interning, every staged write.
-/
import Nervus.Proofs.ReopenRec
namespace Nervus.Storage
open Nervus.GraphSpec (TxOp Op)

/-- what `open` would recover from the log of `s`: the interner, a clean scan, and — from ANY idmap
    that covers the external ids of `s` and holds the persisted first labels — the label vectors of `s`
    and runs that no read can tell from the published ones -/
structure Rec (s : Engine) : Prop where
  inv : ∃ txs, Blocks s.wal txs ∧ replayLabels txs = .ok s.interner ∧ ScanClean txs ∧
    ∀ (m0 : IdMap) (T : List (List Nat)),
      (∀ x iid, s.idmap.lookup x = some iid → m0.lookup x = some iid) →
      m0.i2l = s.idmap.i2e.map (fun r => [r.label]) ++ T →
      ∃ R, replayGraph txs 0 m0 = .ok ({ m0 with i2l := s.idmap.i2l ++ T }, R) ∧ RunsEq R.reverse s.runs
  txidPos : 1 ≤ s.nextTxid

theorem RunsEq.refl : ∀ rs : List Run, RunsEq rs rs
  | [] => RunsEq.nil
  | r :: rs => RunsEq.cons ⟨rfl, List.Perm.refl _, fun _ => Iff.rfl, fun _ => Iff.rfl, fun _ => rfl, fun _ => rfl,
      fun _ => Iff.rfl, fun _ => Iff.rfl⟩ (RunsEq.refl rs)

theorem Rec.empty : Rec {} := by
  refine ⟨⟨[], Blocks.nil, rfl, ⟨rfl, rfl, rfl, rfl⟩, ?_⟩, Nat.le_refl _⟩
  intro m0 T _ h2
  refine ⟨[], ?_, RunsEq.nil⟩
  have : ({ m0 with i2l := ({} : Engine).idmap.i2l ++ T } : IdMap) = m0 := by
    cases m0; simp only at h2 ⊢; rw [h2]; rfl
  rw [this]; rfl

/-- `Rec` only looks at the log, the interner, the idmap, the runs and the txid counter -/
theorem Rec.congr {s s' : Engine} (h : Rec s) (h1 : s'.wal = s.wal) (h2 : s'.interner = s.interner)
    (h3 : s'.idmap = s.idmap) (h4 : s'.runs = s.runs) (h5 : s.nextTxid ≤ s'.nextTxid) : Rec s' := by
  obtain ⟨⟨txs, hb, hl, hs, hg⟩, hp⟩ := h
  refine ⟨⟨txs, by rw [h1]; exact hb, by rw [h2]; exact hl, hs, ?_⟩, Nat.le_trans hp h5⟩
  rw [h3, h4]; exact hg

theorem freeze_empty (t : Nat) : (({} : MemTable).freeze t).isEmpty = true := rfl

theorem Rec.intern {s : Engine} (h : Rec s) (nm : Nat) : Rec (s.getOrCreateLabel nm).1 := by
  unfold Engine.getOrCreateLabel
  cases hq : s.interner.getId nm with
  | some id => exact h
  | none =>
    simp only
    obtain ⟨⟨txs, hb, hl, hs, hg⟩, hp⟩ := h
    refine ⟨⟨txs ++ [(s.nextTxid, [WalRec.createLabel nm s.interner.length])], ?_, ?_, ?_, ?_⟩, Nat.le_succ_of_le hp⟩
    · exact hb.append s.nextTxid [WalRec.createLabel nm s.interner.length]
        (by intro r hr; simp only [List.mem_singleton] at hr; subst hr; rfl)
    · exact replayLabels_append_new txs s.interner hl s.nextTxid nm hq
    · exact hs.append _ (by intro r hr; simp only [List.mem_singleton] at hr; subst hr; rfl)
    · intro m0 T hc hi
      obtain ⟨R, hR, hE⟩ := hg m0 T hc hi
      refine ⟨R, ?_, hE⟩
      rw [replayGraph_eq, List.foldlM_append, ← replayGraph_eq, hR]
      show ([(s.nextTxid, [WalRec.createLabel nm s.interner.length])].foldlM (replayStep 0) _) = _
      rw [List.foldlM_cons]
      have hpos : ¬ s.nextTxid ≤ 0 := by omega
      simp only [replayStep, hpos, if_false, List.foldlM_cons, List.foldlM_nil, replayOp]
      rfl

theorem Rec.stepTx (c : Cfg) (s : Engine) (t : Txn) (op : TxOp) (h : Rec s) : Rec (stepTx c (s, t) op).1 := by
  cases op with
  | node x lab =>
    have hi : Rec (internLabel s lab).1 := by
      cases lab with
      | none => exact h
      | some l => exact h.intern l
    simp only [Storage.stepTx]
    split <;> exact hi
  | labelAdd n nm => exact h.intern nm
  | labelDel n nm => exact h.intern nm
  | edge a nm b => exact h.intern nm
  | tombNode n => exact h
  | tombEdge a nm b => exact h.intern nm
  | nprop n k v => exact h
  | npropDel n k => exact h
  | eprop a nm b k v => exact h.intern nm
  | epropDel a nm b k => exact h.intern nm
  | vec n v =>
    show Rec (t.setVector c s n v).1
    unfold Txn.setVector
    split
    · exact h
    · exact h.congr rfl rfl rfl rfl (Nat.le_refl _)

theorem Rec.fold (c : Cfg) (ops : List TxOp) : ∀ st : Engine × Txn, Rec st.1 → Rec (ops.foldl (Storage.stepTx c) st).1 := by
  induction ops with
  | nil => intro st h; exact h
  | cons op ops ih => intro st h; exact ih _ (Rec.stepTx c st.1 st.2 op h)

end Nervus.Storage
