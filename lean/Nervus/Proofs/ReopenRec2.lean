/-
  Proofs/ReopenRec2.lean — the recovery invariant, part 2: definition, fresh database, label
  interning, every staged write.
-/
import Nervus.Proofs.ReopenRec
namespace Nervus.Storage
open Nervus.GraphSpec (TxOp Op)

/-- what `open` would recover from the log of `s`: the interner, the manifest / checkpoint state, and —
    from ANY idmap that covers the external ids of `s` and holds the persisted first labels — the label
    vectors of `s` and, from the transactions newer than the checkpoint, runs that no read can tell
    from the published ones.  The txid bounds keep the checkpoint skip and the txid counter sound. -/
structure Rec (s : Engine) : Prop where
  inv : ∃ txs, Blocks s.wal txs ∧ replayLabels txs = .ok s.interner ∧
    ScanIs s.epoch (s.segs.map (·.id)) s.ckptTxid s.propsRoot txs ∧
    (∀ (m0 : IdMap) (T : List (List Nat)),
      (∀ x iid, s.idmap.lookup x = some iid → m0.lookup x = some iid) →
      m0.i2l = s.idmap.i2e.map (fun r => [r.label]) ++ T →
      ∃ R, replayGraph txs s.ckptTxid m0 = .ok ({ m0 with i2l := s.idmap.i2l ++ T }, R) ∧
        RunsEq R.reverse s.runs) ∧
    s.ckptTxid ≤ (scanRecovery txs).maxTxid ∧ (∀ r ∈ s.runs, r.txid ≤ (scanRecovery txs).maxTxid) ∧
    (scanRecovery txs).maxTxid < s.nextTxid
  txidPos : 1 ≤ s.nextTxid
  runsAbove : ∀ r ∈ s.runs, s.ckptTxid < r.txid

theorem Rec.ckptLt {s : Engine} (h : Rec s) : s.ckptTxid < s.nextTxid := by
  obtain ⟨⟨txs, _, _, _, _, h1, _, h3⟩, _, _⟩ := h
  omega

theorem RunsEq.refl : ∀ rs : List Run, RunsEq rs rs
  | [] => RunsEq.nil
  | r :: rs => RunsEq.cons ⟨rfl, List.Perm.refl _, fun _ => Iff.rfl, fun _ => Iff.rfl, fun _ => rfl, fun _ => rfl,
      fun _ => Iff.rfl, fun _ => Iff.rfl⟩ (RunsEq.refl rs)

theorem Rec.empty : Rec {} := by
  refine ⟨⟨[], Blocks.nil, rfl, ⟨rfl, rfl, rfl, rfl⟩, ?_, Nat.le_refl _, ?_, Nat.lt_succ_self _⟩, Nat.le_refl _, ?_⟩
  · intro m0 T _ h2
    refine ⟨[], ?_, RunsEq.nil⟩
    have : ({ m0 with i2l := ({} : Engine).idmap.i2l ++ T } : IdMap) = m0 := by
      cases m0; simp only at h2 ⊢; rw [h2]; rfl
    rw [this]; rfl
  · intro r hr; cases hr
  · intro r hr; cases hr

/-- `Rec` only looks at the log, the interner, the idmap, the runs, the manifest fields and the txid counter -/
theorem Rec.congr {s s' : Engine} (h : Rec s) (h1 : s'.wal = s.wal) (h2 : s'.interner = s.interner)
    (h3 : s'.idmap = s.idmap) (h4 : s'.runs = s.runs) (h5 : s.nextTxid ≤ s'.nextTxid)
    (h6 : s'.epoch = s.epoch) (h7 : s'.segs = s.segs) (h8 : s'.ckptTxid = s.ckptTxid)
    (h9 : s'.propsRoot = s.propsRoot) : Rec s' := by
  obtain ⟨⟨txs, hb, hl, hs, hg, b1, b2, b3⟩, hp, ha⟩ := h
  refine ⟨⟨txs, by rw [h1]; exact hb, by rw [h2]; exact hl, by rw [h6, h7, h8, h9]; exact hs, ?_,
    by rw [h8]; exact b1, by rw [h4]; exact b2, Nat.lt_of_lt_of_le b3 h5⟩, Nat.le_trans hp h5,
    by rw [h4, h8]; exact ha⟩
  rw [h3, h4, h8]; exact hg

theorem freeze_empty (t : Nat) : (({} : MemTable).freeze t).isEmpty = true := rfl

theorem Rec.intern {s : Engine} (h : Rec s) (nm : Nat) : Rec (s.getOrCreateLabel nm).1 := by
  unfold Engine.getOrCreateLabel
  cases hq : s.interner.getId nm with
  | some id => exact h
  | none =>
    simp only
    have hck := h.ckptLt
    obtain ⟨⟨txs, hb, hl, hs, hg, b1, b2, b3⟩, hp, ha⟩ := h
    have hmax := scan_maxTxid_append txs (s.nextTxid, [WalRec.createLabel nm s.interner.length])
    refine ⟨⟨txs ++ [(s.nextTxid, [WalRec.createLabel nm s.interner.length])], ?_, ?_, ?_, ?_, ?_, ?_, ?_⟩,
      Nat.le_succ_of_le hp, ha⟩
    · exact hb.append s.nextTxid [WalRec.createLabel nm s.interner.length]
        (by intro r hr; simp only [List.mem_singleton] at hr; subst hr; rfl)
    · exact replayLabels_append_new txs s.interner hl s.nextTxid nm hq
    · exact hs.append _ (by intro r hr; simp only [List.mem_singleton] at hr; subst hr; rfl)
    · intro m0 T hc hi
      obtain ⟨R, hR, hE⟩ := hg m0 T hc hi
      refine ⟨R, ?_, hE⟩
      rw [replayGraph_eq, List.foldlM_append, ← replayGraph_eq, hR]
      show ([(s.nextTxid, [WalRec.createLabel nm s.interner.length])].foldlM (replayStep s.ckptTxid) _) = _
      rw [List.foldlM_cons]
      have hpos : ¬ s.nextTxid ≤ s.ckptTxid := by omega
      simp only [replayStep, hpos, if_false, List.foldlM_cons, List.foldlM_nil, replayOp]
      rfl
    · rw [hmax]; exact Nat.le_trans b1 (Nat.le_max_left _ _)
    · intro r hr; rw [hmax]; exact Nat.le_trans (b2 r hr) (Nat.le_max_left _ _)
    · rw [hmax]; show max _ s.nextTxid < s.nextTxid + 1; omega

theorem Rec.stepTx (c : Cfg) (s : Engine) (t : Txn) (op : TxOp) (h : Rec s) : Rec (stepTx c (s, t) op).1 := by
  cases op with
  | node x lab =>
    have hi : Rec (internLabel s lab).1 := by
      cases lab with
      | none => exact h
      | some l => exact h.intern l
    simp only [Storage.stepTx]
    split <;> exact hi
  | labelAdd n nm => exact h.intern nm
  | labelDel n nm => exact h.intern nm
  | edge a nm b => exact h.intern nm
  | tombNode n => exact h
  | tombEdge a nm b => exact h.intern nm
  | nprop n k v => exact h
  | npropDel n k => exact h
  | eprop a nm b k v => exact h.intern nm
  | epropDel a nm b k => exact h.intern nm
  | vec n v =>
    show Rec (t.setVector c s n v).1
    unfold Txn.setVector
    split
    · exact h
    · exact h.congr rfl rfl rfl rfl (Nat.le_refl _) rfl rfl rfl rfl

theorem Rec.fold (c : Cfg) (ops : List TxOp) : ∀ st : Engine × Txn, Rec st.1 → Rec (ops.foldl (Storage.stepTx c) st).1 := by
  induction ops with
  | nil => intro st h; exact h
  | cons op ops ih => intro st h; exact ih _ (Rec.stepTx c st.1 st.2 op h)

end Nervus.Storage
