/-
  Proofs.CrashTree — point lookups in an intact property-tree leaf: the literal binary search of
  `Page::leaf_lower_bound` on a sorted slot array finds exactly the entries of the leaf.
-/
import Nervus.Model.IOSteps
namespace Nervus.Crash

/-- keys in slot order are non-decreasing -/
def SortedNat (xs : List Nat) : Prop := ∀ i j, i < j → j < xs.length → xs.getD i 0 ≤ xs.getD j 0

theorem getD_map_some (xs : List Nat) (i : Nat) (h : i < xs.length) :
    (xs.map some).getD i none = some (xs.getD i 0) := by
  simp [List.getD, List.getElem?_map, List.getElem?_eq_getElem h]

theorem lowerBoundAux_spec (xs : List Nat) (q : Nat) (hs : SortedNat xs) :
    ∀ (fuel lo hi : Nat), lo ≤ hi → hi ≤ xs.length → hi - lo < fuel →
      (∀ i, i < lo → xs.getD i 0 < q) → (∀ i, hi ≤ i → i < xs.length → q ≤ xs.getD i 0) →
      let r := lowerBoundAux (xs.map some) q fuel lo hi
      lo ≤ r ∧ r ≤ hi ∧ (∀ i, i < r → xs.getD i 0 < q) ∧ (∀ i, r ≤ i → i < xs.length → q ≤ xs.getD i 0) := by
  intro fuel
  induction fuel with
  | zero => intro lo hi _ _ hf; omega
  | succ fuel ih =>
    intro lo hi hlh hhl hf hlo hhi
    simp only [lowerBoundAux]
    by_cases hlt : lo < hi
    · simp only [hlt, if_true]
      have hmid : (lo + hi) / 2 < xs.length := by omega
      rw [getD_map_some xs _ hmid]
      by_cases hk : xs.getD ((lo + hi) / 2) 0 < q
      · simp only [optLt, hk, decide_true, if_true]
        have := ih ((lo + hi) / 2 + 1) hi (by omega) hhl (by omega)
          (by
            intro i hi'
            by_cases hie : i = (lo + hi) / 2
            · rw [hie]; exact hk
            · have := hs i ((lo + hi) / 2) (by omega) hmid
              omega)
          hhi
        exact ⟨by omega, this.2.1, this.2.2⟩
      · simp only [optLt, hk, decide_false, if_false, Bool.false_eq_true]
        have := ih lo ((lo + hi) / 2) (by omega) (by omega) (by omega) hlo
          (by
            intro i h1 h2
            by_cases hie : i = (lo + hi) / 2
            · rw [hie]; omega
            · have := hs ((lo + hi) / 2) i (by omega) h2
              omega)
        exact ⟨this.1, by omega, this.2.2⟩
    · simp only [hlt, if_false]
      have : lo = hi := by omega
      subst this
      exact ⟨Nat.le_refl _, Nat.le_refl _, hlo, hhi⟩

theorem mem_iff_getD (xs : List Nat) (q : Nat) : q ∈ xs ↔ ∃ i, i < xs.length ∧ xs.getD i 0 = q := by
  constructor
  · intro h
    obtain ⟨i, hi, he⟩ := List.mem_iff_getElem.mp h
    exact ⟨i, hi, by simp [List.getD, List.getElem?_eq_getElem hi, he]⟩
  · rintro ⟨i, hi, he⟩
    rw [← he]
    simp [List.getD, List.getElem?_eq_getElem hi]

/-- **point lookup in an intact single leaf = membership** -/
theorem leafFind_single (xs : List Nat) (hs : SortedNat xs) (pid : Nat) (q : Nat) :
    leafFind [⟨xs.map some, false, pid⟩] 0 q = true ↔ q ∈ xs := by
  have hspec := lowerBoundAux_spec xs q hs (xs.length + 1) 0 xs.length (Nat.zero_le _) (Nat.le_refl _) (by omega)
    (by intro i hi; omega) (by intro i h1 h2; omega)
  simp only [leafFind, List.getElem?_cons_zero, lowerBound, List.length_map]
  generalize lowerBoundAux (xs.map some) q (xs.length + 1) 0 xs.length = r at hspec
  obtain ⟨_, hr, hlow, hhigh⟩ := hspec
  by_cases hrl : r < xs.length
  · simp only [hrl, if_true]
    rw [getD_map_some xs r hrl]
    constructor
    · intro h
      have : xs.getD r 0 = q := by simpa using h
      exact (mem_iff_getD xs q).mpr ⟨r, hrl, this⟩
    · intro h
      obtain ⟨i, hi, he⟩ := (mem_iff_getD xs q).mp h
      have hir : r ≤ i := by
        by_cases h' : i < r
        · have := hlow i h'; omega
        · omega
      have h1 := hhigh r (Nat.le_refl _) hrl
      have h2 : xs.getD r 0 ≤ xs.getD i 0 := by
        by_cases hri : r = i
        · rw [hri]; exact Nat.le_refl _
        · exact hs r i (by omega) hi
      have : xs.getD r 0 = q := by omega
      rw [this]
      simp
  · simp only [hrl, if_false, Bool.false_eq_true, false_iff]
    intro h
    obtain ⟨i, hi, he⟩ := (mem_iff_getD xs q).mp h
    have := hlow i (by omega)
    omega

end Nervus.Crash
