/-
  Proofs/ReopenSim.lean — `open` on the files of an engine that satisfies the refinement invariant
  and the recovery invariant yields an engine that satisfies both again, for the same Spec graph (C04).
-/
import Nervus.Proofs.ReopenLoad
import Nervus.Proofs.EngineReadsAgree
namespace Nervus.Storage
open Nervus.GraphSpec (Graph TxOp Op)

theorem find_of_mem_nodup {α} (f : α → Nat) (l : List α) (hn : (l.map f).Nodup) (a : α) (h : a ∈ l) :
    l.find? (fun b => f b == f a) = some a := by
  induction l with
  | nil => cases h
  | cons b bs ih =>
    rw [List.map_cons, List.nodup_cons] at hn
    rw [List.find?_cons]
    rw [List.mem_cons] at h
    rcases h with rfl | h
    · simp
    · have hne : f b ≠ f a := fun he => hn.1 (by rw [he]; exact List.mem_map.mpr ⟨a, h, rfl⟩)
      have : (f b == f a) = false := by simpa using hne
      rw [this]; exact ih hn.2 h

/-- node table and Spec `ext` relation describe the same pairs -/
theorem ext_mem_iff {s : Engine} {g : Graph} (hL : SimL s g) (n x : Nat) :
    (n, x) ∈ g.ext ↔ ∃ r, s.idmap.i2e[n]? = some r ∧ r.ext = x := by
  have hpt := hL.extPt n
  unfold Graph.extOf at hpt
  constructor
  · intro hm
    have := find_of_mem_nodup (·.1) g.ext hL.extIdND (n, x) hm
    simp only at this
    rw [this] at hpt
    simp only [Option.map_some] at hpt
    cases hi : s.idmap.i2e[n]? with
    | none => rw [hi] at hpt; cases hpt
    | some r => rw [hi] at hpt; simp only [Option.map_some, Option.some.injEq] at hpt; exact ⟨r, rfl, hpt.symm⟩
  · rintro ⟨r, hr, rfl⟩
    rw [hr] at hpt
    simp only [Option.map_some] at hpt
    cases hf : g.ext.find? (fun p => p.1 == n) with
    | none => rw [hf] at hpt; cases hpt
    | some p =>
      rw [hf] at hpt
      simp only [Option.map_some, Option.some.injEq] at hpt
      have hm := List.mem_of_find?_eq_some hf
      have hp := List.find?_some hf
      simp only [beq_iff_eq] at hp
      have : p = (n, r.ext) := by cases p; simp only at hp hpt; rw [hp, hpt]
      rw [← this]; exact hm

theorem snd_inj_of_nodup (l : List (Nat × Nat)) (hn : (l.map (·.2)).Nodup) (a b : Nat × Nat)
    (ha : a ∈ l) (hb : b ∈ l) (h : a.2 = b.2) : a = b := by
  induction l with
  | nil => cases ha
  | cons c cs ih =>
    rw [List.map_cons, List.nodup_cons] at hn
    rw [List.mem_cons] at ha hb
    rcases ha with rfl | ha <;> rcases hb with rfl | hb
    · rfl
    · exact absurd (List.mem_map.mpr ⟨b, hb, h.symm⟩) hn.1
    · exact absurd (List.mem_map.mpr ⟨a, ha, h⟩) hn.1
    · exact ih hn.2 ha hb

/-- `IdMap::load` rebuilds the external-id index of the running engine -/
theorem load_lookup_eq {s : Engine} {g : Graph} (hL : SimL s g) (x : Nat) :
    (IdMap.load s.idmap.i2e).lookup x = s.idmap.lookup x := by
  rw [hL.e2i x, lookup_swap]
  rw [load_lookup s.idmap.i2e x
    (by intro j r hj; exact hL.extNZ (j, r.ext) ((ext_mem_iff hL j r.ext).mpr ⟨r, hj, rfl⟩))
    (by
      intro j j' r r' hj hj' he
      have h1 := (ext_mem_iff hL j r.ext).mpr ⟨r, hj, rfl⟩
      have h2 := (ext_mem_iff hL j' r'.ext).mpr ⟨r', hj', rfl⟩
      have := snd_inj_of_nodup g.ext hL.extND _ _ h1 h2 he
      injection this)]
  cases hf : g.ext.find? (fun p => p.2 == x) with
  | none =>
    have : s.idmap.i2e.zipIdx.find? (fun p => p.1.ext == x) = none := by
      apply List.find?_eq_none.mpr
      intro p hp hpx
      simp only [beq_iff_eq] at hpx
      have hget := List.mem_zipIdx_iff_getElem?.mp hp
      have hm := (ext_mem_iff hL p.2 x).mpr ⟨p.1, hget, hpx⟩
      have := List.find?_eq_none.mp hf _ hm
      simp at this
    rw [this]; rfl
  | some q =>
    have hm := List.mem_of_find?_eq_some hf
    have hq := List.find?_some hf
    simp only [beq_iff_eq] at hq
    obtain ⟨r, hr, hrx⟩ := (ext_mem_iff hL q.1 q.2).mp hm
    cases hz : s.idmap.i2e.zipIdx.find? (fun p => p.1.ext == x) with
    | none =>
      have := List.find?_eq_none.mp hz (r, q.1) (List.mem_zipIdx_iff_getElem?.mpr hr)
      simp [hrx, hq] at this
    | some p =>
      have hpm := List.mem_of_find?_eq_some hz
      have hpx := List.find?_some hz
      simp only [beq_iff_eq] at hpx
      have hget := List.mem_zipIdx_iff_getElem?.mp hpm
      have hm2 := (ext_mem_iff hL p.2 x).mpr ⟨p.1, hget, hpx⟩
      have := snd_inj_of_nodup g.ext hL.extND _ _ hm2 hm (by simp only; rw [hq])
      simp only [Option.map_some]
      rw [← this]

/-! ### read-equivalent run lists: symmetry, transitivity, structural invariants -/

theorem RunEq.symm {r r' : Run} (h : RunEq r r') : RunEq r' r :=
  ⟨h.txid.symm, h.edges.symm, fun n => (h.tombNodes n).symm, fun e => (h.tombEdges e).symm,
   fun k => (h.nprops k).symm, fun k => (h.eprops k).symm, fun k => (h.nDel k).symm, fun k => (h.eDel k).symm⟩

theorem RunEq.trans {a b c : Run} (h1 : RunEq a b) (h2 : RunEq b c) : RunEq a c :=
  ⟨h1.txid.trans h2.txid, h1.edges.trans h2.edges, fun n => (h1.tombNodes n).trans (h2.tombNodes n),
   fun e => (h1.tombEdges e).trans (h2.tombEdges e), fun k => (h1.nprops k).trans (h2.nprops k),
   fun k => (h1.eprops k).trans (h2.eprops k), fun k => (h1.nDel k).trans (h2.nDel k),
   fun k => (h1.eDel k).trans (h2.eDel k)⟩

theorem RunsEq.symm {a b : List Run} (h : RunsEq a b) : RunsEq b a := by
  induction h with
  | nil => exact RunsEq.nil
  | cons hr _ ih => exact RunsEq.cons hr.symm ih

theorem RunsEq.trans {a b c : List Run} (h1 : RunsEq a b) (h2 : RunsEq b c) : RunsEq a c := by
  induction h1 generalizing c with
  | nil => cases h2; exact RunsEq.nil
  | cons hr _ ih =>
    cases h2 with
    | cons hr2 h2' => exact RunsEq.cons (hr.trans hr2) (ih h2')

theorem RunsEq.runsOK {a b : List Run} (h : RunsEq a b) (hok : RunsOK b) : RunsOK a := by
  induction h with
  | nil => trivial
  | @cons r r' rs rs' hr hrs ih =>
    obtain ⟨h1, h2⟩ := hok
    refine ⟨?_, ih h2⟩
    intro e he
    have he' : e ∈ r'.edges := hr.edges.mem_iff.mp he
    have := h1 e he'
    rw [RunEq.isTombNode (RunsEq.cons hr hrs) e.src, RunEq.isTombNode (RunsEq.cons hr hrs) e.dst]
    exact this

theorem lookup_some_of_mem_key {κ ν} [BEq κ] [LawfulBEq κ] (l : List (κ × ν)) (q : κ × ν) (h : q ∈ l) :
    ∃ v, l.lookup q.1 = some v := by
  induction l with
  | nil => cases h
  | cons c cs ih =>
    rw [List.lookup_cons]
    by_cases hk : q.1 = c.1
    · rw [hk]; simp
    · have : (q.1 == c.1) = false := by simpa using hk
      rw [this]
      rw [List.mem_cons] at h
      rcases h with rfl | h
      · exact absurd rfl hk
      · exact ih h

theorem RunsEq.bounds {a b : List Run} (h : RunsEq a b) (n : Nat)
    (h1 : ∀ run ∈ b, ∀ e ∈ run.edges, e.rel < n) (h2 : ∀ run ∈ b, ∀ p ∈ run.eprops, p.1.1.rel < n) :
    (∀ run ∈ a, ∀ e ∈ run.edges, e.rel < n) ∧ (∀ run ∈ a, ∀ p ∈ run.eprops, p.1.1.rel < n) := by
  induction h with
  | nil => exact ⟨fun _ h => absurd h List.not_mem_nil, fun _ h => absurd h List.not_mem_nil⟩
  | @cons r r' rs rs' hr _ ih =>
    obtain ⟨i1, i2⟩ := ih (fun run hr' => h1 run (List.mem_cons_of_mem _ hr')) (fun run hr' => h2 run (List.mem_cons_of_mem _ hr'))
    constructor
    · intro run hrun e he
      rw [List.mem_cons] at hrun
      rcases hrun with rfl | hrun
      · exact h1 r' List.mem_cons_self e (hr.edges.mem_iff.mp he)
      · exact i1 run hrun e he
    · intro run hrun p hp
      rw [List.mem_cons] at hrun
      rcases hrun with rfl | hrun
      · obtain ⟨v, hv⟩ := lookup_some_of_mem_key run.eprops p hp
        have h' : r'.eprops.lookup p.1 = some v := by rw [← hr.eprops p.1]; exact hv
        exact h2 r' List.mem_cons_self (p.1, v) (mem_of_lookup_eq_some _ _ _ h')
      · exact i2 run hrun p hp

end Nervus.Storage
