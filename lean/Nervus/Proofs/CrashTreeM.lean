/-
  Proofs.CrashTreeM — property trees with several leaves (after leaf splits): a chain of leaf
  pages whose concatenated keys are sorted, an internal root whose separators are the first keys
  of the leaves after the first.  Point lookups (`route` + `leafFind`, literally the model of
  `internal_child_for_key` / `cursor_lower_bound`) find exactly the keys of the chain.
-/
import Nervus.Proofs.CrashTree
namespace Nervus.Crash

/-- the leaf pages of a chain: sibling pointer set on all but the last -/
def mkLeaves : List (List Nat) → List Nat → List LeafImg
  | [], _ => []
  | xs :: X, pids => ⟨xs.map some, !X.isEmpty, pids.headD 0⟩ :: mkLeaves X pids.tail

def heads (X : List (List Nat)) : List Nat := X.map (fun xs => xs.headD 0)

theorem mkLeaves_length : ∀ (X : List (List Nat)) (pids : List Nat), (mkLeaves X pids).length = X.length
  | [], _ => rfl
  | _ :: X, pids => by simp [mkLeaves, mkLeaves_length X]

theorem mkLeaves_get : ∀ (X : List (List Nat)) (pids : List Nat) (i : Nat) (xs : List Nat), X[i]? = some xs →
    ∃ sib pid, (mkLeaves X pids)[i]? = some ⟨xs.map some, sib, pid⟩ ∧ (sib = true ↔ i + 1 < X.length)
  | [], _, _, _, h => by simp at h
  | ys :: X, pids, 0, xs, h => by
    simp only [List.getElem?_cons_zero, Option.some.injEq] at h
    subst h
    refine ⟨!X.isEmpty, pids.headD 0, by simp [mkLeaves], ?_⟩
    cases X <;> simp
  | ys :: X, pids, i + 1, xs, h => by
    obtain ⟨sib, pid, h1, h2⟩ := mkLeaves_get X pids.tail i xs (by simpa using h)
    exact ⟨sib, pid, by simpa [mkLeaves] using h1, by rw [h2]; simp⟩

theorem mkLeaves_drop : ∀ (X : List (List Nat)) (pids : List Nat) (n : Nat),
    (mkLeaves X pids).drop n = mkLeaves (X.drop n) (pids.drop n)
  | X, pids, 0 => rfl
  | [], pids, n + 1 => by simp [mkLeaves]
  | _ :: X, pids, n + 1 => by
    simp only [mkLeaves, List.drop_succ_cons]
    rw [mkLeaves_drop X pids.tail n]
    cases pids <;> simp

/-- the first key of the chain, if the first non-empty leaf is reached through sibling pointers -/
theorem chainFirst_mem : ∀ (Y : List (List Nat)) (pids : List Nat) (q : Nat),
    chainFirst (mkLeaves Y pids) = some (some q) → q ∈ Y.flatten
  | [], _, _, h => by simp [mkLeaves, chainFirst] at h
  | ys :: Y, pids, q, h => by
    cases ys with
    | nil =>
      simp only [mkLeaves, chainFirst, List.map_nil] at h
      split at h
      · simpa using chainFirst_mem Y pids.tail q h
      · cases h
    | cons y ys =>
      simp only [mkLeaves, chainFirst, List.map_cons, Option.some.injEq] at h
      simp [← h]

theorem chainFirst_head (ys : List Nat) (Y : List (List Nat)) (pids : List Nat) (hne : ys ≠ []) :
    chainFirst (mkLeaves (ys :: Y) pids) = some (some (ys.headD 0)) := by
  cases ys with
  | nil => exact absurd rfl hne
  | cons y ys => simp [mkLeaves, chainFirst]

/-- completeness of the leaf search: a key of the (sorted) leaf `i` is found there -/
theorem leafFind_at (leaves : List LeafImg) (i : Nat) (xs : List Nat) (sib : Bool) (pid : Nat)
    (hl : leaves[i]? = some ⟨xs.map some, sib, pid⟩) (hs : SortedNat xs) (q : Nat) (hq : q ∈ xs) :
    leafFind leaves i q = true := by
  have hspec := lowerBoundAux_spec xs q hs (xs.length + 1) 0 xs.length (Nat.zero_le _) (Nat.le_refl _) (by omega)
    (by intro i hi; omega) (by intro i h1 h2; omega)
  simp only [leafFind, hl, lowerBound, List.length_map]
  generalize lowerBoundAux (xs.map some) q (xs.length + 1) 0 xs.length = r at hspec
  obtain ⟨_, hr, hlow, hhigh⟩ := hspec
  obtain ⟨j, hj, he⟩ := (mem_iff_getD xs q).mp hq
  have hrl : r < xs.length := by
    by_cases h : r < xs.length
    · exact h
    · have := hlow j (by omega); omega
  simp only [hrl, if_true]
  rw [getD_map_some xs r hrl]
  have hjr : r ≤ j := by
    by_cases h' : j < r
    · have := hlow j h'; omega
    · omega
  have h1 := hhigh r (Nat.le_refl _) hrl
  have h2 : xs.getD r 0 ≤ xs.getD j 0 := by
    by_cases hrj : r = j
    · rw [hrj]; exact Nat.le_refl _
    · exact hs r j (by omega) hj
  have : xs.getD r 0 = q := by omega
  rw [this]; simp

/-- soundness: whatever the leaf search reports is a key of the chain -/
theorem leafFind_sound (X : List (List Nat)) (pids : List Nat) (i q : Nat)
    (h : leafFind (mkLeaves X pids) i q = true) : q ∈ X.flatten := by
  unfold leafFind at h
  cases hx : X[i]? with
  | none =>
    have : (mkLeaves X pids)[i]? = none := by
      rw [List.getElem?_eq_none_iff, mkLeaves_length]
      exact List.getElem?_eq_none_iff.mp hx
    rw [this] at h; cases h
  | some xs =>
    obtain ⟨sib, pid, hl, _⟩ := mkLeaves_get X pids i xs hx
    rw [hl] at h
    simp only [List.length_map] at h
    have hmem : xs ∈ X := List.mem_of_getElem? hx
    split at h
    · rename_i hk
      have hk' : lowerBound (xs.map some) q < xs.length := hk
      rw [getD_map_some xs _ hk'] at h
      have : xs.getD (lowerBound (xs.map some) q) 0 = q := by simpa using h
      exact List.mem_flatten.mpr ⟨xs, hmem, (mem_iff_getD xs q).mpr ⟨_, hk', this⟩⟩
    · split at h
      · rw [mkLeaves_drop] at h
        have := chainFirst_mem (X.drop (i + 1)) (pids.drop (i + 1)) q (by simpa using h)
        obtain ⟨ys, hys, hq⟩ := List.mem_flatten.mp this
        exact List.mem_flatten.mpr ⟨ys, List.mem_of_mem_drop hys, hq⟩
      · cases h

end Nervus.Crash

namespace Nervus.Crash

theorem sortedNat_iff (xs : List Nat) : SortedNat xs ↔ xs.Pairwise (· ≤ ·) := by
  rw [List.pairwise_iff_getElem]
  constructor
  · intro h i j hi hj hij
    have := h i j hij hj
    simpa [List.getD, List.getElem?_eq_getElem hi, List.getElem?_eq_getElem hj] using this
  · intro h i j hij hj
    have hi : i < xs.length := by omega
    have := h i j hi hj hij
    simpa [List.getD, List.getElem?_eq_getElem hi, List.getElem?_eq_getElem hj] using this

theorem heads_mem (Ys : List (List Nat)) (hne : ∀ ys ∈ Ys, ys ≠ []) : ∀ s ∈ heads Ys, s ∈ Ys.flatten := by
  intro s hs
  obtain ⟨ys, hys, rfl⟩ := List.mem_map.mp hs
  cases ys with
  | nil => exact absurd rfl (hne _ hys)
  | cons y ys => exact List.mem_flatten.mpr ⟨_, hys, by simp⟩

/-- the internal root sends a key of the chain to a leaf that holds it -/
theorem route_locate : ∀ (Ys : List (List Nat)) (y0 : List Nat) (q : Nat),
    (y0 :: Ys).flatten.Pairwise (· ≤ ·) → (∀ ys ∈ Ys, ys ≠ []) → q ∈ (y0 :: Ys).flatten →
    ∃ xs, (y0 :: Ys)[route (heads Ys) q]? = some xs ∧ q ∈ xs
  | [], y0, q, _, _, hq => ⟨y0, by simp [route, heads], by simpa using hq⟩
  | y1 :: Ys, y0, q, hs, hne, hq => by
    have hne1 : y1 ≠ [] := hne y1 (by simp)
    obtain ⟨h1, t1, rfl⟩ : ∃ h1 t1, y1 = h1 :: t1 := by
      cases y1 with
      | nil => exact absurd rfl hne1
      | cons a b => exact ⟨a, b, rfl⟩
    have hs' : ((h1 :: t1) :: Ys).flatten.Pairwise (· ≤ ·) := by
      simp only [List.flatten_cons] at hs ⊢
      exact (List.pairwise_append.mp hs).2.1
    have hcross : ∀ a ∈ y0, ∀ b ∈ ((h1 :: t1) :: Ys).flatten, a ≤ b := by
      simp only [List.flatten_cons] at hs ⊢
      exact (List.pairwise_append.mp hs).2.2
    have hmin : ∀ z ∈ ((h1 :: t1) :: Ys).flatten, h1 ≤ z := by
      intro z hz
      simp only [List.flatten_cons, List.cons_append] at hs' hz
      rcases List.mem_cons.mp hz with rfl | hz
      · exact Nat.le_refl _
      · exact (List.pairwise_cons.mp hs').1 z hz
    have hheads : heads ((h1 :: t1) :: Ys) = h1 :: heads Ys := rfl
    by_cases hle : h1 ≤ q
    · have hq' : q ∈ ((h1 :: t1) :: Ys).flatten := by
        simp only [List.flatten_cons, List.mem_append] at hq
        rcases hq with hq | hq
        · have h2 := hcross q hq h1 (by simp)
          have : q = h1 := by omega
          rw [this]; simp
        · simp only [List.flatten_cons, List.mem_append]; simpa using hq
      obtain ⟨xs, hx, hqx⟩ := route_locate Ys (h1 :: t1) q hs' (fun ys hys => hne ys (by simp [hys])) hq'
      refine ⟨xs, ?_, hqx⟩
      have : route (heads ((h1 :: t1) :: Ys)) q = route (heads Ys) q + 1 := by
        simp [hheads, route, List.filter_cons, hle]
      rw [this]
      simpa using hx
    · have hr : route (heads ((h1 :: t1) :: Ys)) q = 0 := by
        simp only [route, List.length_eq_zero_iff, List.filter_eq_nil_iff, decide_eq_true_eq]
        intro s hs2
        have := hmin s (heads_mem _ hne s hs2)
        omega
      rw [hr]
      refine ⟨y0, by simp, ?_⟩
      simp only [List.flatten_cons, List.mem_append] at hq
      rcases hq with hq | hq
      · exact hq
      · have := hmin q (by simp only [List.flatten_cons, List.mem_append]; simpa using hq); omega

/-- lookup in a tree, entered at the leaf (`top = false`) or at the internal root -/
def treeHasT (t : TreeImg) (top : Bool) (q : Nat) : Bool :=
  (if top then
    match t.inode with
    | none => false
    | some seps => leafFind t.leaves (route seps q) q
   else leafFind t.leaves 0 q) && t.blobs.contains q

theorem treeHas_eq (p : PImg) (key : Nat) (top : Bool) (q : Nat) (t : TreeImg)
    (h : p.trees.find? (fun t => t.key == key) = some t) : treeHas p key top q = treeHasT t top q := by
  simp only [treeHas, h, treeHasT]
  rfl

/-- the shape of a tree built by sinking: a sorted chain `X` of leaves; one leaf and no internal
    root, or the internal root with the first keys of the later leaves -/
structure TreeShape (t : TreeImg) (X : List (List Nat)) (top : Bool) : Prop where
  ne : X ≠ []
  leaves : ∃ pids, t.leaves = mkLeaves X pids
  sorted : SortedNat X.flatten
  tail : ∀ ys ∈ X.tail, ys ≠ []
  inode : if top then t.inode = some (heads X.tail) else (t.inode = none ∧ X.tail = [])

/-- **point lookups in a chain**: found iff a key of the chain (and its value blob is there) -/
theorem treeHasT_iff {t : TreeImg} {X : List (List Nat)} {top : Bool} (h : TreeShape t X top) (q : Nat) :
    treeHasT t top q = true ↔ q ∈ X.flatten ∧ q ∈ t.blobs := by
  obtain ⟨pids, hl⟩ := h.leaves
  obtain ⟨y0, Ys, rfl⟩ : ∃ y0 Ys, X = y0 :: Ys := by
    cases X with
    | nil => exact absurd rfl h.ne
    | cons a b => exact ⟨a, b, rfl⟩
  have hsp := (sortedNat_iff _).mp h.sorted
  have hfind : ∀ i, (leafFind t.leaves i q = true → q ∈ (y0 :: Ys).flatten) := by
    intro i hi; rw [hl] at hi; exact leafFind_sound _ _ _ _ hi
  have hcomplete : q ∈ (y0 :: Ys).flatten → leafFind t.leaves (route (heads Ys) q) q = true := by
    intro hq
    obtain ⟨xs, hx, hqx⟩ := route_locate Ys y0 q hsp h.tail hq
    obtain ⟨sib, pid, hg, _⟩ := mkLeaves_get (y0 :: Ys) pids _ xs hx
    rw [hl]
    refine leafFind_at _ _ xs sib pid hg ?_ q hqx
    rw [sortedNat_iff]
    have hmem : xs ∈ (y0 :: Ys) := List.mem_of_getElem? hx
    exact List.Pairwise.sublist (List.sublist_flatten_of_mem hmem) hsp
  have hin := h.inode
  simp only [treeHasT, Bool.and_eq_true, List.contains_iff_mem]
  cases top with
  | true =>
    simp only [if_true] at hin ⊢
    simp only [List.tail_cons] at hin
    rw [hin]
    constructor
    · rintro ⟨h1, h2⟩; exact ⟨hfind _ h1, h2⟩
    · rintro ⟨h1, h2⟩; exact ⟨hcomplete h1, h2⟩
  | false =>
    simp only [Bool.false_eq_true, if_false] at hin ⊢
    have hYs : Ys = [] := by simpa using hin.2
    subst hYs
    constructor
    · rintro ⟨h1, h2⟩; exact ⟨hfind _ h1, h2⟩
    · rintro ⟨h1, h2⟩
      have := hcomplete h1
      simp only [heads, List.map_nil, route, List.filter_nil, List.length_nil] at this
      exact ⟨this, h2⟩

theorem mkLeaves_snoc_len (Xi : List (List Nat)) (last : List Nat) (pids : List Nat) :
    (mkLeaves (Xi ++ [last]) pids).length = Xi.length + 1 := by
  rw [mkLeaves_length]; simp

theorem mkLeaves_snoc_get : ∀ (Xi : List (List Nat)) (last : List Nat) (pids : List Nat) (d : LeafImg),
    ∃ p, (mkLeaves (Xi ++ [last]) pids).getD Xi.length d = ⟨last.map some, false, p⟩
  | [], last, pids, d => ⟨pids.headD 0, by simp [mkLeaves]⟩
  | x :: Xi, last, pids, d => by
    obtain ⟨p, hp⟩ := mkLeaves_snoc_get Xi last pids.tail d
    exact ⟨p, by simpa [mkLeaves] using hp⟩

theorem setLeaf_snoc : ∀ (Xi : List (List Nat)) (last ys : List Nat) (pids : List Nat) (pid : Nat),
    ∃ pids', setLeaf (mkLeaves (Xi ++ [last]) pids) Xi.length ⟨ys.map some, false, pid⟩ = mkLeaves (Xi ++ [ys]) pids'
  | [], last, ys, pids, pid => ⟨[pid], by simp [mkLeaves, setLeaf]⟩
  | x :: Xi, last, ys, pids, pid => by
    obtain ⟨pids', h⟩ := setLeaf_snoc Xi last ys pids.tail pid
    refine ⟨pids.headD 0 :: pids', ?_⟩
    have e : (Xi ++ [last]).isEmpty = (Xi ++ [ys]).isEmpty := by cases Xi <;> rfl
    simp [mkLeaves, setLeaf, h, e]

theorem setLeaf_split : ∀ (Xi : List (List Nat)) (last L R : List Nat) (pids : List Nat) (p1 p2 : Nat),
    ∃ pids', setLeaf (setLeaf (mkLeaves (Xi ++ [last]) pids) Xi.length ⟨L.map some, true, p1⟩) (Xi.length + 1) ⟨R.map some, false, p2⟩ =
      mkLeaves (Xi ++ [L, R]) pids'
  | [], last, L, R, pids, p1, p2 => ⟨[p1, p2], by simp [mkLeaves, setLeaf]⟩
  | x :: Xi, last, L, R, pids, p1, p2 => by
    obtain ⟨pids', h⟩ := setLeaf_split Xi last L R pids.tail p1 p2
    refine ⟨pids.headD 0 :: pids', ?_⟩
    have e : (Xi ++ [last]).isEmpty = (Xi ++ [L, R]).isEmpty := by cases Xi <;> rfl
    simp [mkLeaves, setLeaf, h, e]

theorem heads_snoc (Xi : List (List Nat)) (ys : List Nat) : heads (Xi ++ [ys]) = heads Xi ++ [ys.headD 0] := by
  simp [heads]

/-- the head of the last leaf is what the internal root knows about it -/
theorem heads_tail_snoc (Xi : List (List Nat)) (a b : List Nat) (h : Xi ≠ [] → a.headD 0 = b.headD 0) :
    heads (Xi ++ [a]).tail = heads (Xi ++ [b]).tail := by
  cases Xi with
  | nil => rfl
  | cons x Xi =>
    simp only [List.cons_append, List.tail_cons, heads_snoc]
    rw [h (by simp)]

theorem treeShape_top {t : TreeImg} {X : List (List Nat)} {top : Bool} (h : TreeShape t X top) : t.inode.isSome = top := by
  have := h.inode
  cases top with
  | true => simp only [if_true] at this; rw [this]; rfl
  | false => simp only [Bool.false_eq_true, if_false] at this; rw [this.1]; rfl

theorem headD_append_ne (a b : List Nat) (h : a ≠ []) : (a ++ b).headD 0 = a.headD 0 := by
  cases a with
  | nil => exact absurd rfl h
  | cons x xs => rfl

theorem headD_take (a : List Nat) (n : Nat) (hn : 1 ≤ n) : (a.take n).headD 0 = a.headD 0 := by
  cases a with
  | nil => simp
  | cons x xs =>
    cases n with
    | zero => omega
    | succ n => rfl


/-- rewriting the last leaf of a chain with entries that keep the order and its first key keeps
    the chain shape -/
theorem treeShape_setLast {t t' : TreeImg} {Xi : List (List Nat)} {last ys : List Nat} {top : Bool}
    (h : TreeShape t (Xi ++ [last]) top) (p : Nat)
    (hl : t'.leaves = setLeaf t.leaves Xi.length ⟨ys.map some, false, p⟩) (hi : t'.inode = t.inode)
    (hs : SortedNat (Xi ++ [ys]).flatten) (hne : Xi ≠ [] → ys ≠ [] ∧ ys.headD 0 = last.headD 0) :
    TreeShape t' (Xi ++ [ys]) top := by
  obtain ⟨pids, hlv⟩ := h.leaves
  obtain ⟨pids', hs'⟩ := setLeaf_snoc Xi last ys pids p
  refine ⟨by simp, ⟨pids', by rw [hl, hlv]; exact hs'⟩, hs, ?_, ?_⟩
  · intro zs hzs
    cases Xi with
    | nil => simp at hzs
    | cons x Xs =>
      simp only [List.cons_append, List.tail_cons, List.mem_append, List.mem_singleton] at hzs
      rcases hzs with hzs | rfl
      · exact h.tail zs (by simp [hzs])
      · exact (hne (by simp)).1
  · have hin := h.inode
    rw [hi]
    cases top with
    | true =>
      simp only [if_true] at hin ⊢
      rw [hin]
      congr 1
      exact heads_tail_snoc Xi last ys (fun hx => (hne hx).2.symm)
    | false =>
      simp only [Bool.false_eq_true, if_false] at hin ⊢
      refine ⟨hin.1, ?_⟩
      have : Xi = [] := by
        cases Xi with
        | nil => rfl
        | cons x Xs => simp at hin
      subst this; rfl

theorem filterMap_id_map_some (xs : List Nat) : (xs.map some).filterMap id = xs := by
  induction xs with
  | nil => rfl
  | cons x xs ih => simp [ih]

theorem entries_mkLeaves : ∀ (X : List (List Nat)) (pids : List Nat),
    (mkLeaves X pids).flatMap (fun l => l.entries.filterMap id) = X.flatten
  | [], _ => rfl
  | xs :: X, pids => by simp [mkLeaves, filterMap_id_map_some, entries_mkLeaves X]

end Nervus.Crash
