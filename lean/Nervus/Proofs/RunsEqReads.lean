/-
  Proofs/RunsEqReads.lean — two engines with the same segments, store and root, read-equivalent run
  lists and idmaps no caller can tell apart answer every read alike (`Eqv`): the engine before and
  after `open`.
-/
import Nervus.Proofs.CompactHist
namespace Nervus.Storage

theorem contains_congr {α} [BEq α] [LawfulBEq α] {l l' : List α} (h : ∀ a, a ∈ l ↔ a ∈ l') (a : α) :
    l.contains a = l'.contains a := by
  rw [Bool.eq_iff_iff]; simp [h a]

theorem RunEq.pushOut {r r' : Run} (h : RunEq r r') {a b : Option (List Edge)} (hp : PermOpt a b)
    (n : Nat) (rel : Option Nat) : PermOpt (pushOut r n rel a) (pushOut r' n rel b) := by
  unfold Storage.pushOut
  rw [contains_congr h.tombNodes n]
  split
  · exact PermOpt.refl _
  · rcases hp with ⟨ha, hb⟩ | ⟨l, l', ha, hb, hp⟩
    · rw [ha, hb]; exact Or.inl ⟨rfl, rfl⟩
    · rw [ha, hb]
      refine Or.inr ⟨_, _, rfl, rfl, List.Perm.append ?_ ?_⟩
      · unfold Run.edgesForSrc; exact (h.edges.filter _).filter _
      · have : (fun e => !blockedOut r.tombNodes r.tombEdges e) = (fun e => !blockedOut r'.tombNodes r'.tombEdges e) := by
          funext e; unfold blockedOut
          rw [contains_congr h.tombNodes, contains_congr h.tombEdges]
        rw [this]; exact hp.filter _

theorem RunEq.pushIn {r r' : Run} (h : RunEq r r') {a b : Option (List Edge)} (hp : PermOpt a b)
    (n : Nat) (rel : Option Nat) : PermOpt (pushIn r n rel a) (pushIn r' n rel b) := by
  unfold Storage.pushIn
  rw [contains_congr h.tombNodes n]
  split
  · exact PermOpt.refl _
  · rcases hp with ⟨ha, hb⟩ | ⟨l, l', ha, hb, hp⟩
    · rw [ha, hb]; exact Or.inl ⟨rfl, rfl⟩
    · rw [ha, hb]
      refine Or.inr ⟨_, _, rfl, rfl, List.Perm.append ?_ ?_⟩
      · unfold Run.edgesForDst; exact (h.edges.filter _).filter _
      · have : (fun e => !blockedIn r.tombNodes r.tombEdges e) = (fun e => !blockedIn r'.tombNodes r'.tombEdges e) := by
          funext e; unfold blockedIn
          rw [contains_congr h.tombNodes, contains_congr h.tombEdges]
        rw [this]; exact hp.filter _

theorem neighbors_runsEq {rs rs' : List Run} (h : RunsEq rs rs') (x : Engine) (n : Nat) (rel : Option Nat) :
    PermOpt ({ x with runs := rs }.neighbors n rel) ({ x with runs := rs' }.neighbors n rel) := by
  induction h with
  | nil => exact PermOpt.refl _
  | @cons r r' rs rs' hr _ ih =>
    rw [neighbors_cons { x with runs := rs } { x with runs := r :: rs } r rfl rfl,
      neighbors_cons { x with runs := rs' } { x with runs := r' :: rs' } r' rfl rfl]
    exact hr.pushOut ih n rel

theorem incoming_runsEq (c : Cfg) {rs rs' : List Run} (h : RunsEq rs rs') (x : Engine) (n : Nat) (rel : Option Nat) :
    PermOpt ({ x with runs := rs }.incoming c n rel) ({ x with runs := rs' }.incoming c n rel) := by
  induction h with
  | nil => exact PermOpt.refl _
  | @cons r r' rs rs' hr _ ih =>
    rw [incoming_cons c { x with runs := rs } { x with runs := r :: rs } r rfl rfl,
      incoming_cons c { x with runs := rs' } { x with runs := r' :: rs' } r' rfl rfl]
    exact hr.pushIn ih n rel

/-- same segments / store / root, read-equivalent runs, indistinguishable idmaps ⇒ same reads -/
theorem eqv_runsEq (c : Cfg) {x y : Engine} (hr : RunsEq x.runs y.runs) (h1 : x.segs = y.segs)
    (h2 : x.store = y.store) (h3 : x.propsRoot = y.propsRoot) (h4 : x.storeRoot = y.storeRoot)
    (hm : IdEq x.idmap y.idmap)
    (hi : x.interner = y.interner) (hv : x.vecs = y.vecs) : Eqv c x y := by
  refine ⟨hm, hi, hv, fun n => RunEq.isTombNode hr n, ?_, ?_, ?_, ?_⟩
  · intro n rel
    have := neighbors_runsEq hr x n rel
    have e1 : ({ x with runs := x.runs } : Engine).neighbors n rel = x.neighbors n rel := rfl
    have e2 : ({ x with runs := y.runs } : Engine).neighbors n rel = y.neighbors n rel := by
      rw [neighbors_eq]; unfold Engine.neighborsFlushed; rw [h1]
    rw [e1, e2] at this; exact this
  · intro n rel
    have := incoming_runsEq c hr x n rel
    have e1 : ({ x with runs := x.runs } : Engine).incoming c n rel = x.incoming c n rel := rfl
    have e2 : ({ x with runs := y.runs } : Engine).incoming c n rel = y.incoming c n rel := by
      rw [incoming_eq]; unfold Engine.incomingFlushed; rw [h1]
    rw [e1, e2] at this; exact this
  · intro n k; unfold Engine.nodeProp; rw [RunEq.npropRuns hr, visibleStore_congr h2 h3 h4]
  · intro e k; unfold Engine.edgeProp; rw [RunEq.epropRuns hr, visibleStore_congr h2 h3 h4]

end Nervus.Storage
