/-
  Proofs.CrashImg — generic facts about program execution and crash images:
  * a program stopped at I/O step k has performed exactly the first k I/O steps;
  * the power-loss images of the page file are generated from the durable image by the unsynced
    operations one at a time (lost / persisted / torn), so a class of images that contains the
    durable image and is closed under every unsynced operation contains all of them.
-/
import Nervus.Model.IOSteps
namespace Nervus.Crash

/-! ### execution -/

def memUpds : List Action → List MemUpd
  | [] => []
  | .mem u :: rest => u :: memUpds rest
  | .fail _ :: _ => []
  | _ :: rest => memUpds rest

def failOf : List Action → Option Err
  | [] => none
  | .fail e :: _ => some e
  | _ :: rest => failOf rest

theorem ioSteps_append_noFail (a b : List Action) (h : failOf a = none) :
    ioSteps (a ++ b) = ioSteps a ++ ioSteps b := by
  induction a with
  | nil => rfl
  | cons x a ih =>
    cases x <;> simp [failOf] at h <;> simp [ioSteps, ih h]

theorem failOf_append (a b : List Action) :
    failOf (a ++ b) = (failOf a).orElse (fun _ => failOf b) := by
  induction a with
  | nil => simp [failOf]
  | cons x a ih => cases x <;> simp [failOf, ih]

theorem memUpds_append_noFail (a b : List Action) (h : failOf a = none) :
    memUpds (a ++ b) = memUpds a ++ memUpds b := by
  induction a with
  | nil => rfl
  | cons x a ih =>
    cases x <;> simp [failOf] at h <;> simp [memUpds, ih h]

/-- running to completion: all I/O steps in order, all memory updates in order -/
theorem runActs_none (acts : List Action) (n : Nat) (fs : FS) (m : Mem) (log : List Step) :
    runActs acts .none n fs m log =
      { fs := fs.steps (ioSteps acts), mem := (memUpds acts).foldl applyUpd m, err := failOf acts,
        steps := log.reverse ++ ioSteps acts, fired := false, dead := false } := by
  induction acts generalizing n fs m log with
  | nil => simp [runActs, ioSteps, memUpds, failOf, FS.steps]
  | cons a acts ih =>
    cases a with
    | io s f => simp [runActs, ioSteps, memUpds, failOf, FS.steps, ih]
    | mem u => simp [runActs, ioSteps, memUpds, failOf, ih]
    | fail e => simp [runActs, ioSteps, memUpds, failOf, FS.steps]

/-- dying at I/O step k: exactly the first k I/O steps have been performed -/
theorem runActs_crash (acts : List Action) (k n : Nat) (fs : FS) (m : Mem) (log : List Step)
    (hk : n ≤ k) (hlt : k - n < (ioSteps acts).length) :
    (runActs acts (.crashAt k) n fs m log).dead = true ∧
    (runActs acts (.crashAt k) n fs m log).fs = fs.steps ((ioSteps acts).take (k - n)) := by
  induction acts generalizing n fs m log with
  | nil => simp [ioSteps] at hlt
  | cons a acts ih =>
    cases a with
    | io s f =>
      simp only [runActs]
      by_cases hnk : n = k
      · subst hnk; simp [FS.steps]
      · simp only [hnk, if_false]
        have h1 : k - n = (k - (n + 1)) + 1 := by omega
        have := ih (n + 1) (fs.step s) m (s :: log) (by omega) (by simp [ioSteps] at hlt; omega)
        rw [h1]; simpa [ioSteps, FS.steps] using this
    | mem u => simpa [runActs, ioSteps] using ih n fs (applyUpd m u) log hk (by simpa [ioSteps] using hlt)
    | fail e => simp [ioSteps] at hlt

theorem runActs_crash_late (acts : List Action) (k n : Nat) (fs : FS) (m : Mem) (log : List Step)
    (hk : n ≤ k) (hge : (ioSteps acts).length ≤ k - n) :
    (runActs acts (.crashAt k) n fs m log).dead = false ∧
    (runActs acts (.crashAt k) n fs m log).fs = fs.steps (ioSteps acts) ∧
    (runActs acts (.crashAt k) n fs m log).err = failOf acts ∧
    (runActs acts (.crashAt k) n fs m log).mem = (memUpds acts).foldl applyUpd m := by
  induction acts generalizing n fs m log with
  | nil => simp [runActs, ioSteps, FS.steps, failOf, memUpds]
  | cons a acts ih =>
    cases a with
    | io s f =>
      have hnk : n ≠ k := by simp [ioSteps] at hge; omega
      simp only [runActs, hnk, if_false]
      simpa [ioSteps, FS.steps, failOf, memUpds] using
        ih (n + 1) (fs.step s) m (s :: log) (by omega) (by simp [ioSteps] at hge; omega)
    | mem u => simpa [runActs, ioSteps, failOf, memUpds] using ih n fs (applyUpd m u) log hk (by simpa [ioSteps] using hge)
    | fail e => simp [runActs, ioSteps, FS.steps, failOf, memUpds]

theorem steps_append (fs : FS) (a b : List Step) : fs.steps (a ++ b) = (fs.steps a).steps b := by
  simp [FS.steps, List.foldl_append]

/-! ### power-loss images of the page file -/

/-- `p'` is a power-loss image of durable image `p` with unsynced operations `pj` -/
def IsImg (pj : List PEff) (p p' : PImg) : Prop := ∃ sel, p' = applySel (zipSel pj sel) p

theorem zipSel_nil_sel (es : List PEff) : zipSel es [] = es.map (fun e => (e, Sel.drop)) := by
  induction es with
  | nil => rfl
  | cons e es ih => simp [zipSel, ih]

theorem applySel_drop (es : List PEff) (p : PImg) : applySel (es.map (fun e => (e, Sel.drop))) p = p := by
  induction es generalizing p with
  | nil => rfl
  | cons e es ih => simp [applySel, ih]

/-- one more unsynced operation: every image is an old image, possibly followed by the new
    operation (whole or torn) -/
theorem isImg_snoc (pj : List PEff) (e : PEff) (p p'' : PImg) (h : IsImg (pj ++ [e]) p p'') :
    ∃ p', IsImg pj p p' ∧
      (p'' = p' ∨ p'' = applyEff e p' ∨ ∃ e', tornEff p' e = some e' ∧ p'' = applyEff e' p') := by
  obtain ⟨sel, rfl⟩ := h
  induction pj generalizing p sel with
  | nil =>
    refine ⟨p, ⟨[], rfl⟩, ?_⟩
    cases sel with
    | nil => simp [zipSel, applySel]
    | cons s ss =>
      cases s
      · simp [zipSel, applySel]
      · simp [zipSel, applySel]
      · simp only [List.nil_append, zipSel, applySel]
        cases ht : tornEff p e with
        | none => simp
        | some e' => exact Or.inr (Or.inr ⟨e', rfl, rfl⟩)
  | cons x pj ih =>
    cases sel with
    | nil =>
      obtain ⟨p', ⟨sel', hp'⟩, hcase⟩ := ih p []
      refine ⟨p', ⟨Sel.drop :: sel', ?_⟩, ?_⟩
      · simp [zipSel, applySel, hp']
      · simpa [zipSel, applySel] using hcase
    | cons s ss =>
      cases s with
      | drop =>
        obtain ⟨p', ⟨sel', hp'⟩, hcase⟩ := ih p ss
        exact ⟨p', ⟨Sel.drop :: sel', by simp [zipSel, applySel, hp']⟩, by simpa [zipSel, applySel] using hcase⟩
      | keep =>
        obtain ⟨p', ⟨sel', hp'⟩, hcase⟩ := ih (applyEff x p) ss
        exact ⟨p', ⟨Sel.keep :: sel', by simp [zipSel, applySel, hp']⟩, by simpa [zipSel, applySel] using hcase⟩
      | torn =>
        cases ht : tornEff p x with
        | none =>
          obtain ⟨p', ⟨sel', hp'⟩, hcase⟩ := ih p ss
          exact ⟨p', ⟨Sel.torn :: sel', by simp [zipSel, applySel, ht, hp']⟩, by simpa [zipSel, applySel, ht] using hcase⟩
        | some x' =>
          obtain ⟨p', ⟨sel', hp'⟩, hcase⟩ := ih (applyEff x' p) ss
          exact ⟨p', ⟨Sel.torn :: sel', by simp [zipSel, applySel, ht, hp']⟩, by simpa [zipSel, applySel, ht] using hcase⟩

theorem isImg_nil (p p' : PImg) (h : IsImg [] p p') : p' = p := by
  obtain ⟨sel, rfl⟩ := h
  cases sel <;> rfl

/-- the volatile page file is the image in which everything persisted -/
theorem isImg_pv (pj : List PEff) (p : PImg) : IsImg pj p (applyEffs pj p) := by
  refine ⟨pj.map (fun _ => Sel.keep), ?_⟩
  induction pj generalizing p with
  | nil => rfl
  | cons e pj ih => simp [zipSel, applySel, applyEffs, List.foldl] at *; exact ih (applyEff e p)

theorem isImg_pd (pj : List PEff) (p : PImg) : IsImg pj p p :=
  ⟨[], by rw [zipSel_nil_sel, applySel_drop]⟩

/-- every power-loss image of the page file is in class `C` -/
def AllImgs (fs : FS) (C : PImg → Prop) : Prop := ∀ p', IsImg fs.pj fs.pd p' → C p'

/-- a class closed under the new unsynced operation (whole and torn) still contains every image -/
theorem allImgs_pg (fs : FS) (C : PImg → Prop) (e : PEff) (pid : Nat) (h : AllImgs fs C)
    (hc : ∀ p, C p → C (applyEff e p) ∧ ∀ e', tornEff p e = some e' → C (applyEff e' p)) :
    AllImgs (fs.step (.pg e pid)) C := by
  intro p'' himg
  obtain ⟨p', hp', hcase⟩ := isImg_snoc fs.pj e fs.pd p'' himg
  have hC := h p' hp'
  rcases hcase with rfl | rfl | ⟨e', ht, rfl⟩
  · exact hC
  · exact (hc p' hC).1
  · exact (hc p' hC).2 e' ht

/-- after a sync the only image is the former volatile page file -/
theorem allImgs_ps (fs : FS) (C : PImg → Prop) (h : C fs.pv) : AllImgs (fs.step .ps) C := by
  intro p' himg
  have := isImg_nil _ _ himg
  rw [this]
  exact h

theorem allImgs_pv (fs : FS) (C : PImg → Prop) (h : AllImgs fs C) : C fs.pv := h _ (isImg_pv _ _)

theorem allImgs_mono (fs : FS) (C C' : PImg → Prop) (h : AllImgs fs C) (hcc : ∀ p, C p → C' p) : AllImgs fs C' :=
  fun p' hp' => hcc _ (h p' hp')

theorem pv_step_pg (fs : FS) (e : PEff) (pid : Nat) : (fs.step (.pg e pid)).pv = applyEff e fs.pv := by
  simp [FS.step, FS.pv, applyEffs, List.foldl_append]

theorem pv_step_ps (fs : FS) : (fs.step .ps).pv = fs.pv := by
  simp [FS.step, FS.pv, applyEffs]

/-- log steps do not touch the page file -/
theorem allImgs_wal (fs fs' : FS) (C : PImg → Prop) (h : AllImgs fs C) (hpd : fs'.pd = fs.pd) (hpj : fs'.pj = fs.pj) :
    AllImgs fs' C := by
  intro p' himg
  rw [hpd, hpj] at himg
  exact h p' himg

theorem crashP_isImg (fs : FS) (mode : CrashMode) : IsImg fs.pj fs.pd (fs.crashP mode) := by
  cases mode with
  | proc => exact isImg_pv _ _
  | power sel wk lose => exact ⟨sel, rfl⟩

/-- unsynced page operations that cannot matter: statistics blob writes -/
def Inert (pj : List PEff) : Prop := ∀ e ∈ pj, e = PEff.stats

theorem inert_nil : Inert [] := by intro e he; simp at he

theorem isImg_inert (pj : List PEff) (h : Inert pj) (p p' : PImg) (hi : IsImg pj p p') : p' = p := by
  obtain ⟨sel, rfl⟩ := hi
  induction pj generalizing sel p with
  | nil => cases sel <;> rfl
  | cons e pj ih =>
    have he : e = PEff.stats := h e (by simp)
    have hr : Inert pj := fun x hx => h x (by simp [hx])
    subst he
    cases sel with
    | nil => simpa [zipSel, applySel] using ih hr p []
    | cons s ss =>
      cases s <;> simpa [zipSel, applySel, applyEff, tornEff] using ih hr p ss

theorem pv_inert (fs : FS) (h : Inert fs.pj) : fs.pv = fs.pd :=
  isImg_inert fs.pj h fs.pd fs.pv (isImg_pv _ _)

theorem crashP_inert (fs : FS) (h : Inert fs.pj) (mode : CrashMode) : fs.crashP mode = fs.pd :=
  isImg_inert fs.pj h fs.pd _ (crashP_isImg fs mode)

/-! ### an injected I/O error at step k -/

/-- the error-path steps of the k-th I/O action -/
def onFailAt : List Action → Nat → List Step
  | [], _ => []
  | .io _ f :: _, 0 => f
  | .io _ _ :: rest, k + 1 => onFailAt rest k
  | .fail _ :: _, _ => []
  | .mem _ :: rest, k => onFailAt rest k

/-- the memory updates performed before the k-th I/O action -/
def memBefore : List Action → Nat → List MemUpd
  | [], _ => []
  | .io _ _ :: _, 0 => []
  | .io _ _ :: rest, k + 1 => memBefore rest k
  | .fail _ :: _, _ => []
  | .mem u :: rest, k => u :: memBefore rest k

theorem runActs_fault (acts : List Action) (k n : Nat) (fs : FS) (m : Mem) (log : List Step)
    (hk : n ≤ k) (hlt : k - n < (ioSteps acts).length) :
    (runActs acts (.faultAt k) n fs m log).err = some .io ∧
    (runActs acts (.faultAt k) n fs m log).dead = false ∧
    (runActs acts (.faultAt k) n fs m log).fs = (fs.steps ((ioSteps acts).take (k - n))).steps (onFailAt acts (k - n)) ∧
    (runActs acts (.faultAt k) n fs m log).mem = (memBefore acts (k - n)).foldl applyUpd m := by
  induction acts generalizing n fs m log with
  | nil => simp [ioSteps] at hlt
  | cons a acts ih =>
    cases a with
    | io s f =>
      simp only [runActs]
      by_cases hnk : n = k
      · subst hnk; simp [FS.steps, onFailAt, memBefore, ioSteps]
      · simp only [hnk, if_false]
        have h1 : k - n = (k - (n + 1)) + 1 := by omega
        have := ih (n + 1) (fs.step s) m (s :: log) (by omega) (by simp [ioSteps] at hlt; omega)
        rw [h1]
        simpa [ioSteps, FS.steps, onFailAt, memBefore] using this
    | mem u =>
      have := ih n fs (applyUpd m u) log hk (by simpa [ioSteps] using hlt)
      simpa [runActs, ioSteps, onFailAt, memBefore] using this
    | fail e => simp [ioSteps] at hlt

theorem run_fault (acts : List Action) (k : Nat) (fs : FS) (m : Mem) (hlt : k < (ioSteps acts).length) :
    (run acts (.faultAt k) fs m).err = some .io ∧
    (run acts (.faultAt k) fs m).fs = (fs.steps ((ioSteps acts).take k)).steps (onFailAt acts k) ∧
    (run acts (.faultAt k) fs m).mem = (memBefore acts k).foldl applyUpd m := by
  have := runActs_fault acts k 0 fs m [] (Nat.zero_le _) (by simpa using hlt)
  simpa [run] using ⟨this.1, this.2.2.1, this.2.2.2⟩

theorem onFailAt_append_left (a b : List Action) (k : Nat) (h : k < (ioSteps a).length) :
    onFailAt (a ++ b) k = onFailAt a k := by
  induction a generalizing k with
  | nil => simp [ioSteps] at h
  | cons x a ih =>
    cases x with
    | io s f =>
      cases k with
      | zero => rfl
      | succ k => simpa [onFailAt] using ih k (by simpa [ioSteps] using h)
    | mem u => simpa [onFailAt] using ih k (by simpa [ioSteps] using h)
    | fail e => simp [ioSteps] at h

theorem onFailAt_append_right (a b : List Action) (k : Nat) (hf : failOf a = none) :
    onFailAt (a ++ b) ((ioSteps a).length + k) = onFailAt b k := by
  induction a with
  | nil => simp [ioSteps]
  | cons x a ih =>
    cases x with
    | io s f =>
      have := ih (by simpa [failOf] using hf)
      simp only [List.cons_append, ioSteps, List.length_cons]
      rw [show (ioSteps a).length + 1 + k = ((ioSteps a).length + k) + 1 by omega]
      simpa [onFailAt] using this
    | mem u => simpa [onFailAt, ioSteps] using ih (by simpa [failOf] using hf)
    | fail e => simp [failOf] at hf

theorem memBefore_append_left (a b : List Action) (k : Nat) (h : k < (ioSteps a).length) :
    memBefore (a ++ b) k = memBefore a k := by
  induction a generalizing k with
  | nil => simp [ioSteps] at h
  | cons x a ih =>
    cases x with
    | io s f =>
      cases k with
      | zero => rfl
      | succ k => simpa [memBefore] using ih k (by simpa [ioSteps] using h)
    | mem u => simpa [memBefore] using ih k (by simpa [ioSteps] using h)
    | fail e => simp [ioSteps] at h

theorem memBefore_append_right (a b : List Action) (k : Nat) (hf : failOf a = none) :
    memBefore (a ++ b) ((ioSteps a).length + k) = memUpds a ++ memBefore b k := by
  induction a with
  | nil => simp [ioSteps, memUpds]
  | cons x a ih =>
    cases x with
    | io s f =>
      have := ih (by simpa [failOf] using hf)
      simp only [List.cons_append, ioSteps, List.length_cons, memUpds]
      rw [show (ioSteps a).length + 1 + k = ((ioSteps a).length + k) + 1 by omega]
      simpa [memBefore] using this
    | mem u => simpa [memBefore, ioSteps, memUpds] using ih (by simpa [failOf] using hf)
    | fail e => simp [failOf] at hf


end Nervus.Crash
