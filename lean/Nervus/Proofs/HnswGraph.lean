/-
  Helper lemmas for C31, part 4: `insert` keeps the base layer symmetric and connected while no
  truncation branch can fire (first-time inserts, at most 2m+1 vectors).
-/
import Nervus.Proofs.HnswTop
namespace Nervus.Hnsw

variable {V D : Type}

/-! ### the graph store as a map -/

theorem getNbrs_setNbrs (ix : Index V) (l n : Nat) (xs : List Nat) (l' n' : Nat) :
    getNbrs (setNbrs ix l n xs) l' n' = if (l', n') = (l, n) then xs else getNbrs ix l' n' := by
  unfold getNbrs setNbrs
  simp only [List.lookup_cons]
  by_cases h : (l', n') = (l, n)
  · have : ((l', n') == (l, n)) = true := by simpa using h
    simp [this, h]
  · have : ((l', n') == (l, n)) = false := by simpa using h
    simp [this, h]

theorem setNbrs_vecs (ix : Index V) (l n : Nat) (xs : List Nat) : (setNbrs ix l n xs).vecs = ix.vecs := rfl

/-- what one back-link does to a neighbour list -/
def bl (m id : Nat) (nn : List Nat) : List Nat :=
  if nn.contains id then nn
  else if (nn ++ [id]).length > m * 2 then (nn ++ [id]).take m else nn ++ [id]

theorem backlink_vecs (m l id : Nat) (ix : Index V) (n : Nat) : (backlink m l id ix n).vecs = ix.vecs := by
  unfold backlink; simp only []; split <;> rfl

theorem getNbrs_backlink (m l id : Nat) (ix : Index V) (n l' n' : Nat) :
    getNbrs (backlink m l id ix n) l' n' =
      if (l', n') = (l, n) then bl m id (getNbrs ix l n) else getNbrs ix l' n' := by
  unfold backlink bl
  simp only []
  by_cases hc : (getNbrs ix l n).contains id = true
  · simp only [hc, if_true]
    by_cases h : (l', n') = (l, n)
    · simp only [h, if_true]; cases h; rfl
    · simp only [h, if_false]
  · simp only [hc, Bool.false_eq_true, if_false]
    rw [getNbrs_setNbrs]

theorem foldl_backlink_vecs (m l id : Nat) (ns : List Nat) (ix : Index V) :
    (ns.foldl (backlink m l id) ix).vecs = ix.vecs := by
  induction ns generalizing ix with
  | nil => rfl
  | cons n ns ih => simp only [List.foldl_cons]; rw [ih, backlink_vecs]

/-- the back-link loop over distinct neighbours rewrites exactly their lists at that layer -/
theorem getNbrs_foldl_backlink (m l id : Nat) :
    ∀ (ns : List Nat) (ix : Index V), ns.Nodup → ∀ l' n',
      getNbrs (ns.foldl (backlink m l id) ix) l' n' =
        if l' = l ∧ n' ∈ ns then bl m id (getNbrs ix l n') else getNbrs ix l' n'
  | [], ix, _, l', n' => by simp
  | n :: ns, ix, hnd, l', n' => by
    rw [List.nodup_cons] at hnd
    simp only [List.foldl_cons]
    rw [getNbrs_foldl_backlink m l id ns _ hnd.2]
    by_cases hl : l' = l
    · subst hl
      by_cases hn : n' ∈ ns
      · have hne : n' ≠ n := by intro e; subst e; exact hnd.1 hn
        have : ¬ (l', n') = (l', n) := by intro e; apply hne; injection e
        simp only [hn, and_self, if_true, List.mem_cons, or_true, getNbrs_backlink, this, if_false]
      · simp only [hn, and_false, if_false, List.mem_cons, or_false, true_and]
        rw [getNbrs_backlink]
        by_cases hnn : n' = n
        · subst hnn; simp
        · have : ¬ (l', n') = (l', n) := by intro e; apply hnn; injection e
          simp [this, hnn]
    · have : ¬ (l', n') = (l, n) := by intro e; apply hl; injection e
      simp only [hl, false_and, if_false, getNbrs_backlink, this]

theorem mem_bl {m id : Nat} {nn : List Nat} {j : Nat} (h : j ∈ bl m id nn) : j = id ∨ j ∈ nn := by
  unfold bl at h
  split at h
  · exact Or.inr h
  · split at h
    · have := (List.take_sublist _ _).subset h
      rcases List.mem_append.mp this with h1 | h1
      · exact Or.inr h1
      · simp only [List.mem_singleton] at h1; exact Or.inl h1
    · rcases List.mem_append.mp h with h1 | h1
      · exact Or.inr h1
      · simp only [List.mem_singleton] at h1; exact Or.inl h1

/-- without the truncation branch a back-link appends the id -/
theorem bl_append {m id : Nat} {nn : List Nat} (hid : id ∉ nn) (hlen : nn.length + 1 ≤ m * 2) :
    bl m id nn = nn ++ [id] := by
  unfold bl
  have : nn.contains id = false := by simpa using hid
  simp only [this, Bool.false_eq_true, if_false, List.length_append, List.length_singleton]
  have : ¬ nn.length + 1 > m * 2 := by omega
  simp [this]

/-! ### reachability is monotone in the adjacency -/

theorem reach_mono {ix ix' : Index V} {layer : Nat}
    (h : ∀ i j, j ∈ getNbrs ix layer i → j ∈ getNbrs ix' layer i) {i j : Nat} (hr : Reach ix layer i j) :
    Reach ix' layer i j := by
  induction hr with
  | refl => exact Reach.refl _
  | step hj _ ih => exact Reach.step (h _ _ hj) ih

theorem reach_trans {ix : Index V} {layer : Nat} {i j k : Nat} (h1 : Reach ix layer i j) (h2 : Reach ix layer j k) :
    Reach ix layer i k := by
  induction h1 with
  | refl => exact h2
  | step hj _ ih => exact Reach.step hj (ih h2)

/-! ### the invariant -/

/-- the graph `insert` maintains for first-time inserts while no list can exceed `2m` -/
structure Conn (ix : Index V) : Prop where
  keys : (ix.vecs.map (·.1)).Nodup
  entry : match ix.entry with
    | some e => e ∈ storedIds ix
    | none => ix.vecs = []
  closedAll : ∀ l i j, j ∈ getNbrs ix l i → j ∈ storedIds ix
  sym0 : ∀ i j, j ∈ getNbrs ix 0 i → i ∈ getNbrs ix 0 j
  nodup0 : ∀ i, (getNbrs ix 0 i).Nodup ∧ i ∉ getNbrs ix 0 i
  conn0 : ∀ i j, i ∈ storedIds ix → j ∈ storedIds ix → Reach ix 0 i j

theorem Conn.connected0 {ix : Index V} (h : Conn ix) : Connected0 ix :=
  ⟨fun _ _ j hj => h.closedAll 0 _ j hj, h.conn0⟩

theorem Conn.entry_none {ix : Index V} (h : Conn ix) (he : ix.entry = none) : storedIds ix = [] := by
  have := h.entry
  rw [he] at this
  simp only at this
  unfold storedIds; rw [this]; rfl

section step
variable {sp : Space V D} {p : Params} {ix : Index V} {id : Nat} {v : V}

/-- what holds of the intermediate index while `insert` walks down the layers -/
structure G (ix : Index V) (id : Nat) (v : V) (ixc : Index V) : Prop where
  vecs : ixc.vecs = (id, v) :: ix.vecs
  closed : ∀ l i j, j ∈ getNbrs ixc l i → j = id ∨ j ∈ storedIds ix

/-- the base layer after its iteration: the new node's list, one appended back-link per neighbour -/
def L0New (ix : Index V) (id : Nat) (ixc : Index V) : Prop :=
  ∃ nbrs : List Nat, nbrs ≠ [] ∧ nbrs.Nodup ∧ (∀ n, n ∈ nbrs → n ∈ storedIds ix) ∧
    getNbrs ixc 0 id = nbrs ∧ (∀ n, n ∈ nbrs → getNbrs ixc 0 n = getNbrs ix 0 n ++ [id]) ∧
    (∀ n, n ≠ id → n ∉ nbrs → getNbrs ixc 0 n = getNbrs ix 0 n)

theorem selectNeighbors_facts (sp : Space V D) (found : List (D × Nat)) (m : Nat)
    (hnd : (found.map (·.2)).Nodup) (hne : found ≠ []) :
    (selectNeighbors sp found m).Nodup ∧ selectNeighbors sp found m ≠ [] ∧
      ∀ n, n ∈ selectNeighbors sp found m → n ∈ found.map (·.2) := by
  unfold selectNeighbors
  have hperm := sortPairs_perm sp found
  have hsub := takeAtLeastOne_sublist m (sortPairs sp found)
  refine ⟨?_, ?_, ?_⟩
  · exact ((hperm.map (·.2)).nodup_iff.mpr hnd).sublist (hsub.map _)
  · have : sortPairs sp found ≠ [] := by
      intro h; rw [h] at hperm; exact hne (List.Perm.eq_nil hperm.symm)
    have := takeAtLeastOne_ne_nil m _ this
    intro h; apply this
    exact List.map_eq_nil_iff.mp h
  · intro n hn
    exact (hperm.map (·.2)).subset ((hsub.map _).subset hn)

/-- one iteration of step 4 at layer `l` -/
theorem layer_step (hc : Conn ix) (hid : id ∉ storedIds ix) (hm : (storedIds ix).length ≤ p.m * 2)
    (hefc : 1 ≤ p.efC) (l : Nat) (ixc : Index V) (eps : List Nat) (found : List (D × Nat))
    (hg : G ix id v ixc) (hun : ∀ n, getNbrs ixc l n = getNbrs ix l n)
    (hne : eps ≠ []) (heps : ∀ e, e ∈ eps → e ∈ storedIds ix)
    (hs : searchLayer sp ixc v eps p.efC l = .ok found) :
    let nbrs := selectNeighbors sp found p.m
    let ix2 := nbrs.foldl (backlink p.m l id) (setNbrs ixc l id nbrs)
    G ix id v ix2 ∧ (∀ l', l' ≠ l → ∀ n, getNbrs ix2 l' n = getNbrs ixc l' n) ∧
      found.map (·.2) ≠ [] ∧ (∀ e, e ∈ found.map (·.2) → e ∈ storedIds ix) ∧ (l = 0 → L0New ix id ix2) := by
  intro nbrs ix2
  have hcl : ∀ i, i ∈ storedIds ix → ∀ j, j ∈ getNbrs ixc l i → j ∈ storedIds ix := by
    intro i _ j hj; rw [hun] at hj; exact hc.closedAll l i j hj
  obtain ⟨g1, g2, g3⟩ := searchLayer_sound (P := (· ∈ storedIds ix)) eps p.efC l heps hcl found hs
  have hfne : found ≠ [] := g3 hefc hne
  obtain ⟨n1, n2, n3⟩ := selectNeighbors_facts sp found p.m g2 hfne
  have hfU : ∀ e, e ∈ found.map (·.2) → e ∈ storedIds ix := by
    intro e he; rcases List.mem_map.mp he with ⟨x, hx, rfl⟩; exact (g1 x hx).1
  have hnU : ∀ n, n ∈ nbrs → n ∈ storedIds ix := fun n hn => hfU n (n3 n hn)
  have hidn : id ∉ nbrs := fun h => hid (hnU id h)
  have hget : ∀ l' n', getNbrs ix2 l' n' =
      if l' = l ∧ n' ∈ nbrs then bl p.m id (getNbrs (setNbrs ixc l id nbrs) l n')
      else getNbrs (setNbrs ixc l id nbrs) l' n' := getNbrs_foldl_backlink p.m l id nbrs _ n1
  refine ⟨⟨?_, ?_⟩, ?_, ?_, hfU, ?_⟩
  · show (List.foldl (backlink p.m l id) (setNbrs ixc l id nbrs) nbrs).vecs = _
    rw [foldl_backlink_vecs, setNbrs_vecs]; exact hg.vecs
  · intro l' i j hj
    rw [hget] at hj
    have hbase : ∀ l'' i' j', j' ∈ getNbrs (setNbrs ixc l id nbrs) l'' i' → j' = id ∨ j' ∈ storedIds ix := by
      intro l'' i' j' hj'
      rw [getNbrs_setNbrs] at hj'
      split at hj'
      · exact Or.inr (hnU j' hj')
      · exact hg.closed l'' i' j' hj'
    split at hj
    · rcases mem_bl hj with h | h
      · exact Or.inl h
      · exact hbase _ _ _ h
    · exact hbase _ _ _ hj
  · intro l' hl' n
    rw [hget]
    have : ¬ (l' = l ∧ n ∈ nbrs) := fun h => hl' h.1
    simp only [this, if_false]
    rw [getNbrs_setNbrs]
    have : ¬ (l', n) = (l, id) := by intro e; apply hl'; injection e
    simp only [this, if_false]
  · intro h; apply hfne; exact List.map_eq_nil_iff.mp h
  · intro hl0
    subst hl0
    refine ⟨nbrs, n2, n1, hnU, ?_, ?_, ?_⟩
    · rw [hget]
      simp only [hidn, and_false, if_false]
      rw [getNbrs_setNbrs]; simp
    · intro n hn
      rw [hget]
      simp only [hn, and_self, if_true]
      have hne' : n ≠ id := fun e => hidn (e ▸ hn)
      rw [getNbrs_setNbrs]
      have : ¬ (0, n) = (0, id) := by intro e; apply hne'; injection e
      simp only [this, if_false]
      rw [hun]
      apply bl_append
      · intro hin; exact hid (hc.closedAll 0 n id hin)
      · -- the old list is duplicate-free, inside U and misses n itself
        have hnd := (hc.nodup0 n)
        have hsub : ∀ x, x ∈ getNbrs ix 0 n → x ∈ (storedIds ix).erase n := by
          intro x hx
          have hxn : x ≠ n := by intro e; subst e; exact hnd.2 hx
          exact (List.mem_erase_of_ne hxn).mpr (hc.closedAll 0 n x hx)
        have := length_le_of_nodup_subset _ _ hnd.1 hsub
        rw [List.length_erase_of_mem (hnU n hn)] at this
        have : 0 < (storedIds ix).length := List.length_pos_of_mem (hnU n hn)
        omega
    · intro n hne' hnn
      rw [hget]
      simp only [hnn, and_false, if_false]
      rw [getNbrs_setNbrs]
      have : ¬ (0, n) = (0, id) := by intro e; apply hne'; injection e
      simp only [this, if_false]
      exact hun n

/-- step 4 of `insert` over a duplicate-free list of layers that are still untouched -/
theorem insertLayers_inv (hc : Conn ix) (hid : id ∉ storedIds ix) (hm : (storedIds ix).length ≤ p.m * 2)
    (hefc : 1 ≤ p.efC) :
    ∀ (ls : List Nat) (ixc ix' : Index V) (eps : List Nat), ls.Nodup → G ix id v ixc →
      (∀ l, l ∈ ls → ∀ n, getNbrs ixc l n = getNbrs ix l n) →
      eps ≠ [] → (∀ e, e ∈ eps → e ∈ storedIds ix) →
      insertLayers sp p id v ls ixc eps = .ok ix' →
      G ix id v ix' ∧ ix'.entry = ixc.entry ∧ ix'.maxLayer = ixc.maxLayer ∧
        (0 ∈ ls → L0New ix id ix') ∧ (0 ∉ ls → ∀ n, getNbrs ix' 0 n = getNbrs ixc 0 n)
  | [], ixc, ix', eps, _, hg, _, _, _, hr => by
    simp only [insertLayers, Except.ok.injEq] at hr; subst hr
    exact ⟨hg, rfl, rfl, (fun h => by cases h), fun _ _ => rfl⟩
  | l :: ls, ixc, ix', eps, hnd, hg, hun, hne, heps, hr => by
    rw [List.nodup_cons] at hnd
    unfold insertLayers at hr
    cases hs : searchLayer sp ixc v eps p.efC l with
    | error e => rw [hs] at hr; simp at hr
    | ok found =>
      rw [hs] at hr
      simp only at hr
      obtain ⟨s1, s2, s3, s4, s5⟩ := layer_step (sp := sp) hc hid hm hefc l ixc eps found hg
        (hun l List.mem_cons_self) hne heps hs
      have hun2 : ∀ l', l' ∈ ls → ∀ n, getNbrs
          ((selectNeighbors sp found p.m).foldl (backlink p.m l id) (setNbrs ixc l id (selectNeighbors sp found p.m))) l' n
          = getNbrs ix l' n := by
        intro l' hl' n
        have hne' : l' ≠ l := by intro e; subst e; exact hnd.1 hl'
        rw [s2 l' hne' n]; exact hun l' (List.mem_cons_of_mem _ hl') n
      obtain ⟨r1, r2, r3, r4, r5⟩ := insertLayers_inv hc hid hm hefc ls _ ix' _ hnd.2 s1 hun2 s3 s4 hr
      have hent : ∀ (ns : List Nat) (a : Index V), (ns.foldl (backlink p.m l id) a).entry = a.entry ∧
          (ns.foldl (backlink p.m l id) a).maxLayer = a.maxLayer := by
        intro ns
        induction ns with
        | nil => intro a; exact ⟨rfl, rfl⟩
        | cons n ns ih =>
          intro a
          simp only [List.foldl_cons]
          have := ih (backlink p.m l id a n)
          have hb : (backlink p.m l id a n).entry = a.entry ∧ (backlink p.m l id a n).maxLayer = a.maxLayer := by
            unfold backlink; simp only []; split <;> exact ⟨rfl, rfl⟩
          exact ⟨this.1.trans hb.1, this.2.trans hb.2⟩
      refine ⟨r1, r2.trans (hent _ _).1, r3.trans (hent _ _).2, ?_, ?_⟩
      · intro h0
        rcases List.mem_cons.mp h0 with h0 | h0
        · -- the base layer is this iteration; the remaining layers leave it alone
          have hl0 : l = 0 := h0.symm
          have hnot : 0 ∉ ls := by intro h; apply hnd.1; rw [hl0]; exact h
          obtain ⟨nbrs, a1, a2, a3, a4, a5, a6⟩ := s5 hl0
          have hsame := r5 hnot
          exact ⟨nbrs, a1, a2, a3, by rw [hsame]; exact a4, fun n hn => by rw [hsame]; exact a5 n hn,
            fun n h1 h2 => by rw [hsame]; exact a6 n h1 h2⟩
        · exact r4 h0
      · intro h0 n
        have hl0 : l ≠ 0 := by intro e; apply h0; rw [e]; exact List.mem_cons_self
        have hnot : 0 ∉ ls := fun h => h0 (List.mem_cons_of_mem _ h)
        rw [r5 hnot n]
        exact s2 0 (fun e => hl0 e.symm) n

end step

/-! ### greedy descent stays inside a set closed under every layer's adjacency -/

theorem greedyPass_in {sp : Space V D} {ix : Index V} {q : V} {P : Nat → Prop} :
    ∀ (ns : List Nat) (cur : D × Nat) (ch : Bool) (r : (D × Nat) × Bool),
      (∀ n, n ∈ ns → P n) → P cur.2 → greedyPass sp ix q ns cur ch = .ok r → P r.1.2
  | [], cur, ch, r, _, h, hr => by simp only [greedyPass, Except.ok.injEq] at hr; subst hr; exact h
  | n :: ns, cur, ch, r, hP, h, hr => by
    unfold greedyPass at hr
    cases hg : getVec ix n with
    | error e => rw [hg] at hr; simp at hr
    | ok v =>
      rw [hg] at hr
      simp only at hr
      have hPns : ∀ m, m ∈ ns → P m := fun m hm => hP m (List.mem_cons_of_mem _ hm)
      split at hr
      · exact greedyPass_in ns _ _ r hPns (hP n List.mem_cons_self) hr
      · exact greedyPass_in ns _ _ r hPns h hr

theorem greedyLayer_in {sp : Space V D} {ix : Index V} {q : V} {P : Nat → Prop} (layer : Nat)
    (hcl : ∀ i, P i → ∀ j, j ∈ getNbrs ix layer i → P j) :
    ∀ (fuel : Nat) (cur r : D × Nat), P cur.2 → greedyLayer sp ix q layer fuel cur = .ok r → P r.2
  | 0, _, _, _, hr => by simp [greedyLayer] at hr
  | fuel + 1, cur, r, h, hr => by
    unfold greedyLayer at hr
    cases hp : greedyPass sp ix q (getNbrs ix layer cur.2) cur false with
    | error e => rw [hp] at hr; simp at hr
    | ok res =>
      obtain ⟨cur', ch⟩ := res
      rw [hp] at hr
      have h' := greedyPass_in _ _ _ _ (hcl cur.2 h) h hp
      cases ch with
      | true => exact greedyLayer_in layer hcl fuel cur' r h' hr
      | false => simp only [Except.ok.injEq] at hr; subst hr; exact h'

theorem greedyDown_in {sp : Space V D} {ix : Index V} {q : V} {P : Nat → Prop}
    (hcl : ∀ l i, P i → ∀ j, j ∈ getNbrs ix l i → P j) :
    ∀ (ls : List Nat) (cur r : D × Nat), P cur.2 → greedyDown sp ix q ls cur = .ok r → P r.2
  | [], cur, r, h, hr => by simp only [greedyDown, Except.ok.injEq] at hr; subst hr; exact h
  | l :: ls, cur, r, h, hr => by
    unfold greedyDown at hr
    cases hg : greedyLayer sp ix q l (ix.vecs.length + 1) cur with
    | error e => rw [hg] at hr; simp at hr
    | ok cur' =>
      rw [hg] at hr
      exact greedyDown_in hcl ls cur' r (greedyLayer_in l (hcl l) _ _ _ h hg) hr

theorem layersDown_zero_nodup (hi : Nat) : (layersDown hi 0).Nodup ∧ 0 ∈ layersDown hi 0 := by
  unfold layersDown
  constructor
  · show List.Pairwise (· ≠ ·) _
    rw [List.pairwise_reverse, List.pairwise_map]
    exact List.pairwise_lt_range.imp (fun h => by simp only [Nat.add_zero, ne_eq]; omega)
  · rw [List.mem_reverse, List.mem_map]
    exact ⟨0, List.mem_range.mpr (by omega), rfl⟩

theorem mem_storedIds_cons (ix : Index V) (id : Nat) (v : V) (j : Nat) :
    j ∈ storedIds ({ ix with vecs := (id, v) :: ix.vecs } : Index V) ↔ (j = id ∨ j ∈ storedIds ix) := by
  rw [mem_storedIds, mem_storedIds]
  simp only [List.lookup_cons]
  by_cases h : j = id
  · subst h; simp
  · have : (j == id) = false := by simpa using h
    simp [this, h]

theorem storedIds_congr {a b : Index V} (h : a.vecs = b.vecs) : storedIds a = storedIds b := by
  unfold storedIds; rw [h]

/-- assembling `Conn` for the index after the layer loop -/
theorem conn_of_layers {ix ix1 : Index V} {id : Nat} {v : V} (hc : Conn ix) (hid : id ∉ storedIds ix)
    (hg : G ix id v ix1) (h0 : L0New ix id ix1)
    (hent : match ix1.entry with | some e => e = id ∨ e ∈ storedIds ix | none => False) :
    Conn ix1 ∧ ∀ j, j ∈ storedIds ix1 ↔ (j = id ∨ j ∈ storedIds ix) := by
  have hst : ∀ j, j ∈ storedIds ix1 ↔ (j = id ∨ j ∈ storedIds ix) := by
    intro j
    have : storedIds ix1 = storedIds ({ ix with vecs := (id, v) :: ix.vecs } : Index V) :=
      storedIds_congr hg.vecs
    rw [this]; exact mem_storedIds_cons ix id v j
  obtain ⟨nbrs, b1, b2, b3, b4, b5, b6⟩ := h0
  have hidn : id ∉ nbrs := fun h => hid (b3 id h)
  -- every old list is contained in the new one
  have hmono : ∀ i j, j ∈ getNbrs ix 0 i → j ∈ getNbrs ix1 0 i := by
    intro i j hj
    have hiU : i ≠ id := by
      intro e; subst e
      exact hid (hc.closedAll 0 j i (hc.sym0 i j hj))
    by_cases hin : i ∈ nbrs
    · rw [b5 i hin]; exact List.mem_append_left _ hj
    · rw [b6 i hiU hin]; exact hj
  refine ⟨⟨?_, ?_, ?_, ?_, ?_, ?_⟩, hst⟩
  · rw [hg.vecs]
    simp only [List.map_cons, List.nodup_cons]
    refine ⟨?_, hc.keys⟩
    intro hin
    apply hid
    unfold storedIds; rw [mem_dedupIds]; exact hin
  · cases he : ix1.entry with
    | none => rw [he] at hent; exact hent.elim
    | some e => rw [he] at hent; simp only; exact (hst e).mpr hent
  · intro l i j hj; exact (hst j).mpr (hg.closed l i j hj)
  · -- symmetry of the base layer
    intro i j hj
    by_cases hi : i = id
    · subst hi
      rw [b4] at hj
      rw [b5 j hj]; exact List.mem_append_right _ (List.mem_singleton.mpr rfl)
    · by_cases hin : i ∈ nbrs
      · rw [b5 i hin] at hj
        rcases List.mem_append.mp hj with hj | hj
        · exact hmono j i (hc.sym0 i j hj)
        · simp only [List.mem_singleton] at hj; subst hj; rw [b4]; exact hin
      · rw [b6 i hi hin] at hj
        exact hmono j i (hc.sym0 i j hj)
  · intro i
    by_cases hi : i = id
    · subst hi; rw [b4]; exact ⟨b2, hidn⟩
    · by_cases hin : i ∈ nbrs
      · rw [b5 i hin]
        have hold := hc.nodup0 i
        have hidold : id ∉ getNbrs ix 0 i := fun h => hid (hc.closedAll 0 i id h)
        constructor
        · rw [List.nodup_append]
          refine ⟨hold.1, by simp, ?_⟩
          intro a ha b hb; simp only [List.mem_singleton] at hb; subst hb
          intro e; subst e; exact hidold ha
        · intro h
          rcases List.mem_append.mp h with h | h
          · exact hold.2 h
          · simp only [List.mem_singleton] at h; exact hi h
      · rw [b6 i hi hin]; exact hc.nodup0 i
  · -- connectivity: old paths survive, the new node hangs on its first neighbour
    obtain ⟨n0, hn0⟩ : ∃ n0, n0 ∈ nbrs := by
      cases nbrs with
      | nil => exact absurd rfl b1
      | cons a _ => exact ⟨a, List.mem_cons_self⟩
    have hn0U := b3 n0 hn0
    have hold : ∀ i j, i ∈ storedIds ix → j ∈ storedIds ix → Reach ix1 0 i j :=
      fun i j hi hj => reach_mono hmono (hc.conn0 i j hi hj)
    have hto : Reach ix1 0 id n0 := Reach.step (by rw [b4]; exact hn0) (Reach.refl _)
    have hfrom : Reach ix1 0 n0 id :=
      Reach.step (by rw [b5 n0 hn0]; exact List.mem_append_right _ (List.mem_singleton.mpr rfl)) (Reach.refl _)
    intro i j hi hj
    rcases (hst i).mp hi with rfl | hi
    · rcases (hst j).mp hj with rfl | hj
      · exact Reach.refl _
      · exact reach_trans hto (hold n0 j hn0U hj)
    · rcases (hst j).mp hj with rfl | hj
      · exact reach_trans (hold i n0 hi hn0U) hfrom
      · exact hold i j hi hj

theorem getNbrs_foldl_setEmpty (id : Nat) : ∀ (ls : List Nat) (a : Index V),
    (∀ l n, getNbrs a l n = []) → ∀ l n, getNbrs (ls.foldl (fun a l => setNbrs a l id []) a) l n = []
  | [], a, h, l, n => h l n
  | x :: xs, a, h, l, n => by
    simp only [List.foldl_cons]
    apply getNbrs_foldl_setEmpty id xs
    intro l' n'
    rw [getNbrs_setNbrs]; split
    · rfl
    · exact h l' n'

theorem foldl_setEmpty_vecs (id : Nat) : ∀ (ls : List Nat) (a : Index V),
    (ls.foldl (fun a l => setNbrs a l id []) a).vecs = a.vecs
  | [], _ => rfl
  | x :: xs, a => by simp only [List.foldl_cons]; rw [foldl_setEmpty_vecs id xs]; rfl

/-- **`insert` preserves the invariant** for a first-time insert while the index holds at most `2m`
    other vectors (so that no adjacency list can exceed `2m` and the truncation branch cannot fire) -/
theorem insert_conn (sp : Space V D) (p : Params) (ix : Index V) (hc : Conn ix) (id : Nat) (v : V)
    (level : Nat) (hid : id ∉ storedIds ix) (hm : (storedIds ix).length ≤ p.m * 2) (hefc : 1 ≤ p.efC)
    (ix' : Index V) (h : insert sp p ix id v level = .ok ix') :
    Conn ix' ∧ ∀ j, j ∈ storedIds ix' ↔ (j = id ∨ j ∈ storedIds ix) := by
  unfold insert at h
  simp only [] at h
  split at h
  next he =>
    simp only [Except.ok.injEq] at h
    have hU := hc.entry_none he
    have hvecs : ix.vecs = [] := by have := hc.entry; rw [he] at this; exact this
    have hempty : ∀ l n, getNbrs ix l n = [] := by
      intro l n
      cases hl : getNbrs ix l n with
      | nil => rfl
      | cons j js =>
        have := hc.closedAll l n j (by rw [hl]; exact List.mem_cons_self)
        rw [hU] at this; cases this
    have hget : ∀ l n, getNbrs ix' l n = [] := by
      intro l n
      rw [← h]
      show getNbrs (List.foldl (fun a l => setNbrs a l id []) ({ ix with vecs := (id, v) :: ix.vecs } : Index V)
        (List.range (level + 1))) l n = []
      exact getNbrs_foldl_setEmpty id _ ({ ix with vecs := (id, v) :: ix.vecs } : Index V)
        (fun l' n' => hempty l' n') l n
    have hv' : ix'.vecs = [(id, v)] := by
      rw [← h]
      show (List.foldl (fun a l => setNbrs a l id []) ({ ix with vecs := (id, v) :: ix.vecs } : Index V)
        (List.range (level + 1))).vecs = _
      rw [foldl_setEmpty_vecs]; simp [hvecs]
    have hst : ∀ j, j ∈ storedIds ix' ↔ (j = id ∨ j ∈ storedIds ix) := by
      intro j
      rw [mem_storedIds, hv', hU]
      simp only [List.lookup_cons, List.not_mem_nil, or_false]
      by_cases hj : j = id
      · subst hj; simp
      · have : (j == id) = false := by simpa using hj
        simp [this, hj]
    have hent' : ix'.entry = some id := by rw [← h]
    refine ⟨⟨?_, ?_, ?_, ?_, ?_, ?_⟩, hst⟩
    · rw [hv']; simp
    · rw [hent']; simp only; exact (hst id).mpr (Or.inl rfl)
    · intro l i j hj; rw [hget] at hj; cases hj
    · intro i j hj; rw [hget] at hj; cases hj
    · intro i; rw [hget]; exact ⟨List.nodup_nil, fun h => by cases h⟩
    · intro i j hi hj
      rcases (hst i).mp hi with rfl | hi
      · rcases (hst j).mp hj with rfl | hj
        · exact Reach.refl _
        · rw [hU] at hj; cases hj
      · rw [hU] at hi; cases hi
  next e he =>
    -- the index with the new vector but the old graph
    have heU : e ∈ storedIds ix := by have := hc.entry; rw [he] at this; exact this
    split at h
    next err hgv => cases h
    next ve hgv =>
      split at h
      next err hd => cases h
      next cur hd =>
        have hcurU : cur.2 ∈ storedIds ix :=
          greedyDown_in (P := (· ∈ storedIds ix)) (ix := ({ ix with vecs := (id, v) :: ix.vecs } : Index V))
            (fun l i _ j hj => hc.closedAll l i j hj) _ _ _ heU hd
        split at h
        next err hil => cases h
        next ix1 hil =>
          have hg0 : G ix id v ({ ix with vecs := (id, v) :: ix.vecs } : Index V) :=
            ⟨rfl, fun l i j hj => Or.inr (hc.closedAll l i j hj)⟩
          obtain ⟨hnd, h0in⟩ := layersDown_zero_nodup level
          obtain ⟨r1, r2, _, r4, _⟩ := insertLayers_inv (sp := sp) hc hid hm hefc (layersDown level 0) _ ix1
            [cur.2] hnd hg0 (fun _ _ _ => rfl) (by simp)
            (by intro e' he'; simp only [List.mem_singleton] at he'; subst he'; exact hcurU) hil
          have hl0 := r4 h0in
          have hent1 : ix1.entry = some e := r2.trans he
          split at h
          · simp only [Except.ok.injEq] at h
            subst h
            -- only `entry` / `maxLayer` differ from `ix1`
            have hg' : G ix id v ({ ix1 with maxLayer := level, entry := some id } : Index V) :=
              ⟨r1.vecs, r1.closed⟩
            exact conn_of_layers hc hid hg' hl0 (by simp)
          · simp only [Except.ok.injEq] at h
            subst h
            exact conn_of_layers hc hid r1 hl0 (by rw [hent1]; exact Or.inr heU)

theorem conn_empty : Conn (Index.empty : Index V) := by
  refine ⟨List.nodup_nil, rfl, ?_, ?_, ?_, ?_⟩
  · intro l i j hj; simp [getNbrs, Index.empty] at hj
  · intro i j hj; simp [getNbrs, Index.empty] at hj
  · intro i; simp [getNbrs, Index.empty]
  · intro i j hi; simp [storedIds, Index.empty, dedupIds] at hi

end Nervus.Hnsw
