/-
  The write side (Model/WriteOps.lean): the first error of any stage is the statement's error
  (C22), and under limits a write statement does what the unlimited run does or fails with a limit
  error (C33) — by induction over the write plan, every stage by the tree theorems of the read
  operators.   core-only.
-/
import Nervus.Model.WriteOps
import Nervus.Proofs.Limits
namespace Nervus.PlanOps

section
variable {χ ρ ν ε κ α ω τ : Type} [DecidableEq κ]

/-! ### errors are forwarded (C22) -/

theorem execW_stage_input_error (S : Sem χ ρ ν ε κ α) (Q : Quirks) (L : LimEnv ε) (W : WSem ω ρ ε τ)
    (site : Site) (env : ρ) (op : Plan χ ρ ε α → Plan χ ρ ε α) (inp : WPlan χ ρ ε α ω) (t : τ) (e : ε)
    (h : execW S Q L W (.left site) env inp t = .error e) :
    execW S Q L W site env (.stage op inp) t = .error e := by
  simp only [execW, h]

theorem execW_write_input_error (S : Sem χ ρ ν ε κ α) (Q : Quirks) (L : LimEnv ε) (W : WSem ω ρ ε τ)
    (site : Site) (env : ρ) (w : ω) (inp : WPlan χ ρ ε α ω) (t : τ) (e : ε)
    (h : execW S Q L W (.left site) env inp t = .error e) :
    execW S Q L W site env (.write w inp) t = .error e := by
  simp only [execW, h]

theorem execW_foreach_input_error (S : Sem χ ρ ν ε κ α) (Q : Quirks) (L : LimEnv ε) (W : WSem ω ρ ε τ)
    (site : Site) (env : ρ) (list : χ) (var : String) (sub inp : WPlan χ ρ ε α ω) (t : τ) (e : ε)
    (h : execW S Q L W (.left site) env inp t = .error e) :
    execW S Q L W site env (.foreach list var sub inp) t = .error e := by
  simp only [execW, h]

/-- a read clause of a write statement that meets an error fails the statement with that error -/
theorem execW_stage_error (S : Sem χ ρ ν ε κ α) (Q : Quirks) (L : LimEnv ε) (W : WSem ω ρ ε τ)
    (site : Site) (env : ρ) (op : Plan χ ρ ε α → Plan χ ρ ε α) (inp : WPlan χ ρ ε α ω) (t t1 : τ)
    (n : Nat) (rows : List ρ) (e : ε)
    (h : execW S Q L W (.left site) env inp t = .ok (n, rows, t1))
    (he : collect (runL S Q L (.inner site) env (op (.scan rows))) = .error e) :
    execW S Q L W site env (.stage op inp) t = .error e := by
  simp only [execW, h, he]

/-- `Ok` of a staged read clause: the stage below answered `Ok rows` and the clause, run over those
    rows, answered `Ok` — to which `never_swallows` applies: nothing it consumed was an `Err` -/
theorem execW_stage_ok_inv (S : Sem χ ρ ν ε κ α) (Q : Quirks) (L : LimEnv ε) (W : WSem ω ρ ε τ)
    (site : Site) (env : ρ) (op : Plan χ ρ ε α → Plan χ ρ ε α) (inp : WPlan χ ρ ε α ω) (t t1 : τ)
    (n : Nat) (out : List ρ)
    (h : execW S Q L W site env (.stage op inp) t = .ok (n, out, t1)) :
    ∃ rows, execW S Q L W (.left site) env inp t = .ok (n, rows, t1) ∧
      collect (runL S Q L (.inner site) env (op (.scan rows))) = .ok out := by
  simp only [execW] at h
  cases hi : execW S Q L W (.left site) env inp t with
  | error e => rw [hi] at h; cases h
  | ok r =>
    obtain ⟨n', rows, t'⟩ := r
    rw [hi] at h
    simp only at h
    cases hc : collect (runL S Q L (.inner site) env (op (.scan rows))) with
    | error e => rw [hc] at h; cases h
    | ok out' =>
      rw [hc] at h
      simp only [Except.ok.injEq, Prod.mk.injEq] at h
      obtain ⟨rfl, rfl, rfl⟩ := h
      exact ⟨rows, rfl, hc⟩

omit [DecidableEq κ] in
/-- a write clause stops at the first row whose write fails -/
theorem writeRows_error (W : WSem ω ρ ε τ) (w : ω) (pre : List ρ) (r : ρ) (post : List ρ) (n : Nat) (t : τ)
    (m : Nat) (t' : τ) (e : ε)
    (hpre : writeRows W w pre n t = .ok (m, t')) (hr : W.apply w r t' = .error e) :
    writeRows W w (pre ++ r :: post) n t = .error e := by
  induction pre generalizing n t with
  | nil =>
    simp only [writeRows, Except.ok.injEq, Prod.mk.injEq] at hpre
    obtain ⟨rfl, rfl⟩ := hpre
    simp only [List.nil_append, writeRows, hr]
  | cons x xs ih =>
    simp only [List.cons_append, writeRows] at hpre ⊢
    cases hx : W.apply w x t with
    | error e0 => rw [hx] at hpre; cases hpre
    | ok kt =>
      obtain ⟨k, t2⟩ := kt
      rw [hx] at hpre
      exact ih _ _ hpre

/-! ### complete or error (C33) -/

omit [DecidableEq κ] in
theorem foreachLoop_lim (isLimit : ε → Bool) (S : Sem χ ρ ν ε κ α) (W : WSem ω ρ ε τ)
    (coll : String → Nat → Option ε) (hS : S.LimitLawful coll isLimit) (list : χ) (var : String) (env : ρ)
    (hlist : ∀ r, S.park coll list env r = none)
    (runL' runU : Nat → Nat → ρ → τ → Except ε (Nat × List ρ × τ))
    (hrun : ∀ i j r t, runL' i j r t = runU i j r t ∨ ∃ e, runL' i j r t = .error e ∧ isLimit e = true)
    (rows : List ρ) (t : τ) :
    foreachLoop S W coll list var env runL' rows t = foreachLoop S W (fun _ _ => none) list var env runU rows t ∨
      ∃ e, foreachLoop S W coll list var env runL' rows t = .error e ∧ isLimit e = true := by
  unfold foreachLoop
  apply foldlM_lim isLimit
  intro acc ir
  rcases hS.eval list env ir.2 (hlist ir.2) with hev | ⟨e, he, hl⟩
  · rw [hev]
    cases S.eval (fun _ _ => none) list env ir.2 with
    | error e => left; rfl
    | ok v =>
      simp only
      cases S.listView v with
      | null => left; rfl
      | scalar => left; rfl
      | list xs =>
        simp only
        apply foldlM_lim isLimit
        intro a jx
        rcases hrun ir.1 jx.1 (S.set ir.2 var jx.2) a.2 with hs | ⟨e, he, hl⟩
        · left; rw [hs]
        · right; rw [he]; exact ⟨e, rfl, hl⟩
  · right; rw [he]; exact ⟨e, rfl, hl⟩

/-- **C33 for write statements**: under any lawful limit environment a write statement does exactly
    what the unlimited run does (same modification count, rows and graph state), or fails with a
    limit error; the list expressions of its FOREACH clauses are assumed not to park failures
    (no `EXISTS { }` inside them: `execute_foreach` never asks for a parked failure). -/
theorem execW_lim (isLimit : ε → Bool) (S : Sem χ ρ ν ε κ α) (Q : Quirks) (hq : Q.forwardsErr)
    (L : LimEnv ε) (hL : L.Lawful isLimit) (hS : S.LimitLawful L.coll isLimit) (W : WSem ω ρ ε τ)
    (wp : WPlan χ ρ ε α ω)
    (hnp : ∀ e ∈ wp.lists, ∀ env r, S.park L.coll e env r = none) :
    ∀ (site : Site) (env : ρ) (t : τ),
      execW S Q L W site env wp t = execW S Q LimEnv.unlimited W site env wp t ∨
      ∃ e, execW S Q L W site env wp t = .error e ∧ isLimit e = true := by
  have hrun : ∀ (p : Plan χ ρ ε α) (site : Site) (env : ρ),
      collect (runL S Q L site env p) = collect (runL S Q LimEnv.unlimited site env p) ∨
      ∃ e, collect (runL S Q L site env p) = .error e ∧ isLimit e = true :=
    fun p site env => (runL_limRel isLimit S Q hq L hL hS p site env).collect isLimit
  induction wp with
  | read p =>
    intro site env t
    simp only [execW]
    rcases hrun p site env with h | ⟨e, he, hl⟩
    · left; rw [h]
    · right; rw [he]; exact ⟨e, rfl, hl⟩
  | stage op inp ih =>
    intro site env t
    simp only [execW]
    rcases ih hnp (.left site) env t with h | ⟨e, he, hl⟩
    · rw [h]
      cases execW S Q LimEnv.unlimited W (.left site) env inp t with
      | error e => left; rfl
      | ok r =>
        obtain ⟨n, rows, t1⟩ := r
        simp only
        rcases hrun (op (.scan rows)) (.inner site) env with h2 | ⟨e, he, hl⟩
        · left; rw [h2]
        · right; rw [he]; exact ⟨e, rfl, hl⟩
    · right; rw [he]; exact ⟨e, rfl, hl⟩
  | stage2 op l r ihl ihr =>
    intro site env t
    simp only [execW]
    have hnl : ∀ e ∈ l.lists, ∀ env r, S.park L.coll e env r = none :=
      fun e he => hnp e (by simp [WPlan.lists, he])
    have hnr : ∀ e ∈ r.lists, ∀ env r, S.park L.coll e env r = none :=
      fun e he => hnp e (by simp [WPlan.lists, he])
    rcases ihl hnl (.left site) env t with h | ⟨e, he, hl⟩
    · rw [h]
      cases execW S Q LimEnv.unlimited W (.left site) env l t with
      | error e => left; rfl
      | ok r1 =>
        obtain ⟨n, lrows, t1⟩ := r1
        simp only
        rcases ihr hnr (.right site) env t1 with h2 | ⟨e, he, hl⟩
        · rw [h2]
          cases execW S Q LimEnv.unlimited W (.right site) env r t1 with
          | error e => left; rfl
          | ok r2 =>
            obtain ⟨m, rrows, t2⟩ := r2
            simp only
            rcases hrun (op (.scan lrows) (.scan rrows)) (.inner site) env with h3 | ⟨e, he, hl⟩
            · left; rw [h3]
            · right; rw [he]; exact ⟨e, rfl, hl⟩
        · right; rw [he]; exact ⟨e, rfl, hl⟩
    · right; rw [he]; exact ⟨e, rfl, hl⟩
  | write w inp ih =>
    intro site env t
    simp only [execW]
    rcases ih hnp (.left site) env t with h | ⟨e, he, hl⟩
    · rw [h]
      cases execW S Q LimEnv.unlimited W (.left site) env inp t with
      | error e => left; rfl
      | ok r =>
        obtain ⟨n, rows, t1⟩ := r
        simp only
        rcases hrun (.scan rows) (.inner site) env with h2 | ⟨e, he, hl⟩
        · left; rw [h2]
        · right; rw [he]; exact ⟨e, rfl, hl⟩
    · right; rw [he]; exact ⟨e, rfl, hl⟩
  | foreach list var sub inp ihs ihi =>
    intro site env t
    simp only [execW]
    have hns : ∀ e ∈ sub.lists, ∀ env r, S.park L.coll e env r = none :=
      fun e he => hnp e (by simp [WPlan.lists, he])
    have hni : ∀ e ∈ inp.lists, ∀ env r, S.park L.coll e env r = none :=
      fun e he => hnp e (by simp [WPlan.lists, he])
    have hlist : ∀ env r, S.park L.coll list env r = none := hnp list (by simp [WPlan.lists])
    rcases ihi hni (.left site) env t with h | ⟨e, he, hl⟩
    · rw [h]
      cases execW S Q LimEnv.unlimited W (.left site) env inp t with
      | error e => left; rfl
      | ok r =>
        obtain ⟨n, rows, t1⟩ := r
        simp only
        rcases hrun (.scan rows) (.inner site) env with h2 | ⟨e, he, hl⟩
        · rw [h2]
          cases collect (runL S Q LimEnv.unlimited (.inner site) env (.scan rows)) with
          | error e => left; rfl
          | ok rows' =>
            simp only
            rcases foreachLoop_lim isLimit S W L.coll hS list var env (hlist env)
              (fun i j row' t' => execW S Q L W (.exec j (.exec i site)) (S.bind env row') sub t')
              (fun i j row' t' => execW S Q LimEnv.unlimited W (.exec j (.exec i site)) (S.bind env row') sub t')
              (fun i j r t' => ihs hns _ _ _) rows' t1 with hl | ⟨e, he, hl⟩
            · left; simp only [LimEnv.unlimited] at hl ⊢; rw [hl]
            · right; rw [he]; exact ⟨e, rfl, hl⟩
        · right; rw [he]; exact ⟨e, rfl, hl⟩
    · right; rw [he]; exact ⟨e, rfl, hl⟩

end

end Nervus.PlanOps
