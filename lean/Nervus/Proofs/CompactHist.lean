/-
  Proofs/CompactHist.lean — compaction at arbitrary positions of a history (C05, history level):
  an engine that compacts and an engine that never does, fed the same transactions, answer every read
  alike, as long as every compaction starts from a `compactSafe` state with fresh node keys and no
  transaction removes a property whose value sits in the store.
-/
import Nervus.Proofs.PublishRun
import Nervus.Proofs.IdEq
import Nervus.Proofs.EngineCompactE
namespace Nervus.Storage
open Nervus.GraphSpec (TxOp Op)
open Nervus.StorageTriggers (storeHasN storeHasE)

/-! ### properties after one more run -/

def pushNProp (r : Run) (n k : Nat) (o : Option PV) : Option PV :=
  if r.nDel.contains (n, k) then none
  else match r.nprops.lookup (n, k) with
    | some v => some v
    | none => o

def pushEProp (r : Run) (e : Edge) (k : Nat) (o : Option PV) : Option PV :=
  if r.eDel.contains (e, k) then none
  else match r.eprops.lookup (e, k) with
    | some v => some v
    | none => o

theorem store_clear (st : Store) (key : SKey) (h : st.any (·.1 == key) = false) :
    st.lookup key = none ∧ st.reverse.lookup key = none := by
  have hne : ∀ p ∈ st, p.1 ≠ key := by
    intro p hp heq
    have : st.any (·.1 == key) = true := List.any_eq_true.mpr ⟨p, hp, by simp [heq]⟩
    rw [h] at this; cases this
  exact ⟨lookup_eq_none_of_not_mem_keys _ _ hne,
    lookup_eq_none_of_not_mem_keys _ _ (fun p hp => hne p (List.mem_reverse.mp hp))⟩

theorem visibleStore_get_none (x : Engine) (key : SKey) (h : x.store.lookup key = none) :
    x.visibleStore.get key = none := by
  unfold Engine.visibleStore Store.get
  split
  · rfl
  · split
    · exact h
    · rfl

theorem nodeProp_cons (x x' : Engine) (r : Run) (hr : x'.runs = r :: x.runs) (hst : x'.store = x.store)
    (hroot : x'.propsRoot = x.propsRoot) (hsr : x'.storeRoot = x.storeRoot)
    (hdel : x.propsRoot = 0 ∨ ∀ key ∈ r.nDel, storeHasN x key = false) (n k : Nat) :
    x'.nodeProp n k = pushNProp r n k (x.nodeProp n k) := by
  unfold Engine.nodeProp pushNProp
  rw [hr, visibleStore_congr hst hroot hsr]
  simp only [npropRuns]
  by_cases hd : r.nDel.contains (n, k) = true
  · simp only [hd, if_true]
    rcases hdel with h0 | hc
    · rw [visibleStore_noRoot h0]; rfl
    · have hm : (n, k) ∈ r.nDel := by simpa using hd
      exact visibleStore_get_none x _ (store_clear x.store (.node n k) (hc (n, k) hm)).1
  · simp only [hd, Bool.false_eq_true, if_false]
    cases r.nprops.lookup (n, k) <;> rfl

theorem edgeProp_cons (x x' : Engine) (r : Run) (hr : x'.runs = r :: x.runs) (hst : x'.store = x.store)
    (hroot : x'.propsRoot = x.propsRoot) (hsr : x'.storeRoot = x.storeRoot)
    (hdel : x.propsRoot = 0 ∨ ∀ key ∈ r.eDel, storeHasE x key = false) (e : Edge) (k : Nat) :
    x'.edgeProp e k = pushEProp r e k (x.edgeProp e k) := by
  unfold Engine.edgeProp pushEProp
  rw [hr, visibleStore_congr hst hroot hsr]
  simp only [epropRuns]
  by_cases hd : r.eDel.contains (e, k) = true
  · simp only [hd, if_true]
    rcases hdel with h0 | hc
    · rw [visibleStore_noRoot h0]; rfl
    · have hm : (e, k) ∈ r.eDel := by simpa using hd
      exact visibleStore_get_none x _ (store_clear x.store (.edge e k) (hc (e, k) hm)).1
  · simp only [hd, Bool.false_eq_true, if_false]
    cases r.eprops.lookup (e, k) <;> rfl

theorem isTombNode_cons' (r : Run) (rs : List Run) (n : Nat) :
    isTombNode (r :: rs) n = (r.tombNodes.contains n || isTombNode rs n) := by
  simp [isTombNode]

/-! ### the relation between the two engines -/

/-- every read interface answers alike (neighbour lists as multisets; the whole property maps follow
    from the single-key reads: `nodeProps_lookup`, `edgeProps_lookup`) -/
structure Eqv (c : Cfg) (s u : Engine) : Prop where
  idmap : IdEq s.idmap u.idmap
  interner : s.interner = u.interner
  vecs : s.vecs = u.vecs
  tomb : ∀ n, isTombNode s.runs n = isTombNode u.runs n
  out : ∀ n rel, PermOpt (s.neighbors n rel) (u.neighbors n rel)
  inc : ∀ n rel, PermOpt (s.incoming c n rel) (u.incoming c n rel)
  nprop : ∀ n k, s.nodeProp n k = u.nodeProp n k
  eprop : ∀ e k, s.edgeProp e k = u.edgeProp e k

theorem Eqv.refl (c : Cfg) (s : Engine) : Eqv c s s :=
  ⟨IdEq.refl _, rfl, rfl, fun _ => rfl, fun _ _ => PermOpt.refl _, fun _ _ => PermOpt.refl _, fun _ _ => rfl,
   fun _ _ => rfl⟩

/-- the part of the state the reads of `Eqv` look at, besides the idmap -/
structure RFrame (s s' : Engine) : Prop where
  runs : s'.runs = s.runs
  segs : s'.segs = s.segs
  store : s'.store = s.store
  root : s'.propsRoot = s.propsRoot
  storeRoot : s'.storeRoot = s.storeRoot

theorem RFrame.refl (s : Engine) : RFrame s s := ⟨rfl, rfl, rfl, rfl, rfl⟩
theorem RFrame.trans {a b c : Engine} (h1 : RFrame a b) (h2 : RFrame b c) : RFrame a c :=
  ⟨h2.runs.trans h1.runs, h2.segs.trans h1.segs, h2.store.trans h1.store, h2.root.trans h1.root,
   h2.storeRoot.trans h1.storeRoot⟩

theorem Eqv.congr {c : Cfg} {s u s1 u1 : Engine} (h : Eqv c s u) (fs : RFrame s s1) (fu : RFrame u u1)
    (hm : IdEq s1.idmap u1.idmap) (hi : s1.interner = u1.interner) (hv : s1.vecs = u1.vecs) : Eqv c s1 u1 := by
  refine ⟨hm, hi, hv, ?_, ?_, ?_, ?_, ?_⟩
  · intro n; rw [fs.runs, fu.runs]; exact h.tomb n
  · intro n rel; rw [neighbors_eq]; unfold Engine.neighborsFlushed; rw [fs.runs, fs.segs, fu.runs, fu.segs]; exact h.out n rel
  · intro n rel; rw [incoming_eq]; unfold Engine.incomingFlushed; rw [fs.runs, fs.segs, fu.runs, fu.segs]; exact h.inc n rel
  · intro n k; unfold Engine.nodeProp
    rw [fs.runs, fu.runs, visibleStore_congr fs.store fs.root fs.storeRoot, visibleStore_congr fu.store fu.root fu.storeRoot]
    exact h.nprop n k
  · intro e k; unfold Engine.edgeProp
    rw [fs.runs, fu.runs, visibleStore_congr fs.store fs.root fs.storeRoot, visibleStore_congr fu.store fu.root fu.storeRoot]
    exact h.eprop e k

/-! ### staging a transaction on the two engines -/

/-- the same staged transaction, up to its txid -/
structure TCor (t t' : Txn) : Prop where
  created : t.created = t'.created
  addL : t.addL = t'.addL
  delL : t.delL = t'.delL
  mt : t.mt = t'.mt
  vecs : t.vecs = t'.vecs

theorem gocl_frame (s : Engine) (l : Nat) :
    RFrame s (s.getOrCreateLabel l).1 ∧ (s.getOrCreateLabel l).1.idmap = s.idmap ∧
    (s.getOrCreateLabel l).1.vecs = s.vecs := by
  unfold Engine.getOrCreateLabel
  split <;> exact ⟨⟨rfl, rfl, rfl, rfl, rfl⟩, rfl, rfl⟩

theorem gocl_cor (s u : Engine) (l : Nat) (h : s.interner = u.interner) :
    (s.getOrCreateLabel l).1.interner = (u.getOrCreateLabel l).1.interner ∧
    (s.getOrCreateLabel l).2 = (u.getOrCreateLabel l).2 := by
  unfold Engine.getOrCreateLabel
  rw [h]
  cases u.interner.getId l <;> exact ⟨by simp [h], by simp [h]⟩

theorem intern_frame (s : Engine) (lab : Option Nat) :
    RFrame s (internLabel s lab).1 ∧ (internLabel s lab).1.idmap = s.idmap ∧ (internLabel s lab).1.vecs = s.vecs := by
  cases lab with
  | none => exact ⟨RFrame.refl s, rfl, rfl⟩
  | some l => exact gocl_frame s l

theorem intern_cor (s u : Engine) (lab : Option Nat) (h : s.interner = u.interner) :
    (internLabel s lab).1.interner = (internLabel u lab).1.interner ∧ (internLabel s lab).2 = (internLabel u lab).2 := by
  cases lab with
  | none => exact ⟨h, rfl⟩
  | some l => exact gocl_cor s u l h

theorem createNode_cor (E E' : Engine) (t t' : Txn) (x L : Nat) (hm : IdEq E.idmap E'.idmap) (ht : TCor t t') :
    (t.createNode E x L = none ∧ t'.createNode E' x L = none) ∨
    ∃ r r', t.createNode E x L = some r ∧ t'.createNode E' x L = some r' ∧ TCor r.1 r'.1 := by
  unfold Txn.createNode Engine.lookupInternal IdMap.nextId
  rw [hm.lookup x, hm.i2e, ht.created]
  by_cases h1 : (E'.idmap.lookup x).isSome = true
  · left; simp [h1]
  · by_cases h2 : t'.created.any (·.1 == x) = true
    · left; simp [h1, h2]
    · right
      simp only [h1, h2, Bool.false_eq_true, if_false]
      exact ⟨_, _, rfl, rfl, ⟨by simp [ht.created], ht.addL, ht.delL, ht.mt, ht.vecs⟩⟩

/-- one staged write on both engines -/
theorem stepTx_cor (c : Cfg) (st su : Engine × Txn) (op : TxOp)
    (hi : st.1.interner = su.1.interner) (hm : IdEq st.1.idmap su.1.idmap) (hv : st.1.vecs = su.1.vecs)
    (ht : TCor st.2 su.2) :
    RFrame st.1 (stepTx c st op).1 ∧ RFrame su.1 (stepTx c su op).1 ∧
    (stepTx c st op).1.interner = (stepTx c su op).1.interner ∧
    IdEq (stepTx c st op).1.idmap (stepTx c su op).1.idmap ∧
    (stepTx c st op).1.vecs = (stepTx c su op).1.vecs ∧
    TCor (stepTx c st op).2 (stepTx c su op).2 := by
  have G : ∀ l, RFrame st.1 (st.1.getOrCreateLabel l).1 ∧ RFrame su.1 (su.1.getOrCreateLabel l).1 ∧
      (st.1.getOrCreateLabel l).1.interner = (su.1.getOrCreateLabel l).1.interner ∧
      IdEq (st.1.getOrCreateLabel l).1.idmap (su.1.getOrCreateLabel l).1.idmap ∧
      (st.1.getOrCreateLabel l).1.vecs = (su.1.getOrCreateLabel l).1.vecs ∧
      (st.1.getOrCreateLabel l).2 = (su.1.getOrCreateLabel l).2 := by
    intro l
    obtain ⟨f1, m1, v1⟩ := gocl_frame st.1 l
    obtain ⟨f2, m2, v2⟩ := gocl_frame su.1 l
    obtain ⟨c1, c2⟩ := gocl_cor st.1 su.1 l hi
    exact ⟨f1, f2, c1, by rw [m1, m2]; exact hm, by rw [v1, v2, hv], c2⟩
  cases op with
  | node x lab =>
    obtain ⟨f1, m1, v1⟩ := intern_frame st.1 lab
    obtain ⟨f2, m2, v2⟩ := intern_frame su.1 lab
    obtain ⟨c1, c2⟩ := intern_cor st.1 su.1 lab hi
    have hm' : IdEq (internLabel st.1 lab).1.idmap (internLabel su.1 lab).1.idmap := by rw [m1, m2]; exact hm
    have hv' : (internLabel st.1 lab).1.vecs = (internLabel su.1 lab).1.vecs := by rw [v1, v2, hv]
    simp only [stepTx]
    rw [← c2]
    rcases createNode_cor (internLabel st.1 lab).1 (internLabel su.1 lab).1 st.2 su.2 x (internLabel st.1 lab).2 hm' ht with
      ⟨h1, h2⟩ | ⟨r, r', h1, h2, hr⟩
    · rw [h1, h2]; exact ⟨f1, f2, c1, hm', hv', ht⟩
    · rw [h1, h2]; exact ⟨f1, f2, c1, hm', hv', hr⟩
  | labelAdd n l =>
    obtain ⟨f1, f2, c1, c2, c3, c4⟩ := G l
    refine ⟨f1, f2, c1, c2, c3, ?_⟩
    show TCor (st.2.addNodeLabel n _) (su.2.addNodeLabel n _)
    rw [c4]; exact ⟨ht.created, by simp [Txn.addNodeLabel, ht.addL], ht.delL, ht.mt, ht.vecs⟩
  | labelDel n l =>
    obtain ⟨f1, f2, c1, c2, c3, c4⟩ := G l
    refine ⟨f1, f2, c1, c2, c3, ?_⟩
    show TCor (st.2.removeNodeLabel n _) (su.2.removeNodeLabel n _)
    rw [c4]; exact ⟨ht.created, ht.addL, by simp [Txn.removeNodeLabel, ht.delL], ht.mt, ht.vecs⟩
  | edge a l b =>
    obtain ⟨f1, f2, c1, c2, c3, c4⟩ := G l
    refine ⟨f1, f2, c1, c2, c3, ?_⟩
    show TCor (st.2.createEdge _) (su.2.createEdge _)
    rw [c4]; exact ⟨ht.created, ht.addL, ht.delL, by simp [Txn.createEdge, ht.mt], ht.vecs⟩
  | tombNode n =>
    exact ⟨RFrame.refl _, RFrame.refl _, hi, hm, hv,
      ⟨ht.created, ht.addL, ht.delL, by simp [stepTx, Txn.tombstoneNode, ht.mt], ht.vecs⟩⟩
  | tombEdge a l b =>
    obtain ⟨f1, f2, c1, c2, c3, c4⟩ := G l
    refine ⟨f1, f2, c1, c2, c3, ?_⟩
    show TCor (st.2.tombstoneEdge _) (su.2.tombstoneEdge _)
    rw [c4]; exact ⟨ht.created, ht.addL, ht.delL, by simp [Txn.tombstoneEdge, ht.mt], ht.vecs⟩
  | nprop n k v =>
    exact ⟨RFrame.refl _, RFrame.refl _, hi, hm, hv,
      ⟨ht.created, ht.addL, ht.delL, by simp [stepTx, Txn.setNodeProp, ht.mt], ht.vecs⟩⟩
  | npropDel n k =>
    exact ⟨RFrame.refl _, RFrame.refl _, hi, hm, hv,
      ⟨ht.created, ht.addL, ht.delL, by simp [stepTx, Txn.removeNodeProp, ht.mt], ht.vecs⟩⟩
  | eprop a l b k v =>
    obtain ⟨f1, f2, c1, c2, c3, c4⟩ := G l
    refine ⟨f1, f2, c1, c2, c3, ?_⟩
    show TCor (st.2.setEdgeProp _ k v) (su.2.setEdgeProp _ k v)
    rw [c4]; exact ⟨ht.created, ht.addL, ht.delL, by simp [Txn.setEdgeProp, ht.mt], ht.vecs⟩
  | epropDel a l b k =>
    obtain ⟨f1, f2, c1, c2, c3, c4⟩ := G l
    refine ⟨f1, f2, c1, c2, c3, ?_⟩
    show TCor (st.2.removeEdgeProp _ k) (su.2.removeEdgeProp _ k)
    rw [c4]; exact ⟨ht.created, ht.addL, ht.delL, by simp [Txn.removeEdgeProp, ht.mt], ht.vecs⟩
  | vec n v =>
    show RFrame st.1 (st.2.setVector c st.1 n v).1 ∧ RFrame su.1 (su.2.setVector c su.1 n v).1 ∧
      (st.2.setVector c st.1 n v).1.interner = (su.2.setVector c su.1 n v).1.interner ∧
      IdEq (st.2.setVector c st.1 n v).1.idmap (su.2.setVector c su.1 n v).1.idmap ∧
      (st.2.setVector c st.1 n v).1.vecs = (su.2.setVector c su.1 n v).1.vecs ∧
      TCor (st.2.setVector c st.1 n v).2 (su.2.setVector c su.1 n v).2
    unfold Txn.setVector
    cases c.vecStaged with
    | true =>
      exact ⟨RFrame.refl _, RFrame.refl _, hi, hm, hv,
        ⟨ht.created, ht.addL, ht.delL, ht.mt, by simp [ht.vecs]⟩⟩
    | false =>
      exact ⟨⟨rfl, rfl, rfl, rfl, rfl⟩, ⟨rfl, rfl, rfl, rfl, rfl⟩, hi, hm, by simp [hv], ht⟩

theorem fold_cor (c : Cfg) (ops : List TxOp) : ∀ (st su : Engine × Txn),
    st.1.interner = su.1.interner → IdEq st.1.idmap su.1.idmap → st.1.vecs = su.1.vecs → TCor st.2 su.2 →
    RFrame st.1 (ops.foldl (stepTx c) st).1 ∧ RFrame su.1 (ops.foldl (stepTx c) su).1 ∧
    (ops.foldl (stepTx c) st).1.interner = (ops.foldl (stepTx c) su).1.interner ∧
    IdEq (ops.foldl (stepTx c) st).1.idmap (ops.foldl (stepTx c) su).1.idmap ∧
    (ops.foldl (stepTx c) st).1.vecs = (ops.foldl (stepTx c) su).1.vecs ∧
    TCor (ops.foldl (stepTx c) st).2 (ops.foldl (stepTx c) su).2 := by
  induction ops with
  | nil => intro st su hi hm hv ht; exact ⟨RFrame.refl _, RFrame.refl _, hi, hm, hv, ht⟩
  | cons op ops ih =>
    intro st su hi hm hv ht
    obtain ⟨f1, f2, i1, m1, v1, t1⟩ := stepTx_cor c st su op hi hm hv ht
    obtain ⟨f1', f2', i2, m2, v2, t2⟩ := ih (stepTx c st op) (stepTx c su op) i1 m1 v1 t1
    exact ⟨f1.trans f1', f2.trans f2', i2, m2, v2, t2⟩

/-! ### commit on the two engines -/

theorem commit_err_eq (c : Cfg) (s : Engine) (t : Txn) (m : IdMap) (e : IdMap.Err)
    (h : applyIdmap s.idmap t.created t.addL t.delL = (m, some e)) :
    (s.commit c t).1 = { s with wal := s.wal ++ t.walRecords c (t.mt.freeze t.txid), idmap := m } := by
  unfold Engine.commit
  simp only [h]

/-- no published run removes a property whose value sits in the store -/
def removalsClear (s : Engine) : Bool :=
  s.runs.all (fun r => r.nDel.all (fun k => !storeHasN s k) && r.eDel.all (fun k => !storeHasE s k))

theorem freeze_txid_irrelevant (m : MemTable) (a b : Nat) :
    (m.freeze a).isEmpty = (m.freeze b).isEmpty ∧ (m.freeze a).tombNodes = (m.freeze b).tombNodes ∧
    pushOut (m.freeze a) = pushOut (m.freeze b) ∧ pushIn (m.freeze a) = pushIn (m.freeze b) ∧
    pushNProp (m.freeze a) = pushNProp (m.freeze b) ∧ pushEProp (m.freeze a) = pushEProp (m.freeze b) :=
  ⟨rfl, rfl, rfl, rfl, rfl, rfl⟩

theorem commit_eqv (c : Cfg) {s u : Engine} {t t' : Txn} (hE : Eqv c s u) (hT : TCor t t')
    (hu : u.propsRoot = 0) (hclear : removalsClear (s.commit c t).1 = true) :
    Eqv c (s.commit c t).1 (u.commit c t').1 := by
  obtain ⟨a1, a2⟩ := applyIdmap_ideq hE.idmap t.created t.addL t.delL
  have a2' : (applyIdmap s.idmap t.created t.addL t.delL).2 = (applyIdmap u.idmap t'.created t'.addL t'.delL).2 := by
    rw [← hT.created, ← hT.addL, ← hT.delL]; exact a2
  have a1' : IdEq (applyIdmap s.idmap t.created t.addL t.delL).1 (applyIdmap u.idmap t'.created t'.addL t'.delL).1 := by
    rw [← hT.created, ← hT.addL, ← hT.delL]; exact a1
  cases hq : applyIdmap u.idmap t'.created t'.addL t'.delL with
  | mk m' err =>
  cases hp : applyIdmap s.idmap t.created t.addL t.delL with
  | mk m err0 =>
  rw [hq, hp] at a1' a2'
  simp only at a1' a2'
  subst a2'
  cases err0 with
  | some e =>
    rw [commit_err_eq c s t m e hp, commit_err_eq c u t' m' e hq]
    exact hE.congr ⟨rfl, rfl, rfl, rfl, rfl⟩ ⟨rfl, rfl, rfl, rfl, rfl⟩ a1' hE.interner hE.vecs
  | none =>
    rw [commit_ok_eq c s t m hp] at hclear ⊢
    rw [commit_ok_eq c u t' m' hq]
    obtain ⟨e0, e1, e2, e3, e4, e5⟩ := freeze_txid_irrelevant t.mt t.txid t'.txid
    have hvec : (committed c s t m).vecs = (committed c u t' m').vecs := by
      show t.vecs.foldl _ s.vecs = t'.vecs.foldl _ u.vecs
      rw [hT.vecs, hE.vecs]
    by_cases he : (t.mt.freeze t.txid).isEmpty = true
    · have he' : (t'.mt.freeze t'.txid).isEmpty = true := by rw [← hT.mt, ← e0]; exact he
      exact hE.congr ⟨by simp [committed, he], rfl, rfl, rfl, rfl⟩ ⟨by simp [committed, he'], rfl, rfl, rfl, rfl⟩
        a1' hE.interner hvec
    · have he' : ¬ (t'.mt.freeze t'.txid).isEmpty = true := by rw [← hT.mt, ← e0]; exact he
      have hr : (committed c s t m).runs = t.mt.freeze t.txid :: s.runs := by simp [committed, he]
      have hr' : (committed c u t' m').runs = t.mt.freeze t'.txid :: u.runs := by
        rw [hT.mt]; simp [committed, he']
      -- the removals of the new run are not in the store
      simp only [removalsClear, hr, List.all_cons, Bool.and_eq_true, List.all_eq_true, Bool.not_eq_true'] at hclear
      have hN : ∀ key ∈ (t.mt.freeze t.txid).nDel, storeHasN s key = false := fun key hk => hclear.1.1 key hk
      have hEd : ∀ key ∈ (t.mt.freeze t.txid).eDel, storeHasE s key = false := fun key hk => hclear.1.2 key hk
      refine ⟨a1', hE.interner, hvec, ?_, ?_, ?_, ?_, ?_⟩
      · intro n; rw [hr, hr', isTombNode_cons', isTombNode_cons', hE.tomb n, e1]
      · intro n rel
        rw [neighbors_cons s _ _ hr rfl, neighbors_cons u _ _ hr' rfl, e2]
        exact (hE.out n rel).pushOut _ n rel
      · intro n rel
        rw [incoming_cons c s _ _ hr rfl, incoming_cons c u _ _ hr' rfl, e3]
        exact (hE.inc n rel).pushIn _ n rel
      · intro n k
        rw [nodeProp_cons s _ _ hr rfl rfl rfl (Or.inr hN), nodeProp_cons u _ _ hr' rfl rfl rfl (Or.inl hu), e4, hE.nprop]
      · intro e k
        rw [edgeProp_cons s _ _ hr rfl rfl rfl (Or.inr hEd), edgeProp_cons u _ _ hr' rfl rfl rfl (Or.inl hu), e5, hE.eprop]

theorem commit_root (c : Cfg) (s : Engine) (t : Txn) : (s.commit c t).1.propsRoot = s.propsRoot := by
  unfold Engine.commit
  split <;> rfl

/-- one transaction (committed or dropped) on both engines -/
theorem tx_eqv (c : Cfg) {s u : Engine} (hE : Eqv c s u) (hu : u.propsRoot = 0) (ops : List TxOp) (b : Bool)
    (hclear : removalsClear (runTx c s ops b) = true) :
    Eqv c (runTx c s ops b) (runTx c u ops b) ∧ (runTx c u ops b).propsRoot = 0 := by
  obtain ⟨f1, f2, hi, hm, hv, ht⟩ := fold_cor c ops s.beginWrite u.beginWrite hE.interner hE.idmap hE.vecs
    ⟨rfl, rfl, rfl, rfl, rfl⟩
  have fs : RFrame s (ops.foldl (stepTx c) s.beginWrite).1 := RFrame.trans (b := s.beginWrite.1) ⟨rfl, rfl, rfl, rfl, rfl⟩ f1
  have fu : RFrame u (ops.foldl (stepTx c) u.beginWrite).1 := RFrame.trans (b := u.beginWrite.1) ⟨rfl, rfl, rfl, rfl, rfl⟩ f2
  have hE1 := hE.congr fs fu hm hi hv
  have hu1 : (ops.foldl (stepTx c) u.beginWrite).1.propsRoot = 0 := by rw [fu.root]; exact hu
  unfold runTx at hclear ⊢
  cases b with
  | false => exact ⟨hE1, hu1⟩
  | true =>
    simp only [if_true] at hclear ⊢
    exact ⟨commit_eqv c hE1 ht hu1 hclear, by rw [commit_root]; exact hu1⟩

/-- a transaction touches neither the property tree nor the root the engine keeps -/
theorem runTx_rootOK (c : Cfg) {s : Engine} (h : RootOK s) (ops : List TxOp) (b : Bool) : RootOK (runTx c s ops b) := by
  obtain ⟨f1, _, _, _, _, _⟩ := fold_cor c ops s.beginWrite s.beginWrite rfl (IdEq.refl _) rfl ⟨rfl, rfl, rfl, rfl, rfl⟩
  have fs : RFrame s (ops.foldl (stepTx c) s.beginWrite).1 := RFrame.trans (b := s.beginWrite.1) ⟨rfl, rfl, rfl, rfl, rfl⟩ f1
  have key : ∀ x : Engine, x.store = s.store → x.propsRoot = s.propsRoot → x.storeRoot = s.storeRoot → RootOK x := by
    intro x h1 h2 h3
    exact ⟨by rw [h2, h3]; exact h.eq, fun h0 => by rw [h1]; exact h.empty (by rw [← h2]; exact h0)⟩
  unfold runTx
  cases b with
  | false => exact key _ fs.store fs.root fs.storeRoot
  | true =>
    simp only [if_true]
    have hc : ∀ (x : Engine) (t : Txn), (x.commit c t).1.store = x.store ∧ (x.commit c t).1.propsRoot = x.propsRoot ∧
        (x.commit c t).1.storeRoot = x.storeRoot := by
      intro x t; unfold Engine.commit; split <;> exact ⟨rfl, rfl, rfl⟩
    obtain ⟨c1, c2, c3⟩ := hc (ops.foldl (stepTx c) s.beginWrite).1 (ops.foldl (stepTx c) s.beginWrite).2
    exact key _ (c1.trans fs.store) (c2.trans fs.root) (c3.trans fs.storeRoot)

/-! ### compaction on one of them -/

theorem compact_eqv (c : Cfg) (hg : c.csrGuard = true) (hown : c.compactOwnLast = true)
    (hflag : c.rootAfterInserts = true) {s u : Engine}
    (hE : Eqv c s u) (hroot : RootOK s) (hs : compactSafe c s = true) : Eqv c (s.compact c) u := by
  obtain ⟨hnt, hnd, hed, hclear⟩ := compactSafe_unpack c s hs
  have hid : (s.compact c).idmap = s.idmap ∧ (s.compact c).interner = s.interner ∧ (s.compact c).vecs = s.vecs := by
    unfold Engine.compact; split <;> exact ⟨rfl, rfl, rfl⟩
  refine ⟨(IdEq.of_eq hid.1).trans hE.idmap, hid.2.1.trans hE.interner, hid.2.2.trans hE.vecs, ?_, ?_, ?_, ?_, ?_⟩
  · intro n
    rw [← hE.tomb n, isTombNode_noNodeTombs s.runs hnt n]
    cases he : s.runs.isEmpty with
    | true =>
      have : s.compact c = s := by unfold Engine.compact; rw [he]; rfl
      rw [this]; exact isTombNode_noNodeTombs s.runs hnt n
    | false => rw [(compact_fields c s he).1]; rfl
  · intro n rel; exact (compact_neighbors_E c s hnt hown (segsClear_out hclear) n rel).trans (hE.out n rel)
  · intro n rel; exact (compact_incoming_E c s hnt hown hg (segsClear_in hclear) n rel).trans (hE.inc n rel)
  · intro n k; rw [compact_nodeProp c hflag s hnd hroot]; exact hE.nprop n k
  · intro e k; rw [compact_edgeProp c hflag s hed hroot]; exact hE.eprop e k

/-! ### histories -/

/-- every compaction of the history starts from a `compactSafe` state, and after every transaction no
    published removal sits over a store value (decidable: it runs the model) -/
def compactHistSafe (c : Cfg) : Engine → List Op → Bool
  | _, [] => true
  | s, .tx ops b :: h => removalsClear (runTx c s ops b) && compactHistSafe c (runTx c s ops b) h
  | s, .compact :: h => compactSafe c s && compactHistSafe c (s.compact c) h
  | _, _ :: _ => false

def notCompact : Op → Bool
  | .compact => false
  | _ => true

/-- the history with every compaction taken out -/
def dropCompactions (h : List Op) : List Op := h.filter notCompact

theorem hist_eqv (c : Cfg) (hg : c.csrGuard = true) (hown : c.compactOwnLast = true)
    (hflag : c.rootAfterInserts = true) :
    ∀ (h : List Op) (s u : Engine), Eqv c s u → RootOK s → u.propsRoot = 0 →
    compactHistSafe c s h = true →
    ∃ s' u', h.foldlM (runOp c) s = .ok s' ∧ (dropCompactions h).foldlM (runOp c) u = .ok u' ∧ Eqv c s' u' ∧
      RootOK s' := by
  intro h
  induction h with
  | nil => intro s u hE hR _ _; exact ⟨s, u, rfl, rfl, hE, hR⟩
  | cons op h ih =>
    intro s u hE hR hu hs
    cases op with
    | tx ops b =>
      simp only [compactHistSafe, Bool.and_eq_true] at hs
      obtain ⟨hE', hu'⟩ := tx_eqv c hE hu ops b hs.1
      obtain ⟨s', u', h1, h2, h3⟩ := ih _ _ hE' (runTx_rootOK c hR ops b) hu' hs.2
      refine ⟨s', u', ?_, ?_, h3⟩
      · rw [List.foldlM_cons]; exact h1
      · show ((Op.tx ops b :: h).filter notCompact).foldlM (runOp c) u = _
        rw [List.filter_cons_of_pos (by rfl), List.foldlM_cons]; exact h2
    | compact =>
      simp only [compactHistSafe, Bool.and_eq_true] at hs
      obtain ⟨s', u', h1, h2, h3⟩ := ih _ _ (compact_eqv c hg hown hflag hE hR hs.1) (hR.compact c hflag) hu hs.2
      refine ⟨s', u', ?_, ?_, h3⟩
      · rw [List.foldlM_cons]; exact h1
      · show ((Op.compact :: h).filter notCompact).foldlM (runOp c) u = _
        rw [List.filter_cons_of_neg (by simp [notCompact])]; exact h2
    | close => simp [compactHistSafe] at hs
    | reopen => simp [compactHistSafe] at hs

theorem Eqv.symm {c : Cfg} {s u : Engine} (h : Eqv c s u) : Eqv c u s :=
  ⟨h.idmap.symm, h.interner.symm, h.vecs.symm, fun n => (h.tomb n).symm, fun n rel => (h.out n rel).symm,
   fun n rel => (h.inc n rel).symm, fun n k => (h.nprop n k).symm, fun e k => (h.eprop e k).symm⟩

theorem Eqv.trans {c : Cfg} {a b d : Engine} (h1 : Eqv c a b) (h2 : Eqv c b d) : Eqv c a d :=
  ⟨h1.idmap.trans h2.idmap, h1.interner.trans h2.interner, h1.vecs.trans h2.vecs,
   fun n => (h1.tomb n).trans (h2.tomb n), fun n rel => (h1.out n rel).trans (h2.out n rel),
   fun n rel => (h1.inc n rel).trans (h2.inc n rel), fun n k => (h1.nprop n k).trans (h2.nprop n k),
   fun e k => (h1.eprop e k).trans (h2.eprop e k)⟩

/-- what `Eqv` means for the read interfaces -/
theorem Eqv.reads {c : Cfg} {s u : Engine} (h : Eqv c s u) :
    s.nodes = u.nodes ∧ s.nodesSnap = u.nodesSnap ∧ s.isTombstoned = u.isTombstoned ∧
    (∀ n rel, PermOpt (s.neighbors n rel) (u.neighbors n rel)) ∧
    (∀ n rel, PermOpt (s.incoming c n rel) (u.incoming c n rel)) ∧
    (∀ n k, s.nodeProp n k = u.nodeProp n k) ∧ (∀ e k, s.edgeProp e k = u.edgeProp e k) ∧
    (∀ n k, (s.nodeProps n).lookup k = (u.nodeProps n).lookup k) ∧
    (∀ e k, (s.edgeProps e).lookup k = (u.edgeProps e).lookup k) ∧
    s.nodeLabels = u.nodeLabels ∧ s.nodeLabelNames = u.nodeLabelNames ∧ s.resolveExternal = u.resolveExternal ∧
    s.lookupInternal = u.lookupInternal ∧ s.interner = u.interner ∧ s.vecNodes = u.vecNodes := by
  have hl : s.nodeLabels = u.nodeLabels := by funext n; unfold Engine.nodeLabels; rw [h.idmap.i2l]
  refine ⟨?_, ?_, ?_, h.out, h.inc, h.nprop, h.eprop,
    (fun n k => by rw [nodeProps_lookup, nodeProps_lookup]; exact h.nprop n k),
    (fun e k => by rw [edgeProps_lookup, edgeProps_lookup]; exact h.eprop e k), hl, ?_, ?_, ?_, h.interner, ?_⟩
  · unfold Engine.nodes liveNodeIds; rw [h.idmap.i2e]
    apply List.filter_congr; intro n _; rw [h.tomb n]
  · unfold Engine.nodesSnap liveNodeIds; rw [h.idmap.i2l]
    apply List.filter_congr; intro n _; rw [h.tomb n]
  · funext n; exact h.tomb n
  · funext n; unfold Engine.nodeLabelNames; rw [hl, h.interner]
  · funext n; unfold Engine.resolveExternal; rw [h.idmap.i2e]
  · funext x; exact h.idmap.lookup x
  · unfold Engine.vecNodes; rw [h.vecs]
    apply List.filter_congr; intro n _; rw [h.tomb n]

theorem dropCompactions_insert (h₁ h₂ : List Op) :
    dropCompactions (h₁ ++ [.compact] ++ h₂) = dropCompactions (h₁ ++ h₂) := by
  simp [dropCompactions, List.filter_append, notCompact]

end Nervus.Storage
