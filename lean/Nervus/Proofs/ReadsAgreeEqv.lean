/-
  Proofs/ReadsAgreeEqv.lean — agreement with the Spec graph carries over along `Eqv` (C06 with
  compaction): the compacting engine reads like the transaction-only shadow engine, which refines the Spec.
-/
import Nervus.Proofs.CheckpointHist
namespace Nervus.Storage
open Nervus.GraphSpec (Graph TxOp Op wfFrom anyCommitted txOnly)

theorem ReadsAgree.of_eqv {c : Cfg} {s u : Engine} {g : Graph} (hE : Eqv c s u) (hr : ReadsAgree c u g) :
    ReadsAgree c s g := by
  obtain ⟨r1, r2, _, rout, rinc, rnp, rep, rnps, reps, _, rnames, rext, rlk, rint, _⟩ := hE.reads
  have hrm : ∀ rel t, RelMatch s rel t → RelMatch u rel t := by
    intro rel t h
    rcases h with h | ⟨r, nm, h1, h2, h3⟩
    · exact Or.inl h
    · exact Or.inr ⟨r, nm, h1, h2, by rw [← rint]; exact h3⟩
  refine { nodes := r1.trans hr.nodes, nodesSnap := r2.trans hr.nodesSnap,
           ext := fun n hn => by rw [rext]; exact hr.ext n hn,
           labels := fun n l hn => by rw [rnames]; exact hr.labels n l hn,
           nprop := fun n k hn => (rnp n k).trans (hr.nprop n k hn),
           nprops := fun n k hn => (rnps n k).trans (hr.nprops n k hn),
           out := ?_, inc := ?_,
           eprop := fun r nm a b k h1 h2 h3 => (rep _ k).trans (hr.eprop r nm a b k (by rw [← rint]; exact h1) h2 h3),
           eprops := fun r nm a b k h1 h2 h3 => (reps _ k).trans (hr.eprops r nm a b k (by rw [← rint]; exact h1) h2 h3),
           extLookup := fun x hx => by rw [rlk]; exact hr.extLookup x hx }
  · intro n rel t hn hm
    obtain ⟨es, h1, h2, h3⟩ := hr.out n rel t hn (hrm rel t hm)
    rcases rout n rel with ⟨_, hb⟩ | ⟨l, l', ha, hb, hp⟩
    · rw [h1] at hb; cases hb
    · rw [h1] at hb; cases hb
      refine ⟨l, ha, fun e he => by rw [rint]; exact h2 e (hp.mem_iff.mp he), ?_⟩
      intro r nm a b hnm
      rw [hp.count_eq]; exact h3 r nm a b (by rw [← rint]; exact hnm)
  · intro n rel t hn hm
    obtain ⟨es, h1, h2, h3⟩ := hr.inc n rel t hn (hrm rel t hm)
    rcases rinc n rel with ⟨_, hb⟩ | ⟨l, l', ha, hb, hp⟩
    · rw [h1] at hb; cases hb
    · rw [h1] at hb; cases hb
      refine ⟨l, ha, fun e he => by rw [rint]; exact h2 e (hp.mem_iff.mp he), ?_⟩
      intro r nm a b hnm
      rw [hp.count_eq]; exact h3 r nm a b (by rw [← rint]; exact hnm)

/-! ### a history and the same history without its compactions, for the Spec side -/

theorem drop_wf (h : List Op) : ∀ g, wfFrom g (dropCompactions h) = wfFrom g h := by
  induction h with
  | nil => intro g; rfl
  | cons op h ih =>
    intro g
    cases op with
    | tx ops b =>
      show wfFrom g ((Op.tx ops b :: h).filter notCompact) = _
      rw [List.filter_cons_of_pos (by rfl)]
      simp only [wfFrom]
      rw [show h.filter notCompact = dropCompactions h from rfl, ih]
    | compact =>
      show wfFrom g ((Op.compact :: h).filter notCompact) = _
      rw [List.filter_cons_of_neg (by simp [notCompact])]
      simp only [wfFrom]; exact ih g
    | close =>
      show wfFrom g ((Op.close :: h).filter notCompact) = _
      rw [List.filter_cons_of_pos (by rfl)]
      simp only [wfFrom]; exact ih g
    | reopen =>
      show wfFrom g ((Op.reopen :: h).filter notCompact) = _
      rw [List.filter_cons_of_pos (by rfl)]
      simp only [wfFrom]; exact ih g

theorem drop_anyCommitted (p : Graph → List TxOp → Bool) (h : List Op) :
    ∀ g, anyCommitted p g (dropCompactions h) = anyCommitted p g h := by
  induction h with
  | nil => intro g; rfl
  | cons op h ih =>
    intro g
    cases op with
    | tx ops b =>
      show anyCommitted p g ((Op.tx ops b :: h).filter notCompact) = _
      rw [List.filter_cons_of_pos (by rfl)]
      cases b with
      | true => simp only [anyCommitted]; rw [show h.filter notCompact = dropCompactions h from rfl, ih]
      | false => simp only [anyCommitted]; exact ih g
    | compact =>
      show anyCommitted p g ((Op.compact :: h).filter notCompact) = _
      rw [List.filter_cons_of_neg (by simp [notCompact])]
      simp only [anyCommitted]; exact ih g
    | close =>
      show anyCommitted p g ((Op.close :: h).filter notCompact) = _
      rw [List.filter_cons_of_pos (by rfl)]
      simp only [anyCommitted]; exact ih g
    | reopen =>
      show anyCommitted p g ((Op.reopen :: h).filter notCompact) = _
      rw [List.filter_cons_of_pos (by rfl)]
      simp only [anyCommitted]; exact ih g

theorem drop_histSize (h : List Op) : histSize (dropCompactions h) = histSize h := by
  induction h with
  | nil => rfl
  | cons op h ih =>
    cases op with
    | tx ops b =>
      show histSize ((Op.tx ops b :: h).filter notCompact) = _
      rw [List.filter_cons_of_pos (by rfl)]
      simp only [histSize]; rw [show h.filter notCompact = dropCompactions h from rfl, ih]
    | compact =>
      show histSize ((Op.compact :: h).filter notCompact) = _
      rw [List.filter_cons_of_neg (by simp [notCompact])]
      simp only [histSize]; exact ih
    | close =>
      show histSize ((Op.close :: h).filter notCompact) = _
      rw [List.filter_cons_of_pos (by rfl)]
      simp only [histSize]; exact ih
    | reopen =>
      show histSize ((Op.reopen :: h).filter notCompact) = _
      rw [List.filter_cons_of_pos (by rfl)]
      simp only [histSize]; exact ih

theorem drop_spec (h : List Op) : ∀ g : Graph, (dropCompactions h).foldl Graph.opStep g = h.foldl Graph.opStep g := by
  induction h with
  | nil => intro g; rfl
  | cons op h ih =>
    intro g
    cases op with
    | tx ops b =>
      show ((Op.tx ops b :: h).filter notCompact).foldl Graph.opStep g = _
      rw [List.filter_cons_of_pos (by rfl), List.foldl_cons, List.foldl_cons]
      exact ih _
    | compact =>
      show ((Op.compact :: h).filter notCompact).foldl Graph.opStep g = _
      rw [List.filter_cons_of_neg (by simp [notCompact]), List.foldl_cons]
      exact ih _
    | close =>
      show ((Op.close :: h).filter notCompact).foldl Graph.opStep g = _
      rw [List.filter_cons_of_pos (by rfl), List.foldl_cons, List.foldl_cons]
      exact ih _
    | reopen =>
      show ((Op.reopen :: h).filter notCompact).foldl Graph.opStep g = _
      rw [List.filter_cons_of_pos (by rfl), List.foldl_cons, List.foldl_cons]
      exact ih _

theorem txOnly_of_safe (c : Cfg) (h : List Op) : ∀ s, compactHistSafe c s h = true → txOnly (dropCompactions h) = true := by
  induction h with
  | nil => intro s _; rfl
  | cons op h ih =>
    intro s hs
    cases op with
    | tx ops b =>
      simp only [compactHistSafe, Bool.and_eq_true] at hs
      show txOnly ((Op.tx ops b :: h).filter notCompact) = true
      rw [List.filter_cons_of_pos (by rfl)]
      exact ih _ hs.2
    | compact =>
      simp only [compactHistSafe, Bool.and_eq_true] at hs
      show txOnly ((Op.compact :: h).filter notCompact) = true
      rw [List.filter_cons_of_neg (by simp [notCompact])]
      exact ih _ hs.2
    | close => simp [compactHistSafe] at hs
    | reopen => simp [compactHistSafe] at hs

/-- **C06 with compactions, invariant form**: for every history of transactions (label operations
    included) and compactions that is well-formed, C06-trigger-free and `compactHistSafe`, the engine reads
    like an engine that refines the Spec graph of the history -/
theorem run_sim_compact (c : Cfg) (hg : c.csrGuard = true) (hown : c.compactOwnLast = true)
    (hflag : c.rootAfterInserts = true) (h : List Op)
    (hs : compactHistSafe c {} h = true) (hwf : GraphSpec.wellFormed h = true)
    (hsz : histSize h ≤ labelMax)
    (k1 : anyCommitted GraphSpec.txDeletesRelWithProps {} h = false)
    (k2 : anyCommitted (fun _ => GraphSpec.txLabelReAdd) {} h = false)
    (k3 : anyCommitted (fun _ => GraphSpec.txEdgeAndEndpointDelete) {} h = false)
    (k4 : anyCommitted (fun _ => GraphSpec.txExtZero) {} h = false) :
    ∃ s u, Storage.run c h = .ok s ∧ Eqv c s u ∧ Sim u (GraphSpec.run h) ∧ RootOK s := by
  obtain ⟨s, u, h1, h2, hE, hR⟩ := hist_eqv c hg hown hflag h {} {} (Eqv.refl _ _) RootOK.empty' rfl hs
  obtain ⟨u', hu', hsim⟩ := run_sim c (dropCompactions h) {} {} Sim.empty (txOnly_of_safe c h {} hs)
    (by show wfFrom {} (dropCompactions h) = true; rw [drop_wf]; exact hwf)
    (by rw [drop_histSize]; simpa using hsz)
    (by rw [drop_anyCommitted]; exact k1) (by rw [drop_anyCommitted]; exact k2)
    (by rw [drop_anyCommitted]; exact k3) (by rw [drop_anyCommitted]; exact k4)
  have : u = u' := by
    have e : (dropCompactions h).foldlM (runOp c) {} = .ok u' := hu'
    rw [h2] at e; cases e; rfl
  subst this
  refine ⟨s, u, h1, hE, ?_, hR⟩
  have := drop_spec h {}
  show Sim u (h.foldl Graph.opStep {})
  rw [← this]; exact hsim

end Nervus.Storage
