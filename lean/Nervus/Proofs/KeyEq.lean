/-
  Proofs.KeyEq — the engine's derived `==` implies the grouping / DISTINCT equivalence `keyEq` on all
  well-formed values (`keyEq_of_deq`): IEEE-equal doubles have the same normalised bit pattern
  (`norm_float_of_eqv`, via the bit-level decoding lemmas of Proofs.F64Bits).  Core only.
-/
import Nervus.Proofs.F64Bits
import Nervus.Proofs.Agg
namespace Nervus
open F64 Value

theorem okey_isNaN_of_not (b : Nat) (hb : b < 18446744073709551616) (h : (ofBits b).isNaN = false) :
    OKey.isNaN b = false := by
  rw [okey_isNaN_iff]
  apply Classical.byContradiction
  intro hn
  have e1 : (b / 4503599627370496) % 2048 = 2047 := by omega
  have e2 : ¬ b % 4503599627370496 = 0 := by omega
  simp [ofBits, two52, two63, two64, e1, e2, isNaN] at h

theorem fkey_zero_iff (x : Nat) : OKey.fkey x = 0 ↔ x % 9223372036854775808 = 0 := by
  simp only [OKey.fkey, OKey.fmag, OKey.two63]
  by_cases c : 9223372036854775808 ≤ x <;> simp only [c, if_true, if_false] <;> omega

/-- IEEE-equal doubles have the same normalised bit pattern -/
theorem norm_float_of_eqv (x y : Nat) (hx : x < 18446744073709551616) (hy : y < 18446744073709551616)
    (h : F64.eqv (ofBits x) (ofBits y) = true) : norm (.float x) = norm (.float y) := by
  have nx : (ofBits x).isNaN = false := by
    cases hh : (ofBits x).isNaN <;> simp [F64.eqv, F64.cmp, hh] at h ⊢
  have ny : (ofBits y).isNaN = false := by
    cases hh : (ofBits y).isNaN <;> simp [F64.eqv, F64.cmp, hh, nx] at h ⊢
  have ox := okey_isNaN_of_not x hx nx
  have oy := okey_isNaN_of_not y hy ny
  have hk := (fkey_eq_iff x y hx hy ox oy).2 h
  have z0 : OKey.isNaN 0 = false := by decide
  have zx := fkey_eq_iff x 0 hx (by decide) ox z0
  have zy := fkey_eq_iff y 0 hy (by decide) oy z0
  have f0 : OKey.fkey 0 = 0 := by decide
  rw [f0, fkey_zero_iff] at zx zy
  simp only [norm, nx, ny, Bool.false_eq_true, if_false]
  by_cases gx : x % 9223372036854775808 = 0
  · have gy : y % 9223372036854775808 = 0 := by
      rw [← fkey_zero_iff, ← hk, fkey_zero_iff]; exact gx
    rw [if_pos (zx.1 gx), if_pos (zy.1 gy)]
  · have gy : ¬ y % 9223372036854775808 = 0 := by
      rw [← fkey_zero_iff, ← hk, fkey_zero_iff]; exact gx
    have ex : ¬ F64.eqv (ofBits x) (ofBits 0) = true := fun c => gx (zx.2 c)
    have ey : ¬ F64.eqv (ofBits y) (ofBits 0) = true := fun c => gy (zy.2 c)
    rw [if_neg ex, if_neg ey]
    congr 1
    simp only [OKey.fkey, OKey.fmag, OKey.two63] at hk
    by_cases cx : 9223372036854775808 ≤ x <;> by_cases cy : 9223372036854775808 ≤ y <;>
      simp only [cx, cy, if_true, if_false] at hk <;> omega

mutual
/-- **the engine's `==` implies the grouping / DISTINCT equivalence** (all well-formed values) -/
theorem norm_eq_of_deq : ∀ (a b : Value), a.wf = true → b.wf = true → deq a b = true → norm a = norm b
  | .list xs, b, wa, wb, h => by
    cases b <;> simp only [deq, Bool.false_eq_true] at h
    simp only [norm]; rw [normList_eq_of_deq xs _ wa wb h]
  | .map xs, b, wa, wb, h => by
    cases b <;> simp only [deq, Bool.false_eq_true] at h
    simp only [wf, Bool.and_eq_true] at wa wb
    simp only [norm]; rw [normMap_eq_of_deq xs _ wa.2 wb.2 h]
  | .float x, b, wa, wb, h => by
    cases b <;> simp only [deq, Bool.false_eq_true] at h
    simp only [wf, two64] at wa wb
    exact norm_float_of_eqv x _ (of_decide_eq_true wa) (of_decide_eq_true wb) h
  | .null, b, _, _, h => by cases b <;> simp_all [deq]
  | .bool _, b, _, _, h => by cases b <;> simp_all [deq, norm]
  | .int _, b, _, _, h => by cases b <;> simp_all [deq, norm]
  | .str _, b, _, _, h => by cases b <;> simp_all [deq, norm]
  | .nodeId _, b, _, _, h => by cases b <;> simp_all [deq, norm]
  | .externalId _, b, _, _, h => by cases b <;> simp_all [deq, norm]
  | .edgeKey _, b, _, _, h => by cases b <;> simp_all [deq, norm]
  | .dateTime _, b, _, _, h => by cases b <;> simp_all [deq, norm]
  | .blob _, b, _, _, h => by cases b <;> simp_all [deq, norm]
  | .path _ _, b, _, _, h => by cases b <;> simp_all [deq, norm]
theorem normList_eq_of_deq : ∀ (a b : List Value), wfList a = true → wfList b = true → deqList a b = true →
    norm.normList a = norm.normList b
  | [], b, _, _, h => by cases b <;> simp_all [deqList]
  | x :: xs, b, wa, wb, h => by
    cases b with
    | nil => simp [deqList] at h
    | cons y ys =>
      simp only [deqList, wfList, Bool.and_eq_true] at h wa wb
      simp only [norm.normList]
      rw [norm_eq_of_deq x y wa.1 wb.1 h.1, normList_eq_of_deq xs ys wa.2 wb.2 h.2]
theorem normMap_eq_of_deq : ∀ (a b : List (Str × Value)), wfMap a = true → wfMap b = true → deqMap a b = true →
    norm.normMap a = norm.normMap b
  | [], b, _, _, h => by cases b <;> simp_all [deqMap]
  | (k, x) :: xs, b, wa, wb, h => by
    cases b with
    | nil => simp [deqMap] at h
    | cons y ys =>
      obtain ⟨k', y⟩ := y
      simp only [deqMap, wfMap, Bool.and_eq_true, beq_iff_eq] at h wa wb
      simp only [norm.normMap]
      rw [h.1.1, norm_eq_of_deq x y wa.1 wb.1 h.1.2, normMap_eq_of_deq xs ys wa.2 wb.2 h.2]
end

theorem keyEq_of_deq (a b : Value) (wa : a.wf = true) (wb : b.wf = true) (h : deq a b = true) : keyEq a b = true :=
  (keyEq_iff a b).2 (norm_eq_of_deq a b wa wb h)
end Nervus
