/-
  Proofs/EngineCommitL.lean — `commit` re-establishes the idmap / label part of the invariant.
-/
import Nervus.Proofs.EngineCommitG
namespace Nervus.Storage
open Nervus.GraphSpec (Graph TxOp Op Rel)

theorem ext_vals {s0 g0 s t g} (hstL : StagedL s0 g0 s t g) :
    g.ext.map (·.2) = (t.created.map (·.1)).reverse ++ g0.ext.map (·.2) := by
  rw [hstL.extEq, List.map_append, List.map_reverse, List.map_map]; rfl

/-- step 3 of commit succeeds, and what it computes -/
theorem applyIdmap_ok {s0 g0 s t g} (hL : SimL s0 g0) (hstL : StagedL s0 g0 s t g) (hid : s.idmap = s0.idmap) :
    ∃ m, applyIdmap s.idmap t.created t.addL t.delL = (m, none) ∧
      m.e2i = (t.created.map (fun c => (c.1, c.2.2))).reverse ++ s0.idmap.e2i ∧
      m.i2e = s0.idmap.i2e ++ t.created.map (fun c => ⟨c.1, c.2.1⟩) ∧
      m.i2l.length = g.next ∧
      ∀ n lid, lid ∈ (m.i2l[n]?).getD [] ↔
        ((lid ∈ ((s0.idmap.i2l ++ t.created.map (fun c => [c.2.1]))[n]?).getD [] ∨ (n, lid) ∈ t.addL) ∧
          (n, lid) ∉ t.delL) := by
  have hv := ext_vals hstL
  have hnd := hstL.extND
  rw [hv, List.nodup_append] at hnd
  obtain ⟨hnd1, _, hdisj⟩ := hnd
  have hc := foldStop_create t.created s0.idmap
    (by intro i c hc; rw [hL.lenE]; exact hstL.ids i c hc)
    (by
      intro c hc
      show s0.idmap.lookup c.1 = none
      rw [hL.e2i c.1]
      apply lookup_eq_none_of_not_mem_keys
      intro p hp
      obtain ⟨q, hq, rfl⟩ := List.mem_map.mp hp
      simp only
      intro heq
      exact hdisj c.1 (List.mem_reverse.mpr (List.mem_map.mpr ⟨c, hc, rfl⟩)) q.2
        (List.mem_map.mpr ⟨q, hq, rfl⟩) heq.symm)
    ((List.reverse_perm (t.created.map (·.1))).nodup_iff.mp hnd1)
  have hlen1 : (s0.idmap.i2l ++ t.created.map (fun c => [c.2.1])).length = g.next := by
    rw [List.length_append, List.length_map, hL.lenL, hstL.next]
  obtain ⟨m2, ha1, ha2, ha3, ha4, ha5⟩ := foldStop_add t.addL
    { e2i := (t.created.map (fun c => (c.1, c.2.2))).reverse ++ s0.idmap.e2i,
      i2l := s0.idmap.i2l ++ t.created.map (fun c => [c.2.1]),
      i2e := s0.idmap.i2e ++ t.created.map (fun c => ⟨c.1, c.2.1⟩) }
    (by intro p hp; show p.1 < (s0.idmap.i2l ++ t.created.map (fun c => [c.2.1])).length
        rw [hlen1]; exact (hstL.addOK p hp).1)
  obtain ⟨m3, hr1, hr2, hr3, hr4, hr5⟩ := foldStop_remove t.delL m2
    (by intro p hp; rw [ha4]; show p.1 < (s0.idmap.i2l ++ t.created.map (fun c => [c.2.1])).length
        rw [hlen1]; exact (hstL.delOK p hp).1)
  refine ⟨m3, ?_, by rw [hr2, ha2], by rw [hr3, ha3], by rw [hr4, ha4]; exact hlen1, ?_⟩
  · unfold applyIdmap
    rw [hid, hc]
    simp only [ha1, hr1]
  · intro n lid
    rw [hr5, ha5]

/-- `commit` re-establishes the idmap / label part of the invariant -/
theorem SimL.commit {s0 g0 s t g} (c : Cfg) (hL : SimL s0 g0) (hstL : StagedL s0 g0 s t g)
    (hext : Ext s0 s) (hdead : ∀ n, n ∈ g0.dead → n ∈ g.dead) :
    ∃ m, applyIdmap s.idmap t.created t.addL t.delL = (m, none) ∧ SimL (s.commit c t).1 g := by
  obtain ⟨m, hok, he2i, hi2e, hlenL, hlab⟩ := applyIdmap_ok hL hstL hext.idmap
  refine ⟨m, hok, ?_⟩
  rw [commit_ok_eq c s t m hok]
  have hidm : (committed c s t m).idmap = m := rfl
  have hint : (committed c s t m).interner = s.interner := rfl
  have hlen0 : s0.interner.length ≤ s.interner.length := hext.pre.length_le
  have hcl := hstL.created_lt
  -- the label vector of node `n` after the created nodes were appended
  have hm1 : ∀ n lid nm, s.interner[lid]? = some nm → n < g.next → n ∉ g.dead →
      (lid ∈ ((s0.idmap.i2l ++ t.created.map (fun c => [c.2.1]))[n]?).getD [] ↔
        ((n, nm) ∈ g0.labels ∨ ∃ x, (x, lid, n) ∈ t.created)) := by
    intro n lid nm hr hn hd
    by_cases hlt : n < g0.next
    · rw [List.getElem?_append_left (by rw [hL.lenL]; exact hlt)]
      have hnc : ¬ ∃ x, (x, lid, n) ∈ t.created := by
        rintro ⟨x, hx⟩
        obtain ⟨i, hi, hget⟩ := List.mem_iff_getElem.mp hx
        have := hstL.ids i _ (by rw [List.getElem?_eq_getElem hi, hget])
        simp only at this; omega
      simp only [hnc, or_false]
      by_cases hl : lid < s0.interner.length
      · exact hL.labels n lid nm (old_of_lt hext.pre hr hl) hlt (fun h => hd (hdead n h))
      · have hge := Nat.le_of_not_lt hl
        have hnew := not_mem_of_new hext.pre hext.nodup hr hge
        constructor
        · intro h
          rcases hL.i2lOK n lid h with h' | h'
          · have := lt_of_getElem?_eq_some hr; have := hstL.small; omega
          · omega
        · intro h; exact absurd (hL.labelsInt _ h) hnew
    · have hge : s0.idmap.i2l.length ≤ n := by rw [hL.lenL]; omega
      rw [List.getElem?_append_right hge, List.getElem?_map, hL.lenL]
      have hn0 : (n, nm) ∉ g0.labels := fun h => by have := hL.labelsLt _ h; simp only at this; omega
      simp only [hn0, false_or]
      constructor
      · intro h
        cases hc : t.created[n - g0.next]? with
        | none => rw [hc] at h; simp at h
        | some c' =>
          rw [hc] at h
          simp only [Option.map_some, Option.getD_some, List.mem_singleton] at h
          have := hstL.ids _ _ hc
          refine ⟨c'.1, ?_⟩
          have hc2 : c' = (c'.1, lid, n) := by
            obtain ⟨x, l, i⟩ := c'
            simp only at h this
            subst h; congr 2; omega
          rw [← hc2]; exact List.mem_of_getElem? hc
      · rintro ⟨x, hx⟩
        obtain ⟨i, hi, hget⟩ := List.mem_iff_getElem.mp hx
        have hg? : t.created[i]? = some (x, lid, n) := by rw [List.getElem?_eq_getElem hi, hget]
        have := hstL.ids i _ hg?
        simp only at this
        have hi' : n - g0.next = i := by omega
        rw [hi', hg?]; simp
  refine { lenE := ?_, lenL := by rw [hidm]; exact hlenL, e2i := ?_, extPt := ?_, extLt := hstL.extLt,
           extNZ := hstL.extNZ, extND := hstL.extND, extIdND := hstL.extIdND, labels := ?_, labelsInt := by rw [hint]; exact hstL.labelsInt,
           labelsLt := hstL.labelsLt, deadLt := hstL.deadLt, small := by rw [hint]; exact hstL.small, i2lOK := ?_ }
  · rw [hidm, hi2e, List.length_append, List.length_map, hL.lenE, hstL.next]
  · intro x
    rw [hidm]
    unfold IdMap.lookup
    rw [he2i, hstL.extEq, List.map_append, List.map_reverse, List.map_map, List.lookup_append, List.lookup_append]
    congr 1
    exact hL.e2i x
  · intro n
    rw [hidm, hi2e, hstL.extPt n]
    by_cases hlt : n < g0.next
    · rw [if_pos hlt, List.getElem?_append_left (by rw [hL.lenE]; exact hlt)]
      exact hL.extPt n
    · rw [if_neg hlt, List.getElem?_append_right (by rw [hL.lenE]; omega), List.getElem?_map, hL.lenE]
      cases t.created[n - g0.next]? <;> rfl
  · intro n lid nm hr hn hd
    rw [hint] at hr
    rw [hidm, hlab, hstL.labels n lid nm hr hn hd, hm1 n lid nm hr hn hd, or_assoc]
  · intro n l hl
    rw [hidm, hlab] at hl
    rw [hint]
    rcases hl.1 with h | h
    · by_cases hlt : n < g0.next
      · rw [List.getElem?_append_left (by rw [hL.lenL]; exact hlt)] at h
        exact (hL.i2lOK n l h).imp id (fun h => Nat.lt_of_lt_of_le h hlen0)
      · rw [List.getElem?_append_right (by rw [hL.lenL]; omega), List.getElem?_map] at h
        cases hc : t.created[n - s0.idmap.i2l.length]? with
        | none => rw [hc] at h; simp at h
        | some c' =>
          rw [hc] at h
          simp only [Option.map_some, Option.getD_some, List.mem_singleton] at h
          rw [h]; exact hstL.createdLid c' (List.mem_of_getElem? hc)
    · exact Or.inr (hstL.addOK _ h).2

end Nervus.Storage
