/-
  Helper lemmas for C03: invariants of the writer/reader LTS (Nervus.Model.SnapLTS).
-/
import Nervus.Model.SnapLTS
namespace Nervus.SnapLTS

/-- the engine-side invariant, by writer program point (`c` = committed transactions) -/
def WInv (s : State) : Prop :=
  let c := s.committed
  match s.w with
  | .idle =>
    s.nodes = c ∧ s.labels = c ∧ (∀ k, k ∈ s.runs ++ s.segs ↔ k < c) ∧ (∀ k, k ∈ s.store ↔ k ∈ s.segs) ∧
    (s.root = false → s.segs = []) ∧ (∀ k, k ∈ s.index ↔ (s.hasIndex = true ∧ k < c))
  | .commit 1 =>
    s.nodes = c ∧ s.labels = c ∧ (∀ k, k ∈ s.runs ++ s.segs ↔ k < c) ∧ (∀ k, k ∈ s.store ↔ k ∈ s.segs) ∧
    (s.root = false → s.segs = []) ∧ (∀ k, k ∈ s.index ↔ (s.hasIndex = true ∧ k < c + 1))
  | .commit 2 =>
    s.nodes = c + 1 ∧ s.labels = c ∧ (∀ k, k ∈ s.runs ++ s.segs ↔ k < c) ∧ (∀ k, k ∈ s.store ↔ k ∈ s.segs) ∧
    (s.root = false → s.segs = []) ∧ (∀ k, k ∈ s.index ↔ (s.hasIndex = true ∧ k < c + 1))
  | .commit 3 =>
    s.nodes = c + 1 ∧ s.labels = c + 1 ∧ (∀ k, k ∈ s.runs ++ s.segs ↔ k < c) ∧ (∀ k, k ∈ s.store ↔ k ∈ s.segs) ∧
    (s.root = false → s.segs = []) ∧ (∀ k, k ∈ s.index ↔ (s.hasIndex = true ∧ k < c + 1))
  | .compact 1 =>
    s.nodes = c ∧ s.labels = c ∧ (∀ k, k ∈ s.runs ++ s.segs ↔ k < c) ∧ (∀ k, k ∈ s.store ↔ k ∈ s.segs) ∧
    (s.root = false → s.segs = []) ∧ (∀ k, k ∈ s.index ↔ (s.hasIndex = true ∧ k < c)) ∧ s.cap = some s.runs
  | .compact 2 | .compact 3 =>
    s.nodes = c ∧ s.labels = c ∧ (∀ k, k ∈ s.runs ++ s.segs ↔ k < c) ∧ (∀ k, k ∈ s.store ↔ k ∈ s.runs ++ s.segs) ∧
    (s.root = false → s.segs = []) ∧ (∀ k, k ∈ s.index ↔ (s.hasIndex = true ∧ k < c)) ∧ s.cap = some s.runs
  | .compact 4 =>
    s.nodes = c ∧ s.labels = c ∧ (∀ k, k ∈ s.runs ++ s.segs ↔ k < c) ∧ (∀ k, k ∈ s.store ↔ k ∈ s.runs ++ s.segs) ∧
    s.root = true ∧ (∀ k, k ∈ s.index ↔ (s.hasIndex = true ∧ k < c)) ∧ s.cap = some s.runs
  | .compact 5 =>
    s.nodes = c ∧ s.labels = c ∧ (∀ k, k ∈ s.pending ++ s.segs ↔ k < c) ∧ (∀ k, k ∈ s.store ↔ k ∈ s.pending ++ s.segs) ∧
    s.root = true ∧ (∀ k, k ∈ s.index ↔ (s.hasIndex = true ∧ k < c)) ∧ s.runs = []
  | _ => False

/-- a snapshot no commit / compaction step has overlapped -/
def Snap.clean (σ : Snap) : Prop := σ.dirtyCommit = false ∧ σ.dirtyCompact = false

/-- the per-snapshot invariant -/
def SInv (s : State) (σ : Snap) : Prop :=
  1 ≤ σ.pc ∧ σ.pc ≤ 5 ∧
  (σ.pc < 5 → σ.clean →
    s.w = .idle ∧ σ.lo = s.committed ∧ σ.i2e = s.nodes ∧ (2 ≤ σ.pc → σ.runs = s.runs) ∧
    (3 ≤ σ.pc → σ.segs = s.segs) ∧ (4 ≤ σ.pc → σ.nlabels = s.labels)) ∧
  (σ.pc = 5 → σ.clean →
    σ.i2e = σ.lo ∧ σ.nlabels = σ.lo ∧ σ.hi = σ.lo ∧ (∀ k, k ∈ σ.runs ++ σ.segs ↔ k < σ.lo) ∧
    (∀ k, k ∈ σ.idxAtDone ↔ (s.hasIndex = true ∧ k < σ.lo)) ∧
    ((σ.stale && σ.root) = false → ∀ k, k ∈ σ.runs ++ (if σ.root then s.store else []) ↔ k < σ.lo))

structure Inv (h0 : Bool) (s : State) : Prop where
  hasIdx : s.hasIndex = h0
  rbl : s.readBeforeLock = false
  w : WInv s
  snaps : ∀ j σ, s.snaps j = some σ → SInv s σ

theorem inv_init (h0 : Bool) : Inv h0 (init h0) :=
  ⟨rfl, rfl, by simp [WInv, init], by intro j σ h; simp [init] at h⟩

@[simp] theorem markAll_snaps (f : Snap → Snap) (s : State) (j : Nat) :
    (markAll f s).snaps j = (s.snaps j).map f := rfl

/-- a writer step that does not touch the store keeps every snapshot's invariant, given the new
    engine state is no longer idle-and-unchanged only for snapshots that were marked dirty -/
theorem sinv_touch (s s' : State) (σ : Snap) (f : Snap → Snap)
    (hf : f = touchCommit ∨ f = touchCompact)
    (hstore : s'.store = s.store) (hidx : s'.hasIndex = s.hasIndex) (h : SInv s σ) : SInv s' (f σ) := by
  obtain ⟨h1, h5, hinc, hdone⟩ := h
  by_cases hpc : σ.pc < 5
  · have hd : ¬ (f σ).clean := by
      rcases hf with rfl | rfl <;> simp [touchCommit, touchCompact, hpc, Snap.clean]
    have hpc' : (f σ).pc = σ.pc := by
      rcases hf with rfl | rfl <;> simp [touchCommit, touchCompact, hpc]
    refine ⟨by omega, by omega, fun _ hc => absurd hc hd, fun h5' => by omega⟩
  · have he : f σ = σ := by
      rcases hf with rfl | rfl <;> simp [touchCommit, touchCompact, hpc]
    rw [he]
    refine ⟨h1, h5, fun h => absurd h hpc, ?_⟩
    intro hp hc
    have := hdone hp hc
    rw [hstore, hidx]; exact this

theorem sinv_sink (s s' : State) (σ : Snap) (hidx : s'.hasIndex = s.hasIndex) (h : SInv s σ) :
    SInv s' (touchSink σ) := by
  obtain ⟨h1, h5, hinc, hdone⟩ := h
  by_cases hpc : σ.pc < 5
  · have hd : ¬ (touchSink σ).clean := by simp [touchSink, hpc, Snap.clean]
    have hpc' : (touchSink σ).pc = σ.pc := by simp [touchSink, hpc]
    refine ⟨by omega, by omega, fun _ hc => absurd hc hd, fun h5' => by omega⟩
  · have hp5 : σ.pc = 5 := by omega
    simp only [touchSink, hpc, if_false]
    refine ⟨h1, h5, fun h => absurd h hpc, ?_⟩
    intro _ hc
    obtain ⟨a, b, c, d, e, f⟩ := hdone hp5 hc
    refine ⟨a, b, c, d, by rw [hidx]; exact e, ?_⟩
    intro hsr
    simp only [Bool.true_and] at hsr
    -- the snapshot has a zero root: it never looks at the store
    have : (σ.stale && σ.root) = false := by simp [hsr]
    have := f this
    simpa [hsr] using this

/-- all snapshots after a writer step that marks them with `f` -/
theorem snaps_mark (s e : State) (f : Snap → Snap) (hs : e.snaps = s.snaps)
    (hstep : ∀ σ, SInv s σ → SInv (markAll f e) (f σ))
    (h : ∀ j σ, s.snaps j = some σ → SInv s σ) :
    ∀ j σ, (markAll f e).snaps j = some σ → SInv (markAll f e) σ := by
  intro j σ hj
  simp only [markAll_snaps, hs] at hj
  cases hsj : s.snaps j with
  | none => simp [hsj] at hj
  | some σ0 => simp [hsj] at hj; subst hj; exact hstep σ0 (h j σ0 hsj)

theorem inv_commitStep {h0 : Bool} {s s' : State} (hi : Inv h0 s) (hs : step s .commitStep = some s') :
    Inv h0 s' := by
  obtain ⟨hh, hrb, hw, hsn⟩ := hi
  simp only [step] at hs
  split at hs
  · -- walAndIndex
    rename_i hwi
    cases hs
    refine ⟨hh, hrb, ?_, ?_⟩
    · simp only [WInv, hwi, markAll] at hw ⊢
      obtain ⟨a, b, c, d, e, f⟩ := hw
      refine ⟨a, b, c, d, e, ?_⟩
      intro k
      cases hx : s.hasIndex with
      | true =>
        have := f k
        simp only [hx, true_and] at this
        simp only [if_true, List.mem_cons, this, true_and]; omega
      | false =>
        have := f k
        simp only [hx, Bool.false_eq_true, false_and, iff_false] at this
        simpa using this
    · exact snaps_mark s _ touchCommit rfl (fun σ h => sinv_touch s _ σ _ (Or.inl rfl) rfl rfl h) hsn
  · rename_i hwi
    cases hs
    refine ⟨hh, hrb, ?_, ?_⟩
    · simp only [WInv, hwi, markAll] at hw ⊢
      obtain ⟨a, b, c, d, e, f⟩ := hw
      exact ⟨by omega, b, c, d, e, f⟩
    · exact snaps_mark s _ touchCommit rfl (fun σ h => sinv_touch s _ σ _ (Or.inl rfl) rfl rfl h) hsn
  · rename_i hwi
    cases hs
    refine ⟨hh, hrb, ?_, ?_⟩
    · simp only [WInv, hwi, markAll] at hw ⊢
      obtain ⟨a, b, c, d, e, f⟩ := hw
      exact ⟨a, by omega, c, d, e, f⟩
    · exact snaps_mark s _ touchCommit rfl (fun σ h => sinv_touch s _ σ _ (Or.inl rfl) rfl rfl h) hsn
  · -- publishRun: the commit point
    rename_i hwi
    cases hs
    refine ⟨hh, hrb, ?_, ?_⟩
    · simp only [WInv, hwi, markAll] at hw ⊢
      obtain ⟨a, b, c, d, e, f⟩ := hw
      refine ⟨a, b, ?_, d, e, f⟩
      intro k
      have := c k
      simp only [List.mem_append, List.mem_cons] at this ⊢
      constructor
      · rintro ((h | h) | h)
        · omega
        · have := this.mp (Or.inl h); omega
        · have := this.mp (Or.inr h); omega
      · intro hk
        by_cases hkc : k = s.committed
        · exact Or.inl (Or.inl hkc)
        · rcases this.mpr (by omega) with h | h
          · exact Or.inl (Or.inr h)
          · exact Or.inr h
    · exact snaps_mark s _ touchCommit rfl (fun σ h => sinv_touch s _ σ _ (Or.inl rfl) rfl rfl h) hsn
  · cases hs

theorem inv_compactStep {h0 : Bool} {s s' : State} (hi : Inv h0 s) (hs : step s .compactStep = some s') :
    Inv h0 s' := by
  obtain ⟨hh, hrb, hw, hsn⟩ := hi
  simp only [step, hrb, Bool.false_eq_true, if_false] at hs
  split at hs
  · rename_i hwi
    split at hs
    · cases hs
    · cases hs
      refine ⟨hh, rfl, ?_, ?_⟩
      · simp only [WInv, hwi, markAll] at hw ⊢
        obtain ⟨a, b, c, d, e, f⟩ := hw
        exact ⟨a, b, c, d, e, f, trivial⟩
      · exact snaps_mark s _ touchCompact rfl (fun σ h => sinv_touch s _ σ _ (Or.inr rfl) rfl rfl h) hsn
  · -- sinkProps
    rename_i hwi
    cases hs
    refine ⟨hh, rfl, ?_, ?_⟩
    · simp only [WInv, hwi, markAll] at hw ⊢
      obtain ⟨a, b, c, d, e, f, g⟩ := hw
      refine ⟨a, b, c, ?_, e, f, g⟩
      intro k; have := d k; simp only [g, Option.getD_some, List.mem_append] at this ⊢; rw [this]
    · exact snaps_mark s _ touchSink rfl (fun σ h => sinv_sink s _ σ rfl h) hsn
  · rename_i hwi
    cases hs
    refine ⟨hh, rfl, ?_, ?_⟩
    · simp only [WInv, hwi, markAll] at hw ⊢; exact hw
    · exact snaps_mark s _ touchCompact rfl (fun σ h => sinv_touch s _ σ _ (Or.inr rfl) rfl rfl h) hsn
  · rename_i hwi
    cases hs
    refine ⟨hh, rfl, ?_, ?_⟩
    · simp only [WInv, hwi, markAll] at hw ⊢
      obtain ⟨a, b, c, d, e, f, g⟩ := hw
      exact ⟨a, b, c, d, trivial, f, g⟩
    · exact snaps_mark s _ touchCompact rfl (fun σ h => sinv_touch s _ σ _ (Or.inr rfl) rfl rfl h) hsn
  · -- clearRuns: `pending` is the captured list = the published runs (read under the lock)
    rename_i hwi
    cases hs
    refine ⟨hh, rfl, ?_, ?_⟩
    · simp only [WInv, hwi, markAll] at hw ⊢
      obtain ⟨a, b, c, d, e, f, g⟩ := hw
      simp only [g, Option.getD_some]
      exact ⟨a, b, c, d, e, f, trivial⟩
    · exact snaps_mark s _ touchCompact rfl (fun σ h => sinv_touch s _ σ _ (Or.inr rfl) rfl rfl h) hsn
  · rename_i hwi
    cases hs
    refine ⟨hh, rfl, ?_, ?_⟩
    · simp only [WInv, hwi, markAll] at hw ⊢
      obtain ⟨a, b, c, d, e, f, g⟩ := hw
      refine ⟨a, b, ?_, ?_, by simp [e], f⟩
      · intro k; have := c k; simpa [g] using this
      · intro k; have := d k; simpa using this
    · exact snaps_mark s _ touchCompact rfl (fun σ h => sinv_touch s _ σ _ (Or.inr rfl) rfl rfl h) hsn
  · cases hs

theorem snaps_set (s : State) (j : Nat) (x : Option Snap)
    (h : ∀ i σ, s.snaps i = some σ → SInv s σ) (hx : ∀ σ, x = some σ → SInv s σ) :
    ∀ i σ, (setSnap s j x).snaps i = some σ → SInv (setSnap s j x) σ := by
  intro i σ hi
  simp only [setSnap] at hi
  by_cases hij : i = j
  · simp [hij] at hi; exact hx σ hi
  · simp [hij] at hi; exact h i σ hi

theorem inv_readStep {h0 : Bool} {s s' : State} (j : Nat) (hi : Inv h0 s) (hs : step s (.readStep j) = some s') :
    Inv h0 s' := by
  obtain ⟨hh, hrb, hw, hsn⟩ := hi
  simp only [step] at hs
  split at hs
  · -- scanI2e
    cases hs
    refine ⟨hh, hrb, hw, snaps_set s j _ hsn ?_⟩
    intro σ hσ
    cases hσ
    refine ⟨by simp [newSnap], by simp [newSnap], ?_, by simp [newSnap]⟩
    intro _ hc
    simp only [Snap.clean, newSnap] at hc
    have hidle : s.w = .idle := by
      cases hwc : s.w with
      | idle => rfl
      | commit k => simp [hwc, isCommit] at hc
      | compact k => simp [hwc, isCompact] at hc
    exact ⟨hidle, rfl, rfl, by simp [newSnap], by simp [newSnap], by simp [newSnap]⟩
  · rename_i σ hsj
    have hσ := hsn j σ hsj
    obtain ⟨h1, h5, hinc, hdone⟩ := hσ
    split at hs
    · rename_i hpc
      cases hs
      refine ⟨hh, hrb, hw, snaps_set s j _ hsn ?_⟩
      intro σ' hσ'; cases hσ'
      refine ⟨by simp, by simp, ?_, by simp⟩
      intro _ hc
      obtain ⟨a, b, c, d, e, f⟩ := hinc (by omega) hc
      exact ⟨a, b, c, fun _ => rfl, fun h => by simp at h, fun h => by simp at h⟩
    · rename_i hpc
      cases hs
      refine ⟨hh, hrb, hw, snaps_set s j _ hsn ?_⟩
      intro σ' hσ'; cases hσ'
      refine ⟨by simp, by simp, ?_, by simp⟩
      intro _ hc
      obtain ⟨a, b, c, d, e, f⟩ := hinc (by omega) hc
      exact ⟨a, b, c, fun _ => d (by omega), fun _ => rfl, fun h => by simp at h⟩
    · rename_i hpc
      cases hs
      refine ⟨hh, hrb, hw, snaps_set s j _ hsn ?_⟩
      intro σ' hσ'; cases hσ'
      refine ⟨by simp, by simp, ?_, by simp⟩
      intro _ hc
      obtain ⟨a, b, c, d, e, f⟩ := hinc (by omega) hc
      exact ⟨a, b, c, fun _ => d (by omega), fun _ => e (by omega), fun _ => rfl⟩
    · -- readRoots: the acquisition completes
      rename_i hpc
      cases hs
      refine ⟨hh, hrb, hw, snaps_set s j _ hsn ?_⟩
      intro σ' hσ'; cases hσ'
      refine ⟨by simp, by simp, by simp, ?_⟩
      intro _ hc
      obtain ⟨hidle, hlo, hi2e, hruns, hsegs, hlab⟩ := hinc (by omega) hc
      have hruns := hruns (by omega); have hsegs := hsegs (by omega); have hlab := hlab (by omega)
      simp only [WInv, hidle] at hw
      obtain ⟨a, b, c, d, e, f⟩ := hw
      refine ⟨by simp; omega, by simp; omega, by simp [hlo], ?_, ?_, ?_⟩
      · intro k; simp only [hruns, hsegs, hlo]; exact c k
      · intro k; simp only [hlo]; exact f k
      · intro _ k
        simp only [hruns, hlo]
        cases hr : s.root with
        | false =>
          have := e hr
          have hc' := c k
          simp only [this, List.append_nil] at hc'
          simpa using hc'
        | true =>
          have hc' := c k
          simp only [List.mem_append] at hc' ⊢
          simp only [if_true, d k]; exact hc'
    · cases hs

theorem inv_dropSnap {h0 : Bool} {s s' : State} (j : Nat) (hi : Inv h0 s) (hs : step s (.dropSnap j) = some s') :
    Inv h0 s' := by
  obtain ⟨hh, hrb, hw, hsn⟩ := hi
  simp only [step] at hs
  split at hs
  · cases hs; exact ⟨hh, hrb, hw, snaps_set s j none hsn (by intro σ h; cases h)⟩
  · cases hs

theorem reach_inv {h0 : Bool} {s : State} (h : Reach (init h0) s) : Inv h0 s := by
  induction h with
  | refl => exact inv_init h0
  | step l _ hs ih =>
    cases l with
    | commitStep => exact inv_commitStep ih hs
    | compactStep => exact inv_compactStep ih hs
    | compactRead =>
      have := ih.rbl
      simp [step, this] at hs
    | readStep j => exact inv_readStep j ih hs
    | dropSnap j => exact inv_dropSnap j ih hs

theorem reach_of_runTrace {s0 s s' : State} (tr : List Label)
    (h0 : Reach s0 s) (h : runTrace s tr = some s') : Reach s0 s' := by
  induction tr generalizing s with
  | nil => simp [runTrace] at h; subst h; exact h0
  | cons l ls ih =>
    simp only [runTrace] at h
    split at h
    · rename_i s1 hs1; exact ih (Reach.step l h0 hs1) h
    · cases h

end Nervus.SnapLTS
