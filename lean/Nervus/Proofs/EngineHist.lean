/-
  Proofs/EngineHist.lean — from one staged write to whole transactions and histories
  (the induction of the C06 refinement).
-/
import Nervus.Proofs.EngineTx
namespace Nervus.Storage
open Nervus.GraphSpec (Graph TxOp Op Rel opWF txWF wfFrom txOnly anyCommitted txDeletesRelWithProps
  txLabelReAdd txEdgeAndEndpointDelete txExtZero)

/-! ### what a staged write does to the engine frame and to the pending lists -/

theorem createNode_fields (s : Engine) (t : Txn) (x l : Nat) (r : Txn × Nat) (h : t.createNode s x l = some r) :
    r.1.mt = t.mt ∧ r.1.delL = t.delL ∧ r.1.addL = t.addL := by
  unfold Txn.createNode at h
  split at h
  · cases h
  · split at h
    · cases h
    · cases h; exact ⟨rfl, rfl, rfl⟩

theorem stepTx_ext (c : Cfg) (s0 s : Engine) (t : Txn) (op : TxOp) (he : Ext s0 s) :
    Ext s0 (stepTx c (s, t) op).1 ∧ (stepTx c (s, t) op).1.interner.length ≤ s.interner.length + 1 ∧
    s.interner <+: (stepTx c (s, t) op).1.interner := by
  have key : ∀ nm, Ext s0 (s.getOrCreateLabel nm).1 ∧ (s.getOrCreateLabel nm).1.interner.length ≤ s.interner.length + 1 ∧
      s.interner <+: (s.getOrCreateLabel nm).1.interner := by
    intro nm
    obtain ⟨_, hpre, hnd, _, h1, h2, h3, h4, _, _⟩ := getOrCreateLabel_spec s nm he.nodup
    refine ⟨⟨by rw [h1, he.runs], by rw [h2, he.idmap], by rw [h3, he.segs], by rw [h4, he.root],
            he.pre.trans hpre, hnd⟩, ?_, hpre⟩
    simp only [Engine.getOrCreateLabel]
    split <;> simp
  have self : Ext s0 s ∧ s.interner.length ≤ s.interner.length + 1 ∧ s.interner <+: s.interner :=
    ⟨he, Nat.le_succ _, List.prefix_refl _⟩
  cases op with
  | node x lab =>
    have hi : Ext s0 (internLabel s lab).1 ∧ (internLabel s lab).1.interner.length ≤ s.interner.length + 1 ∧
        s.interner <+: (internLabel s lab).1.interner := by
      cases lab with
      | none => exact self
      | some l => exact key l
    simp only [stepTx]
    split <;> exact hi
  | labelAdd n nm => exact key nm
  | labelDel n nm => exact key nm
  | edge a nm b => exact key nm
  | tombNode n => exact self
  | tombEdge a nm b => exact key nm
  | nprop n k v => exact self
  | npropDel n k => exact self
  | eprop a nm b k v => exact key nm
  | epropDel a nm b k => exact key nm
  | vec n v =>
    show Ext s0 (t.setVector c s n v).1 ∧ (t.setVector c s n v).1.interner.length ≤ s.interner.length + 1 ∧
      s.interner <+: (t.setVector c s n v).1.interner
    unfold Txn.setVector
    split
    · exact self
    · exact ⟨⟨he.runs, he.idmap, he.segs, he.root, he.pre, he.nodup⟩, Nat.le_succ _, List.prefix_refl _⟩

theorem stepTx_delL (c : Cfg) (s : Engine) (t : Txn) (op : TxOp) :
    ∀ p ∈ (stepTx c (s, t) op).2.delL, p ∈ t.delL ∨
      (∃ n nm, op = .labelDel n nm ∧ p = (n, (s.getOrCreateLabel nm).2)) := by
  intro p hp
  cases op with
  | node x lab =>
    simp only [stepTx] at hp
    split at hp
    · rename_i r hr; rw [(createNode_fields _ _ _ _ _ hr).2.1] at hp; exact Or.inl hp
    · exact Or.inl hp
  | labelDel n nm =>
    have hp' : p ∈ t.delL ++ [(n, (s.getOrCreateLabel nm).2)] := hp
    rw [List.mem_append, List.mem_singleton] at hp'
    exact hp'.imp id (fun h => ⟨n, nm, rfl, h⟩)
  | vec n v =>
    have hp' : p ∈ (t.setVector c s n v).2.delL := hp
    unfold Txn.setVector at hp'
    split at hp' <;> exact Or.inl hp'
  | labelAdd n nm => exact Or.inl hp
  | edge a nm b => exact Or.inl hp
  | tombNode n => exact Or.inl hp
  | tombEdge a nm b => exact Or.inl hp
  | nprop n k v => exact Or.inl hp
  | npropDel n k => exact Or.inl hp
  | eprop a nm b k v => exact Or.inl hp
  | epropDel a nm b k => exact Or.inl hp

theorem stepTx_edges (c : Cfg) (s : Engine) (t : Txn) (op : TxOp) :
    ∀ e ∈ (stepTx c (s, t) op).2.mt.edges, e ∈ t.mt.edges ∨
      (∃ a nm b, op = .edge a nm b ∧ e = ⟨a, (s.getOrCreateLabel nm).2, b⟩) := by
  intro e he
  cases op with
  | node x lab =>
    simp only [stepTx] at he
    split at he
    · rename_i r hr; rw [(createNode_fields _ _ _ _ _ hr).1] at he; exact Or.inl he
    · exact Or.inl he
  | edge a nm b =>
    have he' : e ∈ t.mt.edges ++ [⟨a, (s.getOrCreateLabel nm).2, b⟩] := he
    rw [List.mem_append, List.mem_singleton] at he'
    exact he'.imp id (fun h => ⟨a, nm, b, rfl, h⟩)
  | tombEdge a nm b =>
    have he' : e ∈ t.mt.edges.filter (· != (⟨a, (s.getOrCreateLabel nm).2, b⟩ : Edge)) := he
    exact Or.inl (List.mem_filter.mp he').1
  | vec n v =>
    have he' : e ∈ (t.setVector c s n v).2.mt.edges := he
    unfold Txn.setVector at he'
    split at he' <;> exact Or.inl he'
  | labelAdd n nm => exact Or.inl he
  | labelDel n nm => exact Or.inl he
  | tombNode n => exact Or.inl he
  | nprop n k v => exact Or.inl he
  | npropDel n k => exact Or.inl he
  | eprop a nm b k v => exact Or.inl he
  | epropDel a nm b k => exact Or.inl he

/-! ### a whole transaction -/

/-- the staged relation at `begin_write` -/
theorem St2.init {s0 g0} (hS : SimG s0 g0) (hL : SimL s0 g0) :
    St2 s0 g0 s0.beginWrite.1 s0.beginWrite.2 g0 := by
  refine ⟨?_, ?_⟩
  · refine { ext := ⟨rfl, rfl, rfl, rfl, List.prefix_refl _, hS.nodup⟩, dead := ?_, edges := ?_, mtOK := ?_,
             relsInt := hS.relsInt, rels0 := hS.relsInt, nprops := ?_, mtN := ?_, eprops := ?_, mtE := ?_,
             mtERel := ?_, epropsInt := hS.epropsInt, eprops0 := hS.epropsInt }
    · intro n; show n ∈ g0.dead ↔ (n ∈ g0.dead ∨ n ∈ ([] : List Nat)); simp
    · intro r nm a b _
      show g0.mult ⟨a, nm, b⟩ = ([] : List Edge).count ⟨a, r, b⟩ +
        (if ((⟨a, r, b⟩ : Edge) ∈ ([] : List Edge) ∨ a ∈ ([] : List Nat) ∨ b ∈ ([] : List Nat)) then 0 else g0.mult ⟨a, nm, b⟩)
      simp
    · intro e he; exact absurd he (List.not_mem_nil)
    · intro n k _
      show g0.nprop n k = (match ([] : List ((Nat × Nat) × PV)).lookup (n, k) with
        | some v => some v
        | none => if (n, k) ∈ ([] : List (Nat × Nat)) then none else g0.nprop n k)
      simp
    · intro key hk; exact absurd hk (List.not_mem_nil)
    · intro r nm a b k _ _ _
      show g0.eprop ⟨a, nm, b⟩ k = (match ([] : List ((Edge × Nat) × PV)).lookup (⟨a, r, b⟩, k) with
        | some v => some v
        | none => if ((⟨a, r, b⟩ : Edge), k) ∈ ([] : List (Edge × Nat)) then none else g0.eprop ⟨a, nm, b⟩ k)
      simp
    · intro key hk; exact absurd hk (List.not_mem_nil)
    · intro p hp; exact absurd hp (List.not_mem_nil)
  · refine { next := rfl, extEq := rfl, ids := ?_, extPt := ?_, extLt := hL.extLt, extNZ := hL.extNZ,
             extND := hL.extND, extIdND := hL.extIdND, labels := ?_, labelsInt := hL.labelsInt, labelsLt := hL.labelsLt, addOK := ?_,
             delOK := ?_, createdLid := ?_, deadLt := hL.deadLt, small := hL.small }
    · intro i c hc; exact absurd hc (by show ([] : List (Nat × Nat × Nat))[i]? ≠ some c; simp)
    · intro n
      by_cases hlt : n < g0.next
      · rw [if_pos hlt]
      · rw [if_neg hlt, hL.extPt n, List.getElem?_eq_none (by rw [hL.lenE]; omega)]
        show none = (([] : List (Nat × Nat × Nat))[n - g0.next]?).map (·.1)
        simp
    · intro n lid nm _ _ _
      show (n, nm) ∈ g0.labels ↔ (((n, nm) ∈ g0.labels ∨ (∃ x, (x, lid, n) ∈ ([] : List (Nat × Nat × Nat))) ∨
        (n, lid) ∈ ([] : List (Nat × Nat))) ∧ (n, lid) ∉ ([] : List (Nat × Nat)))
      simp
    · intro p hp; exact absurd hp (List.not_mem_nil)
    · intro p hp; exact absurd hp (List.not_mem_nil)
    · intro c hc; exact absurd hc (List.not_mem_nil)

theorem txExtZero_cons (op : TxOp) (ops : List TxOp) (h : txExtZero (op :: ops) = false) :
    (∀ lab, op ≠ .node 0 lab) ∧ txExtZero ops = false := by
  unfold txExtZero at h ⊢
  rw [List.any_cons, Bool.or_eq_false_iff] at h
  refine ⟨?_, h.2⟩
  intro lab hop; subst hop; simp at h

/-- all staged writes of a transaction -/
theorem stage_ops (c : Cfg) {s0 g0} (hL0 : SimL s0 g0) (ops : List TxOp) :
    ∀ s t g, St2 s0 g0 s t g → txWF g ops = true → s.interner.length + ops.length ≤ labelMax →
      txExtZero ops = false → txLabelReAdd ops = false → txEdgeAndEndpointDelete ops = false →
      txDeletesRelWithProps g ops = false →
      (∀ p ∈ t.delL, ∀ nm, s.interner[p.2]? = some nm → TxOp.labelAdd p.1 nm ∉ ops) →
      (∀ e ∈ t.mt.edges, TxOp.tombNode e.src ∉ ops ∧ TxOp.tombNode e.dst ∉ ops) →
      St2 s0 g0 (ops.foldl (stepTx c) (s, t)).1 (ops.foldl (stepTx c) (s, t)).2 (g.apply ops) := by
  induction ops with
  | nil => intro s t g h _ _ _ _ _ _ _ _; exact h
  | cons op ops ih =>
    intro s t g h hwf hb hz hra hed hrp H1 H2
    simp only [txWF, Bool.and_eq_true] at hwf
    obtain ⟨hz1, hz2⟩ := txExtZero_cons op ops hz
    have hrp' : GraphSpec.opDeletesRelWithProps g op = false ∧ txDeletesRelWithProps (g.step op) ops = false := by
      have := hrp; unfold txDeletesRelWithProps at this
      rw [Bool.or_eq_false_iff] at this; exact this
    have hstep := step_sim c hL0 h op hwf.1 (by simp only [List.length_cons] at hb; omega) hz1
      (by
        intro n nm hop lid hm hname
        exact H1 (n, lid) hm nm hname (by rw [hop]; exact List.mem_cons_self))
      (by
        intro n hop e he
        have := H2 e he
        rw [hop] at this
        exact ⟨fun h => this.1 (by rw [h]; exact List.mem_cons_self),
               fun h => this.2 (by rw [h]; exact List.mem_cons_self)⟩)
      (by
        intro a nm b hop p hp
        have := hrp'.1; rw [hop] at this
        simp only [GraphSpec.opDeletesRelWithProps, List.any_eq_false, beq_iff_eq] at this
        exact this p hp)
    obtain ⟨hext', hlen', hpre'⟩ := stepTx_ext c s0 s t op h.G.ext
    have hgoal := ih (stepTx c (s, t) op).1 (stepTx c (s, t) op).2 (g.step op) hstep hwf.2
      (by simp only [List.length_cons] at hb; omega) hz2
      (by
        cases op <;> first | exact hra | (unfold txLabelReAdd at hra; rw [Bool.or_eq_false_iff] at hra; exact hra.2))
      (by
        cases op <;> first | exact hed | (unfold txEdgeAndEndpointDelete at hed; simp only [Bool.or_eq_false_iff] at hed; exact hed.2))
      hrp'.2
      (by
        intro p hp nm hname
        rcases stepTx_delL c s t op p hp with hold | ⟨n, nm0, hop, hpe⟩
        · have hlt := (h.L.delOK p hold).2
          have := H1 p hold nm (old_of_lt hpre' hname hlt)
          exact fun hm => this (List.mem_cons_of_mem _ hm)
        · subst hop; subst hpe
          have hr := (getOrCreateLabel_spec s nm0 h.G.ext.nodup).1
          have hs : (stepTx c (s, t) (.labelDel n nm0)).1 = (s.getOrCreateLabel nm0).1 := rfl
          rw [hs] at hname
          simp only at hname hr
          rw [hr] at hname
          have hnm : nm0 = nm := Option.some.inj hname
          subst hnm
          unfold txLabelReAdd at hra
          rw [Bool.or_eq_false_iff] at hra
          simpa using hra.1)
      (by
        intro e he
        rcases stepTx_edges c s t op e he with hold | ⟨a, nm, b, hop, hee⟩
        · have := H2 e hold
          exact ⟨fun hm => this.1 (List.mem_cons_of_mem _ hm), fun hm => this.2 (List.mem_cons_of_mem _ hm)⟩
        · subst hop; subst hee
          unfold txEdgeAndEndpointDelete at hed
          simp only [Bool.or_eq_false_iff] at hed
          exact ⟨by simpa using hed.1.1, by simpa using hed.1.2⟩)
    simpa [List.foldl_cons, Graph.apply] using hgoal

end Nervus.Storage
