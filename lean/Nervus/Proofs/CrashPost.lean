/-
  Proofs.CrashPost — the state a completed commit leaves: files and memory agree on the extended
  committed list (so that the next operation starts from the invariant again).
-/
import Nervus.Proofs.CrashCommit
namespace Nervus.Crash

theorem foldl_preserve {α : Type} (f : Mem → α) (l : List MemUpd) (h : ∀ u ∈ l, ∀ m, f (applyUpd m u) = f m) (m : Mem) :
    f (l.foldl applyUpd m) = f m := by
  induction l generalizing m with
  | nil => rfl
  | cons u l ih =>
    simp only [List.foldl]
    rw [ih (fun u' hu' => h u' (by simp [hu'])), h u (by simp)]

/-- the fields of the memory after the update list of a commit -/
structure CommitMem (m mF : Mem) (nodeUpds : List MemUpd) (pubRuns : List Run) : Prop where
  pm : mF.pm = lastPm nodeUpds m.pm
  bm : mF.bm = lastBm nodeUpds m.bm
  idStart : mF.idStart = lastStart nodeUpds m.idStart
  idLen : mF.idLen = m.idLen + countInc nodeUpds
  exts : mF.exts = m.exts ++ pushed nodeUpds
  runs : mF.runs = m.runs ++ pubRuns
  segs : mF.segs = m.segs
  proot : mF.proot = m.proot
  ptop : mF.ptop = m.ptop
  epoch : mF.epoch = m.epoch
  nextTxid : mF.nextTxid = m.nextTxid + 2
  walOpen : mF.walOpen = m.walOpen

theorem cutUpds_cases (cfg : Cfg) (ws : WS) : cutUpds cfg ws = [] ∨ cutUpds cfg ws = [MemUpd.tailChecked] := by
  unfold cutUpds; split <;> simp

theorem commit_mem (m : Mem) (cut nodeUpds : List MemUpd) (pub : List MemUpd) (pubRuns : List Run)
    (hcut : cut = [] ∨ cut = [MemUpd.tailChecked]) (hid : ∀ u ∈ nodeUpds, IdUpd u)
    (hpub : (pub = [] ∧ pubRuns = []) ∨ ∃ r, pub = [MemUpd.pushRun r] ∧ pubRuns = [r]) :
    CommitMem m (([MemUpd.bumpTxid] ++ cut ++ nodeUpds ++ pub ++ [MemUpd.bumpTxid]).foldl applyUpd m) nodeUpds pubRuns := by
  simp only [List.foldl_append, List.foldl_cons, List.foldl_nil]
  generalize hA : applyUpd m .bumpTxid = mA
  generalize hB : cut.foldl applyUpd mA = mB
  have hC := foldl_idUpd nodeUpds hid mB
  generalize hCe : nodeUpds.foldl applyUpd mB = mC at hC
  generalize hD : pub.foldl applyUpd mC = mD
  have eA : mA = { m with nextTxid := m.nextTxid + 1 } := by rw [← hA]; rfl
  have eB : mB = mA ∨ mB = { mA with tailChecked := true } := by
    rcases hcut with rfl | rfl
    · left; rw [← hB]; rfl
    · right; rw [← hB]; rfl
  have eD : mD = { mC with runs := mC.runs ++ pubRuns } := by
    rcases hpub with ⟨rfl, rfl⟩ | ⟨r, rfl, rfl⟩
    · rw [← hD]; simp
    · rw [← hD]; rfl
  rcases eB with eB | eB <;> subst eB <;> subst eD <;> subst hC <;> subst eA <;>
    exact ⟨rfl, rfl, rfl, rfl, rfl, rfl, rfl, rfl, rfl, rfl, rfl, rfl⟩

theorem commitA_memUpds (cfg : Cfg) (m : Mem) (vol : PImg) (w : List Frag) (tx : Tx) (ho : m.walOpen = true) :
    memUpds (commitA cfg m vol w tx) =
      [MemUpd.bumpTxid] ++ cutUpds cfg (m.ws w) ++
        memUpds (nodesA cfg (m.ps vol) { start := m.idStart, len := m.idLen } tx.nodes).1 ++
        (if tx.edges.isEmpty && tx.props.isEmpty then []
         else [MemUpd.pushRun { txid := m.nextTxid, edges := tx.edges, props := tx.props }]) ++ [MemUpd.bumpTxid] := by
  have hws : (m.ws w).isOpen = true := ho
  have hrecs : txRecs m.nextTxid m.idLen tx = .begin m.nextTxid :: (body m.idLen tx ++ [.commit m.nextTxid]) := by
    rw [txRecs_eq]; rfl
  obtain ⟨i1, i2, i3, i4⟩ := appendsA_steps cfg (.begin m.nextTxid) (body m.idLen tx ++ [.commit m.nextTxid]) (m.ws w) hws
  rw [← hrecs] at i1 i2 i3 i4
  obtain ⟨nf, _⟩ := (pagerActs_nodes cfg tx.nodes (m.ps vol) { start := m.idStart, len := m.idLen }).facts
  unfold commitA
  simp only [i4, if_true]
  simp only [List.append_assoc]
  rw [show ∀ (x : Action) (l : List Action), [x] ++ l = x :: l from fun _ _ => rfl]
  simp only [memUpds]
  rw [memUpds_append_noFail _ _ i2, i3]
  simp only [List.cons_append, List.nil_append, memUpds]
  rw [memUpds_append_noFail _ _ nf]
  by_cases hr : (tx.edges.isEmpty && tx.props.isEmpty) = true <;> simp [hr, memUpds]

/-- **a completed commit re-establishes the invariant for the extended list** -/
theorem commit_post {cfg : Cfg} {T : List Tx} {fs : FS} {m : Mem} {cs : List CTx} {c : Nat}
    (hsync : cfg.syncSlot = true) (h : InvOpen T fs m cs c) (ht : TailPre cfg fs m) (tx : Tx) (hf : FreshTx T tx) :
    ∃ cs' c', InvOpen (T ++ [tx]) (fs.steps (ioSteps (commitA cfg m fs.pv fs.wf tx)))
      ((memUpds (commitA cfg m fs.pv fs.wf tx)).foldl applyUpd m) cs' c' ∧
      validLen (fs.steps (ioSteps (commitA cfg m fs.pv fs.wf tx))).wf =
        (fs.steps (ioSteps (commitA cfg m fs.pv fs.wf tx))).wf.length := by
  obtain ⟨hS, _⟩ := commitA_steps cfg m fs.pv fs.wf tx h.mwal
  obtain ⟨_, hpj0, hpd0, hst0, hclean0⟩ := cut_state h ht
  have hp0 : PagerOK (allNodes T) c (fs.steps (cutSteps cfg (m.ws fs.wf))).pd := by rw [hpd0]; exact h.pager
  have hs0 : StoreOK T cs (fs.steps (cutSteps cfg (m.ws fs.wf))).pd := by rw [hpd0]; exact h.store
  generalize hfs0 : fs.steps (cutSteps cfg (m.ws fs.wf)) = fs0 at hpj0 hpd0 hst0 hclean0 hp0 hs0
  have hcom0 := hst0.com
  have hrecs : txRecs m.nextTxid m.idLen tx = txRecs m.nextTxid (allNodes T).length tx := by rw [h.mlen]
  obtain ⟨hw1, hd1, hr1, hpd1, hpj1⟩ := steps_ww fs0 (frames (txRecs m.nextTxid m.idLen tx))
  generalize hfs1 : fs0.steps ((frames (txRecs m.nextTxid m.idLen tx)).map Step.ww) = fs1 at hw1 hd1 hr1 hpd1 hpj1
  have hrepNew : Rep (T ++ [tx]) fs0.pd (fs0.wf ++ frames (txRecs m.nextTxid m.idLen tx)) := by
    have hr := (rep_log_prefix hclean0 hcom0 h.log hp0 hs0 m.nextTxid tx h.mtxid hf
      (3 * (txRecs m.nextTxid m.idLen tx).length)).2
    rw [← hrecs] at hr
    have := hr (Nat.le_refl _)
    rwa [List.take_of_length_le (by rw [frames_length]; omega)] at this
  have hq2 : WalQuiet (fs1.step .ws) := ⟨by simp [FS.step], by simp [FS.step]⟩
  have hpj2 : (fs1.step .ws).pj = fs.pj := by simp [FS.step, hpj1, hpj0]
  have hpd2 : (fs1.step .ws).pd = fs.pd := by simp [FS.step, hpd1, hpd0]
  have hwf2 : (fs1.step .ws).wf = fs0.wf ++ frames (txRecs m.nextTxid m.idLen tx) := by simp [FS.step, hw1]
  obtain ⟨cs', c', hcom', hlog', hpager', hstore'⟩ := hrepNew
  rw [hpd0] at hstore'
  have hcN : c' ≤ (allNodes T).length := by
    have h1 := hpager'.lo
    rw [hpd0, h.full] at h1
    exact h1
  have hB : AllImgs (fs1.step .ws) (NG (allNodes (T ++ [tx])) c' fs.pd (allNodes T).length) := by
    intro p' himg
    rw [hpj2, hpd2] at himg
    rw [isImg_inert _ h.pj _ _ himg]
    refine ⟨Frame.refl _, h.pager.start, ?_, ?_, ?_⟩
    · rw [h.full]; exact hcN
    · rw [h.full]; exact Nat.le_refl _
    · intro i hi
      rw [h.pager.slots i (by rw [h.full]; exact hi), allNodes_snoc, getSlot_append_left _ _ _ hi]
  have hpm : OKhdr c' fs.pd (allNodes T).length (m.ps fs.pv).pm := by
    show OKhdr c' fs.pd (allNodes T).length m.pm
    exact (⟨rfl, rfl, h.pager.start, by rw [h.full]; exact hcN, by rw [h.full]; exact Nat.le_refl _, Nat.le_refl _⟩ :
      OKhdr c' fs.pd (allNodes T).length fs.pd.hdr).sameKey h.mpm
  have hdropF : (allNodes (T ++ [tx])).drop (allNodes T).length = tx.nodes ++ [] := by
    rw [allNodes_snoc]; simp
  have hSy : SyncedI (fs1.step .ws) (m.ps fs.pv) := ⟨by rw [hpj2]; exact h.pj, by rw [hpd2]; exact h.mpm, by rw [hpd2]; exact h.mbm⟩
  have hl1 : (m.ps fs.pv).pm.i2eLen = (allNodes T).length := by
    show m.pm.i2eLen = _
    rw [h.mpm.len, h.full]
  have hl2 : ({ start := m.idStart, len := m.idLen } : IdSt).start = (m.ps fs.pv).pm.i2eStart := by
    show m.idStart = m.pm.i2eStart
    rw [h.mstart, h.mpm.start]
  have hl3 : 1 ≤ (m.ps fs.pv).pm.nextPage := by
    show 1 ≤ m.pm.nextPage
    have := h.pager.booted.nextPage
    have := h.mpm.np
    omega
  have hl4 : (allNodes T).length ≤ (allNodes (T ++ [tx])).length := by rw [allNodes_snoc]; simp
  obtain ⟨_, _, hBF, hSF, _, lenF, idlF, idsF, _⟩ :=
    nodesA_safe (cfg := cfg) (N := allNodes (T ++ [tx])) (c := c') (p0 := fs.pd) h.pager.booted hsync tx.nodes
      (allNodes T).length (fs1.step .ws) (m.ps fs.pv) { start := m.idStart, len := m.idLen } [] hdropF hB hSy hpm hl1 h.mlen hl2 hl3 hcN hl4
      h.mbm
  have hMF := memFacts_nodesA (cfg := cfg) (N := allNodes (T ++ [tx])) (c := c') (p0 := fs.pd) h.pager.booted hsync tx.nodes
      (allNodes T).length (fs1.step .ws) (m.ps fs.pv) { start := m.idStart, len := m.idLen } [] hdropF hB hSy hpm hl1 h.mlen hl2 hl3 hcN hl4
      h.mbm
  obtain ⟨_, hpg⟩ := (pagerActs_nodes cfg tx.nodes (m.ps fs.pv) { start := m.idStart, len := m.idLen }).facts
  -- the final file-system state
  have hfinal : fs.steps (ioSteps (commitA cfg m fs.pv fs.wf tx)) =
      (fs1.step .ws).steps (ioSteps (nodesA cfg (m.ps fs.pv) { start := m.idStart, len := m.idLen } tx.nodes).1) := by
    rw [hS, steps_append, hfs0, steps_append, hfs1]
    rfl
  obtain ⟨hwF, hdF, hrF⟩ := steps_pager_wal _ hpg (fs1.step .ws)
  rw [hfinal]
  generalize hfsF : (fs1.step .ws).steps (ioSteps (nodesA cfg (m.ps fs.pv) { start := m.idStart, len := m.idLen } tx.nodes).1) = fsF at hBF hSF hwF hdF hrF
  have hlenN : (allNodes T).length + tx.nodes.length = (allNodes (T ++ [tx])).length := by rw [allNodes_snoc]; simp
  have hNGF : NG (allNodes (T ++ [tx])) c' fs.pd ((allNodes T).length + tx.nodes.length) fsF.pd := hBF _ (isImg_pd _ _)
  -- memory
  rw [commitA_memUpds cfg m fs.pv fs.wf tx h.mwal]
  have hpubcases : ((if tx.edges.isEmpty && tx.props.isEmpty then []
         else [MemUpd.pushRun { txid := m.nextTxid, edges := tx.edges, props := tx.props }]) = [] ∧
       (if tx.edges.isEmpty && tx.props.isEmpty then [] else [({ txid := m.nextTxid, edges := tx.edges, props := tx.props } : Run)]) = []) ∨
      ∃ r, (if tx.edges.isEmpty && tx.props.isEmpty then []
         else [MemUpd.pushRun { txid := m.nextTxid, edges := tx.edges, props := tx.props }]) = [MemUpd.pushRun r] ∧
       (if tx.edges.isEmpty && tx.props.isEmpty then [] else [({ txid := m.nextTxid, edges := tx.edges, props := tx.props } : Run)]) = [r] := by
    by_cases hr : (tx.edges.isEmpty && tx.props.isEmpty) = true
    · left; rw [if_pos hr, if_pos hr]; exact ⟨rfl, rfl⟩
    · right; rw [if_neg hr, if_neg hr]; exact ⟨_, rfl, rfl⟩
  have hCM := commit_mem m (cutUpds cfg (m.ws fs.wf))
    (memUpds (nodesA cfg (m.ps fs.pv) { start := m.idStart, len := m.idLen } tx.nodes).1) _ _
    (cutUpds_cases cfg (m.ws fs.wf)) hMF.idupd hpubcases
  generalize ([MemUpd.bumpTxid] ++ cutUpds cfg (m.ws fs.wf) ++
      memUpds (nodesA cfg (m.ps fs.pv) { start := m.idStart, len := m.idLen } tx.nodes).1 ++
      (if tx.edges.isEmpty && tx.props.isEmpty then []
        else [MemUpd.pushRun { txid := m.nextTxid, edges := tx.edges, props := tx.props }]) ++ [MemUpd.bumpTxid]).foldl applyUpd m = mF at hCM
  have hpmF : SameKey fsF.pd.hdr mF.pm := by
    rw [hCM.pm]
    have : lastPm (memUpds (nodesA cfg (m.ps fs.pv) { start := m.idStart, len := m.idLen } tx.nodes).1) m.pm =
        (nodesA cfg (m.ps fs.pv) { start := m.idStart, len := m.idLen } tx.nodes).2.1.pm := hMF.pm
    rw [this]; exact hSF.2.1
  have hbmF : fsF.pd.bm ≤ mF.bm := by
    rw [hCM.bm]
    have : lastBm (memUpds (nodesA cfg (m.ps fs.pv) { start := m.idStart, len := m.idLen } tx.nodes).1) m.bm =
        (nodesA cfg (m.ps fs.pv) { start := m.idStart, len := m.idLen } tx.nodes).2.1.bm := hMF.bm
    rw [this]; exact hSF.2.2
  -- the run of the new transaction in the log
  have hcsEq : cs' = cs ++ [⟨m.nextTxid, body (allNodes T).length tx⟩] := by
    have h1 : committed (readAll (fs0.wf ++ frames (txRecs m.nextTxid m.idLen tx))) =
        .ok (cs ++ [⟨m.nextTxid, body (allNodes T).length tx⟩]) := by
      have hw0 : fs0.wf = frames (readAll fs0.wf) := clean_eq_frames _ hclean0
      rw [hw0, readAll_frames_append, readAll_frames, hrecs]
      exact committed_full hcom0 _ _ tx
    rw [h1] at hcom'
    exact (Except.ok.inj hcom').symm
  have hnle : ¬ m.nextTxid ≤ (scan cs).ckpt := by have := h.mtxid; have := h.log.ckptle; omega
  have hckEq : (scan cs').ckpt = (scan cs).ckpt := by rw [hcsEq, scan_snoc_body]
  refine ⟨cs', c', ?_, ?_⟩
  have hscEq := scan_snoc_body cs m.nextTxid (allNodes T).length tx
  have hFr : Frame fs.pd fsF.pd := hNGF.frame
  · refine { pj := hSF.1,
             wal := WalStable.of_quiet ⟨by rw [hdF, hwF]; exact hq2.wdur, by rw [hrF]; exact hq2.ren⟩ (by rw [hwF, hwf2]; exact hcom'),
             log := hlog',
             pager := hNGF.pagerOK h.pager.booted (by rw [hlenN]; exact Nat.le_refl _),
             store := hFr.store hstore',
             full := ?_, mpm := hpmF, mbm := hbmF, mlen := ?_, mstart := ?_, mexts := ?_, mruns := ?_, msegs := ?_, mroot := ?_,
             mptop := ?_, mepoch := ?_, mtxid := ?_, mwal := ?_ }
    · rw [← hSF.2.1.len, lenF, hlenN]
    · rw [hCM.idLen, hMF.inc, h.mlen, hlenN]
    · rw [hCM.idStart]
      have : lastStart (memUpds (nodesA cfg (m.ps fs.pv) { start := m.idStart, len := m.idLen } tx.nodes).1) m.idStart =
          (nodesA cfg (m.ps fs.pv) { start := m.idStart, len := m.idLen } tx.nodes).2.2.start := hMF.start
      rw [this, idsF, hSF.2.1.start]
    · rw [hCM.exts, hMF.push, h.mexts, allNodes_snoc]
    · rw [hCM.runs, h.mruns, hckEq, hcsEq, logRuns_append]
      congr 1
      by_cases hr : (tx.edges.isEmpty && tx.props.isEmpty) = true
      · have hr' : ((runOf ⟨m.nextTxid, body (allNodes T).length tx⟩).edges.isEmpty &&
            (runOf ⟨m.nextTxid, body (allNodes T).length tx⟩).props.isEmpty) = true := by
          simpa [runOf, edgesOf_body, propsOf_body] using hr
        simp [logRuns, hnle, hr, hr']
      · have hr' : ¬ ((runOf ⟨m.nextTxid, body (allNodes T).length tx⟩).edges.isEmpty &&
            (runOf ⟨m.nextTxid, body (allNodes T).length tx⟩).props.isEmpty) = true := by
          simpa [runOf, edgesOf_body, propsOf_body] using hr
        simp [logRuns, hnle, hr, hr', runOf, edgesOf_body, propsOf_body]
    · rw [hCM.segs, h.msegs, hcsEq, hscEq]
      have : segEdges fsF.pd = segEdges fs.pd := by funext k; simp [segEdges, segFind, hFr.segs]
      rw [this]
    · rw [hCM.proot, h.mroot, hcsEq, hscEq]
    · rw [hCM.ptop, h.mptop, hcsEq, hscEq]
    · rw [hCM.epoch, h.mepoch, hcsEq, hscEq]
    · rw [hCM.nextTxid, hcsEq, hscEq]
      show max (scan cs).maxTxid m.nextTxid < m.nextTxid + 2
      have := h.mtxid; omega
    · rw [hCM.walOpen, h.mwal]
  · rw [hwF, hwf2]
    have hw0 : fs0.wf = frames (readAll fs0.wf) := clean_eq_frames _ hclean0
    rw [hw0, ← frames_append]
    have := validLen_frames_append (readAll fs0.wf ++ txRecs m.nextTxid m.idLen tx) []
    simp [validLen] at this
    rw [this, frames_length, List.length_append]

end Nervus.Crash
