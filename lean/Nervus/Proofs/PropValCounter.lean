/-
  The pinned decoder's recursion depth is bounded only by the input: `n` nested one-element lists
  (`5n + 1` bytes) reach depth `n`, for every `n` (C25 counterexample family).
-/
import Nervus.Proofs.PropValSafe
namespace Nervus.PropVal
open Nervus

theorem Res.depth_bind_zero {α β : Type} (r : Res α) (k : α → Res β) (hk : ∀ a, (k a).depth = 0) :
    (r.bind k).depth = r.depth := by
  unfold Res.bind
  cases r.val with
  | error e => rfl
  | ok a => simp [hk a]

theorem readU32_one (t : UInt8) (rest : Bytes) : readU32 (t :: 1 :: 0 :: 0 :: 0 :: rest) 1 = some 1 := by
  simp [readU32, slice, leVal]

open Generated in
theorem nest_depth : ∀ (n fuel d : Nat), n < fuel → (decodeRec Cfg.pinned fuel d (nestBytes n)).depth = d + n
  | 0, fuel + 1, d, _ => by
    simp [nestBytes, decodeRec]
  | n + 1, fuel + 1, d, h => by
    have ih := nest_depth n fuel (d + 1) (by omega)
    have hl : ¬ ((pvTagList :: 1 :: 0 :: 0 :: 0 :: nestBytes n).length < 5) := by simp
    have htd : tooDeep Cfg.pinned d = false := rfl
    simp only [nestBytes, decodeRec, Res.enter_depth]
    simp only [pvTagList, pvTagBlob, pvTagDateTime, pvTagString, pvTagFloat, pvTagInt, pvTagNull, pvTagBool]
    simp only [show ¬ ((7 : UInt8) = 0) by decide, show ¬ ((7 : UInt8) = 1) by decide,
      show ¬ ((7 : UInt8) = 2) by decide, show ¬ ((7 : UInt8) = 3) by decide,
      show ¬ ((7 : UInt8) = 4) by decide, show ¬ ((7 : UInt8) = 5) by decide,
      show ¬ ((7 : UInt8) = 6) by decide, if_false, if_true]
    unfold decList
    rw [htd]
    simp only [Bool.false_eq_true, if_false]
    rw [if_neg (by simp [pvTagList])]
    rw [readU32_one]
    simp only [Res.alloc_depth, List.drop_succ_cons, List.drop_zero]
    rw [Res.depth_bind_zero _ _ (fun _ => rfl)]
    unfold loopList
    rw [Res.depth_bind_zero _ _ (fun a => by unfold loopList; rfl)]
    rw [ih]; omega

theorem nestBytes_length (n : Nat) : (nestBytes n).length = 5 * n + 1 := by
  induction n with
  | zero => rfl
  | succ n ih => simp [nestBytes, ih]; omega

/-- on the pinned tree the deepest frame equals the nesting of the input, whatever it is -/
theorem decodeRes_nest_depth (n : Nat) : (decodeRes Cfg.pinned (nestBytes n)).depth = n := by
  unfold decodeRes
  rw [nest_depth n _ 0 (by rw [nestBytes_length]; omega)]
  omega

end Nervus.PropVal
