/-
  Proofs.CrashOpen — `GraphEngine::open` on files that represent `T`: every crash image during the
  recovery itself still represents `T`, and the handle it returns sees exactly `T`.
-/
import Nervus.Proofs.CrashPost
namespace Nervus.Crash

/-- the memory assembled by `IdMap::load` -/
def bootMem (vol : PImg) : Mem :=
  { pm := vol.hdr, bm := vol.bm, idStart := vol.hdr.i2eStart, idLen := vol.hdr.i2eLen,
    exts := (List.range (if vol.hdr.i2eStart = 0 then 0 else vol.hdr.i2eLen)).map (getSlot vol.i2e) }

/-- what the first half of open returns on a fully created database -/
def bootedRes (vol : PImg) (es : List Nat) : BootRes :=
  { acts := [memA (.setPm vol.hdr), memA (.loaded (bootMem vol)), memA (.catalog vol.hdr.catRoot es)],
    ps := { pm := vol.hdr, len := vol.len, bm := vol.bm }, catRoot := vol.hdr.catRoot, entries := es, m0 := bootMem vol }

/-- on a fully created database the first half of open performs no I/O -/
theorem bootA_booted (cfg : Cfg) (vol : PImg) (hb : Booted vol) :
    ∃ es, vol.cat = some es ∧
      bootA cfg vol = .ok (bootedRes vol es) := by
  obtain ⟨es, hcat, hlen, hidx⟩ := hb.cat
  refine ⟨es, hcat, ?_⟩
  have h0 : ¬ vol.len = 0 := by have := hb.len; omega
  have h2 : ¬ vol.len < 2 := by have := hb.len; omega
  unfold bootA
  simp [h0, h2, hb.init, hb.catRoot, hcat, mkIndexA, hlen, bootMem, bootedRes]
  intro x hx _
  exact hidx x hx

/-- the memory `open` has assembled when the log has been scanned and the segments are loaded -/
def replayMem (vol : PImg) (b : BootRes) (sc : RScan) : Mem :=
  { b.m0 with
    pm := b.ps.pm, bm := b.ps.bm, catRootM := b.catRoot, catEntries := b.entries,
    segs := sc.segs.map (fun k => (k, segEdges vol k)),
    epoch := sc.epoch, ckpt := sc.ckpt, proot := sc.proot, ptop := sc.ptop,
    nextTxid := max (sc.maxTxid + 1) 1 }

theorem replayA_eq (cfg : Cfg) (vol : PImg) (w : List Frag) (b : BootRes) (cs : List CTx) (ap : List Nat) (rs : List Run)
    (hcom : committed (readAll w) = .ok cs) (hseg : ∀ k ∈ (scan cs).segs, (segFind vol k).isSome)
    (hplan : planTxs (scan cs).ckpt cs b.m0.exts b.m0.idLen {} = { apply := ap, runs := rs, err := none }) :
    replayA cfg vol w b =
      [memA (.loaded (replayMem vol b (scan cs)))] ++
        (nodesA cfg b.ps { start := b.m0.idStart, len := b.m0.idLen } ap).1 ++ [memA (.setRuns rs)] := by
  unfold replayA
  have hany : ((scan cs).segs.map (fun k => (k, vol.segs.find? (fun s => s.key == k && s.complete)))).any
      (fun s => s.2.isNone) = false := by
    rw [List.any_eq_false]
    intro x hx
    obtain ⟨k, hk, rfl⟩ := List.mem_map.mp hx
    have := hseg k hk
    simp only [segFind] at this
    simp [Option.isNone_iff_eq_none, Option.isSome_iff_ne_none.mp this]
  simp only [hcom, hany, hplan]
  simp [replayMem, segEdges, segFind, List.map_map, Function.comp]

/-- the replay plan on files that represent `T`: apply exactly the nodes the table does not have yet -/
theorem plan_of_rep {T : List Tx} {cs : List CTx} {c : Nat} {p : PImg} (hlog : LogOK T cs c)
    (hp : PagerOK (allNodes T) c p) :
    (bootMem p).exts = (allNodes T).take p.hdr.i2eLen ∧
    planTxs (scan cs).ckpt cs (bootMem p).exts (bootMem p).idLen {} =
      { apply := (allNodes T).drop p.hdr.i2eLen, runs := logRuns (scan cs).ckpt cs, err := none } := by
  have hexts : (bootMem p).exts = (allNodes T).take p.hdr.i2eLen := by
    by_cases hs : p.hdr.i2eStart = 0
    · have := hp.start hs
      simp [bootMem, hs, this]
    · simp only [bootMem, hs, if_false]
      exact range_map_getSlot_eq_take _ _ _ hp.hi hp.slots
  refine ⟨hexts, ?_⟩
  have hseq := planNodes_seq (allNodes T) hlog.nodup hlog.nozero (flatOps (scan cs).ckpt cs) c
    ((allNodes T).length - c) p.hdr.i2eLen [] hlog.nodes (by have := hlog.cle; omega) hp.lo hp.hi
  have hmax : max p.hdr.i2eLen (c + ((allNodes T).length - c)) = (allNodes T).length := by
    have := hlog.cle; have := hp.hi; omega
  rw [hmax, List.take_length] at hseq
  have := planTxs_ok (scan cs).ckpt cs ((allNodes T).take p.hdr.i2eLen) p.hdr.i2eLen {} _ _ _ hseq
  rw [hexts]
  show planTxs (scan cs).ckpt cs ((allNodes T).take p.hdr.i2eLen) p.hdr.i2eLen {} = _
  rw [this]
  simp

theorem open_mem (m1 : Mem) (L : List MemUpd) (rs : List Run) (hid : ∀ u ∈ L, IdUpd u) :
    ((L ++ [MemUpd.setRuns rs]).foldl applyUpd m1).pm = lastPm L m1.pm ∧
    ((L ++ [MemUpd.setRuns rs]).foldl applyUpd m1).idStart = lastStart L m1.idStart ∧
    ((L ++ [MemUpd.setRuns rs]).foldl applyUpd m1).idLen = m1.idLen + countInc L ∧
    ((L ++ [MemUpd.setRuns rs]).foldl applyUpd m1).exts = m1.exts ++ pushed L ∧
    ((L ++ [MemUpd.setRuns rs]).foldl applyUpd m1).runs = rs ∧
    ((L ++ [MemUpd.setRuns rs]).foldl applyUpd m1).segs = m1.segs ∧
    ((L ++ [MemUpd.setRuns rs]).foldl applyUpd m1).proot = m1.proot ∧
    ((L ++ [MemUpd.setRuns rs]).foldl applyUpd m1).nextTxid = m1.nextTxid ∧
    ((L ++ [MemUpd.setRuns rs]).foldl applyUpd m1).walOpen = m1.walOpen ∧
    ((L ++ [MemUpd.setRuns rs]).foldl applyUpd m1).tailChecked = m1.tailChecked ∧
    ((L ++ [MemUpd.setRuns rs]).foldl applyUpd m1).ptop = m1.ptop ∧
    ((L ++ [MemUpd.setRuns rs]).foldl applyUpd m1).epoch = m1.epoch ∧
    ((L ++ [MemUpd.setRuns rs]).foldl applyUpd m1).bm = lastBm L m1.bm := by
  simp only [List.foldl_append, List.foldl_cons, List.foldl_nil]
  rw [foldl_idUpd _ hid]
  exact ⟨rfl, rfl, rfl, rfl, rfl, rfl, rfl, rfl, rfl, rfl, rfl, rfl, rfl⟩

/-- **recovery is crash-safe and complete**: on flat files representing `T`, every prefix of the
    I/O steps of `open` leaves every crash image representing `T`; `open` succeeds and the handle
    satisfies the invariant for `T`. -/
theorem open_safe {cfg : Cfg} {T : List Tx} {fs : FS} (hsync : cfg.syncSlot = true)
    (hpj : fs.pj = []) (hq : WalQuiet fs) (hrep : Rep T fs.pd fs.wf) :
    failOf (openA cfg fs.pv fs.wf) = none ∧
    SafeAlong (SafeFS [T]) fs (ioSteps (openA cfg fs.pv fs.wf)) ∧
    (fs.steps (ioSteps (openA cfg fs.pv fs.wf))).wf = fs.wf ∧
    ∃ cs c, InvOpen T (fs.steps (ioSteps (openA cfg fs.pv fs.wf)))
      ((memUpds (openA cfg fs.pv fs.wf)).foldl applyUpd {}) cs c ∧
      ((memUpds (openA cfg fs.pv fs.wf)).foldl applyUpd {}).tailChecked = false := by
  have hpv : fs.pv = fs.pd := by simp [FS.pv, hpj, applyEffs]
  rw [hpv]
  obtain ⟨cs, c, hcom, hlog, hp, hst⟩ := hrep
  obtain ⟨es, hcat, hboot⟩ := bootA_booted cfg fs.pd hp.booted
  obtain ⟨hexts, hplan⟩ := plan_of_rep hlog hp
  -- the action list
  have hopen : openA cfg fs.pd fs.wf =
      [memA (.setPm fs.pd.hdr), memA (.loaded (bootMem fs.pd)), memA (.catalog fs.pd.hdr.catRoot es)] ++
      ([memA (.loaded (replayMem fs.pd (bootedRes fs.pd es) (scan cs)))] ++
        (nodesA cfg { pm := fs.pd.hdr, len := fs.pd.len, bm := fs.pd.bm } { start := fs.pd.hdr.i2eStart, len := fs.pd.hdr.i2eLen }
          ((allNodes T).drop fs.pd.hdr.i2eLen)).1 ++ [memA (.setRuns (logRuns (scan cs).ckpt cs))]) := by
    unfold openA
    rw [hboot]
    simp only
    rw [replayA_eq cfg fs.pd fs.wf _ cs _ _ hcom hst.segs hplan]
    rfl
  -- node application from the durable node table
  have hl : fs.pd.hdr.i2eLen ≤ (allNodes T).length := hp.hi
  have hB : AllImgs fs (NG (allNodes T) c fs.pd fs.pd.hdr.i2eLen) := by
    intro p' himg
    rw [hpj] at himg
    rw [isImg_nil _ _ himg]
    exact ⟨Frame.refl _, hp.start, hp.lo, Nat.le_refl _, hp.slots⟩
  have hin : Inert fs.pj := by rw [hpj]; exact inert_nil
  have hpm : OKhdr c fs.pd fs.pd.hdr.i2eLen fs.pd.hdr := ⟨rfl, rfl, hp.start, hp.lo, Nat.le_refl _, Nat.le_refl _⟩
  have hnp : 1 ≤ fs.pd.hdr.nextPage := by have := hp.booted.nextPage; omega
  have hdrop : (allNodes T).drop fs.pd.hdr.i2eLen = (allNodes T).drop fs.pd.hdr.i2eLen ++ [] := by simp
  have sa := node_phase (cfg := cfg) (T := T) (cs := cs) (c := c) (k := fs.pd.hdr.i2eLen) hp.booted hsync fs
    { pm := fs.pd.hdr, len := fs.pd.len, bm := fs.pd.bm } { start := fs.pd.hdr.i2eStart, len := fs.pd.hdr.i2eLen }
    ((allNodes T).drop fs.pd.hdr.i2eLen) [] hq hcom hlog hst hdrop hB ⟨hin, SameKey.refl _, Nat.le_refl _⟩ hpm rfl rfl rfl hnp hp.lo hl (Nat.le_refl _)
  obtain ⟨nf, _, hBF, hSF, _, lenF, _, idsF, _⟩ :=
    nodesA_safe (cfg := cfg) (N := allNodes T) (c := c) (p0 := fs.pd) hp.booted hsync ((allNodes T).drop fs.pd.hdr.i2eLen)
      fs.pd.hdr.i2eLen fs { pm := fs.pd.hdr, len := fs.pd.len, bm := fs.pd.bm } { start := fs.pd.hdr.i2eStart, len := fs.pd.hdr.i2eLen } []
      hdrop hB ⟨hin, SameKey.refl _, Nat.le_refl _⟩ hpm rfl rfl rfl hnp hp.lo hl (Nat.le_refl _)
  have hMF := memFacts_nodesA (cfg := cfg) (N := allNodes T) (c := c) (p0 := fs.pd) hp.booted hsync ((allNodes T).drop fs.pd.hdr.i2eLen)
      fs.pd.hdr.i2eLen fs { pm := fs.pd.hdr, len := fs.pd.len, bm := fs.pd.bm } { start := fs.pd.hdr.i2eStart, len := fs.pd.hdr.i2eLen } []
      hdrop hB ⟨hin, SameKey.refl _, Nat.le_refl _⟩ hpm rfl rfl rfl hnp hp.lo hl (Nat.le_refl _)
  obtain ⟨_, hpg⟩ := (pagerActs_nodes cfg ((allNodes T).drop fs.pd.hdr.i2eLen) { pm := fs.pd.hdr, len := fs.pd.len, bm := fs.pd.bm }
    { start := fs.pd.hdr.i2eStart, len := fs.pd.hdr.i2eLen }).facts
  have hio : ioSteps (openA cfg fs.pd fs.wf) =
      ioSteps (nodesA cfg { pm := fs.pd.hdr, len := fs.pd.len, bm := fs.pd.bm } { start := fs.pd.hdr.i2eStart, len := fs.pd.hdr.i2eLen }
        ((allNodes T).drop fs.pd.hdr.i2eLen)).1 := by
    rw [hopen]
    simp only [List.cons_append, List.nil_append, ioSteps]
    rw [ioSteps_append_noFail _ _ nf]
    simp [ioSteps]
  have hfail : failOf (openA cfg fs.pd fs.wf) = none := by
    rw [hopen]
    simp only [List.cons_append, List.nil_append, failOf]
    rw [failOf_append, nf]
    rfl
  have hmu : memUpds (openA cfg fs.pd fs.wf) =
      [MemUpd.setPm fs.pd.hdr, .loaded (bootMem fs.pd), .catalog fs.pd.hdr.catRoot es,
        .loaded (replayMem fs.pd (bootedRes fs.pd es) (scan cs))] ++
      (memUpds (nodesA cfg { pm := fs.pd.hdr, len := fs.pd.len, bm := fs.pd.bm } { start := fs.pd.hdr.i2eStart, len := fs.pd.hdr.i2eLen }
        ((allNodes T).drop fs.pd.hdr.i2eLen)).1 ++ [MemUpd.setRuns (logRuns (scan cs).ckpt cs)]) := by
    rw [hopen]
    simp only [List.cons_append, List.nil_append, memUpds]
    rw [memUpds_append_noFail _ _ nf]
    simp [memUpds]
  obtain ⟨hwF, hdF, hrF⟩ := steps_pager_wal _ hpg fs
  refine ⟨hfail, by rw [hio]; exact sa, by rw [hio]; exact hwF, cs, c, ?_⟩
  rw [hio, hmu]
  generalize hfsF : fs.steps (ioSteps (nodesA cfg { pm := fs.pd.hdr, len := fs.pd.len, bm := fs.pd.bm }
    { start := fs.pd.hdr.i2eStart, len := fs.pd.hdr.i2eLen } ((allNodes T).drop fs.pd.hdr.i2eLen)).1) = fsF at hBF hSF hwF hdF hrF
  have hlenN : fs.pd.hdr.i2eLen + ((allNodes T).drop fs.pd.hdr.i2eLen).length = (allNodes T).length := by
    simp; omega
  have hNGF := hBF _ (isImg_pd _ _)
  have h4 : ([MemUpd.setPm fs.pd.hdr, .loaded (bootMem fs.pd), .catalog fs.pd.hdr.catRoot es,
        .loaded (replayMem fs.pd (bootedRes fs.pd es) (scan cs))] : List MemUpd).foldl applyUpd {} =
      replayMem fs.pd (bootedRes fs.pd es) (scan cs) := rfl
  rw [List.foldl_append, h4]
  generalize hm1 : replayMem fs.pd (bootedRes fs.pd es) (scan cs) = m1
  have e_pm : m1.pm = fs.pd.hdr := by rw [← hm1]; rfl
  have e_st : m1.idStart = fs.pd.hdr.i2eStart := by rw [← hm1]; rfl
  have e_len : m1.idLen = fs.pd.hdr.i2eLen := by rw [← hm1]; rfl
  have e_exts : m1.exts = (allNodes T).take fs.pd.hdr.i2eLen := by rw [← hm1]; exact hexts
  have e_segs : m1.segs = (scan cs).segs.map (fun k => (k, segEdges fs.pd k)) := by rw [← hm1]; rfl
  have e_ptop : m1.ptop = (scan cs).ptop := by rw [← hm1]; rfl
  have e_epoch : m1.epoch = (scan cs).epoch := by rw [← hm1]; rfl
  have e_root : m1.proot = (scan cs).proot := by rw [← hm1]; rfl
  have e_tx : m1.nextTxid = max ((scan cs).maxTxid + 1) 1 := by rw [← hm1]; rfl
  have e_wal : m1.walOpen = true := by rw [← hm1]; rfl
  have e_tc : m1.tailChecked = false := by rw [← hm1]; rfl
  have e_bm : m1.bm = fs.pd.bm := by rw [← hm1]; rfl
  obtain ⟨o1, o2, o3, o4, o5, o6, o7, o8, o9, o10, o11, o12, o13⟩ := open_mem m1 _ (logRuns (scan cs).ckpt cs) hMF.idupd
  generalize (memUpds (nodesA cfg { pm := fs.pd.hdr, len := fs.pd.len, bm := fs.pd.bm } { start := fs.pd.hdr.i2eStart, len := fs.pd.hdr.i2eLen }
      ((allNodes T).drop fs.pd.hdr.i2eLen)).1 ++ [MemUpd.setRuns (logRuns (scan cs).ckpt cs)]).foldl applyUpd m1 = mF
    at o1 o2 o3 o4 o5 o6 o7 o8 o9 o10 o11 o12 o13
  have hpmL : lastPm (memUpds (nodesA cfg { pm := fs.pd.hdr, len := fs.pd.len, bm := fs.pd.bm } { start := fs.pd.hdr.i2eStart, len := fs.pd.hdr.i2eLen }
      ((allNodes T).drop fs.pd.hdr.i2eLen)).1) fs.pd.hdr = _ := hMF.pm
  have hstL : lastStart (memUpds (nodesA cfg { pm := fs.pd.hdr, len := fs.pd.len, bm := fs.pd.bm } { start := fs.pd.hdr.i2eStart, len := fs.pd.hdr.i2eLen }
      ((allNodes T).drop fs.pd.hdr.i2eLen)).1) fs.pd.hdr.i2eStart = _ := hMF.start
  have hbmL : lastBm (memUpds (nodesA cfg { pm := fs.pd.hdr, len := fs.pd.len, bm := fs.pd.bm } { start := fs.pd.hdr.i2eStart, len := fs.pd.hdr.i2eLen }
      ((allNodes T).drop fs.pd.hdr.i2eLen)).1) fs.pd.bm = _ := hMF.bm
  constructor
  · have hFr : Frame fs.pd fsF.pd := hNGF.frame
    refine { pj := hSF.1,
             wal := WalStable.of_quiet ⟨by rw [hdF, hwF]; exact hq.wdur, by rw [hrF]; exact hq.ren⟩ (by rw [hwF]; exact hcom),
             log := hlog,
             pager := hNGF.pagerOK hp.booted (by rw [hlenN]; exact Nat.le_refl _),
             store := hFr.store hst,
             full := ?_, mpm := ?_, mbm := ?_, mlen := ?_, mstart := ?_, mexts := ?_, mruns := o5, msegs := ?_, mroot := ?_,
             mptop := ?_, mepoch := ?_, mtxid := ?_, mwal := ?_ }
    · rw [← hSF.2.1.len, lenF, hlenN]
    · rw [o1, e_pm, hpmL]; exact hSF.2.1
    · rw [o13, e_bm, hbmL]; exact hSF.2.2
    · rw [o3, e_len, hMF.inc, hlenN]
    · rw [o2, e_st, hstL, idsF, hSF.2.1.start]
    · rw [o4, e_exts, hMF.push, List.take_append_drop]
    · rw [o6, e_segs]
      have : segEdges fsF.pd = segEdges fs.pd := by funext k; simp [segEdges, segFind, hFr.segs]
      rw [this]
    · rw [o7, e_root]
    · rw [o11, e_ptop]
    · rw [o12, e_epoch]
    · rw [o8, e_tx]
      omega
    · rw [o9, e_wal]
  · rw [o10, e_tc]

end Nervus.Crash
