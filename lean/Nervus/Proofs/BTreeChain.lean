/-
  C26: the leaf chain.  Order facts along a segment, and the cursor functions
  (`settle` = inner loop of cursor_lower_bound, `nextLeaf` = the leaving part of advance,
  `collect` = the scan loop) computed along a segment.
-/
import Nervus.Proofs.BTreeInv
set_option linter.unusedSectionVars false
set_option linter.unusedVariables false
namespace Nervus.BTree
open Nervus KO

variable {κ : Type} [KeyOrd κ] [LawfulKeyOrd κ]

abbrev GMap (κ : Type) := Nat → Option (Nat × Option κ × Option κ)

/-- what the order lemmas need from `WF`: leaf ranges are not inverted and leaf cells are in range -/
structure LeafOK (pg : Pg κ) (G : GMap κ) : Prop where
  ninv : ∀ p lo hi, G p = some (0, lo, hi) → bLe lo hi
  inr : ∀ p lo hi, G p = some (0, lo, hi) → ∀ e ∈ entriesOf pg p, bLo lo e.1 ∧ bHi e.1 hi

theorem WF.leafOK {pg : Pg κ} {root next : Nat} {g : Ghost κ} (wf : WF pg root next g) : LeafOK pg g.G where
  ninv p lo hi h := (wf.rng p 0 lo hi h).2.2
  inr p lo hi h e he := by
    obtain ⟨es, b, r, hp, _, hin⟩ := wf.leaf p lo hi h
    simp only [entriesOf, hp] at he
    exact hin e he

theorem bLo_of_bLe {lo : Option κ} {h k : κ} (h1 : bLe lo (some h)) (h2 : Le h k) : bLo lo k := by
  cases lo with
  | none => trivial
  | some l => exact le_trans h1 h2

theorem rightOf_leaf {pg : Pg κ} {p r : Nat} (h : rightOf pg p = some r) :
    ∃ es b, pg p = some (.leaf es b r) := by
  unfold rightOf at h
  split at h
  · next es b r' hp => cases h; exact ⟨es, b, hp⟩
  · cases h

theorem Seg_zero {pg : Pg κ} {G : GMap κ} {alo : Option κ} {ps : List Nat} {z : Nat} {zhi : Option κ}
    (h : Seg pg G 0 alo ps z zhi) : ps = [] ∧ z = 0 ∧ alo = zhi := by
  cases ps with
  | nil => exact ⟨rfl, h.1.symm, h.2⟩
  | cons p ps => obtain ⟨hp, hpos, _⟩ := h; omega

/-- lower bounds grow along a segment that ends at a real page -/
theorem Seg_bLo {pg : Pg κ} {G : GMap κ} (ok : LeafOK pg G) :
    ∀ (ps : List Nat) (a : Nat) (alo : Option κ) (z : Nat) (zlo : Option κ),
      Seg pg G a alo ps z zlo → 0 < z → ∀ k, bLo zlo k → bLo alo k := by
  intro ps
  induction ps with
  | nil => intro a alo z zlo h _ k hk; rw [h.2]; exact hk
  | cons p ps ih =>
    intro a alo z zlo h hz k hk
    obtain ⟨hp, hpos, hi, r, hG, hr, hn, hrest⟩ := h
    have := ih r hi z zlo hrest hz k hk
    cases hi with
    | none =>
      have hr0 := hn rfl
      subst hr0
      have := (Seg_zero hrest).2.1
      omega
    | some h' => exact bLo_of_bLe (ok.ninv p alo (some h') hG) this

/-- pairs stored left of a segment's end page are smaller than every key at or above its lower bound -/
theorem Seg_before {pg : Pg κ} {G : GMap κ} (ok : LeafOK pg G) :
    ∀ (ps : List Nat) (a : Nat) (alo : Option κ) (z : Nat) (zlo : Option κ),
      Seg pg G a alo ps z zlo → 0 < z → ∀ e ∈ contents pg ps, ∀ k, bLo zlo k → Lt e.1 k := by
  intro ps
  induction ps with
  | nil => intro a alo z zlo _ _ e he; simp [contents] at he
  | cons p ps ih =>
    intro a alo z zlo h hz e he k hk
    obtain ⟨hp, hpos, hi, r, hG, hr, hn, hrest⟩ := h
    simp only [contents, List.flatMap_cons, List.mem_append] at he
    rcases he with he | he
    · have hb := Seg_bLo ok ps r hi z zlo hrest hz k hk
      cases hi with
      | none =>
        have hr0 := hn rfl
        subst hr0
        have := (Seg_zero hrest).2.1
        omega
      | some h' => exact lt_of_lt_of_le ((ok.inr p alo (some h') hG e he).2) hb
    · exact ih r hi z zlo hrest hz e he k hk

/-- pairs stored in a segment are at or above its lower bound -/
theorem Seg_after {pg : Pg κ} {G : GMap κ} (ok : LeafOK pg G) :
    ∀ (ps : List Nat) (a : Nat) (alo : Option κ) (z : Nat) (zhi : Option κ),
      Seg pg G a alo ps z zhi → ∀ e ∈ contents pg ps, bLo alo e.1 := by
  intro ps
  induction ps with
  | nil => intro a alo z zhi _ e he; simp [contents] at he
  | cons p ps ih =>
    intro a alo z zhi h e he
    obtain ⟨hp, hpos, hi, r, hG, hr, hn, hrest⟩ := h
    simp only [contents, List.flatMap_cons, List.mem_append] at he
    rcases he with he | he
    · exact (ok.inr p alo hi hG e he).1
    · have := ih r hi z zhi hrest e he
      cases hi with
      | none =>
        have hr0 := hn rfl
        subst hr0
        have := (Seg_zero hrest).1
        subst this
        simp [contents] at he
      | some h' => exact bLo_of_bLe (ok.ninv p alo (some h') hG) this

/-- pairs stored right of a leaf are larger than every key below that leaf's upper bound -/
theorem Seg_after_hi {pg : Pg κ} {G : GMap κ} (ok : LeafOK pg G)
    (ps : List Nat) (r : Nat) (hi : Option κ) (hn : hi = none → r = 0)
    (h : Seg pg G r hi ps 0 none) : ∀ e ∈ contents pg ps, ∀ k, bHi k hi → Lt k e.1 := by
  intro e he k hk
  cases hi with
  | none =>
    have hr0 := hn rfl
    subst hr0
    have := (Seg_zero h).1
    subst this
    simp [contents] at he
  | some h' => exact lt_of_lt_of_le hk (Seg_after ok ps r (some h') 0 none h e he)

/-! ### cursor functions along a segment -/

theorem contents_cons (pg : Pg κ) (p : Nat) (ps : List Nat) :
    contents pg (p :: ps) = entriesOf pg p ++ contents pg ps := by
  simp [contents]

theorem contents_append (pg : Pg κ) (A B : List Nat) :
    contents pg (A ++ B) = contents pg A ++ contents pg B := by
  simp [contents]

/-- `nextLeaf` finds the first non-empty leaf of the rest of the chain -/
theorem nextLeaf_spec (c : Cfg) (hc : c.Std) (pg : Pg κ) (pages : PageMap (Node κ)) (hpg : pages.get = pg) (G : GMap κ) :
    ∀ (B : List Nat) (r : Nat) (hi : Option κ) (fuel : Nat), Seg pg G r hi B 0 none → B.length < fuel →
      (nextLeaf c pages fuel r = .ok none ∧ contents pg B = []) ∨
      (∃ q es rq hq B2, nextLeaf c pages fuel r = .ok (some ⟨q, es, rq, 0⟩) ∧ 0 < es.length ∧
        contents pg B = es ++ contents pg B2 ∧ Seg pg G rq hq B2 0 none ∧ B2.length < B.length) := by
  intro B
  induction B with
  | nil =>
    intro r hi fuel h hf
    have hr : r = 0 := h.1
    subst hr
    left
    cases fuel with
    | zero => omega
    | succ f => simp [nextLeaf, contents]
  | cons p ps ih =>
    intro r hi fuel h hf
    obtain ⟨hp, hpos, hi', r', hG, hr, hn, hrest⟩ := h
    subst hp
    obtain ⟨es, b, hleaf⟩ := rightOf_leaf hr
    cases fuel with
    | zero => simp at hf
    | succ f =>
      have hne : ¬ p = 0 := by omega
      have hget : pages.get p = some (.leaf es b r') := by rw [hpg]; exact hleaf
      by_cases hes : 0 < es.length
      · right
        refine ⟨p, es, r', hi', ps, ?_, hes, ?_, hrest, by simp⟩
        · simp only [nextLeaf, hne, if_false, hget, hes, if_true]
        · rw [contents_cons]; simp [entriesOf, hleaf]
      · have hnil : es = [] := by
          cases es with
          | nil => rfl
          | cons _ _ => simp at hes
        subst hnil
        have hstep : nextLeaf c pages (f + 1) p = nextLeaf c pages f r' := by
          simp only [nextLeaf, hne, if_false, hget, List.length_nil, Nat.lt_irrefl, hc.adv, if_true]
        rw [hstep]
        have hc' : contents pg (p :: ps) = contents pg ps := by
          rw [contents_cons]; simp [entriesOf, hleaf]
        rcases ih r' hi' f hrest (by simp at hf; omega) with ⟨h1, h2⟩ | ⟨q, es', rq, hq, B2, h1, h2, h3, h4, h5⟩
        · left; exact ⟨h1, by rw [hc', h2]⟩
        · right; exact ⟨q, es', rq, hq, B2, h1, h2, by rw [hc', h3], h4, by simp; omega⟩

/-- the scan loop from a valid cursor returns the rest of its leaf and everything right of it -/
theorem collect_spec (c : Cfg) (hc : c.Std) (pg : Pg κ) (pages : PageMap (Node κ)) (hpg : pages.get = pg) (G : GMap κ) :
    ∀ (n : Nat) (B : List Nat), B.length ≤ n → ∀ (p : Nat) (es : List (κ × Nat)) (r s : Nat) (hi : Option κ) (fuel : Nat),
      Seg pg G r hi B 0 none → s < es.length → B.length < fuel →
      collect c pages fuel ⟨p, es, r, s⟩ = .ok (es.drop s ++ contents pg B) := by
  intro n
  induction n with
  | zero =>
    intro B hB p es r s hi fuel hseg hs hf
    have : B = [] := List.eq_nil_of_length_eq_zero (by omega)
    subst this
    have hr : r = 0 := hseg.1
    subst hr
    cases fuel with
    | zero => simp at hf
    | succ f => simp [collect, hs, nextLeaf, contents]
  | succ n ih =>
    intro B hB p es r s hi fuel hseg hs hf
    cases fuel with
    | zero => omega
    | succ f =>
      rcases nextLeaf_spec c hc pg pages hpg G B r hi (f + 1) hseg hf with ⟨h1, h2⟩ | ⟨q, es', rq, hq, B2, h1, h2, h3, h4, h5⟩
      · simp only [collect, hs, if_true, h1, h2, List.append_nil]
      · have hrec := ih B2 (by omega) q es' rq 0 hq f h4 h2 (by omega)
        simp only [collect, hs, if_true, h1, hrec, h3, List.drop_zero]

theorem head?_append_ne {α : Type} (a b : List α) (h : a ≠ []) : (a ++ b).head? = a.head? := by
  cases a with
  | nil => exact absurd rfl h
  | cons x xs => rfl

/-- cursor_lower_bound's inner loop followed by the scan loop returns the rest of the leaf and
    everything right of it; the cursor it stops at points at the first of these pairs -/
theorem settle_collect_spec (c : Cfg) (hc : c.Std) (pg : Pg κ) (pages : PageMap (Node κ)) (hpg : pages.get = pg) (G : GMap κ) :
    ∀ (B : List Nat) (p : Nat) (es : List (κ × Nat)) (r s : Nat) (hi : Option κ) (fuel fuel2 : Nat),
      Seg pg G r hi B 0 none → s ≤ es.length → B.length < fuel → B.length < fuel2 →
      ∃ cur, settle pages fuel ⟨p, es, r, s⟩ = .ok cur ∧
        collect c pages fuel2 cur = .ok (es.drop s ++ contents pg B) ∧
        cur.es[cur.slot]? = (es.drop s ++ contents pg B).head? := by
  intro B
  induction B with
  | nil =>
    intro p es r s hi fuel fuel2 hseg hs hf hf2
    have hr : r = 0 := hseg.1
    subst hr
    cases fuel with
    | zero => simp at hf
    | succ f =>
    cases fuel2 with
    | zero => simp at hf2
    | succ f2 =>
      by_cases hlt : s < es.length
      · refine ⟨⟨p, es, 0, s⟩, ?_, ?_, ?_⟩
        · simp [settle, hlt]
        · simp [collect, hlt, nextLeaf, contents]
        · simp [contents, List.head?_drop]
      · refine ⟨⟨p, es, 0, s⟩, ?_, ?_, ?_⟩
        · simp [settle, hlt]
        · have : es.drop s = [] := List.drop_eq_nil_of_le (by omega)
          simp [collect, hlt, contents, this]
        · have : es.drop s = [] := List.drop_eq_nil_of_le (by omega)
          simp [contents, this, List.getElem?_eq_none (by omega : es.length ≤ s)]
  | cons q qs ih =>
    intro p es r s hi fuel fuel2 hseg hs hf hf2
    cases fuel with
    | zero => simp at hf
    | succ f =>
      by_cases hlt : s < es.length
      · refine ⟨⟨p, es, r, s⟩, ?_, ?_, ?_⟩
        · have hne0 : es.length ≠ 0 := by omega
          simp only [settle, hlt, hne0, ne_eq, not_false_eq_true, and_self, if_true]
        · exact collect_spec c hc pg pages hpg G (q :: qs).length (q :: qs) (Nat.le_refl _) p es r s hi fuel2 hseg hlt hf2
        · have hne : es.drop s ≠ [] := by
            intro h; have := List.drop_eq_nil_iff.mp h; omega
          rw [head?_append_ne _ _ hne, List.head?_drop]
      · obtain ⟨hq, hpos, hi', r', hG, hr, hn, hrest⟩ := hseg
        subst hq
        obtain ⟨es', b', hleaf⟩ := rightOf_leaf hr
        have hget : pages.get q = some (.leaf es' b' r') := by rw [hpg]; exact hleaf
        have hne : ¬ q = 0 := by omega
        obtain ⟨cur, h1, h2, h3⟩ := ih q es' r' 0 hi' f fuel2 hrest (Nat.zero_le _) (by simp at hf; omega) (by simp at hf2; omega)
        have hdrop : es.drop s = [] := List.drop_eq_nil_of_le (by omega)
        have hcont : es.drop s ++ contents pg (q :: qs) = es'.drop 0 ++ contents pg qs := by
          rw [hdrop, contents_cons]; simp [entriesOf, hleaf]
        refine ⟨cur, ?_, ?_, ?_⟩
        · simp only [settle, hlt, and_false, if_false, hne, hget]
          exact h1
        · rw [hcont]; exact h2
        · rw [hcont]; exact h3

end Nervus.BTree
