/-
  Proofs/EngineReplay2.lean — the per-transaction replay round trip and the read congruence it needs.
-/
import Nervus.Proofs.EngineReplay
import Nervus.Proofs.EngineCommitG
namespace Nervus.Storage

/-- two runs that no read can tell apart -/
structure RunEq (r r' : Run) : Prop where
  txid : r.txid = r'.txid
  edges : r.edges.Perm r'.edges
  tombNodes : ∀ n, n ∈ r.tombNodes ↔ n ∈ r'.tombNodes
  tombEdges : ∀ e, e ∈ r.tombEdges ↔ e ∈ r'.tombEdges
  nprops : ∀ k, r.nprops.lookup k = r'.nprops.lookup k
  eprops : ∀ k, r.eprops.lookup k = r'.eprops.lookup k
  nDel : ∀ k, k ∈ r.nDel ↔ k ∈ r'.nDel
  eDel : ∀ k, k ∈ r.eDel ↔ k ∈ r'.eDel

/-- the graph records of a commit, in the order of the CURRENT source (regenerated table) -/
def graphRecords (t : Txn) (run : Run) : List WalRec := Cfg.current.commitOrder.flatMap (t.recordsOf run)

/-- regenerated fact: tombstones are logged before CreateEdge -/
theorem graphRecords_eq (t : Txn) (run : Run) :
    graphRecords t run =
      t.created.map (fun c => WalRec.createNode c.1 c.2.1 c.2.2) ++
      (t.addL.map (fun p => WalRec.addNodeLabel p.1 p.2) ++
      (t.delL.map (fun p => WalRec.removeNodeLabel p.1 p.2) ++
      (run.tombNodes.map WalRec.tombstoneNode ++
      (run.tombEdges.map WalRec.tombstoneEdge ++
      (run.edges.map WalRec.createEdge ++
      (t.mt.nprops.map (fun p => WalRec.setNodeProperty p.1.1 p.1.2 p.2) ++
      (t.mt.nDel.map (fun p => WalRec.removeNodeProperty p.1 p.2) ++
      (t.mt.eprops.map (fun p => WalRec.setEdgeProperty p.1.1 p.1.2 p.2) ++
      (t.mt.eDel.map (fun p => WalRec.removeEdgeProperty p.1 p.2) ++ []))))))))) := by
  simp only [graphRecords, Cfg.current, Generated.commitOrder, List.flatMap_cons, List.flatMap_nil,
    Txn.recordsOf]

/-- **recover ∘ log = id, one transaction**: replaying the records of a commit through a fresh
    memtable gives a run no read can tell from the published one -/
theorem replay_commit_roundtrip (t : Txn) (hwf : t.mt.WF) (txid : Nat) (i i' : IdMap) (mt' : MemTable)
    (h : (graphRecords t (t.mt.freeze txid)).foldlM replayOp (i, {}) = .ok (i', mt')) :
    RunEq (mt'.freeze txid) (t.mt.freeze txid) := by
  have hm := replay_fold_mem _ _ _ h
  simp only at hm
  rw [graphRecords_eq] at hm
  simp only [List.foldl_append, List.foldl_nil] at hm
  rw [fold_ignored (fun c : Nat × Nat × Nat => WalRec.createNode c.1 c.2.1 c.2.2) (fun _ _ => rfl),
    fold_ignored (fun p : Nat × Nat => WalRec.addNodeLabel p.1 p.2) (fun _ _ => rfl),
    fold_ignored (fun p : Nat × Nat => WalRec.removeNodeLabel p.1 p.2) (fun _ _ => rfl),
    fold_tombNode, fold_tombEdge _ _ rfl, fold_createEdge, fold_setN _ _ rfl, fold_delN,
    fold_setE _ _ rfl, fold_delE] at hm
  subst hm
  refine ⟨rfl, ?_, ?_, ?_, ?_, ?_, ?_, ?_⟩
  · show (isort Edge.le ([] ++ isort Edge.le t.mt.edges)).Perm (isort Edge.le t.mt.edges)
    exact isort_perm _ _
  · intro n
    show n ∈ isort (· ≤ ·) ((isort (· ≤ ·) t.mt.tombNodes).foldl (fun s n => setInsert n s) []) ↔
      n ∈ isort (· ≤ ·) t.mt.tombNodes
    rw [mem_isort, mem_fold_setInsert]; simp
  · intro e
    show e ∈ isort Edge.le ((isort Edge.le t.mt.tombEdges).foldl (fun s e => setInsert e s) []) ↔
      e ∈ isort Edge.le t.mt.tombEdges
    rw [mem_isort, mem_fold_setInsert]; simp
  · intro k
    show (t.mt.nDel.foldl (fun a k => mapErase k a) (t.mt.nprops.foldl (fun a p => upsert p.1 p.2 a) [])).lookup k =
      t.mt.nprops.lookup k
    rw [lookup_fold_erase, lookup_fold_upsert _ _ hwf.nKeys]
    split
    · rename_i hk; rw [hwf.nDisj k hk]
    · cases t.mt.nprops.lookup k <;> rfl
  · intro k
    show (t.mt.eDel.foldl (fun a k => mapErase k a) (t.mt.eprops.foldl (fun a p => upsert p.1 p.2 a) [])).lookup k =
      t.mt.eprops.lookup k
    rw [lookup_fold_erase, lookup_fold_upsert _ _ hwf.eKeys]
    split
    · rename_i hk; rw [hwf.eDisj k hk]
    · cases t.mt.eprops.lookup k <;> rfl
  · intro k
    show k ∈ t.mt.nDel.foldl (fun s k => setInsert k s) [] ↔ k ∈ t.mt.nDel
    rw [mem_fold_setInsert]; simp
  · intro k
    show k ∈ t.mt.eDel.foldl (fun s k => setInsert k s) [] ↔ k ∈ t.mt.eDel
    rw [mem_fold_setInsert]; simp

/-! ### reads cannot tell `RunEq` runs apart -/

/-- run lists that are pointwise `RunEq` -/
inductive RunsEq : List Run → List Run → Prop
  | nil : RunsEq [] []
  | cons {r r' rs rs'} : RunEq r r' → RunsEq rs rs' → RunsEq (r :: rs) (r' :: rs')

theorem RunEq.visE {rs rs' : List Run} (h : RunsEq rs rs') (e : Edge) : visE e rs = visE e rs' := by
  induction h with
  | nil => rfl
  | cons hr _ ih =>
    rw [visE_cons', visE_cons', hr.edges.count_eq, ih]
    congr 1
    simp only [hr.tombEdges, hr.tombNodes]

theorem RunEq.isTombNode {rs rs' : List Run} (h : RunsEq rs rs') (n : Nat) :
    isTombNode rs n = isTombNode rs' n := by
  induction h with
  | nil => rfl
  | cons hr _ ih =>
    rw [isTombNode_cons, isTombNode_cons, ih]
    congr 1
    rw [Bool.eq_iff_iff]; simp [hr.tombNodes]

theorem RunEq.npropRuns {rs rs' : List Run} (h : RunsEq rs rs') (n k : Nat) :
    npropRuns n k rs = npropRuns n k rs' := by
  induction h with
  | nil => rfl
  | cons hr _ ih =>
    simp only [Storage.npropRuns, hr.nprops, ih]
    have : (∀ r r' : Run, RunEq r r' → r.nDel.contains (n, k) = r'.nDel.contains (n, k)) := by
      intro r r' h; rw [Bool.eq_iff_iff]; simp [h.nDel]
    rw [this _ _ hr]

theorem RunEq.epropRuns {rs rs' : List Run} (h : RunsEq rs rs') (e : Edge) (k : Nat) :
    epropRuns e k rs = epropRuns e k rs' := by
  induction h with
  | nil => rfl
  | cons hr _ ih =>
    simp only [Storage.epropRuns, hr.eprops, ih]
    have : (∀ r r' : Run, RunEq r r' → r.eDel.contains (e, k) = r'.eDel.contains (e, k)) := by
      intro r r' h; rw [Bool.eq_iff_iff]; simp [h.eDel]
    rw [this _ _ hr]

/-! ### every memtable built through the write API is well-formed -/

theorem createNode_mt (s : Engine) (t : Txn) (x l : Nat) (r : Txn × Nat) (h : t.createNode s x l = some r) :
    r.1.mt = t.mt := by
  unfold Txn.createNode at h
  split at h
  · cases h
  · split at h
    · cases h
    · cases h; rfl

theorem stepTx_mtWF (c : Cfg) (st : Engine × Txn) (op : GraphSpec.TxOp) (h : st.2.mt.WF) :
    (stepTx c st op).2.mt.WF := by
  cases op with
  | node x lab =>
    simp only [stepTx]
    split
    · rename_i r hr; rw [createNode_mt _ _ _ _ _ hr]; exact h
    · exact h
  | labelAdd n nm => exact h
  | labelDel n nm => exact h
  | edge a nm b => exact ⟨h.nKeys, h.eKeys, h.nDisj, h.eDisj⟩
  | tombNode n => exact ⟨h.nKeys, h.eKeys, h.nDisj, h.eDisj⟩
  | tombEdge a nm b => exact ⟨h.nKeys, h.eKeys, h.nDisj, h.eDisj⟩
  | nprop n k v => exact h.setNodeProp n k v
  | npropDel n k => exact h.removeNodeProp n k
  | eprop a nm b k v => exact h.setEdgeProp _ k v
  | epropDel a nm b k => exact h.removeEdgeProp _ k
  | vec n v =>
    show (st.2.setVector c st.1 n v).2.mt.WF
    unfold Txn.setVector
    split <;> exact h

theorem fold_mtWF (c : Cfg) (ops : List GraphSpec.TxOp) :
    ∀ st : Engine × Txn, st.2.mt.WF → (ops.foldl (stepTx c) st).2.mt.WF := by
  induction ops with
  | nil => intro st h; exact h
  | cons op ops ih => intro st h; exact ih _ (stepTx_mtWF c st op h)

end Nervus.Storage
