/-
  WalRecord codec (C25): `decode_body (encode_body r) = r` for every record kind, and `decode_body` never panics.
-/
import Nervus.Model.WalRec
import Nervus.Proofs.PropValRoundtrip
namespace Nervus.WalRec
open Nervus Nervus.PropVal

@[simp] theorem le4_length (n : Nat) : (le4 n).length = 4 := leBytes_length 4 n
@[simp] theorem le8_length (n : Nat) : (le8 n).length = 8 := leBytes_length 8 n
theorem leVal_le4 {n : Nat} (h : n < two32) : leVal (le4 n) = n :=
  leVal_leBytes 4 n (by unfold two32 at h; omega)
theorem leVal_le8 {n : Nat} (h : n < two64) : leVal (le8 n) = n :=
  leVal_leBytes 8 n (by unfold two64 at h; omega)

/-! ### value codec, packaged -/

/-- nesting the configured decoder accepts -/
def Fits (cfg : PropVal.Cfg) (n : Nat) : Prop := ∀ m, cfg.maxDepth = some m → n ≤ m

/-- `decode (encode v ++ rest) = v`: the value round trip, trailing bytes ignored -/
theorem decode_encode_append (cfg : PropVal.Cfg) (v : PV) (rest : Bytes) (hw : v.wf = true) (hf : Fits cfg v.nesting) :
    decode cfg (encode v ++ rest) = .ok v := by
  unfold decode decodeRes
  rw [rt_pv cfg v _ 0 rest (by simp; omega) hw (by intro m hm; have := hf m hm; omega)]
  rfl

theorem decode_no_panic (cfg : PropVal.Cfg) (bs : Bytes) :
    decode cfg bs ≠ .error .panic ∧ decode cfg bs ≠ .error .fuel := by
  have g := decodeRes_good cfg bs
  unfold decode
  cases h : (decodeRes cfg bs).val with
  | ok a => simp [Except.map]
  | error e =>
    simp only [Except.map]
    constructor
    · intro hc; apply g.noPanic; rw [h]; cases hc; rfl
    · intro hc; apply g.noFuel; rw [h]; cases hc; rfl

/-! ### reading fields of an encoded payload -/

theorem rd_mid (pre x post : Bytes) (a b : Nat) (ha : a = pre.length) (hb : b = pre.length + x.length) :
    rd (pre ++ (x ++ post)) a b = .ok (leVal x) := by
  subst ha hb; unfold rd; rw [slice_append]

theorem rd_head (x post : Bytes) (b : Nat) (hb : b = x.length) : rd (x ++ post) 0 b = .ok (leVal x) := by
  have := rd_mid [] x post 0 b rfl (by simp [hb]); simpa using this

theorem rd_last (pre x : Bytes) (a b : Nat) (ha : a = pre.length) (hb : b = pre.length + x.length) :
    rd (pre ++ x) a b = .ok (leVal x) := by
  have := rd_mid pre x [] a b ha hb; simpa using this

theorem rd_whole (x : Bytes) (b : Nat) (hb : b = x.length) : rd x 0 b = .ok (leVal x) := by
  have := rd_head x [] b hb; simpa using this

theorem rdStr_mid (pre s post : Bytes) (a b : Nat) (msg : String) (ha : a = pre.length)
    (hb : b = pre.length + s.length) (hu : validUtf8 s = true) : rdStr (pre ++ (s ++ post)) a b msg = .ok s := by
  subst ha hb; unfold rdStr; rw [slice_append]; simp [hu]

theorem rdStr_last (pre s : Bytes) (a b : Nat) (msg : String) (ha : a = pre.length)
    (hb : b = pre.length + s.length) (hu : validUtf8 s = true) : rdStr (pre ++ s) a b msg = .ok s := by
  have := rdStr_mid pre s [] a b msg ha hb hu; simpa using this

theorem rdSegs_enc : ∀ (segs : List (Nat × Nat)) (pre post : Bytes),
    (∀ x ∈ segs, x.1 < two64 ∧ x.2 < two64) →
    rdSegs (pre ++ (encSegs segs ++ post)) segs.length pre.length = .ok segs
  | [], _, _, _ => rfl
  | (i, m) :: t, pre, post, h => by
    have hi := h (i, m) (by simp)
    have ht : ∀ x ∈ t, x.1 < two64 ∧ x.2 < two64 := fun x hx => h x (by simp [hx])
    simp only [encSegs, List.length_cons, rdSegs, List.append_assoc]
    have h1 : rd (pre ++ (le8 i ++ (le8 m ++ (encSegs t ++ post)))) pre.length (pre.length + 8) = .ok i := by
      rw [rd_mid pre (le8 i) _ _ _ rfl (by simp), leVal_le8 hi.1]
    have h2 : rd (pre ++ (le8 i ++ (le8 m ++ (encSegs t ++ post)))) (pre.length + 8) (pre.length + 16) = .ok m := by
      have := rd_mid (pre ++ le8 i) (le8 m) (encSegs t ++ post) (pre.length + 8) (pre.length + 16) (by simp) (by simp)
      rw [List.append_assoc] at this
      rw [this, leVal_le8 hi.2]
    have h3 := rdSegs_enc t (pre ++ (le8 i ++ le8 m)) post ht
    have e : pre ++ (le8 i ++ le8 m) ++ (encSegs t ++ post) = pre ++ (le8 i ++ (le8 m ++ (encSegs t ++ post))) := by simp
    have e2 : (pre ++ (le8 i ++ le8 m)).length = pre.length + 16 := by simp
    rw [e, e2] at h3
    simp [h1, h2, h3, bind, Except.bind, pure, Except.pure]

theorem encSegs_length : ∀ (segs : List (Nat × Nat)), (encSegs segs).length = segs.length * 16
  | [] => rfl
  | (i, m) :: t => by simp [encSegs, encSegs_length t]; omega

/-! ### round trip -/

/-- the codec configurations in which the encoder never writes what the decoder refuses -/
def Coherent (cfg : Cfg) : Prop :=
  (cfg.pv.maxDepth = none ∨ cfg.encodeChecksNesting = true) ∧ cfg.manifestTailCheck ≤ 16

theorem encStr_ok {s out : Bytes} (h : encStr s = .ok out) : s.length < two32 ∧ out = le4 s.length ++ s := by
  unfold encStr at h
  split at h
  · injection h with h; exact ⟨by assumption, h.symm⟩
  · cases h

theorem encVal_ok {cfg : Cfg} (hc : Coherent cfg) {v : PV} {out : Bytes} (h : encVal cfg v = .ok out) :
    v.wf = true ∧ Fits cfg.pv v.nesting ∧ out = encode v := by
  unfold encVal at h
  by_cases hg : nestingRefused cfg v = true
  · rw [if_pos hg] at h; cases h
  · rw [if_neg hg] at h
    unfold encodeChecked at h
    by_cases hw : v.wf = true
    · rw [if_pos hw] at h
      simp only [Except.ok.injEq] at h
      refine ⟨hw, ?_, h.symm⟩
      intro m hm
      rcases hc.1 with hn | hn
      · rw [hn] at hm; cases hm
      · unfold nestingRefused at hg; rw [hn, hm] at hg; simp at hg; exact hg
    · rw [if_neg hw] at h; cases h

theorem drop_prefix (pre post : Bytes) (n : Nat) (h : n = pre.length) : (pre ++ post).drop n = post := by
  subst h; simp

attribute [local simp] armPageWrite armCreateLabel armCreateNode armAddNodeLabel armRemoveNodeLabel armCreateEdge
  armTombstoneNode armTombstoneEdge armManifestSwitch armCheckpoint armSetNodeProperty armSetEdgeProperty
  armRemoveNodeProperty armRemoveEdgeProperty

attribute [local simp] Generated.walTagBeginTx Generated.walTagCommitTx Generated.walTagPageWrite
  Generated.walTagPageFree Generated.walTagCreateLabel Generated.walTagCreateNode Generated.walTagAddNodeLabel
  Generated.walTagRemoveNodeLabel Generated.walTagCreateEdge Generated.walTagTombstoneNode
  Generated.walTagTombstoneEdge Generated.walTagManifestSwitch Generated.walTagCheckpoint
  Generated.walTagSetNodeProperty Generated.walTagSetEdgeProperty Generated.walTagRemoveNodeProperty
  Generated.walTagRemoveEdgeProperty

theorem readU64_le8 {n : Nat} (h : n < two64) : readU64 (le8 n) = .ok n := by
  unfold readU64; simp [rd_whole (le8 n) 8 (by simp), leVal_le8 h]

theorem u32_iff {n : Nat} : u32 n = true ↔ n < two32 := by simp [u32]
theorem u64_iff {n : Nat} : u64 n = true ↔ n < two64 := by simp [u64]

/-- **record round trip**, all 17 kinds: whatever `encode_body` produced, `decode_body` reads back -/
theorem rec_roundtrip_cfg (cfg : Cfg) (hc : Coherent cfg) (r : Rec) (hw : r.wf = true) (body : Bytes)
    (he : encodeBody cfg r = .ok body) : decodeBody cfg body = .ok r := by
  cases r with
  | beginTx t =>
    simp [encodeBody, encodePayload, Rec.tag, Except.map] at he; subst he
    simp [Rec.wf, u64_iff] at hw
    simp [decodeBody, readU64_le8 hw, Except.map]
  | commitTx t =>
    simp [encodeBody, encodePayload, Rec.tag, Except.map] at he; subst he
    simp [Rec.wf, u64_iff] at hw
    simp [decodeBody, readU64_le8 hw, Except.map]
  | pageWrite p page =>
    simp [encodeBody, encodePayload, Rec.tag, Except.map] at he; subst he
    simp [Rec.wf, u64_iff] at hw
    have h1 := rd_head (le8 p) page 8 (by simp)
    have h2 : slice (le8 p ++ page) 8 (8 + Generated.walPageSize) = some page := by
      have := slice_append' (le8 p) page [] 8 (8 + Generated.walPageSize) (by simp) (by simp [hw.2])
      simpa using this
    simp [decodeBody, h1, h2, leVal_le8 hw.1, hw.2, bind, Except.bind, pure, Except.pure]
  | pageFree p =>
    simp [encodeBody, encodePayload, Rec.tag, Except.map] at he; subst he
    simp [Rec.wf, u64_iff] at hw
    simp [decodeBody, readU64_le8 hw, Except.map]
  | createLabel name l =>
    simp only [encodeBody, encodePayload, Rec.tag] at he
    cases hs : encStr name with
    | error e => rw [hs] at he; simp [Except.map] at he
    | ok ks =>
      rw [hs] at he; simp [Except.map] at he; subst he
      obtain ⟨hlen, rfl⟩ := encStr_ok hs
      simp [Rec.wf, u32_iff] at hw
      have h1 := rd_head (le4 l) (le4 name.length ++ name) 4 (by simp)
      have h2 := rd_mid (le4 l) (le4 name.length) name 4 8 (by simp) (by simp)
      have h3 : rdStr (le4 l ++ (le4 name.length ++ name)) 8 (8 + name.length) "invalid UTF-8 in label name" = .ok name := by
        rw [← List.append_assoc]; exact rdStr_last _ _ _ _ _ (by simp) (by simp) hw.1
      simp (disch := omega) [decodeBody, h1, h2, h3, leVal_le4 hw.2, leVal_le4 hlen, bind, Except.bind, pure, Except.pure, if_neg]
  | createNode e l i =>
    simp [encodeBody, encodePayload, Rec.tag, Except.map] at he; subst he
    simp [Rec.wf, u32_iff, u64_iff] at hw
    have h1 := rd_head (le8 e) (le4 l ++ le4 i) 8 (by simp)
    have h2 := rd_mid (le8 e) (le4 l) (le4 i) 8 12 (by simp) (by simp)
    have h3 : rd (le8 e ++ (le4 l ++ le4 i)) 12 16 = .ok (leVal (le4 i)) := by
      rw [← List.append_assoc]; exact rd_last _ _ _ _ (by simp) (by simp)
    simp [decodeBody, h1, h2, h3, leVal_le8 hw.1.1, leVal_le4 hw.1.2, leVal_le4 hw.2, bind, Except.bind, pure, Except.pure]
  | addNodeLabel n l =>
    simp [encodeBody, encodePayload, Rec.tag, Except.map] at he; subst he
    simp [Rec.wf, u32_iff] at hw
    have h1 := rd_head (le4 n) (le4 l) 4 (by simp)
    have h2 := rd_last (le4 n) (le4 l) 4 8 (by simp) (by simp)
    simp [decodeBody, h1, h2, leVal_le4 hw.1, leVal_le4 hw.2, bind, Except.bind, pure, Except.pure]
  | removeNodeLabel n l =>
    simp [encodeBody, encodePayload, Rec.tag, Except.map] at he; subst he
    simp [Rec.wf, u32_iff] at hw
    have h1 := rd_head (le4 n) (le4 l) 4 (by simp)
    have h2 := rd_last (le4 n) (le4 l) 4 8 (by simp) (by simp)
    simp [decodeBody, h1, h2, leVal_le4 hw.1, leVal_le4 hw.2, bind, Except.bind, pure, Except.pure]
  | createEdge s r d =>
    simp [encodeBody, encodePayload, Rec.tag, Except.map] at he; subst he
    simp [Rec.wf, u32_iff] at hw
    have h1 := rd_head (le4 s) (le4 r ++ le4 d) 4 (by simp)
    have h2 := rd_mid (le4 s) (le4 r) (le4 d) 4 8 (by simp) (by simp)
    have h3 : rd (le4 s ++ (le4 r ++ le4 d)) 8 12 = .ok (leVal (le4 d)) := by
      rw [← List.append_assoc]; exact rd_last _ _ _ _ (by simp) (by simp)
    simp [decodeBody, h1, h2, h3, leVal_le4 hw.1.1, leVal_le4 hw.1.2, leVal_le4 hw.2, bind, Except.bind, pure, Except.pure]
  | tombstoneNode n =>
    simp [encodeBody, encodePayload, Rec.tag, Except.map] at he; subst he
    simp [Rec.wf, u32_iff] at hw
    simp [decodeBody, rd_whole (le4 n) 4 (by simp), leVal_le4 hw, bind, Except.bind, pure, Except.pure]
  | tombstoneEdge s r d =>
    simp [encodeBody, encodePayload, Rec.tag, Except.map] at he; subst he
    simp [Rec.wf, u32_iff] at hw
    have h1 := rd_head (le4 s) (le4 r ++ le4 d) 4 (by simp)
    have h2 := rd_mid (le4 s) (le4 r) (le4 d) 4 8 (by simp) (by simp)
    have h3 : rd (le4 s ++ (le4 r ++ le4 d)) 8 12 = .ok (leVal (le4 d)) := by
      rw [← List.append_assoc]; exact rd_last _ _ _ _ (by simp) (by simp)
    simp [decodeBody, h1, h2, h3, leVal_le4 hw.1.1, leVal_le4 hw.1.2, leVal_le4 hw.2, bind, Except.bind, pure, Except.pure]
  | manifestSwitch e segs p s =>
    simp only [encodeBody, encodePayload, Rec.tag] at he
    split at he
    · rename_i hlen
      simp [Except.map] at he; subst he
      simp [Rec.wf, u64_iff] at hw
      obtain ⟨⟨⟨he', hsegs⟩, hp⟩, hs⟩ := hw
      have hk := hc.2
      have hlen' : segs.length < two32 := hlen
      have hsl := encSegs_length segs
      have h1 := rd_head (le8 e) (le4 segs.length ++ (encSegs segs ++ (le8 p ++ le8 s))) 8 (by simp)
      have h2 := rd_mid (le8 e) (le4 segs.length) (encSegs segs ++ (le8 p ++ le8 s)) 8 12 (by simp) (by simp)
      have h3 : rdSegs (le8 e ++ (le4 segs.length ++ (encSegs segs ++ (le8 p ++ le8 s)))) segs.length 12 = .ok segs := by
        have := rdSegs_enc segs (le8 e ++ le4 segs.length) (le8 p ++ le8 s) (fun x hx => hsegs x.1 x.2 hx)
        simpa using this
      have h4 : rd (le8 e ++ (le4 segs.length ++ (encSegs segs ++ (le8 p ++ le8 s)))) (12 + segs.length * 16)
          (12 + segs.length * 16 + 8) = .ok p := by
        have := rd_mid (le8 e ++ (le4 segs.length ++ encSegs segs)) (le8 p) (le8 s) (12 + segs.length * 16)
          (12 + segs.length * 16 + 8) (by simp [hsl]; omega) (by simp [hsl]; omega)
        rw [leVal_le8 hp] at this
        simpa using this
      have h5 : rd (le8 e ++ (le4 segs.length ++ (encSegs segs ++ (le8 p ++ le8 s)))) (12 + segs.length * 16 + 8)
          (12 + segs.length * 16 + 16) = .ok s := by
        have := rd_last (le8 e ++ (le4 segs.length ++ (encSegs segs ++ le8 p))) (le8 s) (12 + segs.length * 16 + 8)
          (12 + segs.length * 16 + 16) (by simp [hsl]; omega) (by simp [hsl]; omega)
        rw [leVal_le8 hs] at this
        simpa using this
      have hl1 : ¬ (8 + (4 + (segs.length * 16 + (8 + 8))) < 8 + 4 + 8 + 8) := by omega
      have hl2 : ¬ (8 + (4 + (segs.length * 16 + (8 + 8))) < 12 + segs.length * 16 + cfg.manifestTailCheck) := by omega
      simp [decodeBody, h1, h2, h3, h4, h5, hsl, hl1, hl2, leVal_le8 he', leVal_le4 hlen', bind, Except.bind, pure, Except.pure]
    · simp [Except.map] at he
  | checkpoint a b c d =>
    simp [encodeBody, encodePayload, Rec.tag, Except.map] at he; subst he
    simp [Rec.wf, u64_iff] at hw
    obtain ⟨⟨⟨ha, hb⟩, hc'⟩, hd⟩ := hw
    have h1 := rd_head (le8 a) (le8 b ++ (le8 c ++ le8 d)) 8 (by simp)
    have h2 := rd_mid (le8 a) (le8 b) (le8 c ++ le8 d) 8 16 (by simp) (by simp)
    have h3 : rd (le8 a ++ (le8 b ++ (le8 c ++ le8 d))) 16 24 = .ok (leVal (le8 c)) := by
      have := rd_mid (le8 a ++ le8 b) (le8 c) (le8 d) 16 24 (by simp) (by simp)
      simpa using this
    have h4 : rd (le8 a ++ (le8 b ++ (le8 c ++ le8 d))) 24 32 = .ok (leVal (le8 d)) := by
      have := rd_last (le8 a ++ (le8 b ++ le8 c)) (le8 d) 24 32 (by simp) (by simp)
      simpa using this
    simp [decodeBody, h1, h2, h3, h4, leVal_le8 ha, leVal_le8 hb, leVal_le8 hc', leVal_le8 hd, bind, Except.bind, pure, Except.pure]
  | setNodeProperty n k v =>
    simp only [encodeBody, encodePayload, Rec.tag] at he
    cases hs : encStr k with
    | error e => rw [hs] at he; simp [Except.map] at he
    | ok ks =>
      rw [hs] at he; simp only at he
      cases hv : encVal cfg v with
      | error e => rw [hv] at he; simp [Except.map] at he
      | ok vb =>
        rw [hv] at he; simp [Except.map] at he; subst he
        obtain ⟨hlen, rfl⟩ := encStr_ok hs
        obtain ⟨hvw, hvf, rfl⟩ := encVal_ok hc hv
        simp [Rec.wf, u32_iff] at hw
        have h1 := rd_head (le4 n) (le4 k.length ++ (k ++ encode v)) 4 (by simp)
        have h2 := rd_mid (le4 n) (le4 k.length) (k ++ encode v) 4 8 (by simp) (by simp)
        have h3 : rdStr (le4 n ++ (le4 k.length ++ (k ++ encode v))) 8 (8 + k.length) "invalid UTF-8 in key" = .ok k := by
          have := rdStr_mid (le4 n ++ le4 k.length) k (encode v) 8 (8 + k.length) "invalid UTF-8 in key" (by simp) (by simp) hw.1.2
          simpa using this
        have h4 : (le4 n ++ (le4 k.length ++ (k ++ encode v))).drop (8 + k.length) = encode v := by
          have := drop_prefix (le4 n ++ (le4 k.length ++ k)) (encode v) (8 + k.length) (by simp; omega)
          simpa using this
        have h5 : rdVal cfg (encode v) = .ok v := by
          unfold rdVal
          have := decode_encode_append cfg.pv v [] hvw hvf
          simp at this; rw [this]
        simp (disch := omega) [decodeBody, h1, h2, h3, h4, h5, leVal_le4 hw.1.1, leVal_le4 hlen, bind, Except.bind, pure, Except.pure, if_neg]
  | setEdgeProperty s r d k v =>
    simp only [encodeBody, encodePayload, Rec.tag] at he
    cases hs : encStr k with
    | error e => rw [hs] at he; simp [Except.map] at he
    | ok ks =>
      rw [hs] at he; simp only at he
      cases hv : encVal cfg v with
      | error e => rw [hv] at he; simp [Except.map] at he
      | ok vb =>
        rw [hv] at he; simp [Except.map] at he; subst he
        obtain ⟨hlen, rfl⟩ := encStr_ok hs
        obtain ⟨hvw, hvf, rfl⟩ := encVal_ok hc hv
        simp [Rec.wf, u32_iff] at hw
        obtain ⟨⟨⟨⟨hs', hr'⟩, hd'⟩, hu⟩, -⟩ := hw
        have h1 := rd_head (le4 s) (le4 r ++ (le4 d ++ (le4 k.length ++ (k ++ encode v)))) 4 (by simp)
        have h2 := rd_mid (le4 s) (le4 r) (le4 d ++ (le4 k.length ++ (k ++ encode v))) 4 8 (by simp) (by simp)
        have h3 : rd (le4 s ++ (le4 r ++ (le4 d ++ (le4 k.length ++ (k ++ encode v))))) 8 12 = .ok (leVal (le4 d)) := by
          have := rd_mid (le4 s ++ le4 r) (le4 d) (le4 k.length ++ (k ++ encode v)) 8 12 (by simp) (by simp)
          simpa using this
        have h4 : rd (le4 s ++ (le4 r ++ (le4 d ++ (le4 k.length ++ (k ++ encode v))))) 12 16 = .ok (leVal (le4 k.length)) := by
          have := rd_mid (le4 s ++ (le4 r ++ le4 d)) (le4 k.length) (k ++ encode v) 12 16 (by simp) (by simp)
          simpa using this
        have h5 : rdStr (le4 s ++ (le4 r ++ (le4 d ++ (le4 k.length ++ (k ++ encode v))))) 16 (16 + k.length) "invalid UTF-8 in key" = .ok k := by
          have := rdStr_mid (le4 s ++ (le4 r ++ (le4 d ++ le4 k.length))) k (encode v) 16 (16 + k.length) "invalid UTF-8 in key" (by simp) (by simp) hu
          simpa using this
        have h6 : (le4 s ++ (le4 r ++ (le4 d ++ (le4 k.length ++ (k ++ encode v))))).drop (16 + k.length) = encode v := by
          have := drop_prefix (le4 s ++ (le4 r ++ (le4 d ++ (le4 k.length ++ k)))) (encode v) (16 + k.length) (by simp; omega)
          simpa using this
        have h7 : rdVal cfg (encode v) = .ok v := by
          unfold rdVal
          have := decode_encode_append cfg.pv v [] hvw hvf
          simp at this; rw [this]
        simp (disch := omega) [decodeBody, h1, h2, h3, h4, h5, h6, h7, leVal_le4 hs', leVal_le4 hr', leVal_le4 hd', leVal_le4 hlen,
          bind, Except.bind, pure, Except.pure, if_neg]
  | removeNodeProperty n k =>
    simp only [encodeBody, encodePayload, Rec.tag] at he
    cases hs : encStr k with
    | error e => rw [hs] at he; simp [Except.map] at he
    | ok ks =>
      rw [hs] at he; simp [Except.map] at he; subst he
      obtain ⟨hlen, rfl⟩ := encStr_ok hs
      simp [Rec.wf, u32_iff] at hw
      have h1 := rd_head (le4 n) (le4 k.length ++ k) 4 (by simp)
      have h2 := rd_mid (le4 n) (le4 k.length) k 4 8 (by simp) (by simp)
      have h3 : rdStr (le4 n ++ (le4 k.length ++ k)) 8 (8 + k.length) "invalid UTF-8 in key" = .ok k := by
        rw [← List.append_assoc]; exact rdStr_last _ _ _ _ _ (by simp) (by simp) hw.2
      simp (disch := omega) [decodeBody, h1, h2, h3, leVal_le4 hw.1, leVal_le4 hlen, bind, Except.bind, pure, Except.pure, if_neg]
  | removeEdgeProperty s r d k =>
    simp only [encodeBody, encodePayload, Rec.tag] at he
    cases hs : encStr k with
    | error e => rw [hs] at he; simp [Except.map] at he
    | ok ks =>
      rw [hs] at he; simp [Except.map] at he; subst he
      obtain ⟨hlen, rfl⟩ := encStr_ok hs
      simp [Rec.wf, u32_iff] at hw
      obtain ⟨⟨⟨hs', hr'⟩, hd'⟩, hu⟩ := hw
      have h1 := rd_head (le4 s) (le4 r ++ (le4 d ++ (le4 k.length ++ k))) 4 (by simp)
      have h2 := rd_mid (le4 s) (le4 r) (le4 d ++ (le4 k.length ++ k)) 4 8 (by simp) (by simp)
      have h3 : rd (le4 s ++ (le4 r ++ (le4 d ++ (le4 k.length ++ k)))) 8 12 = .ok (leVal (le4 d)) := by
        have := rd_mid (le4 s ++ le4 r) (le4 d) (le4 k.length ++ k) 8 12 (by simp) (by simp)
        simpa using this
      have h4 : rd (le4 s ++ (le4 r ++ (le4 d ++ (le4 k.length ++ k)))) 12 16 = .ok (leVal (le4 k.length)) := by
        have := rd_mid (le4 s ++ (le4 r ++ le4 d)) (le4 k.length) k 12 16 (by simp) (by simp)
        simpa using this
      have h5 : rdStr (le4 s ++ (le4 r ++ (le4 d ++ (le4 k.length ++ k)))) 16 (16 + k.length) "invalid UTF-8 in key" = .ok k := by
        have := rdStr_last (le4 s ++ (le4 r ++ (le4 d ++ le4 k.length))) k 16 (16 + k.length) "invalid UTF-8 in key" (by simp) (by simp) hu
        simpa using this
      simp (disch := omega) [decodeBody, h1, h2, h3, h4, h5, leVal_le4 hs', leVal_le4 hr', leVal_le4 hd', leVal_le4 hlen,
        bind, Except.bind, pure, Except.pure, if_neg]

theorem encStr_of_lt {s : Bytes} (h : s.length < two32) : encStr s = .ok (le4 s.length ++ s) := by
  simp [encStr, h]

theorem encVal_of {cfg : Cfg} {v : PV} (hw : v.wf = true) (hn : nestingRefused cfg v = false) :
    encVal cfg v = .ok (encode v) := by
  simp [encVal, hn, encodeChecked, hw]

/-- `encode_body` succeeds on every well-formed record that fits the wire format -/
theorem encodeBody_ok (cfg : Cfg) (r : Rec) (hw : r.wf = true) (hf : r.fitsWire cfg = true) :
    ∃ body, encodeBody cfg r = .ok body := by
  cases r <;> simp [Rec.fitsWire] at hf <;> simp [Rec.wf] at hw <;>
    simp [encodeBody, encodePayload, Except.map, hf, encStr_of_lt, encVal_of, hw]

end Nervus.WalRec
