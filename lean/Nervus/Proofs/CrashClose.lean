/-
  Proofs.CrashClose — `GraphEngine::checkpoint_on_close` is crash-safe at every I/O step: with
  unpublished runs it only syncs; otherwise it rewrites the log as a snapshot (manifest +
  checkpoint in a temporary file, renamed over the log): whichever of the two logs a crash leaves,
  it represents the committed list.
-/
import Nervus.Proofs.CrashCompact
import Nervus.Proofs.CrashOpen
namespace Nervus.Crash

/-- the committed list of the snapshot log -/
def closeCs (m : Mem) : List CTx :=
  [⟨m.nextTxid, sysOps m.epoch (m.segs.map (·.1)) m.proot m.ptop (m.nextTxid - 1)⟩]

def closeRecs (m : Mem) : List Rec :=
  [.begin m.nextTxid, .manifest m.epoch (m.segs.map (·.1)) m.proot m.ptop,
   .checkpoint (m.nextTxid - 1) m.epoch m.proot m.ptop, .commit m.nextTxid]

theorem scan_closeCs (m : Mem) :
    scan (closeCs m) = { epoch := m.epoch, segs := m.segs.map (·.1), ckpt := m.nextTxid - 1, maxTxid := max 0 m.nextTxid,
                         proot := m.proot, ptop := m.ptop } := by
  have := scan_snoc_manifest [] m.nextTxid m.epoch (m.segs.map (·.1)) m.proot m.ptop (m.nextTxid - 1) (Nat.zero_le _)
  simpa [closeCs, sysOps, scan] using this

/-- the page file together with the snapshot log represents the committed list -/
theorem rep_snapshot {T : List Tx} {fs : FS} {m : Mem} {cs : List CTx} {c : Nat} (h : InvOpen T fs m cs c)
    (hruns : m.runs = []) : Rep T fs.pd (frames (closeRecs m)) := by
  have hsc := scan_closeCs m
  have hsegs : m.segs.map (·.1) = (scan cs).segs := msegs_keys h
  have hlr : logRuns (scan cs).ckpt cs = [] := by rw [← h.mruns]; exact hruns
  refine ⟨closeCs m, (allNodes T).length, ?_, ?_, h.pager.raise (by rw [h.full]; exact Nat.le_refl _), ?_⟩
  · rw [readAll_frames]
    have := committed_full_ops (rs0 := []) (cs := []) rfl m.nextTxid
      (sysOps m.epoch (m.segs.map (·.1)) m.proot m.ptop (m.nextTxid - 1)) (sysOps_isOp _ _ _ _ _)
    simpa [closeRecs, closeCs, sysOps] using this
  · refine ⟨h.log.nodup, h.log.nozero, Nat.le_refl _, ?_, ?_, ?_, ?_⟩
    · rw [Nat.sub_self]
      exact flatOps_sys_nodes _ _ _ (by simp [sysOps, nodesOfOps])
    · rw [hsc]; show m.nextTxid - 1 ≤ max 0 m.nextTxid; omega
    · simp [TxMono, closeCs]
    · intro tx htx
      simp only [closeCs, List.mem_singleton] at htx
      subst htx
      rw [hsc]; show m.nextTxid ≤ max 0 m.nextTxid; omega
  · obtain ⟨covered, h1, h2, h3⟩ := h.store.props
    have hruns' : logRuns (scan (closeCs m)).ckpt (closeCs m) = [] := logRuns_sys _ _ _ _ _ _ _
    refine ⟨?_, h.store.segKeys, h.store.treeKeys, ?_, by rw [hruns']; intro q hq; simp at hq, ?_⟩
    · rw [hsc]; show ∀ k ∈ m.segs.map (·.1), _; rw [hsegs]; exact h.store.segs
    · intro e
      rw [hruns', hsc]
      show e ∈ (m.segs.map (·.1)).flatMap (segEdges fs.pd) ++ [] ↔ _
      rw [hsegs, ← h.store.edges e, hlr]
      simp
    · refine ⟨covered, ?_, ?_, ?_⟩
      · intro q hq
        rcases h1 q hq with h' | h'
        · rw [hlr] at h'; simp at h'
        · exact Or.inr h'
      · rw [hsc]; show m.proot = 0 → _; rw [h.mroot]; exact h2
      · rw [hsc]; show m.proot ≠ 0 → ∃ t, treeFind fs.pd m.proot = some t ∧ TreeOK _ _ m.ptop t; rw [h.mroot, h.mptop]; exact h3

theorem safeAlong_noop {P : FS → Prop} {fs : FS} {s : Step} {S : List Step} (hs : fs.step s = fs) (h : P fs)
    (hr : SafeAlong P fs S) : SafeAlong P fs (s :: S) :=
  safeAlong_cons h (by rw [hs]; exact hr)

theorem closeA_steps (cfg : Cfg) (m : Mem) (vol : PImg) (w : List Frag) (ho : m.walOpen = true) :
    ioSteps (closeA cfg m vol w) =
      if m.runs.isEmpty then [Step.ps, .tc, .tw, .tw, .tw, .tw, .ts, .rn (frames (closeRecs m)), .ws] else [Step.ps, .ws] := by
  by_cases hr : m.runs.isEmpty = true
  · simp [closeA, hr, ioSteps, closeRecs]
  · simp [closeA, hr, ho, ioSteps]

/-- **close is crash-safe at every I/O step**, and the files it leaves are flat and represent `T` -/
theorem close_safe {cfg : Cfg} {T : List Tx} {fs : FS} {m : Mem} {cs : List CTx} {c : Nat} (h : InvOpen T fs m cs c) :
    SafeAlong (SafeFS [T]) fs (ioSteps (closeA cfg m fs.pv fs.wf)) := by
  rw [closeA_steps cfg m fs.pv fs.wf h.mwal]
  have hpv : fs.pv = fs.pd := h.pv
  have hsafe0 : SafeFS [T] fs := safeFS_of_stable h.pj h.wal h.log h.pager h.store
  -- after the page-file sync
  have hst1 : WalStable cs (fs.step .ps) := ⟨h.wal.ren, h.wal.wdur, h.wal.stable⟩
  have hpd1 : (fs.step .ps).pd = fs.pd := hpv
  have hpj1 : (fs.step .ps).pj = [] := rfl
  have hsafe1 : SafeFS [T] (fs.step .ps) :=
    safeFS_of_stable (by rw [hpj1]; exact inert_nil) hst1 h.log (by rw [hpd1]; exact h.pager) (by rw [hpd1]; exact h.store)
  generalize hfs1 : fs.step .ps = fs1 at hst1 hpd1 hpj1 hsafe1
  by_cases hr : m.runs.isEmpty = true
  · have hruns : m.runs = [] := by simpa using hr
    simp only [hr, if_true]
    apply safeAlong_cons hsafe0
    rw [hfs1]
    refine safeAlong_noop rfl hsafe1 (safeAlong_noop rfl hsafe1 (safeAlong_noop rfl hsafe1 (safeAlong_noop rfl hsafe1
      (safeAlong_noop rfl hsafe1 (safeAlong_noop rfl hsafe1 ?_)))))
    apply safeAlong_cons hsafe1
    have hrep := rep_snapshot h hruns
    have hin : Inert (fs1.step (.rn (frames (closeRecs m)))).pj := by show Inert fs1.pj; rw [hpj1]; exact inert_nil
    apply safeAlong_cons
    · -- the rename is not durable yet: old or new log
      intro mode
      refine ⟨T, by simp, ?_⟩
      rw [crashP_inert _ hin]
      show Rep T fs1.pd _
      rw [hpd1]
      cases mode with
      | proc => exact hrep
      | power sel wk lose =>
        cases lose with
        | true =>
          show Rep T fs.pd (fs1.wf.take fs1.wdur)
          exact ⟨cs, c, hst1.stable _ (Nat.le_refl _), h.log, h.pager, h.store⟩
        | false =>
          show Rep T fs.pd ((frames (closeRecs m)).take ((frames (closeRecs m)).length + wk))
          rw [List.take_of_length_le (by omega)]
          exact hrep
    · apply safeAlong_nil
      have hq : WalQuiet ((fs1.step (.rn (frames (closeRecs m)))).step .ws) := ⟨rfl, rfl⟩
      intro mode
      refine ⟨T, by simp, ?_⟩
      rw [hq.crashW, crashP_inert _ (by show Inert fs1.pj; rw [hpj1]; exact inert_nil)]
      show Rep T fs1.pd (frames (closeRecs m))
      rw [hpd1]; exact hrep
  · simp only [hr]
    apply safeAlong_cons hsafe0
    rw [hfs1]
    apply safeAlong_cons hsafe1
    apply safeAlong_nil
    have hq : WalQuiet (fs1.step .ws) := ⟨rfl, rfl⟩
    exact safeFS_of_rep (by show Inert fs1.pj; rw [hpj1]; exact inert_nil) hq
      ⟨cs, c, hst1.com, h.log, by show PagerOK _ _ fs1.pd; rw [hpd1]; exact h.pager,
        by show StoreOK _ _ fs1.pd; rw [hpd1]; exact h.store⟩

end Nervus.Crash
