/-
  Proofs/BulkTx.lean — the transactional load `txLoad ns es` is a well-formed transaction that triggers no
  C06 finding (C30), so `C06_partial` applies to it.
-/
import Nervus.Proofs.BulkAgree
namespace Nervus.Storage
open Nervus.GraphSpec (Graph TxOp Op Rel opWF txWF txDeletesRelWithProps txLabelReAdd txEdgeAndEndpointDelete txExtZero)

def isLoadOp : TxOp → Bool
  | .node _ _ => true
  | .nprop _ _ _ => true
  | .edge _ _ _ => true
  | .eprop _ _ _ _ _ => true
  | _ => false

theorem load_noDeletes (ops : List TxOp) (h : ∀ o ∈ ops, isLoadOp o = true) :
    ∀ g, txDeletesRelWithProps g ops = false := by
  induction ops with
  | nil => intro g; rfl
  | cons o os ih =>
    intro g
    have ho := h o List.mem_cons_self
    simp only [txDeletesRelWithProps, Bool.or_eq_false_iff]
    refine ⟨?_, ih (fun x hx => h x (List.mem_cons_of_mem _ hx)) _⟩
    cases o <;> simp [isLoadOp] at ho <;> rfl

theorem load_noLabelReAdd (ops : List TxOp) (h : ∀ o ∈ ops, isLoadOp o = true) : txLabelReAdd ops = false := by
  induction ops with
  | nil => rfl
  | cons o os ih =>
    have ho := h o List.mem_cons_self
    have ih' := ih (fun x hx => h x (List.mem_cons_of_mem _ hx))
    cases o <;> simp [isLoadOp] at ho <;> simp only [txLabelReAdd, ih']

theorem load_noEndpointDelete (ops : List TxOp) (h : ∀ o ∈ ops, isLoadOp o = true) :
    txEdgeAndEndpointDelete ops = false := by
  induction ops with
  | nil => rfl
  | cons o os ih =>
    have ho := h o List.mem_cons_self
    have hos := fun x hx => h x (List.mem_cons_of_mem _ hx)
    have ih' := ih hos
    have hnt : ∀ n, os.contains (TxOp.tombNode n) = false := by
      intro n
      rw [Bool.eq_false_iff]; intro hc
      have := hos _ (by simpa using hc)
      simp [isLoadOp] at this
    cases o <;> simp [isLoadOp] at ho <;> simp only [txEdgeAndEndpointDelete, ih', hnt, Bool.or_self]

theorem txWF_append (a b : List TxOp) : ∀ g, txWF g (a ++ b) = (txWF g a && txWF (g.apply a) b) := by
  induction a with
  | nil => intro g; simp [txWF, Graph.apply]
  | cons o os ih =>
    intro g
    simp only [List.cons_append, txWF, ih, Bool.and_assoc]
    rfl

section
variable (ns : List BulkNode) (es : List BulkEdge)

theorem txLoad_loadOps : ∀ o ∈ txLoad ns es, isLoadOp o = true := by
  intro o ho
  rw [txLoad_eq] at ho
  rcases List.mem_append.mp ho with h | h
  · unfold nodeOpsFrom at h
    obtain ⟨p, _, hp⟩ := List.mem_flatMap.mp h
    rcases List.mem_cons.mp hp with rfl | hp'
    · rfl
    · unfold propOps at hp'
      obtain ⟨kv, _, rfl⟩ := List.mem_map.mp hp'; rfl
  · unfold edgeOps at h
    obtain ⟨e, _, hp⟩ := List.mem_flatMap.mp h
    rcases List.mem_cons.mp hp with rfl | hp'
    · rfl
    · obtain ⟨kv, _, rfl⟩ := List.mem_map.mp hp'; rfl

theorem txLoad_noExtZero (hz : ∀ n ∈ ns, n.ext ≠ 0) : txExtZero (txLoad ns es) = false := by
  unfold txExtZero
  rw [List.any_eq_false]
  intro o ho
  rw [txLoad_eq] at ho
  rcases List.mem_append.mp ho with h | h
  · unfold nodeOpsFrom at h
    obtain ⟨p, hp0, hp⟩ := List.mem_flatMap.mp h
    rcases List.mem_cons.mp hp with rfl | hp'
    · obtain ⟨h1, h2⟩ := zip_mem_inv ns p hp0
      have := hz p.1 (h2 ▸ List.getElem_mem h1)
      cases hx : p.1.ext with
      | zero => exact absurd hx this
      | succ m => simp
    · unfold propOps at hp'
      obtain ⟨kv, _, rfl⟩ := List.mem_map.mp hp'; simp
  · unfold edgeOps at h
    obtain ⟨e, _, hp⟩ := List.mem_flatMap.mp h
    rcases List.mem_cons.mp hp with rfl | hp'
    · simp
    · obtain ⟨kv, _, rfl⟩ := List.mem_map.mp hp'; simp

theorem wf_propOps (i : Nat) (props : List (Nat × PV)) : ∀ g : Graph, g.live i = true → txWF g (propOps i props) = true := by
  induction props with
  | nil => intro g _; rfl
  | cons kv kvs ih =>
    intro g hl
    show (opWF g (.nprop i kv.1 kv.2) && txWF (g.step (.nprop i kv.1 kv.2)) (propOps i kvs)) = true
    rw [Bool.and_eq_true]
    exact ⟨hl, ih _ hl⟩

theorem wf_nodePhase (l : List BulkNode) : ∀ (g : Graph) (b : Nat), g.next = b → g.dead = [] →
    (∀ n ∈ l, ∀ p ∈ g.ext, p.2 ≠ n.ext) → (l.map (·.ext)).Nodup → txWF g (nodeOpsFrom b l) = true := by
  induction l with
  | nil => intro g b _ _ _ _; rfl
  | cons n ns' ih =>
    intro g b hb hd hfresh hnd
    rw [List.map_cons, List.nodup_cons] at hnd
    have hnone : g.extLookup n.ext = none := extLookup_none g n.ext (hfresh n List.mem_cons_self)
    let g1 : Graph := { g with next := g.next + 1, ext := (g.next, n.ext) :: g.ext, labels := (g.next, n.label) :: g.labels }
    have hstep : g.step (.node n.ext (some n.label)) = g1 := by
      show (if (g.extLookup n.ext).isSome then g else _) = _
      rw [hnone]; rfl
    let g2 : Graph := { g1 with nprops := setAll g1.nprops (n.props.map (fun kv => ((b, kv.1), kv.2))) }
    have hops : nodeOpsFrom b (n :: ns') =
        (TxOp.node n.ext (some n.label) :: propOps b n.props) ++ nodeOpsFrom (b + 1) ns' := by
      unfold nodeOpsFrom
      rw [List.zipIdx_cons, List.flatMap_cons]
    rw [hops, txWF_append, Bool.and_eq_true]
    have hl1 : g1.live b = true := by
      rw [live_iff]; show b < g.next + 1 ∧ b ∉ g.dead; rw [hb, hd]; simp
    constructor
    · show (opWF g (.node n.ext (some n.label)) && txWF (g.step (.node n.ext (some n.label))) (propOps b n.props)) = true
      rw [hstep, Bool.and_eq_true]
      refine ⟨?_, wf_propOps b n.props g1 hl1⟩
      show (!g.ext.any (fun p => p.2 == n.ext)) = true
      rw [Bool.not_eq_true', List.any_eq_false]
      intro p hp; simpa using hfresh n List.mem_cons_self p hp
    · have happ : g.apply (TxOp.node n.ext (some n.label) :: propOps b n.props) = g2 := by
        show (g.step (.node n.ext (some n.label))).apply (propOps b n.props) = _
        rw [hstep, apply_propOps]
      rw [happ]
      exact ih g2 (b + 1) (by show g.next + 1 = b + 1; rw [hb]) hd
        (by
          intro m hm p hp
          have hp' : p ∈ (g.next, n.ext) :: g.ext := hp
          rcases List.mem_cons.mp hp' with rfl | h'
          · intro heq; exact hnd.1 (List.mem_map.mpr ⟨m, hm, heq.symm⟩)
          · exact hfresh m (List.mem_cons_of_mem _ hm) p h')
        hnd.2

theorem wf_epropOps (r : Rel) (props : List (Nat × PV)) : ∀ g : Graph, g.live r.src = true → g.live r.dst = true →
    0 < g.mult r → txWF g (props.map (fun kv => TxOp.eprop r.src r.typ r.dst kv.1 kv.2)) = true := by
  induction props with
  | nil => intro g _ _ _; rfl
  | cons kv kvs ih =>
    intro g h1 h2 h3
    show (opWF g (.eprop r.src r.typ r.dst kv.1 kv.2) && txWF (g.step (.eprop r.src r.typ r.dst kv.1 kv.2)) _) = true
    rw [Bool.and_eq_true]
    refine ⟨?_, ih _ h1 h2 h3⟩
    show (g.live r.src && g.live r.dst && decide (0 < g.mult ⟨r.src, r.typ, r.dst⟩)) = true
    rw [h1, h2]; simpa using h3

theorem wf_edgePhase (N : Nat) (hiid : ∀ e ∈ es, bulkIid ns e.src < N ∧ bulkIid ns e.dst < N) :
    ∀ (l : List BulkEdge), (∀ e ∈ l, e ∈ es) → ∀ g : Graph, g.next = N → g.dead = [] → txWF g (edgeOps ns l) = true := by
  intro l
  induction l with
  | nil => intro _ g _ _; rfl
  | cons e l ih =>
    intro hsub g hn hd
    obtain ⟨i1, i2⟩ := hiid e (hsub e List.mem_cons_self)
    let g1 : Graph := { g with rels := relOf ns e :: g.rels }
    have hl : ∀ x, x < N → ∀ g' : Graph, g'.next = N → g'.dead = [] → g'.live x = true := by
      intro x hx g' h1 h2; rw [live_iff, h1, h2]; exact ⟨hx, by simp⟩
    unfold edgeOps
    rw [List.flatMap_cons, txWF_append, Bool.and_eq_true]
    constructor
    · show (opWF g (.edge (bulkIid ns e.src) e.rel (bulkIid ns e.dst)) && txWF g1 _) = true
      rw [Bool.and_eq_true]
      refine ⟨?_, ?_⟩
      · show (g.live _ && g.live _) = true
        rw [hl _ i1 g hn hd, hl _ i2 g hn hd]; rfl
      · exact wf_epropOps (relOf ns e) e.props g1 (hl _ i1 g1 hn hd) (hl _ i2 g1 hn hd)
          (by show 0 < (relOf ns e :: g.rels).count (relOf ns e); simp)
    · have happ : g.apply (TxOp.edge (bulkIid ns e.src) e.rel (bulkIid ns e.dst) ::
          e.props.map (fun kv => TxOp.eprop (bulkIid ns e.src) e.rel (bulkIid ns e.dst) kv.1 kv.2)) =
          { g1 with eprops := setAll g1.eprops (e.props.map (fun kv => ((relOf ns e, kv.1), kv.2))) } := by
        show (g1).apply (e.props.map (fun kv => TxOp.eprop (relOf ns e).src (relOf ns e).typ (relOf ns e).dst kv.1 kv.2)) = _
        rw [apply_epropOps]
      rw [happ]
      exact ih (fun x hx => hsub x (List.mem_cons_of_mem _ hx)) _ hn hd

theorem bulkIid_lt (x : Nat) (h : ∃ n ∈ ns, n.ext = x) : bulkIid ns x < ns.length := by
  obtain ⟨n, hn, rfl⟩ := h
  unfold bulkIid
  have := List.idxOf_lt_length_iff.mpr (List.mem_map.mpr ⟨n, hn, rfl⟩ : n.ext ∈ ns.map (·.ext))
  simpa using this

/-- the transactional load is a well-formed transaction -/
theorem txLoad_wf (hok : bulkOK ns es = true) : txWF {} (txLoad ns es) = true := by
  obtain ⟨_, hnd, _, hend⟩ := bulkOK_unpack ns es hok
  rw [txLoad_eq, txWF_append, Bool.and_eq_true]
  refine ⟨wf_nodePhase ns {} 0 rfl rfl (by intro n _ p hp; cases hp) hnd, ?_⟩
  have hN := nodePhase ns {} 0 rfl (by intro n _ p hp; cases hp) hnd
  exact wf_edgePhase ns es ns.length (fun e he => ⟨bulkIid_lt ns _ (hend e he).1, bulkIid_lt ns _ (hend e he).2⟩)
    es (fun _ h => h) _ (by rw [hN.next]; simp) (by rw [hN.dead])

/-- every read of the opened bulk database agrees with the Spec graph of the transactional load -/
theorem bulk_reads_agree {b : Engine} (hb : IsBulk ns es b) (hok : bulkOK ns es = true) :
    ReadsAgree Cfg.current b (bulkGraph ns es) := by
  obtain ⟨_, hnd, hz, _⟩ := bulkOK_unpack ns es hok
  obtain ⟨n1, n2, hlive⟩ := bulk_nodes ns es hb hnd
  exact { nodes := n1, nodesSnap := n2,
          ext := fun n hn => bulk_ext ns es hb hnd hz n ((hlive n).mp hn),
          labels := fun n l hn => bulk_labels ns es hb hnd n ((hlive n).mp hn) l,
          nprop := fun n k _ => bulk_nprop ns es hb hnd n k,
          nprops := fun n k _ => by rw [nodeProps_lookup]; exact bulk_nprop ns es hb hnd n k,
          out := fun n rel t _ hm => bulk_out ns es hb hnd n rel t hm,
          inc := fun n rel t _ hm => bulk_inc ns es hb hnd n rel t hm,
          eprop := fun r nm a c k hr _ _ => bulk_eprop ns es hb hnd r nm a c k hr,
          eprops := fun r nm a c k hr _ _ => by rw [edgeProps_lookup]; exact bulk_eprop ns es hb hnd r nm a c k hr,
          extLookup := fun x _ => bulk_extLookup ns es hb hnd hz x }

theorem bulkEngine_isBulk (d : Disk) (hd : d.i2e = bulkI2e ns es) : IsBulk ns es (bulkEngine ns es d) :=
  ⟨by show IdMap.load d.i2e = _; rw [hd], rfl, rfl, rfl, rfl, rfl, rfl⟩

end

end Nervus.Storage
