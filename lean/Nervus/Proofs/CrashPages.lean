/-
  Proofs.CrashPages — the page phase of `GraphEngine::compact` (segment persist, property sinking
  into the live or a new tree, statistics blob): every crash image along the way still represents
  the committed list through the OLD manifest; at the end the new segment and the tree are durable.
-/
import Nervus.Proofs.CrashSplit
namespace Nervus.Crash

def cEdges (m : Mem) : List Nat := m.runs.flatMap (·.edges)
def cProps (m : Mem) : List Nat := sortNat (m.runs.flatMap (·.props))
def cNData (m : Mem) : Nat := if (cEdges m).isEmpty then 1 else 4
def cUpTo (m : Mem) : Nat := (m.runs.map (·.txid)).foldl max 0

/-- `seg.persist`: offsets page, further data pages, segment meta page, sync -/
def segA (m : Mem) (ps0 : PS) : List Action × PS × Nat :=
  let r0 := allocA ps0
  let r2 := segPartsA r0.2.2 (cNData m + 1) (cEdges m) r0.2.1 ((List.range (cNData m - 1)).map (· + 1))
  let r3 := allocA r2.2
  (r0.1 ++ [ioA (.pg (.segPart r0.2.2 0 (cNData m + 1) (cEdges m)) r0.2.2)] ++ r2.1 ++ r3.1 ++
     [ioA (.pg (.segPart r0.2.2 (cNData m) (cNData m + 1) (cEdges m)) r3.2.2), ioA .ps], r3.2.1, r0.2.2)

def emptyTree (r : Nat) : TreeImg := { key := r, leaves := [⟨[], false, r⟩], inode := none, blobs := [] }

/-- the tree the properties are sunk into: a new one, or the live one as it is in the page cache -/
def treeStartA (m : Mem) (vol : PImg) (ps : PS) : List Action × PS × TreeImg :=
  if m.proot = 0 then
    ((allocA ps).1 ++ [ioA (.pg (.treeNew (allocA ps).2.2) (allocA ps).2.2)], (allocA ps).2.1, emptyTree (allocA ps).2.2)
  else ([], ps, (vol.trees.find? (fun t => t.key == m.proot)).getD (emptyTree m.proot))

def treeA (cfg : Cfg) (m : Mem) (vol : PImg) (ps : PS) : List Action × PS × Nat × Bool :=
  if (cProps m).isEmpty then ([], ps, m.proot, m.ptop) else
  let r1 := treeStartA m vol ps
  let r2 := sinkA cfg r1.2.1 r1.2.2 (cProps m)
  (r1.1 ++ r2.1, r2.2.1, r2.2.2.key, r2.2.2.inode.isSome)

/-- the page phase of a compaction: actions, pager scratch, segment key, tree root, root-is-internal -/
def pagesA (cfg : Cfg) (m : Mem) (vol : PImg) : List Action × PS × Nat × Nat × Bool :=
  let s := segA m (m.ps vol)
  let t := treeA cfg m vol s.2.1
  let a := allocA t.2.1
  (s.1 ++ t.1 ++ a.1 ++ [ioA (.pg .stats a.2.2)], a.2.1, s.2.2, t.2.2.1, t.2.2.2)

def manifestRecs (m : Mem) (k0 root : Nat) (top : Bool) : List Rec :=
  [.begin m.nextTxid, .manifest (m.epoch + 1) (k0 :: m.segs.map (·.1)) root top,
   .checkpoint (cUpTo m) (m.epoch + 1) root top, .commit m.nextTxid]

theorem compactA_eq (cfg : Cfg) (m : Mem) (vol : PImg) (w : List Frag) (hne : m.runs.isEmpty = false) :
    compactA cfg m vol w =
      (pagesA cfg m vol).1 ++ ([memA .bumpTxid] ++ ((appendsA cfg (m.ws w) (manifestRecs m (pagesA cfg m vol).2.2.1
          (pagesA cfg m vol).2.2.2.1 (pagesA cfg m vol).2.2.2.2)).1 ++
        ((if (appendsA cfg (m.ws w) (manifestRecs m (pagesA cfg m vol).2.2.1
          (pagesA cfg m vol).2.2.2.1 (pagesA cfg m vol).2.2.2.2)).2.isOpen then [ioA .ws] else []) ++
        [memA (.compacted (cUpTo m) (pagesA cfg m vol).2.2.2.1 (pagesA cfg m vol).2.2.2.2 (pagesA cfg m vol).2.2.1
          (cEdges m) (m.epoch + 1))]))) := by
  unfold compactA
  simp only [hne, Bool.false_eq_true, if_false]
  by_cases hp : (cProps m).isEmpty = true
  · simp [pagesA, segA, treeA, treeStartA, manifestRecs, cEdges, cProps, cNData, cUpTo, emptyTree] at hp ⊢
  · by_cases hr : m.proot = 0
    · simp [pagesA, segA, treeA, treeStartA, manifestRecs, cEdges, cProps, cNData, cUpTo, emptyTree, hr] at hp ⊢
    · simp [pagesA, segA, treeA, treeStartA, manifestRecs, cEdges, cProps, cNData, cUpTo, emptyTree, hr] at hp ⊢

theorem mem_sortNat (y : Nat) : ∀ xs : List Nat, y ∈ sortNat xs ↔ y ∈ xs
  | [] => by simp [sortNat]
  | x :: xs => by
    have ih := mem_sortNat y xs
    unfold sortNat at ih ⊢
    simp only [List.foldr_cons, List.mem_append, List.mem_filter, List.mem_cons, List.mem_nil_iff, or_false, decide_eq_true_eq]
    constructor
    · rintro ((⟨h, _⟩ | h) | ⟨h, _⟩)
      · exact Or.inr (ih.mp h)
      · exact Or.inl h
      · exact Or.inr (ih.mp h)
    · rintro (h | h)
      · exact Or.inl (Or.inr h)
      · by_cases hlt : y < x
        · exact Or.inl (Or.inl ⟨ih.mpr h, hlt⟩)
        · exact Or.inr ⟨ih.mpr h, hlt⟩

/-- the last leaf of the live tree has room for the properties of the runs (no leaf split) -/
def liveLeafLen (vol : PImg) (root : Nat) : Nat :=
  if root = 0 then 0 else
    match vol.trees.find? (fun t => t.key == root) with
    | some t => (t.leaves.getD (t.leaves.length - 1) ⟨[], false, 0⟩).entries.length
    | none => 0

/-- no key of the live tree is above a key that is to be sunk (keys ascend with time) -/
def LiveAscends (vol : PImg) (root : Nat) (qs : List Nat) : Prop :=
  match vol.trees.find? (fun t => t.key == root) with
  | some t => ∀ x ∈ t.leaves.flatMap (fun l => l.entries.filterMap id), ∀ q ∈ qs, x < q
  | none => True

instance (vol : PImg) (root : Nat) (qs : List Nat) : Decidable (LiveAscends vol root qs) := by
  unfold LiveAscends
  cases vol.trees.find? (fun t => t.key == root) <;> simp only <;> infer_instance

def NoSplit (cfg : Cfg) (m : Mem) (vol : PImg) : Prop := liveLeafLen vol m.proot + (cProps m).length ≤ cfg.leafCap

instance (cfg : Cfg) (m : Mem) (vol : PImg) : Decidable (NoSplit cfg m vol) :=
  inferInstanceAs (Decidable (_ ≤ _))

/-- the condition on a compaction: the keys to be sunk are distinct; sinking into a NEW tree may
    split leaves at will; sinking into the LIVE tree must not split its last leaf (an in-place split
    of the live tree is finding C01-live-tree-in-place) and, when the tree has an internal root, the
    keys must lie above its keys (keys ascend with time).  A live tree that is one leaf takes keys in
    any order, and keys it already has (left by a compaction that died after an in-place leaf write
    became durable) are replaced as `replace_property_entry` does. -/
def NoLiveSplit (cfg : Cfg) (m : Mem) (vol : PImg) : Prop :=
  (cProps m).Nodup ∧
  (m.proot ≠ 0 → cProps m ≠ [] →
    NoSplit cfg m vol ∧ (m.ptop = true → LiveAscends vol m.proot (cProps m)))

instance (cfg : Cfg) (m : Mem) (vol : PImg) : Decidable (NoLiveSplit cfg m vol) :=
  inferInstanceAs (Decidable (_ ∧ (_ → _ → _ ∧ (_ → _))))

theorem pairwise_lt_of_nodup {l : List Nat} (h : l.Pairwise (· ≤ ·)) (hn : l.Nodup) : l.Pairwise (· < ·) :=
  (h.and hn).imp (fun ⟨h1, h2⟩ => Nat.lt_of_le_of_ne h1 h2)

/-! ### segments and trees of the volatile image -/

theorem segs_treeEffs : ∀ (E : List PEff), (∀ e ∈ E, TreeE e) → ∀ p, (applyEffs E p).segs = p.segs
  | [], _, _ => rfl
  | e :: E, h, p => by
    have he := h e (by simp)
    have : applyEffs (e :: E) p = applyEffs E (applyEff e p) := rfl
    rw [this, segs_treeEffs E (fun x hx => h x (by simp [hx]))]
    cases e <;> simp only [TreeE] at he <;> rfl

theorem trees_segParts (k need : Nat) (es : List Nat) : ∀ (js : List Nat) (p : PImg),
    (applyEffs (js.map (fun j => PEff.segPart k j need es)) p).trees = p.trees
  | [], _ => rfl
  | j :: js, p => by
    have : applyEffs ((j :: js).map (fun j => PEff.segPart k j need es)) p =
        applyEffs (js.map (fun j => PEff.segPart k j need es)) (applyEff (.segPart k j need es) p) := rfl
    rw [this, trees_segParts k need es js]
    rfl

theorem sinkEffs_treeE (key pid : Nat) : ∀ (qs xs : List Nat), ∀ e ∈ sinkEffs key pid xs qs, TreeE e
  | [], _, e, h => by simp [sinkEffs] at h
  | q :: qs, xs, e, h => by
    simp only [sinkEffs, List.mem_cons, List.mem_append] at h
    rcases h with rfl | h | rfl | h
    · trivial
    · unfold delEffs at h
      split at h
      · simp only [List.mem_singleton] at h; subst h; trivial
      · simp at h
    · trivial
    · exact sinkEffs_treeE key pid qs _ e h

theorem updSeg_fresh (segs : List SegImg) (k j need : Nat) (es : List Nat) (h : ∀ s ∈ segs, s.key ≠ k) :
    updSeg segs k j need es = ⟨k, es, need, [j]⟩ :: segs := by
  unfold updSeg
  have : segs.any (fun s => s.key == k) = false := by
    rw [List.any_eq_false]
    intro s hs
    simpa using h s hs
  simp [this]

theorem updSeg_head (rest : List SegImg) (k j need need' : Nat) (es es' got : List Nat) (h : ∀ s ∈ rest, s.key ≠ k) :
    updSeg (⟨k, es', need', got⟩ :: rest) k j need es = ⟨k, es', need', j :: got⟩ :: rest := by
  unfold updSeg
  simp only [List.any_cons, beq_self_eq_true, Bool.true_or, if_true, List.map_cons]
  congr 1
  rw [List.map_congr_left (g := id)]
  · simp
  · intro s hs
    have : (s.key == k) = false := beq_false_of_ne (h s hs)
    simp [this]

theorem segs_parts (k need need' : Nat) (es es' : List Nat) : ∀ (js : List Nat) (p : PImg) (got : List Nat) (rest : List SegImg),
    p.segs = ⟨k, es', need', got⟩ :: rest → (∀ s ∈ rest, s.key ≠ k) →
    (applyEffs (js.map (fun j => PEff.segPart k j need es)) p).segs = ⟨k, es', need', js.reverse ++ got⟩ :: rest
  | [], p, got, rest, h, _ => by simpa [applyEffs] using h
  | j :: js, p, got, rest, h, hr => by
    have : applyEffs ((j :: js).map (fun j => PEff.segPart k j need es)) p =
        applyEffs (js.map (fun j => PEff.segPart k j need es)) (applyEff (.segPart k j need es) p) := rfl
    rw [this, segs_parts k need need' es es' js _ (j :: got) rest _ hr]
    · simp
    · show updSeg p.segs k j need es = _
      rw [h, updSeg_head rest k j need need' es es' got hr]

end Nervus.Crash

namespace Nervus.Crash

variable {p0 : PImg} {live lo : Nat} {allowed covered : List Nat} {lv : LiveP}

/-! ### block judgements of the three parts -/

def segJs (m : Mem) : List Nat := (List.range (cNData m - 1)).map (· + 1)

theorem pblk_segA (m : Mem) (ps0 : PS) (hsk : SameKey p0.hdr ps0.pm) (hnp : lo ≤ min ps0.bm ps0.pm.nextPage) :
    (segA m ps0).2.2 = min ps0.bm ps0.pm.nextPage ∧
    ∃ nd', PBlk p0 live allowed covered lv lo lo ps0 (segA m ps0).1
      ((0 :: (segJs m ++ [cNData m])).map (fun j => PEff.segPart (min ps0.bm ps0.pm.nextPage) j (cNData m + 1) (cEdges m))) nd'
      (segA m ps0).2.1 := by
  obtain ⟨b0, hk0, _⟩ := pblk_alloc (p0 := p0) (live := live) (lo := lo) (allowed := allowed) (covered := covered) (lv := lv) ps0 hsk hnp
  generalize hmf : min ps0.bm ps0.pm.nextPage = mf at b0 hk0 hnp
  have bw1 := pblk_write (p0 := p0) (live := live) (lo := lo) (allowed := allowed) (covered := covered) (lv := lv) b0.sk b0.np
    (.segPart mf 0 (cNData m + 1) (cEdges m)) (allocA ps0).2.2 ⟨hnp, by omega⟩
  have b2 := pblk_segParts (p0 := p0) (live := live) (lo := lo) (allowed := allowed) (covered := covered) (lv := lv) mf (cNData m + 1) (cEdges m)
    hnp (segJs m) (mf + 1) (allocA ps0).2.1 b0.sk b0.np (by omega)
  obtain ⟨b3, _, _⟩ := pblk_alloc_eq (p0 := p0) (live := live) (lo := lo) (allowed := allowed) (covered := covered) (lv := lv)
    (segPartsA mf (cNData m + 1) (cEdges m) (allocA ps0).2.1 (segJs m)).2 b2.sk b2.np
  have bw4 := pblk_write (p0 := p0) (live := live) (lo := lo) (allowed := allowed) (covered := covered) (lv := lv) b3.sk b3.np
    (.segPart mf (cNData m) (cNData m + 1) (cEdges m))
    (allocA (segPartsA mf (cNData m + 1) (cEdges m) (allocA ps0).2.1 (segJs m)).2).2.2 ⟨hnp, by omega⟩
  have bs := pblk_sync (p0 := p0) (live := live) (lo := lo) (allowed := allowed) (covered := covered) (lv := lv) b3.sk b3.np
  have hall := ((((b0.append bw1).append b2).append b3).append bw4).append bs
  refine ⟨by simp [segA, hk0], mf + 1 + (segJs m).length + 1, ?_⟩
  have hk : (allocA ps0).2.2 = mf := hk0
  simpa [segA, segJs, hk, List.append_assoc] using hall

theorem leaf1_empty (r : Nat) : Leaf1 (emptyTree r) [] r := ⟨rfl, rfl⟩

theorem pblk_treeA (cfg : Cfg) (hcap1 : 1 ≤ cfg.leafCap) (m : Mem) (vol : PImg) (ps : PS) (nd : Nat) (hsk : SameKey p0.hdr ps.pm)
    (hnp : min ps.bm ps.pm.nextPage = nd) (hpos : 0 < nd) (hlive : live = m.proot) (hvol : vol.trees = p0.trees)
    (hnd : (cProps m).Nodup)
    (hns : m.proot ≠ 0 → cProps m ≠ [] →
      NoSplit cfg m vol ∧ (lv.top = true → LiveAscends vol m.proot (cProps m)))
    (hcf : ∀ q ∈ cProps m, q ∉ covered)
    (hprops : ∀ q ∈ cProps m, q ∈ allowed) (hcov0 : live = 0 → covered = [])
    (htree : live ≠ 0 → ∃ t last, treeFind p0 live = some t ∧ LiveOK allowed covered lv t last) :
    ∃ nd' effs, PBlk p0 live allowed covered lv lo nd ps (treeA cfg m vol ps).1 effs nd' (treeA cfg m vol ps).2.1 ∧
      (∀ e ∈ effs, TreeE e) ∧
      (cProps m = [] → (treeA cfg m vol ps).2.2 = (m.proot, m.ptop) ∧ effs = []) ∧
      (cProps m ≠ [] → (treeA cfg m vol ps).2.2.1 ≠ 0 ∧
        ∀ p : PImg, p.trees = p0.trees →
          ∃ t, treeFind (applyEffs effs p) (treeA cfg m vol ps).2.2.1 = some t ∧
            TreeOK allowed (covered ++ cProps m) (treeA cfg m vol ps).2.2.2 t) := by
  by_cases hp : cProps m = []
  · refine ⟨nd, [], ?_, by simp, fun _ => ⟨by simp [treeA, hp], rfl⟩, fun h => absurd hp h⟩
    simpa [treeA, hp] using PBlk.nil (live := live) (lo := lo) (allowed := allowed) (covered := covered) (lv := lv) hsk hnp
  · have hpe : (cProps m).isEmpty = false := by
      cases h : cProps m with
      | nil => exact absurd h hp
      | cons _ _ => rfl
    by_cases hr : m.proot = 0
    · -- a new tree: leaf splits allowed
      have hl0 : live = 0 := by rw [hlive, hr]
      obtain ⟨ba, hpid, _⟩ := pblk_alloc_eq (p0 := p0) (live := live) (lo := lo) (allowed := allowed) (covered := covered) (lv := lv) ps hsk hnp
      have hrne : (allocA ps).2.2 ≠ live := by rw [hpid, hl0]; omega
      have bn := pblk_write (p0 := p0) (live := live) (lo := lo) (allowed := allowed) (covered := covered) (lv := lv) ba.sk ba.np
        (.treeNew (allocA ps).2.2) (allocA ps).2.2 ⟨hrne, by rw [hpid]; omega⟩
      have hsh0 : TreeShape (emptyTree (allocA ps).2.2) ([] ++ [[]]) false :=
        treeShape_single (emptyTree (allocA ps).2.2) [] (allocA ps).2.2 rfl (by intro i j _ hj; simp at hj) rfl
      obtain ⟨nd2, e2, bs, hTE2, hf2, Xi2, last2, tp2, hsh2, hflat2, hbl2, hkey2⟩ :=
        pblk_sinkNew (p0 := p0) (live := live) (lo := lo) (allowed := allowed) (covered := covered) (lv := lv) cfg hcap1 (cProps m) (nd + 1)
          (allocA ps).2.1 (emptyTree (allocA ps).2.2) [] [] false ba.sk ba.np hrne hsh0 (pairwise_lt_of_nodup (sortNat_pairwise _) hnd) (by intro x hx; simp at hx)
      have hall := (ba.append bn).append bs
      have hroot : (treeA cfg m vol ps).2.2.1 = (allocA ps).2.2 := by
        simp only [treeA, hpe, treeStartA, hr, if_true, Bool.false_eq_true, if_false]
        exact hkey2
      have htop : (treeA cfg m vol ps).2.2.2 = tp2 := by
        simp only [treeA, hpe, treeStartA, hr, if_true, Bool.false_eq_true, if_false]
        exact treeShape_top hsh2
      refine ⟨_, _, by simpa [treeA, treeStartA, hpe, hr] using hall, ?_, fun h => absurd h hp, fun _ => ⟨?_, ?_⟩⟩
      · intro e he
        simp only [List.nil_append, List.singleton_append, List.mem_cons] at he
        rcases he with rfl | he
        · trivial
        · exact hTE2 e he
      · rw [hroot, hpid]; omega
      · intro p _
        rw [hroot, htop]
        have h1 : treeFind (applyEff (.treeNew (allocA ps).2.2) p) (allocA ps).2.2 = some (emptyTree (allocA ps).2.2) := by
          simp [treeFind, applyEff, emptyTree]
        have h2 := hf2 _ h1
        refine ⟨_, by simpa [applyEffs, emptyTree] using h2, ⟨Xi2 ++ [last2], hsh2, ?_, ?_⟩⟩
        · intro q hq
          rw [hflat2] at hq
          exact hprops q (by simpa using hq)
        · intro q hq
          rw [hcov0 hl0, List.nil_append] at hq
          exact ⟨by rw [hflat2]; simpa using hq, (hbl2 q).mpr (Or.inl hq)⟩
    · -- the live tree: appends to its last leaf, with room
      have hl : live ≠ 0 := by rw [hlive]; exact hr
      obtain ⟨hns', hasc⟩ := hns hr hp
      obtain ⟨t0, last, hf0, hok0⟩ := htree hl
      have hk0 : t0.key = live := (treeFind_key hf0).2
      have hfv : vol.trees.find? (fun t => t.key == m.proot) = some t0 := by
        rw [hvol, ← hlive]; exact hf0
      have hfind : (vol.trees.find? (fun t => t.key == m.proot)).getD (emptyTree m.proot) = t0 := by
        rw [hfv]; rfl
      obtain ⟨pids, hlv⟩ := hok0.shape.leaves
      have hcap : last.length + (cProps m).length ≤ cfg.leafCap := by
        have := hns'
        obtain ⟨pl, hpl⟩ := mkLeaves_snoc_get lv.Xi last pids ⟨[], false, 0⟩
        simp only [NoSplit, liveLeafLen, hr, if_false, hfv, hlv, mkLeaves_snoc_len, Nat.add_sub_cancel, hpl] at this
        simpa using this
      have hroot0 : ∀ (r : List Action × PS × TreeImg), r.2.2.key = t0.key →
          (r.2.2.key ≠ 0) := fun r h => by rw [h, hk0]; exact hl
      by_cases htop : lv.top = true
      · -- several leaves under an internal root: keys ascend
        have hq : ∀ x ∈ (lv.Xi ++ [last]).flatten, ∀ q ∈ cProps m, x < q := by
          have := hasc htop
          simp only [LiveAscends, hfv, hlv, entries_mkLeaves] at this
          exact this
        obtain ⟨effs, bs, hTE, hf2, hsh2, hbl2, hkey2⟩ :=
          pblk_sinkLive (p0 := p0) (live := live) (lo := lo) (allowed := allowed) (covered := covered) (lv := lv) cfg (cProps m) nd ps t0 last
            hsk hnp hok0.shape hok0.hd hok0.allowed (fun q hq' => (hok0.covered q hq').1) hprops hcap (pairwise_lt_of_nodup (sortNat_pairwise _) hnd) hq
        have hroot : (treeA cfg m vol ps).2.2.1 = live := by
          simp only [treeA, hpe, treeStartA, hr, if_false, Bool.false_eq_true, hfind]
          rw [hkey2]; exact hk0
        have htop' : (treeA cfg m vol ps).2.2.2 = lv.top := by
          simp only [treeA, hpe, treeStartA, hr, if_false, Bool.false_eq_true, hfind]
          exact treeShape_top hsh2
        refine ⟨_, _, by simpa [treeA, treeStartA, hpe, hr, hfind] using bs, hTE, fun h => absurd h hp, fun _ => ⟨by rw [hroot]; exact hl, ?_⟩⟩
        intro p hp'
        rw [hroot, htop']
        have h1 : treeFind p t0.key = some t0 := by rw [hk0, treeFind_congr hp']; exact hf0
        have h2 := hf2 p h1
        rw [hk0] at h2
        refine ⟨_, h2, ⟨lv.Xi ++ [last ++ cProps m], hsh2, ?_, ?_⟩⟩
        · intro q hq'
          simp only [List.flatten_append, List.flatten_cons, List.flatten_nil, List.append_nil, List.mem_append] at hq'
          rcases hq' with hq' | hq' | hq'
          · exact hok0.allowed q (by simp [hq'])
          · exact hok0.allowed q (by simp [hq'])
          · exact hprops q hq'
        · intro q hq'
          have hfl : (lv.Xi ++ [last ++ cProps m]).flatten = (lv.Xi ++ [last]).flatten ++ cProps m := by simp
          rw [hfl]
          rcases List.mem_append.mp hq' with h | h
          · exact ⟨List.mem_append_left _ (hok0.covered q h).1, (hbl2 q).mpr (Or.inr (hok0.covered q h).2)⟩
          · exact ⟨List.mem_append_right _ h, (hbl2 q).mpr (Or.inl h)⟩
      · -- one leaf entered directly: any order
        have htf : lv.top = false := by simpa using htop
        have hsh0 := hok0.shape
        rw [htf] at hsh0
        obtain ⟨xs0, pid0, hX, hlv1, hsrt, hino⟩ := treeShape_single_inv hsh0
        have hXi : lv.Xi = [] := by
          cases hXi : lv.Xi with
          | nil => rfl
          | cons x Xs => rw [hXi] at hX; simp at hX
        have hlast : last = xs0 := by rw [hXi] at hX; simpa using hX
        subst hlast
        have hflat : (lv.Xi ++ [last]).flatten = last := by rw [hXi]; simp
        have hal : ∀ q ∈ last, q ∈ allowed := fun q hq => hok0.allowed q (by rw [hflat]; exact hq)
        have hcv : ∀ q ∈ covered, q ∈ last ∧ q ∈ t0.blobs := fun q hq => by
          have := hok0.covered q hq; rw [hflat] at this; exact this
        have hl1 : Leaf1 t0 last pid0 := ⟨hlv1, hino⟩
        obtain ⟨bs, hres⟩ := pblk_sink (p0 := p0) (live := live) (lo := lo) (allowed := allowed) (covered := covered) (lv := lv) cfg (cProps m) nd
          ps t0 last pid0 hsk hnp hl1 hcap
          (Or.inr ⟨hXi, hsrt, hal, fun q hq => (hcv q hq).1, hprops, hcf⟩)
        refine ⟨_, _, by simpa [treeA, treeStartA, hpe, hr, hfind] using bs, sinkEffs_treeE _ _ _ _, fun h => absurd h hp,
          fun _ => ⟨?_, ?_⟩⟩
        · simp only [treeA, hpe, treeStartA, hr, if_false, Bool.false_eq_true, hfind, hres]
          show t0.key ≠ 0
          rw [hk0]; exact hl
        · intro p hp'
          have hroot : (treeA cfg m vol ps).2.2.1 = live := by
            simp only [treeA, hpe, treeStartA, hr, if_false, Bool.false_eq_true, hfind, hres]
            exact hk0
          have htop' : (treeA cfg m vol ps).2.2.2 = false := by
            simp only [treeA, hpe, treeStartA, hr, if_false, Bool.false_eq_true, hfind, hres]
            show t0.inode.isSome = false
            rw [hino]; rfl
          rw [hroot, htop']
          have h1 : treeFind p live = some t0 := by rw [treeFind_congr hp']; exact hf0
          have h2 := treeFind_sinkEffs live pid0 (cProps m) last p t0 h1 hl1
          rw [hk0]
          refine ⟨_, h2, ⟨[sinkXs last (cProps m)], treeShape_single _ _ pid0 rfl (sortedNat_sinkXs _ _ hsrt) hino, ?_, ?_⟩⟩
          · intro q hq
            simp only [List.flatten_cons, List.flatten_nil, List.append_nil] at hq
            rcases (mem_sinkXs q _ _).mp hq with h | h
            · exact hal q h
            · exact hprops q h
          · intro q hq
            simp only [List.flatten_cons, List.flatten_nil, List.append_nil]
            rcases List.mem_append.mp hq with h | h
            · exact ⟨(mem_sinkXs q _ _).mpr (Or.inl (hcv q h).1), by simp [sunk, (hcv q h).2]⟩
            · exact ⟨(mem_sinkXs q _ _).mpr (Or.inr h), by simp [sunk, h]⟩

end Nervus.Crash

namespace Nervus.Crash

theorem complete_parts (m : Mem) (k : Nat) (es : List Nat) :
    SegImg.complete ⟨k, es, cNData m + 1, (segJs m ++ [cNData m]).reverse ++ [0]⟩ = true := by
  by_cases h : (cEdges m).isEmpty = true
  · simp [segJs, cNData, h, SegImg.complete]
    decide
  · simp [segJs, cNData, h, SegImg.complete]
    decide

/-- the allocation frontier: every data page below it is marked allocated and counted by the meta page -/
def frontier (p : PImg) : Nat := min p.bm p.hdr.nextPage

/-- what the page phase of a compaction establishes -/
structure PagesPost (cfg : Cfg) (T : List Tx) (fs : FS) (m : Mem) (covered : List Nat) (lv : LiveP) : Prop where
  nofail : failOf (pagesA cfg m fs.pv).1 = none
  plain : Plain (pagesA cfg m fs.pv).1
  pager : PagerActs (pagesA cfg m fs.pv).1
  setpm : OnlySetPm (memUpds (pagesA cfg m fs.pv).1)
  lastpm : lastPm (memUpds (pagesA cfg m fs.pv).1) m.pm = (pagesA cfg m fs.pv).2.1.pm
  lastbm : lastBm (memUpds (pagesA cfg m fs.pv).1) m.bm = (pagesA cfg m fs.pv).2.1.bm
  safe : SafeAlong (fun g => AllImgsL m.proot g (fun p => ∃ n, CG fs.pd m.proot (allProps T) covered lv (frontier fs.pd) n p)) fs
    (ioSteps (pagesA cfg m fs.pv).1)
  pj : (fs.steps (ioSteps (pagesA cfg m fs.pv).1)).pj = [PEff.stats]
  hdr : (fs.steps (ioSteps (pagesA cfg m fs.pv).1)).pd.hdr = (pagesA cfg m fs.pv).2.1.pm
  pbm : (fs.steps (ioSteps (pagesA cfg m fs.pv).1)).pd.bm = (pagesA cfg m fs.pv).2.1.bm
  cg : ∃ n, CG fs.pd m.proot (allProps T) covered lv (frontier fs.pd) n (fs.steps (ioSteps (pagesA cfg m fs.pv).1)).pd
  k0 : (pagesA cfg m fs.pv).2.2.1 = min m.bm m.pm.nextPage
  seg : ∃ s, segFind (fs.steps (ioSteps (pagesA cfg m fs.pv).1)).pd (pagesA cfg m fs.pv).2.2.1 = some s ∧ s.edges = cEdges m
  same : cProps m = [] → (pagesA cfg m fs.pv).2.2.2 = (m.proot, m.ptop)
  tree : cProps m ≠ [] → (pagesA cfg m fs.pv).2.2.2.1 ≠ 0 ∧
    ∃ t, treeFind (fs.steps (ioSteps (pagesA cfg m fs.pv).1)).pd (pagesA cfg m fs.pv).2.2.2.1 = some t ∧
      TreeOK (allProps T) (covered ++ cProps m) (pagesA cfg m fs.pv).2.2.2.2 t

theorem pages_post_lv {cfg : Cfg} {T : List Tx} {fs : FS} {m : Mem} {cs : List CTx} {c : Nat}
    (hcap1 : 1 ≤ cfg.leafCap) (h : InvOpen T fs m cs c) (hns : NoLiveSplit cfg m fs.pv) (covered : List Nat) (lv : LiveP)
    (hlv : lv.top = (scan cs).ptop) (hcf : ∀ q ∈ cProps m, q ∉ covered)
    (hc2 : (scan cs).proot = 0 → covered = [])
    (hc3 : (scan cs).proot ≠ 0 → ∃ t last, treeFind fs.pd (scan cs).proot = some t ∧ LiveOK (allProps T) covered lv t last) :
    PagesPost cfg T fs m covered lv := by
  have hpv : fs.pv = fs.pd := h.pv
  have hlive : m.proot = (scan cs).proot := h.mroot
  have hinit : AllImgsL m.proot fs (CG fs.pd m.proot (allProps T) covered lv (frontier fs.pd) (frontier fs.pd)) := by
    refine allImgsL_of_inert _ fs _ h.pj ?_
    exact { i2e := rfl, cat := rfl, idx := rfl, hdr := SameKey.refl _, lond := Nat.le_refl _, np := Nat.min_le_right _ _,
            bmlo := Nat.min_le_left _ _, len := Nat.le_refl _,
            segOld := fun _ _ => rfl,
            segKeys := fun s hs => by have := h.store.segKeys s hs; unfold frontier; omega,
            treeKeys := fun t ht => by have := h.store.treeKeys t ht; unfold frontier; omega,
            treeLive := by rw [hlive]; exact hc3 }
  have hsk0 : SameKey fs.pd.hdr (m.ps fs.pv).pm := h.mpm
  have hnp0 : frontier fs.pd ≤ min (m.ps fs.pv).bm (m.ps fs.pv).pm.nextPage := by
    show frontier fs.pd ≤ min m.bm m.pm.nextPage
    have := h.mbm
    have := h.mpm.np
    unfold frontier; omega
  have hmfe : min (m.ps fs.pv).bm (m.ps fs.pv).pm.nextPage = min m.bm m.pm.nextPage := rfl
  rw [hmfe] at hnp0
  obtain ⟨hk0, nd1, bseg⟩ := pblk_segA (p0 := fs.pd) (live := m.proot) (lo := frontier fs.pd) (allowed := allProps T) (covered := covered) (lv := lv) m (m.ps fs.pv) hsk0 hnp0
  rw [hmfe] at hk0 bseg
  have hprops : ∀ q ∈ cProps m, q ∈ allProps T := by
    intro q hq
    have := (mem_sortNat q _).mp hq
    rw [h.mruns] at this
    exact h.store.runProps q this
  have hpos : 0 < nd1 := by
    have := bseg.mono
    have := h.pager.booted.nextPage
    have := h.pager.booted.bm
    unfold frontier at *
    omega
  obtain ⟨nd2, teffs, btree, hTE, hcase1, hcase2⟩ :=
    pblk_treeA (p0 := fs.pd) (live := m.proot) (lo := frontier fs.pd) (allowed := allProps T) (covered := covered) (lv := lv) cfg hcap1 m fs.pv (segA m (m.ps fs.pv)).2.1 nd1
      bseg.sk bseg.np hpos rfl (by rw [hpv]) hns.1 (fun hr hp => by rw [hlv, ← h.mptop]; exact hns.2 hr hp) hcf hprops (by rw [hlive]; exact hc2) (by rw [hlive]; exact hc3)
  obtain ⟨ba, _, hef⟩ := pblk_alloc_eq (p0 := fs.pd) (live := m.proot) (lo := frontier fs.pd) (allowed := allProps T) (covered := covered) (lv := lv)
    (treeA cfg m fs.pv (segA m (m.ps fs.pv)).2.1).2.1 btree.sk btree.np
  have bw := pblk_write (p0 := fs.pd) (live := m.proot) (lo := frontier fs.pd) (allowed := allProps T) (covered := covered) (lv := lv) ba.sk ba.np .stats
    (allocA (treeA cfg m fs.pv (segA m (m.ps fs.pv)).2.1).2.1).2.2 trivial
  have hall := ((bseg.append btree).append ba).append bw
  have hacts : (pagesA cfg m fs.pv).1 = (((segA m (m.ps fs.pv)).1 ++ (treeA cfg m fs.pv (segA m (m.ps fs.pv)).2.1).1) ++
      (allocA (treeA cfg m fs.pv (segA m (m.ps fs.pv)).2.1).2.1).1) ++
      [ioA (.pg .stats (allocA (treeA cfg m fs.pv (segA m (m.ps fs.pv)).2.1).2.1).2.2)] := rfl
  have hps : (pagesA cfg m fs.pv).2.1 = (allocA (treeA cfg m fs.pv (segA m (m.ps fs.pv)).2.1).2.1).2.1 := rfl
  have hkey : (pagesA cfg m fs.pv).2.2.1 = (segA m (m.ps fs.pv)).2.2 := rfl
  have hrt : (pagesA cfg m fs.pv).2.2.2 = (treeA cfg m fs.pv (segA m (m.ps fs.pv)).2.1).2.2 := rfl
  rw [← hacts, ← hps] at hall
  -- the final files
  have hX := (bseg.append btree).append ba
  have hflush : ((fs.steps (ioSteps (((segA m (m.ps fs.pv)).1 ++ (treeA cfg m fs.pv (segA m (m.ps fs.pv)).2.1).1) ++
      (allocA (treeA cfg m fs.pv (segA m (m.ps fs.pv)).2.1).2.1).1))).pj = []) ∧
      (fs.steps (ioSteps (((segA m (m.ps fs.pv)).1 ++ (treeA cfg m fs.pv (segA m (m.ps fs.pv)).2.1).1) ++
      (allocA (treeA cfg m fs.pv (segA m (m.ps fs.pv)).2.1).2.1).1))).pd.hdr = (pagesA cfg m fs.pv).2.1.pm ∧
      (fs.steps (ioSteps (((segA m (m.ps fs.pv)).1 ++ (treeA cfg m fs.pv (segA m (m.ps fs.pv)).2.1).1) ++
      (allocA (treeA cfg m fs.pv (segA m (m.ps fs.pv)).2.1).2.1).1))).pd.bm = (pagesA cfg m fs.pv).2.1.bm := by
    rw [hps]
    exact synced_of_endsFlushed (fs := fs) (endsFlushed_append (bseg.append btree).nofail hef)
  have hfinal : fs.steps (ioSteps (pagesA cfg m fs.pv).1) =
      (fs.steps (ioSteps (((segA m (m.ps fs.pv)).1 ++ (treeA cfg m fs.pv (segA m (m.ps fs.pv)).2.1).1) ++
        (allocA (treeA cfg m fs.pv (segA m (m.ps fs.pv)).2.1).2.1).1))).step
        (.pg .stats (allocA (treeA cfg m fs.pv (segA m (m.ps fs.pv)).2.1).2.1).2.2) := by
    rw [hacts, ioSteps_append_noFail _ _ hX.nofail, steps_append]
    rfl
  have hpjF : (fs.steps (ioSteps (pagesA cfg m fs.pv).1)).pj = [PEff.stats] := by
    rw [hfinal]
    show _ ++ [PEff.stats] = _
    rw [hflush.1]; rfl
  have hstep_pd : ∀ (g : FS) (e : PEff) (pid : Nat), (g.step (.pg e pid)).pd = g.pd := fun _ _ _ => rfl
  have hhdrF : (fs.steps (ioSteps (pagesA cfg m fs.pv).1)).pd.hdr = (pagesA cfg m fs.pv).2.1.pm := by
    rw [hfinal, hstep_pd]; exact hflush.2.1
  have hbmF : (fs.steps (ioSteps (pagesA cfg m fs.pv).1)).pd.bm = (pagesA cfg m fs.pv).2.1.bm := by
    rw [hfinal, hstep_pd]; exact hflush.2.2
  have hinertF : Inert (fs.steps (ioSteps (pagesA cfg m fs.pv).1)).pj := by
    rw [hpjF]; intro e he; simpa using he
  -- segments and trees of the final image
  have hST := hall.vol fs
  rw [pv_inert _ hinertF] at hST
  generalize hpdF : (fs.steps (ioSteps (pagesA cfg m fs.pv).1)).pd = pdF at hST
  rw [hpv] at hST
  simp only [ST, Prod.mk.injEq] at hST
  obtain ⟨hsegs, htrees⟩ := hST
  have hfresh : ∀ s ∈ fs.pd.segs, s.key ≠ (min m.bm m.pm.nextPage) := fun s hs => by
    have := h.store.segKeys s hs; unfold frontier at hnp0; omega
  have hTE' : ∀ e ∈ teffs ++ [] ++ [PEff.stats], TreeE e := by
    intro e he
    simp only [List.append_nil, List.mem_append, List.mem_singleton] at he
    rcases he with he | rfl
    · exact hTE e he
    · trivial
  have hsplit : (0 :: (segJs m ++ [cNData m])).map (fun j => PEff.segPart (min m.bm m.pm.nextPage) j (cNData m + 1) (cEdges m)) ++ teffs ++ [] ++ [PEff.stats] =
      (PEff.segPart (min m.bm m.pm.nextPage) 0 (cNData m + 1) (cEdges m) ::
        (segJs m ++ [cNData m]).map (fun j => PEff.segPart (min m.bm m.pm.nextPage) j (cNData m + 1) (cEdges m))) ++ (teffs ++ [] ++ [PEff.stats]) := by
    simp
  have hsegF : pdF.segs = ⟨(min m.bm m.pm.nextPage), cEdges m, cNData m + 1, (segJs m ++ [cNData m]).reverse ++ [0]⟩ :: fs.pd.segs := by
    rw [hsegs, hsplit, applyEffs_append, segs_treeEffs _ hTE']
    have h1 : applyEffs (PEff.segPart (min m.bm m.pm.nextPage) 0 (cNData m + 1) (cEdges m) ::
        (segJs m ++ [cNData m]).map (fun j => PEff.segPart (min m.bm m.pm.nextPage) j (cNData m + 1) (cEdges m))) fs.pd =
        applyEffs ((segJs m ++ [cNData m]).map (fun j => PEff.segPart (min m.bm m.pm.nextPage) j (cNData m + 1) (cEdges m)))
          (applyEff (PEff.segPart (min m.bm m.pm.nextPage) 0 (cNData m + 1) (cEdges m)) fs.pd) := rfl
    rw [h1]
    exact segs_parts _ _ _ _ _ _ _ [0] fs.pd.segs (updSeg_fresh _ _ _ _ _ hfresh) hfresh
  have htreeF : ∀ p1 : PImg, p1 = applyEffs ((0 :: (segJs m ++ [cNData m])).map
      (fun j => PEff.segPart (min m.bm m.pm.nextPage) j (cNData m + 1) (cEdges m))) fs.pd →
      pdF.trees = (applyEffs teffs p1).trees ∧ p1.trees = fs.pd.trees := by
    intro p1 hp1
    constructor
    · rw [htrees, List.append_assoc, List.append_assoc, applyEffs_append, ← hp1, List.nil_append, applyEffs_append]
      rfl
    · rw [hp1]; exact trees_segParts _ _ _ _ _
  refine { nofail := hall.nofail, plain := hall.plain, pager := hall.pager, setpm := hall.setpm, lastpm := hall.lastpm, lastbm := hall.lastbm,
           safe := hall.safe fs hinit, pj := hpjF, hdr := hhdrF, pbm := hbmF, cg := ?_, k0 := by rw [hkey]; exact hk0, seg := ?_, same := ?_, tree := ?_ }
  · rw [hpdF]
    have := allImgsL_pd _ _ _ (hall.post fs hinit)
    rw [hpdF] at this
    exact ⟨_, this⟩
  · rw [hkey, hk0, hpdF]
    refine ⟨⟨(min m.bm m.pm.nextPage), cEdges m, cNData m + 1, (segJs m ++ [cNData m]).reverse ++ [0]⟩, ?_, rfl⟩
    simp only [segFind, hsegF, List.find?_cons, beq_self_eq_true, Bool.true_and, complete_parts]
  · intro hp
    rw [hrt]; exact (hcase1 hp).1
  · intro hp
    obtain ⟨r1, r3⟩ := hcase2 hp
    rw [hrt, hpdF]
    refine ⟨r1, ?_⟩
    obtain ⟨e1, e2⟩ := htreeF _ rfl
    obtain ⟨t, ht, hok⟩ := r3 _ e2
    exact ⟨t, by rw [treeFind_congr e1]; exact ht, hok⟩

theorem pages_post {cfg : Cfg} {T : List Tx} {fs : FS} {m : Mem} {cs : List CTx} {c : Nat}
    (hcap1 : 1 ≤ cfg.leafCap) (h : InvOpen T fs m cs c) (hns : NoLiveSplit cfg m fs.pv) (covered : List Nat)
    (hcf : ∀ q ∈ cProps m, q ∉ covered)
    (hc2 : (scan cs).proot = 0 → covered = [])
    (hc3 : (scan cs).proot ≠ 0 → ∃ t, treeFind fs.pd (scan cs).proot = some t ∧ TreeOK (allProps T) covered (scan cs).ptop t) :
    ∃ lv : LiveP, lv.top = (scan cs).ptop ∧ PagesPost cfg T fs m covered lv := by
  by_cases hr : (scan cs).proot = 0
  · exact ⟨⟨(scan cs).ptop, [], 0⟩, rfl, pages_post_lv hcap1 h hns covered _ rfl hcf hc2 (fun hne => absurd hr hne)⟩
  · obtain ⟨t, hf, hok⟩ := hc3 hr
    obtain ⟨lv, last, hlv, hlo⟩ := hok.live
    exact ⟨lv, hlv, pages_post_lv hcap1 h hns covered lv hlv hcf hc2 (fun _ => ⟨t, last, hf, hlo⟩)⟩

end Nervus.Crash
