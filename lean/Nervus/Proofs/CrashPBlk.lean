/-
  Proofs.CrashPBlk — blocks of page-file actions of a compaction (page allocation, page writes,
  syncs): each keeps every power-loss image (that tears no live leaf write) in the class `CG`,
  moves the allocation frontier, and changes segments / trees of the volatile image by a known
  list of operations.
-/
import Nervus.Proofs.CrashCG
namespace Nervus.Crash

/-- the segment / tree part of a page-file image -/
def ST (p : PImg) : List SegImg × List TreeImg := (p.segs, p.trees)

def effsOf : List Step → List PEff
  | [] => []
  | .pg e _ :: S => e :: effsOf S
  | _ :: S => effsOf S

theorem effsOf_append (a b : List Step) : effsOf (a ++ b) = effsOf a ++ effsOf b := by
  induction a with
  | nil => rfl
  | cons s a ih => cases s <;> simp [effsOf, ih]

theorem pv_steps : ∀ (S : List Step) (fs : FS), (fs.steps S).pv = applyEffs (effsOf S) fs.pv
  | [], fs => rfl
  | s :: S, fs => by
    have h1 : fs.steps (s :: S) = (fs.step s).steps S := rfl
    rw [h1, pv_steps S (fs.step s)]
    cases s <;> simp [effsOf, FS.step, FS.pv, applyEffs, List.foldl_append]

/-- operations that touch neither segments nor trees -/
def AllocEff : PEff → Prop
  | .setLen _ => True
  | .hdr _ => True
  | .bitmap _ => True
  | .stats => True
  | _ => False

theorem st_allocEffs : ∀ (E : List PEff), (∀ e ∈ E, AllocEff e) → ∀ p, ST (applyEffs E p) = ST p
  | [], _, _ => rfl
  | e :: E, h, p => by
    have he := h e (by simp)
    have : applyEffs (e :: E) p = applyEffs E (applyEff e p) := rfl
    rw [this, st_allocEffs E (fun x hx => h x (by simp [hx]))]
    cases e <;> simp only [AllocEff] at he <;> rfl

theorem st_congr : ∀ (E : List PEff) (p p' : PImg), ST p = ST p' → ST (applyEffs E p) = ST (applyEffs E p')
  | [], _, _, h => h
  | e :: E, p, p', h => by
    have h1 : applyEffs (e :: E) p = applyEffs E (applyEff e p) := rfl
    have h2 : applyEffs (e :: E) p' = applyEffs E (applyEff e p') := rfl
    rw [h1, h2]
    apply st_congr E
    simp only [ST, Prod.mk.injEq] at h
    obtain ⟨hs, ht⟩ := h
    cases e <;> simp [ST, applyEff, hs, ht]

/-- no action of the list has an error path of its own (the error is just propagated) -/
def Plain (acts : List Action) : Prop := ∀ a ∈ acts, ∀ s f, a = Action.io s f → f = []

theorem Plain.append {a b : List Action} (ha : Plain a) (hb : Plain b) : Plain (a ++ b) := by
  intro x hx
  rcases List.mem_append.mp hx with h | h
  · exact ha x h
  · exact hb x h

theorem plain_flush (pm : Meta) (bm : Nat) : Plain (flushA pm bm) := by
  intro a ha s f he
  simp [flushA] at ha
  rcases ha with rfl | rfl | rfl <;> (cases he; rfl)

theorem plain_of_mem_or_ioA (l : List Action) (h : ∀ a ∈ l, (∃ u, a = memA u) ∨ (∃ s, a = ioA s)) : Plain l := by
  intro a ha s f he
  rcases h a ha with ⟨u, rfl⟩ | ⟨s', rfl⟩
  · cases he
  · cases he; rfl

theorem plain_ensure (ps : PS) (pid : Nat) : Plain (ensureA ps pid).1 := by
  unfold ensureA
  apply Plain.append _ (plain_flush _ _)
  apply plain_of_mem_or_ioA
  intro a ha
  by_cases hg : ps.pm.nextPage ≤ pid <;> by_cases he : ps.len < pid + 1 <;> simp [hg, he] at ha
  all_goals (first | (rcases ha with rfl | rfl | rfl) | (rcases ha with rfl | rfl) | subst ha)
  all_goals (first | exact Or.inl ⟨_, rfl⟩ | exact Or.inr ⟨_, rfl⟩)

theorem plain_alloc (ps : PS) : Plain (allocA ps).1 := by
  unfold allocA
  intro a ha
  rcases List.mem_cons.mp ha with rfl | ha
  · intro s f he; cases he
  · exact plain_ensure _ _ a ha

theorem onFailAt_plain : ∀ (acts : List Action), Plain acts → ∀ k, onFailAt acts k = []
  | [], _, _ => rfl
  | .io s f :: rest, h, 0 => h (.io s f) (by simp) s f rfl
  | .io s f :: rest, h, k + 1 => onFailAt_plain rest (fun a ha => h a (by simp [ha])) k
  | .fail e :: rest, _, _ => rfl
  | .mem u :: rest, h, k => onFailAt_plain rest (fun a ha => h a (by simp [ha])) k

structure PBlk (p0 : PImg) (live : Nat) (allowed covered : List Nat) (lv : LiveP) (lo nd : Nat) (ps : PS) (acts : List Action)
    (effs : List PEff) (nd' : Nat) (ps' : PS) : Prop where
  nofail : failOf acts = none
  plain : Plain acts
  pager : PagerActs acts
  setpm : OnlySetPm (memUpds acts)
  lastpm : lastPm (memUpds acts) ps.pm = ps'.pm
  lastbm : lastBm (memUpds acts) ps.bm = ps'.bm
  sk : SameKey p0.hdr ps'.pm
  np : min ps'.bm ps'.pm.nextPage = nd'
  mono : nd ≤ nd'
  safe : ∀ fs : FS, AllImgsL live fs (CG p0 live allowed covered lv lo nd) →
    SafeAlong (fun fs => AllImgsL live fs (fun p => ∃ n, CG p0 live allowed covered lv lo n p)) fs (ioSteps acts)
  post : ∀ fs : FS, AllImgsL live fs (CG p0 live allowed covered lv lo nd) →
    AllImgsL live (fs.steps (ioSteps acts)) (CG p0 live allowed covered lv lo nd')
  vol : ∀ fs : FS, ST (fs.steps (ioSteps acts)).pv = ST (applyEffs effs fs.pv)

variable {p0 : PImg} {live lo : Nat} {allowed covered : List Nat} {lv : LiveP}

theorem OnlySetPm.append {a b : List MemUpd} (ha : OnlySetPm a) (hb : OnlySetPm b) : OnlySetPm (a ++ b) := by
  intro u hu
  rcases List.mem_append.mp hu with h | h
  · exact ha u h
  · exact hb u h

theorem PBlk.append {n1 n2 n3 : Nat} {s1 s2 s3 : PS} {a b : List Action} {e1 e2 : List PEff}
    (ha : PBlk p0 live allowed covered lv lo n1 s1 a e1 n2 s2) (hb : PBlk p0 live allowed covered lv lo n2 s2 b e2 n3 s3) :
    PBlk p0 live allowed covered lv lo n1 s1 (a ++ b) (e1 ++ e2) n3 s3 where
  nofail := by rw [failOf_append, ha.nofail]; simpa using hb.nofail
  plain := ha.plain.append hb.plain
  pager := ha.pager.append hb.pager
  setpm := by rw [memUpds_append_noFail _ _ ha.nofail]; exact ha.setpm.append hb.setpm
  lastpm := by rw [memUpds_append_noFail _ _ ha.nofail, lastPm_append, ha.lastpm, hb.lastpm]
  lastbm := by rw [memUpds_append_noFail _ _ ha.nofail, lastBm_append, ha.lastbm, hb.lastbm]
  sk := hb.sk
  np := hb.np
  mono := Nat.le_trans ha.mono hb.mono
  safe := by
    intro fs h
    rw [ioSteps_append_noFail _ _ ha.nofail]
    exact safeAlong_append (ha.safe fs h) (hb.safe _ (ha.post fs h))
  post := by
    intro fs h
    rw [ioSteps_append_noFail _ _ ha.nofail, steps_append]
    exact hb.post _ (ha.post fs h)
  vol := by
    intro fs
    rw [ioSteps_append_noFail _ _ ha.nofail, steps_append, hb.vol, applyEffs_append]
    exact st_congr e2 _ _ (ha.vol fs)

theorem PBlk.nil {nd : Nat} {ps : PS} (hsk : SameKey p0.hdr ps.pm) (hnp : min ps.bm ps.pm.nextPage = nd) :
    PBlk p0 live allowed covered lv lo nd ps [] [] nd ps where
  nofail := rfl
  plain := by intro a ha; simp at ha
  pager := by intro a ha; simp at ha
  setpm := by intro u hu; simp [memUpds] at hu
  lastpm := rfl
  lastbm := rfl
  sk := hsk
  np := hnp
  mono := Nat.le_refl _
  safe := by
    intro fs h
    exact safeAlong_nil (allImgsL_mono live fs _ _ h (fun p hp => ⟨_, hp⟩))
  post := by intro fs h; simpa [ioSteps, FS.steps] using h
  vol := by intro fs; rfl

/-- a block of steps of the class, with no memory update and no allocation -/
theorem PBlk.steps {nd : Nat} {ps : PS} (hsk : SameKey p0.hdr ps.pm) (hnp : min ps.bm ps.pm.nextPage = nd)
    (S : List Step) (hS : ∀ s ∈ S, CStepOK p0 live allowed covered lv lo nd s) :
    PBlk p0 live allowed covered lv lo nd ps (S.map ioA) (effsOf S) nd ps := by
  have hio : ioSteps (S.map ioA) = S := by
    induction S with
    | nil => rfl
    | cons s S ih => simp [ioSteps, ih (fun s' hs' => hS s' (by simp [hs']))]
  have hmu : memUpds (S.map ioA) = [] := by
    clear hio hS
    induction S with
    | nil => rfl
    | cons s S ih => simp [memUpds, ih]
  have hnf : failOf (S.map ioA) = none := by
    clear hio hS hmu
    induction S with
    | nil => rfl
    | cons s S ih => simp [failOf, ih]
  refine { nofail := hnf, plain := ?_, pager := ?_, setpm := by rw [hmu]; intro u hu; simp at hu, lastpm := by rw [hmu]; rfl, lastbm := by rw [hmu]; rfl,
           sk := hsk, np := hnp, mono := Nat.le_refl _, safe := ?_, post := ?_, vol := ?_ }
  · intro a ha s f he
    obtain ⟨s', _, rfl⟩ := List.mem_map.mp ha
    cases he; rfl
  · intro a ha
    obtain ⟨s, hs, rfl⟩ := List.mem_map.mp ha
    exact cstep_pagerStep (hS s hs)
  · intro fs h
    rw [hio]
    exact safeAlong_mono (cstep_block S fs h hS) (fun g hg => allImgsL_mono live g _ _ hg (fun p hp => ⟨_, hp⟩))
  · intro fs h
    rw [hio]
    exact safeAlong_last (cstep_block S fs h hS)
  · intro fs
    rw [hio, pv_steps]

theorem allocA_form (ps : PS) :
    (allocA ps).2.2 = min ps.bm ps.pm.nextPage ∧
    min (allocA ps).2.1.bm (allocA ps).2.1.pm.nextPage = min ps.bm ps.pm.nextPage + 1 ∧
    SameKey ps.pm (allocA ps).2.1.pm ∧ ps.bm ≤ (allocA ps).2.1.bm ∧
    failOf (allocA ps).1 = none ∧
    ∃ pre, (∀ s ∈ pre, ∃ n pid, s = Step.pg (.setLen n) pid) ∧
      ioSteps (allocA ps).1 = pre ++ flushSteps (allocA ps).2.1.pm (allocA ps).2.1.bm := by
  by_cases hh : ps.bm < ps.pm.nextPage
  · have hg : ¬ ps.pm.nextPage ≤ ps.bm := by omega
    have hb : ¬ ps.bm < ps.bm := Nat.lt_irrefl _
    by_cases he : ps.len < ps.bm + 1
    · refine ⟨by simp [allocA, hh]; omega, by simp [allocA, ensureA, hh, hg, hb]; omega, by simp [allocA, ensureA, hh, hg]; exact SameKey.refl _,
        by simp [allocA, ensureA, hh, hb], by simp [allocA, ensureA, hh, hg, he, failOf, flushA],
        [.pg (.setLen (ps.bm + 1)) (ps.bm + 1)], by simp, ?_⟩
      simp [allocA, ensureA, hh, hg, hb, he, ioSteps, flushA, flushSteps]
    · refine ⟨by simp [allocA, hh]; omega, by simp [allocA, ensureA, hh, hg, hb]; omega, by simp [allocA, ensureA, hh, hg]; exact SameKey.refl _,
        by simp [allocA, ensureA, hh, hb], by simp [allocA, ensureA, hh, hg, he, failOf, flushA], [], by simp, ?_⟩
      simp [allocA, ensureA, hh, hg, hb, he, ioSteps, flushA, flushSteps]
  · have hg : ¬ ps.pm.nextPage + 1 ≤ ps.pm.nextPage := Nat.not_succ_le_self _
    have hsk : SameKey ps.pm { ps.pm with nextPage := ps.pm.nextPage + 1 } := ⟨rfl, rfl, rfl, rfl, by simp⟩
    have hbm : ps.bm ≤ (if ps.pm.nextPage < ps.bm then ps.bm else ps.pm.nextPage + 1) := by split <;> omega
    have hmin : min (if ps.pm.nextPage < ps.bm then ps.bm else ps.pm.nextPage + 1) (ps.pm.nextPage + 1) =
        min ps.bm ps.pm.nextPage + 1 := by split <;> omega
    by_cases he : ps.len < ps.pm.nextPage + 1
    · refine ⟨by simp [allocA, hh]; omega, by simpa [allocA, ensureA, hh, hg] using hmin, by simpa [allocA, ensureA, hh, hg] using hsk,
        by simpa [allocA, ensureA, hh, hg] using hbm, by simp [allocA, ensureA, hh, hg, he, failOf, flushA],
        [.pg (.setLen (ps.pm.nextPage + 1)) (ps.pm.nextPage + 1)], by simp, ?_⟩
      simp [allocA, ensureA, hh, hg, he, ioSteps, flushA, flushSteps]
    · refine ⟨by simp [allocA, hh]; omega, by simpa [allocA, ensureA, hh, hg] using hmin, by simpa [allocA, ensureA, hh, hg] using hsk,
        by simpa [allocA, ensureA, hh, hg] using hbm, by simp [allocA, ensureA, hh, hg, he, failOf, flushA], [], by simp, ?_⟩
      simp [allocA, ensureA, hh, hg, he, ioSteps, flushA, flushSteps]

theorem steps_flushed_bm (fs : FS) (pre : List Step) (pm : Meta) (bm : Nat) :
    (fs.steps (pre ++ flushSteps pm bm)).pd.bm = bm := by
  rw [steps_append]
  generalize fs.steps pre = g
  simp [flushSteps, FS.steps, FS.step, FS.pv, applyEffs_append, applyEffs, applyEff]

/-- `Pager::allocate_page` inside a compaction: harmless at every step; afterwards the new frontier is
    durable.  The class may start below the in-memory frontier (after a failed allocation the
    memory is ahead of the file). -/
theorem pblk_alloc {nd : Nat} (ps : PS) (hsk : SameKey p0.hdr ps.pm) (hnp : nd ≤ min ps.bm ps.pm.nextPage) :
    PBlk p0 live allowed covered lv lo nd ps (allocA ps).1 [] (min ps.bm ps.pm.nextPage + 1) (allocA ps).2.1 ∧
    (allocA ps).2.2 = min ps.bm ps.pm.nextPage ∧
    EndsFlushed (allocA ps).1 (allocA ps).2.1.pm (allocA ps).2.1.bm := by
  obtain ⟨hpid, hmin, hsame, hbmle, hnf, pre, hpre, hio⟩ := allocA_form ps
  have hsk' : SameKey p0.hdr (allocA ps).2.1.pm := hsk.trans hsame
  have hS : ∀ s ∈ ioSteps (allocA ps).1, CStepOK p0 live allowed covered lv lo nd s := by
    rw [hio]
    intro s hs
    rcases List.mem_append.mp hs with h | h
    · obtain ⟨n, pid, rfl⟩ := hpre s h
      simp [CStepOK, CEff]
    · simp [flushSteps] at h
      rcases h with rfl | rfl | rfl
      · exact ⟨hsk', by have := hsame.np; omega⟩
      · show nd ≤ (allocA ps).2.1.bm
        omega
      · simp [CStepOK]
  have hfl : ∀ fs : FS, (fs.steps (ioSteps (allocA ps).1)).pj = [] ∧
      (fs.steps (ioSteps (allocA ps).1)).pd.hdr = (allocA ps).2.1.pm ∧
      (fs.steps (ioSteps (allocA ps).1)).pd.bm = (allocA ps).2.1.bm :=
    fun fs => steps_flushed fs _ _ _ ⟨pre, hio⟩
  refine ⟨{ nofail := hnf, plain := plain_alloc ps, pager := pagerActs_alloc ps, setpm := onlySetPm_alloc ps, lastpm := lastPm_alloc ps _, lastbm := lastBm_alloc ps _,
            sk := hsk', np := hmin, mono := by omega,
            safe := ?_, post := ?_, vol := ?_ }, hpid, ⟨pre, hio⟩⟩
  · intro fs h
    exact safeAlong_mono (cstep_block _ fs h hS) (fun g hg => allImgsL_mono live g _ _ hg (fun p hp => ⟨_, hp⟩))
  · intro fs h
    have hlast := safeAlong_last (cstep_block _ fs h hS)
    obtain ⟨hpj, hhdr, hbm⟩ := hfl fs
    intro p' hp'
    rw [hpj] at hp'
    rw [isImgL_nil _ _ _ hp']
    exact (allImgsL_pd live _ _ hlast).raise (by omega) (by rw [hhdr]; omega) (by rw [hbm]; omega)
  · intro fs
    rw [pv_steps]
    apply st_allocEffs
    intro e he
    rw [hio, effsOf_append] at he
    rcases List.mem_append.mp he with h | h
    · have : ∀ (l : List Step), (∀ s ∈ l, ∃ n pid, s = Step.pg (.setLen n) pid) → ∀ e ∈ effsOf l, AllocEff e := by
        intro l
        induction l with
        | nil => intro _ e he; simp [effsOf] at he
        | cons s l ih =>
          intro hl e he
          obtain ⟨n, pid, rfl⟩ := hl s (by simp)
          simp only [effsOf, List.mem_cons] at he
          rcases he with rfl | he
          · trivial
          · exact ih (fun s' hs' => hl s' (by simp [hs'])) e he
      exact this pre hpre e h
    · simp [flushSteps, effsOf] at h
      rcases h with rfl | rfl <;> trivial

theorem pblk_alloc_eq {nd : Nat} (ps : PS) (hsk : SameKey p0.hdr ps.pm) (hnp : min ps.bm ps.pm.nextPage = nd) :
    PBlk p0 live allowed covered lv lo nd ps (allocA ps).1 [] (nd + 1) (allocA ps).2.1 ∧ (allocA ps).2.2 = nd ∧
    EndsFlushed (allocA ps).1 (allocA ps).2.1.pm (allocA ps).2.1.bm := by
  have := pblk_alloc (p0 := p0) (live := live) (lo := lo) (allowed := allowed) (covered := covered) (lv := lv) (nd := nd) ps hsk (by omega)
  rwa [hnp] at this

/-- one page write of the class -/
theorem pblk_write {nd : Nat} {ps : PS} (hsk : SameKey p0.hdr ps.pm) (hnp : min ps.bm ps.pm.nextPage = nd) (e : PEff) (pid : Nat)
    (he : CEff p0 live allowed covered lv lo nd e) :
    PBlk p0 live allowed covered lv lo nd ps [ioA (.pg e pid)] [e] nd ps := by
  have := PBlk.steps (p0 := p0) (live := live) (lo := lo) (allowed := allowed) (covered := covered) (lv := lv) hsk hnp [Step.pg e pid]
    (by intro s hs; simp at hs; subst hs; exact he)
  simpa [effsOf] using this

theorem pblk_sync {nd : Nat} {ps : PS} (hsk : SameKey p0.hdr ps.pm) (hnp : min ps.bm ps.pm.nextPage = nd) :
    PBlk p0 live allowed covered lv lo nd ps [ioA .ps] [] nd ps := by
  have := PBlk.steps (p0 := p0) (live := live) (lo := lo) (allowed := allowed) (covered := covered) (lv := lv) hsk hnp [Step.ps]
    (by intro s hs; simp at hs; subst hs; trivial)
  simpa [effsOf] using this

/-- the data pages of a persisted segment after the first one -/
theorem pblk_segParts (key need : Nat) (edges : List Nat) (hlo : lo ≤ key) :
    ∀ (js : List Nat) (nd : Nat) (ps : PS), SameKey p0.hdr ps.pm → min ps.bm ps.pm.nextPage = nd → key < nd →
      PBlk p0 live allowed covered lv lo nd ps (segPartsA key need edges ps js).1
        (js.map (fun j => PEff.segPart key j need edges)) (nd + js.length) (segPartsA key need edges ps js).2
  | [], nd, ps, hsk, hnp, _ => by simpa [segPartsA] using PBlk.nil (live := live) (lo := lo) (allowed := allowed) (covered := covered) (lv := lv) hsk hnp
  | j :: js, nd, ps, hsk, hnp, hk => by
    obtain ⟨ba, hpid, _⟩ := pblk_alloc_eq (p0 := p0) (live := live) (lo := lo) (allowed := allowed) (covered := covered) (lv := lv) ps hsk hnp
    have bw := pblk_write (p0 := p0) (live := live) (lo := lo) (allowed := allowed) (covered := covered) (lv := lv) ba.sk ba.np
      (.segPart key j need edges) (allocA ps).2.2 ⟨hlo, by omega⟩
    have br := pblk_segParts key need edges hlo js (nd + 1) (allocA ps).2.1 ba.sk ba.np (by omega)
    have := (ba.append bw).append br
    have hacts : (segPartsA key need edges ps (j :: js)).1 =
        ((allocA ps).1 ++ [ioA (.pg (.segPart key j need edges) (allocA ps).2.2)]) ++
          (segPartsA key need edges (allocA ps).2.1 js).1 := by
      simp [segPartsA]
    have hres : (segPartsA key need edges ps (j :: js)).2 = (segPartsA key need edges (allocA ps).2.1 js).2 := rfl
    rw [hacts, hres]
    have hl : nd + (j :: js).length = nd + 1 + js.length := by simp; omega
    rw [hl]
    simpa using this

end Nervus.Crash
