/-
  Proofs/EngineReads.lean — what the run-phase read path computes, as recurrences over the run list
  (newest first).  Model-internal lemmas used by the C06 refinement and its corollaries.
-/
import Nervus.Model.EngineRun
namespace Nervus.Storage

/-! ### sorting helpers: `isort` is a permutation -/

theorem insertBy_perm {α} (le : α → α → Bool) (a : α) (l : List α) : (insertBy le a l).Perm (a :: l) := by
  induction l with
  | nil => simp [insertBy]
  | cons b bs ih =>
    simp only [insertBy]
    split
    · exact List.Perm.refl _
    · exact (List.Perm.cons b ih).trans (List.Perm.swap a b bs)

theorem isort_perm {α} (le : α → α → Bool) (l : List α) : (isort le l).Perm l := by
  induction l with
  | nil => simp [isort]
  | cons a as ih => exact (insertBy_perm le a _).trans (List.Perm.cons a ih)

theorem count_isort {α} [BEq α] [LawfulBEq α] (le : α → α → Bool) (l : List α) (a : α) :
    (isort le l).count a = l.count a := (isort_perm le l).count_eq a

theorem mem_isort {α} (le : α → α → Bool) (l : List α) (a : α) : a ∈ isort le l ↔ a ∈ l :=
  (isort_perm le l).mem_iff

theorem contains_isort {α} [BEq α] [LawfulBEq α] (le : α → α → Bool) (l : List α) (a : α) :
    (isort le l).contains a = l.contains a := by
  rw [Bool.eq_iff_iff]; simp [mem_isort]

/-! ### visible multiplicity of an edge key in a run list -/

/-- newest-first overlay: the copies of the newest run, plus the older ones unless the newest run
    tombstones the key or one of its end nodes -/
def visE (e : Edge) : List Run → Nat
  | [] => 0
  | r :: rs => r.edges.count e +
      (if r.tombEdges.contains e || r.tombNodes.contains e.src || r.tombNodes.contains e.dst then 0 else visE e rs)

/-- what the outgoing iterator yields for one key, with the blocked sets as accumulators -/
def countOut (e : Edge) : List Run → List Nat → List Edge → Nat
  | [], _, _ => 0
  | r :: rs, bn, be =>
    (if blockedOut bn be e then 0 else r.edges.count e) + countOut e rs (bn ++ r.tombNodes) (be ++ r.tombEdges)

def countIn (e : Edge) : List Run → List Nat → List Edge → Nat
  | [], _, _ => 0
  | r :: rs, bn, be =>
    (if blockedIn bn be e then 0 else r.edges.count e) + countIn e rs (bn ++ r.tombNodes) (be ++ r.tombEdges)

theorem countOut_blocked (e : Edge) (runs : List Run) (bn : List Nat) (be : List Edge)
    (h : blockedOut bn be e = true) : countOut e runs bn be = 0 := by
  induction runs generalizing bn be with
  | nil => rfl
  | cons r rs ih =>
    simp only [countOut, h, if_true, Nat.zero_add]
    apply ih
    simp only [blockedOut, Bool.or_eq_true, List.contains_eq_mem, List.mem_append, decide_eq_true_eq] at h ⊢
    rcases h with h | h
    · exact Or.inl (Or.inl h)
    · exact Or.inr (Or.inl h)

theorem countIn_blocked (e : Edge) (runs : List Run) (bn : List Nat) (be : List Edge)
    (h : blockedIn bn be e = true) : countIn e runs bn be = 0 := by
  induction runs generalizing bn be with
  | nil => rfl
  | cons r rs ih =>
    simp only [countIn, h, if_true, Nat.zero_add]
    apply ih
    simp only [blockedIn, Bool.or_eq_true, List.contains_eq_mem, List.mem_append, decide_eq_true_eq] at h ⊢
    rcases h with h | h
    · exact Or.inl (Or.inl h)
    · exact Or.inr (Or.inl h)

theorem countOut_congr (e : Edge) (runs : List Run) (bn bn' : List Nat) (be be' : List Edge)
    (h1 : bn.contains e.dst = bn'.contains e.dst) (h2 : be.contains e = be'.contains e) :
    countOut e runs bn be = countOut e runs bn' be' := by
  induction runs generalizing bn bn' be be' with
  | nil => rfl
  | cons r rs ih =>
    simp only [countOut, blockedOut, h1, h2]
    congr 1
    apply ih
    · simp only [List.contains_eq_mem, List.mem_append, decide_eq_decide] at h1 ⊢; rw [h1]
    · simp only [List.contains_eq_mem, List.mem_append, decide_eq_decide] at h2 ⊢; rw [h2]

theorem countIn_congr (e : Edge) (runs : List Run) (bn bn' : List Nat) (be be' : List Edge)
    (h1 : bn.contains e.src = bn'.contains e.src) (h2 : be.contains e = be'.contains e) :
    countIn e runs bn be = countIn e runs bn' be' := by
  induction runs generalizing bn bn' be be' with
  | nil => rfl
  | cons r rs ih =>
    simp only [countIn, blockedIn, h1, h2]
    congr 1
    apply ih
    · simp only [List.contains_eq_mem, List.mem_append, decide_eq_decide] at h1 ⊢; rw [h1]
    · simp only [List.contains_eq_mem, List.mem_append, decide_eq_decide] at h2 ⊢; rw [h2]

/-- the run's own node tombstones do not contain the end nodes of its own edges,
    and no run holds an edge to a node that an older-or-same run tombstones -/
def RunsOK : List Run → Prop
  | [] => True
  | r :: rs => (∀ e ∈ r.edges, isTombNode (r :: rs) e.src = false ∧ isTombNode (r :: rs) e.dst = false) ∧ RunsOK rs

theorem isTombNode_cons (r : Run) (rs : List Run) (n : Nat) :
    isTombNode (r :: rs) n = (r.tombNodes.contains n || isTombNode rs n) := by
  simp [isTombNode]

/-- with nothing blocked, the outgoing count of a key whose source is alive is `visE` -/
theorem countOut_eq_visE (e : Edge) (runs : List Run) (hs : isTombNode runs e.src = false) :
    countOut e runs [] [] = visE e runs := by
  induction runs with
  | nil => rfl
  | cons r rs ih =>
    rw [isTombNode_cons, Bool.or_eq_false_iff] at hs
    simp only [countOut, visE, blockedOut, List.contains_nil, Bool.or_self, Bool.false_eq_true, if_false,
      List.nil_append, hs.1, Bool.or_false]
    congr 1
    by_cases hb : (r.tombEdges.contains e || r.tombNodes.contains e.dst) = true
    · rw [if_pos hb]
      apply countOut_blocked
      simp only [blockedOut]; rw [Bool.or_comm]; exact hb
    · rw [if_neg hb, ← ih hs.2]
      simp only [Bool.or_eq_true, not_or, Bool.not_eq_true] at hb
      apply countOut_congr
      · rw [hb.2]; rfl
      · rw [hb.1]; rfl

theorem countIn_eq_visE (e : Edge) (runs : List Run) (hd : isTombNode runs e.dst = false) :
    countIn e runs [] [] = visE e runs := by
  induction runs with
  | nil => rfl
  | cons r rs ih =>
    rw [isTombNode_cons, Bool.or_eq_false_iff] at hd
    simp only [countIn, visE, blockedIn, List.contains_nil, Bool.or_self, Bool.false_eq_true, if_false,
      List.nil_append, hd.1, Bool.or_false]
    congr 1
    by_cases hb : (r.tombEdges.contains e || r.tombNodes.contains e.src) = true
    · rw [if_pos hb]
      apply countIn_blocked
      simp only [blockedIn]; rw [Bool.or_comm]; exact hb
    · rw [if_neg hb, ← ih hd.2]
      simp only [Bool.or_eq_true, not_or, Bool.not_eq_true] at hb
      apply countIn_congr
      · rw [hb.2]; rfl
      · rw [hb.1]; rfl

/-! ### the iterator model against the counts -/

theorem count_filter_edge (p : Edge → Bool) (l : List Edge) (e : Edge) :
    (l.filter p).count e = if p e then l.count e else 0 := by
  induction l with
  | nil => simp
  | cons a as ih =>
    simp only [List.filter_cons]
    by_cases hpa : p a = true
    · simp only [hpa, if_true, List.count_cons, ih]
      by_cases hae : a = e
      · subst hae; simp [hpa]
      · have : (a == e) = false := by simpa using hae
        simp [this]
    · simp only [hpa, Bool.false_eq_true, if_false, ih, List.count_cons]
      by_cases hae : a = e
      · subst hae; simp [hpa]
      · have : (a == e) = false := by simpa using hae
        simp [this]

/-- outgoing iterator, run phase, for a source that no run tombstones -/
theorem outRuns_count (src : Nat) (rel : Option Nat) (runs : List Run) (bn : List Nat) (be : List Edge)
    (hb : bn.contains src = false) (hs : isTombNode runs src = false) (e : Edge) :
    (outRuns src rel runs bn be).1.count e =
      (if e.src = src ∧ relOk rel e = true then countOut e runs bn be else 0) ∧
    (outRuns src rel runs bn be).2.isSome = true := by
  induction runs generalizing bn be with
  | nil =>
    have hb2 : src ∉ bn := by simpa using hb
    simp [outRuns, hb2, countOut]
  | cons r rs ih =>
    rw [isTombNode_cons, Bool.or_eq_false_iff] at hs
    have hb' : (bn ++ r.tombNodes).contains src = false := by
      have h1 := hs.1
      simp only [List.contains_eq_mem, List.mem_append, decide_eq_false_iff_not, not_or] at hb h1 ⊢
      exact ⟨hb, h1⟩
    have ih' := ih (bn ++ r.tombNodes) (be ++ r.tombEdges) hb' hs.2
    simp only [outRuns, hb, Bool.false_eq_true, if_false, hs.1]
    constructor
    · simp only [List.count_append, ih'.1, Run.edgesForSrc, List.filter_filter, count_filter_edge, countOut]
      by_cases h1 : e.src = src
      · by_cases h2 : relOk rel e = true
        · by_cases h3 : blockedOut bn be e = true
          · simp [h1, h2, h3]
          · simp [h1, h2, h3]
        · simp [h1, h2]
      · have : (e.src == src) = false := by simpa using h1
        simp [h1, this]
    · exact ih'.2

theorem inRuns_count (dst : Nat) (rel : Option Nat) (runs : List Run) (bn : List Nat) (be : List Edge)
    (hb : bn.contains dst = false) (hs : isTombNode runs dst = false) (e : Edge) :
    (inRuns dst rel runs bn be).1.count e =
      (if e.dst = dst ∧ relOk rel e = true then countIn e runs bn be else 0) ∧
    (inRuns dst rel runs bn be).2.isSome = true := by
  induction runs generalizing bn be with
  | nil =>
    have hb2 : dst ∉ bn := by simpa using hb
    simp [inRuns, hb2, countIn]
  | cons r rs ih =>
    rw [isTombNode_cons, Bool.or_eq_false_iff] at hs
    have hb' : (bn ++ r.tombNodes).contains dst = false := by
      have h1 := hs.1
      simp only [List.contains_eq_mem, List.mem_append, decide_eq_false_iff_not, not_or] at hb h1 ⊢
      exact ⟨hb, h1⟩
    have ih' := ih (bn ++ r.tombNodes) (be ++ r.tombEdges) hb' hs.2
    simp only [inRuns, hb, Bool.false_eq_true, if_false, hs.1]
    constructor
    · simp only [List.count_append, ih'.1, Run.edgesForDst, List.filter_filter, count_filter_edge, countIn]
      by_cases h1 : e.dst = dst
      · by_cases h2 : relOk rel e = true
        · by_cases h3 : blockedIn bn be e = true
          · simp [h1, h2, h3]
          · simp [h1, h2, h3]
        · simp [h1, h2]
      · have : (e.dst == dst) = false := by simpa using h1
        simp [h1, this]
    · exact ih'.2

end Nervus.Storage
