import Nervus.Model.Depth
namespace Nervus.Depth

theorem parserDepth_le_astDepth (e : E) : parserDepth e ≤ astDepth e := by
  induction e with
  | atom => exact Nat.le_refl _
  | group e ih => simp only [parserDepth, astDepth]; omega
  | «prefix» e ih => simp only [parserDepth, astDepth]; omega
  | «infix» l r ihl ihr => simp only [parserDepth, astDepth]; omega
  | «postfix» e ih => simp only [parserDepth, astDepth]; omega

theorem astDepth_le_tokens (e : E) : astDepth e ≤ tokens e := by
  induction e with
  | atom => exact Nat.le_refl _
  | group e ih => simp only [astDepth, tokens]; omega
  | «prefix» e ih => simp only [astDepth, tokens]; omega
  | «infix» l r ihl ihr => simp only [astDepth, tokens]; omega
  | «postfix» e ih => simp only [astDepth, tokens]; omega

theorem tokens_pos (e : E) : 0 < tokens e := by
  cases e <;> simp only [tokens] <;> omega

theorem nest_facts (n : Nat) : tokens (nest n) = 2 * n + 1 ∧ parserDepth (nest n) = n + 1 ∧ astDepth (nest n) = n + 1 := by
  induction n with
  | zero => simp [nest, tokens, parserDepth, astDepth]
  | succ n ih => simp only [nest, tokens, parserDepth, astDepth]; omega

theorem prefixes_facts (n : Nat) : tokens (prefixes n) = n + 1 ∧ parserDepth (prefixes n) = n + 1 := by
  induction n with
  | zero => simp [prefixes, tokens, parserDepth]
  | succ n ih => simp only [prefixes, tokens, parserDepth]; omega

theorem chain_facts (n : Nat) : tokens (chain n) = 2 * n + 1 ∧ parserDepth (chain n) ≤ 2 ∧ astDepth (chain n) = n + 1 := by
  induction n with
  | zero => simp [chain, tokens, parserDepth, astDepth]
  | succ n ih => simp only [chain, tokens, parserDepth, astDepth]; omega

theorem accesses_facts (n : Nat) : tokens (accesses n) = 2 * n + 1 ∧ parserDepth (accesses n) = 1 ∧ astDepth (accesses n) = n + 1 := by
  induction n with
  | zero => simp [accesses, tokens, parserDepth, astDepth]
  | succ n ih => simp only [accesses, tokens, parserDepth, astDepth]; omega

theorem steps_le_budget (e : E) : steps e ≤ stepBudget (tokens e) := by
  have hf : 1 ≤ Generated.parseStepFactor := by decide
  have : tokens e ≤ tokens e * Generated.parseStepFactor := Nat.le_mul_of_pos_right _ hf
  simp only [steps, stepBudget]
  omega

end Nervus.Depth
