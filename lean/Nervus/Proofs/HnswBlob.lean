/-
  Helper lemmas for C31, blob layer: splitting into page payloads and concatenating them is the
  identity for every page payload size ≥ 1; word encoding round-trips; decoding page by page loses
  words whenever the payload size is not a multiple of 4 and the value crosses a page.
-/
import Nervus.Model.HnswBlob
import Nervus.Proofs.LeBytes
namespace Nervus.HnswBlob
open Nervus

theorem chunksAux_flatten (P : Nat) (hP : 1 ≤ P) : ∀ (fuel : Nat) (l : Bytes), l.length ≤ fuel →
    (chunksAux P fuel l).flatten = l
  | 0, l, h => by
    have : l = [] := List.eq_nil_of_length_eq_zero (by omega)
    subst this; rfl
  | fuel + 1, l, h => by
    unfold chunksAux
    cases l with
    | nil => rfl
    | cons a as =>
      simp only [List.isEmpty_cons, Bool.false_eq_true, if_false, List.flatten_cons]
      rw [chunksAux_flatten P hP fuel _ (by simp only [List.length_drop, List.length_cons] at *; omega)]
      exact List.take_append_drop P (a :: as)

theorem readBlob_writeBlob (P : Nat) (hP : 1 ≤ P) (data : Bytes) : readBlob (writeBlob P data) = data := by
  unfold readBlob writeBlob chunks
  cases data with
  | nil => rfl
  | cons a as =>
    simp only [List.isEmpty_cons, Bool.false_eq_true, if_false]
    exact chunksAux_flatten P hP _ _ (Nat.le_refl _)

theorem leBytes4 (w : Nat) : ∃ a b c d, leBytes 4 w = [a, b, c, d] := by
  unfold leBytes leBytes leBytes leBytes leBytes
  exact ⟨_, _, _, _, rfl⟩

theorem decode_encode : ∀ (ws : List Nat), (∀ w, w ∈ ws → w < 2 ^ 32) → decodeWords (encodeWords ws) = ws
  | [], _ => rfl
  | w :: ws, h => by
    unfold encodeWords
    rw [List.flatMap_cons]
    obtain ⟨a, b, c, d, hb⟩ := leBytes4 w
    rw [hb]
    simp only [List.cons_append, List.nil_append, decodeWords]
    have hv : leVal [a, b, c, d] = w := by
      rw [← hb]; exact leVal_leBytes 4 w (by have := h w List.mem_cons_self; omega)
    rw [hv]
    congr 1
    exact decode_encode ws (fun x hx => h x (List.mem_cons_of_mem _ hx))

theorem encodeWords_length (ws : List Nat) : (encodeWords ws).length = 4 * ws.length := by
  induction ws with
  | nil => rfl
  | cons w ws ih =>
    unfold encodeWords at *
    rw [List.flatMap_cons, List.length_append, leBytes_length, ih, List.length_cons]; omega

/-- **stored = read back** through the blob chain, for every length and every page payload ≥ 1 -/
theorem roundTrip_concat (P : Nat) (hP : 1 ≤ P) (ws : List Nat) (hw : ∀ w, w ∈ ws → w < 2 ^ 32) :
    roundTrip false P ws = .ok ws := by
  unfold roundTrip getWords
  rw [readBlob_writeBlob P hP, encodeWords_length]
  have : (4 * ws.length % 4 != 0) = false := by simp
  simp only [this, Bool.false_eq_true, if_false]
  rw [decode_encode ws hw]

/-! ### decoding page by page -/

theorem decodeWords_length : ∀ (b : Bytes), (decodeWords b).length = b.length / 4
  | [] => by simp [decodeWords]
  | [_] => by simp [decodeWords]
  | [_, _] => by simp [decodeWords]
  | [_, _, _] => by simp [decodeWords]
  | a :: b :: c :: d :: rest => by
    simp only [decodeWords, List.length_cons, decodeWords_length rest]; omega

def sumQ (pages : List Bytes) : Nat := (pages.map (fun p => p.length / 4)).sum

theorem perPage_length (pages : List Bytes) : (pages.flatMap decodeWords).length = sumQ pages := by
  induction pages with
  | nil => rfl
  | cons p ps ih =>
    rw [List.flatMap_cons, List.length_append, ih, decodeWords_length]
    simp [sumQ]

theorem sumQ_chunksAux_le (P : Nat) : ∀ (fuel : Nat) (l : Bytes), sumQ (chunksAux P fuel l) ≤ l.length / 4
  | 0, l => by simp [chunksAux, sumQ]
  | fuel + 1, l => by
    unfold chunksAux
    cases l with
    | nil => simp [sumQ]
    | cons a as =>
      simp only [List.isEmpty_cons, Bool.false_eq_true, if_false]
      have ih := sumQ_chunksAux_le P fuel (List.drop P (a :: as))
      have h1 : (List.take P (a :: as)).length + (List.drop P (a :: as)).length = (a :: as).length := by
        rw [← List.length_append, List.take_append_drop]
      simp only [sumQ, List.map_cons, List.sum_cons] at *
      omega

/-- a value that crosses a page whose payload is not a multiple of 4 comes back SHORTER when the words
    are decoded page by page -/
theorem perPage_loses_words (P : Nat) (hP4 : P % 4 ≠ 0) (ws : List Nat) (hcross : P < 4 * ws.length)
    (r : List Nat) (h : roundTrip true P ws = .ok r) : r.length < ws.length := by
  unfold roundTrip getWords at h
  split at h
  · cases h
  · simp only [if_true, Except.ok.injEq] at h
    subst h
    rw [perPage_length]
    have hlen := encodeWords_length ws
    unfold writeBlob chunks
    cases hd : encodeWords ws with
    | nil => rw [hd] at hlen; simp at hlen; omega
    | cons a as =>
      simp only [List.isEmpty_cons, Bool.false_eq_true, if_false]
      rw [hd] at hlen
      -- first page is full (P bytes), the rest holds the other L - P bytes
      show sumQ (chunksAux P (as.length + 1) (a :: as)) < ws.length
      unfold chunksAux
      simp only [List.isEmpty_cons, Bool.false_eq_true, if_false]
      have hrest := sumQ_chunksAux_le P as.length (List.drop P (a :: as))
      have htake : (List.take P (a :: as)).length = P := by
        rw [List.length_take]; omega
      have hdrop : (List.drop P (a :: as)).length = (a :: as).length - P := List.length_drop
      simp only [sumQ, List.map_cons, List.sum_cons] at *
      rw [htake]
      omega

end Nervus.HnswBlob
