/-
  Round trip of the PropertyValue codec (C25): `decode (encode v) = v` for every well-formed value whose
  nesting the decoder accepts — by mutual structural induction over `PV` / `PVList` / `PVMap`.
-/
import Nervus.Proofs.PropValSafe
import Nervus.Proofs.BytesOrder
namespace Nervus.PropVal
open Nervus

/-! ### `PVMap` as a `BTreeMap` -/

theorem PVMap.append_nil : ∀ (m : PVMap), m.append .nil = m
  | .nil => rfl
  | .cons k v t => by simp [PVMap.append, PVMap.append_nil t]

theorem PVMap.append_assoc : ∀ (a b c : PVMap), (a.append b).append c = a.append (b.append c)
  | .nil, _, _ => rfl
  | .cons k v t, b, c => by simp [PVMap.append, PVMap.append_assoc t b c]

theorem PVMap.keys_append : ∀ (a b : PVMap), (a.append b).keys = a.keys ++ b.keys
  | .nil, _ => rfl
  | .cons k v t, b => by simp [PVMap.append, PVMap.keys, PVMap.keys_append t b]

/-- inserting a key larger than every present key appends it (the decoder re-inserts sorted entries) -/
theorem PVMap.insert_eq_append (k : Bytes) (v : PV) : ∀ (acc : PVMap),
    (∀ a ∈ acc.keys, bytesLt a k = true) → acc.insert k v = acc.append (.cons k v .nil)
  | .nil, _ => rfl
  | .cons k' v' t, h => by
    have hk : bytesLt k' k = true := h k' (by simp [PVMap.keys])
    have hne : k ≠ k' := by
      intro e; subst e; rw [bytesLt_irrefl] at hk; cases hk
    have hnl : bytesLt k k' = false := bytesLt_asymm _ _ hk
    have ih := PVMap.insert_eq_append k v t (fun a ha => h a (by simp [PVMap.keys, ha]))
    simp [PVMap.insert, hne, hnl, PVMap.append, ih]

/-! ### encoded sizes -/

theorem encode_length_pos (v : PV) : 0 < (encode v).length := by
  cases v <;> simp [encode]

/-! ### arms on encoded input -/

theorem decFixed8_enc (t : UInt8) (x rest : Bytes) (mk : Nat → PV) (hx : x.length = 8) :
    decFixed8 (t :: (x ++ rest)) mk = Res.ret (mk (leVal x), rest) := by
  unfold decFixed8
  have hl : ¬ (t :: (x ++ rest)).length < 9 := by simp [hx] <;> omega
  rw [if_neg hl]
  have hs : slice (t :: (x ++ rest)) 1 9 = some x :=
    slice_append' [t] x rest 1 9 rfl (by simp [hx])
  rw [hs]
  have hd : (t :: (x ++ rest)).drop 9 = rest := by
    have : (x ++ rest).drop 8 = rest := by rw [← hx]; simp
    simpa using this
  simp [hd]

theorem decLenPrefixed_enc (t : UInt8) (s rest : Bytes) (check : Bytes → Bool) (mk : Bytes → PV)
    (hs : s.length < two32) (hc : check s = true) :
    (decLenPrefixed (t :: (leBytes 4 s.length ++ (s ++ rest))) check mk).val = .ok (mk s, rest) := by
  unfold decLenPrefixed
  have hl : ¬ (t :: (leBytes 4 s.length ++ (s ++ rest))).length < 5 := by simp [leBytes_length] <;> omega
  rw [if_neg hl]
  have hr : readU32 (t :: (leBytes 4 s.length ++ (s ++ rest))) 1 = some s.length :=
    readU32_append [t] (s ++ rest) s.length hs
  rw [hr]; simp only
  have hl2 : ¬ (t :: (leBytes 4 s.length ++ (s ++ rest))).length < 5 + s.length := by
    simp [leBytes_length] <;> omega
  rw [if_neg hl2]
  have hsl : slice (t :: (leBytes 4 s.length ++ (s ++ rest))) 5 (5 + s.length) = some s := by
    have := slice_append' (t :: leBytes 4 s.length) s rest 5 (5 + s.length) (by simp [leBytes_length]) (by simp [leBytes_length])
    simpa using this
  rw [hsl]; simp only [Res.alloc_val, hc, if_true, Res.ret_val]
  have hd : (t :: (leBytes 4 s.length ++ (s ++ rest))).drop (5 + s.length) = rest := by
    have h1 : (t :: (leBytes 4 s.length ++ (s ++ rest))) = (t :: leBytes 4 s.length ++ s) ++ rest := by simp
    rw [h1]
    have h2 : (t :: leBytes 4 s.length ++ s).length = 5 + s.length := by simp [leBytes_length] <;> omega
    rw [← h2]; simp
  rw [hd]

theorem readKey_enc (k rest : Bytes) (hk : k.length < two32) (hu : validUtf8 k = true) :
    (readKey (leBytes 4 k.length ++ (k ++ rest))).val = .ok (k, rest) := by
  unfold readKey
  have hl : ¬ (leBytes 4 k.length ++ (k ++ rest)).length < 4 := by simp [leBytes_length]
  rw [if_neg hl]
  have hr : readU32 (leBytes 4 k.length ++ (k ++ rest)) 0 = some k.length := by
    have := readU32_append [] (k ++ rest) k.length hk
    simpa using this
  rw [hr]; simp only
  have hl2 : ¬ (leBytes 4 k.length ++ (k ++ rest)).length < 4 + k.length := by simp [leBytes_length]
  rw [if_neg hl2]
  have hsl : slice (leBytes 4 k.length ++ (k ++ rest)) 4 (4 + k.length) = some k :=
    slice_append' (leBytes 4 k.length) k rest 4 (4 + k.length) (by simp [leBytes_length]) (by simp [leBytes_length])
  rw [hsl]; simp only [Res.alloc_val, hu, if_true, Res.ret_val]
  have hd : (leBytes 4 k.length ++ (k ++ rest)).drop (4 + k.length) = rest := by
    have h1 : (leBytes 4 k.length ++ (k ++ rest)) = (leBytes 4 k.length ++ k) ++ rest := by simp
    rw [h1]
    have h2 : (leBytes 4 k.length ++ k).length = 4 + k.length := by simp [leBytes_length]
    rw [← h2]; simp
  rw [hd]

/-- nesting the decoder accepts below a frame at depth `d` -/
def DepthFits (cfg : Cfg) (d n : Nat) : Prop := ∀ m, cfg.maxDepth = some m → d + n ≤ m

theorem tooDeep_of_fits {cfg : Cfg} {d n : Nat} (h : DepthFits cfg d (n + 1)) : tooDeep cfg d = false := by
  unfold tooDeep
  cases hm : cfg.maxDepth with
  | none => rfl
  | some m => have := h m hm; simp; omega

theorem decList_enc (cfg : Cfg) (f : Bytes → Res (PV × Bytes)) (d : Nat) (t : UInt8) (n : Nat) (body : Bytes)
    (hn : n < two32) (htd : tooDeep cfg d = false) :
    (decList cfg f d (t :: (leBytes 4 n ++ body))).val =
      ((loopList f n body).bind fun q => Res.ret (PV.list q.1, q.2)).val := by
  unfold decList
  rw [htd]; simp only [Bool.false_eq_true, if_false]
  have hl : ¬ (t :: (leBytes 4 n ++ body)).length < 5 := by simp [leBytes_length]
  rw [if_neg hl]
  have hr : readU32 (t :: (leBytes 4 n ++ body)) 1 = some n := readU32_append [t] body n hn
  rw [hr]; simp only [Res.alloc_val]
  have hd : (t :: (leBytes 4 n ++ body)).drop 5 = body := by
    have h2 : (t :: leBytes 4 n).length = 5 := by simp [leBytes_length]
    have : (t :: (leBytes 4 n ++ body)) = (t :: leBytes 4 n) ++ body := by simp
    rw [this, ← h2]; simp
  rw [hd]

theorem decMap_enc (cfg : Cfg) (f : Bytes → Res (PV × Bytes)) (d : Nat) (t : UInt8) (n : Nat) (body : Bytes)
    (hn : n < two32) (htd : tooDeep cfg d = false) :
    (decMap cfg f d (t :: (leBytes 4 n ++ body))).val =
      ((loopMap f n body .nil).bind fun q => Res.ret (PV.map q.1, q.2)).val := by
  unfold decMap
  rw [htd]; simp only [Bool.false_eq_true, if_false]
  have hl : ¬ (t :: (leBytes 4 n ++ body)).length < 5 := by simp [leBytes_length]
  rw [if_neg hl]
  have hr : readU32 (t :: (leBytes 4 n ++ body)) 1 = some n := readU32_append [t] body n hn
  rw [hr]; simp only
  have hd : (t :: (leBytes 4 n ++ body)).drop 5 = body := by
    have h2 : (t :: leBytes 4 n).length = 5 := by simp [leBytes_length]
    have : (t :: (leBytes 4 n ++ body)) = (t :: leBytes 4 n) ++ body := by simp
    rw [this, ← h2]; simp
  rw [hd]

/-! ### the induction -/

open Generated in
mutual
  theorem rt_pv (cfg : Cfg) : ∀ (v : PV) (fuel d : Nat) (rest : Bytes), (encode v).length < fuel →
      v.wf = true → DepthFits cfg d v.nesting → (decodeRec cfg fuel d (encode v ++ rest)).val = .ok (v, rest)
    | v, 0, _, _, h, _, _ => absurd h (Nat.not_lt_zero _)
    | .null, fuel + 1, d, rest, _, _, _ => by
      simp [encode, decodeRec]
    | .bool b, fuel + 1, d, rest, _, _, _ => by
      have hlen : ¬ (rest.length + 1 + 1 < 2) := by omega
      cases b <;> simp [encode, decodeRec, pvTagBool, pvTagNull, slice, hlen]
    | .int i, fuel + 1, d, rest, _, hw, _ => by
      have hr : I64.inRange i := by simpa [PV.wf] using hw
      simp only [encode, List.cons_append, decodeRec, Res.enter_val]
      simp only [pvTagInt, pvTagNull, pvTagBool]
      simp only [show ¬ ((2 : UInt8) = 0) by decide, show ¬ ((2 : UInt8) = 1) by decide, if_false, if_true]
      rw [decFixed8_enc _ _ _ _ (leBytes_length 8 _)]
      simp [leVal_leBytes 8 _ (toU64_lt i), ofU64_toU64 i hr]
    | .float f, fuel + 1, d, rest, _, hw, _ => by
      have hr : f < two64 := by simpa [PV.wf] using hw
      simp only [encode, List.cons_append, decodeRec, Res.enter_val]
      simp only [pvTagFloat, pvTagInt, pvTagNull, pvTagBool]
      simp only [show ¬ ((3 : UInt8) = 0) by decide, show ¬ ((3 : UInt8) = 1) by decide,
        show ¬ ((3 : UInt8) = 2) by decide, if_false, if_true]
      rw [decFixed8_enc _ _ _ _ (leBytes_length 8 _)]
      simp [leVal_leBytes 8 f (by unfold two64 at hr; omega)]
    | .str s, fuel + 1, d, rest, _, hw, _ => by
      have hr : validUtf8 s = true ∧ s.length < two32 := by simpa [PV.wf] using hw
      simp only [encode, List.cons_append, List.append_assoc, decodeRec, Res.enter_val]
      simp only [pvTagString, pvTagFloat, pvTagInt, pvTagNull, pvTagBool]
      simp only [show ¬ ((4 : UInt8) = 0) by decide, show ¬ ((4 : UInt8) = 1) by decide,
        show ¬ ((4 : UInt8) = 2) by decide, show ¬ ((4 : UInt8) = 3) by decide, if_false, if_true]
      exact decLenPrefixed_enc _ s rest _ _ hr.2 hr.1
    | .datetime i, fuel + 1, d, rest, _, hw, _ => by
      have hr : I64.inRange i := by simpa [PV.wf] using hw
      simp only [encode, List.cons_append, decodeRec, Res.enter_val]
      simp only [pvTagDateTime, pvTagString, pvTagFloat, pvTagInt, pvTagNull, pvTagBool]
      simp only [show ¬ ((5 : UInt8) = 0) by decide, show ¬ ((5 : UInt8) = 1) by decide,
        show ¬ ((5 : UInt8) = 2) by decide, show ¬ ((5 : UInt8) = 3) by decide,
        show ¬ ((5 : UInt8) = 4) by decide, if_false, if_true]
      rw [decFixed8_enc _ _ _ _ (leBytes_length 8 _)]
      simp [leVal_leBytes 8 _ (toU64_lt i), ofU64_toU64 i hr]
    | .blob b, fuel + 1, d, rest, _, hw, _ => by
      have hr : b.length < two32 := by simpa [PV.wf] using hw
      simp only [encode, List.cons_append, List.append_assoc, decodeRec, Res.enter_val]
      simp only [pvTagBlob, pvTagDateTime, pvTagString, pvTagFloat, pvTagInt, pvTagNull, pvTagBool]
      simp only [show ¬ ((6 : UInt8) = 0) by decide, show ¬ ((6 : UInt8) = 1) by decide,
        show ¬ ((6 : UInt8) = 2) by decide, show ¬ ((6 : UInt8) = 3) by decide,
        show ¬ ((6 : UInt8) = 4) by decide, show ¬ ((6 : UInt8) = 5) by decide, if_false, if_true]
      exact decLenPrefixed_enc _ b rest _ _ hr rfl
    | .list l, fuel + 1, d, rest, hf, hw, hd => by
      have hr : l.len < two32 ∧ l.wf = true := by simpa [PV.wf] using hw
      have hfl : (encodeL l).length < fuel := by
        simp [encode, leBytes_length] at hf; omega
      have hd' : DepthFits cfg (d + 1) l.nesting := by
        intro m hm; have := hd m hm; simp [PV.nesting] at this; omega
      simp only [encode, List.cons_append, List.append_assoc, decodeRec, Res.enter_val]
      simp only [pvTagList, pvTagBlob, pvTagDateTime, pvTagString, pvTagFloat, pvTagInt, pvTagNull, pvTagBool]
      simp only [show ¬ ((7 : UInt8) = 0) by decide, show ¬ ((7 : UInt8) = 1) by decide,
        show ¬ ((7 : UInt8) = 2) by decide, show ¬ ((7 : UInt8) = 3) by decide,
        show ¬ ((7 : UInt8) = 4) by decide, show ¬ ((7 : UInt8) = 5) by decide,
        show ¬ ((7 : UInt8) = 6) by decide, if_false, if_true]
      rw [decList_enc cfg _ d _ l.len _ hr.1 (tooDeep_of_fits (n := l.nesting) (by simpa [PV.nesting] using hd))]
      have ih := rt_list cfg l fuel (d + 1) rest hfl hr.2 hd'
      rw [(Res.bind_ok ih _).1]; rfl
    | .map m, fuel + 1, d, rest, hf, hw, hd => by
      have hr : (m.len < two32 ∧ m.wf = true) ∧ m.keys.Pairwise (fun a b => bytesLt a b = true) := by
        simpa [PV.wf] using hw
      have hfl : (encodeM m).length < fuel := by
        simp [encode, leBytes_length] at hf; omega
      have hd' : DepthFits cfg (d + 1) m.nesting := by
        intro k hk; have := hd k hk; simp [PV.nesting] at this; omega
      simp only [encode, List.cons_append, List.append_assoc, decodeRec, Res.enter_val]
      simp only [pvTagMap, pvTagList, pvTagBlob, pvTagDateTime, pvTagString, pvTagFloat, pvTagInt, pvTagNull, pvTagBool]
      simp only [show ¬ ((8 : UInt8) = 0) by decide, show ¬ ((8 : UInt8) = 1) by decide,
        show ¬ ((8 : UInt8) = 2) by decide, show ¬ ((8 : UInt8) = 3) by decide,
        show ¬ ((8 : UInt8) = 4) by decide, show ¬ ((8 : UInt8) = 5) by decide,
        show ¬ ((8 : UInt8) = 6) by decide, show ¬ ((8 : UInt8) = 7) by decide, if_false, if_true]
      rw [decMap_enc cfg _ d _ m.len _ hr.1.1 (tooDeep_of_fits (n := m.nesting) (by simpa [PV.nesting] using hd))]
      have ih := rt_map cfg m fuel (d + 1) rest .nil hfl hr.1.2 hd' hr.2 (by simp [PVMap.keys])
      rw [(Res.bind_ok ih _).1]; rfl
  theorem rt_list (cfg : Cfg) : ∀ (l : PVList) (fuel d : Nat) (rest : Bytes), (encodeL l).length < fuel →
      l.wf = true → DepthFits cfg d l.nesting →
      (loopList (decodeRec cfg fuel d) l.len (encodeL l ++ rest)).val = .ok (l, rest)
    | .nil, fuel, d, rest, _, _, _ => by simp [PVList.len, encodeL, loopList]
    | .cons v t, fuel, d, rest, hf, hw, hd => by
      have hr : v.wf = true ∧ t.wf = true := by simpa [PVList.wf] using hw
      have hf1 : (encode v).length < fuel := by simp [encodeL] at hf; omega
      have hf2 : (encodeL t).length < fuel := by simp [encodeL] at hf; omega
      have hd1 : DepthFits cfg d v.nesting := by
        intro m hm; have := hd m hm; simp [PVList.nesting] at this; omega
      have hd2 : DepthFits cfg d t.nesting := by
        intro m hm; have := hd m hm; simp [PVList.nesting] at this; omega
      simp only [PVList.len, encodeL, List.append_assoc, loopList]
      have h1 := rt_pv cfg v fuel d (encodeL t ++ rest) hf1 hr.1 hd1
      rw [(Res.bind_ok h1 _).1]
      have h2 := rt_list cfg t fuel d rest hf2 hr.2 hd2
      rw [(Res.bind_ok h2 _).1]; rfl
  theorem rt_map (cfg : Cfg) : ∀ (m : PVMap) (fuel d : Nat) (rest : Bytes) (acc : PVMap), (encodeM m).length < fuel →
      m.wf = true → DepthFits cfg d m.nesting → m.keys.Pairwise (fun a b => bytesLt a b = true) →
      (∀ a ∈ acc.keys, ∀ b ∈ m.keys, bytesLt a b = true) →
      (loopMap (decodeRec cfg fuel d) m.len (encodeM m ++ rest) acc).val = .ok (acc.append m, rest)
    | .nil, fuel, d, rest, acc, _, _, _, _, _ => by
      simp [PVMap.len, encodeM, loopMap, PVMap.append_nil]
    | .cons k v t, fuel, d, rest, acc, hf, hw, hd, hp, ha => by
      have hr : ((validUtf8 k = true ∧ k.length < two32) ∧ v.wf = true) ∧ t.wf = true := by
        simpa [PVMap.wf] using hw
      have hf1 : (encode v).length < fuel := by simp [encodeM] at hf; omega
      have hf2 : (encodeM t).length < fuel := by simp [encodeM] at hf; omega
      have hd1 : DepthFits cfg d v.nesting := by
        intro m hm; have := hd m hm; simp [PVMap.nesting] at this; omega
      have hd2 : DepthFits cfg d t.nesting := by
        intro m hm; have := hd m hm; simp [PVMap.nesting] at this; omega
      have hp' : (∀ b ∈ t.keys, bytesLt k b = true) ∧ t.keys.Pairwise (fun a b => bytesLt a b = true) := by
        simpa [PVMap.keys] using hp
      simp only [PVMap.len, encodeM, List.append_assoc, loopMap]
      have h0 := readKey_enc k (encode v ++ (encodeM t ++ rest)) hr.1.1.2 hr.1.1.1
      rw [(Res.bind_ok h0 _).1]
      have h1 := rt_pv cfg v fuel d (encodeM t ++ rest) hf1 hr.1.2 hd1
      rw [(Res.bind_ok h1 _).1]
      simp only
      rw [PVMap.insert_eq_append k v acc (fun a ha' => ha a ha' k (by simp [PVMap.keys]))]
      have h2 := rt_map cfg t fuel d rest (acc.append (.cons k v .nil)) hf2 hr.2 hd2 hp'.2 (by
        intro a ha' b hb
        rw [PVMap.keys_append] at ha'
        rcases List.mem_append.mp ha' with h | h
        · exact ha a h b (by simp [PVMap.keys, hb])
        · simp [PVMap.keys] at h; subst h; exact hp'.1 b hb)
      rw [h2, PVMap.append_assoc]; rfl
end

end Nervus.PropVal
