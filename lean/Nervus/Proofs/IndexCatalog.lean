/-
  Helper lemmas for C15, catalog part: under the "always" and the "any operation moved a root"
  policies the on-disk roots equal the in-memory roots after every event.
-/
import Nervus.Model.IndexCatalog
namespace Nervus.IndexCatalog

theorem setRoot_self : ∀ (rs : Roots) (i r : Nat), getRoot rs i = some r → setRoot rs i r = rs
  | [], _, _, _ => rfl
  | (j, x) :: rest, i, r, h => by
    unfold setRoot
    unfold getRoot at h
    rw [List.lookup_cons] at h
    by_cases hji : j = i
    · subst hji
      simp only [beq_self_eq_true] at h
      cases h
      simp
    · have : (i == j) = false := by simpa using (fun e => hji e.symm)
      rw [this] at h
      simp only [hji, if_false]
      rw [setRoot_self rest i r h]

/-- the accumulated flag is sound: if it is still false, memory is unchanged -/
theorem fold_anyMoved : ∀ (ops : List IOp) (flag : Bool) (mem mem0 : Roots),
    (flag = false → mem = mem0) →
    ((ops.foldl (opStep .anyMoved) (flag, mem)).1 = false → (ops.foldl (opStep .anyMoved) (flag, mem)).2 = mem0)
  | [], flag, mem, mem0, h => by simpa using h
  | op :: ops, flag, mem, mem0, h => by
    simp only [List.foldl_cons]
    unfold opStep
    cases hg : getRoot mem op.idx with
    | none => simp only [hg]; exact fold_anyMoved ops flag mem mem0 h
    | some before =>
      simp only [hg]
      apply fold_anyMoved ops _ _ mem0
      intro hf
      simp only [Bool.or_eq_false_iff, bne_eq_false_iff_eq] at hf
      rw [hf.2, setRoot_self mem op.idx before hg]
      exact h hf.1

theorem commit_synced (f : Flush) (hf : f = .always ∨ f = .anyMoved) (c : Cat) (ops : List IOp)
    (h : c.disk = c.mem) : (commit f c ops).disk = (commit f c ops).mem := by
  unfold commit
  split
  · exact h
  · rcases hf with rfl | rfl
    · rfl
    · simp only []
      cases hfl : (ops.foldl (opStep .anyMoved) (false, c.mem)).1 with
      | true => rfl
      | false =>
        simp only [Bool.false_eq_true, if_false]
        rw [h]
        exact (fold_anyMoved ops false c.mem c.mem (fun _ => rfl) hfl).symm

theorem step_synced (f : Flush) (hf : f = .always ∨ f = .anyMoved) (c : Cat) (ev : Ev)
    (h : c.disk = c.mem) : (step f true c ev).disk = (step f true c ev).mem := by
  cases ev with
  | commit ops => exact commit_synced f hf c ops h
  | createIndex id r r' =>
    simp only [step, createIndex]
    split
    · exact h
    · rfl
  | reopen => rfl

theorem run_synced (f : Flush) (hf : f = .always ∨ f = .anyMoved) :
    ∀ (evs : List Ev) (c : Cat), c.disk = c.mem →
      (evs.foldl (step f true) c).disk = (evs.foldl (step f true) c).mem
  | [], _, h => h
  | ev :: evs, c, h => by
    simp only [List.foldl_cons]
    exact run_synced f hf evs _ (step_synced f hf c ev h)

end Nervus.IndexCatalog
