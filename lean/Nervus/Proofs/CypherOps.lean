/-
  Operator lemmas for C11 (one per plan operator, over all graphs / tables): the model's operator on an input
  table equals the corresponding step of the reference semantics.
-/
import Nervus.Proofs.CypherBase
namespace Nervus.Cy
open Nervus.Cy

variable (A : Algebra) (env : Env)

theorem flatMap_ite_singleton {α β} (l : List α) (c : α → Bool) (f : α → β) :
    l.flatMap (fun n => if c n then [] else [f n]) = (l.filter fun n => !c n).map f := by
  induction l with
  | nil => rfl
  | cons x xs ih => by_cases h : c x <;> simp [List.flatMap_cons, List.filter_cons, h, ih]

/-! ### 1. node scan + label filter -/

/-- the label conjunct `(a IS NULL) OR a:l` on a row that binds `a` to node `id` is the label test -/
theorem evalBool_labelConjunct (a : String) (id : Nat) (l : String) :
    evalBool A env [(a, .node id)] (.bool .or (.isNull (.var a)) (.hasLabel (.var a) l)) = env.g.hasLabel id l := by
  simp only [evalBool, eval, Row.get_singleton, hasLabelVal]
  have : (Val.node id == Val.null) = false := by simp
  rw [this, boolOp_or_bool]
  cases env.g.hasLabel id l <;> simp

theorem scanRows_filter (hg : env.g.NodesDistinct) (a : String) (l : String) (ls : List String) :
    ((env.g.nodes.filter fun n => n.labels.contains l).map fun n => [(a, Val.node n.id)]).filter
        (fun r => ((l :: ls).map fun l => Expr.bool .or (.isNull (.var a)) (.hasLabel (.var a) l)).all
          (evalBool A env r)) =
      (env.g.nodes.filter fun n => (l :: ls).all (env.g.hasLabel n.id)).map fun n => [(a, Val.node n.id)] := by
  rw [List.filter_map, List.filter_filter]
  congr 1
  apply List.filter_congr
  intro n hn
  have hall : ∀ (xs : List String),
      (xs.map fun l => Expr.bool .or (.isNull (.var a)) (.hasLabel (.var a) l)).all
        (evalBool A env [(a, Val.node n.id)]) = xs.all (env.g.hasLabel n.id) := by
    intro xs
    induction xs with
    | nil => rfl
    | cons y ys ih => simp only [List.map_cons, List.all_cons, evalBool_labelConjunct, ih]
  simp only [Function.comp, hall, List.all_cons, ← Graph.hasLabel_of_mem hg hn l]
  cases env.g.hasLabel n.id l <;> simp

/-- **operator lemma 1** — NodeScan + label filter (what match_compile emits for the first node of a fresh
    pattern `(a:L1:L2…)`) produces exactly the rows the reference semantics binds for that node pattern. -/
theorem scan_label_correct (hg : env.g.NodesDistinct) (a : String) (labels : List String) (used : List RelId) :
    Exec.exec A env (Compile.applyLabelFilters (.nodeScan a labels.head?) a labels) =
      .ok ((Spec.matchPath A env used [] ⟨⟨some a, labels, []⟩, []⟩).map (·.1)) := by
  have hspec : (Spec.matchPath A env used [] ⟨⟨some a, labels, []⟩, []⟩).map (·.1) =
      (env.g.nodes.filter fun n => labels.all (env.g.hasLabel n.id)).map fun n => [(a, Val.node n.id)] := by
    simp only [Spec.matchPath, Spec.nodeOk, Spec.propsOk, List.all_nil, Bool.and_true, Spec.bind, Row.get_nil,
      Row.set, Spec.matchSteps]
    rw [flatMap_ite_singleton]
    simp [List.map_map, Function.comp]
  rw [hspec]
  cases labels with
  | nil => simp [Compile.applyLabelFilters, Compile.andChain, Exec.exec]
  | cons l ls =>
    have hc : ∃ e, Compile.andChain ((l :: ls).map fun l =>
        Expr.bool .or (.isNull (.var a)) (.hasLabel (.var a) l)) = some e := by
      simp [Compile.andChain]
    obtain ⟨e, he⟩ := hc
    simp only [Compile.applyLabelFilters, he, List.head?_cons, Exec.exec, bind, Except.bind, pure, Except.pure]
    congr 1
    have := scanRows_filter A env hg a l ls
    rw [← this]
    apply List.filter_congr
    intro r _
    exact evalBool_andChain A env r _ e he

/-! ### 3. WHERE -/

/-- **operator lemma 3** — Filter is the reference WHERE on the same table. -/
theorem where_correct (i : Plan) (e : Expr) (T : Table) (h : Exec.exec A env i = .ok T) :
    Exec.exec A env (.filter i e) = .ok (T.filter (evalBool A env · e)) := by
  simp [Exec.exec, h, bind, Except.bind, pure, Except.pure]

/-! ### 10. UNWIND -/

/-- **operator lemma 10** — Unwind is the reference UNWIND on the same table. -/
theorem unwind_correct (i : Plan) (e : Expr) (x : String) (T : Table) (h : Exec.exec A env i = .ok T) :
    Exec.exec A env (.unwind i e x) = .ok (Spec.denoteUnwind A env e x T) := by
  simp only [Exec.exec, h, bind, Except.bind, pure, Except.pure, Exec.unwind, Spec.denoteUnwind]
  congr 2

/-! ### 4. projection -/

theorem Row.set_append_fresh (acc : Row) (a : String) (v : Val) (h : a ∉ acc.cols) :
    acc.set a v = acc ++ [(a, v)] := by
  induction acc with
  | nil => rfl
  | cons p rest ih =>
    obtain ⟨y, w⟩ := p
    simp only [Row.cols, List.map_cons, List.mem_cons, not_or] at h
    have hy : (y == a) = false := by simpa using (Ne.symm h.1)
    simp only [Row.set, hy, Bool.false_eq_true, ↓reduceIte, List.cons_append]
    rw [ih (by simpa [Row.cols] using h.2)]

theorem foldl_set_eq_append (ps : List (String × Val)) (acc : Row)
    (hnd : (ps.map (·.1)).Nodup) (hdis : ∀ a ∈ ps.map (·.1), a ∉ acc.cols) :
    ps.foldl (fun out (p : String × Val) => out.set p.1 p.2) acc = acc ++ ps := by
  induction ps generalizing acc with
  | nil => simp
  | cons p ps ih =>
    obtain ⟨a, v⟩ := p
    simp only [List.map_cons, List.nodup_cons] at hnd
    simp only [List.foldl_cons]
    rw [Row.set_append_fresh acc a v (hdis a (by simp))]
    rw [ih (acc ++ [(a, v)]) hnd.2]
    · simp
    · intro b hb
      simp only [Row.cols, List.map_append, List.map_cons, List.map_nil, List.mem_append, List.mem_singleton,
        not_or]
      refine ⟨?_, ?_⟩
      · simpa [Row.cols] using hdis b (by simp [hb])
      · rintro rfl; exact hnd.1 hb

theorem projectRow_eq_map (r : Row) (projs : List (String × Expr)) (hnd : (projs.map (·.1)).Nodup) :
    Exec.projectRow A env r projs = projs.map fun p => (p.1, eval A env r p.2) := by
  have hm : (projs.map fun p => (p.1, eval A env r p.2)).map (·.1) = projs.map (·.1) := by
    simp [List.map_map, Function.comp_def]
  have h := foldl_set_eq_append (projs.map fun p => (p.1, eval A env r p.2)) []
    (by rw [hm]; exact hnd) (by intro a _; simp [Row.cols])
  simp only [List.nil_append] at h
  rw [← h, Exec.projectRow, List.foldl_map]

/-- **operator lemma 4** — Project over a non-aggregating item list with distinct output names computes the
    reference projection of every row. -/
theorem project_correct (i : Plan) (items : List Item) (T : Table) (h : Exec.exec A env i = .ok T)
    (hplain : items.any Spec.isAgg = false) (hnd : (items.map (·.alias)).Nodup) :
    Exec.exec A env (.project i (items.map fun it => (it.alias, Compile.itemExprOf it.expr))) =
      .ok ((Spec.projectRows A env ⟨false, items, [], none, none⟩ T).map (·.1)) := by
  simp only [Exec.exec, h, bind, Except.bind, pure, Except.pure, Spec.projectRows, hplain,
    Bool.false_eq_true, ↓reduceIte, List.map_map]
  congr 1
  apply List.map_congr_left
  intro r _
  have hm : (items.map fun it => (it.alias, Compile.itemExprOf it.expr)).map (·.1) = items.map (·.alias) := by
    simp [List.map_map, Function.comp_def]
  rw [projectRow_eq_map A env r _ (by rw [hm]; exact hnd)]
  simp only [Function.comp, List.map_map]
  apply List.map_congr_left
  intro it hit
  have : Spec.isAgg it = false := by
    have := List.any_eq_false.mp hplain it hit
    simpa using this
  obtain ⟨ex, al⟩ := it
  cases ex with
  | plain e => simp [Spec.itemVal, Compile.itemExprOf]
  | agg k a => simp [Spec.isAgg] at this

/-! ### 7. DISTINCT -/

theorem Row.eq_of_cols_vals {r r' : Row} (hc : r.cols = r'.cols) (hv : r.vals = r'.vals) : r = r' := by
  induction r generalizing r' with
  | nil => cases r' <;> simp_all [Row.cols]
  | cons p rest ih =>
    cases r' with
    | nil => simp [Row.cols] at hc
    | cons q rest' =>
      obtain ⟨a, v⟩ := p
      obtain ⟨b, w⟩ := q
      simp only [Row.cols, List.map_cons, List.cons.injEq, Row.vals] at hc hv
      obtain ⟨rfl, hc⟩ := hc
      obtain ⟨rfl, hv⟩ := hv
      rw [ih (r' := rest') hc hv]

theorem dedupBy_subset {α β} [BEq β] (f : α → β) (l : List α) : ∀ x ∈ Spec.dedupBy f l, x ∈ l := by
  induction l with
  | nil => intro x hx; cases hx
  | cons y ys ih =>
    intro x hx
    simp only [Spec.dedupBy, List.mem_cons, List.mem_filter] at hx
    rcases hx with rfl | ⟨hx, _⟩
    · simp
    · exact List.mem_cons_of_mem _ (ih x hx)

/-- **operator lemma 7** — Distinct (keyed by the value lists) is the reference DISTINCT (keyed by the row) on
    tables whose rows all have the same columns — which is what a Project delivers. -/
theorem distinct_correct (T : List (Row × Row)) (hcols : ∀ x ∈ T, ∀ y ∈ T, x.1.cols = y.1.cols) :
    Exec.distinct (T.map (·.1)) = (Spec.dedupBy (·.1) T).map (·.1) := by
  induction T with
  | nil => rfl
  | cons x xs ih =>
    have ih' := ih (fun a ha b hb => hcols a (List.mem_cons_of_mem _ ha) b (List.mem_cons_of_mem _ hb))
    simp only [List.map_cons, Exec.distinct, Spec.dedupBy, ih', List.cons.injEq, true_and]
    rw [List.filter_map]
    congr 1
    apply List.filter_congr
    intro y hy
    have hyx : y ∈ xs := dedupBy_subset _ _ y hy
    have hc : y.1.cols = x.1.cols := hcols y (List.mem_cons_of_mem _ hyx) x (by simp)
    simp only [Function.comp]
    rw [Bool.eq_iff_iff]
    simp only [bne_iff_ne, ne_eq]
    constructor
    · intro hv hh; exact hv (by rw [hh])
    · intro hne hv; exact hne (Row.eq_of_cols_vals hc hv)

/-! ### 9. ORDER BY / SKIP / LIMIT -/

/-- **operator lemma 9a** — OrderBy permutes its input (nothing is lost or duplicated). -/
theorem orderBy_perm (items : List (Expr × Bool)) (T : Table) : (Exec.orderBy A env items T).Perm T := by
  unfold Exec.orderBy
  have h := List.mergeSort_perm (T.map fun r => (r, items.map fun (e, asc) => (eval A env r e, asc)))
    (fun a b => Exec.keysLe A a.2 b.2)
  have := h.map (·.1)
  simpa [List.map_map, Function.comp_def] using this

/-- **operator lemma 9b** — Skip / Limit with a non-negative literal are `drop` / `take`, as in the reference
    `denoteProj`. -/
theorem skip_limit_correct (i : Plan) (T : Table) (h : Exec.exec A env i = .ok T) (s l : Nat) :
    Exec.exec A env (.limit (.skip i (.int s)) (.int l)) = .ok ((T.drop s).take l) := by
  have hs : ¬ ((s : Int) < 0) := by omega
  have hl : ¬ ((l : Int) < 0) := by omega
  simp [Exec.exec, h, bind, Except.bind, pure, Except.pure, Exec.windowArg, hs, hl]

end Nervus.Cy
