/-
  The concrete instance `dsem` satisfies the hypotheses the generic theorems ask of a `Sem`:
  its evaluator uses the collection check only to fail with that check's error (`LimitLawful`),
  and `NOT` / `IS NULL` are lawful (`PredLawful`).   core-only.
-/
import Nervus.Proofs.Limits
import Nervus.Model.PlanInst
namespace Nervus.PlanInst
open Nervus.PlanOps

/-- every verdict of `coll` is a limit error -/
def CollLawful (coll : String → Nat → Option DErr) : Prop :=
  ∀ stage n e, coll stage n = some e → e.isLimit = true

theorem seq_lim (a a' b b' : Except DErr Unit)
    (ha : a = a' ∨ ∃ e, a = .error e ∧ e.isLimit = true)
    (hb : b = b' ∨ ∃ e, b = .error e ∧ e.isLimit = true) :
    (do a; b) = (do a'; b') ∨ ∃ e, (do a; b) = .error e ∧ e.isLimit = true := by
  rcases ha with rfl | ⟨e, rfl, hl⟩
  · cases a with
    | error e => left; rfl
    | ok u =>
      rcases hb with rfl | ⟨e, rfl, hl⟩
      · left; rfl
      · right; exact ⟨e, rfl, hl⟩
  · right; exact ⟨e, rfl, hl⟩

theorem ensure_lim (coll : String → Nat → Option DErr) (hc : CollLawful coll) (env row : DRow) (e : DE) :
    ensure coll env row e = ensure (fun _ _ => none) env row e ∨
      ∃ er, ensure coll env row e = .error er ∧ er.isLimit = true := by
  induction e with
  | lit v => left; rfl
  | var x => left; rfl
  | toBoolean e ih => simp only [ensure]; exact seq_lim _ _ _ _ ih (Or.inl rfl)
  | toInteger e ih => simp only [ensure]; exact seq_lim _ _ _ _ ih (Or.inl rfl)
  | not e ih => simpa only [ensure] using ih
  | isNull e ih => simpa only [ensure] using ih
  | isNotNull e ih => simpa only [ensure] using ih
  | eq a b iha ihb => simp only [ensure]; exact seq_lim _ _ _ _ iha ihb
  | lt a b iha ihb => simp only [ensure]; exact seq_lim _ _ _ _ iha ihb
  | gt a b iha ihb => simp only [ensure]; exact seq_lim _ _ _ _ iha ihb
  | and a b iha ihb => simp only [ensure]; exact seq_lim _ _ _ _ iha ihb
  | or a b iha ihb => simp only [ensure]; exact seq_lim _ _ _ _ iha ihb
  | add a b iha ihb => simp only [ensure]; exact seq_lim _ _ _ _ iha ihb
  | mod a b iha ihb => simp only [ensure]; exact seq_lim _ _ _ _ iha ihb
  | range a b iha ihb =>
    simp only [ensure]
    refine seq_lim _ _ _ _ iha (seq_lim _ _ _ _ ihb ?_)
    split
    · rename_i x y _ _
      cases h : coll "Function(range)" (if x > y then 0 else (y - x + 1).toNat) with
      | none => left; rfl
      | some er => right; exact ⟨er, rfl, hc _ _ _ h⟩
    · left; rfl

theorem deval_lim (coll : String → Nat → Option DErr) (hc : CollLawful coll) (e : DE) (env row : DRow) :
    deval coll e env row = deval (fun _ _ => none) e env row ∨
      ∃ er, deval coll e env row = .error er ∧ er.isLimit = true := by
  unfold deval
  rcases ensure_lim coll hc env row e with h | ⟨er, he, hl⟩
  · left; rw [h]
  · right; exact ⟨er, by rw [he], hl⟩

theorem aggValue_lim (coll : String → Nat → Option DErr) (hc : CollLawful coll) (env : DRow)
    (rows : List DRow) (a : DAgg) :
    aggValue coll env rows a = aggValue (fun _ _ => none) env rows a ∨
      ∃ er, aggValue coll env rows a = .error er ∧ er.isLimit = true := by
  cases a with
  | collect e =>
    simp only [aggValue]
    cases h : coll "Aggregate.collect" (List.filter (fun x => x != dnull) (List.map (fun r => evalV env r e) rows)).length with
    | none => left; rfl
    | some er => right; exact ⟨er, rfl, hc _ _ _ h⟩
  | _ => left; rfl

theorem forM_lim {β : Type} (fL fU : β → Except DErr Unit)
    (h : ∀ x, fL x = fU x ∨ ∃ e, fL x = .error e ∧ e.isLimit = true) (xs : List β) :
    xs.forM fL = xs.forM fU ∨ ∃ e, xs.forM fL = .error e ∧ e.isLimit = true := by
  induction xs with
  | nil => left; rfl
  | cons x xs ih =>
    simp only [List.forM] at ih ⊢
    exact seq_lim _ _ _ _ (h x) ih

/-- the instance is lawful for every collection check whose verdicts are limit errors -/
theorem dsem_limitLawful (coll : String → Nat → Option DErr) (hc : CollLawful coll) :
    dsem.LimitLawful coll DErr.isLimit where
  eval e env r := deval_lim coll hc e env r
  aggCheck aggs env r := by
    simp only [dsem]
    apply forM_lim
    intro a
    cases aggArg a.1 with
    | none => left; rfl
    | some e => exact ensure_lim coll hc env r e
  aggFinal gb aggs env rows := by
    simp only [dsem, aggFinalD]
    apply foldlM_lim
    intro acc a
    rcases aggValue_lim coll hc env rows a.1 with h | ⟨er, he, hl⟩
    · left; rw [h]
    · right; exact ⟨er, by rw [he]; rfl, hl⟩

theorem ofOpts_lawful (o : Opts) (rowFires timeFires : Site → Nat → Bool) :
    (LimEnv.ofOpts DErr.limit o rowFires timeFires).Lawful DErr.isLimit where
  coll stage n e h := by
    simp only [LimEnv.ofOpts] at h
    split at h <;> simp at h; subst h; rfl
  apply n e h := by
    simp only [LimEnv.ofOpts] at h
    split at h <;> simp at h; subst h; rfl
  row site i e h := by
    simp only [LimEnv.ofOpts] at h
    split at h <;> simp at h; subst h; rfl
  time site i e h := by
    simp only [LimEnv.ofOpts] at h
    split at h <;> simp at h; subst h; rfl

theorem ofOpts_collLawful (o : Opts) (rowFires timeFires : Site → Nat → Bool) :
    CollLawful (LimEnv.ofOpts DErr.limit o rowFires timeFires).coll :=
  (ofOpts_lawful o rowFires timeFires).coll

/-- `NOT e` / `e IS NULL` of the instance are lawful -/
theorem dsem_predLawful (coll : String → Nat → Option DErr) : dsem.PredLawful coll DE.not DE.isNull where
  not_err p env r e h := by
    simp only [dsem, deval] at h ⊢
    simp only [ensure]
    cases hp : ensure coll env r p with
    | error e' => rw [hp] at h; exact h
    | ok u => rw [hp] at h; cases h
  not_ok p env r v h := by
    simp only [dsem, deval] at h ⊢
    simp only [ensure]
    cases hp : ensure coll env r p with
    | error e' => rw [hp] at h; cases h
    | ok u =>
      rw [hp] at h
      injection h with h; subst h
      refine ⟨_, rfl, ?_⟩
      simp only [evalV]
      cases hv : evalV env r p with
      | list xs => rfl
      | s x => cases x with
        | bool b => cases b <;> rfl
        | _ => rfl
  isNull_err p env r e h := by
    simp only [dsem, deval] at h ⊢
    simp only [ensure]
    cases hp : ensure coll env r p with
    | error e' => rw [hp] at h; exact h
    | ok u => rw [hp] at h; cases h
  isNull_ok p env r v h := by
    simp only [dsem, deval] at h ⊢
    simp only [ensure]
    cases hp : ensure coll env r p with
    | error e' => rw [hp] at h; cases h
    | ok u =>
      rw [hp] at h
      injection h with h; subst h
      refine ⟨_, rfl, ?_⟩
      simp only [evalV]
      cases hv : evalV env r p with
      | list xs => rfl
      | s x => cases x with
        | bool b => cases b <;> rfl
        | _ => rfl

end Nervus.PlanInst
