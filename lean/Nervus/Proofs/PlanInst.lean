/-
  The concrete instance `dsem` satisfies the hypotheses the generic theorems ask of a `Sem`:
  its evaluator uses the collection check only to fail with that check's error (`LimitLawful`),
  and `NOT` / `IS NULL` are lawful (`PredLawful`).   core-only.
-/
import Nervus.Proofs.Limits
import Nervus.Model.PlanInst
namespace Nervus.PlanInst
open Nervus.PlanOps

/-- every verdict of `coll` is a limit error -/
def CollLawful (coll : String → Nat → Option DErr) : Prop :=
  ∀ stage n e, coll stage n = some e → e.isLimit = true

theorem seq_lim (a a' b b' : Except DErr Unit)
    (ha : a = a' ∨ ∃ e, a = .error e ∧ e.isLimit = true)
    (hb : b = b' ∨ ∃ e, b = .error e ∧ e.isLimit = true) :
    (do a; b) = (do a'; b') ∨ ∃ e, (do a; b) = .error e ∧ e.isLimit = true := by
  rcases ha with rfl | ⟨e, rfl, hl⟩
  · cases a with
    | error e => left; rfl
    | ok u =>
      rcases hb with rfl | ⟨e, rfl, hl⟩
      · left; rfl
      · right; exact ⟨e, rfl, hl⟩
  · right; exact ⟨e, rfl, hl⟩

theorem ensure_lim (coll : String → Nat → Option DErr) (hc : CollLawful coll) (env row : DRow) (e : DE) :
    ensure coll env row e = ensure (fun _ _ => none) env row e ∨
      ∃ er, ensure coll env row e = .error er ∧ er.isLimit = true := by
  induction e with
  | lit v => left; rfl
  | var x => left; rfl
  | toBoolean e ih => simp only [ensure]; exact seq_lim _ _ _ _ ih (Or.inl rfl)
  | toInteger e ih => simp only [ensure]; exact seq_lim _ _ _ _ ih (Or.inl rfl)
  | not e ih => simpa only [ensure] using ih
  | isNull e ih => simpa only [ensure] using ih
  | isNotNull e ih => simpa only [ensure] using ih
  | eq a b iha ihb => simp only [ensure]; exact seq_lim _ _ _ _ iha ihb
  | lt a b iha ihb => simp only [ensure]; exact seq_lim _ _ _ _ iha ihb
  | gt a b iha ihb => simp only [ensure]; exact seq_lim _ _ _ _ iha ihb
  | and a b iha ihb => simp only [ensure]; exact seq_lim _ _ _ _ iha ihb
  | or a b iha ihb => simp only [ensure]; exact seq_lim _ _ _ _ iha ihb
  | add a b iha ihb => simp only [ensure]; exact seq_lim _ _ _ _ iha ihb
  | mod a b iha ihb => simp only [ensure]; exact seq_lim _ _ _ _ iha ihb
  | range a b iha ihb =>
    simp only [ensure]
    refine seq_lim _ _ _ _ iha (seq_lim _ _ _ _ ihb ?_)
    split
    · rename_i x y _ _
      cases h : coll "Function(range)" (if x > y then 0 else (y - x + 1).toNat) with
      | none => left; rfl
      | some er => right; exact ⟨er, rfl, hc _ _ _ h⟩
    · left; rfl
  | caseWhen c t e ihc iht ihe =>
    simp only [ensure]
    exact seq_lim _ _ _ _ ihc (seq_lim _ _ _ _ iht ihe)
  | existsSub i => left; rfl
  | single e ih => simpa only [ensure] using ih

/-- how the EXISTS subqueries answer under a collection check: as without it, or they fail with a limit error -/
def ExLawful (X : (String → Nat → Option DErr) → ExFn) (coll : String → Nat → Option DErr) : Prop :=
  ∀ i env row, X coll i env row = X (fun _ _ => none) i env row ∨
    ∃ e, X coll i env row = .failed e ∧ e.isLimit = true

/-- evaluation under the check vs without it: nothing parked on either side and the same value, or
    a first parked failure that is the unlimited run's or a limit error -/
theorem evalPark_rel (X : (String → Nat → Option DErr) → ExFn) (coll : String → Nat → Option DErr)
    (hX : ExLawful X coll) (env row : DRow) (e : DE) :
    (parkV (X coll) env row e = none ∧ parkV (X (fun _ _ => none)) env row e = none ∧
      evalV (X coll) env row e = evalV (X (fun _ _ => none)) env row e) ∨
    (∃ er, parkV (X coll) env row e = some er ∧
      (parkV (X (fun _ _ => none)) env row e = some er ∨ er.isLimit = true)) := by
  induction e with
  | lit v => left; exact ⟨rfl, rfl, rfl⟩
  | var x => left; exact ⟨rfl, rfl, rfl⟩
  | toBoolean e ih | toInteger e ih | not e ih | isNull e ih | isNotNull e ih | single e ih =>
    simp only [parkV, evalV]
    rcases ih with ⟨h1, h2, h3⟩ | h
    · exact Or.inl ⟨h1, h2, by rw [h3]⟩
    · exact Or.inr h
  | eq a b iha ihb | lt a b iha ihb | gt a b iha ihb | and a b iha ihb | or a b iha ihb
  | add a b iha ihb | mod a b iha ihb | range a b iha ihb =>
    simp only [parkV, evalV]
    rcases iha with ⟨a1, a2, a3⟩ | ⟨er, a1, a2⟩
    · rcases ihb with ⟨b1, b2, b3⟩ | ⟨er, b1, b2⟩
      · left; rw [a1, a2, b1, b2, a3, b3]; exact ⟨rfl, rfl, rfl⟩
      · right; rw [a1, a2]; exact ⟨er, by simpa using b1, by simpa using b2⟩
    · right
      refine ⟨er, by rw [a1]; rfl, ?_⟩
      rcases a2 with a2 | a2
      · left; rw [a2]; rfl
      · right; exact a2
  | existsSub i =>
    simp only [parkV, evalV]
    rcases hX i env row with h | ⟨er, he, hl⟩
    · rw [h]
      cases X (fun _ _ => none) i env row with
      | has b => left; exact ⟨rfl, rfl, rfl⟩
      | failed er => right; exact ⟨er, rfl, Or.inl rfl⟩
      | swallowed => left; exact ⟨rfl, rfl, rfl⟩
    · rw [he]; right; exact ⟨er, rfl, Or.inr hl⟩
  | caseWhen c t e ihc iht ihe =>
    simp only [parkV, evalV]
    rcases ihc with ⟨c1, c2, c3⟩ | ⟨er, c1, c2⟩
    · rw [c1, c2, c3]
      simp only [firstSome_none]
      split
      · exact iht
      · exact ihe
    · right
      refine ⟨er, by rw [c1]; rfl, ?_⟩
      rcases c2 with c2 | c2
      · left; rw [c2]; rfl
      · right; exact c2

theorem parkV_rel (X : (String → Nat → Option DErr) → ExFn) (coll : String → Nat → Option DErr)
    (hX : ExLawful X coll) (env row : DRow) (e : DE) :
    parkV (X coll) env row e = parkV (X (fun _ _ => none)) env row e ∨
      ∃ er, parkV (X coll) env row e = some er ∧ er.isLimit = true := by
  rcases evalPark_rel X coll hX env row e with ⟨h1, h2, _⟩ | ⟨er, h1, h2 | h2⟩
  · left; rw [h1, h2]
  · left; rw [h1, h2]
  · right; exact ⟨er, h1, h2⟩

theorem evalV_eq_of_no_park (X : (String → Nat → Option DErr) → ExFn) (coll : String → Nat → Option DErr)
    (hX : ExLawful X coll) (env row : DRow) (e : DE) (h : parkV (X coll) env row e = none) :
    evalV (X coll) env row e = evalV (X (fun _ _ => none)) env row e := by
  rcases evalPark_rel X coll hX env row e with ⟨_, _, h3⟩ | ⟨er, h1, _⟩
  · exact h3
  · rw [h] at h1; cases h1

theorem aggValue_lim (X : (String → Nat → Option DErr) → ExFn) (coll : String → Nat → Option DErr)
    (hc : CollLawful coll) (hX : ExLawful X coll) (env : DRow) (rows : List DRow) (a : DAgg)
    (hnp : ∀ e, aggArg a = some e → ∀ r ∈ rows, parkV (X coll) env r e = none) :
    aggValue (X coll) coll env rows a = aggValue (X (fun _ _ => none)) (fun _ _ => none) env rows a ∨
      ∃ er, aggValue (X coll) coll env rows a = .error er ∧ er.isLimit = true := by
  have hmap : ∀ e, aggArg a = some e →
      rows.map (fun r => evalV (X coll) env r e) = rows.map (fun r => evalV (X (fun _ _ => none)) env r e) := by
    intro e he
    apply List.map_congr_left
    intro r hr
    exact evalV_eq_of_no_park X coll hX env r e (hnp e he r hr)
  cases a with
  | countStar => left; rfl
  | count e => left; simp only [aggValue]; rw [hmap e rfl]
  | sum e => left; simp only [aggValue]; rw [hmap e rfl]
  | min e => left; simp only [aggValue]; rw [hmap e rfl]
  | max e => left; simp only [aggValue]; rw [hmap e rfl]
  | collect e =>
    simp only [aggValue]
    rw [hmap e rfl]
    cases h : coll "Aggregate.collect" (List.filter (fun x => x != dnull) (List.map (fun r => evalV (X (fun _ _ => none)) env r e) rows)).length with
    | none => left; rfl
    | some er => right; exact ⟨er, rfl, hc _ _ _ h⟩

theorem forM_lim {β : Type} (fL fU : β → Except DErr Unit)
    (h : ∀ x, fL x = fU x ∨ ∃ e, fL x = .error e ∧ e.isLimit = true) (xs : List β) :
    xs.forM fL = xs.forM fU ∨ ∃ e, xs.forM fL = .error e ∧ e.isLimit = true := by
  induction xs with
  | nil => left; rfl
  | cons x xs ih =>
    simp only [List.forM] at ih ⊢
    exact seq_lim _ _ _ _ (h x) ih

/-- the instance is lawful for every collection check whose verdicts are limit errors and every
    lawful way the EXISTS subqueries answer -/
theorem dsemX_limitLawful (X : (String → Nat → Option DErr) → ExFn) (coll : String → Nat → Option DErr)
    (hc : CollLawful coll) (hX : ExLawful X coll) :
    (dsemX X).LimitLawful coll DErr.isLimit where
  park e env r := parkV_rel X coll hX env r e
  eval e env r hp := by
    simp only [dsemX, deval] at hp ⊢
    rcases ensure_lim coll hc env r e with h | ⟨er, he, hl⟩
    · left; rw [h, evalV_eq_of_no_park X coll hX env r e hp]
    · right; exact ⟨er, by rw [he], hl⟩
  aggPark aggs env rows := by
    simp only [dsemX]
    apply findSome_lim DErr.isLimit
    intro a
    cases aggArg a.1 with
    | none => left; rfl
    | some e => exact findSome_lim DErr.isLimit _ _ (fun r => parkV_rel X coll hX env r e) rows
  aggPark_nil aggs env := by
    simp only [dsemX]
    apply List.findSome?_eq_none_iff.2
    intro a _
    cases aggArg a.1 <;> rfl
  aggCheck aggs env r := by
    simp only [dsemX]
    apply forM_lim
    intro a
    cases aggArg a.1 with
    | none => left; rfl
    | some e => exact ensure_lim coll hc env r e
  aggFinal gb aggs env rows hp := by
    simp only [dsemX, aggFinalD] at hp ⊢
    have hall := List.findSome?_eq_none_iff.1 hp
    have hstep : ∀ a ∈ aggs, ∀ (acc : DRow),
        (aggValue (X coll) coll env rows a.1).map (rowSet acc a.2) =
          (aggValue (X (fun _ _ => none)) (fun _ _ => none) env rows a.1).map (rowSet acc a.2) ∨
        ∃ er, (aggValue (X coll) coll env rows a.1).map (rowSet acc a.2) = .error er ∧ er.isLimit = true := by
      intro a ha acc
      have hnp : ∀ e, aggArg a.1 = some e → ∀ r ∈ rows, parkV (X coll) env r e = none := by
        intro e he r hr
        have := hall a ha
        rw [he] at this
        exact (List.findSome?_eq_none_iff.1 this) r hr
      rcases aggValue_lim X coll hc hX env rows a.1 hnp with h | ⟨er, he, hl⟩
      · left; rw [h]
      · right; exact ⟨er, by rw [he]; rfl, hl⟩
    generalize (List.foldl _ [] gb : DRow) = base
    clear hp hall
    induction aggs generalizing base with
    | nil => left; rfl
    | cons a as ih =>
      simp only [List.foldlM_cons]
      rcases hstep a List.mem_cons_self base with h | ⟨er, he, hl⟩
      · rw [h]
        cases (aggValue (X (fun _ _ => none)) (fun _ _ => none) env rows a.1).map (rowSet base a.2) with
        | error e0 => left; rfl
        | ok y => simpa only [bind, Except.bind] using ih (fun b hb => hstep b (List.mem_cons_of_mem _ hb)) y
      · right; exact ⟨er, by simp only [he, bind, Except.bind], hl⟩

theorem noEx_lawful (coll : String → Nat → Option DErr) : ExLawful (fun _ => noEx) coll :=
  fun _ _ _ => Or.inl rfl

theorem dsem_limitLawful (coll : String → Nat → Option DErr) (hc : CollLawful coll) :
    dsem.LimitLawful coll DErr.isLimit :=
  dsemX_limitLawful _ coll hc (noEx_lawful coll)

/-- the graph facts of a line (index entries, procedure results) play no part in the limit laws -/
theorem dsemG_limitLawful (G : GraphFns) (X : (String → Nat → Option DErr) → ExFn)
    (coll : String → Nat → Option DErr) (hc : CollLawful coll) (hX : ExLawful X coll) :
    (dsemG G X).LimitLawful coll DErr.isLimit :=
  let h := dsemX_limitLawful X coll hc hX
  ⟨h.park, h.eval, h.aggPark, h.aggPark_nil, h.aggCheck, h.aggFinal⟩

theorem ofOpts_lawful (o : Opts) (rowFires timeFires : Site → Nat → Bool) :
    (LimEnv.ofOpts DErr.limit o rowFires timeFires).Lawful DErr.isLimit where
  coll stage n e h := by
    simp only [LimEnv.ofOpts] at h
    split at h <;> simp at h; subst h; rfl
  apply n e h := by
    simp only [LimEnv.ofOpts] at h
    split at h <;> simp at h; subst h; rfl
  row site i e h := by
    simp only [LimEnv.ofOpts] at h
    split at h <;> simp at h; subst h; rfl
  time site i e h := by
    simp only [LimEnv.ofOpts] at h
    split at h <;> simp at h; subst h; rfl

theorem ofOpts_collLawful (o : Opts) (rowFires timeFires : Site → Nat → Bool) :
    CollLawful (LimEnv.ofOpts DErr.limit o rowFires timeFires).coll :=
  (ofOpts_lawful o rowFires timeFires).coll

/-- `NOT e` / `e IS NULL` of the instance are lawful -/
theorem dsem_predLawful (X : (String → Nat → Option DErr) → ExFn) (coll : String → Nat → Option DErr) :
    (dsemX X).PredLawful coll DE.not DE.isNull where
  not_err p env r e h := by
    simp only [dsemX, deval] at h ⊢
    simp only [ensure]
    cases hp : ensure coll env r p with
    | error e' => rw [hp] at h; exact h
    | ok u => rw [hp] at h; cases h
  not_ok p env r v h := by
    simp only [dsemX, deval] at h ⊢
    simp only [ensure]
    cases hp : ensure coll env r p with
    | error e' => rw [hp] at h; cases h
    | ok u =>
      rw [hp] at h
      injection h with h; subst h
      refine ⟨_, rfl, ?_⟩
      simp only [evalV]
      cases hv : evalV (X coll) env r p with
      | list xs => rfl
      | s x => cases x with
        | bool b => cases b <;> rfl
        | _ => rfl
  isNull_err p env r e h := by
    simp only [dsemX, deval] at h ⊢
    simp only [ensure]
    cases hp : ensure coll env r p with
    | error e' => rw [hp] at h; exact h
    | ok u => rw [hp] at h; cases h
  isNull_ok p env r v h := by
    simp only [dsemX, deval] at h ⊢
    simp only [ensure]
    cases hp : ensure coll env r p with
    | error e' => rw [hp] at h; cases h
    | ok u =>
      rw [hp] at h
      injection h with h; subst h
      refine ⟨_, rfl, ?_⟩
      simp only [evalV]
      cases hv : evalV (X coll) env r p with
      | list xs => rfl
      | s x => cases x with
        | bool b => cases b <;> rfl
        | _ => rfl
  not_park p env r := rfl
  isNull_park p env r := rfl

end Nervus.PlanInst
