/-
  Proofs/EngineTx.lean — one staged write, then a whole transaction: the staged relation is
  preserved by `stepTx` (per-operation simulation lemmas put together) and `commit` / abort
  re-establish the published-state invariant.
-/
import Nervus.Proofs.EngineCommitL
namespace Nervus.Storage
open Nervus.GraphSpec (Graph TxOp Op Rel opWF txWF)

structure St2 (s0 : Engine) (g0 : Graph) (s : Engine) (t : Txn) (g : Graph) : Prop where
  G : Staged s0 g0 s t g
  L : StagedL s0 g0 s t g

theorem live_iff (g : Graph) (n : Nat) : g.live n = true ↔ (n < g.next ∧ n ∉ g.dead) := by
  simp [Graph.live]

/-- the staged relation only looks at the interner of the engine (and the frame) -/
theorem Staged.congr_engine {s0 g0 s s' t t' g g'} (h : Staged s0 g0 s t g) (hi : s'.interner = s.interner)
    (he : Ext s0 s') (hmt : t'.mt = t.mt)
    (h1 : g'.dead = g.dead) (h2 : g'.rels = g.rels) (h3 : g'.nprops = g.nprops) (h4 : g'.eprops = g.eprops) :
    Staged s0 g0 s' t' g' := by
  have hm : ∀ e, g'.mult e = g.mult e := by intro e; simp only [Graph.mult, h2]
  have hn : ∀ n k, g'.nprop n k = g.nprop n k := by intro n k; simp only [Graph.nprop, h3]
  have hp : ∀ e k, g'.eprop e k = g.eprop e k := by intro e k; simp only [Graph.eprop, h4]
  refine { ext := he, dead := by rw [h1, hmt]; exact h.dead, edges := ?_, mtOK := ?_,
           relsInt := by rw [h2, hi]; exact h.relsInt, rels0 := h.rels0, nprops := ?_,
           mtN := by rw [hmt]; exact h.mtN, eprops := ?_, mtE := by rw [hmt]; exact h.mtE,
           mtERel := by rw [hmt, hi]; exact h.mtERel, epropsInt := by rw [h4, hi]; exact h.epropsInt,
           eprops0 := h.eprops0 }
  · intro r nm a b hr; rw [hi] at hr; rw [hm, hmt]; exact h.edges r nm a b hr
  · rw [hmt, h1, hi]; exact h.mtOK
  · intro n k hd; rw [h1] at hd; rw [hn, hmt]; exact h.nprops n k hd
  · intro r nm a b k hr ha hb; rw [hi] at hr; rw [h1] at ha hb; rw [hp, hmt]; exact h.eprops r nm a b k hr ha hb

theorem StagedL.congr_engine {s0 g0 s s' t g} (h : StagedL s0 g0 s t g) (hi : s'.interner = s.interner) :
    StagedL s0 g0 s' t g := by
  refine { next := h.next, extEq := h.extEq, ids := h.ids, extPt := h.extPt, extLt := h.extLt, extNZ := h.extNZ,
           extND := h.extND, extIdND := h.extIdND, labels := by rw [hi]; exact h.labels, labelsInt := by rw [hi]; exact h.labelsInt,
           labelsLt := h.labelsLt, addOK := by rw [hi]; exact h.addOK, delOK := by rw [hi]; exact h.delOK,
           createdLid := by rw [hi]; exact h.createdLid, deadLt := h.deadLt, small := by rw [hi]; exact h.small }

/-- one staged write preserves the staged relation -/
theorem step_sim (c : Cfg) {s0 g0 s t g} (hL0 : SimL s0 g0) (h : St2 s0 g0 s t g) (op : TxOp)
    (hwf : opWF g op = true) (hroom : s.interner.length < labelMax)
    (hx0 : ∀ lab, op ≠ .node 0 lab)
    (hnd : ∀ n nm, op = .labelAdd n nm → ∀ lid, (n, lid) ∈ t.delL → s.interner[lid]? ≠ some nm)
    (hte : ∀ n, op = .tombNode n → ∀ e ∈ t.mt.edges, e.src ≠ n ∧ e.dst ≠ n)
    (hnp : ∀ a nm b, op = .tombEdge a nm b → ∀ p ∈ g.eprops, p.1.1 ≠ ⟨a, nm, b⟩) :
    St2 s0 g0 (stepTx c (s, t) op).1 (stepTx c (s, t) op).2 (g.step op) := by
  have hl0 : ∀ p ∈ g0.labels, p.2 ∈ s.interner := fun p hp => h.G.ext.pre.subset (hL0.labelsInt p hp)
  have hnod := h.G.ext.nodup
  -- interning a name
  have hint : ∀ nm, Staged s0 g0 (s.getOrCreateLabel nm).1 t g ∧ StagedL s0 g0 (s.getOrCreateLabel nm).1 t g ∧
      (s.getOrCreateLabel nm).1.interner[(s.getOrCreateLabel nm).2]? = some nm := by
    intro nm
    exact ⟨h.G.intern nm, h.L.intern hnod hl0 nm hroom, (getOrCreateLabel_spec s nm hnod).1⟩
  cases op with
  | node x lab =>
    have hx : x ≠ 0 := fun hx => hx0 lab (by rw [hx])
    have hfresh : ∀ p ∈ g.ext, p.2 ≠ x := by
      intro p hp heq
      simp only [opWF, Bool.not_eq_true', List.any_eq_false] at hwf
      exact (hwf p hp) (by simpa using heq)
    -- engine after interning the label (if any)
    have hI : Staged s0 g0 (internLabel s lab).1 t g ∧ StagedL s0 g0 (internLabel s lab).1 t g ∧
        ((∃ l, lab = some l ∧ (internLabel s lab).1.interner[(internLabel s lab).2]? = some l) ∨
          (lab = none ∧ (internLabel s lab).2 = labelMax)) := by
      cases lab with
      | none => exact ⟨h.G, h.L, Or.inr ⟨rfl, rfl⟩⟩
      | some l => exact ⟨(hint l).1, (hint l).2.1, Or.inl ⟨l, rfl, (hint l).2.2⟩⟩
    obtain ⟨hG', hL', hlid⟩ := hI
    obtain ⟨t', hcreate, hmt, hadd, hdel, hLn⟩ :=
      hL'.node hL0 hG'.ext.idmap hG'.ext.nodup hlid hfresh hx
    have hstep : stepTx c (s, t) (.node x lab) = ((internLabel s lab).1, t') := by
      simp only [stepTx, hcreate]
    rw [hstep]
    refine ⟨?_, hLn⟩
    have hg := step_node_eq g x lab (by
      unfold Graph.extLookup
      have : g.ext.find? (fun p => p.2 == x && !g.dead.contains p.1) = none := by
        apply List.find?_eq_none.mpr
        intro p hp; have := hfresh p hp; simp [this]
      rw [this]; rfl)
    exact hG'.congr_engine rfl hG'.ext hmt (by rw [hg]) (by rw [hg]) (by rw [hg]) (by rw [hg])
  | labelAdd n nm =>
    obtain ⟨hG', hL', hr⟩ := hint nm
    have hlive := (live_iff g n).mp hwf
    have hndl : (n, (s.getOrCreateLabel nm).2) ∉ t.delL := by
      intro hm
      have hlt := (h.L.delOK _ hm).2
      simp only at hlt
      exact hnd n nm rfl _ hm (old_of_lt (getOrCreateLabel_spec s nm hnod).2.1 hr hlt)
    exact ⟨hG'.congr_engine rfl hG'.ext rfl (by
        show (if g.labels.contains (n, nm) then g else { g with labels := (n, nm) :: g.labels }).dead = g.dead
        split <;> rfl) (by
        show (if g.labels.contains (n, nm) then g else { g with labels := (n, nm) :: g.labels }).rels = g.rels
        split <;> rfl) (by
        show (if g.labels.contains (n, nm) then g else { g with labels := (n, nm) :: g.labels }).nprops = g.nprops
        split <;> rfl) (by
        show (if g.labels.contains (n, nm) then g else { g with labels := (n, nm) :: g.labels }).eprops = g.eprops
        split <;> rfl),
      hL'.labelAdd hG'.ext.nodup hr hlive.1 hndl⟩
  | labelDel n nm =>
    obtain ⟨hG', hL', hr⟩ := hint nm
    have hlive := (live_iff g n).mp hwf
    exact ⟨hG'.congr_engine rfl hG'.ext rfl rfl rfl rfl rfl, hL'.labelDel hG'.ext.nodup hr hlive.1⟩
  | edge a nm b =>
    obtain ⟨hG', hL', hr⟩ := hint nm
    simp only [opWF, Bool.and_eq_true] at hwf
    have ha := (live_iff g a).mp hwf.1
    have hb := (live_iff g b).mp hwf.2
    exact ⟨hG'.edge hr ha.2 hb.2, hL'.frame _ _ rfl rfl rfl rfl rfl rfl rfl⟩
  | tombNode n =>
    have hlive := (live_iff g n).mp hwf
    exact ⟨h.G.tombNode (hte n rfl), h.L.tombNode hlive.1⟩
  | tombEdge a nm b =>
    obtain ⟨hG', hL', hr⟩ := hint nm
    exact ⟨hG'.tombEdge hr (hnp a nm b rfl), hL'.frame _ _ rfl rfl rfl rfl rfl rfl rfl⟩
  | nprop n k v => exact ⟨h.G.nprop n k v, h.L.frame _ _ rfl rfl rfl rfl rfl rfl rfl⟩
  | npropDel n k => exact ⟨h.G.npropDel n k, h.L.frame _ _ rfl rfl rfl rfl rfl rfl rfl⟩
  | eprop a nm b k v =>
    obtain ⟨hG', hL', hr⟩ := hint nm
    exact ⟨hG'.eprop k v hr, hL'.frame _ _ rfl rfl rfl rfl rfl rfl rfl⟩
  | epropDel a nm b k =>
    obtain ⟨hG', hL', hr⟩ := hint nm
    exact ⟨hG'.epropDel k hr, hL'.frame _ _ rfl rfl rfl rfl rfl rfl rfl⟩
  | vec n v =>
    show St2 s0 g0 (t.setVector c s n v).1 (t.setVector c s n v).2 _
    unfold Txn.setVector
    split
    · exact ⟨h.G.congr_engine rfl h.G.ext rfl rfl rfl rfl rfl, h.L.frame _ _ rfl rfl rfl rfl rfl rfl rfl⟩
    · exact ⟨h.G.congr_engine rfl ⟨h.G.ext.runs, h.G.ext.idmap, h.G.ext.segs, h.G.ext.root, h.G.ext.pre, h.G.ext.nodup⟩
               rfl rfl rfl rfl rfl,
             (h.L.congr_engine (s' := { s with vecs := upsert n v s.vecs }) rfl).frame _ _ rfl rfl rfl rfl rfl rfl rfl⟩

end Nervus.Storage
