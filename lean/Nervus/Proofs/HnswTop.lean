/-
  Helper lemmas for C31, part 3: `search` / `search_vector` — soundness for any distance and
  exactness on a connected base layer.
-/
import Nervus.Proofs.HnswSearch
namespace Nervus.Hnsw

variable {V D : Type}

/-! ### stored ids -/

theorem mem_dedupIds : ∀ (l : List Nat) (x : Nat), x ∈ dedupIds l ↔ x ∈ l
  | [], x => by simp [dedupIds]
  | a :: l, x => by
    simp only [dedupIds, List.mem_cons, List.mem_filter, mem_dedupIds l x, bne_iff_ne, ne_eq]
    constructor
    · rintro (h | ⟨h, _⟩)
      · exact Or.inl h
      · exact Or.inr h
    · rintro (h | h)
      · exact Or.inl h
      · by_cases hx : x = a
        · exact Or.inl hx
        · exact Or.inr ⟨h, hx⟩

theorem dedupIds_nodup : ∀ (l : List Nat), (dedupIds l).Nodup
  | [] => by simp [dedupIds]
  | a :: l => by
    simp only [dedupIds, List.nodup_cons, List.mem_filter, bne_self_eq_false, Bool.false_eq_true, and_false,
      not_false_eq_true, true_and]
    exact (dedupIds_nodup l).sublist List.filter_sublist

theorem lookup_isSome_iff (vecs : List (Nat × V)) (i : Nat) :
    (vecs.lookup i).isSome = true ↔ i ∈ vecs.map (·.1) := by
  induction vecs with
  | nil => simp [List.lookup]
  | cons e vs ih =>
    obtain ⟨k, v⟩ := e
    rw [List.lookup_cons]
    by_cases h : i = k
    · subst h; simp
    · have : (i == k) = false := by simpa using h
      simp only [this, List.map_cons, List.mem_cons, h, false_or]
      exact ih

theorem mem_storedIds (ix : Index V) (i : Nat) : i ∈ storedIds ix ↔ ∃ v, ix.vecs.lookup i = some v := by
  unfold storedIds
  rw [mem_dedupIds, ← lookup_isSome_iff]
  cases ix.vecs.lookup i <;> simp

theorem storedIds_nodup (ix : Index V) : (storedIds ix).Nodup := dedupIds_nodup _

/-! ### greedy descent only ever stands on a stored id -/

theorem greedyPass_stored {sp : Space V D} {ix : Index V} {q : V} :
    ∀ (ns : List Nat) (cur : D × Nat) (ch : Bool) (r : (D × Nat) × Bool),
      cur.2 ∈ storedIds ix → greedyPass sp ix q ns cur ch = .ok r → r.1.2 ∈ storedIds ix
  | [], cur, ch, r, h, hr => by simp only [greedyPass, Except.ok.injEq] at hr; subst hr; exact h
  | n :: ns, cur, ch, r, h, hr => by
    unfold greedyPass at hr
    cases hg : getVec ix n with
    | error e => rw [hg] at hr; simp at hr
    | ok v =>
      rw [hg] at hr
      simp only at hr
      split at hr
      · exact greedyPass_stored ns _ _ r ((mem_storedIds ix n).mpr ⟨v, getVec_ok hg⟩) hr
      · exact greedyPass_stored ns _ _ r h hr

theorem greedyLayer_stored {sp : Space V D} {ix : Index V} {q : V} (layer : Nat) :
    ∀ (fuel : Nat) (cur r : D × Nat), cur.2 ∈ storedIds ix →
      greedyLayer sp ix q layer fuel cur = .ok r → r.2 ∈ storedIds ix
  | 0, _, _, _, hr => by simp [greedyLayer] at hr
  | fuel + 1, cur, r, h, hr => by
    unfold greedyLayer at hr
    cases hp : greedyPass sp ix q (getNbrs ix layer cur.2) cur false with
    | error e => rw [hp] at hr; simp at hr
    | ok res =>
      obtain ⟨cur', ch⟩ := res
      rw [hp] at hr
      have h' := greedyPass_stored _ _ _ _ h hp
      cases ch with
      | true => exact greedyLayer_stored layer fuel cur' r h' hr
      | false => simp only [Except.ok.injEq] at hr; subst hr; exact h'

theorem greedyDown_stored {sp : Space V D} {ix : Index V} {q : V} :
    ∀ (ls : List Nat) (cur r : D × Nat), cur.2 ∈ storedIds ix →
      greedyDown sp ix q ls cur = .ok r → r.2 ∈ storedIds ix
  | [], cur, r, h, hr => by simp only [greedyDown, Except.ok.injEq] at hr; subst hr; exact h
  | l :: ls, cur, r, h, hr => by
    unfold greedyDown at hr
    cases hg : greedyLayer sp ix q l (ix.vecs.length + 1) cur with
    | error e => rw [hg] at hr; simp at hr
    | ok cur' =>
      rw [hg] at hr
      exact greedyDown_stored ls cur' r (greedyLayer_stored l _ _ _ h hg) hr

/-! ### soundness -/

theorem sound_of_found {sp : Space V D} (law : sp.Lawful) {ix : Index V} {q : V} (found : List (D × Nat))
    (hg : ∀ h, h ∈ found → GoodPair sp ix q h) (hnd : (found.map (·.2)).Nodup) (k : Nat) :
    Sound sp ix [] q k ((sortPairs sp found).take k) := by
  have hperm := sortPairs_perm sp found
  have hsub : ((sortPairs sp found).take k).Sublist (sortPairs sp found) := List.take_sublist _ _
  refine ⟨List.length_take_le _ _, ?_, ?_, ?_, ?_⟩
  · exact ((hperm.map (·.2)).nodup_iff.mpr hnd).sublist (hsub.map _)
  · intro h hh; exact hg h (hperm.subset (hsub.subset hh))
  · intro _ _ hin; cases hin
  · have hasc := sortPairs_asc law found hnd
    exact (hasc.imp (fun h => lt_of_not_pairLt h)).sublist hsub

/-- what `search` returns comes from a `search_layer` result -/
theorem search_fixed_eq {sp : Space V D} {p : Params} {ix : Index V} {q : V} {k : Nat} {r : List (D × Nat)}
    (h : search Cfg.fixed sp p ix q k = .ok r) :
    (ix.entry = none ∧ r = []) ∨ ∃ s found, s ∈ storedIds ix ∧ searchLayer sp ix q [s] p.efS 0 = .ok found ∧
      r = (sortPairs sp found).take k := by
  unfold search at h
  cases he : ix.entry with
  | none => rw [he] at h; simp only [Except.ok.injEq] at h; exact Or.inl ⟨rfl, h.symm⟩
  | some e =>
    rw [he] at h
    simp only at h
    cases hg : getVec ix e with
    | error err => rw [hg] at h; simp at h
    | ok ve =>
      rw [hg] at h
      simp only at h
      cases hd : greedyDown sp ix q (layersDown ix.maxLayer 1) (sp.dist q ve, e) with
      | error err => rw [hd] at h; simp at h
      | ok cur =>
        rw [hd] at h
        simp only at h
        cases hs : searchLayer sp ix q [cur.2] p.efS 0 with
        | error err => rw [hs] at h; simp at h
        | ok found =>
          rw [hs] at h
          simp only [Cfg.fixed, if_true, Except.ok.injEq] at h
          refine Or.inr ⟨cur.2, found, ?_, hs, h.symm⟩
          exact greedyDown_stored _ _ _ ((mem_storedIds ix e).mpr ⟨ve, getVec_ok hg⟩) hd

theorem search_sound {sp : Space V D} (law : sp.Lawful) (p : Params) (ix : Index V) (q : V) (k : Nat)
    (r : List (D × Nat)) (h : search Cfg.fixed sp p ix q k = .ok r) : Sound sp ix [] q k r := by
  rcases search_fixed_eq h with ⟨_, rfl⟩ | ⟨s, found, _, hs, rfl⟩
  · exact ⟨Nat.zero_le _, List.nodup_nil, (fun _ h => by cases h), (fun _ h => by cases h), List.Pairwise.nil⟩
  · obtain ⟨g1, g2, _⟩ := searchLayer_sound (P := fun _ => True) [s] p.efS 0 (fun _ _ => trivial)
      (fun _ _ _ _ => trivial) found hs
    exact sound_of_found law found (fun h hh => (g1 h hh).2) g2 k

theorem searchVector_sound {sp : Space V D} (law : sp.Lawful) (p : Params) (ix : Index V) (tomb : List Nat)
    (q : V) (k : Nat) (r : List (D × Nat)) (h : searchVector Cfg.fixed sp p ix tomb q k = .ok r) :
    Sound sp ix tomb q k r := by
  unfold searchVector at h
  simp only [Cfg.fixed, if_true] at h
  cases hs : search ⟨true, true⟩ sp p ix q (k + tomb.length) with
  | error e => rw [hs] at h; simp at h
  | ok hits =>
    rw [hs] at h
    simp only [Except.ok.injEq] at h
    subst h
    have hsnd := search_sound law p ix q _ hits hs
    have hsub : ((hits.filter (fun h => !tomb.contains h.2)).take k).Sublist hits :=
      (List.take_sublist _ _).trans List.filter_sublist
    refine ⟨List.length_take_le _ _, hsnd.distinct.sublist (hsub.map _), ?_, ?_, hsnd.sorted.sublist hsub⟩
    · intro x hx; exact hsnd.dist x (hsub.subset hx)
    · intro x hx
      have := (List.mem_filter.mp ((List.take_sublist _ _).subset hx)).2
      simpa using this

/-! ### exactness on a connected base layer -/

/-- the base layer is closed (links point to stored ids) and connected from every stored id -/
structure Connected0 (ix : Index V) : Prop where
  closed : ∀ i, i ∈ storedIds ix → ∀ j, j ∈ getNbrs ix 0 i → j ∈ storedIds ix
  conn : ∀ i j, i ∈ storedIds ix → j ∈ storedIds ix → Reach ix 0 i j

theorem nodup_of_ids_nodup {l : List (D × Nat)} (h : (l.map (·.2)).Nodup) : l.Nodup := by
  induction l with
  | nil => exact List.nodup_nil
  | cons a l ih =>
    simp only [List.map_cons, List.nodup_cons] at h ⊢
    exact ⟨fun hin => h.1 (List.mem_map.mpr ⟨a, hin, rfl⟩), ih h.2⟩

/-- all stored ids with their distances, as `bruteForce` lists them before sorting -/
def allPairs (sp : Space V D) (ix : Index V) (tomb : List Nat) (q : V) : List (D × Nat) :=
  ((storedIds ix).filter (fun i => !tomb.contains i)).filterMap (fun i =>
    match ix.vecs.lookup i with
    | some v => some (sp.dist q v, i)
    | none => none)

theorem bruteForce_eq (sp : Space V D) (ix : Index V) (tomb : List Nat) (q : V) :
    bruteForce sp ix tomb q = sortPairs sp (allPairs sp ix tomb q) := rfl

theorem mem_allPairs (sp : Space V D) (ix : Index V) (tomb : List Nat) (q : V) (h : D × Nat) :
    h ∈ allPairs sp ix tomb q ↔ (h.2 ∉ tomb ∧ GoodPair sp ix q h) := by
  unfold allPairs GoodPair
  rw [List.mem_filterMap]
  constructor
  · rintro ⟨i, hi, hf⟩
    obtain ⟨_, hi2⟩ := List.mem_filter.mp hi
    cases hl : ix.vecs.lookup i with
    | none => rw [hl] at hf; cases hf
    | some v =>
      rw [hl] at hf
      simp only [Option.some.injEq] at hf
      subst hf
      exact ⟨by simpa using hi2, v, hl, rfl⟩
  · rintro ⟨hnt, v, hv, hd⟩
    refine ⟨h.2, List.mem_filter.mpr ⟨(mem_storedIds ix h.2).mpr ⟨v, hv⟩, by simpa using hnt⟩, ?_⟩
    rw [hv]; obtain ⟨d, i⟩ := h; simp only at hd; rw [hd]

theorem allPairs_ids_nodup (sp : Space V D) (ix : Index V) (tomb : List Nat) (q : V) :
    ((allPairs sp ix tomb q).map (·.2)).Nodup := by
  unfold allPairs
  have hnd : ((storedIds ix).filter (fun i => !tomb.contains i)).Nodup :=
    (storedIds_nodup ix).sublist List.filter_sublist
  show List.Pairwise (· ≠ ·) _
  rw [List.pairwise_map]
  apply List.Pairwise.filterMap (R := (· ≠ ·)) _ _ hnd
  intro a a' hne b hb b' hb' heq
  apply hne
  cases ha : ix.vecs.lookup a with
  | none => rw [ha] at hb; cases hb
  | some v =>
    cases ha' : ix.vecs.lookup a' with
    | none => rw [ha'] at hb'; cases hb'
    | some v' =>
      rw [ha] at hb; rw [ha'] at hb'
      simp only [Option.some.injEq] at hb hb'
      rw [← hb, ← hb'] at heq
      exact heq

/-- a sound `search_layer` result that covers every stored id is a permutation of all pairs -/
theorem found_perm_all {sp : Space V D} {ix : Index V} {q : V} (found : List (D × Nat))
    (hg : ∀ h, h ∈ found → GoodPair sp ix q h) (hnd : (found.map (·.2)).Nodup)
    (hcov : ∀ u, u ∈ storedIds ix → u ∈ found.map (·.2)) :
    found.Perm (allPairs sp ix [] q) := by
  rw [List.perm_ext_iff_of_nodup (nodup_of_ids_nodup hnd) (nodup_of_ids_nodup (allPairs_ids_nodup sp ix [] q))]
  intro h
  rw [mem_allPairs]
  constructor
  · intro hh; exact ⟨by simp, hg h hh⟩
  · rintro ⟨_, v, hv, hd⟩
    have := hcov h.2 ((mem_storedIds ix h.2).mpr ⟨v, hv⟩)
    rcases List.mem_map.mp this with ⟨h', hh', hid⟩
    obtain ⟨v', hv', hd'⟩ := hg h' hh'
    rw [hid, hv] at hv'
    cases hv'
    have : h' = h := by
      obtain ⟨a, b⟩ := h; obtain ⟨a', b'⟩ := h'
      simp only at hid hd hd'
      rw [hid, hd, hd']
    rw [← this]; exact hh'

/-- **exactness of `search`**: connected base layer and `ef_search ≥ n` ⇒ the k nearest -/
theorem search_exact {sp : Space V D} (law : sp.Lawful) (p : Params) (ix : Index V) (hc : Connected0 ix)
    (hef : (storedIds ix).length ≤ p.efS) (hent : ix.entry = none → storedIds ix = [])
    (q : V) (k : Nat) (r : List (D × Nat))
    (h : search Cfg.fixed sp p ix q k = .ok r) : r = (bruteForce sp ix [] q).take k := by
  rcases search_fixed_eq h with ⟨he, hr⟩ | ⟨s, found, hs, hsl, hr⟩
  · subst hr
    have := hent he
    rw [bruteForce_eq]
    have hall : allPairs sp ix [] q = [] := by unfold allPairs; rw [this]; rfl
    rw [hall]; simp [sortPairs]
  · subst hr
    obtain ⟨g1, g2, _⟩ := searchLayer_sound (P := (· ∈ storedIds ix)) [s] p.efS 0
      (by intro e' he'; simp only [List.mem_singleton] at he'; subst he'; exact hs) hc.closed found hsl
    have hcov := searchLayer_complete (U := storedIds ix) [s] p.efS 0 hef
      (by intro e' he'; simp only [List.mem_singleton] at he'; subst he'; exact hs) hc.closed found hsl
    have hperm := found_perm_all found (fun x hx => (g1 x hx).2) g2
      (fun u hu => hcov s List.mem_cons_self u (hc.conn _ _ hs hu))
    have : sortPairs sp found = bruteForce sp ix [] q := by
      rw [bruteForce_eq]
      apply asc_unique law _ _ (sortPairs_asc law found g2)
        (sortPairs_asc law _ (allPairs_ids_nodup sp ix [] q))
      · exact (sortPairs_perm sp found).trans (hperm.trans (sortPairs_perm sp _).symm)
      · exact ((sortPairs_perm sp found).map (·.2)).nodup_iff.mpr g2
    rw [this]

end Nervus.Hnsw
