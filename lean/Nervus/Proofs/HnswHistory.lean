/-
  Helper lemmas for C31, part 5: exactness of `search_vector` with tombstoned nodes, and the
  invariant along whole histories of first-time inserts.
-/
import Nervus.Proofs.HnswGraph
namespace Nervus.Hnsw

variable {V D : Type}

/-! ### asking for `k + t` hits and dropping at most `t` of them -/

theorem take_filter_take {α : Type} (P : α → Bool) :
    ∀ (S : List α) (k t : Nat), (S.filter (fun x => !P x)).length ≤ t →
      ((S.take (k + t)).filter P).take k = (S.filter P).take k
  | [], k, t, _ => by simp
  | x :: S, 0, t, _ => by simp
  | x :: S, k + 1, t, h => by
    cases hp : P x with
    | true =>
      have h' : (S.filter (fun x => !P x)).length ≤ t := by
        simpa [List.filter_cons, hp] using h
      have : k + 1 + t = (k + t) + 1 := by omega
      rw [this, List.take_succ_cons, List.filter_cons, List.filter_cons]
      simp only [hp, if_true, List.take_succ_cons]
      rw [take_filter_take P S k t h']
    | false =>
      have h' : (S.filter (fun x => !P x)).length + 1 ≤ t := by
        simpa [List.filter_cons, hp] using h
      obtain ⟨t', rfl⟩ : ∃ t', t = t' + 1 := ⟨t - 1, by omega⟩
      have : k + 1 + (t' + 1) = ((k + 1) + t') + 1 := by omega
      rw [this, List.take_succ_cons, List.filter_cons, List.filter_cons]
      simp only [hp, Bool.false_eq_true, if_false]
      exact take_filter_take P S (k + 1) t' (by omega)

theorem asc_filter {sp : Space V D} {l : List (D × Nat)} (P : D × Nat → Bool) (h : Asc sp l) :
    Asc sp (l.filter P) := List.Pairwise.sublist List.filter_sublist h

/-- the reference with tombstones is the reference without, minus the tombstoned ids -/
theorem bruteForce_filter {sp : Space V D} (law : sp.Lawful) (ix : Index V) (tomb : List Nat) (q : V) :
    bruteForce sp ix tomb q = (bruteForce sp ix [] q).filter (fun h => !tomb.contains h.2) := by
  rw [bruteForce_eq, bruteForce_eq]
  have hnd := allPairs_ids_nodup sp ix tomb q
  apply asc_unique law _ _ (sortPairs_asc law _ hnd)
    (asc_filter _ (sortPairs_asc law _ (allPairs_ids_nodup sp ix [] q)))
  · refine (sortPairs_perm sp _).trans ?_
    have hnd1 : (allPairs sp ix tomb q).Nodup := nodup_of_ids_nodup hnd
    have hnd2 : ((sortPairs sp (allPairs sp ix [] q)).filter (fun h => !tomb.contains h.2)).Nodup := by
      have : (sortPairs sp (allPairs sp ix [] q)).Nodup :=
        (sortPairs_perm sp _).nodup_iff.mpr (nodup_of_ids_nodup (allPairs_ids_nodup sp ix [] q))
      exact this.sublist List.filter_sublist
    rw [List.perm_ext_iff_of_nodup hnd1 hnd2]
    intro h
    rw [mem_allPairs, List.mem_filter, (sortPairs_perm sp _).mem_iff, mem_allPairs]
    simp
    constructor
    · rintro ⟨h1, h2⟩; exact ⟨h2, h1⟩
    · rintro ⟨h1, h2⟩; exact ⟨h2, h1⟩
  · exact ((sortPairs_perm sp _).map (·.2)).nodup_iff.mpr hnd

/-- **exactness of `search_vector`** (repaired): connected base layer and `ef_search ≥ n` ⇒ exactly
    the k nearest existing nodes -/
theorem searchVector_exact {sp : Space V D} (law : sp.Lawful) (p : Params) (ix : Index V) (hc : Connected0 ix)
    (hef : (storedIds ix).length ≤ p.efS) (hent : ix.entry = none → storedIds ix = [])
    (tomb : List Nat) (q : V) (k : Nat) (r : List (D × Nat))
    (h : searchVector Cfg.fixed sp p ix tomb q k = .ok r) : r = (bruteForce sp ix tomb q).take k := by
  unfold searchVector at h
  simp only [Cfg.fixed, if_true] at h
  cases hs : search ⟨true, true⟩ sp p ix q (k + tomb.length) with
  | error e => rw [hs] at h; simp at h
  | ok hits =>
    rw [hs] at h
    simp only [Except.ok.injEq] at h
    subst h
    have hex := search_exact law p ix hc hef hent q _ hits hs
    rw [hex, bruteForce_filter law ix tomb q]
    apply take_filter_take
    -- the dropped hits have distinct ids, all in `tomb`
    have hnd : ((bruteForce sp ix [] q).map (·.2)).Nodup := by
      rw [bruteForce_eq]
      exact ((sortPairs_perm sp _).map (·.2)).nodup_iff.mpr (allPairs_ids_nodup sp ix [] q)
    have hsub : (((bruteForce sp ix [] q).filter (fun x => !!tomb.contains x.2)).map (·.2)).Nodup :=
      hnd.sublist ((List.filter_sublist).map _)
    have := length_le_of_nodup_subset _ tomb hsub (by
      intro x hx
      rcases List.mem_map.mp hx with ⟨y, hy, rfl⟩
      have := (List.mem_filter.mp hy).2
      simpa using this)
    rw [List.length_map] at this
    exact this

/-! ### whole histories of first-time inserts -/

def vecIds : List (EOp V) → List Nat
  | [] => []
  | .vec id _ _ :: ops => id :: vecIds ops
  | _ :: ops => vecIds ops

theorem storedIds_length_insert {ix ix' : Index V} {id : Nat}
    (hid : id ∉ storedIds ix) (h : ∀ j, j ∈ storedIds ix' ↔ (j = id ∨ j ∈ storedIds ix)) :
    (storedIds ix').length = (storedIds ix).length + 1 := by
  have : (storedIds ix').Perm (id :: storedIds ix) := by
    rw [List.perm_ext_iff_of_nodup (storedIds_nodup ix') (List.nodup_cons.mpr ⟨hid, storedIds_nodup ix⟩)]
    intro j; rw [h j, List.mem_cons]
  rw [this.length_eq, List.length_cons]

/-- any levels, any interleaving of deletes and compactions: as long as every id is inserted once
    and at most `2m+1` vectors are stored, the base layer stays symmetric and connected -/
theorem erun_conn {sp : Space V D} (p : Params) (hefc : 1 ≤ p.efC) :
    ∀ (ops : List (EOp V)) (st st' : EState V), Conn st.ix → (vecIds ops).Nodup →
      (∀ id, id ∈ vecIds ops → id ∉ storedIds st.ix) →
      (storedIds st.ix).length + (vecIds ops).length ≤ p.m * 2 + 1 →
      erun sp p ops st = .ok st' →
      Conn st'.ix ∧ (storedIds st'.ix).length = (storedIds st.ix).length + (vecIds ops).length
  | [], st, st', hc, _, _, _, h => by
    simp only [erun, Except.ok.injEq] at h; subst h; exact ⟨hc, by simp [vecIds]⟩
  | op :: ops, st, st', hc, hnd, hfresh, hlen, h => by
    unfold erun at h
    cases hs : estep sp p st op with
    | error e => rw [hs] at h; simp at h
    | ok st1 =>
      rw [hs] at h
      simp only at h
      cases op with
      | vec id level v =>
        simp only [vecIds, List.nodup_cons, List.length_cons] at hnd hlen
        simp only [estep] at hs
        cases hi : insert sp p st.ix id v level with
        | error e => rw [hi] at hs; simp at hs
        | ok ix' =>
          rw [hi] at hs
          simp only [Except.ok.injEq] at hs
          subst hs
          have hidf : id ∉ storedIds st.ix := hfresh id (by simp [vecIds])
          obtain ⟨c1, c2⟩ := insert_conn sp p st.ix hc id v level hidf (by omega) hefc ix' hi
          have hl := storedIds_length_insert hidf c2
          obtain ⟨r1, r2⟩ := erun_conn p hefc ops ⟨ix', st.tomb⟩ st' c1 hnd.2
            (by
              intro j hj hin
              rcases (c2 j).mp hin with rfl | hin
              · exact hnd.1 hj
              · exact hfresh j (by simp [vecIds, hj]) hin)
            (by simp only; omega) h
          exact ⟨r1, by rw [r2]; simp only [vecIds, List.length_cons]; omega⟩
      | del id =>
        simp only [estep, Except.ok.injEq] at hs
        subst hs
        exact erun_conn p hefc ops ⟨st.ix, if st.tomb.contains id then st.tomb else id :: st.tomb⟩ st'
          hc hnd hfresh hlen h
      | compact =>
        simp only [estep, Except.ok.injEq] at hs
        subst hs
        exact erun_conn p hefc ops ⟨st.ix, []⟩ st' hc hnd hfresh hlen h

end Nervus.Hnsw
