/-
  C11 on F1a, incoming and undirected single hops: the engine's rows agree with the reference's only up to column
  order, so the bag congruence of the core clauses is lifted from `HRel` (permutation after erasing the hidden
  column) to `HRelE` (`TableEquiv`: permutation, then position-wise the same bindings).
-/
import Nervus.Proofs.CypherF1a
namespace Nervus.Cy
open Nervus.Cy Nervus.Cy.Compile

variable (A : Algebra) (env : Env)

theorem eval_equiv (r r' : Row) (h : Row.Equiv r r') (e : Expr) : eval A env r e = eval A env r' e := by
  induction e with
  | lit l => rfl
  | var x => simp only [eval, h x]
  | prop x k => simp only [eval, h x]
  | param p => rfl
  | cmp op a b iha ihb => simp only [eval, iha, ihb]
  | bool op a b iha ihb => simp only [eval, iha, ihb]
  | not a ih => simp only [eval, ih]
  | isNull a ih => simp only [eval, ih]
  | isNotNull a ih => simp only [eval, ih]
  | hasLabel a l ih => simp only [eval, ih]
  | listLit xs => rfl

theorem Row.Equiv.set {r r' : Row} (h : Row.Equiv r r') (x : String) (v : Val) :
    Row.Equiv (r.set x v) (r'.set x v) := by
  intro y
  by_cases hy : y = x
  · subst hy; rw [Row.get_set_self, Row.get_set_self]
  · rw [Row.get_set_ne r x y v hy, Row.get_set_ne r' x y v hy]; exact h y

theorem RowsEquiv.filter {X Y : Table} (h : RowsEquiv X Y) (p : Row → Bool)
    (hp : ∀ r r', Row.Equiv r r' → p r = p r') : RowsEquiv (X.filter p) (Y.filter p) := by
  induction X generalizing Y with
  | nil => cases Y with
    | nil => trivial
    | cons _ _ => exact absurd h (by simp [RowsEquiv])
  | cons x xs ih => cases Y with
    | nil => exact absurd h (by simp [RowsEquiv])
    | cons y ys =>
      have hxy := hp x y h.1
      simp only [List.filter_cons, hxy]
      cases p y
      · exact ih h.2
      · exact ⟨h.1, ih h.2⟩

theorem RowsEquiv.flatMap₂ {X Y : Table} (h : RowsEquiv X Y) (f : Row → Table)
    (hf : ∀ r r', Row.Equiv r r' → RowsEquiv (f r) (f r')) : RowsEquiv (X.flatMap f) (Y.flatMap f) := by
  induction X generalizing Y with
  | nil => cases Y with
    | nil => trivial
    | cons _ _ => exact absurd h (by simp [RowsEquiv])
  | cons x xs ih => cases Y with
    | nil => exact absurd h (by simp [RowsEquiv])
    | cons y ys =>
      simp only [List.flatMap_cons]
      exact RowsEquiv.append (hf x y h.1) (ih h.2)

theorem RowsEquiv.map_eq {X Y : Table} (h : RowsEquiv X Y) {β} (f : Row → β)
    (hf : ∀ r r', Row.Equiv r r' → f r = f r') : X.map f = Y.map f := by
  induction X generalizing Y with
  | nil => cases Y with
    | nil => rfl
    | cons _ _ => exact absurd h (by simp [RowsEquiv])
  | cons x xs ih => cases Y with
    | nil => exact absurd h (by simp [RowsEquiv])
    | cons y ys => simp only [List.map_cons, hf x y h.1, ih h.2]

/-- model table against reference table: same bag up to column order once the hidden column is erased -/
def HRelE (pa : String) (T' T : Table) : Prop := TableEquiv (T'.map (eraseCol pa)) T

theorem HRelE.filter (pa : String) (T' T : Table) (h : HRelE pa T' T) (e : Expr) (he : pa ∉ e.vars) :
    HRelE pa (T'.filter (evalBool A env · e)) (T.filter (evalBool A env · e)) := by
  obtain ⟨T'', hp, heq⟩ := h
  refine ⟨T''.filter (evalBool A env · e), ?_, heq.filter _ (fun r r' hr => by simp only [evalBool, eval_equiv A env r r' hr])⟩
  have : (T'.filter (evalBool A env · e)).map (eraseCol pa) =
      (T'.map (eraseCol pa)).filter (evalBool A env · e) := by
    rw [List.filter_map]
    congr 1
    apply List.filter_congr
    intro r _
    simp only [Function.comp, evalBool, eval_eraseCol A env pa r e he]
  rw [this]
  exact hp.filter _

theorem denoteUnwind_equiv (e : Expr) (x : String) (r r' : Row) (h : Row.Equiv r r') :
    RowsEquiv (Spec.denoteUnwind A env e x [r]) (Spec.denoteUnwind A env e x [r']) := by
  simp only [Spec.denoteUnwind, List.flatMap_cons, List.flatMap_nil, List.append_nil, eval_equiv A env r r' h]
  cases eval A env r' e with
  | list xs =>
    induction xs with
    | nil => trivial
    | cons y ys ih => exact ⟨h.set x _, ih⟩
  | null => trivial
  | bool b => exact ⟨h.set x _, trivial⟩
  | int i => exact ⟨h.set x _, trivial⟩
  | str s => exact ⟨h.set x _, trivial⟩
  | node n => exact ⟨h.set x _, trivial⟩
  | rel n => exact ⟨h.set x _, trivial⟩
  | path a b => exact ⟨h.set x _, trivial⟩

theorem HRelE.unwind (pa : String) (T' T : Table) (h : HRelE pa T' T) (e : Expr) (x : String) (he : pa ∉ e.vars)
    (hx : x ≠ pa) : HRelE pa (Spec.denoteUnwind A env e x T') (Spec.denoteUnwind A env e x T) := by
  obtain ⟨T'', hp, heq⟩ := h
  refine ⟨Spec.denoteUnwind A env e x T'', ?_, ?_⟩
  · rw [denoteUnwind_erase A env pa T' e x he hx]
    exact perm_flatMap_left _ hp
  · have hflat : ∀ X : Table, Spec.denoteUnwind A env e x X = X.flatMap fun r => Spec.denoteUnwind A env e x [r] := by
      intro X
      simp [Spec.denoteUnwind]
    rw [hflat T'', hflat T]
    exact heq.flatMap₂ _ (denoteUnwind_equiv A env e x)

theorem projOut_equiv (p : Proj) (r r' : Row) (h : Row.Equiv r r') : projOut A env p r = projOut A env p r' := by
  unfold projOut
  apply List.map_congr_left
  intro it _
  obtain ⟨ex, al⟩ := it
  cases ex with
  | plain e => simp only [Spec.itemVal, eval_equiv A env r r' h]
  | agg k a => cases k <;> simp [Spec.itemVal, eval_equiv A env r r' h]

/-- a projection brings `HRelE` back to the plain `HRel` -/
theorem HRelE.proj (pa : String) (T' T : Table) (h : HRelE pa T' T) (p : Proj) (s : List String) (hs : pa ∉ s)
    (hitems : p.items.all (fun it => match it.expr with | .plain e => Spec.exprOk s e | .agg _ a => Spec.exprOk s a) = true)
    (hplain : p.items.any Spec.isAgg = false) (hal : pa ∉ p.items.map (·.alias)) :
    HRel pa (T'.map (projOut A env p)) (T.map (projOut A env p)) := by
  obtain ⟨T'', hp, heq⟩ := h
  have h1 : HRel pa (T'.map (projOut A env p)) (T''.map (projOut A env p)) :=
    HRel.proj A env pa T' T'' hp p s hs hitems hplain hal
  rw [← heq.map_eq (projOut A env p) (projOut_equiv A env p)]
  exact h1

theorem HRelE.projT (pa : String) (T' T : Table) (h : HRelE pa T' T) (p : Proj) (s : List String) (hs : pa ∉ s)
    (hitems : p.items.all (fun it => match it.expr with | .plain e => Spec.exprOk s e | .agg _ a => Spec.exprOk s a) = true)
    (hplain : p.items.any Spec.isAgg = false) (hal : pa ∉ p.items.map (·.alias)) :
    HRel pa (projTable A env p T') (projTable A env p T) := by
  obtain ⟨T'', hp, heq⟩ := h
  have h1 : HRel pa (projTable A env p T') (projTable A env p T'') :=
    HRel.projT A env pa T' T'' hp p s hs hitems hplain hal
  have : projTable A env p T'' = projTable A env p T := by
    unfold projTable
    rw [heq.map_eq (projOut A env p) (projOut_equiv A env p)]
  rw [← this]
  exact h1

/-- the reference's core clauses respect `HRelE` -/
theorem denote_bag_congrE (pa : String) (q : Query) : ∀ (b : Bool) (s s' : List String) (T' T : Table),
    bagClauses b q = true → Spec.scopeAfter s q = some s' → pa ∉ s → pa ∉ introduced q → HRelE pa T' T →
    ∃ R' R, Spec.denoteClauses A env q T' = .ok R' ∧ Spec.denoteClauses A env q T = .ok R ∧
      R'.rows.Perm R.rows := by
  induction q with
  | nil => intro b s s' T' T hc; cases b <;> simp [bagClauses] at hc
  | cons c rest ih =>
    intro b s s' T' T hc hs hpa hin hrel
    cases c with
    | match_ o ps => cases b <;> simp [bagClauses] at hc
    | where_ e =>
      cases b with
      | false => simp [bagClauses] at hc
      | true =>
        have hc' : bagClauses true rest = true := by simpa [bagClauses] using hc
        simp only [Spec.scopeAfter] at hs
        split at hs
        · rename_i hok
          simp only [Spec.denoteClauses]
          exact ih true s s' _ _ hc' hs hpa (by simpa [introduced] using hin)
            (HRelE.filter A env pa T' T hrel e (not_mem_vars_of_exprOk s e pa hpa hok))
        · cases hs
    | unwind e x =>
      have hc' : bagClauses true rest = true := by cases b <;> simpa [bagClauses] using hc
      simp only [introduced, List.mem_cons, not_or] at hin
      simp only [Spec.scopeAfter] at hs
      split at hs
      · rename_i hok
        simp only [Bool.and_eq_true] at hok
        simp only [Spec.denoteClauses]
        refine ih true (s ++ [x]) s' _ _ hc' hs ?_ hin.2
          (HRelE.unwind A env pa T' T hrel e x (not_mem_vars_of_exprOk s e pa hpa hok.1) (fun h => hin.1 h.symm))
        simp only [List.mem_append, List.mem_singleton, not_or]
        exact ⟨hpa, hin.1⟩
      · cases hs
    | with_ p w =>
      cases w with
      | some w => cases b <;> simp [bagClauses] at hc
      | none =>
        have hc' : bagProj p = true ∧ bagClauses true rest = true := by
          cases b <;> simpa [bagClauses] using hc
        simp only [introduced, List.mem_append, not_or] at hin
        simp only [Spec.scopeAfter] at hs
        split at hs
        · rename_i hok
          have hb := hc'.1
          unfold bagProj coreProj at hb
          simp only [Bool.and_eq_true, Bool.not_eq_true', List.isEmpty_iff, Option.isNone_iff_eq_none] at hb
          unfold Spec.projOk at hok
          simp only [Bool.and_eq_true] at hok
          obtain ⟨⟨⟨⟨_, _⟩, hitems⟩, _⟩, _⟩ := hok
          simp only [Spec.denoteClauses, denoteProj_bag A env p _ hc'.1, bind, Except.bind]
          exact denote_bag_congr A env pa rest true _ s' _ _ hc'.2 hs hin.1 hin.2
            (HRelE.projT A env pa T' T hrel p s hpa hitems hb.1.1.1 hin.1)
        · cases hs
    | return_ p =>
      have hc' : bagProj p = true ∧ rest = [] := by
        cases rest with
        | nil => cases b <;> simpa [bagClauses] using hc
        | cons c' r' => cases b <;> simp [bagClauses] at hc
      obtain ⟨hcp, rfl⟩ := hc'
      simp only [introduced, List.append_nil] at hin
      simp only [Spec.scopeAfter, List.isEmpty_nil, Bool.and_true] at hs
      split at hs
      · rename_i hok
        have hb := hcp
        unfold bagProj coreProj at hb
        simp only [Bool.and_eq_true, Bool.not_eq_true', List.isEmpty_iff, Option.isNone_iff_eq_none] at hb
        unfold Spec.projOk at hok
        simp only [Bool.and_eq_true] at hok
        obtain ⟨⟨⟨⟨_, _⟩, hitems⟩, _⟩, _⟩ := hok
        have hr := HRelE.projT A env pa T' T hrel p s hpa hitems hb.1.1.1 hin
        have hord : p.orderBy = [] := hb.1.1.2
        refine ⟨.bag (projTable A env p T'), .bag (projTable A env p T), ?_, ?_, ?_⟩
        · simp [Spec.denoteClauses, denoteProj_bag A env p _ hcp, bind, Except.bind, pure, Except.pure, hord]
        · simp [Spec.denoteClauses, denoteProj_bag A env p _ hcp, bind, Except.bind, pure, Except.pure, hord]
        · show (projTable A env p T').Perm (projTable A env p T)
          unfold HRel at hr
          rw [map_erase_id pa _ (projTable_cols A env pa p T' hin)] at hr
          exact hr
      · cases hs

/-! ### the three directions -/

def stepDir (g : Graph) (dir : Dir) (r : Row) (s : Nat) (rels : List String) (ev : Option String) (d : String)
    (dl : List String) (pa : String) : Table :=
  match dir with
  | .out => Exec.stepOut g r s rels ev d dl (some pa)
  | .inn => Exec.stepIn g r s rels ev d dl (some pa)
  | .both => Exec.stepBoth g r s rels ev d dl (some pa)

def stepRowD (dir : Dir) (a : String) (rels : List String) (ev : Option String) (d : String) (dl : List String)
    (pa : String) (r : Row) : Table :=
  match r.get a with
  | some (.node s) => stepDir env.g dir r s rels ev d dl pa
  | _ => []

theorem built_get (r : Row) (ev : Option String) (d pa c : String) (v1 v2 : Val) (s t : Nat) (e : RelId)
    (hcd : c ≠ d) (hcp : c ≠ pa) (hce : ∀ y, ev = some y → c ≠ y) :
    (Exec.joinPathOpt (Exec.withOpt (r.set d v1) ev v2) (some pa) s e t).get c = r.get c := by
  have h1 : ∀ (row : Row), (Exec.joinPathOpt row (some pa) s e t).get c = row.get c := by
    intro row
    simp only [Exec.joinPathOpt, Exec.joinPath]
    split <;> exact Row.get_set_ne _ pa c _ hcp
  rw [h1]
  cases ev with
  | none => exact Row.get_set_ne _ d c _ hcd
  | some y =>
    simp only [Exec.withOpt]
    rw [Row.get_set_ne _ y c _ (hce y rfl), Row.get_set_ne _ d c _ hcd]

theorem stepDir_get (g : Graph) (dir : Dir) (r : Row) (s : Nat) (rels : List String) (ev : Option String)
    (d : String) (dl : List String) (pa : String) (c : String) (hcd : c ≠ d) (hcp : c ≠ pa)
    (hce : ∀ y, ev = some y → c ≠ y) : ∀ x ∈ stepDir g dir r s rels ev d dl pa, x.get c = r.get c := by
  have hin : ∀ rels', ∀ x ∈ Exec.stepIn g r s rels' ev d dl (some pa), x.get c = r.get c := by
    intro rels' x hx
    unfold Exec.stepIn at hx
    obtain ⟨e, _, he⟩ := List.mem_filterMap.mp hx
    split at he
    · cases he
    · simp only [Option.some.injEq] at he; subst he; exact built_get r ev d pa c _ _ _ _ _ hcd hcp hce
  have hinl : ∀ rels', ∀ x ∈ Exec.stepInNoLoop g r s rels' ev d dl (some pa), x.get c = r.get c := by
    intro rels' x hx
    unfold Exec.stepInNoLoop at hx
    obtain ⟨e, _, he⟩ := List.mem_filterMap.mp hx
    split at he
    · cases he
    · simp only [Option.some.injEq] at he; subst he; exact built_get r ev d pa c _ _ _ _ _ hcd hcp hce
  have houtu : ∀ rels', ∀ x ∈ Exec.stepOutU g r s rels' ev d dl (some pa), x.get c = r.get c := by
    intro rels' x hx
    unfold Exec.stepOutU at hx
    obtain ⟨e, _, he⟩ := List.mem_filterMap.mp hx
    split at he
    · cases he
    · simp only [Option.some.injEq] at he; subst he; exact built_get r ev d pa c _ _ _ _ _ hcd hcp hce
  intro x hx
  cases dir with
  | out => exact stepOut_get g r s rels ev d dl pa c hcd hcp hce x hx
  | inn => exact hin rels x hx
  | both =>
    simp only [stepDir, Exec.stepBoth] at hx
    split at hx
    · rcases List.mem_append.mp hx with h | h
      · exact houtu [] x h
      · exact hinl [] x h
    · obtain ⟨t, _, ht⟩ := List.mem_flatMap.mp hx
      rcases List.mem_append.mp ht with h | h
      · exact houtu [t] x h
      · exact hinl [t] x h

theorem tableEquiv_flatMap (l : Table) (f g : Row → Table) (h : ∀ r ∈ l, TableEquiv (f r) (g r)) :
    TableEquiv (l.flatMap f) (l.flatMap g) := by
  induction l with
  | nil => exact ⟨[], List.Perm.refl _, trivial⟩
  | cons r rest ih =>
    obtain ⟨X1, hp1, he1⟩ := h r (by simp)
    obtain ⟨X2, hp2, he2⟩ := ih (fun x hx => h x (List.mem_cons_of_mem _ hx))
    simp only [List.flatMap_cons]
    exact ⟨X1 ++ X2, List.Perm.append hp1 hp2, RowsEquiv.append he1 he2⟩

theorem matchSteps_envD (used : List RelId) (cur : Nat) (r : Row) (ev : Option String) (rels : List String)
    (dir : Dir) (d : String) (dl : List String) :
    Spec.matchSteps A env used cur r [(⟨ev, rels, dir, []⟩, ⟨some d, dl, []⟩)] =
      Spec.matchSteps A { g := env.g } used cur r [(⟨ev, rels, dir, []⟩, ⟨some d, dl, []⟩)] :=
  matchSteps_env A env used cur r ev rels dir d dl

theorem hop_dir_rel (hnp : NoParallel env.g) (dir : Dir) (a d pa : String) (ev : Option String) (rels : List String)
    (hrels : rels.Nodup) (dl : List String) (T0 : Table) (hT0 : ∀ r ∈ T0, ∃ id, r = [(a, Val.node id)])
    (ha : a ≠ pa) (hd : d ≠ pa) (hev : ∀ x, ev = some x → x ≠ pa ∧ x ≠ d ∧ x ≠ a) :
    HRelE pa (T0.flatMap (stepRowD env dir a rels ev d dl pa))
      (T0.flatMap (specStep A env a [(⟨ev, rels, dir, []⟩, ⟨some d, dl, []⟩)])) := by
  unfold HRelE
  rw [List.map_flatMap]
  apply tableEquiv_flatMap
  intro r hr
  obtain ⟨id, rfl⟩ := hT0 r hr
  have hget : Row.get [(a, Val.node id)] pa = none := by
    have : (pa == a) = false := by simpa using (fun h : pa = a => ha h.symm)
    simp [Row.get, List.lookup, this]
  have hpr : PathRel [(a, Val.node id)] pa [] := by simp [PathRel, hget]
  have herase : eraseCol pa [(a, Val.node id)] = [(a, Val.node id)] := by
    apply eraseCol_of_not_mem; simpa [Row.cols] using fun h : pa = a => ha h.symm
  have hev' : ∀ x, ev = some x → x ≠ pa ∧ x ≠ d ∧ Row.get [(a, Val.node id)] x = none := by
    intro x hx
    obtain ⟨h1, h2, h3⟩ := hev x hx
    refine ⟨h1, h2, ?_⟩
    have : (x == a) = false := by simpa using h3
    simp [Row.get, List.lookup, this]
  simp only [stepRowD, specStep, Row.get_singleton, matchSteps_envD, stepDir]
  cases dir with
  | out =>
    have := expand_out_row A env.g hnp [(a, Val.node id)] id rels hrels ev d pa dl [] hpr hd hev'
    rw [herase] at this
    exact ⟨_, this, RowsEquiv.refl _⟩
  | inn =>
    have := expand_in_row A env.g hnp [(a, Val.node id)] id rels hrels ev d pa dl [] hpr hd hev'
    rw [herase] at this
    exact this
  | both =>
    have := expand_both_row A env.g hnp [(a, Val.node id)] id rels hrels ev d pa dl [] hpr hd hev'
    rw [herase] at this
    exact this

/-! ### plan, rows, scope and assembly for any direction -/

def hopPlanD (dir : Dir) (a : String) (la : List String) (ev : Option String) (rels : List String) (d : String)
    (dl : List String) (preds : Preds) (pa : String) : Plan :=
  let h := applyFilters (mkHop dir (nodePlan a la preds) a rels ev d dl false (some pa)) d preds
  match ev with | some ea => applyFilters h ea preds | none => h

abbrev hopPatD (dir : Dir) (a : String) (la : List String) (ev : Option String) (rels : List String) (d : String)
    (dl : List String) : PathPat := ⟨⟨some a, la, []⟩, [(⟨ev, rels, dir, []⟩, ⟨some d, dl, []⟩)]⟩

theorem compileMatch_hopD (dir : Dir) (a d : String) (la dl rels : List String) (ev : Option String) (preds : Preds) :
    compileMatch none [hopPatD dir a la ev rels d dl] preds {} =
      .ok (compileChain none (hopPatD dir a la ev rels d dl) preds [] {}) := by
  cases ev <;>
  simp [compileMatch, maybeReanchor, validatePattern, boundAsNode, usesOuter, lastNode, bind, Except.bind,
    pure, Except.pure, List.lookup]

theorem compileChain_hopD (dir : Dir) (a d : String) (la dl rels : List String) (ev : Option String) (preds : Preds) :
    (compileChain none (hopPatD dir a la ev rels d dl) preds [] {}).1 = hopPlanD dir a la ev rels d dl preds pa0 := by
  unfold compileChain hopPlanD nodePlan pa0
  simp only [extendPreds, List.foldl_nil, compileChain.hops, List.contains_nil, boundAsNode, List.lookup,
    Bool.or_self, List.isEmpty_nil]
  cases ev <;> simp <;>
    (cases la.head? with
      | none => rfl
      | some l =>
        cases (List.lookup a preds).bind (·.head?) with
        | none => rfl
        | some fv => rfl)

theorem exec_hopPlanD (dir : Dir) (a d pa : String) (la dl rels : List String) (ev : Option String) (preds : Preds) :
    Exec.exec A env (hopPlanD dir a la ev rels d dl preds pa) = .ok
      ((((((scanRows env a la.head?).filter (pushedOK A env a preds)).filter (labelOK A env a la)).flatMap
          (stepRowD env dir a rels ev d dl pa)).filter (pushedOK A env d preds)).filter
        (match ev with | some ea => pushedOK A env ea preds | none => fun _ => true)) := by
  have hx : Exec.exec A env (mkHop dir (nodePlan a la preds) a rels ev d dl false (some pa)) = .ok
      ((((scanRows env a la.head?).filter (pushedOK A env a preds)).filter (labelOK A env a la)).flatMap
        (stepRowD env dir a rels ev d dl pa)) := by
    cases dir with
    | out =>
      simp only [mkHop, Exec.exec, exec_nodePlan, bind, Except.bind]
      rw [expandOut_flatMap]
      · rfl
      · intro r hr
        obtain ⟨id, rfl⟩ := nodeRows_shape A env a la preds r hr
        exact ⟨id, Row.get_singleton a _⟩
    | inn => simp only [mkHop, Exec.exec, exec_nodePlan, bind, Except.bind, pure, Except.pure]; rfl
    | both => simp only [mkHop, Exec.exec, exec_nodePlan, bind, Except.bind, pure, Except.pure]; rfl
  unfold hopPlanD
  cases ev with
  | none =>
    simp only [filter_const_true]
    exact exec_applyFilters A env _ _ hx d preds
  | some ea =>
    exact exec_applyFilters A env _ _ (exec_applyFilters A env _ _ hx d preds) ea preds

theorem KOk_hopD (dir : Dir) (a d : String) (la dl rels : List String) (ev : Option String) (preds : Preds)
    (had : a ≠ d) (hev : ∀ e, ev = some e → e ≠ a ∧ e ≠ d) :
    KOk (outKinds (hopPlanD dir a la ev rels d dl preds pa0)) ([a] ++ ev.toList ++ [d]) := by
  have : outKinds (hopPlanD dir a la ev rels d dl preds pa0) = outKinds (hopPlan a la ev rels d dl preds pa0) := by
    unfold hopPlanD hopPlan
    cases ev <;> simp only [outKinds_filters] <;> cases dir <;> rfl
  rw [this]
  exact KOk_hop a d la dl rels ev preds had hev

theorem compileClauses_hopMatchD (dir : Dir) (a d : String) (la dl rels : List String) (ev : Option String)
    (tail : Query) :
    ∃ st, compileClauses (.match_ false [hopPatD dir a la ev rels d dl] :: tail) {} =
      compileClauses tail { plan := some (hopPlanD dir a la ev rels d dl (predsOf tail) pa0), st := st, pending := none } := by
  refine ⟨(compileChain none (hopPatD dir a la ev rels d dl) (predsOf tail) [] {}).2, ?_⟩
  have hpair : compileChain none (hopPatD dir a la ev rels d dl) (predsOf tail) [] {} =
      (hopPlanD dir a la ev rels d dl (predsOf tail) pa0,
        (compileChain none (hopPatD dir a la ev rels d dl) (predsOf tail) [] {}).2) := by
    rw [← compileChain_hopD dir a d la dl rels ev (predsOf tail)]
  cases tail with
  | nil =>
    simp only [compileClauses, bind, Except.bind, predsOf] at hpair ⊢
    rw [compileMatch_hopD, hpair]
    simp
  | cons c rest =>
    cases c <;> simp only [compileClauses, bind, Except.bind, predsOf] at hpair ⊢ <;>
      rw [compileMatch_hopD, hpair] <;> simp only [Bool.false_eq_true, ↓reduceIte]

theorem hop_pushdown_elimD (hsym : EqSymm A) (dir : Dir) (a d pa : String) (la dl rels : List String)
    (ev : Option String) (w : Expr) (had : a ≠ d) (hap : a ≠ pa) (hae : ∀ e, ev = some e → a ≠ e) :
    ((((((scanRows env a la.head?).filter (pushedOK A env a (extractPredicates w []))).filter (labelOK A env a la)).flatMap
          (stepRowD env dir a rels ev d dl pa)).filter (pushedOK A env d (extractPredicates w []))).filter
        (match ev with | some ea => pushedOK A env ea (extractPredicates w []) | none => fun _ => true)).filter
        (evalBool A env · w) =
      (((scanRows env a la.head?).filter (labelOK A env a la)).flatMap (stepRowD env dir a rels ev d dl pa)).filter
        (evalBool A env · w) := by
  have hold : ∀ x, evalBool A env x w = true → PredsHold A env (extractPredicates w []) x :=
    fun x hw => extractPredicates_hold A env hsym x w [] hw (PredsHold.nil A env x)
  have hclosed : PredsClosed (extractPredicates w []) := extractPredicates_closed w [] PredsClosed.nil
  rw [filter_filter_implied _ _ _ (by
        intro x hw
        cases ev with
        | none => rfl
        | some ea => exact pushedOK_of_hold A env ea _ x (hold x hw)),
      filter_filter_implied _ _ _ (fun x hw => pushedOK_of_hold A env d _ x (hold x hw)),
      filter_comm', filter_flatMap_filter]
  intro r _ x hx hw
  have hpx := pushedOK_of_hold A env a _ x (hold x hw)
  unfold stepRowD at hx
  split at hx
  · rename_i s hs
    have hget := stepDir_get env.g dir r s rels ev d dl pa a had hap hae x hx
    rw [← pushedOK_congr A env a _ hclosed x r hget]
    exact hpx
  · cases hx

/-- **C11 on F1a, one hop in any direction** -/
theorem f1a_hop_agrees (hsym : EqSymm A) (hg : env.g.NodesDistinct) (hnp : NoParallel env.g) (dir : Dir)
    (a d : String) (la dl rels : List String) (ev : Option String) (tail : Query)
    (hrels : rels.Nodup) (had : a ≠ d) (hev : ∀ e, ev = some e → e ≠ a ∧ e ≠ d)
    (hap : a ≠ pa0) (hdp : d ≠ pa0) (hep : ∀ e, ev = some e → e ≠ pa0) (hin : pa0 ∉ introduced tail)
    (hc : bagClauses true tail = true)
    (hs : Spec.WellScoped (.match_ false [hopPatD dir a la ev rels d dl] :: tail)) :
    Agrees (Exec.run A env (.match_ false [hopPatD dir a la ev rels d dl] :: tail))
      (Spec.denote A env (.match_ false [hopPatD dir a la ev rels d dl] :: tail)) := by
  obtain ⟨st, hcomp⟩ := compileClauses_hopMatchD dir a d la dl rels ev tail
  unfold Spec.WellScoped at hs
  have hs1 : (Spec.scopeAfter ([a] ++ ev.toList ++ [d]) tail).isSome = true := by
    cases ev <;> simpa [Spec.scopeAfter, Spec.patsOk, Spec.patVars] using hs
  obtain ⟨s', hs'⟩ := Option.isSome_iff_exists.mp hs1
  have hpas : pa0 ∉ [a] ++ ev.toList ++ [d] := by
    cases ev with
    | none => simp [hap.symm, hdp.symm]
    | some e => simp [hap.symm, hdp.symm, (hep e rfl).symm]
  have hind := core_induction A env tail true
    { plan := some (hopPlanD dir a la ev rels d dl (predsOf tail) pa0), st := st, pending := none } _ _ s'
    (bagClauses_core tail true hc) hs' rfl (fun _ => rfl)
    (exec_hopPlanD A env dir a d pa0 la dl rels ev (predsOf tail)) (KOk_hopD dir a d la dl rels ev (predsOf tail) had hev)
  have hrun : Exec.run A env (.match_ false [hopPatD dir a la ev rels d dl] :: tail) =
      runLoop A env tail { plan := some (hopPlanD dir a la ev rels d dl (predsOf tail) pa0), st := st, pending := none } := by
    unfold Exec.run compile runLoop
    rw [hcomp]
    rfl
  have hspec : Spec.denote A env (.match_ false [hopPatD dir a la ev rels d dl] :: tail) =
      Spec.denoteClauses A env tail
        (((scanRows env a la.head?).filter (labelOK A env a la)).flatMap
          (specStep A env a [(⟨ev, rels, dir, []⟩, ⟨some d, dl, []⟩)])) := by
    unfold Spec.denote
    rw [if_pos hs, ← spec_chain_rows A env hg a la]
    cases tail with
    | nil => simp [Spec.denoteClauses]
    | cons c rest => cases c <;> simp [Spec.denoteClauses]
  have hrel : HRelE pa0 (((scanRows env a la.head?).filter (labelOK A env a la)).flatMap (stepRowD env dir a rels ev d dl pa0))
      (((scanRows env a la.head?).filter (labelOK A env a la)).flatMap
        (specStep A env a [(⟨ev, rels, dir, []⟩, ⟨some d, dl, []⟩)])) := by
    apply hop_dir_rel A env hnp dir a d pa0 ev rels hrels dl _ _ hap hdp
    · intro x hx; obtain ⟨h1, h2⟩ := hev x hx; exact ⟨hep x hx, h2, h1⟩
    · intro r hr
      have h1 := (List.mem_filter.mp hr).1
      unfold scanRows at h1
      obtain ⟨n, _, rfl⟩ := List.mem_map.mp h1
      exact ⟨n.id, rfl⟩
  have key : ∃ R' R, Spec.denoteClauses A env tail
        ((((((scanRows env a la.head?).filter (pushedOK A env a (predsOf tail))).filter (labelOK A env a la)).flatMap
          (stepRowD env dir a rels ev d dl pa0)).filter (pushedOK A env d (predsOf tail))).filter
        (match ev with | some ea => pushedOK A env ea (predsOf tail) | none => fun _ => true)) = .ok R' ∧
      Spec.denoteClauses A env tail (((scanRows env a la.head?).filter (labelOK A env a la)).flatMap
          (specStep A env a [(⟨ev, rels, dir, []⟩, ⟨some d, dl, []⟩)])) = .ok R ∧ R'.rows.Perm R.rows := by
    cases tail with
    | nil => simp [bagClauses] at hc
    | cons c rest =>
      cases c with
      | where_ w =>
        have hc' : bagClauses true rest = true := by simpa [bagClauses] using hc
        simp only [Spec.scopeAfter] at hs'
        split at hs'
        · rename_i hok
          simp only [Spec.denoteClauses, predsOf]
          rw [hop_pushdown_elimD A env hsym dir a d pa0 la dl rels ev w had hap (fun e he => (hev e he).1.symm)]
          exact denote_bag_congrE A env pa0 rest true _ s' _ _ hc' hs' hpas (by simpa [introduced] using hin)
            (HRelE.filter A env pa0 _ _ hrel w (not_mem_vars_of_exprOk _ w pa0 hpas hok))
        · cases hs'
      | match_ o ps => simp [bagClauses] at hc
      | unwind e x =>
        have hp : ∀ y, pushedOK A env y [] = fun _ => true := by intro y; funext r; rfl
        have : predsOf (Clause.unwind e x :: rest) = [] := rfl
        rw [this]
        simp only [hp, filter_const_true]
        cases ev <;> simp only [filter_const_true] <;>
          exact denote_bag_congrE A env pa0 _ true _ s' _ _ hc hs' hpas hin hrel
      | with_ p w =>
        have hp : ∀ y, pushedOK A env y [] = fun _ => true := by intro y; funext r; rfl
        have : predsOf (Clause.with_ p w :: rest) = [] := rfl
        rw [this]
        simp only [hp, filter_const_true]
        cases ev <;> simp only [filter_const_true] <;>
          exact denote_bag_congrE A env pa0 _ true _ s' _ _ hc hs' hpas hin hrel
      | return_ p =>
        have hp : ∀ y, pushedOK A env y [] = fun _ => true := by intro y; funext r; rfl
        have : predsOf (Clause.return_ p :: rest) = [] := rfl
        rw [this]
        simp only [hp, filter_const_true]
        cases ev <;> simp only [filter_const_true] <;>
          exact denote_bag_congrE A env pa0 _ true _ s' _ _ hc hs' hpas hin hrel
  obtain ⟨R', R, h1, h2, hperm⟩ := key
  rw [hrun, hind, hspec, h1, h2]
  unfold Agrees agreesB
  simp only [Except.map]
  exact List.isPerm_iff.mpr hperm

end Nervus.Cy
