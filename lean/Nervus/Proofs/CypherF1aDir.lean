/-
  C11 on F1a, incoming and undirected single hops: the engine's rows agree with the reference's only up to column
  order, so the bag congruence of the core clauses is lifted from `HRel` (permutation after erasing the hidden
  column) to `HRelE` (`TableEquiv`: permutation, then position-wise the same bindings).
-/
import Nervus.Proofs.CypherF1a
namespace Nervus.Cy
open Nervus.Cy Nervus.Cy.Compile

variable (A : Algebra) (env : Env)

theorem eval_equiv (r r' : Row) (h : Row.Equiv r r') (e : Expr) : eval A env r e = eval A env r' e := by
  induction e with
  | lit l => rfl
  | var x => simp only [eval, h x]
  | prop x k => simp only [eval, h x]
  | param p => rfl
  | cmp op a b iha ihb => simp only [eval, iha, ihb]
  | bool op a b iha ihb => simp only [eval, iha, ihb]
  | not a ih => simp only [eval, ih]
  | isNull a ih => simp only [eval, ih]
  | isNotNull a ih => simp only [eval, ih]
  | hasLabel a l ih => simp only [eval, ih]
  | listLit xs => rfl

theorem Row.Equiv.set {r r' : Row} (h : Row.Equiv r r') (x : String) (v : Val) :
    Row.Equiv (r.set x v) (r'.set x v) := by
  intro y
  by_cases hy : y = x
  · subst hy; rw [Row.get_set_self, Row.get_set_self]
  · rw [Row.get_set_ne r x y v hy, Row.get_set_ne r' x y v hy]; exact h y

theorem RowsEquiv.filter {X Y : Table} (h : RowsEquiv X Y) (p : Row → Bool)
    (hp : ∀ r r', Row.Equiv r r' → p r = p r') : RowsEquiv (X.filter p) (Y.filter p) := by
  induction X generalizing Y with
  | nil => cases Y with
    | nil => trivial
    | cons _ _ => exact absurd h (by simp [RowsEquiv])
  | cons x xs ih => cases Y with
    | nil => exact absurd h (by simp [RowsEquiv])
    | cons y ys =>
      have hxy := hp x y h.1
      simp only [List.filter_cons, hxy]
      cases p y
      · exact ih h.2
      · exact ⟨h.1, ih h.2⟩

theorem RowsEquiv.flatMap₂ {X Y : Table} (h : RowsEquiv X Y) (f : Row → Table)
    (hf : ∀ r r', Row.Equiv r r' → RowsEquiv (f r) (f r')) : RowsEquiv (X.flatMap f) (Y.flatMap f) := by
  induction X generalizing Y with
  | nil => cases Y with
    | nil => trivial
    | cons _ _ => exact absurd h (by simp [RowsEquiv])
  | cons x xs ih => cases Y with
    | nil => exact absurd h (by simp [RowsEquiv])
    | cons y ys =>
      simp only [List.flatMap_cons]
      exact RowsEquiv.append (hf x y h.1) (ih h.2)

theorem RowsEquiv.map_eq {X Y : Table} (h : RowsEquiv X Y) {β} (f : Row → β)
    (hf : ∀ r r', Row.Equiv r r' → f r = f r') : X.map f = Y.map f := by
  induction X generalizing Y with
  | nil => cases Y with
    | nil => rfl
    | cons _ _ => exact absurd h (by simp [RowsEquiv])
  | cons x xs ih => cases Y with
    | nil => exact absurd h (by simp [RowsEquiv])
    | cons y ys => simp only [List.map_cons, hf x y h.1, ih h.2]

/-- model table against reference table: same bag up to column order once the hidden column is erased -/
def HRelE (pa : String) (T' T : Table) : Prop := TableEquiv (T'.map (eraseCol pa)) T

theorem HRelE.filter (pa : String) (T' T : Table) (h : HRelE pa T' T) (e : Expr) (he : pa ∉ e.vars) :
    HRelE pa (T'.filter (evalBool A env · e)) (T.filter (evalBool A env · e)) := by
  obtain ⟨T'', hp, heq⟩ := h
  refine ⟨T''.filter (evalBool A env · e), ?_, heq.filter _ (fun r r' hr => by simp only [evalBool, eval_equiv A env r r' hr])⟩
  have : (T'.filter (evalBool A env · e)).map (eraseCol pa) =
      (T'.map (eraseCol pa)).filter (evalBool A env · e) := by
    rw [List.filter_map]
    congr 1
    apply List.filter_congr
    intro r _
    simp only [Function.comp, evalBool, eval_eraseCol A env pa r e he]
  rw [this]
  exact hp.filter _

theorem denoteUnwind_equiv (e : Expr) (x : String) (r r' : Row) (h : Row.Equiv r r') :
    RowsEquiv (Spec.denoteUnwind A env e x [r]) (Spec.denoteUnwind A env e x [r']) := by
  simp only [Spec.denoteUnwind, List.flatMap_cons, List.flatMap_nil, List.append_nil, eval_equiv A env r r' h]
  cases eval A env r' e with
  | list xs =>
    induction xs with
    | nil => trivial
    | cons y ys ih => exact ⟨h.set x _, ih⟩
  | null => trivial
  | bool b => exact ⟨h.set x _, trivial⟩
  | int i => exact ⟨h.set x _, trivial⟩
  | str s => exact ⟨h.set x _, trivial⟩
  | node n => exact ⟨h.set x _, trivial⟩
  | rel n => exact ⟨h.set x _, trivial⟩
  | path a b => exact ⟨h.set x _, trivial⟩

theorem HRelE.unwind (pa : String) (T' T : Table) (h : HRelE pa T' T) (e : Expr) (x : String) (he : pa ∉ e.vars)
    (hx : x ≠ pa) : HRelE pa (Spec.denoteUnwind A env e x T') (Spec.denoteUnwind A env e x T) := by
  obtain ⟨T'', hp, heq⟩ := h
  refine ⟨Spec.denoteUnwind A env e x T'', ?_, ?_⟩
  · rw [denoteUnwind_erase A env pa T' e x he hx]
    exact perm_flatMap_left _ hp
  · have hflat : ∀ X : Table, Spec.denoteUnwind A env e x X = X.flatMap fun r => Spec.denoteUnwind A env e x [r] := by
      intro X
      simp [Spec.denoteUnwind]
    rw [hflat T'', hflat T]
    exact heq.flatMap₂ _ (denoteUnwind_equiv A env e x)

theorem projOut_equiv (p : Proj) (r r' : Row) (h : Row.Equiv r r') : projOut A env p r = projOut A env p r' := by
  unfold projOut
  apply List.map_congr_left
  intro it _
  obtain ⟨ex, al⟩ := it
  cases ex with
  | plain e => simp only [Spec.itemVal, eval_equiv A env r r' h]
  | agg k a => cases k <;> simp [Spec.itemVal, eval_equiv A env r r' h]

/-- a projection brings `HRelE` back to the plain `HRel` -/
theorem HRelE.proj (pa : String) (T' T : Table) (h : HRelE pa T' T) (p : Proj) (s : List String) (hs : pa ∉ s)
    (hitems : p.items.all (fun it => match it.expr with | .plain e => Spec.exprOk s e | .agg _ a => Spec.exprOk s a) = true)
    (hplain : p.items.any Spec.isAgg = false) (hal : pa ∉ p.items.map (·.alias)) :
    HRel pa (T'.map (projOut A env p)) (T.map (projOut A env p)) := by
  obtain ⟨T'', hp, heq⟩ := h
  have h1 : HRel pa (T'.map (projOut A env p)) (T''.map (projOut A env p)) :=
    HRel.proj A env pa T' T'' hp p s hs hitems hplain hal
  rw [← heq.map_eq (projOut A env p) (projOut_equiv A env p)]
  exact h1

/-- the reference's core clauses respect `HRelE` -/
theorem denote_bag_congrE (pa : String) (q : Query) : ∀ (b : Bool) (s s' : List String) (T' T : Table),
    bagClauses b q = true → Spec.scopeAfter s q = some s' → pa ∉ s → pa ∉ introduced q → HRelE pa T' T →
    ∃ R' R, Spec.denoteClauses A env q T' = .ok R' ∧ Spec.denoteClauses A env q T = .ok R ∧
      R'.rows.Perm R.rows := by
  induction q with
  | nil => intro b s s' T' T hc; cases b <;> simp [bagClauses] at hc
  | cons c rest ih =>
    intro b s s' T' T hc hs hpa hin hrel
    cases c with
    | match_ o ps => cases b <;> simp [bagClauses] at hc
    | where_ e =>
      cases b with
      | false => simp [bagClauses] at hc
      | true =>
        have hc' : bagClauses true rest = true := by simpa [bagClauses] using hc
        simp only [Spec.scopeAfter] at hs
        split at hs
        · rename_i hok
          simp only [Spec.denoteClauses]
          exact ih true s s' _ _ hc' hs hpa (by simpa [introduced] using hin)
            (HRelE.filter A env pa T' T hrel e (not_mem_vars_of_exprOk s e pa hpa hok))
        · cases hs
    | unwind e x =>
      have hc' : bagClauses true rest = true := by cases b <;> simpa [bagClauses] using hc
      simp only [introduced, List.mem_cons, not_or] at hin
      simp only [Spec.scopeAfter] at hs
      split at hs
      · rename_i hok
        simp only [Bool.and_eq_true] at hok
        simp only [Spec.denoteClauses]
        refine ih true (s ++ [x]) s' _ _ hc' hs ?_ hin.2
          (HRelE.unwind A env pa T' T hrel e x (not_mem_vars_of_exprOk s e pa hpa hok.1) (fun h => hin.1 h.symm))
        simp only [List.mem_append, List.mem_singleton, not_or]
        exact ⟨hpa, hin.1⟩
      · cases hs
    | with_ p w =>
      cases w with
      | some w => cases b <;> simp [bagClauses] at hc
      | none =>
        have hc' : bagProj p = true ∧ bagClauses true rest = true := by
          cases b <;> simpa [bagClauses] using hc
        simp only [introduced, List.mem_append, not_or] at hin
        simp only [Spec.scopeAfter] at hs
        split at hs
        · rename_i hok
          have hb := hc'.1
          unfold bagProj coreProj at hb
          simp only [Bool.and_eq_true, Bool.not_eq_true', List.isEmpty_iff, Option.isNone_iff_eq_none] at hb
          unfold Spec.projOk at hok
          simp only [Bool.and_eq_true] at hok
          obtain ⟨⟨⟨⟨_, _⟩, hitems⟩, _⟩, _⟩ := hok
          simp only [Spec.denoteClauses, denoteProj_bag A env p _ hc'.1, bind, Except.bind]
          exact denote_bag_congr A env pa rest true _ s' _ _ hc'.2 hs hin.1 hin.2
            (HRelE.proj A env pa T' T hrel p s hpa hitems hb.1.1.1.1 hin.1)
        · cases hs
    | return_ p =>
      have hc' : bagProj p = true ∧ rest = [] := by
        cases rest with
        | nil => cases b <;> simpa [bagClauses] using hc
        | cons c' r' => cases b <;> simp [bagClauses] at hc
      obtain ⟨hcp, rfl⟩ := hc'
      simp only [introduced, List.append_nil] at hin
      simp only [Spec.scopeAfter, List.isEmpty_nil, Bool.and_true] at hs
      split at hs
      · rename_i hok
        have hb := hcp
        unfold bagProj coreProj at hb
        simp only [Bool.and_eq_true, Bool.not_eq_true', List.isEmpty_iff, Option.isNone_iff_eq_none] at hb
        unfold Spec.projOk at hok
        simp only [Bool.and_eq_true] at hok
        obtain ⟨⟨⟨⟨_, _⟩, hitems⟩, _⟩, _⟩ := hok
        have hr := HRelE.proj A env pa T' T hrel p s hpa hitems hb.1.1.1.1 hin
        have hord : p.orderBy = [] := hb.1.1.1.2
        refine ⟨.bag (T'.map (projOut A env p)), .bag (T.map (projOut A env p)), ?_, ?_, ?_⟩
        · simp [Spec.denoteClauses, denoteProj_bag A env p _ hcp, bind, Except.bind, pure, Except.pure, hord]
        · simp [Spec.denoteClauses, denoteProj_bag A env p _ hcp, bind, Except.bind, pure, Except.pure, hord]
        · show (T'.map (projOut A env p)).Perm (T.map (projOut A env p))
          unfold HRel at hr
          have hid : (T'.map (projOut A env p)).map (eraseCol pa) = T'.map (projOut A env p) := by
            rw [List.map_map]
            apply List.map_congr_left
            intro r _
            apply eraseCol_of_not_mem
            simpa [projOut, Row.cols, List.map_map, Function.comp_def] using hin
          rw [hid] at hr
          exact hr
      · cases hs

end Nervus.Cy
