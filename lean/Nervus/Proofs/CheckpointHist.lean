/-
  Proofs/CheckpointHist.lean — histories with transactions, compactions, close and reopen (C04 with
  compactions): the engine `s` that runs the whole history and the shadow engine `u` that runs only
  its transactions stay read-equivalent; `u` refines the Spec graph; `s` keeps the recovery invariant.
-/
import Nervus.Proofs.CheckpointRec
namespace Nervus.Storage
open Nervus.GraphSpec (Graph TxOp Op txWF wfFrom anyCommitted txDeletesRelWithProps
  txLabelReAdd txEdgeAndEndpointDelete txExtZero)

/-! ### what staging never touches -/

structure SFrame (s s' : Engine) : Prop where
  idmap : s'.idmap = s.idmap
  segs : s'.segs = s.segs
  segStore : s'.segStore = s.segStore
  nextSegId : s'.nextSegId = s.nextSegId

theorem SFrame.refl (s : Engine) : SFrame s s := ⟨rfl, rfl, rfl, rfl⟩
theorem SFrame.trans {a b c : Engine} (h1 : SFrame a b) (h2 : SFrame b c) : SFrame a c :=
  ⟨h2.idmap.trans h1.idmap, h2.segs.trans h1.segs, h2.segStore.trans h1.segStore, h2.nextSegId.trans h1.nextSegId⟩

theorem gocl_sframe (s : Engine) (l : Nat) : SFrame s (s.getOrCreateLabel l).1 := by
  unfold Engine.getOrCreateLabel; split <;> exact ⟨rfl, rfl, rfl, rfl⟩

theorem stepTx_sframe (c : Cfg) (st : Engine × Txn) (op : TxOp) : SFrame st.1 (stepTx c st op).1 := by
  cases op with
  | node x lab =>
    have hi : SFrame st.1 (internLabel st.1 lab).1 := by
      cases lab with
      | none => exact SFrame.refl _
      | some l => exact gocl_sframe st.1 l
    simp only [stepTx]
    split <;> exact hi
  | labelAdd n nm => exact gocl_sframe st.1 nm
  | labelDel n nm => exact gocl_sframe st.1 nm
  | edge a nm b => exact gocl_sframe st.1 nm
  | tombNode n => exact SFrame.refl _
  | tombEdge a nm b => exact gocl_sframe st.1 nm
  | nprop n k v => exact SFrame.refl _
  | npropDel n k => exact SFrame.refl _
  | eprop a nm b k v => exact gocl_sframe st.1 nm
  | epropDel a nm b k => exact gocl_sframe st.1 nm
  | vec n v =>
    show SFrame st.1 (st.2.setVector c st.1 n v).1
    unfold Txn.setVector
    split <;> exact ⟨rfl, rfl, rfl, rfl⟩

theorem fold_sframe (c : Cfg) (ops : List TxOp) : ∀ st : Engine × Txn, SFrame st.1 (ops.foldl (stepTx c) st).1 := by
  induction ops with
  | nil => intro st; exact SFrame.refl _
  | cons op ops ih => intro st; exact (stepTx_sframe c st op).trans (ih _)

/-! ### transactions without label operations -/

def isLabelOp : TxOp → Bool
  | .labelAdd _ _ => true
  | .labelDel _ _ => true
  | _ => false

def txNoLabelOps (ops : List TxOp) : Bool := ops.all (fun o => !isLabelOp o)

theorem createNode_labels (s : Engine) (t : Txn) (x l : Nat) (r : Txn × Nat) (h : t.createNode s x l = some r) :
    r.1.addL = t.addL ∧ r.1.delL = t.delL := by
  unfold Txn.createNode at h
  split at h
  · cases h
  · split at h
    · cases h
    · cases h; exact ⟨rfl, rfl⟩

theorem stepTx_noLabel (c : Cfg) (st : Engine × Txn) (op : TxOp) (h : isLabelOp op = false) :
    (stepTx c st op).2.addL = st.2.addL ∧ (stepTx c st op).2.delL = st.2.delL := by
  cases op with
  | node x lab =>
    simp only [stepTx]
    split
    · rename_i r hr; exact createNode_labels _ _ _ _ _ hr
    · exact ⟨rfl, rfl⟩
  | labelAdd n nm => cases h
  | labelDel n nm => cases h
  | vec n v =>
    show (st.2.setVector c st.1 n v).2.addL = _ ∧ (st.2.setVector c st.1 n v).2.delL = _
    unfold Txn.setVector; split <;> exact ⟨rfl, rfl⟩
  | _ => exact ⟨rfl, rfl⟩

theorem fold_noLabel (c : Cfg) (ops : List TxOp) (h : txNoLabelOps ops = true) : ∀ st : Engine × Txn,
    (ops.foldl (stepTx c) st).2.addL = st.2.addL ∧ (ops.foldl (stepTx c) st).2.delL = st.2.delL := by
  induction ops with
  | nil => intro st; exact ⟨rfl, rfl⟩
  | cons op ops ih =>
    intro st
    simp only [txNoLabelOps, List.all_cons, Bool.and_eq_true, Bool.not_eq_true'] at h
    obtain ⟨h1, h2⟩ := stepTx_noLabel c st op h.1
    obtain ⟨h3, h4⟩ := ih h.2 (stepTx c st op)
    exact ⟨h3.trans h1, h4.trans h2⟩

/-! ### the pair invariant -/

structure Pair (s u : Engine) (g : Graph) : Prop where
  eqv : Eqv Cfg.current s u
  sim : Sim u g
  recv : Rec s
  quiet : Quiet s
  segs : SegsOK s
  base : LabelsBase s.idmap
  root : RootOK s

theorem Pair.empty : Pair {} {} {} :=
  ⟨Eqv.refl _ _, Sim.empty, Rec.empty, Quiet.empty, ⟨rfl, (fun g h => nomatch h), List.nodup_nil⟩, rfl, RootOK.empty'⟩

/-- a committed transaction without label operations -/
theorem Pair.commit {s u : Engine} {g : Graph} (h : Pair s u g) (ops : List TxOp)
    (hwf : txWF g ops = true) (hb : u.interner.length + ops.length ≤ labelMax)
    (hz : txExtZero ops = false) (hra : txLabelReAdd ops = false) (hed : txEdgeAndEndpointDelete ops = false)
    (hrp : txDeletesRelWithProps g ops = false) (hnl : txNoLabelOps ops = true)
    (hclear : removalsClear (runTx Cfg.current s ops true) = true) :
    Pair (runTx Cfg.current s ops true) (runTx Cfg.current u ops true) (g.apply ops) := by
  have hu0 : u.propsRoot = 0 := h.sim.G.root
  obtain ⟨hE', _⟩ := tx_eqv Cfg.current h.eqv hu0 ops true hclear
  have hS' := tx_commit Cfg.current h.sim ops hwf hb hz hra hed hrp
  obtain ⟨k1, k2, k3, k4, k5, k6⟩ := stage_facts h.sim ops hwf hb hz hra hed hrp
  obtain ⟨_, _, _, hm, _, ht⟩ := fold_cor Cfg.current ops s.beginWrite u.beginWrite h.eqv.interner h.eqv.idmap h.eqv.vecs
    ⟨rfl, rfl, rfl, rfl, rfl⟩
  have hsf := fold_sframe Cfg.current ops s.beginWrite
  have hrs : Rec (ops.foldl (stepTx Cfg.current) s.beginWrite).1 := Rec.fold Cfg.current ops s.beginWrite h.recv.begin
  have hqs : Quiet (ops.foldl (stepTx Cfg.current) s.beginWrite).1 :=
    Quiet.fold Cfg.current ops s.beginWrite (h.quiet.congr rfl rfl rfl rfl)
  have hmt := fold_mtWF Cfg.current ops s.beginWrite MemTable.WF.empty
  have htxid : (ops.foldl (stepTx Cfg.current) s.beginWrite).2.txid = s.nextTxid := fold_txid Cfg.current ops s.beginWrite
  have hfr := fold_frame2 Cfg.current ops s.beginWrite
  obtain ⟨hadd, hdel⟩ := fold_noLabel Cfg.current ops hnl s.beginWrite
  have hadd' : (ops.foldl (stepTx Cfg.current) s.beginWrite).2.addL = [] := hadd
  have hdel' : (ops.foldl (stepTx Cfg.current) s.beginWrite).2.delL = [] := hdel
  generalize hst : ops.foldl (stepTx Cfg.current) s.beginWrite = st at *
  generalize hsu : ops.foldl (stepTx Cfg.current) u.beginWrite = su at *
  have hfresh : ∀ c ∈ st.2.created, st.1.idmap.lookup c.1 = none := by
    intro c hc; rw [hm.lookup c.1]; exact k2 c (by rw [← ht.created]; exact hc)
  have hnd : (st.2.created.map (·.1)).Nodup := by rw [ht.created]; exact k3
  have hcommit := Rec.commit hrs hmt (by rw [htxid, hfr.1]; exact h.recv.ckptLt) (by rw [htxid]; exact hfr.2)
    (by intro i c hc; rw [hm.i2e]; exact k1 i c (by rw [← ht.created]; exact hc))
    hfresh hnd (by rw [hm.i2l, hm.i2e]; exact k4)
    (by intro p hp; rw [hadd'] at hp; cases hp)
    (by intro p hp; rw [hdel'] at hp; cases hp)
  have hq' := Quiet.commit hqs hmt hfresh hnd hadd' hdel'
  have hrun : runTx Cfg.current s ops true = committed Cfg.current st.1 st.2 (idmapAfter st.1.idmap st.2) := by
    unfold runTx
    simp only [if_true]
    rw [hst, commit_ok_eq Cfg.current _ _ _ hcommit.1]
  refine ⟨hE', hS', by rw [hrun]; exact hcommit.2, by rw [hrun]; exact hq', ?_, ?_,
    runTx_rootOK Cfg.current h.root ops true⟩
  · rw [hrun]
    have hbs : SFrame s st.1 := SFrame.trans (b := s.beginWrite.1) ⟨rfl, rfl, rfl, rfl⟩ hsf
    exact ⟨by show st.1.segStore = st.1.segs; rw [hbs.segStore, hbs.segs]; exact h.segs.store,
      by intro g' hg'; show g'.id < st.1.nextSegId; rw [hbs.nextSegId]; exact h.segs.lt g' (by
        have : g' ∈ st.1.segs := hg'
        rw [hbs.segs] at this; exact this),
      by show (st.1.segs.map (·.id)).Nodup; rw [hbs.segs]; exact h.segs.nodup⟩
  · rw [hrun]
    show LabelsBase (idmapAfter st.1.idmap st.2)
    have hbs : SFrame s st.1 := SFrame.trans (b := s.beginWrite.1) ⟨rfl, rfl, rfl, rfl⟩ hsf
    exact LabelsBase.after (by rw [hbs.idmap]; exact h.base) st.2 hadd' hdel'

/-- a dropped transaction -/
theorem Pair.abort {s u : Engine} {g : Graph} (h : Pair s u g) (ops : List TxOp)
    (hb : u.interner.length + ops.length ≤ labelMax)
    (hclear : removalsClear (runTx Cfg.current s ops false) = true) :
    Pair (runTx Cfg.current s ops false) (runTx Cfg.current u ops false) g := by
  have hu0 : u.propsRoot = 0 := h.sim.G.root
  obtain ⟨hE', _⟩ := tx_eqv Cfg.current h.eqv hu0 ops false hclear
  have hsf : SFrame s (runTx Cfg.current s ops false) :=
    SFrame.trans (b := s.beginWrite.1) ⟨rfl, rfl, rfl, rfl⟩ (fold_sframe Cfg.current ops s.beginWrite)
  refine ⟨hE', tx_abort Cfg.current h.sim ops hb, tx_abort_rec Cfg.current h.recv ops,
    Quiet.fold Cfg.current ops s.beginWrite (h.quiet.congr rfl rfl rfl rfl), ?_, ?_,
    runTx_rootOK Cfg.current h.root ops false⟩
  · exact ⟨by rw [hsf.segStore, hsf.segs]; exact h.segs.store,
      by intro g' hg'; rw [hsf.nextSegId]; exact h.segs.lt g' (by rw [hsf.segs] at hg'; exact hg'),
      by rw [hsf.segs]; exact h.segs.nodup⟩
  · show LabelsBase (runTx Cfg.current s ops false).idmap
    rw [hsf.idmap]; exact h.base

/-- a compaction from a safe state -/
theorem Pair.compact {s u : Engine} {g : Graph} (h : Pair s u g)
    (hs : compactSafe Cfg.current s = true) : Pair (s.compact Cfg.current) u g := by
  obtain ⟨hR, hQ⟩ := Rec.compact Cfg.current h.recv h.quiet h.base
  refine ⟨compact_eqv Cfg.current (by decide) (by decide) (by decide) h.eqv h.root hs, h.sim, hR, hQ,
    h.segs.compact Cfg.current, ?_, h.root.compact Cfg.current (by decide)⟩
  have : (s.compact Cfg.current).idmap = s.idmap := by unfold Engine.compact; split <;> rfl
  rw [this]; exact h.base

/-- reopening an engine that satisfies the `s`-side invariants -/
theorem reopen_pair {s0 s u : Engine} {g : Graph} (h : Pair s u g)
    (hR : Rec s0) (hQ : Quiet s0) (hK : SegsOK s0)
    (e1 : s0.idmap = s.idmap) (e2 : s0.segs = s.segs) (e3 : s0.store = s.store) (e4 : s0.propsRoot = s.propsRoot)
    (e5 : s0.interner = s.interner) (e6 : s0.vecs = s.vecs) (e7 : s0.runs = s.runs)
    (e8 : s0.storeRoot = s.storeRoot) :
    ∃ s', s0.reopen = .ok s' ∧ Pair s' u g := by
  have hload : ∀ x, (IdMap.load s0.idmap.i2e).lookup x = s0.idmap.lookup x := by
    intro x
    rw [e1, h.eqv.idmap.i2e, h.eqv.idmap.lookup x]
    exact load_lookup_eq h.sim.L x
  obtain ⟨s', hopen, r1, r2, r3, r4, r5, r6, _, r8, r9, rid, rE, rR, rlt, rsr⟩ := reopen_rec hR hK.find hload
  have hid : IdEq s'.idmap s.idmap := by
    rw [rid, ← e1]
    exact ⟨rfl, rfl, hload⟩
  have hE : Eqv Cfg.current s' s :=
    eqv_runsEq Cfg.current (by rw [← e7]; exact rE) (by rw [r1, e2]) (by rw [r3, e3]) (by rw [r4, e4])
      (by rw [rsr, e8]) hid
      (by rw [r5, e5]) (by rw [r6, e6])
  refine ⟨s', hopen, hE.trans h.eqv, h.sim, rR, ?_, ?_, ?_,
    ⟨by rw [r4, e4, rsr, e8]; exact h.root.eq, fun h0 => by rw [r3, e3]; exact h.root.empty (by rw [← e4, ← r4]; exact h0)⟩⟩
  · obtain ⟨txs, hb, hq⟩ := hQ.inv
    refine ⟨⟨txs, by rw [r9]; exact hb, ?_⟩⟩
    intro tx htx
    rcases hq tx htx with q1 | ⟨r, hr, hre⟩ | q3
    · exact Or.inl (by rw [r8]; exact q1)
    · obtain ⟨r', hr', he'⟩ := rE.symm.txid_mem r hr
      exact Or.inr (Or.inl ⟨r', hr', by rw [← he']; exact hre⟩)
    · refine Or.inr (Or.inr ?_)
      intro k m acc hc
      apply q3 k m acc
      intro x iid hx
      apply hc
      rw [rid]
      show (IdMap.load s0.idmap.i2e).lookup x = some iid
      rw [hload x]; exact hx
  · exact ⟨by rw [r2, r1]; exact hK.store, rlt, by rw [r1]; exact hK.nodup⟩
  · show s'.idmap.i2l = s'.idmap.i2e.map (fun r => [r.label])
    rw [rid]
    show s0.idmap.i2l = s0.idmap.i2e.map (fun r => [r.label])
    rw [e1]; exact h.base

theorem Pair.reopen {s u : Engine} {g : Graph} (h : Pair s u g) : ∃ s', s.reopen = .ok s' ∧ Pair s' u g :=
  reopen_pair h h.recv h.quiet h.segs rfl rfl rfl rfl rfl rfl rfl rfl

theorem Pair.close {s u : Engine} {g : Graph} (h : Pair s u g) :
    ∃ s', s.checkpointOnClose.reopen = .ok s' ∧ Pair s' u g := by
  cases he : s.runs with
  | cons r rs =>
    have : s.checkpointOnClose = s := by
      unfold Engine.checkpointOnClose; rw [he]; rfl
    rw [this]; exact h.reopen
  | nil =>
    have hn : s.interner.Nodup := by rw [h.eqv.interner]; exact h.sim.G.nodup
    obtain ⟨hR, hQ⟩ := close_rec h.recv h.base hn he
    rw [← closedView_reopen]
    have hemp : (!s.runs.isEmpty) = false := by rw [he]; rfl
    have hf : (closedView s).idmap = s.idmap ∧ (closedView s).segs = s.segs ∧ (closedView s).store = s.store ∧
        (closedView s).propsRoot = s.propsRoot ∧ (closedView s).interner = s.interner ∧
        (closedView s).vecs = s.vecs ∧ (closedView s).runs = s.runs ∧ (closedView s).segStore = s.segStore ∧
        (closedView s).nextSegId = s.nextSegId ∧ (closedView s).storeRoot = s.storeRoot := by
      unfold closedView Engine.checkpointOnClose
      rw [hemp]
      exact ⟨rfl, rfl, rfl, rfl, rfl, rfl, rfl, rfl, rfl, rfl⟩
    obtain ⟨f1, f2, f3, f4, f5, f6, f7, f8, f9, f10⟩ := hf
    exact reopen_pair h hR hQ
      ⟨by rw [f8, f2]; exact h.segs.store, by rw [f2, f9]; exact h.segs.lt, by rw [f2]; exact h.segs.nodup⟩
      f1 f2 f3 f4 f5 f6 f7 f10

/-! ### histories -/

/-- the decidable side conditions of the checkpoint theorem (they run the model): transactions hold no
    label operations and leave no removal over a store value; every compaction starts from a
    `compactSafe` state; every reopen / close succeeds -/
def ckptHistSafe (c : Cfg) : Engine → List Op → Bool
  | _, [] => true
  | s, .tx ops b :: h => txNoLabelOps ops && removalsClear (runTx c s ops b) && ckptHistSafe c (runTx c s ops b) h
  | s, .compact :: h => compactSafe c s && ckptHistSafe c (s.compact c) h
  | s, .reopen :: h => match s.reopen with
    | .ok s' => ckptHistSafe c s' h
    | .error _ => false
  | s, .close :: h => match s.checkpointOnClose.reopen with
    | .ok s' => ckptHistSafe c s' h
    | .error _ => false

def isTxOp : Op → Bool
  | .tx _ _ => true
  | _ => false

/-- the transactions of a history (what the shadow engine runs) -/
def txPart (h : List Op) : List Op := h.filter isTxOp

theorem hist_pair : ∀ (h : List Op) (s u : Engine) (g : Graph), Pair s u g →
    ckptHistSafe Cfg.current s h = true → wfFrom g h = true → u.interner.length + histSize h ≤ labelMax →
    anyCommitted txDeletesRelWithProps g h = false →
    anyCommitted (fun _ => txLabelReAdd) g h = false →
    anyCommitted (fun _ => txEdgeAndEndpointDelete) g h = false →
    anyCommitted (fun _ => txExtZero) g h = false →
    ∃ s' u', h.foldlM (runOp Cfg.current) s = .ok s' ∧ (txPart h).foldlM (runOp Cfg.current) u = .ok u' ∧
      Pair s' u' (h.foldl Graph.opStep g) := by
  intro h
  induction h with
  | nil => intro s u g hP _ _ _ _ _ _ _; exact ⟨s, u, rfl, rfl, hP⟩
  | cons op h ih =>
    intro s u g hP hs hwf hb t1 t2 t3 t4
    cases op with
    | tx ops b =>
      simp only [ckptHistSafe, Bool.and_eq_true] at hs
      simp only [wfFrom, Bool.and_eq_true] at hwf
      simp only [histSize] at hb
      have hlen := runTx_interner_le Cfg.current u hP.sim.G.nodup ops b
      have htp : txPart (Op.tx ops b :: h) = Op.tx ops b :: txPart h := by
        unfold txPart; rw [List.filter_cons_of_pos (by rfl)]
      cases b with
      | true =>
        simp only [anyCommitted, Bool.or_eq_false_iff] at t1 t2 t3 t4
        have hP' := hP.commit ops hwf.1 (by omega) t4.1 t2.1 t3.1 t1.1 hs.1.1 hs.1.2
        obtain ⟨s', u', h1, h2, h3⟩ := ih _ _ _ hP' hs.2 hwf.2 (by omega) t1.2 t2.2 t3.2 t4.2
        exact ⟨s', u', by rw [List.foldlM_cons]; exact h1, by rw [htp, List.foldlM_cons]; exact h2, h3⟩
      | false =>
        simp only [anyCommitted] at t1 t2 t3 t4
        have hP' := hP.abort ops (by omega) hs.1.2
        obtain ⟨s', u', h1, h2, h3⟩ := ih _ _ _ hP' hs.2 hwf.2 (by omega) t1 t2 t3 t4
        exact ⟨s', u', by rw [List.foldlM_cons]; exact h1, by rw [htp, List.foldlM_cons]; exact h2, h3⟩
    | compact =>
      simp only [ckptHistSafe, Bool.and_eq_true] at hs
      simp only [wfFrom] at hwf
      simp only [histSize] at hb
      simp only [anyCommitted] at t1 t2 t3 t4
      have hP' := hP.compact hs.1
      obtain ⟨s', u', h1, h2, h3⟩ := ih _ _ _ hP' hs.2 hwf hb t1 t2 t3 t4
      refine ⟨s', u', by rw [List.foldlM_cons]; exact h1, ?_, h3⟩
      show ((Op.compact :: h).filter isTxOp).foldlM (runOp Cfg.current) u = _
      rw [List.filter_cons_of_neg (by simp [isTxOp])]; exact h2
    | reopen =>
      obtain ⟨s1, hopen, hP'⟩ := hP.reopen
      simp only [ckptHistSafe, hopen] at hs
      simp only [wfFrom] at hwf
      simp only [histSize] at hb
      simp only [anyCommitted] at t1 t2 t3 t4
      obtain ⟨s', u', h1, h2, h3⟩ := ih _ _ _ hP' hs hwf hb t1 t2 t3 t4
      refine ⟨s', u', ?_, ?_, h3⟩
      · rw [List.foldlM_cons]
        show (s.reopen >>= fun s' => h.foldlM (runOp Cfg.current) s') = _
        rw [hopen]; exact h1
      · show ((Op.reopen :: h).filter isTxOp).foldlM (runOp Cfg.current) u = _
        rw [List.filter_cons_of_neg (by simp [isTxOp])]; exact h2
    | close =>
      obtain ⟨s1, hopen, hP'⟩ := hP.close
      simp only [ckptHistSafe, hopen] at hs
      simp only [wfFrom] at hwf
      simp only [histSize] at hb
      simp only [anyCommitted] at t1 t2 t3 t4
      obtain ⟨s', u', h1, h2, h3⟩ := ih _ _ _ hP' hs hwf hb t1 t2 t3 t4
      refine ⟨s', u', ?_, ?_, h3⟩
      · rw [List.foldlM_cons]
        show (s.checkpointOnClose.reopen >>= fun s' => h.foldlM (runOp Cfg.current) s') = _
        rw [hopen]; exact h1
      · show ((Op.close :: h).filter isTxOp).foldlM (runOp Cfg.current) u = _
        rw [List.filter_cons_of_neg (by simp [isTxOp])]; exact h2

/-! ### failed commits (C07): BeginTx and some records stay in the log, without a CommitTx -/

/-- a log fragment of a failed commit changes none of the invariants: replay drops it -/
theorem Pair.walFragment {a u : Engine} {g : Graph} (h : Pair a u g) (t : Nat) (recs : List WalRec)
    (hb : ∀ r ∈ recs, r.isBody = true) (j : Nat) :
    Pair { a with wal := a.wal ++ (WalRec.beginTx t :: recs).take j } u g := by
  refine ⟨h.eqv.congr ⟨rfl, rfl, rfl, rfl, rfl⟩ ⟨rfl, rfl, rfl, rfl, rfl⟩ h.eqv.idmap h.eqv.interner h.eqv.vecs,
    h.sim, ?_, ?_, ⟨h.segs.store, h.segs.lt, h.segs.nodup⟩, h.base, ⟨h.root.eq, h.root.empty⟩⟩
  · obtain ⟨⟨txs, hbk, hl, hs, hg, b1, b2, b3⟩, hp, ha⟩ := h.recv
    exact ⟨⟨txs, hbk.appendFragment t recs hb j, hl, hs, hg, b1, b2, b3⟩, hp, ha⟩
  · obtain ⟨txs, hbk, hq⟩ := h.quiet.inv
    exact ⟨⟨txs, hbk.appendFragment t recs hb j, hq⟩⟩

/-- a transaction whose commit fails at its `j`-th log append -/
theorem Pair.txFail {s u : Engine} {g : Graph} (h : Pair s u g) (ops : List TxOp) (j : Nat)
    (hb : u.interner.length + ops.length ≤ labelMax)
    (hclear : removalsClear (runTx Cfg.current s ops false) = true) :
    Pair (runTxFail Cfg.current s ops j) (runTx Cfg.current u ops false) g := by
  have h0 := h.abort ops hb hclear
  have hgr := graphRecords_isGraph (ops.foldl (stepTx Cfg.current) s.beginWrite).2
    ((ops.foldl (stepTx Cfg.current) s.beginWrite).2.mt.freeze (ops.foldl (stepTx Cfg.current) s.beginWrite).2.txid)
  exact h0.walFragment _ _ (fun r hr => (isGraph_body r (hgr r hr)).1) j

/-- the decidable side conditions for histories with failed commits (as `ckptHistSafe`) -/
def xHistSafe (c : Cfg) : Engine → List XOp → Bool
  | _, [] => true
  | s, .op (.tx ops b) :: h => txNoLabelOps ops && removalsClear (runTx c s ops b) && xHistSafe c (runTx c s ops b) h
  | s, .txFail ops j :: h =>
    txNoLabelOps ops && removalsClear (runTx c s ops false) && xHistSafe c (runTxFail c s ops j) h
  | s, .op .compact :: h => compactSafe c s && xHistSafe c (s.compact c) h
  | s, .op .reopen :: h => match s.reopen with
    | .ok s' => xHistSafe c s' h
    | .error _ => false
  | s, .op .close :: h => match s.checkpointOnClose.reopen with
    | .ok s' => xHistSafe c s' h
    | .error _ => false

theorem hist_pairX : ∀ (xs : List XOp) (s u : Engine) (g : Graph), Pair s u g →
    xHistSafe Cfg.current s xs = true → wfFrom g (xs.map XOp.erase) = true →
    u.interner.length + histSize (xs.map XOp.erase) ≤ labelMax →
    anyCommitted txDeletesRelWithProps g (xs.map XOp.erase) = false →
    anyCommitted (fun _ => txLabelReAdd) g (xs.map XOp.erase) = false →
    anyCommitted (fun _ => txEdgeAndEndpointDelete) g (xs.map XOp.erase) = false →
    anyCommitted (fun _ => txExtZero) g (xs.map XOp.erase) = false →
    ∃ s' u', xs.foldlM (runX Cfg.current) s = .ok s' ∧
      (txPart (xs.map XOp.erase)).foldlM (runOp Cfg.current) u = .ok u' ∧
      Pair s' u' ((xs.map XOp.erase).foldl Graph.opStep g) := by
  intro xs
  induction xs with
  | nil => intro s u g hP _ _ _ _ _ _ _; exact ⟨s, u, rfl, rfl, hP⟩
  | cons x xs ih =>
    intro s u g hP hs hwf hb t1 t2 t3 t4
    rw [List.map_cons] at hwf hb t1 t2 t3 t4 ⊢
    cases x with
    | txFail ops j =>
      simp only [xHistSafe, Bool.and_eq_true] at hs
      simp only [XOp.erase, wfFrom, Bool.and_eq_true] at hwf
      simp only [XOp.erase, histSize] at hb
      simp only [XOp.erase, anyCommitted] at t1 t2 t3 t4
      have hlen := runTx_interner_le Cfg.current u hP.sim.G.nodup ops false
      have hP' := hP.txFail ops j (by omega) hs.1.2
      obtain ⟨s', u', h1, h2, h3⟩ := ih _ _ _ hP' hs.2 hwf.2 (by omega) t1 t2 t3 t4
      refine ⟨s', u', by rw [List.foldlM_cons]; exact h1, ?_, h3⟩
      show (txPart (Op.tx ops false :: xs.map XOp.erase)).foldlM (runOp Cfg.current) u = _
      unfold txPart; rw [List.filter_cons_of_pos (by rfl), List.foldlM_cons]; exact h2
    | op o =>
    cases o with
    | tx ops b =>
      simp only [xHistSafe, Bool.and_eq_true] at hs
      simp only [XOp.erase, wfFrom, Bool.and_eq_true] at hwf
      simp only [XOp.erase, histSize] at hb
      have hlen := runTx_interner_le Cfg.current u hP.sim.G.nodup ops b
      have htp : txPart (Op.tx ops b :: xs.map XOp.erase) = Op.tx ops b :: txPart (xs.map XOp.erase) := by
        unfold txPart; rw [List.filter_cons_of_pos (by rfl)]
      cases b with
      | true =>
        simp only [XOp.erase, anyCommitted, Bool.or_eq_false_iff] at t1 t2 t3 t4
        have hP' := hP.commit ops hwf.1 (by omega) t4.1 t2.1 t3.1 t1.1 hs.1.1 hs.1.2
        obtain ⟨s', u', h1, h2, h3⟩ := ih _ _ _ hP' hs.2 hwf.2 (by omega) t1.2 t2.2 t3.2 t4.2
        exact ⟨s', u', by rw [List.foldlM_cons]; exact h1, by
          show (txPart (Op.tx ops true :: xs.map XOp.erase)).foldlM (runOp Cfg.current) u = _
          rw [htp, List.foldlM_cons]; exact h2, h3⟩
      | false =>
        simp only [XOp.erase, anyCommitted] at t1 t2 t3 t4
        have hP' := hP.abort ops (by omega) hs.1.2
        obtain ⟨s', u', h1, h2, h3⟩ := ih _ _ _ hP' hs.2 hwf.2 (by omega) t1 t2 t3 t4
        exact ⟨s', u', by rw [List.foldlM_cons]; exact h1, by
          show (txPart (Op.tx ops false :: xs.map XOp.erase)).foldlM (runOp Cfg.current) u = _
          rw [htp, List.foldlM_cons]; exact h2, h3⟩
    | compact =>
      simp only [xHistSafe, Bool.and_eq_true] at hs
      simp only [XOp.erase, wfFrom] at hwf
      simp only [XOp.erase, histSize] at hb
      simp only [XOp.erase, anyCommitted] at t1 t2 t3 t4
      have hP' := hP.compact hs.1
      obtain ⟨s', u', h1, h2, h3⟩ := ih _ _ _ hP' hs.2 hwf hb t1 t2 t3 t4
      refine ⟨s', u', by rw [List.foldlM_cons]; exact h1, ?_, h3⟩
      show ((Op.compact :: xs.map XOp.erase).filter isTxOp).foldlM (runOp Cfg.current) u = _
      rw [List.filter_cons_of_neg (by simp [isTxOp])]; exact h2
    | reopen =>
      obtain ⟨s1, hopen, hP'⟩ := hP.reopen
      simp only [xHistSafe, hopen] at hs
      simp only [XOp.erase, wfFrom] at hwf
      simp only [XOp.erase, histSize] at hb
      simp only [XOp.erase, anyCommitted] at t1 t2 t3 t4
      obtain ⟨s', u', h1, h2, h3⟩ := ih _ _ _ hP' hs hwf hb t1 t2 t3 t4
      refine ⟨s', u', ?_, ?_, h3⟩
      · rw [List.foldlM_cons]
        show (s.reopen >>= fun s' => xs.foldlM (runX Cfg.current) s') = _
        rw [hopen]; exact h1
      · show ((Op.reopen :: xs.map XOp.erase).filter isTxOp).foldlM (runOp Cfg.current) u = _
        rw [List.filter_cons_of_neg (by simp [isTxOp])]; exact h2
    | close =>
      obtain ⟨s1, hopen, hP'⟩ := hP.close
      simp only [xHistSafe, hopen] at hs
      simp only [XOp.erase, wfFrom] at hwf
      simp only [XOp.erase, histSize] at hb
      simp only [XOp.erase, anyCommitted] at t1 t2 t3 t4
      obtain ⟨s', u', h1, h2, h3⟩ := ih _ _ _ hP' hs hwf hb t1 t2 t3 t4
      refine ⟨s', u', ?_, ?_, h3⟩
      · rw [List.foldlM_cons]
        show (s.checkpointOnClose.reopen >>= fun s' => xs.foldlM (runX Cfg.current) s') = _
        rw [hopen]; exact h1
      · show ((Op.close :: xs.map XOp.erase).filter isTxOp).foldlM (runOp Cfg.current) u = _
        rw [List.filter_cons_of_neg (by simp [isTxOp])]; exact h2

end Nervus.Storage
