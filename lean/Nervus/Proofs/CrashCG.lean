/-
  Proofs.CrashCG — the class of page-file images during the page phase of a compaction: node
  table, catalog, the segments of the durable manifest and its live property tree are as they were
  (the live tree may have grown by sorted in-place leaf rewrites), everything new has a page id
  that was allocated — and whose allocation was synced — after the compaction started.
-/
import Nervus.Proofs.CrashImgL
import Nervus.Proofs.CrashCommit
namespace Nervus.Crash

/-! ### lookups under the list operations of `applyEff` -/

theorem find?_map_congr {α : Type} (P : α → Bool) (f : α → α) :
    ∀ (l : List α), (∀ s ∈ l, P (f s) = P s ∧ (P s = true → f s = s)) → (l.map f).find? P = l.find? P
  | [], _ => rfl
  | x :: l, h => by
    have hx := h x (by simp)
    have ih := find?_map_congr P f l (fun s hs => h s (by simp [hs]))
    simp only [List.map_cons, List.find?_cons, hx.1]
    cases hp : P x with
    | true => simp [hx.2 hp]
    | false => simpa using ih

theorem flatMap_congr' {α β : Type} (f g : α → List β) : ∀ (l : List α), (∀ x ∈ l, f x = g x) → l.flatMap f = l.flatMap g
  | [], _ => rfl
  | x :: l, h => by
    simp only [List.flatMap_cons, h x (by simp), flatMap_congr' f g l (fun y hy => h y (by simp [hy]))]

theorem segFind_updSeg_ne (segs : List SegImg) (k j need : Nat) (es : List Nat) (k' : Nat) (hne : k' ≠ k) :
    (updSeg segs k j need es).find? (fun s => s.key == k' && s.complete) = segs.find? (fun s => s.key == k' && s.complete) := by
  unfold updSeg
  split
  · apply find?_map_congr
    intro s _
    by_cases hk : s.key = k
    · have h1 : (s.key == k') = false := by
        rw [hk]; exact beq_false_of_ne (fun h' => hne h'.symm)
      have h2 : ((if (s.key == k) = true then { s with got := j :: s.got } else s).key == k') = false := by
        simp only [hk, beq_self_eq_true, if_true]
        exact beq_false_of_ne (fun h' => hne h'.symm)
      simp only [h1, h2, Bool.false_and]
      exact ⟨trivial, fun h' => absurd h' (by simp)⟩
    · have hkb : (s.key == k) = false := beq_false_of_ne hk
      simp [hkb]
  · have : (k == k') = false := beq_false_of_ne (fun h' => hne h'.symm)
    simp [List.find?_cons, this]

theorem keys_updSeg (segs : List SegImg) (k j need : Nat) (es : List Nat) (B : Nat) (hk : k < B)
    (h : ∀ s ∈ segs, s.key < B) : ∀ s ∈ updSeg segs k j need es, s.key < B := by
  unfold updSeg
  split
  · intro s hs
    obtain ⟨s0, hs0, rfl⟩ := List.mem_map.mp hs
    by_cases hk0 : s0.key = k <;> simp [hk0] <;> first | exact hk | exact h s0 hs0
  · intro s hs
    rcases List.mem_cons.mp hs with rfl | hs
    · exact hk
    · exact h s hs

theorem keys_updTree (trees : List TreeImg) (k : Nat) (f : TreeImg → TreeImg) (hf : ∀ t, (f t).key = t.key) (B : Nat)
    (h : ∀ t ∈ trees, t.key < B) : ∀ t ∈ updTree trees k f, t.key < B := by
  intro t ht
  obtain ⟨t0, ht0, rfl⟩ := List.mem_map.mp ht
  by_cases hk : t0.key = k <;> simp [hk, hf] <;> exact (by first | exact h t0 ht0 | (rw [← hk]; exact h t0 ht0))

theorem find_updTree (trees : List TreeImg) (k : Nat) (f : TreeImg → TreeImg) (hf : ∀ t, (f t).key = t.key) (k' : Nat) :
    (updTree trees k f).find? (fun t => t.key == k') =
      (trees.find? (fun t => t.key == k')).map (fun t => if t.key == k then f t else t) := by
  induction trees with
  | nil => rfl
  | cons x trees ih =>
    simp only [updTree, List.map_cons, List.find?_cons] at ih ⊢
    by_cases hx : x.key = k
    · simp only [hx, beq_self_eq_true, if_true, hf]
      by_cases hk' : k = k'
      · simp [hk', hx]
      · have : (k == k') = false := by simpa using hk'
        simp only [this]
        exact ih
    · have hxb : (x.key == k) = false := by simpa using hx
      simp only [hxb, Bool.false_eq_true, if_false]
      by_cases hk' : x.key = k'
      · simp [hk', hxb]
        intro h; exact absurd (hk' ▸ h) hx
      · have : (x.key == k') = false := by simpa using hk'
        simp only [this]
        exact ih

/-! ### the class -/

structure CG (p0 : PImg) (live : Nat) (allowed covered : List Nat) (lv : LiveP) (lo nd : Nat) (p : PImg) : Prop where
  i2e : p.i2e = p0.i2e
  cat : p.cat = p0.cat
  idx : p.idx = p0.idx
  hdr : SameKey p0.hdr p.hdr
  lond : lo ≤ nd
  np : nd ≤ p.hdr.nextPage
  bmlo : nd ≤ p.bm
  len : p0.len ≤ p.len
  segOld : ∀ k, k < lo → segFind p k = segFind p0 k
  segKeys : ∀ s ∈ p.segs, s.key < nd
  treeKeys : ∀ t ∈ p.trees, t.key < nd
  treeLive : live ≠ 0 → ∃ t last, treeFind p live = some t ∧ LiveOK allowed covered lv t last

/-- operations that keep an image inside the class -/
def CEff (p0 : PImg) (live : Nat) (allowed covered : List Nat) (lv : LiveP) (lo nd : Nat) : PEff → Prop
  | .setLen _ => True
  | .bitmap top => nd ≤ top
  | .stats => True
  | .hdr pm => SameKey p0.hdr pm ∧ nd ≤ pm.nextPage
  | .segPart k _ _ _ => lo ≤ k ∧ k < nd
  | .treeNew k => k ≠ live ∧ k < nd
  | .blob _ _ => True
  | .leaf k i es sib _ => k ≠ live ∨ (i = lv.Xi.length ∧ sib = false ∧
      ∃ ys, es = ys.map some ∧ SortedNat (lv.Xi ++ [ys]).flatten ∧ (lv.Xi ≠ [] → ys ≠ [] ∧ ys.headD 0 = lv.hd) ∧
        (∀ q ∈ ys, q ∈ allowed) ∧ ∀ q ∈ covered, q ∈ (lv.Xi ++ [ys]).flatten)
  | .inode k _ _ => k ≠ live
  | _ => False

theorem treeOK_blob {allowed covered : List Nat} {top : Bool} {t : TreeImg} (h : TreeOK allowed covered top t) (q : Nat) :
    TreeOK allowed covered top { t with blobs := q :: t.blobs } := by
  obtain ⟨X, hs, h3, h4⟩ := h.shape
  exact ⟨⟨X, ⟨hs.ne, hs.leaves, hs.sorted, hs.tail, hs.inode⟩, h3, fun q' hq' => ⟨(h4 q' hq').1, List.mem_cons_of_mem _ (h4 q' hq').2⟩⟩⟩

theorem liveOK_blob {allowed covered : List Nat} {lv : LiveP} {t : TreeImg} {last : List Nat} (h : LiveOK allowed covered lv t last) (q : Nat) :
    LiveOK allowed covered lv { t with blobs := q :: t.blobs } last :=
  ⟨⟨h.shape.ne, h.shape.leaves, h.shape.sorted, h.shape.tail, h.shape.inode⟩, h.hd, h.allowed,
    fun q' hq' => ⟨(h.covered q' hq').1, List.mem_cons_of_mem _ (h.covered q' hq').2⟩⟩

/-- a tree that consists of one leaf entered directly -/
theorem treeShape_single (t : TreeImg) (xs : List Nat) (pid : Nat) (hl : t.leaves = [⟨xs.map some, false, pid⟩])
    (hs : SortedNat xs) (hi : t.inode = none) : TreeShape t [xs] false :=
  ⟨by simp, ⟨[pid], by simp [hl, mkLeaves]⟩, by simpa using hs, by simp, by simp [hi]⟩

theorem treeShape_single_inv {t : TreeImg} {X : List (List Nat)} (h : TreeShape t X false) :
    ∃ xs pid, X = [xs] ∧ t.leaves = [⟨xs.map some, false, pid⟩] ∧ SortedNat xs ∧ t.inode = none := by
  obtain ⟨pids, hl⟩ := h.leaves
  have hin := h.inode
  simp only [Bool.false_eq_true, if_false] at hin
  cases X with
  | nil => exact absurd rfl h.ne
  | cons xs Y =>
    have hY : Y = [] := by simpa using hin.2
    subst hY
    exact ⟨xs, pids.headD 0, rfl, by simp [hl, mkLeaves], by simpa using h.sorted, hin.1⟩

theorem cg_applyEff {p0 : PImg} {live lo nd : Nat} {allowed covered : List Nat} {lv : LiveP} {p : PImg} {e : PEff}
    (h : CG p0 live allowed covered lv lo nd p) (he : CEff p0 live allowed covered lv lo nd e) :
    CG p0 live allowed covered lv lo nd (applyEff e p) := by
  cases e <;> simp only [CEff] at he
  case setLen n => exact { h with len := Nat.le_trans h.len (Nat.le_max_left _ _) }
  case bitmap top => exact { h with bmlo := he }
  case stats => exact h
  case hdr pm => exact { h with hdr := he.1, np := he.2 }
  case segPart k j need es =>
    refine { h with segOld := ?_, segKeys := ?_ }
    · intro k' hk'
      rw [← h.segOld k' hk']
      exact segFind_updSeg_ne p.segs k j need es k' (by omega)
    · exact keys_updSeg p.segs k j need es nd he.2 h.segKeys
  case treeNew k =>
    refine { h with treeKeys := ?_, treeLive := ?_ }
    · intro t ht
      rcases List.mem_cons.mp ht with rfl | ht
      · exact he.2
      · exact h.treeKeys t ht
    · intro hl
      obtain ⟨t, last, hf, hok⟩ := h.treeLive hl
      refine ⟨t, last, ?_, hok⟩
      have : (k == live) = false := by simpa using he.1
      simpa [treeFind, applyEff, List.find?_cons, this] using hf
  case blob k q =>
    refine { h with treeKeys := keys_updTree p.trees k (fun t => { t with blobs := q :: t.blobs }) (fun _ => rfl) _ h.treeKeys, treeLive := ?_ }
    intro hl
    obtain ⟨t, last, hf, hok⟩ := h.treeLive hl
    have := find_updTree p.trees k (fun t => { t with blobs := q :: t.blobs }) (fun _ => rfl) live
    simp only [treeFind] at hf
    rw [hf] at this
    by_cases hk : t.key = k
    · exact ⟨_, last, by simpa [treeFind, applyEff, hk] using this, liveOK_blob hok q⟩
    · exact ⟨t, last, by simpa [treeFind, applyEff, hk] using this, hok⟩
  case leaf k i es sib pid =>
    refine { h with treeKeys := keys_updTree p.trees k (fun t => { t with leaves := setLeaf t.leaves i ⟨es, sib, pid⟩ }) (fun _ => rfl) _ h.treeKeys, treeLive := ?_ }
    intro hl
    obtain ⟨t, last, hf, hok⟩ := h.treeLive hl
    have htk : t.key = live := by
      have := List.find?_some hf
      simpa using this
    have := find_updTree p.trees k (fun t => { t with leaves := setLeaf t.leaves i ⟨es, sib, pid⟩ }) (fun _ => rfl) live
    simp only [treeFind] at hf
    rw [hf] at this
    rcases he with hne | ⟨rfl, rfl, ys, rfl, hs, hhd, hal, hcov⟩
    · have hk : ¬ t.key = k := by rw [htk]; exact fun h' => hne h'.symm
      exact ⟨t, last, by simpa [treeFind, applyEff, hk] using this, hok⟩
    · by_cases hk : t.key = k
      · refine ⟨_, ys, by simpa [treeFind, applyEff, hk] using this, ?_⟩
        refine ⟨treeShape_setLast hok.shape pid rfl rfl hs (fun hx => ⟨(hhd hx).1, by rw [(hhd hx).2, hok.hd hx]⟩),
          fun hx => (hhd hx).2, ?_, fun q hq => ⟨hcov q hq, (hok.covered q hq).2⟩⟩
        intro q hq
        simp only [List.flatten_append, List.flatten_cons, List.flatten_nil, List.append_nil, List.mem_append] at hq
        rcases hq with hq | hq
        · exact hok.allowed q (by simp [hq])
        · exact hal q hq
      · exact ⟨t, last, by simpa [treeFind, applyEff, hk] using this, hok⟩
  case inode k seps pid =>
    refine { h with treeKeys := keys_updTree p.trees k (fun t => { t with inode := some seps, inodePid := pid }) (fun _ => rfl) _ h.treeKeys, treeLive := ?_ }
    intro hl
    obtain ⟨t, last, hf, hok⟩ := h.treeLive hl
    have htk : t.key = live := by
      have := List.find?_some hf
      simpa using this
    have := find_updTree p.trees k (fun t => { t with inode := some seps, inodePid := pid }) (fun _ => rfl) live
    simp only [treeFind] at hf
    rw [hf] at this
    have hk : ¬ t.key = k := by rw [htk]; exact fun h' => he h'.symm
    exact ⟨t, last, by simpa [treeFind, applyEff, hk] using this, hok⟩

theorem ceff_torn {p0 : PImg} {live lo nd : Nat} {allowed covered : List Nat} {lv : LiveP} {p : PImg} {e e' : PEff}
    (he : CEff p0 live allowed covered lv lo nd e) (hl : isLiveLeaf live e = false) (ht : tornEff p e = some e') :
    CEff p0 live allowed covered lv lo nd e' := by
  cases e <;> simp only [CEff] at he <;> simp only [tornEff, Option.some.injEq] at ht <;> try (subst ht; simpa [CEff] using he)
  case leaf k i es sib pid =>
    have hne : k ≠ live := by simpa [isLiveLeaf] using hl
    split at ht <;> (try split at ht) <;> simp only [Option.some.injEq] at ht <;> subst ht <;> exact Or.inl hne
  case inode k seps pid =>
    split at ht <;> simp only [Option.some.injEq] at ht <;> subst ht <;> exact he

/-- steps that keep every image of the class -/
def CStepOK (p0 : PImg) (live : Nat) (allowed covered : List Nat) (lv : LiveP) (lo nd : Nat) : Step → Prop
  | .pg e _ => CEff p0 live allowed covered lv lo nd e
  | .ps => True
  | _ => False

theorem allImgsL_cstep {p0 : PImg} {live lo nd : Nat} {allowed covered : List Nat} {lv : LiveP} (fs : FS) (s : Step)
    (h : AllImgsL live fs (CG p0 live allowed covered lv lo nd)) (hs : CStepOK p0 live allowed covered lv lo nd s) :
    AllImgsL live (fs.step s) (CG p0 live allowed covered lv lo nd) := by
  cases s <;> simp only [CStepOK] at hs
  case pg e pid =>
    apply allImgsL_pg live fs _ e pid h
    intro p hp
    exact ⟨cg_applyEff hp hs, fun hl e' ht => cg_applyEff hp (ceff_torn hs hl ht)⟩
  case ps => exact allImgsL_ps live fs _ (allImgsL_pv live fs _ h)

theorem cstep_block {p0 : PImg} {live lo nd : Nat} {allowed covered : List Nat} {lv : LiveP} (S : List Step) :
    ∀ (fs : FS), AllImgsL live fs (CG p0 live allowed covered lv lo nd) → (∀ s ∈ S, CStepOK p0 live allowed covered lv lo nd s) →
      SafeAlong (fun fs => AllImgsL live fs (CG p0 live allowed covered lv lo nd)) fs S := by
  induction S with
  | nil => intro fs h _; exact safeAlong_nil h
  | cons s S ih =>
    intro fs h hs
    exact safeAlong_cons h (ih _ (allImgsL_cstep fs s h (hs s (by simp))) (fun s' hs' => hs s' (by simp [hs'])))

theorem cstep_pagerStep {p0 : PImg} {live lo nd : Nat} {allowed covered : List Nat} {lv : LiveP} {s : Step}
    (h : CStepOK p0 live allowed covered lv lo nd s) : PagerStep s := by
  cases s <;> simp [CStepOK] at h <;> trivial

theorem CG.raise {p0 : PImg} {live lo nd nd' : Nat} {allowed covered : List Nat} {lv : LiveP} {p : PImg}
    (h : CG p0 live allowed covered lv lo nd p) (h1 : nd ≤ nd') (h2 : nd' ≤ p.hdr.nextPage) (h3 : nd' ≤ p.bm) :
    CG p0 live allowed covered lv lo nd' p :=
  { h with lond := Nat.le_trans h.lond h1, np := h2, bmlo := h3, segKeys := fun s hs => Nat.lt_of_lt_of_le (h.segKeys s hs) h1,
           treeKeys := fun t ht => Nat.lt_of_lt_of_le (h.treeKeys t ht) h1 }

/-! ### what the class guarantees -/

theorem CG.pagerOK {p0 : PImg} {live lo nd : Nat} {allowed covered : List Nat} {lv : LiveP} {p : PImg} {N : List Nat} {c : Nat}
    (h : CG p0 live allowed covered lv lo nd p) (h0 : PagerOK N c p0) (h2 : 2 ≤ lo) : PagerOK N c p where
  booted :=
    { init := by rw [h.hdr.init]; exact h0.booted.init
      len := Nat.le_trans h0.booted.len h.len
      nextPage := Nat.le_trans h0.booted.nextPage h.hdr.np
      bm := Nat.le_trans h2 (Nat.le_trans h.lond h.bmlo)
      catRoot := by rw [h.hdr.catRoot]; exact h0.booted.catRoot
      cat := by rw [h.cat, h.idx]; exact h0.booted.cat }
  start := by rw [h.hdr.start, h.hdr.len]; exact h0.start
  lo := by rw [h.hdr.len]; exact h0.lo
  hi := by rw [h.hdr.len]; exact h0.hi
  slots := by rw [h.hdr.len, h.i2e]; exact h0.slots

theorem segFind_key {p : PImg} {k : Nat} {s : SegImg} (h : segFind p k = some s) : s ∈ p.segs ∧ s.key = k := by
  have h1 := List.mem_of_find?_eq_some h
  have h2 := List.find?_some h
  simp only [Bool.and_eq_true, beq_iff_eq] at h2
  exact ⟨h1, h2.1⟩

theorem treeFind_key {p : PImg} {k : Nat} {t : TreeImg} (h : treeFind p k = some t) : t ∈ p.trees ∧ t.key = k := by
  have h1 := List.mem_of_find?_eq_some h
  have h2 := List.find?_some h
  exact ⟨h1, by simpa using h2⟩

theorem StoreOK.segLt {T : List Tx} {cs : List CTx} {p : PImg} (h : StoreOK T cs p) :
    ∀ k ∈ (scan cs).segs, k < p.hdr.nextPage ∧ k < p.bm := by
  intro k hk
  have := h.segs k hk
  obtain ⟨s, hs⟩ := Option.isSome_iff_exists.mp this
  obtain ⟨h1, h2⟩ := segFind_key hs
  rw [← h2]
  exact h.segKeys s h1

theorem CG.storeOK {p0 : PImg} {lo nd : Nat} {allowed covered : List Nat} {lv : LiveP} {p : PImg} {T : List Tx} {cs : List CTx}
    (h : CG p0 (scan cs).proot allowed covered lv lo nd p) (hlv : lv.top = (scan cs).ptop) (h0 : StoreOK T cs p0) (hlo : min p0.bm p0.hdr.nextPage ≤ lo)
    (hal : allowed = allProps T)
    (h1 : ∀ q ∈ allProps T, q ∈ (logRuns (scan cs).ckpt cs).flatMap (·.props) ∨ q ∈ covered)
    (h2 : (scan cs).proot = 0 → covered = []) : StoreOK T cs p where
  segs := by
    intro k hk
    rw [h.segOld k (by have := h0.segLt k hk; omega)]
    exact h0.segs k hk
  segKeys := fun s hs => ⟨Nat.lt_of_lt_of_le (h.segKeys s hs) h.np, Nat.lt_of_lt_of_le (h.segKeys s hs) h.bmlo⟩
  treeKeys := fun t ht => ⟨Nat.lt_of_lt_of_le (h.treeKeys t ht) h.np, Nat.lt_of_lt_of_le (h.treeKeys t ht) h.bmlo⟩
  edges := by
    have : (scan cs).segs.flatMap (segEdges p) = (scan cs).segs.flatMap (segEdges p0) := by
      apply flatMap_congr'
      intro k hk
      simp only [segEdges, h.segOld k (by have := h0.segLt k hk; omega)]
    intro e; rw [this]; exact h0.edges e
  runProps := h0.runProps
  props := ⟨covered, h1, h2, fun hne => by
    subst hal
    obtain ⟨t, last, hf, hok⟩ := h.treeLive hne
    exact ⟨t, hf, by rw [← hlv]; exact hok.treeOK⟩⟩

end Nervus.Crash
