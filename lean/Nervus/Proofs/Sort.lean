/-
  Proofs.Sort — the stable insertion sort of `Model.Order` is, for any three-way comparison that is a
  total preorder on the members of the input, a sorted stable permutation; SKIP/LIMIT positions.  Core only.
-/
import Nervus.Proofs.Cmp
import Nervus.Model.Order
namespace Nervus
open Order


namespace CmpLawsOn
variable {α : Type} {cmp : α → α → Ordering} {P : α → Prop}

theorem mono (h : CmpLawsOn cmp P) {Q : α → Prop} (hq : ∀ a, Q a → P a) : CmpLawsOn cmp Q :=
  ⟨fun a b ha hb => h.swap a b (hq a ha) (hq b hb),
   fun a b c ha hb hc => h.trans a b c (hq a ha) (hq b hb) (hq c hc)⟩

theorem le_trans (h : CmpLawsOn cmp P) {a b c : α} (ha : P a) (hb : P b) (hc : P c)
    (h1 : cmp a b ≠ .gt) (h2 : cmp b c ≠ .gt) : cmp a c ≠ .gt := by
  rw [h.trans a b c ha hb hc h1 h2]
  cases h3 : cmp a b <;> cases h4 : cmp b c <;> simp_all [Ordering.then]

theorem le_of_gt (h : CmpLawsOn cmp P) {a b : α} (ha : P a) (hb : P b) (h1 : cmp a b = .gt) : cmp b a ≠ .gt := by
  rw [h.swap a b ha hb] at h1
  cases h2 : cmp b a <;> simp_all [Ordering.swap]

theorem refl (h : CmpLawsOn cmp P) {a : α} (ha : P a) : cmp a a = .eq := by
  have := h.swap a a ha ha
  cases hc : cmp a a <;> simp_all [Ordering.swap]

theorem ofLaws (h : CmpLaws cmp) : CmpLawsOn cmp P := ⟨fun a b _ _ => h.swap a b, fun a b c _ _ _ => h.trans a b c⟩
end CmpLawsOn


section
variable {α : Type} (cmp : α → α → Ordering)

theorem insertSorted_perm (x : α) : ∀ l : List α, (insertSorted cmp x l).Perm (x :: l)
  | [] => List.Perm.refl _
  | y :: ys => by
    simp only [insertSorted]
    by_cases h : (cmp x y != .gt) = true
    · simp only [h, if_true]; exact List.Perm.refl _
    · simp only [h, Bool.false_eq_true, if_false]
      exact ((insertSorted_perm x ys).cons y).trans (List.Perm.swap x y ys)

/-- **permutation**: the sort neither loses nor duplicates rows -/
theorem isort_perm : ∀ l : List α, (isort cmp l).Perm l
  | [] => List.Perm.refl _
  | x :: xs => by
    simp only [isort]
    exact (insertSorted_perm cmp x (isort cmp xs)).trans ((isort_perm xs).cons x)

theorem mem_insertSorted {x y : α} {l : List α} : y ∈ insertSorted cmp x l ↔ y = x ∨ y ∈ l := by
  rw [(insertSorted_perm cmp x l).mem_iff]; simp

theorem mem_isort {y : α} {l : List α} : y ∈ isort cmp l ↔ y ∈ l := (isort_perm cmp l).mem_iff

theorem insertSorted_sorted {P : α → Prop} (h : CmpLawsOn cmp P) (x : α) (hx : P x) :
    ∀ l : List α, (∀ y ∈ l, P y) → SortedBy cmp l → SortedBy cmp (insertSorted cmp x l)
  | [], _, _ => by simp [insertSorted, SortedBy]
  | y :: ys, hP, hs => by
    have hy : P y := hP y (by simp)
    have hys : ∀ z ∈ ys, P z := fun z hz => hP z (by simp [hz])
    simp only [SortedBy, List.pairwise_cons] at hs
    simp only [insertSorted]
    by_cases hc : (cmp x y != .gt) = true
    · simp only [hc, if_true, SortedBy, List.pairwise_cons]
      have hxy : cmp x y ≠ .gt := by simpa using hc
      refine ⟨?_, hs.1, hs.2⟩
      intro z hz
      rcases List.mem_cons.1 hz with rfl | hz
      · exact hxy
      · exact h.le_trans hx hy (hys z hz) hxy (hs.1 z hz)
    · simp only [hc, Bool.false_eq_true, if_false, SortedBy, List.pairwise_cons]
      have hgt : cmp x y = .gt := by
        cases hh : cmp x y <;> simp_all
      refine ⟨?_, insertSorted_sorted h x hx ys hys hs.2⟩
      intro z hz
      rcases (mem_insertSorted cmp).1 hz with rfl | hz
      · exact h.le_of_gt hx hy hgt
      · exact hs.1 z hz

/-- **sortedness**: no pair of the output is out of order -/
theorem isort_sorted {P : α → Prop} (h : CmpLawsOn cmp P) : ∀ l : List α, (∀ y ∈ l, P y) → SortedBy cmp (isort cmp l)
  | [], _ => by simp [isort, SortedBy]
  | x :: xs, hP => by
    simp only [isort]
    refine insertSorted_sorted cmp h x (hP x (by simp)) _ ?_ (isort_sorted h xs (fun y hy => hP y (by simp [hy])))
    intro y hy
    exact hP y (by simp [(mem_isort cmp).1 hy])

theorem sublist_insertSorted (x : α) : ∀ l : List α, l.Sublist (insertSorted cmp x l)
  | [] => List.nil_sublist _
  | y :: ys => by
    simp only [insertSorted]
    by_cases hc : (cmp x y != .gt) = true
    · simp only [hc, if_true]; exact List.sublist_cons_self _ _
    · simp only [hc, Bool.false_eq_true, if_false]; exact (sublist_insertSorted x ys).cons_cons y

theorem pair_insertSorted (x b : α) (hxb : cmp x b ≠ .gt) :
    ∀ l : List α, b ∈ l → [x, b].Sublist (insertSorted cmp x l)
  | [], hb => by simp at hb
  | y :: ys, hb => by
    simp only [insertSorted]
    by_cases hc : (cmp x y != .gt) = true
    · simp only [hc, if_true]
      exact (List.singleton_sublist.2 hb).cons_cons x
    · simp only [hc, Bool.false_eq_true, if_false]
      rcases List.mem_cons.1 hb with rfl | hb'
      · exact absurd (by simpa using hxb) hc
      · exact (pair_insertSorted x b hxb ys hb').cons y

/-- **stability**: if `a` comes before `b` in the input and `a` is not greater than `b`
    (in particular: equal keys), then `a` comes before `b` in the output -/
theorem isort_stable (a b : α) (hab : cmp a b ≠ .gt) :
    ∀ l : List α, [a, b].Sublist l → [a, b].Sublist (isort cmp l)
  | [], h => by simp at h
  | x :: xs, h => by
    simp only [isort]
    cases h with
    | cons _ h' => exact (isort_stable a b hab xs h').trans (sublist_insertSorted cmp x _)
    | cons_cons _ h' =>
      have hb : b ∈ isort cmp xs := (mem_isort cmp).2 (List.singleton_sublist.1 h')
      exact pair_insertSorted cmp a b hab _ hb
end

/-! SKIP / LIMIT -/

/-- `SKIP s LIMIT l` returns exactly the rows at positions `s … s+l-1` -/
theorem skip_limit_get {α : Type} (rows : List α) (s l i : Nat) :
    (limit l (skip s rows))[i]? = if i < l then rows[s + i]? else none := by
  simp only [limit, skip, List.getElem?_take, List.getElem?_drop]

theorem skip_limit_length {α : Type} (rows : List α) (s l : Nat) :
    (limit l (skip s rows)).length = min l (rows.length - s) := by
  simp [limit, skip]

end Nervus
