/-
  Helper lemmas for C15 (index transparency): memtable facts, the read view across
  commit / compact / reopen, the index-content invariant and its preservation.
-/
import Nervus.Spec.IndexFree
namespace Nervus.Index
open Nervus Nervus.OKey

/-! ### memtable -/

def KeysNodup (m : PropMap) : Prop := (m.map (·.1)).Nodup

theorem upsert_keysNodup (m : PropMap) (nk : Nat × Key) (o : Option OV) (h : KeysNodup m) :
    KeysNodup (upsert m nk o) := by
  unfold KeysNodup upsert at *
  simp only [List.map_cons, List.nodup_cons, List.mem_map, List.mem_filter, not_exists, not_and]
  refine ⟨?_, ?_⟩
  · rintro ⟨a, b⟩ ⟨_, hne⟩ heq
    simp at hne heq
    exact hne heq
  · exact (h.sublist ((List.filter_sublist).map _))

theorem memApply_keysNodup (r : Run) (op : TxOp) (h : KeysNodup r.props) :
    KeysNodup (memApply r op).props := by
  cases op <;> simp only [memApply] <;> first | exact h | exact upsert_keysNodup _ _ _ h

theorem foldl_memApply_keysNodup (tx : List TxOp) (r : Run) (h : KeysNodup r.props) :
    KeysNodup (tx.foldl memApply r).props := by
  induction tx generalizing r with
  | nil => exact h
  | cons op tx ih => exact ih _ (memApply_keysNodup r op h)

theorem memOf_keysNodup (tx : List TxOp) : KeysNodup (memOf tx).props :=
  foldl_memApply_keysNodup tx _ (by simp [KeysNodup])

/-- every entry of the memtable comes from a staged `set` / `rem` -/
def FromTx (tx : List TxOp) (m : PropMap) : Prop :=
  ∀ n k o, ((n, k), o) ∈ m →
    (match o with
     | some v => TxOp.set n k v ∈ tx
     | none => TxOp.rem n k ∈ tx)

theorem mem_upsert {m : PropMap} {nk : Nat × Key} {o : Option OV} {e : (Nat × Key) × Option OV}
    (h : e ∈ upsert m nk o) : e = (nk, o) ∨ e ∈ m := by
  unfold upsert at h
  rcases List.mem_cons.mp h with h | h
  · exact Or.inl h
  · exact Or.inr (List.mem_filter.mp h).1

theorem foldl_memApply_fromTx (all : List TxOp) (tx : List TxOp) (r : Run)
    (hsub : ∀ op, op ∈ tx → op ∈ all) (h : FromTx all r.props) :
    FromTx all (tx.foldl memApply r).props := by
  induction tx generalizing r with
  | nil => exact h
  | cons op tx ih =>
    apply ih _ (fun o ho => hsub o (List.mem_cons_of_mem _ ho))
    have hop : op ∈ all := hsub op List.mem_cons_self
    cases op with
    | set n k v =>
      intro n' k' o' hm
      rcases mem_upsert hm with heq | hm
      · cases heq; exact hop
      · exact h n' k' o' hm
    | rem n k =>
      intro n' k' o' hm
      rcases mem_upsert hm with heq | hm
      · cases heq; exact hop
      · exact h n' k' o' hm
    | node l => exact h
    | labelAdd n l => exact h
    | labelDel n l => exact h
    | del n => exact h

theorem memOf_fromTx (tx : List TxOp) : FromTx tx (memOf tx).props :=
  foldl_memApply_fromTx tx tx _ (fun _ h => h) (by intro n k o h; cases h)

/-- lookup in a map with distinct keys finds exactly the entries -/
theorem lookup_of_mem {m : PropMap} (hn : KeysNodup m) {nk : Nat × Key} {o : Option OV}
    (h : (nk, o) ∈ m) : m.lookup nk = some o := by
  induction m with
  | nil => cases h
  | cons e m ih =>
    unfold KeysNodup at hn
    simp only [List.map_cons, List.nodup_cons] at hn
    rcases List.mem_cons.mp h with heq | hm
    · subst heq; simp [List.lookup]
    · have hne : nk ≠ e.1 := by
        intro heq; apply hn.1; rw [← heq]; exact List.mem_map.mpr ⟨(nk, o), hm, rfl⟩
      rw [List.lookup_cons]
      have : (nk == e.1) = false := by simpa using hne
      rw [this]
      exact ih hn.2 hm

theorem mem_of_lookup {m : PropMap} {nk : Nat × Key} {o : Option OV}
    (h : m.lookup nk = some o) : (nk, o) ∈ m := by
  induction m with
  | nil => simp [List.lookup] at h
  | cons e m ih =>
    rw [List.lookup_cons] at h
    by_cases heq : (nk == e.1) = true
    · rw [heq] at h
      have h1 : nk = e.1 := by simpa using heq
      cases h
      rw [h1]; exact List.mem_cons_self
    · have : (nk == e.1) = false := by simpa using heq
      rw [this] at h
      exact List.mem_cons_of_mem _ (ih h)

theorem lookup_none_of_not_key {m : PropMap} {nk : Nat × Key}
    (h : ∀ o, (nk, o) ∉ m) : m.lookup nk = none := by
  cases hl : m.lookup nk with
  | none => rfl
  | some o => exact absurd (mem_of_lookup hl) (h o)

/-! ### the two ways out of the C15-removed-prop-resurrects trigger -/

inductive Mode
  | noRem      -- the history never removes a property
  | noCompact  -- the history never compacts

def ModeInv : Mode → State → Prop
  | .noRem, s => ∀ r, r ∈ s.runs → ∀ e, e ∈ r.props → e.2.isSome = true
  | .noCompact, s => s.store = []

def ModeOp : Mode → Op → Prop
  | .noRem, op => isRemTx op = false
  | .noCompact, op => isCompact op = false

/-! ### the read view across `commit` -/

theorem commit_prop_raw (cfg : Cfg) (s : State) (tx : List TxOp) (n : Nat) (k : Key) :
    (commit cfg s tx).prop n k =
      match (memOf tx).props.lookup (n, k) with
      | some (some v) => some v
      | some none => s.store.lookup (n, k)
      | none => s.prop n k := by
  unfold commit State.prop
  cases he : (memOf tx).isEmpty with
  | true =>
    have hp : (memOf tx).props = [] := by
      unfold Run.isEmpty at he
      simp only [Bool.and_eq_true, List.isEmpty_iff] at he
      exact he.2
    simp only [he, ↓reduceIte, hp, List.lookup]
  | false =>
    simp only [he, Bool.false_eq_true, ↓reduceIte, runsHit]
    cases (memOf tx).props.lookup (n, k) with
    | none => simp
    | some o => cases o <;> simp

theorem memOf_lookup_some_none_rem (tx : List TxOp) (n : Nat) (k : Key)
    (h : (memOf tx).props.lookup (n, k) = some none) : TxOp.rem n k ∈ tx :=
  memOf_fromTx tx n k none (mem_of_lookup h)

theorem isRemTx_of_mem {tx : List TxOp} {n : Nat} {k : Key} (h : TxOp.rem n k ∈ tx) :
    isRemTx (.commit tx) = true := by
  simp only [isRemTx, List.any_eq_true]
  exact ⟨_, h, rfl⟩

/-- under either mode a committed transaction overlays the view with exactly its final states -/
theorem commit_prop (cfg : Cfg) (m : Mode) (s : State) (tx : List TxOp) (n : Nat) (k : Key)
    (hm : ModeInv m s) (ho : ModeOp m (.commit tx)) :
    (commit cfg s tx).prop n k =
      match (memOf tx).props.lookup (n, k) with
      | some o => o
      | none => s.prop n k := by
  rw [commit_prop_raw]
  cases hl : (memOf tx).props.lookup (n, k) with
  | none => rfl
  | some o =>
    cases o with
    | some v => rfl
    | none =>
      cases m with
      | noRem =>
        have := isRemTx_of_mem (memOf_lookup_some_none_rem tx n k hl)
        simp only [ModeOp] at ho
        rw [ho] at this; cases this
      | noCompact =>
        simp only [ModeInv] at hm
        simp [hm]

/-! ### nodes: creation label and labels across `applyLabels` -/

def firstOf (ns : List Node) (n : Nat) : Option Label :=
  match ns[n]? with
  | some nd => nd.first
  | none => none

def hasLabelOf (ns : List Node) (n : Nat) (l : Label) : Bool :=
  match ns[n]? with
  | some nd => nd.labels.contains l
  | none => false

theorem State.first_eq (s : State) (n : Nat) : s.first n = firstOf s.nodes n := rfl
theorem State.hasLabel_eq (s : State) (n : Nat) (l : Label) : s.hasLabel n l = hasLabelOf s.nodes n l := rfl

theorem firstOf_modify (ns : List Node) (i : Nat) (f : Node → Node) (hf : ∀ nd, (f nd).first = nd.first)
    (n : Nat) : firstOf (ns.modify i f) n = firstOf ns n := by
  unfold firstOf
  rw [List.getElem?_modify]
  cases ns[n]? with
  | none => rfl
  | some nd =>
    simp only [Option.map_eq_map, Option.map_some]
    split <;> simp [hf]

theorem foldl_modify_first {α : Type} (ps : List α) (idx : α → Nat) (f : α → Node → Node)
    (hf : ∀ a nd, (f a nd).first = nd.first) (ns : List Node) (n : Nat) :
    firstOf (ps.foldl (fun ns p => ns.modify (idx p) (f p)) ns) n = firstOf ns n := by
  induction ps generalizing ns with
  | nil => rfl
  | cons p ps ih => simp only [List.foldl_cons]; rw [ih, firstOf_modify _ _ _ (hf p)]

theorem foldl_modify_length {α : Type} (ps : List α) (idx : α → Nat) (f : α → Node → Node)
    (ns : List Node) :
    (ps.foldl (fun ns p => ns.modify (idx p) (f p)) ns).length = ns.length := by
  induction ps generalizing ns with
  | nil => rfl
  | cons p ps ih => simp only [List.foldl_cons]; rw [ih, List.length_modify]

theorem applyLabels_first (ns : List Node) (tx : List TxOp) (n : Nat) :
    firstOf (applyLabels ns tx) n = firstOf ns n := by
  unfold applyLabels
  simp only []
  exact (foldl_modify_first _ (fun p : Nat × Label => p.1)
      (fun p nd => { nd with labels := nd.labels.filter (· != p.2) }) (fun _ _ => rfl) _ n).trans
    (foldl_modify_first _ (fun p : Nat × Label => p.1)
      (fun p nd => if nd.labels.contains p.2 then nd else { nd with labels := p.2 :: nd.labels })
      (fun _ nd => by split <;> rfl) ns n)

theorem applyLabels_length (ns : List Node) (tx : List TxOp) :
    (applyLabels ns tx).length = ns.length := by
  unfold applyLabels
  simp only []
  exact (foldl_modify_length _ (fun p : Nat × Label => p.1)
      (fun p nd => { nd with labels := nd.labels.filter (· != p.2) }) _).trans
    (foldl_modify_length _ (fun p : Nat × Label => p.1)
      (fun p nd => if nd.labels.contains p.2 then nd else { nd with labels := p.2 :: nd.labels }) ns)

theorem hasLabelOf_modify_add (ns : List Node) (i : Nat) (a : Label) (n : Nat) (l : Label)
    (h : hasLabelOf (ns.modify i (fun nd => if nd.labels.contains a then nd else { nd with labels := a :: nd.labels })) n l = true) :
    hasLabelOf ns n l = true ∨ (i = n ∧ a = l) := by
  unfold hasLabelOf at *
  rw [List.getElem?_modify] at h
  cases hn : ns[n]? with
  | none => rw [hn] at h; simp at h
  | some nd =>
    rw [hn] at h
    simp only [Option.map_eq_map, Option.map_some] at h
    by_cases hi : i = n
    · simp only [hi, if_true] at h
      by_cases hc : nd.labels.contains a = true
      · simp only [hc, if_true] at h; exact Or.inl h
      · simp only [hc] at h
        simp only [Bool.false_eq_true, if_false, List.contains_cons, Bool.or_eq_true, beq_iff_eq] at h
        rcases h with h | h
        · exact Or.inr ⟨hi, h.symm⟩
        · exact Or.inl h
    · simp only [hi, if_false] at h; exact Or.inl h

theorem hasLabelOf_modify_del (ns : List Node) (i : Nat) (a : Label) (n : Nat) (l : Label)
    (h : hasLabelOf (ns.modify i (fun nd => { nd with labels := nd.labels.filter (· != a) })) n l = true) :
    hasLabelOf ns n l = true := by
  unfold hasLabelOf at *
  rw [List.getElem?_modify] at h
  cases hn : ns[n]? with
  | none => rw [hn] at h; simp at h
  | some nd =>
    rw [hn] at h
    simp only [Option.map_eq_map, Option.map_some] at h
    by_cases hi : i = n
    · simp only [hi, if_true, List.contains_eq_mem, List.mem_filter, decide_eq_true_eq] at h
      simp only [List.contains_eq_mem, decide_eq_true_eq]; exact h.1
    · simp only [hi, if_false] at h; exact h

theorem foldl_add_hasLabel (ps : List (Nat × Label)) (ns : List Node) (n : Nat) (l : Label)
    (h : hasLabelOf (ps.foldl (fun ns (p : Nat × Label) =>
      ns.modify p.1 (fun nd => if nd.labels.contains p.2 then nd else { nd with labels := p.2 :: nd.labels })) ns) n l = true) :
    hasLabelOf ns n l = true ∨ (n, l) ∈ ps := by
  induction ps generalizing ns with
  | nil => exact Or.inl h
  | cons p ps ih =>
    simp only [List.foldl_cons] at h
    rcases ih _ h with h1 | h1
    · rcases hasLabelOf_modify_add ns p.1 p.2 n l h1 with h2 | ⟨h2, h3⟩
      · exact Or.inl h2
      · refine Or.inr (List.mem_cons.mpr (Or.inl ?_)); rw [← h2, ← h3]
    · exact Or.inr (List.mem_cons_of_mem _ h1)

theorem foldl_del_hasLabel (ps : List (Nat × Label)) (ns : List Node) (n : Nat) (l : Label)
    (h : hasLabelOf (ps.foldl (fun ns (p : Nat × Label) =>
      ns.modify p.1 (fun nd => { nd with labels := nd.labels.filter (· != p.2) })) ns) n l = true) :
    hasLabelOf ns n l = true := by
  induction ps generalizing ns with
  | nil => exact h
  | cons p ps ih =>
    simp only [List.foldl_cons] at h
    exact hasLabelOf_modify_del ns p.1 p.2 n l (ih _ h)

/-- a label a node has after a transaction's label changes was there before or was added by it -/
theorem applyLabels_hasLabel (ns : List Node) (tx : List TxOp) (n : Nat) (l : Label)
    (h : hasLabelOf (applyLabels ns tx) n l = true) :
    hasLabelOf ns n l = true ∨ TxOp.labelAdd n l ∈ tx := by
  unfold applyLabels at h
  simp only [] at h
  have h1 := foldl_del_hasLabel _ _ n l h
  rcases foldl_add_hasLabel _ _ n l h1 with h2 | h2
  · exact Or.inl h2
  · refine Or.inr ?_
    rcases List.mem_filterMap.mp h2 with ⟨op, hop, hf⟩
    cases op <;> simp at hf
    rcases hf with ⟨rfl, rfl⟩
    exact hop

/-! ### index content -/

/-- what the entries of an index on `(lbl, key)` with id `id` must be w.r.t. a view
    (`N` nodes, creation labels `first`, values `pk n` of the indexed key) -/
def GoodEs (N : Nat) (first : Nat → Option Label) (pk : Nat → Option OV) (lbl : Label) (id : Nat)
    (es : List (Bytes × Nat)) : Prop :=
  es.Nodup ∧ ∀ b n, (b, n) ∈ es ↔
    (n < N ∧ first n = some lbl ∧ ∃ v, pk n = some v ∧ b = encIndexKey id v n)

theorem entryKey_fixed (id : Nat) (v : OV) (n : Nat) : entryKey Cfg.fixed id v n = encIndexKey id v n := rfl
theorem idxInsert_fixed (es : List (Bytes × Nat)) (e : Bytes × Nat) : idxInsert Cfg.fixed es e = e :: es := rfl
theorem idxDelete_fixed (es : List (Bytes × Nat)) (e : Bytes × Nat) : idxDelete Cfg.fixed es e = es.erase e := rfl

/-- removing the (only possible) entry of node `n` -/
theorem erase_old {N : Nat} {first : Nat → Option Label} {pk : Nat → Option OV} {lbl : Label} {id : Nat}
    {es : List (Bytes × Nat)} (hg : GoodEs N first pk lbl id es) (n : Nat) :
    let es1 := match pk n with
      | some v => es.erase (encIndexKey id v n, n)
      | none => es
    es1.Nodup ∧ ∀ b m, (b, m) ∈ es1 ↔ (m ≠ n ∧ (b, m) ∈ es) := by
  obtain ⟨hnd, hmem⟩ := hg
  cases hp : pk n with
  | none =>
    refine ⟨hnd, fun b m => ⟨fun h => ⟨?_, h⟩, fun h => h.2⟩⟩
    intro hmn; subst hmn
    obtain ⟨_, _, v, hv, _⟩ := (hmem b m).mp h
    rw [hp] at hv; cases hv
  | some v =>
    refine ⟨hnd.erase _, fun b m => ?_⟩
    rw [hnd.mem_erase_iff]
    constructor
    · rintro ⟨hne, hin⟩
      refine ⟨?_, hin⟩
      intro hmn; subst hmn
      obtain ⟨_, _, v', hv', hb⟩ := (hmem b m).mp hin
      rw [hp] at hv'; cases hv'
      exact hne (by rw [hb])
    · rintro ⟨hne, hin⟩
      refine ⟨?_, hin⟩
      intro heq; cases heq; exact hne rfl

/-- one `IndexOp` keeps the index content in step with the view -/
theorem step_good (pre : State) (nodes' : List Node) (d : IndexDef) (pk : Nat → Option OV)
    (es : List (Bytes × Nat)) (n : Nat) (k : Key) (o : Option OV)
    (hg : GoodEs nodes'.length (firstOf nodes') pk d.label d.id es)
    (hn : n < nodes'.length)
    (hpk : k = d.key → pk n = pre.prop n k)
    (hb : pre.nodes.length ≤ n → pre.prop n d.key = none) :
    GoodEs nodes'.length (firstOf nodes') (fun m => if k = d.key ∧ m = n then o else pk m) d.label d.id
      (indexOne Cfg.fixed pre nodes' d es ((n, k), o)) := by
  by_cases hk : k = d.key
  rotate_left
  · have h1 : indexOne Cfg.fixed pre nodes' d es ((n, k), o) = es := by
      unfold indexOne; simp [hk]
    have h2 : (fun m => if k = d.key ∧ m = n then o else pk m) = pk := by
      funext m; simp [hk]
    rw [h1, h2]; exact hg
  · subst hk
    have hpk' := hpk rfl
    obtain ⟨nd, hnd⟩ : ∃ nd, nodes'[n]? = some nd := ⟨nodes'[n], List.getElem?_eq_getElem hn⟩
    have hfirst : firstOf nodes' n = nd.first := by unfold firstOf; rw [hnd]
    by_cases hl : nd.first = some d.label
    rotate_left
    · have h1 : indexOne Cfg.fixed pre nodes' d es ((n, d.key), o) = es := by
        unfold indexOne; simp [hnd, hl]
      rw [h1]
      refine ⟨hg.1, fun b m => ?_⟩
      rw [hg.2 b m]
      by_cases hmn : m = n
      · subst hmn
        constructor
        · rintro ⟨_, hf, _⟩; rw [hfirst] at hf; exact absurd hf hl
        · rintro ⟨_, hf, _⟩; rw [hfirst] at hf; exact absurd hf hl
      · simp [hmn]
    · -- the index applies to this node
      have herase := erase_old hg n
      simp only [] at herase
      -- the result in all four branches
      have hres : indexOne Cfg.fixed pre nodes' d es ((n, d.key), o) =
          (match o with
           | some v => (encIndexKey d.id v n, n) ::
               (match pk n with | some old => es.erase (encIndexKey d.id old n, n) | none => es)
           | none => (match pk n with | some old => es.erase (encIndexKey d.id old n, n) | none => es)) := by
        unfold indexOne
        simp only [bne_self_eq_false, Bool.false_eq_true, if_false, hnd, hl, entryKey_fixed,
          idxInsert_fixed, idxDelete_fixed]
        by_cases hnew : pre.nodes.length ≤ n
        · have hnone : pre.prop n d.key = none := hb hnew
          have hpkn : pk n = none := by rw [hpk', hnone]
          simp only [hnew, decide_true, if_true, hpkn]
          cases o <;> rfl
        · simp only [hnew, decide_false, Bool.false_eq_true, if_false, ← hpk']
          cases o <;> rfl
      rw [hres]
      obtain ⟨hnd1, hmem1⟩ := herase
      cases o with
      | none =>
        refine ⟨hnd1, fun b m => ?_⟩
        rw [hmem1 b m, hg.2 b m]
        by_cases hmn : m = n
        · subst hmn; simp
        · simp [hmn]
      | some v =>
        refine ⟨?_, fun b m => ?_⟩
        · rw [List.nodup_cons]
          refine ⟨?_, hnd1⟩
          intro hin
          exact ((hmem1 _ _).mp hin).1 rfl
        · rw [List.mem_cons, hmem1 b m, hg.2 b m]
          by_cases hmn : m = n
          · subst hmn
            simp only [ne_eq, not_true_eq_false, false_and, or_false, and_self, if_true]
            constructor
            · intro h; cases h
              exact ⟨hn, by rw [hfirst]; exact hl, v, rfl, rfl⟩
            · rintro ⟨_, _, v', hv', hb'⟩
              cases hv'; rw [hb']
          · have : (b, m) ≠ (encIndexKey d.id v n, n) := by
              intro heq; cases heq; exact hmn rfl
            simp [hmn, this]

theorem keysNodup_cons {e : (Nat × Key) × Option OV} {L : PropMap} (h : KeysNodup (e :: L)) :
    (∀ o, (e.1, o) ∉ L) ∧ KeysNodup L := by
  unfold KeysNodup at h
  simp only [List.map_cons, List.nodup_cons] at h
  refine ⟨fun o hin => h.1 (List.mem_map.mpr ⟨(e.1, o), hin, rfl⟩), h.2⟩

/-- the whole `IndexOp` loop over a list of final states with distinct keys -/
theorem fold_good (pre : State) (nodes' : List Node) (d : IndexDef)
    (hb : ∀ n, pre.nodes.length ≤ n → pre.prop n d.key = none) :
    ∀ (L : PropMap) (es : List (Bytes × Nat)) (pk : Nat → Option OV),
      KeysNodup L →
      (∀ e, e ∈ L → e.1.1 < nodes'.length) →
      GoodEs nodes'.length (firstOf nodes') pk d.label d.id es →
      (∀ e, e ∈ L → e.1.2 = d.key → pk e.1.1 = pre.prop e.1.1 d.key) →
      GoodEs nodes'.length (firstOf nodes')
        (fun n => match L.lookup (n, d.key) with | some o => o | none => pk n) d.label d.id
        (L.foldl (indexOne Cfg.fixed pre nodes' d) es) := by
  intro L
  induction L with
  | nil => intro es pk _ _ hg _; simpa [List.lookup] using hg
  | cons e L ih =>
    intro es pk hkn hlt hg hpk
    obtain ⟨⟨n, k⟩, o⟩ := e
    obtain ⟨hnot, hkn'⟩ := keysNodup_cons hkn
    simp only [List.foldl_cons]
    have hstep := step_good pre nodes' d pk es n k o hg (hlt _ List.mem_cons_self)
      (fun hk => by have := hpk _ List.mem_cons_self hk; simpa [hk] using this) (hb n)
    have hrest := ih _ _ hkn' (fun e he => hlt e (List.mem_cons_of_mem _ he)) hstep
      (by
        intro e' he' hk'
        have hne : ¬ (k = d.key ∧ e'.1.1 = n) := by
          rintro ⟨hk, hn'⟩
          apply hnot e'.2
          have : e' = ((n, k), e'.2) := by
            obtain ⟨⟨a, b⟩, c⟩ := e'
            simp only at hk' hn'
            rw [hn', hk', hk]
          rw [← this]; exact he'
        simp only [hne, if_false]
        exact hpk e' (List.mem_cons_of_mem _ he') hk')
    have hfun : (fun m => match (((n, k), o) :: L).lookup (m, d.key) with | some o' => o' | none => pk m) =
        (fun m => match L.lookup (m, d.key) with
          | some o' => o'
          | none => (if k = d.key ∧ m = n then o else pk m)) := by
      funext m
      rw [List.lookup_cons]
      by_cases heq : (m, d.key) = (n, k)
      · have hb' : ((m, d.key) == (n, k)) = true := by simpa using heq
        have hnone : L.lookup (m, d.key) = none := by
          rw [heq]; exact lookup_none_of_not_key (fun o' => hnot o')
        have hc : k = d.key ∧ m = n := by cases heq; exact ⟨rfl, rfl⟩
        rw [hb', hnone]; simp [hc]
      · have hb' : ((m, d.key) == (n, k)) = false := by simpa using heq
        rw [hb']
        have hne : ¬ (k = d.key ∧ m = n) := by
          rintro ⟨h1, h2⟩; apply heq; rw [h1, h2]
        simp [hne]
    rw [hfun]; exact hrest

theorem eq_of_key_eq {m : PropMap} (hn : KeysNodup m) {e1 e2 : (Nat × Key) × Option OV}
    (h1 : e1 ∈ m) (h2 : e2 ∈ m) (hk : e1.1 = e2.1) : e1 = e2 := by
  obtain ⟨x, y⟩ := e1; obtain ⟨x', y'⟩ := e2
  simp only at hk; subst hk
  have a := lookup_of_mem hn h1
  have b := lookup_of_mem hn h2
  rw [a] at b; cases b; rfl

/-- iterating the sets and then the removals visits every key once and reads as the map itself -/
theorem split_keysNodup (m : PropMap) (hn : KeysNodup m) :
    KeysNodup (m.filter (fun e => e.2.isSome) ++ m.filter (fun e => e.2.isNone)) := by
  unfold KeysNodup at *
  rw [List.map_append, List.nodup_append]
  refine ⟨hn.sublist ((List.filter_sublist).map _), hn.sublist ((List.filter_sublist).map _), ?_⟩
  intro a ha b hb hab
  rcases List.mem_map.mp ha with ⟨e1, he1, rfl⟩
  rcases List.mem_map.mp hb with ⟨e2, he2, rfl⟩
  have h1 := List.mem_filter.mp he1
  have h2 := List.mem_filter.mp he2
  have := eq_of_key_eq (m := m) hn h1.1 h2.1 hab
  subst this
  have a1 := h1.2; have a2 := h2.2
  cases hh : e1.2 with
  | none => rw [hh] at a1; cases a1
  | some v => rw [hh] at a2; cases a2

theorem split_mem (m : PropMap) (e : (Nat × Key) × Option OV) :
    e ∈ (m.filter (fun e => e.2.isSome) ++ m.filter (fun e => e.2.isNone)) ↔ e ∈ m := by
  simp only [List.mem_append, List.mem_filter]
  constructor
  · rintro (h | h) <;> exact h.1
  · intro h
    cases hh : e.2 with
    | none => exact Or.inr ⟨h, rfl⟩
    | some v => exact Or.inl ⟨h, rfl⟩

theorem split_lookup (m : PropMap) (hn : KeysNodup m) (nk : Nat × Key) :
    (m.filter (fun e => e.2.isSome) ++ m.filter (fun e => e.2.isNone)).lookup nk = m.lookup nk := by
  cases hl : m.lookup nk with
  | none =>
    apply lookup_none_of_not_key
    intro o hin
    have := lookup_of_mem hn ((split_mem m _).mp hin)
    rw [hl] at this; cases this
  | some o =>
    exact lookup_of_mem (split_keysNodup m hn) ((split_mem m _).mpr (mem_of_lookup hl))

/-- `indexTx` keeps an index in step with the overlay of the transaction's final states -/
theorem indexTx_good (pre : State) (nodes' : List Node) (props : PropMap) (d : IndexDef)
    (hkn : KeysNodup props)
    (hlt : ∀ e, e ∈ props → e.1.1 < nodes'.length)
    (hb : ∀ n, pre.nodes.length ≤ n → pre.prop n d.key = none)
    (hg : GoodEs nodes'.length (firstOf nodes') (fun n => pre.prop n d.key) d.label d.id d.entries) :
    GoodEs nodes'.length (firstOf nodes')
      (fun n => match props.lookup (n, d.key) with | some o => o | none => pre.prop n d.key)
      d.label d.id (indexTx Cfg.fixed pre nodes' props d).entries := by
  unfold indexTx
  simp only []
  have := fold_good pre nodes' d hb _ d.entries (fun n => pre.prop n d.key)
    (split_keysNodup props hkn) (fun e he => hlt e ((split_mem props e).mp he)) hg
    (fun _ _ _ => rfl)
  simp only [split_lookup props hkn] at this
  exact this

/-! ### the state invariant -/

structure Inv (m : Mode) (s : State) : Prop where
  /-- no property is known for an id that is not a node yet -/
  bounded : ∀ n k, s.nodes.length ≤ n → s.prop n k = none
  /-- every index holds exactly one entry per node whose creation label is the index label and
      that has the indexed property (live or not) -/
  good : ∀ d, d ∈ s.indexes →
    GoodEs s.nodes.length (firstOf s.nodes) (fun n => s.prop n d.key) d.label d.id d.entries
  /-- outside the C15-nonfirst-label trigger a node only ever carries its creation label -/
  own : ∀ n l, hasLabelOf s.nodes n l = true → firstOf s.nodes n = some l
  /-- … and so do the label additions that a reopen would replay -/
  pend : ∀ p, p ∈ s.pending → ∀ n l, TxOp.labelAdd n l ∈ p.2 → firstOf s.nodes n = some l
  mode : ModeInv m s

theorem GoodEs_congr {N N' : Nat} {first first' : Nat → Option Label} {pk pk' : Nat → Option OV}
    {lbl : Label} {id : Nat} {es : List (Bytes × Nat)}
    (h : GoodEs N first pk lbl id es) (hN : N = N') (hf : ∀ n, first n = first' n) (hp : ∀ n, pk n = pk' n) :
    GoodEs N' first' pk' lbl id es := by
  subst hN
  have e1 : first = first' := funext hf
  have e2 : pk = pk' := funext hp
  subst e1; subst e2; exact h

/-- appending nodes without properties does not disturb an index -/
theorem GoodEs_grow {N N' : Nat} {first first' : Nat → Option Label} {pk : Nat → Option OV}
    {lbl : Label} {id : Nat} {es : List (Bytes × Nat)}
    (h : GoodEs N first pk lbl id es) (hN : N ≤ N') (hf : ∀ n, n < N → first' n = first n)
    (hp : ∀ n, N ≤ n → pk n = none) :
    GoodEs N' first' pk lbl id es := by
  refine ⟨h.1, fun b n => ?_⟩
  rw [h.2 b n]
  constructor
  · rintro ⟨h1, h2, h3⟩; exact ⟨Nat.lt_of_lt_of_le h1 hN, by rw [hf n h1]; exact h2, h3⟩
  · rintro ⟨h1, h2, v, hv, hb⟩
    have hn : n < N := by
      rcases Nat.lt_or_ge n N with h | h
      · exact h
      · rw [hp n h] at hv; cases hv
    exact ⟨hn, by rw [← hf n hn]; exact h2, v, hv, hb⟩

theorem firstOf_append_left (ns ms : List Node) (n : Nat) (h : n < ns.length) :
    firstOf (ns ++ ms) n = firstOf ns n := by
  unfold firstOf; rw [List.getElem?_append]; simp [h]

theorem hasLabelOf_append_left (ns ms : List Node) (n : Nat) (l : Label) (h : n < ns.length) :
    hasLabelOf (ns ++ ms) n l = hasLabelOf ns n l := by
  unfold hasLabelOf; rw [List.getElem?_append]; simp [h]

theorem firstOf_lt {ns : List Node} {n : Nat} {l : Label} (h : firstOf ns n = some l) : n < ns.length := by
  unfold firstOf at h
  rcases Nat.lt_or_ge n ns.length with hl | hl
  · exact hl
  · rw [List.getElem?_eq_none hl] at h; cases h

theorem hasLabelOf_lt {ns : List Node} {n : Nat} {l : Label} (h : hasLabelOf ns n l = true) : n < ns.length := by
  unfold hasLabelOf at h
  rcases Nat.lt_or_ge n ns.length with hl | hl
  · exact hl
  · rw [List.getElem?_eq_none hl] at h; cases h

/-- freshly created nodes carry exactly their creation label -/
theorem own_newNodes (ls : List (Option Label)) (n : Nat) (l : Label)
    (h : hasLabelOf (ls.map newNode) n l = true) : firstOf (ls.map newNode) n = some l := by
  unfold hasLabelOf firstOf at *
  rw [List.getElem?_map] at *
  cases hl : ls[n]? with
  | none => rw [hl] at h; simp at h
  | some o =>
    rw [hl] at h
    simp only [Option.map_some] at *
    cases o with
    | none => simp [newNode] at h
    | some x =>
      simp only [newNode, List.contains_cons, List.contains_nil, Bool.or_false, beq_iff_eq] at h
      simp [newNode, h]

theorem firstOf_eq_getElem?_map (ns : List Node) (n : Nat) :
    (ns.map (·.first))[n]? = (ns[n]?).map (·.first) := List.getElem?_map

theorem firstOf_of_firsts {ns : List Node} {n : Nat} {l : Label}
    (h : ((ns.map (·.first))[n]? == some (some l)) = true) : firstOf ns n = some l := by
  rw [List.getElem?_map] at h
  unfold firstOf
  cases hn : ns[n]? with
  | none => rw [hn] at h; simp at h
  | some nd => rw [hn] at h; simp only [Option.map_some, beq_iff_eq, Option.some.injEq] at h; exact h

/-- what the history-level checks say about one committed transaction in state `s` -/
def TxOK (s : State) (tx : List TxOp) : Prop :=
  ∀ op, op ∈ tx →
    wfOp (s.nodes.map (·.first) ++ createdLabels tx) op = true ∧
    ownLabelOp (s.nodes.map (·.first) ++ createdLabels tx) op = true

def nodesC (s : State) (tx : List TxOp) : List Node := s.nodes ++ (createdLabels tx).map newNode

theorem nodesC_firsts (s : State) (tx : List TxOp) :
    (nodesC s tx).map (·.first) = s.nodes.map (·.first) ++ createdLabels tx := by
  unfold nodesC
  rw [List.map_append, List.map_map]
  congr 1
  induction createdLabels tx with
  | nil => rfl
  | cons a l ih => simp only [List.map_cons, ih]; rfl

theorem nodesC_length (s : State) (tx : List TxOp) :
    (nodesC s tx).length = (s.nodes.map (·.first) ++ createdLabels tx).length := by
  rw [← nodesC_firsts, List.length_map]

theorem commit_nodes (cfg : Cfg) (s : State) (tx : List TxOp) :
    (commit cfg s tx).nodes = applyLabels (nodesC s tx) tx := rfl

theorem commit_inv (m : Mode) (s : State) (tx : List TxOp) (h : Inv m s)
    (hop : ModeOp m (.commit tx)) (hok : TxOK s tx) : Inv m (commit Cfg.fixed s tx) := by
  have hlen : (commit Cfg.fixed s tx).nodes.length = (nodesC s tx).length := by
    rw [commit_nodes, applyLabels_length]
  have hfirst : ∀ n, firstOf (commit Cfg.fixed s tx).nodes n = firstOf (nodesC s tx) n := by
    intro n; rw [commit_nodes, applyLabels_first]
  have hle : s.nodes.length ≤ (nodesC s tx).length := by unfold nodesC; rw [List.length_append]; omega
  have hfirst_old : ∀ n, n < s.nodes.length → firstOf (nodesC s tx) n = firstOf s.nodes n :=
    fun n hn => firstOf_append_left _ _ n hn
  -- every key of the memtable is an existing node
  have hkeys : ∀ e, e ∈ (memOf tx).props → e.1.1 < (nodesC s tx).length := by
    rintro ⟨⟨n, k⟩, o⟩ he
    have := memOf_fromTx tx n k o he
    rw [nodesC_length]
    cases o with
    | some v => have := (hok _ this).1; simpa [wfOp] using this
    | none => have := (hok _ this).1; simpa [wfOp] using this
  have hprop := fun n k => commit_prop Cfg.fixed m s tx n k h.mode hop
  refine ⟨?_, ?_, ?_, ?_, ?_⟩
  · -- bounded
    intro n k hn
    rw [hlen] at hn
    rw [hprop]
    have : (memOf tx).props.lookup (n, k) = none := by
      apply lookup_none_of_not_key
      intro o hin
      have := hkeys _ hin
      simp only at this; omega
    rw [this]
    exact h.bounded n k (by omega)
  · -- good
    intro d' hd'
    have hd'' : d' ∈ s.indexes.map (indexTx Cfg.fixed s (nodesC s tx) (memOf tx).props) := hd'
    rcases List.mem_map.mp hd'' with ⟨d, hd, rfl⟩
    have hg0 := h.good d hd
    have hg1 : GoodEs (nodesC s tx).length (firstOf (nodesC s tx)) (fun n => s.prop n d.key) d.label d.id d.entries :=
      GoodEs_grow hg0 hle hfirst_old (fun n hn => h.bounded n d.key hn)
    have hg2 := indexTx_good s (nodesC s tx) (memOf tx).props d (memOf_keysNodup tx) hkeys
      (fun n hn => h.bounded n d.key hn) hg1
    have e1 : (indexTx Cfg.fixed s (nodesC s tx) (memOf tx).props d).label = d.label := rfl
    have e2 : (indexTx Cfg.fixed s (nodesC s tx) (memOf tx).props d).id = d.id := rfl
    have e3 : (indexTx Cfg.fixed s (nodesC s tx) (memOf tx).props d).key = d.key := rfl
    rw [e1, e2, e3]
    exact GoodEs_congr hg2 hlen.symm (fun n => (hfirst n).symm) (fun n => (hprop n d.key).symm)
  · -- own
    intro n l hl
    rw [hfirst]
    rw [commit_nodes] at hl
    rcases applyLabels_hasLabel _ _ n l hl with h1 | h1
    · rcases Nat.lt_or_ge n s.nodes.length with hn | hn
      · rw [hfirst_old n hn]
        apply h.own
        unfold nodesC at h1; rwa [hasLabelOf_append_left _ _ n l hn] at h1
      · unfold nodesC at h1 ⊢
        unfold hasLabelOf at h1; unfold firstOf
        rw [List.getElem?_append] at h1 ⊢
        have : ¬ n < s.nodes.length := by omega
        simp only [this, if_false] at h1 ⊢
        exact own_newNodes _ _ l h1
    · have := (hok _ h1).2
      simp only [ownLabelOp] at this
      rw [← nodesC_firsts] at this
      exact firstOf_of_firsts this
  · -- pend
    intro p hp n l hin
    rw [hfirst]
    have hp' : p ∈ s.pending ++ [(!(memOf tx).isEmpty, tx)] := hp
    rcases List.mem_append.mp hp' with hp1 | hp1
    · have := h.pend p hp1 n l hin
      rw [hfirst_old n (firstOf_lt this)]; exact this
    · simp only [List.mem_singleton] at hp1
      subst hp1
      have := (hok _ hin).2
      simp only [ownLabelOp] at this
      rw [← nodesC_firsts] at this
      exact firstOf_of_firsts this
  · -- mode
    cases m with
    | noCompact => exact h.mode
    | noRem =>
      intro r hr e he
      have hr' : r ∈ (if (memOf tx).isEmpty then s.runs else memOf tx :: s.runs) := hr
      have hnew : ∀ e, e ∈ (memOf tx).props → e.2.isSome = true := by
        rintro ⟨⟨n, k⟩, o⟩ he
        cases o with
        | some v => rfl
        | none =>
          have := isRemTx_of_mem (memOf_fromTx tx n k none he)
          simp only [ModeOp] at hop
          rw [hop] at this; cases this
      split at hr'
      · exact h.mode r hr' e he
      · rcases List.mem_cons.mp hr' with rfl | hr'
        · exact hnew e he
        · exact h.mode r hr' e he

/-! ### create_index (with backfill) -/

theorem foldl_insert_fixed (L : List (Bytes × Nat)) (acc : List (Bytes × Nat)) :
    L.foldl (idxInsert Cfg.fixed) acc = L.reverse ++ acc := by
  induction L generalizing acc with
  | nil => rfl
  | cons e L ih => simp only [List.foldl_cons, idxInsert_fixed, ih, List.reverse_cons, List.append_assoc]; rfl

theorem backfill_good (s : State) (l : Label) (k : Key) (id : Nat) :
    GoodEs s.nodes.length (firstOf s.nodes) (fun n => s.prop n k) l id
      ((backfillEntries Cfg.fixed s l k id).foldl (idxInsert Cfg.fixed) []) := by
  rw [foldl_insert_fixed, List.append_nil]
  unfold backfillEntries
  constructor
  · -- distinct payloads
    show List.Pairwise (· ≠ ·) _
    rw [List.pairwise_reverse]
    apply List.Pairwise.filterMap (R := fun a b => a < b) (S := fun a b => b ≠ a) _ _ List.pairwise_lt_range
    intro a a' hlt b hb b' hb' heq
    split at hb
    · split at hb'
      · cases ha : s.prop a k with
        | none => rw [ha] at hb; cases hb
        | some v =>
          cases ha' : s.prop a' k with
          | none => rw [ha'] at hb'; cases hb'
          | some v' =>
            rw [ha] at hb; rw [ha'] at hb'
            simp only [Option.map_some, Option.some.injEq] at hb hb'
            rw [← hb, ← hb'] at heq
            have : a' = a := (Prod.mk.injEq _ _ _ _ ▸ heq).2
            omega
      · cases hb'
    · cases hb
  · intro b n
    rw [List.mem_reverse, List.mem_filterMap]
    constructor
    · rintro ⟨n', hn', hf⟩
      split at hf
      · rename_i hfl
        cases hp : s.prop n' k with
        | none => rw [hp] at hf; cases hf
        | some v =>
          rw [hp] at hf
          simp only [Option.map_some, Option.some.injEq, Prod.mk.injEq] at hf
          obtain ⟨hb, hn⟩ := hf
          subst hn
          refine ⟨List.mem_range.mp hn', ?_, v, hp, by rw [← hb]; rfl⟩
          rw [State.first_eq] at hfl; simpa using hfl
      · cases hf
    · rintro ⟨hn, hf, v, hv, hb⟩
      refine ⟨n, List.mem_range.mpr hn, ?_⟩
      have : (s.first n == some l) = true := by rw [State.first_eq, hf]; simp
      simp only [this, if_true, hv, Option.map_some, hb]
      rfl

theorem createIndex_inv (m : Mode) (s : State) (l : Label) (k : Key) (h : Inv m s) :
    Inv m (createIndex Cfg.fixed s l k) := by
  unfold createIndex
  split
  · exact h
  · refine ⟨h.bounded, ?_, h.own, h.pend, ?_⟩
    · intro d hd
      simp only [List.mem_append, List.mem_singleton] at hd
      rcases hd with hd | hd
      · exact h.good d hd
      · subst hd
        exact backfill_good s l k s.nextIndexId
    · cases m <;> exact h.mode

/-! ### compaction -/

theorem lookup_sunk_run (ps : PropMap) (hs : ∀ e, e ∈ ps → e.2.isSome = true) (nk : Nat × Key) :
    (ps.filterMap (fun e => e.2.map (fun v => (e.1, v)))).lookup nk =
      match ps.lookup nk with
      | some (some v) => some v
      | _ => none := by
  induction ps with
  | nil => rfl
  | cons e ps ih =>
    obtain ⟨key, o⟩ := e
    have ho := hs _ List.mem_cons_self
    cases o with
    | none => cases ho
    | some v =>
      rw [List.filterMap_cons]
      simp only [Option.map_some, List.lookup_cons]
      cases hb : nk == key with
      | true => rfl
      | false => exact ih (fun e he => hs e (List.mem_cons_of_mem _ he))

theorem lookup_sunk (runs : List Run) (store : List ((Nat × Key) × OV))
    (hs : ∀ r, r ∈ runs → ∀ e, e ∈ r.props → e.2.isSome = true) (n : Nat) (k : Key) :
    (sunk runs ++ store).lookup (n, k) =
      match runsHit runs n k with
      | some (some v) => some v
      | _ => store.lookup (n, k) := by
  induction runs with
  | nil => rfl
  | cons r rs ih =>
    have hr := hs r List.mem_cons_self
    have ih' := ih (fun r' hr' => hs r' (List.mem_cons_of_mem _ hr'))
    unfold sunk at *
    rw [List.flatMap_cons, List.append_assoc, List.lookup_append, lookup_sunk_run _ hr, ih']
    simp only [runsHit]
    cases hl : r.props.lookup (n, k) with
    | none => simp
    | some o =>
      cases o with
      | some v => simp
      | none =>
        have := hr _ (mem_of_lookup hl)
        cases this

theorem compact_prop (m : Mode) (s : State) (hm : ModeInv m s) (hop : ModeOp m .compact) (n : Nat) (k : Key) :
    (compact s).prop n k = s.prop n k := by
  cases m with
  | noCompact => simp [ModeOp, isCompact] at hop
  | noRem =>
    unfold compact
    split
    · rfl
    · unfold State.prop
      simp only [runsHit]
      exact lookup_sunk s.runs s.store hm n k

theorem mem_afterLastRun {ps : List (Bool × List TxOp)} {p : Bool × List TxOp}
    (h : p ∈ afterLastRun ps) : p ∈ ps := by
  induction ps with
  | nil => cases h
  | cons q qs ih =>
    unfold afterLastRun at h
    split at h
    · exact List.mem_cons_of_mem _ (ih h)
    · split at h
      · exact List.mem_cons_of_mem _ h
      · exact h

theorem compact_inv (m : Mode) (s : State) (h : Inv m s) (hop : ModeOp m .compact) : Inv m (compact s) := by
  have hp := compact_prop m s h.mode hop
  have hn : (compact s).nodes = s.nodes := by unfold compact; split <;> rfl
  have hi : (compact s).indexes = s.indexes := by unfold compact; split <;> rfl
  refine ⟨?_, ?_, ?_, ?_, ?_⟩
  · intro n k hl; rw [hp]; rw [hn] at hl; exact h.bounded n k hl
  · intro d hd
    rw [hi] at hd; rw [hn]
    exact GoodEs_congr (h.good d hd) rfl (fun _ => rfl) (fun n => (hp n d.key).symm)
  · rw [hn]; exact h.own
  · intro p hpm
    rw [hn]
    have : p ∈ s.pending := by
      unfold compact at hpm
      split at hpm
      · exact hpm
      · exact mem_afterLastRun hpm
    exact h.pend p this
  · cases m with
    | noCompact => simp [ModeOp, isCompact] at hop
    | noRem =>
      unfold compact
      split
      · exact h.mode
      · intro r hr; cases hr

/-! ### reopen -/

theorem reopen_prop (s : State) (c : Bool) (n : Nat) (k : Key) : (reopen s c).prop n k = s.prop n k := rfl

theorem firstOf_base (ns : List Node) (n : Nat) :
    firstOf (ns.map (fun nd => newNode nd.first)) n = firstOf ns n := by
  unfold firstOf
  rw [List.getElem?_map]
  cases ns[n]? with
  | none => rfl
  | some nd => cases h : nd.first <;> simp [newNode, h]

theorem own_base (ns : List Node) (n : Nat) (l : Label)
    (h : hasLabelOf (ns.map (fun nd => newNode nd.first)) n l = true) : firstOf ns n = some l := by
  have : ns.map (fun nd => newNode nd.first) = (ns.map (·.first)).map newNode := by
    rw [List.map_map]; rfl
  rw [this] at h
  have h2 := own_newNodes _ n l h
  rw [← this, firstOf_base] at h2
  exact h2

theorem replay_first (ps : List (Bool × List TxOp)) (ns : List Node) (n : Nat) :
    firstOf (ps.foldl (fun ns p => applyLabels ns p.2) ns) n = firstOf ns n := by
  induction ps generalizing ns with
  | nil => rfl
  | cons p ps ih => simp only [List.foldl_cons]; rw [ih, applyLabels_first]

theorem replay_length (ps : List (Bool × List TxOp)) (ns : List Node) :
    (ps.foldl (fun ns p => applyLabels ns p.2) ns).length = ns.length := by
  induction ps generalizing ns with
  | nil => rfl
  | cons p ps ih => simp only [List.foldl_cons]; rw [ih, applyLabels_length]

theorem replay_hasLabel (ps : List (Bool × List TxOp)) (ns : List Node) (n : Nat) (l : Label)
    (h : hasLabelOf (ps.foldl (fun ns p => applyLabels ns p.2) ns) n l = true) :
    hasLabelOf ns n l = true ∨ ∃ p, p ∈ ps ∧ TxOp.labelAdd n l ∈ p.2 := by
  induction ps generalizing ns with
  | nil => exact Or.inl h
  | cons p ps ih =>
    simp only [List.foldl_cons] at h
    rcases ih _ h with h1 | ⟨q, hq, hin⟩
    · rcases applyLabels_hasLabel _ _ n l h1 with h2 | h2
      · exact Or.inl h2
      · exact Or.inr ⟨p, List.mem_cons_self, h2⟩
    · exact Or.inr ⟨q, List.mem_cons_of_mem _ hq, hin⟩

theorem reopen_inv (m : Mode) (s : State) (c : Bool) (h : Inv m s) : Inv m (reopen s c) := by
  have hsub : ∀ p, p ∈ (reopen s c).pending → p ∈ s.pending := by
    intro p hp
    have hp' : p ∈ (if (c && s.runs.isEmpty) = true then [] else s.pending) := hp
    split at hp'
    · cases hp'
    · exact hp'
  have hfirst : ∀ n, firstOf (reopen s c).nodes n = firstOf s.nodes n := by
    intro n
    show firstOf (List.foldl (fun ns p => applyLabels ns p.2) (s.nodes.map (fun nd => newNode nd.first)) (reopen s c).pending) n = _
    rw [replay_first, firstOf_base]
  have hlen : (reopen s c).nodes.length = s.nodes.length := by
    show (List.foldl (fun ns p => applyLabels ns p.2) (s.nodes.map (fun nd => newNode nd.first)) (reopen s c).pending).length = _
    rw [replay_length, List.length_map]
  refine ⟨?_, ?_, ?_, ?_, ?_⟩
  · intro n k hl; rw [reopen_prop]; rw [hlen] at hl; exact h.bounded n k hl
  · intro d hd
    have hd' : d ∈ s.indexes := hd
    exact GoodEs_congr (h.good d hd') hlen.symm (fun n => (hfirst n).symm) (fun _ => rfl)
  · intro n l hl
    rw [hfirst]
    have hl' : hasLabelOf (List.foldl (fun ns p => applyLabels ns p.2)
        (s.nodes.map (fun nd => newNode nd.first)) (reopen s c).pending) n l = true := hl
    rcases replay_hasLabel _ _ n l hl' with h1 | ⟨p, hp, hin⟩
    · exact own_base _ n l h1
    · exact h.pend p (hsub p hp) n l hin
  · intro p hp n l hin
    rw [hfirst]; exact h.pend p (hsub p hp) n l hin
  · cases m <;> exact h.mode

/-! ### `node_ids.sort()` -/

theorem insertSorted_perm (a : Nat) (l : List Nat) : (insertSorted a l).Perm (a :: l) := by
  induction l with
  | nil => exact List.Perm.refl _
  | cons b bs ih =>
    unfold insertSorted
    split
    · exact List.Perm.refl _
    · exact ((List.Perm.cons b ih).trans (List.Perm.swap a b bs))

theorem sortIds_perm (l : List Nat) : (sortIds l).Perm l := by
  induction l with
  | nil => exact List.Perm.refl _
  | cons a l ih =>
    unfold sortIds at *
    rw [List.foldr_cons]
    exact (insertSorted_perm a _).trans (List.Perm.cons a ih)

theorem insertSorted_sorted (a : Nat) (l : List Nat) (h : List.Pairwise (· ≤ ·) l) :
    List.Pairwise (· ≤ ·) (insertSorted a l) := by
  induction l with
  | nil => simp [insertSorted]
  | cons b bs ih =>
    rw [List.pairwise_cons] at h
    unfold insertSorted
    split
    · rename_i hab
      rw [List.pairwise_cons]
      refine ⟨?_, List.pairwise_cons.mpr h⟩
      intro x hx
      rcases List.mem_cons.mp hx with rfl | hx
      · exact hab
      · exact Nat.le_trans hab (h.1 x hx)
    · rename_i hab
      rw [List.pairwise_cons]
      refine ⟨?_, ih h.2⟩
      intro x hx
      rcases List.mem_cons.mp ((insertSorted_perm a bs).mem_iff.mp hx) with rfl | hx
      · omega
      · exact h.1 x hx

theorem sortIds_sorted (l : List Nat) : List.Pairwise (· ≤ ·) (sortIds l) := by
  induction l with
  | nil => simp [sortIds]
  | cons a l ih =>
    unfold sortIds at *
    rw [List.foldr_cons]
    exact insertSorted_sorted a _ ih

/-- a duplicate-free list of ids sorts to the ascending enumeration of its members -/
theorem sortIds_eq_filter (ids : List Nat) (N : Nat) (A : Nat → Bool) (hnd : ids.Nodup)
    (hmem : ∀ n, n ∈ ids ↔ (n < N ∧ A n = true)) :
    sortIds ids = (List.range N).filter A := by
  apply List.Perm.eq_of_pairwise (le := (· ≤ ·))
  · intro a b _ _ h1 h2; exact Nat.le_antisymm h1 h2
  · exact sortIds_sorted ids
  · exact (List.pairwise_lt_range.imp (fun h => Nat.le_of_lt h)).filter _
  · refine (sortIds_perm ids).trans ?_
    rw [List.perm_ext_iff_of_nodup hnd (List.nodup_range.sublist List.filter_sublist)]
    intro n
    rw [hmem, List.mem_filter, List.mem_range]

/-! ### the query side -/

theorem queryRows_noIndex (cfg : Cfg) (t : State) (q : Query) (hi : t.indexes = []) :
    queryRows cfg t q = scanRows t q := by
  unfold queryRows scanRows
  cases hl : q.labels.head? with
  | none => rfl
  | some l =>
    cases hp : q.props.head? with
    | none => simp only [scanRows, hl]
    | some kv =>
      obtain ⟨k, v⟩ := kv
      simp only
      have hlk : lookupIndex t l k v = none := by unfold lookupIndex; rw [hi]; rfl
      have : seekStart cfg t l k v = nodeScan t (some l) := by
        unfold seekStart
        split
        · rfl
        · cases v <;> simp only [hlk]
      rw [this]

theorem isPrefixOf_self_append (a b : Bytes) : a.isPrefixOf (a ++ b) = true := by
  rw [List.isPrefixOf_iff_prefix]; exact List.prefix_append a b

/-- the lookup values for which `execute_index_seek` (repaired) really seeks -/
def seekable : OV → Bool
  | .null => true
  | .bool _ => true
  | .str _ => true
  | _ => false

theorem cyEqV_seekable {v' v : OV} (hs : seekable v = true) (h : cyEqV v' v = true) : v' = v := by
  cases v <;> simp [seekable] at hs <;> cases v' <;> simp [cyEqV] at h
  · rw [h]
  · rw [h]

/-- **the heart of C15**: in a state satisfying the invariant the repaired IndexSeek plan and the
    scan plan produce the same rows in the same order -/
theorem queryRows_eq_scan (m : Mode) (s : State) (q : Query) (h : Inv m s) :
    queryRows Cfg.fixed s q = scanRows s q := by
  unfold queryRows
  cases hl : q.labels.head? with
  | none => rfl
  | some l =>
    cases hp : q.props.head? with
    | none => rfl
    | some kv =>
      obtain ⟨k, v⟩ := kv
      simp only
      have hscan : scanRows s q = (nodeScan s (some l)).filter (residual s q) := by
        unfold scanRows; rw [hl]
      rw [hscan]
      have hlmem : l ∈ q.labels := by
        obtain ⟨ys, hys⟩ := List.head?_eq_some_iff.mp hl; rw [hys]; exact List.mem_cons_self
      have hkvmem : (k, v) ∈ q.props := by
        obtain ⟨ys, hys⟩ := List.head?_eq_some_iff.mp hp; rw [hys]; exact List.mem_cons_self
      -- the branches that scan anyway
      by_cases hsk : seekable v = true
      rotate_left
      · have : seekStart Cfg.fixed s l k v = nodeScan s (some l) := by
          unfold seekStart
          cases v <;> simp [seekable] at hsk <;> simp [Cfg.fixed, isNum]
        rw [this]
      have hnotnum : (Cfg.fixed.numFallback && isNum v) = false := by
        cases v <;> simp [seekable] at hsk <;> simp [isNum]
      cases hlk : lookupIndex s l k v with
      | none =>
        have : seekStart Cfg.fixed s l k v = nodeScan s (some l) := by
          unfold seekStart
          rw [hnotnum]
          cases v <;> simp [seekable] at hsk <;> simp [hlk]
        rw [this]
      | some ids =>
        -- the index answered
        unfold lookupIndex at hlk
        cases hf : s.indexes.find? (fun d => d.label == l && d.key == k) with
        | none => rw [hf] at hlk; cases hlk
        | some d =>
          rw [hf] at hlk
          simp only at hlk
          split at hlk
          · cases hlk
          · have hd : d ∈ s.indexes := List.mem_of_find?_eq_some hf
            have hdl := List.find?_some hf
            simp only [Bool.and_eq_true, beq_iff_eq] at hdl
            obtain ⟨hdl1, hdl2⟩ := hdl
            obtain ⟨hnd, hmem⟩ := h.good d hd
            simp only [Option.some.injEq] at hlk
            let pre := beBytes 4 d.id ++ enc v
            let A : Nat → Bool := fun n =>
              firstOf s.nodes n == some d.label &&
                (match s.prop n d.key with
                 | some v' => pre.isPrefixOf (encIndexKey d.id v' n)
                 | none => false)
            have hids : sortIds ids = (List.range s.nodes.length).filter A := by
              apply sortIds_eq_filter
              · rw [← hlk]
                show List.Pairwise (· ≠ ·) _
                rw [List.pairwise_map]
                have hf2 : List.Pairwise (· ≠ ·) (d.entries.filter (fun e => pre.isPrefixOf e.1)) :=
                  List.Pairwise.filter _ hnd
                refine List.Pairwise.imp_of_mem ?_ hf2
                intro a b ha hb hne heq
                apply hne
                have ha' := (List.mem_filter.mp ha).1
                have hb' := (List.mem_filter.mp hb).1
                obtain ⟨a1, a2⟩ := a; obtain ⟨b1, b2⟩ := b
                simp only at heq; subst heq
                obtain ⟨_, _, va, hva, hba⟩ := (hmem a1 a2).mp ha'
                obtain ⟨_, _, vb, hvb, hbb⟩ := (hmem b1 a2).mp hb'
                rw [hva] at hvb; cases hvb
                rw [hba, hbb]
              · intro n
                rw [← hlk, List.mem_map]
                constructor
                · rintro ⟨⟨b, n'⟩, hin, rfl⟩
                  obtain ⟨hin1, hin2⟩ := List.mem_filter.mp hin
                  obtain ⟨hn, hfl, v', hv', hb⟩ := (hmem b n').mp hin1
                  refine ⟨hn, ?_⟩
                  simp only [A, hfl, beq_self_eq_true, Bool.true_and, hv']
                  rw [← hb]; exact hin2
                · rintro ⟨hn, hA⟩
                  simp only [A, Bool.and_eq_true, beq_iff_eq] at hA
                  obtain ⟨hfl, hpre⟩ := hA
                  cases hv' : s.prop n d.key with
                  | none => rw [hv'] at hpre; cases hpre
                  | some v' =>
                    rw [hv'] at hpre
                    refine ⟨(encIndexKey d.id v' n, n), List.mem_filter.mpr ⟨?_, hpre⟩, rfl⟩
                    exact (hmem _ _).mpr ⟨hn, hfl, v', hv', rfl⟩
            have hss : seekStart Cfg.fixed s l k v =
                ((List.range s.nodes.length).filter A).filter (fun n => !s.tomb n) := by
              unfold seekStart
              rw [hnotnum]
              have hlk' : lookupIndex s l k v = some ids := by
                unfold lookupIndex; rw [hf]; simp only
                rename_i hne
                rw [if_neg hne, hlk]
              cases v <;> simp [seekable] at hsk <;> simp [hlk', hids, Cfg.fixed]
            rw [hss]
            unfold nodeScan
            simp only [List.filter_filter]
            apply List.filter_congr
            intro n hn
            have hnlt := List.mem_range.mp hn
            cases hres : residual s q n with
            | false => rfl
            | true =>
              cases htomb : s.tomb n with
              | true => simp
              | false =>
                simp only [Bool.not_false, Bool.true_and]
                unfold residual at hres
                simp only [Bool.and_eq_true, List.all_eq_true] at hres
                have hlab : s.hasLabel n l = true := hres.2 l hlmem
                have hval : cyEq (s.prop n k) v = true := hres.1 (k, v) hkvmem
                rw [hlab]
                -- the node is in the index
                have hfl : firstOf s.nodes n = some l := h.own n l hlab
                unfold cyEq at hval
                cases hv' : s.prop n k with
                | none => rw [hv'] at hval; cases hval
                | some v' =>
                  rw [hv'] at hval
                  have := cyEqV_seekable hsk hval
                  subst this
                  simp only [A, hdl1, hdl2, hfl, beq_self_eq_true, Bool.true_and, hv']
                  unfold encIndexKey
                  rw [List.append_assoc]
                  exact isPrefixOf_self_append _ _

/-! ### whole histories -/

def firsts (s : State) : List (Option Label) := s.nodes.map (·.first)

theorem map_first_modify (ns : List Node) (i : Nat) (f : Node → Node) (hf : ∀ nd, (f nd).first = nd.first) :
    (ns.modify i f).map (·.first) = ns.map (·.first) := by
  apply List.ext_getElem?
  intro j
  rw [List.getElem?_map, List.getElem?_map, List.getElem?_modify]
  cases ns[j]? with
  | none => rfl
  | some nd => simp only [Option.map_eq_map, Option.map_some]; split <;> simp [hf]

theorem foldl_modify_firsts {α : Type} (ps : List α) (idx : α → Nat) (f : α → Node → Node)
    (hf : ∀ a nd, (f a nd).first = nd.first) (ns : List Node) :
    (ps.foldl (fun ns p => ns.modify (idx p) (f p)) ns).map (·.first) = ns.map (·.first) := by
  induction ps generalizing ns with
  | nil => rfl
  | cons p ps ih => simp only [List.foldl_cons]; rw [ih, map_first_modify _ _ _ (hf p)]

theorem applyLabels_firsts (ns : List Node) (tx : List TxOp) :
    (applyLabels ns tx).map (·.first) = ns.map (·.first) := by
  unfold applyLabels
  simp only []
  exact (foldl_modify_firsts _ (fun p : Nat × Label => p.1)
      (fun p nd => { nd with labels := nd.labels.filter (· != p.2) }) (fun _ _ => rfl) _).trans
    (foldl_modify_firsts _ (fun p : Nat × Label => p.1)
      (fun p nd => if nd.labels.contains p.2 then nd else { nd with labels := p.2 :: nd.labels })
      (fun _ nd => by split <;> rfl) ns)

theorem replay_firsts (ps : List (Bool × List TxOp)) (ns : List Node) :
    (ps.foldl (fun ns p => applyLabels ns p.2) ns).map (·.first) = ns.map (·.first) := by
  induction ps generalizing ns with
  | nil => rfl
  | cons p ps ih => simp only [List.foldl_cons]; rw [ih, applyLabels_firsts]

/-- the creation labels the history-level checks thread are those of the model state -/
theorem firsts_step (cfg : Cfg) (s : State) (op : Op) :
    firsts (step cfg s op) = firstsAfter (firsts s) op := by
  cases op with
  | commit tx =>
    show ((commit cfg s tx).nodes).map (·.first) = _
    rw [commit_nodes, applyLabels_firsts, nodesC_firsts]; rfl
  | index l k =>
    show (createIndex cfg s l k).nodes.map (·.first) = _
    unfold createIndex; split <;> rfl
  | compact =>
    show (compact s).nodes.map (·.first) = _
    unfold compact; split <;> rfl
  | reopen c =>
    show (List.foldl (fun ns p => applyLabels ns p.2) (s.nodes.map (fun nd => newNode nd.first))
      (reopen s c).pending).map (·.first) = _
    rw [replay_firsts, List.map_map]
    show s.nodes.map _ = s.nodes.map _
    apply List.map_congr_left
    intro nd _
    cases h : nd.first <;> simp [newNode, h]

theorem step_inv (m : Mode) (s : State) (op : Op) (h : Inv m s) (hop : ModeOp m op)
    (hok : ∀ tx, op = .commit tx → TxOK s tx) : Inv m (step Cfg.fixed s op) := by
  cases op with
  | commit tx => exact commit_inv m s tx h hop (hok tx rfl)
  | index l k => exact createIndex_inv m s l k h
  | compact => exact compact_inv m s h hop
  | reopen c => exact reopen_inv m s c h

theorem run_inv (m : Mode) : ∀ (h : List Op) (s : State), Inv m s →
    checkTx wfOp (firsts s) h = true → checkTx ownLabelOp (firsts s) h = true →
    (∀ op, op ∈ h → ModeOp m op) → Inv m (h.foldl (step Cfg.fixed) s) := by
  intro h
  induction h with
  | nil => intro s hi _ _ _; exact hi
  | cons op rest ih =>
    intro s hi hwf hown hmode
    simp only [List.foldl_cons]
    unfold checkTx at hwf hown
    simp only [Bool.and_eq_true] at hwf hown
    apply ih
    · apply step_inv m s op hi (hmode op List.mem_cons_self)
      intro tx htx
      subst htx
      intro o ho
      have h1 := hwf.1; have h2 := hown.1
      simp only [List.all_eq_true] at h1 h2
      exact ⟨h1 o ho, h2 o ho⟩
    · rw [firsts_step]; exact hwf.2
    · rw [firsts_step]; exact hown.2
    · intro o ho; exact hmode o (List.mem_cons_of_mem _ ho)

theorem inv_init (m : Mode) : Inv m State.init := by
  constructor
  · intro _ _ _; rfl
  · intro d hd; cases hd
  · intro n l h; simp [State.init, hasLabelOf] at h
  · intro p hp; cases hp
  · cases m
    · intro r hr; cases hr
    · rfl

/-- outside the two known triggers one of the two modes applies to every operation -/
theorem mode_of_not_trigger (h : List Op) (ht : trigRemCompact h = false) :
    (∀ op, op ∈ h → ModeOp .noRem op) ∨ (∀ op, op ∈ h → ModeOp .noCompact op) := by
  unfold trigRemCompact at ht
  rcases Bool.and_eq_false_iff.mp ht with h1 | h1
  · left
    intro op hop
    cases hr : isRemTx op with
    | false => exact hr
    | true => have : h.any isRemTx = true := List.any_eq_true.mpr ⟨op, hop, hr⟩; rw [h1] at this; cases this
  · right
    intro op hop
    cases hr : isCompact op with
    | false => exact hr
    | true => have : h.any isCompact = true := List.any_eq_true.mpr ⟨op, hop, hr⟩; rw [h1] at this; cases this

/-! ### the database without indexes sees the same graph -/

def SameView (s t : State) : Prop :=
  s.nodes = t.nodes ∧ s.runs = t.runs ∧ s.store = t.store ∧ s.pending = t.pending

theorem createIndex_view (cfg : Cfg) (s : State) (l : Label) (k : Key) :
    SameView (createIndex cfg s l k) s := by
  unfold createIndex
  split
  · exact ⟨rfl, rfl, rfl, rfl⟩
  · exact ⟨rfl, rfl, rfl, rfl⟩

theorem SameView.trans {a b c : State} (h1 : SameView a b) (h2 : SameView b c) : SameView a c :=
  ⟨h1.1.trans h2.1, h1.2.1.trans h2.2.1, h1.2.2.1.trans h2.2.2.1, h1.2.2.2.trans h2.2.2.2⟩

theorem SameView.symm {a b : State} (h : SameView a b) : SameView b a :=
  ⟨h.1.symm, h.2.1.symm, h.2.2.1.symm, h.2.2.2.symm⟩

theorem step_sameView (cfg : Cfg) (s t : State) (op : Op) (h : SameView s t) :
    SameView (step cfg s op) (step cfg t op) := by
  cases op with
  | commit tx =>
    obtain ⟨h1, h2, h3, h4⟩ := h
    simp only [step, commit, SameView, h1, h2, h4, h3, and_self]
  | index l k =>
    exact (createIndex_view cfg s l k).trans (h.trans (createIndex_view cfg t l k).symm)
  | compact =>
    obtain ⟨h1, h2, h3, h4⟩ := h
    simp only [step, compact, h2]
    split
    · exact ⟨h1, h2, h3, h4⟩
    · exact ⟨h1, rfl, by simp only [h3], by simp only [h4]⟩
  | reopen c =>
    obtain ⟨h1, h2, h3, h4⟩ := h
    simp only [step, reopen, SameView, h1, h2, h3, h4, and_self]

theorem index_sameView (cfg : Cfg) (s t : State) (l : Label) (k : Key) (h : SameView s t) :
    SameView (step cfg s (.index l k)) t :=
  (createIndex_view cfg s l k).trans h

theorem run_strip (cfg : Cfg) : ∀ (h : List Op) (s t : State), SameView s t → t.indexes = [] →
    SameView (h.foldl (step cfg) s) ((stripIndex h).foldl (step cfg) t) ∧
      ((stripIndex h).foldl (step cfg) t).indexes = [] := by
  intro h
  induction h with
  | nil => intro s t hv hi; exact ⟨hv, hi⟩
  | cons op rest ih =>
    intro s t hv hi
    unfold stripIndex
    cases hop : isIndexOp op with
    | true =>
      cases op <;> simp [isIndexOp] at hop
      rename_i l k
      simp only [List.foldl_cons, List.filter_cons, isIndexOp, Bool.not_true, Bool.false_eq_true, if_false]
      exact ih _ _ (index_sameView cfg s t l k hv) hi
    | false =>
      simp only [List.foldl_cons, List.filter_cons, hop, Bool.not_false, if_true]
      apply ih _ _ (step_sameView cfg s t op hv)
      cases op with
      | commit tx => simp only [step, commit, hi, List.map_nil]
      | index l k => simp [isIndexOp] at hop
      | compact => simp only [step, compact]; split <;> exact hi
      | reopen c => exact hi

theorem scanRows_sameView (s t : State) (q : Query) (h : SameView s t) : scanRows s q = scanRows t q := by
  obtain ⟨n1, r1, st1, p1, i1, x1⟩ := s
  obtain ⟨n2, r2, st2, p2, i2, x2⟩ := t
  obtain ⟨h1, h2, h3, h4⟩ := h
  simp only at h1 h2 h3 h4
  subst h1; subst h2; subst h3; subst h4
  rfl

/-- every history outside the two known triggers keeps the invariant (for one of the two modes) -/
theorem clean_inv (h : List Op) (hwf : WF h = true) (hD : trigNonFirstLabel h = false)
    (hF : trigRemCompact h = false) : ∃ m, Inv m (run Cfg.fixed h) := by
  have hown : checkTx ownLabelOp [] h = true := by
    unfold trigNonFirstLabel at hD
    cases hc : checkTx ownLabelOp [] h with
    | true => rfl
    | false => rw [hc] at hD; cases hD
  rcases mode_of_not_trigger h hF with hm | hm
  · exact ⟨.noRem, run_inv .noRem h State.init (inv_init _) hwf hown hm⟩
  · exact ⟨.noCompact, run_inv .noCompact h State.init (inv_init _) hwf hown hm⟩

/-- the assembled statement: indexes are transparent for every clean history -/
theorem transparent_of_clean (h : List Op) (hwf : WF h = true) (hD : trigNonFirstLabel h = false)
    (hF : trigRemCompact h = false) : Transparent Cfg.fixed h := by
  intro q
  obtain ⟨m, hinv⟩ := clean_inv h hwf hD hF
  obtain ⟨hv, hi⟩ := run_strip Cfg.fixed h State.init State.init ⟨rfl, rfl, rfl, rfl⟩ rfl
  unfold run at *
  rw [queryRows_eq_scan m _ q hinv, queryRows_noIndex _ _ q hi, scanRows_sameView _ _ q hv]

/-! ### exactness of the prefix scan (uses C27's key-level theorems, see Props/C15) -/

theorem properPrefix_iff : ∀ (a b : Bytes), properPrefix a b = true ↔ (a <+: b ∧ a ≠ b)
  | [], [] => by simp [properPrefix]
  | [], _ :: _ => by simp [properPrefix]
  | _ :: _, [] => by simp [properPrefix]
  | x :: xs, y :: ys => by
    simp only [properPrefix, Bool.and_eq_true, beq_iff_eq, properPrefix_iff xs ys, List.cons_prefix_cons]
    constructor
    · rintro ⟨rfl, h1, h2⟩; exact ⟨⟨rfl, h1⟩, by intro h; apply h2; injection h⟩
    · rintro ⟨⟨rfl, h1⟩, h2⟩; exact ⟨rfl, h1, by intro h; apply h2; rw [h]⟩

end Nervus.Index
