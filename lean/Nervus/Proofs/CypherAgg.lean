/-
  Operator lemmas 7 and 8 for C11: aggregation with implicit grouping keys (what the groups are; the single row
  over empty input) and ORDER BY (the executor's keyed sort is a merge sort of the rows by the reference
  comparator; its output is sorted whenever the value order is a total preorder).
-/
import Nervus.Proofs.CypherOps
import Nervus.Spec.Order
namespace Nervus.Cy
open Nervus.Cy

variable (A : Algebra) (env : Env)

/-! ### 7. grouping -/

/-- the executor groups exactly like the reference, by the values of the grouping columns -/
theorem groupRows_eq (gb : List String) (T : Table) :
    Exec.groupRows gb T = Spec.groupBy (fun r => gb.filterMap r.get) T := by
  induction T with
  | nil => rfl
  | cons r rest ih => simp only [Exec.groupRows, Spec.groupBy, ih]

/-- what "implicit grouping" means: one group per distinct key value, holding exactly the rows with that key
    (in input order), none of them empty, every input row in some group -/
def GroupsOf (key : Row → List Val) (T : Table) (gs : List (List Val × Table)) : Prop :=
  (gs.map (·.1)).Nodup ∧ (∀ p ∈ gs, p.2 = T.filter (fun r => key r == p.1) ∧ p.2 ≠ []) ∧
  (∀ r ∈ T, key r ∈ gs.map (·.1))

theorem map_fst_update (gs : List (List Val × Table)) (k : List Val) (r : Row) :
    (gs.map fun (p : List Val × Table) => if p.1 == k then (p.1, r :: p.2) else (p.1, p.2)).map (·.1) = gs.map (·.1) := by
  rw [List.map_map]
  apply List.map_congr_left
  intro p _
  simp only [Function.comp]
  split <;> rfl

theorem groupBy_groups (key : Row → List Val) (T : Table) : GroupsOf key T (Spec.groupBy key T) := by
  induction T with
  | nil =>
    unfold GroupsOf
    refine ⟨List.nodup_nil, ?_, ?_⟩ <;> intro _ h <;> cases h
  | cons r rest ih =>
    unfold GroupsOf at ih ⊢
    obtain ⟨hnd, hrows, hcov⟩ := ih
    simp only [Spec.groupBy]
    by_cases hany : (Spec.groupBy key rest).any (fun p => p.1 == key r) = true
    · rw [if_pos hany]
      have hmap : ((Spec.groupBy key rest).map fun (p : List Val × Table) =>
          if p.1 == key r then (p.1, r :: p.2) else (p.1, p.2)) =
          ((Spec.groupBy key rest).map fun (x : List Val × Table) =>
            match x with | (k', rs) => if k' == key r then (k', r :: rs) else (k', rs)) := by
        apply List.map_congr_left; intro p _; rfl
      rw [← hmap]
      refine ⟨by rw [map_fst_update]; exact hnd, ?_, ?_⟩
      · intro p hp
        obtain ⟨q, hq, rfl⟩ := List.mem_map.mp hp
        obtain ⟨h1, h2⟩ := hrows q hq
        by_cases hk : (q.1 == key r) = true
        · have hk' : key r == q.1 := by rw [eq_of_beq hk]; exact beq_self_eq_true _
          simp only [hk, ↓reduceIte, List.filter_cons, hk', ne_eq, reduceCtorEq, not_false_eq_true, and_true]
          rw [h1]
        · have hk' : (key r == q.1) = false := by
            cases h : key r == q.1
            · rfl
            · exact absurd (by rw [eq_of_beq h]; exact beq_self_eq_true _) hk
          simp only [hk, Bool.false_eq_true, ↓reduceIte, List.filter_cons, hk']
          exact ⟨h1, h2⟩
      · intro x hx
        rw [map_fst_update]
        rcases List.mem_cons.mp hx with rfl | hx
        · obtain ⟨p, hp, hpk⟩ := List.any_eq_true.mp hany
          rw [← eq_of_beq hpk]
          exact List.mem_map_of_mem hp
        · exact hcov x hx
    · rw [if_neg hany]
      have hnot : key r ∉ (Spec.groupBy key rest).map (·.1) := by
        intro hmem
        obtain ⟨p, hp, hpk⟩ := List.mem_map.mp hmem
        exact hany (List.any_eq_true.mpr ⟨p, hp, by rw [hpk]; exact beq_self_eq_true _⟩)
      refine ⟨?_, ?_, ?_⟩
      · simp only [List.map_cons]
        exact List.nodup_cons.mpr ⟨hnot, hnd⟩
      · intro p hp
        rcases List.mem_cons.mp hp with rfl | hp
        · have : rest.filter (fun x => key x == key r) = [] := by
            rw [List.filter_eq_nil_iff]
            intro x hx hxe
            exact hnot ((eq_of_beq hxe) ▸ hcov x hx)
          simp [List.filter_cons, this]
        · obtain ⟨h1, h2⟩ := hrows p hp
          have hk' : (key r == p.1) = false := by
            cases h : key r == p.1
            · rfl
            · exact absurd ((eq_of_beq h) ▸ List.mem_map_of_mem hp) hnot
          simp only [List.filter_cons, hk', Bool.false_eq_true, ↓reduceIte]
          exact ⟨h1, h2⟩
      · intro x hx
        simp only [List.map_cons]
        rcases List.mem_cons.mp hx with rfl | hx
        · exact List.mem_cons_self
        · exact List.mem_cons_of_mem _ (hcov x hx)

theorem groupRows_nil_key (T : Table) : Exec.groupRows [] T = if T.isEmpty then [] else [([], T)] := by
  induction T with
  | nil => rfl
  | cons r rest ih =>
    simp only [Exec.groupRows, ih, List.filterMap_nil, List.isEmpty_cons, Bool.false_eq_true, ↓reduceIte]
    cases rest with
    | nil => rfl
    | cons r' rest' => simp

/-- **operator lemma 7a (aggregation without grouping keys, incl. the empty-input row)** — exactly one output
    row, aggregating the whole input — also when the input is empty (`count(*)` = 0, `sum` = 0, `min` = null …),
    as the reference's `[([], T)]` prescribes. -/
theorem aggregate_global (aggs : List (AggFn × String)) (T : Table) :
    Exec.aggregate A env [] aggs T =
      [aggs.foldl (fun (r : Row) (p : AggFn × String) => r.set p.2 (Exec.aggValue A env p.1 T)) []] := by
  unfold Exec.aggregate
  rw [groupRows_nil_key]
  cases T with
  | nil => rfl
  | cons r rest => rfl

/-- **operator lemma 7b (aggregation with grouping keys)** — one row per reference group; no row over empty
    input. -/
theorem aggregate_keyed (gb : List String) (hgb : gb.isEmpty = false) (aggs : List (AggFn × String)) (T : Table) :
    Exec.aggregate A env gb aggs T =
      (Spec.groupBy (fun r => gb.filterMap r.get) T).map fun (p : List Val × Table) =>
        aggs.foldl (fun (r : Row) (q : AggFn × String) => r.set q.2 (Exec.aggValue A env q.1 p.2))
          ((gb.zip p.1).foldl (fun (r : Row) (kv : String × Val) => r.set kv.1 kv.2) []) := by
  simp only [Exec.aggregate, groupRows_eq, hgb, Bool.and_false, Bool.false_eq_true, ↓reduceIte]

theorem aggregate_keyed_empty (gb : List String) (hgb : gb.isEmpty = false) (aggs : List (AggFn × String)) :
    Exec.aggregate A env gb aggs [] = [] := by
  rw [aggregate_keyed A env gb hgb]; rfl

/-! ### 8. ORDER BY -/

/-- the reference comparator of ORDER BY on the rows the sort keys are evaluated in -/
def rowLe (items : List (Expr × Bool)) (a b : Row) : Bool :=
  match items with
  | [] => true
  | (e, asc) :: rest =>
    match A.ord (eval A env a e) (eval A env b e) with
    | .eq => rowLe rest a b
    | .lt => asc
    | .gt => !asc

theorem keyLe_eq_rowLe (items : List (Expr × Bool)) (a b : Row × Row) :
    Spec.keyLe A env items a b = rowLe A env items a.2 b.2 := by
  induction items with
  | nil => rfl
  | cons it rest ih => obtain ⟨e, asc⟩ := it; simp only [Spec.keyLe, rowLe, ih]; cases A.ord (eval A env a.2 e) (eval A env b.2 e) <;> rfl

theorem keysLe_eq_rowLe (items : List (Expr × Bool)) (a b : Row) :
    Exec.keysLe A (items.map fun (p : Expr × Bool) => (eval A env a p.1, p.2))
      (items.map fun (p : Expr × Bool) => (eval A env b p.1, p.2)) = rowLe A env items a b := by
  induction items with
  | nil => rfl
  | cons it rest ih => obtain ⟨e, asc⟩ := it; simp only [List.map_cons, Exec.keysLe, rowLe, ih]; cases A.ord (eval A env a e) (eval A env b e) <;> rfl

/-- **operator lemma 8a** — the executor's sort over precomputed keys is the stable merge sort of the rows by the
    reference comparator (so it is the very list the reference's ORDER BY denotes) -/
theorem orderBy_eq_mergeSort (items : List (Expr × Bool)) (T : Table) :
    Exec.orderBy A env items T = T.mergeSort (rowLe A env items) := by
  unfold Exec.orderBy
  rw [List.map_mergeSort (s := rowLe A env items)]
  · rw [List.map_map]
    congr 1
    exact List.map_id' T |>.symm ▸ (by simp [Function.comp])
  · intro a ha b hb
    obtain ⟨ra, _, rfl⟩ := List.mem_map.mp ha
    obtain ⟨rb, _, rfl⟩ := List.mem_map.mp hb
    exact keysLe_eq_rowLe A env items ra rb

theorem rowLe_total (h : Nervus.CmpLaws A.ord) (items : List (Expr × Bool)) (a b : Row) :
    (rowLe A env items a b || rowLe A env items b a) = true := by
  induction items with
  | nil => rfl
  | cons it rest ih =>
    obtain ⟨e, asc⟩ := it
    simp only [rowLe]
    have hs := h.swap (eval A env a e) (eval A env b e)
    cases hab : A.ord (eval A env a e) (eval A env b e) <;>
      cases hba : A.ord (eval A env b e) (eval A env a e) <;>
      simp_all [Ordering.swap] <;> cases asc <;> simp

theorem rowLe_trans (h : Nervus.CmpLaws A.ord) (items : List (Expr × Bool)) (a b c : Row)
    (h1 : rowLe A env items a b = true) (h2 : rowLe A env items b c = true) : rowLe A env items a c = true := by
  induction items with
  | nil => rfl
  | cons it rest ih =>
    obtain ⟨e, asc⟩ := it
    simp only [rowLe] at h1 h2 ⊢
    have t1 := h.trans (eval A env a e) (eval A env b e) (eval A env c e)
    have t2 := h.trans (eval A env c e) (eval A env b e) (eval A env a e)
    have s1 := h.swap (eval A env a e) (eval A env b e)
    have s2 := h.swap (eval A env b e) (eval A env c e)
    have s3 := h.swap (eval A env a e) (eval A env c e)
    cases hab : A.ord (eval A env a e) (eval A env b e) <;>
      cases hbc : A.ord (eval A env b e) (eval A env c e) <;>
      cases hba : A.ord (eval A env b e) (eval A env a e) <;>
      cases hcb : A.ord (eval A env c e) (eval A env b e) <;>
      cases hca : A.ord (eval A env c e) (eval A env a e) <;>
      cases hac : A.ord (eval A env a e) (eval A env c e) <;>
      simp_all [Ordering.swap, Ordering.then]

/-- **operator lemma 8b (sortedness)** — when the value order is a total preorder, the output of ORDER BY is
    sorted: no row is followed (anywhere later) by a row that the comparator puts strictly before it. -/
theorem orderBy_sorted (h : Nervus.CmpLaws A.ord) (items : List (Expr × Bool)) (T : Table) :
    (Exec.orderBy A env items T).Pairwise fun a b => rowLe A env items a b = true := by
  rw [orderBy_eq_mergeSort]
  exact List.pairwise_mergeSort (rowLe_trans A env h items) (rowLe_total A env h items) T

/-- … and stable: rows that compare equal keep their input order (`sublist_mergeSort`) -/
theorem orderBy_stable (h : Nervus.CmpLaws A.ord) (items : List (Expr × Bool)) (T : Table) (a b : Row)
    (hab : rowLe A env items a b = true) (hin : [a, b].Sublist T) :
    [a, b].Sublist (Exec.orderBy A env items T) := by
  rw [orderBy_eq_mergeSort]
  exact List.sublist_mergeSort (rowLe_trans A env h items) (rowLe_total A env h items)
    (by simp [hab]) hin

end Nervus.Cy
