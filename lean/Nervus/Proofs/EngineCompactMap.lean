/-
  Proofs/EngineCompactMap.lean — property sinking against the WHOLE-MAP property reads (C05):
  `node_properties` / `edge_properties` are unchanged, key by key, by a compaction when the runs hold no
  removal (after the `fix:` that makes the whole-map scan keep the newest store entry of a key).
-/
import Nervus.Proofs.EngineCompactProps
import Nervus.Proofs.ReopenSim
namespace Nervus.Storage

/-- the whole-map scan keeps the newest store entry of a key (regenerated fact; the `fix:` is present) -/
theorem extend_keeps_newest : Generated.extendKeepsNewest = true := by decide

/-- `or_insert` over the fetched entries: a key already present keeps its value, otherwise the FIRST
    fetched entry of the key wins -/
theorem lookup_fold_orInsert_first (l : List (Nat × PV)) (acc : List (Nat × PV)) (k : Nat) :
    (l.foldl (fun m kv => if true && m.any (·.1 == kv.1) then m else upsert kv.1 kv.2 m) acc).lookup k =
      (match acc.lookup k with | some v => some v | none => l.lookup k) := by
  induction l generalizing acc with
  | nil => simp only [List.foldl_nil, List.lookup_nil]; cases acc.lookup k <;> rfl
  | cons p ps ih =>
    obtain ⟨a, b⟩ := p
    rw [List.foldl_cons, ih]
    simp only [Bool.true_and]
    by_cases hany : acc.any (·.1 == a) = true
    · simp only [hany, if_true]
      cases hl : acc.lookup k with
      | some v => rfl
      | none =>
        have hne : (k == a) = false := by
          rw [Bool.eq_false_iff]; intro h
          have hka : k = a := by simpa using h
          obtain ⟨q, hq, hqa⟩ := List.any_eq_true.mp hany
          simp only [beq_iff_eq] at hqa
          obtain ⟨v, hv⟩ := lookup_some_of_mem_key acc q hq
          rw [hqa, ← hka, hl] at hv; cases hv
        simp [List.lookup_cons, hne]
    · have hany' : acc.any (·.1 == a) = false := by
        cases h : acc.any (·.1 == a) with
        | true => exact absurd h hany
        | false => rfl
      have hnone : acc.lookup a = none := by
        apply lookup_eq_none_of_not_mem_keys
        intro q hq heq
        have : acc.any (·.1 == a) = true := List.any_eq_true.mpr ⟨q, hq, by simp [heq]⟩
        rw [hany'] at this; cases this
      simp only [hany', Bool.false_eq_true, if_false]
      rw [lookup_upsert]
      by_cases hk : k = a
      · subst hk; simp [hnone, List.lookup_cons]
      · have hne : (k == a) = false := by simpa using hk
        simp only [hk, if_false, List.lookup_cons, hne]

/-- the fetched entries of a node, looked up by key = the store looked up by the full key (newest entry),
    for keys the overlay does not hold -/
theorem fetchNode_lookup (st : Store) (n : Nat) (props : List (Nat × PV)) (k : Nat)
    (hk : props.lookup k = none) :
    (st.fetchNode n props).lookup k = st.lookup (SKey.node n k) := by
  unfold Store.fetchNode
  have hany : props.any (·.1 == k) = false := by
    rw [Bool.eq_false_iff]; intro h
    obtain ⟨q, hq, hqk⟩ := List.any_eq_true.mp h
    simp only [beq_iff_eq] at hqk
    obtain ⟨v, hv⟩ := lookup_some_of_mem_key props q hq
    rw [hqk, hk] at hv; cases hv
  induction st with
  | nil => rfl
  | cons p ps ih =>
    obtain ⟨key, v⟩ := p
    rw [List.filterMap_cons]
    cases key with
    | edge e k' =>
      have : (SKey.node n k == SKey.edge e k') = false := by
        simp only [beq_eq_false_iff_ne, ne_eq, reduceCtorEq, not_false_eq_true]
      simp only [ih, List.lookup_cons, this]
    | node n' k' =>
      by_cases hm : n' = n ∧ k' = k
      · obtain ⟨rfl, rfl⟩ := hm
        simp only [beq_self_eq_true, hany, Bool.not_false, Bool.and_self, if_true, List.lookup_cons]
      · have hne : (SKey.node n k == SKey.node n' k') = false := by
          simp only [beq_eq_false_iff_ne, ne_eq, SKey.node.injEq, not_and]
          intro h1 h2; exact hm ⟨h1.symm, h2.symm⟩
        by_cases hc : (n' == n && !props.any (·.1 == k')) = true
        · have hkk : (k == k') = false := by
            simp only [Bool.and_eq_true, beq_iff_eq] at hc
            simp only [beq_eq_false_iff_ne, ne_eq]
            intro h; exact hm ⟨hc.1, h.symm⟩
          simp only [hc, if_true, List.lookup_cons, hkk, hne, ih]
        · have hc' : (n' == n && !props.any (·.1 == k')) = false := by
            cases hq : (n' == n && !props.any (·.1 == k')) with
            | true => exact absurd hq hc
            | false => rfl
          simp only [hc', Bool.false_eq_true, if_false, List.lookup_cons, hne, ih]

theorem fetchEdge_lookup (st : Store) (e : Edge) (props : List (Nat × PV)) (k : Nat)
    (hk : props.lookup k = none) :
    (st.fetchEdge e props).lookup k = st.lookup (SKey.edge e k) := by
  unfold Store.fetchEdge
  have hany : props.any (·.1 == k) = false := by
    rw [Bool.eq_false_iff]; intro h
    obtain ⟨q, hq, hqk⟩ := List.any_eq_true.mp h
    simp only [beq_iff_eq] at hqk
    obtain ⟨v, hv⟩ := lookup_some_of_mem_key props q hq
    rw [hqk, hk] at hv; cases hv
  induction st with
  | nil => rfl
  | cons p ps ih =>
    obtain ⟨key, v⟩ := p
    rw [List.filterMap_cons]
    cases key with
    | node n' k' =>
      have : (SKey.edge e k == SKey.node n' k') = false := by
        simp only [beq_eq_false_iff_ne, ne_eq, reduceCtorEq, not_false_eq_true]
      simp only [ih, List.lookup_cons, this]
    | edge e' k' =>
      by_cases hm : e' = e ∧ k' = k
      · obtain ⟨rfl, rfl⟩ := hm
        simp only [beq_self_eq_true, hany, Bool.not_false, Bool.and_self, if_true, List.lookup_cons]
      · have hne : (SKey.edge e k == SKey.edge e' k') = false := by
          simp only [beq_eq_false_iff_ne, ne_eq, SKey.edge.injEq, not_and]
          intro h1 h2; exact hm ⟨h1.symm, h2.symm⟩
        by_cases hc : (e' == e && !props.any (·.1 == k')) = true
        · have hkk : (k == k') = false := by
            simp only [Bool.and_eq_true, beq_iff_eq] at hc
            simp only [beq_eq_false_iff_ne, ne_eq]
            intro h; exact hm ⟨hc.1, h.symm⟩
          simp only [hc, if_true, List.lookup_cons, hkk, hne, ih]
        · have hc' : (e' == e && !props.any (·.1 == k')) = false := by
            cases hq : (e' == e && !props.any (·.1 == k')) with
            | true => exact absurd hq hc
            | false => rfl
          simp only [hc', Bool.false_eq_true, if_false, List.lookup_cons, hne, ih]

theorem lookup_reverse_eq_of_nodup {κ ν} [BEq κ] [LawfulBEq κ] (l : List (κ × ν)) (hn : (l.map (·.1)).Nodup) (k : κ) :
    l.reverse.lookup k = l.lookup k := by
  cases hl : l.lookup k with
  | some v => exact lookup_reverse_of_nodup l hn k v (mem_of_lookup_eq_some _ _ _ hl)
  | none =>
    apply lookup_eq_none_of_not_mem_keys
    intro p hp heq
    obtain ⟨v, hv⟩ := lookup_some_of_mem_key l p (List.mem_reverse.mp hp)
    rw [heq, hl] at hv; cases hv

theorem sink_inner_nodup {κ} [DecidableEq κ] (ps acc : List (κ × PV)) (h : (acc.map (·.1)).Nodup) :
    ((ps.foldl (fun acc p => if acc.any (fun q => @BEq.beq κ instBEqOfDecidableEq q.1 p.1) then acc else acc ++ [p]) acc).map (·.1)).Nodup := by
  induction ps generalizing acc with
  | nil => exact h
  | cons p ps ih =>
    rw [List.foldl_cons]
    apply ih
    split
    · exact h
    · rename_i hany
      rw [List.map_append, List.nodup_append]
      refine ⟨h, by simp, ?_⟩
      intro a ha b hb
      simp only [List.map_cons, List.map_nil, List.mem_singleton] at hb
      subst hb
      intro hab; subst hab
      apply hany
      obtain ⟨q, hq, hqa⟩ := List.mem_map.mp ha
      exact List.any_eq_true.mpr ⟨q, hq, by simp [hqa]⟩

theorem sinkProps_nodup {κ} [DecidableEq κ] (sel : Run → List (κ × PV)) (runs : List Run) :
    ((Engine.sinkProps sel runs).map (·.1)).Nodup := by
  unfold Engine.sinkProps
  suffices h : ∀ acc : List (κ × PV), (acc.map (·.1)).Nodup →
      ((runs.foldl (fun acc r => (sel r).foldl (fun acc p => if acc.any (fun q => @BEq.beq κ instBEqOfDecidableEq q.1 p.1) then acc else acc ++ [p]) acc) acc).map (·.1)).Nodup from
    h [] List.nodup_nil
  induction runs with
  | nil => intro acc h; exact h
  | cons r rs ih => intro acc h; rw [List.foldl_cons]; exact ih _ (sink_inner_nodup _ _ h)

/-- extend_node_properties_from_store, per key: the run overlay wins, otherwise the NEWEST store entry
    (what `node_property` returns) -/
theorem extendNode_lookup (st : Store) (n : Nat) (props : List (Nat × PV)) (k : Nat) :
    (st.extendNode n props).lookup k =
      (match props.lookup k with | some v => some v | none => st.lookup (SKey.node n k)) := by
  unfold Store.extendNode Store.extendWith
  rw [extend_keeps_newest, lookup_fold_orInsert_first]
  cases hp : props.lookup k with
  | none => simp only; exact fetchNode_lookup st n props k hp
  | some v => rfl

theorem extendEdge_lookup (st : Store) (e : Edge) (props : List (Nat × PV)) (k : Nat) :
    (st.extendEdge e props).lookup k =
      (match props.lookup k with | some v => some v | none => st.lookup (SKey.edge e k)) := by
  unfold Store.extendEdge Store.extendWith
  rw [extend_keeps_newest, lookup_fold_orInsert_first]
  cases hp : props.lookup k with
  | none => simp only; exact fetchEdge_lookup st e props k hp
  | some v => rfl

/-- `node_properties`, key by key: exactly what the single-key read `node_property` answers -/
theorem nodeProps_lookup (x : Engine) (n k : Nat) : (x.nodeProps n).lookup k = x.nodeProp n k := by
  unfold Engine.nodeProps Engine.nodeProp
  by_cases h0 : (x.propsRoot != 0) = true
  · simp only [h0, if_true]
    rw [extendNode_lookup, mergeNProps_eq_npropRuns]
    cases npropRuns n k x.runs <;> rfl
  · have h00 : x.propsRoot = 0 := by simpa using h0
    simp only [h0, Bool.false_eq_true, if_false]
    rw [mergeNProps_eq_npropRuns, visibleStore_noRoot h00]
    cases npropRuns n k x.runs <;> rfl

/-- `edge_properties`, key by key: exactly what `edge_property` answers -/
theorem edgeProps_lookup (x : Engine) (e : Edge) (k : Nat) : (x.edgeProps e).lookup k = x.edgeProp e k := by
  unfold Engine.edgeProps Engine.edgeProp
  by_cases h0 : (x.propsRoot != 0) = true
  · simp only [h0, if_true]
    rw [extendEdge_lookup, mergeEProps_eq_epropRuns]
    cases epropRuns e k x.runs <;> rfl
  · have h00 : x.propsRoot = 0 := by simpa using h0
    simp only [h0, Bool.false_eq_true, if_false]
    rw [mergeEProps_eq_epropRuns, visibleStore_noRoot h00]
    cases epropRuns e k x.runs <;> rfl

/-- `node_properties` / `edge_properties` (whole maps) are unchanged, key by key, by a compaction of runs
    without property removals -/
theorem compact_nodeProps (c : Cfg) (hflag : c.rootAfterInserts = true) (s : Engine)
    (hdel : ∀ r ∈ s.runs, r.nDel = []) (hroot : RootOK s) (n k : Nat) :
    ((s.compact c).nodeProps n).lookup k = (s.nodeProps n).lookup k := by
  rw [nodeProps_lookup, nodeProps_lookup, compact_nodeProp c hflag s hdel hroot]

theorem compact_edgeProps (c : Cfg) (hflag : c.rootAfterInserts = true) (s : Engine)
    (hdel : ∀ r ∈ s.runs, r.eDel = []) (hroot : RootOK s) (e : Edge) (k : Nat) :
    ((s.compact c).edgeProps e).lookup k = (s.edgeProps e).lookup k := by
  rw [edgeProps_lookup, edgeProps_lookup, compact_edgeProp c hflag s hdel hroot]

end Nervus.Storage
