/-
  Proofs/EngineCompactMap.lean — property sinking against the WHOLE-MAP property reads (C05):
  `node_properties` / `edge_properties` are unchanged by a compaction when the runs hold no removal and
  no key that is already in the store.
-/
import Nervus.Proofs.EngineCompactProps
import Nervus.Proofs.ReopenSim
namespace Nervus.Storage

/-- folding `upsert` over a list: the LAST entry of a key wins, keys not in the list keep their value -/
theorem lookup_fold_upsert_last {κ} [DecidableEq κ] [BEq κ] [LawfulBEq κ] (l : List (κ × PV)) (acc : List (κ × PV)) (k : κ) :
    (l.foldl (fun m kv => upsert kv.1 kv.2 m) acc).lookup k =
      (match l.reverse.lookup k with | some v => some v | none => acc.lookup k) := by
  induction l generalizing acc with
  | nil => rfl
  | cons p ps ih =>
    obtain ⟨a, b⟩ := p
    rw [List.foldl_cons, ih, List.reverse_cons, List.lookup_append, lookup_upsert]
    cases ps.reverse.lookup k with
    | some v => rfl
    | none =>
      simp only [Option.none_or, List.lookup_cons, List.lookup_nil]
      by_cases hk : k = a
      · subst hk; simp
      · have : (k == a) = false := by simpa using hk
        simp [hk, this]

/-- the oldest value the store holds for a node key -/
def lastNode (st : Store) (n k : Nat) : Option PV := st.reverse.lookup (SKey.node n k)
def lastEdge (st : Store) (e : Edge) (k : Nat) : Option PV := st.reverse.lookup (SKey.edge e k)

theorem filterMap_reverse_lookup_node (st : Store) (n : Nat) (props : List (Nat × PV)) (k : Nat)
    (hk : props.lookup k = none) :
    ((st.fetchNode n props).reverse).lookup k = lastNode st n k := by
  unfold lastNode Store.fetchNode
  have hany : props.any (·.1 == k) = false := by
    rw [Bool.eq_false_iff]; intro h
    obtain ⟨q, hq, hqk⟩ := List.any_eq_true.mp h
    simp only [beq_iff_eq] at hqk
    obtain ⟨v, hv⟩ := lookup_some_of_mem_key props q hq
    rw [hqk, hk] at hv; cases hv
  induction st with
  | nil => rfl
  | cons p ps ih =>
    obtain ⟨key, v⟩ := p
    rw [List.filterMap_cons, List.reverse_cons, List.lookup_append]
    cases key with
    | edge e k' =>
      simp only [List.reverse_cons, List.lookup_append, ih]
      have : (SKey.node n k == SKey.edge e k') = false := by
        simp only [beq_eq_false_iff_ne, ne_eq, reduceCtorEq, not_false_eq_true]
      simp [List.lookup_cons, this]
    | node n' k' =>
      by_cases hm : n' = n ∧ k' = k
      · obtain ⟨rfl, rfl⟩ := hm
        simp only [beq_self_eq_true, hany, Bool.not_false, Bool.and_self, if_true, List.reverse_cons,
          List.lookup_append, ih]
        cases ps.reverse.lookup (SKey.node n' k') <;> simp [List.lookup_cons]
      · have hne : (SKey.node n k == SKey.node n' k') = false := by
          simp only [beq_eq_false_iff_ne, ne_eq, SKey.node.injEq, not_and]
          intro h1 h2; exact hm ⟨h1.symm, h2.symm⟩
        by_cases hc : (n' == n && !props.any (·.1 == k')) = true
        · simp only [hc, if_true, List.reverse_cons, List.lookup_append, ih]
          have hkk : (k == k') = false := by
            simp only [Bool.and_eq_true, beq_iff_eq] at hc
            simp only [beq_eq_false_iff_ne, ne_eq]
            intro h; exact hm ⟨hc.1, h.symm⟩
          simp [List.lookup_cons, hne, hkk]
        · have hc' : (n' == n && !props.any (·.1 == k')) = false := by
            cases hq : (n' == n && !props.any (·.1 == k')) with
            | true => exact absurd hq hc
            | false => rfl
          simp only [hc', Bool.false_eq_true, if_false, List.lookup_append, ih]
          simp [List.lookup_cons, hne]

theorem lookup_reverse_eq_of_nodup {κ ν} [BEq κ] [LawfulBEq κ] (l : List (κ × ν)) (hn : (l.map (·.1)).Nodup) (k : κ) :
    l.reverse.lookup k = l.lookup k := by
  cases hl : l.lookup k with
  | some v => exact lookup_reverse_of_nodup l hn k v (mem_of_lookup_eq_some _ _ _ hl)
  | none =>
    apply lookup_eq_none_of_not_mem_keys
    intro p hp heq
    obtain ⟨v, hv⟩ := lookup_some_of_mem_key l p (List.mem_reverse.mp hp)
    rw [heq, hl] at hv; cases hv

theorem sink_inner_nodup {κ} [DecidableEq κ] (ps acc : List (κ × PV)) (h : (acc.map (·.1)).Nodup) :
    ((ps.foldl (fun acc p => if acc.any (fun q => @BEq.beq κ instBEqOfDecidableEq q.1 p.1) then acc else acc ++ [p]) acc).map (·.1)).Nodup := by
  induction ps generalizing acc with
  | nil => exact h
  | cons p ps ih =>
    rw [List.foldl_cons]
    apply ih
    split
    · exact h
    · rename_i hany
      rw [List.map_append, List.nodup_append]
      refine ⟨h, by simp, ?_⟩
      intro a ha b hb
      simp only [List.map_cons, List.map_nil, List.mem_singleton] at hb
      subst hb
      intro hab; subst hab
      apply hany
      obtain ⟨q, hq, hqa⟩ := List.mem_map.mp ha
      exact List.any_eq_true.mpr ⟨q, hq, by simp [hqa]⟩

theorem sinkProps_nodup {κ} [DecidableEq κ] (sel : Run → List (κ × PV)) (runs : List Run) :
    ((Engine.sinkProps sel runs).map (·.1)).Nodup := by
  unfold Engine.sinkProps
  suffices h : ∀ acc : List (κ × PV), (acc.map (·.1)).Nodup →
      ((runs.foldl (fun acc r => (sel r).foldl (fun acc p => if acc.any (fun q => @BEq.beq κ instBEqOfDecidableEq q.1 p.1) then acc else acc ++ [p]) acc) acc).map (·.1)).Nodup from
    h [] List.nodup_nil
  induction runs with
  | nil => intro acc h; exact h
  | cons r rs ih => intro acc h; rw [List.foldl_cons]; exact ih _ (sink_inner_nodup _ _ h)

/-- extend_node_properties_from_store, per key: the run overlay wins, otherwise the OLDEST store entry -/
theorem extendNode_lookup (st : Store) (n : Nat) (props : List (Nat × PV)) (k : Nat) :
    (st.extendNode n props).lookup k =
      (match props.lookup k with | some v => some v | none => lastNode st n k) := by
  unfold Store.extendNode
  rw [lookup_fold_upsert_last]
  cases hp : props.lookup k with
  | none =>
    rw [filterMap_reverse_lookup_node st n props k hp]
    cases lastNode st n k <;> simp
  | some v =>
    have : ((st.fetchNode n props).reverse).lookup k = none := by
      apply lookup_eq_none_of_not_mem_keys
      intro q hq heq
      unfold Store.fetchNode at hq
      obtain ⟨p, _, hpq⟩ := List.mem_filterMap.mp (List.mem_reverse.mp hq)
      have hany : props.any (·.1 == k) = true :=
        List.any_eq_true.mpr ⟨(k, v), mem_of_lookup_eq_some _ _ _ hp, by simp⟩
      cases hkey : p.1 with
      | edge e k' => rw [hkey] at hpq; cases hpq
      | node n' k' =>
        rw [hkey] at hpq
        simp only at hpq
        split at hpq
        · rename_i hc
          cases hpq
          simp only at heq
          subst heq
          simp only [Bool.and_eq_true, Bool.not_eq_true'] at hc
          rw [hc.2] at hany; cases hany
        · cases hpq
    rw [this]

/-- `node_properties` (whole map) is unchanged, key by key, by a compaction of runs without property
    removals whose node keys are not yet in the store -/
theorem compact_nodeProps (c : Cfg) (s : Engine) (hdel : ∀ r ∈ s.runs, r.nDel = [])
    (hroot : s.propsRoot = 0 → s.store = [])
    (hfresh : ∀ r ∈ s.runs, ∀ p ∈ r.nprops, lastNode s.store p.1.1 p.1.2 = none) (n k : Nat) :
    ((s.compact c).nodeProps n).lookup k = (s.nodeProps n).lookup k := by
  cases he : s.runs.isEmpty with
  | true =>
    have : s.compact c = s := by unfold Engine.compact; rw [he]; rfl
    rw [this]
  | false =>
    obtain ⟨h1, _, _, _⟩ := compact_fields c s he
    obtain ⟨hs, hr⟩ := compact_store c s he
    have hmerge : (mergeNProps n s.runs [] []).lookup k = firstRun (·.nprops) (n, k) s.runs := by
      rw [mergeNProps_eq_npropRuns, npropRuns_noDel n k s.runs hdel]
    have hsunk : lastNode (((Engine.sinkProps (·.nprops) s.runs).map (fun p => (SKey.node p.1.1 p.1.2, p.2)) ++
        (Engine.sinkProps (·.eprops) s.runs).map (fun p => (SKey.edge p.1.1 p.1.2, p.2))) ++ s.store) n k =
        (match lastNode s.store n k with | some v => some v | none => firstRun (·.nprops) (n, k) s.runs) := by
      unfold lastNode
      rw [List.reverse_append, List.lookup_append, List.reverse_append, List.lookup_append,
        ← List.map_reverse, ← List.map_reverse, lookup_map_node_edge, lookup_map_node,
        lookup_reverse_eq_of_nodup _ (sinkProps_nodup _ _), sinkProps_lookup]
      cases s.store.reverse.lookup (SKey.node n k) <;> simp
    -- a key with a value in the runs is not in the store
    have hno : ∀ v, firstRun (·.nprops) (n, k) s.runs = some v → lastNode s.store n k = none := by
      intro v hv
      suffices h : ∀ runs : List Run, (∀ r ∈ runs, ∀ p ∈ r.nprops, lastNode s.store p.1.1 p.1.2 = none) →
          firstRun (·.nprops) (n, k) runs = some v → lastNode s.store n k = none from h s.runs hfresh hv
      intro runs
      induction runs with
      | nil => intro _ h; cases h
      | cons r rs ih =>
        intro hf h
        simp only [firstRun] at h
        cases hl : r.nprops.lookup (n, k) with
        | some w => exact hf r List.mem_cons_self ((n, k), w) (mem_of_lookup_eq_some _ _ _ hl)
        | none => rw [hl] at h; exact ih (fun r' hr' => hf r' (List.mem_cons_of_mem _ hr')) h
    have hne_of : ∀ v, firstRun (·.nprops) (n, k) s.runs = some v →
        ((Engine.sinkProps (·.nprops) s.runs).map (fun p => (SKey.node p.1.1 p.1.2, p.2)) ++
          (Engine.sinkProps (·.eprops) s.runs).map (fun p => (SKey.edge p.1.1 p.1.2, p.2))).isEmpty = false := by
      intro v hv
      have hl := sinkProps_lookup (·.nprops) s.runs (n, k)
      rw [hv] at hl
      cases hq : Engine.sinkProps (·.nprops) s.runs with
      | nil => rw [hq] at hl; cases hl
      | cons a as => rfl
    generalize hsk : ((Engine.sinkProps (·.nprops) s.runs).map (fun p => (SKey.node p.1.1 p.1.2, p.2)) ++
        (Engine.sinkProps (·.eprops) s.runs).map (fun p => (SKey.edge p.1.1 p.1.2, p.2))) = sunk at hs hr hsunk hne_of
    have h10 : ((1 : Nat) != 0) = true := rfl
    have h00 : ((0 : Nat) != 0) = false := rfl
    -- the two sides, key by key
    have hafter : ((s.compact c).nodeProps n).lookup k =
        if ((if sunk.isEmpty then s.propsRoot else 1) != 0) = true then
          (match lastNode s.store n k with | some v => some v | none => firstRun (·.nprops) (n, k) s.runs)
        else none := by
      unfold Engine.nodeProps
      rw [h1, hs, hr]
      simp only [mergeNProps]
      by_cases hc : ((if sunk.isEmpty then s.propsRoot else 1) != 0) = true
      · rw [if_pos hc, if_pos hc, extendNode_lookup, hsunk]; rfl
      · rw [if_neg hc, if_neg hc]; rfl
    have hbefore : (s.nodeProps n).lookup k =
        (match firstRun (·.nprops) (n, k) s.runs with
          | some v => some v
          | none => if (s.propsRoot != 0) = true then lastNode s.store n k else none) := by
      unfold Engine.nodeProps
      simp only
      by_cases hc : (s.propsRoot != 0) = true
      · rw [if_pos hc, extendNode_lookup, hmerge]
        cases firstRun (·.nprops) (n, k) s.runs <;> simp [hc]
      · rw [if_neg hc, hmerge]
        cases firstRun (·.nprops) (n, k) s.runs <;> simp [hc]
    rw [hafter, hbefore]
    cases hf : firstRun (·.nprops) (n, k) s.runs with
    | some v =>
      rw [hne_of v hf, hno v hf]
      simp [h10]
    | none =>
      by_cases h0 : s.propsRoot = 0
      · have hst := hroot h0
        rw [h0, hst]
        simp only [h00, lastNode, List.reverse_nil, List.lookup_nil]
        split <;> simp
      · have hb : (s.propsRoot != 0) = true := by simpa using h0
        have hb' : ((if sunk.isEmpty then s.propsRoot else 1) != 0) = true := by
          split
          · exact hb
          · rfl
        rw [hb', hb]
        simp only [if_true]
        cases lastNode s.store n k <;> rfl

end Nervus.Storage
