/-
  Proofs.Compare — `<, <=, >, >=` (`compare_values`): the converse law for ALL values (`cv_conv`); on
  well-formed null/NaN-free plain values whose strings the engine compares as text (`lawDomain`) they are the
  ORDER BY comparison restricted to comparable classes (`cv_plain`), `=` holds exactly when that comparison
  says `Equal` (`ce_eq_oc`), hence `<=` is `<` or `=`, trichotomy, transitivity (`law_*`).  Core only.
-/
import Nervus.Proofs.Equality
import Nervus.Proofs.KeyCompare
namespace Nervus
open F64 Value Eval Spec

section
variable (E : Env)

/-- values `<` can order: the comparable classes of `compare_values` -/
def sameClass : Value → Value → Bool
  | .int _, .int _ | .int _, .float _ | .float _, .int _ | .float _, .float _ => true
  | .bool _, .bool _ => true
  | .str _, .str _ => true
  | .list _, .list _ => true
  | _, _ => false

theorem plain_mapsNaNFree : ∀ (v : Value), plain v = true → mapsNaNFree v = true
  | .list xs, h => by simp only [mapsNaNFree]; exact plainList_mnf xs h
  | .map _, h => by simp [plain] at h
  | .null, _ | .bool _, _ | .int _, _ | .float _, _ | .str _, _ | .nodeId _, _ | .externalId _, _ | .edgeKey _, _
  | .dateTime _, _ | .blob _, _ | .path _ _, _ => rfl
where
  plainList_mnf : ∀ (xs : List Value), plain.plainList xs = true → mapsNaNFree.mnfList xs = true
    | [], _ => rfl
    | x :: xs, h => by
      simp only [plain.plainList, Bool.and_eq_true] at h
      simp only [mapsNaNFree.mnfList, Bool.and_eq_true]
      exact ⟨plain_mapsNaNFree x h.1, plainList_mnf xs h.2⟩

/-- non-NaN numbers: the range comparison and the ORDER BY comparison coincide -/
theorem numCmp_nonNaN (a b : Value) (ha : isNum a = true) (hb : isNum b = true) (ca : clean a = true)
    (cb : clean b = true) : Eval.numCmp a b = some (numCmpNanLast a b) := by
  cases a <;> simp [isNum] at ha <;> cases b <;> simp [isNum] at hb <;>
    simp only [clean, Bool.not_eq_true'] at ca cb <;> simp only [Eval.numCmp, numCmpNanLast]
  case int.float x y => simp [fNaN, cb]
  case float.int x y => simp [fNaN, ca]
  case float.float x y => simp [F64.cmp, ca, cb, F64.cmpNanLast]

theorem orderCompare_num (a b : Value) (ha : isNum a = true) (hb : isNum b = true) :
    orderCompare E a b = numCmpNanLast a b := by
  cases a <;> simp [isNum] at ha <;> cases b <;> simp [isNum] at hb <;>
    simp only [orderCompare, orderCompareNonNull, Option.getD]


theorem cvflr_nonnull (x y : Value) (hx : x ≠ .null) (hy : y ≠ .null) :
    compareValueForListRange E x y = orderCompareNonNull E x y := by
  cases x <;> cases y <;> first | exact absurd rfl hx | exact absurd rfl hy | rfl

theorem ocElem_nonnull (x y : Value) (hx : x ≠ .null) (hy : y ≠ .null) :
    ocElem E x y = orderCompareNonNull E x y := by
  unfold ocElem
  cases x <;> cases y <;> first | exact absurd rfl hx | exact absurd rfl hy | rfl

theorem clean_ne_null {v : Value} (h : clean v = true) : v ≠ .null := by
  intro e; subst e; simp [clean] at h

/-- on null/NaN-free plain lists the range comparison is decided by `compare_lists_ordering` -/
theorem clfr_of_clo (op : CmpOp) : ∀ (xs ys : List Value), clean.cleanList xs = true → clean.cleanList ys = true →
    plain.plainList xs = true → plain.plainList ys = true →
    ∃ o, compareListsOrdering E xs ys = some o ∧ compareListsForRange E op xs ys = .bool (op.test o)
  | [], [], _, _, _, _ => ⟨.eq, rfl, rfl⟩
  | [], _ :: _, _, _, _, _ => ⟨.lt, rfl, rfl⟩
  | _ :: _, [], _, _, _, _ => ⟨.gt, rfl, rfl⟩
  | x :: xs, y :: ys, cx, cy, px, py => by
    simp only [clean.cleanList, plain.plainList, Bool.and_eq_true] at cx cy px py
    obtain ⟨o, ho, hr⟩ := clfr_of_clo op xs ys cx.2 cy.2 px.2 py.2
    have nx := clean_ne_null cx.1
    have ny := clean_ne_null cy.1
    have hs := ocnn_some E x y (plain_mapsNaNFree x px.1) (plain_mapsNaNFree y py.1)
    rw [clo_cons, ocElem_nonnull E x y nx ny]
    simp only [compareListsForRange, cvflr_nonnull E x y nx ny]
    cases h : orderCompareNonNull E x y with
    | none => rw [h] at hs; simp at hs
    | some o' =>
      cases o' with
      | eq => exact ⟨o, by simpa [thenP] using ho, by simpa using hr⟩
      | lt => exact ⟨.lt, rfl, rfl⟩
      | gt => exact ⟨.gt, rfl, rfl⟩

theorem orderCompare_list (xs ys : List Value) :
    orderCompare E (.list xs) (.list ys) = (compareListsOrdering E xs ys).getD .eq := by
  simp only [orderCompare, orderCompareNonNull]

/-- **(i)** on null/NaN-free plain values `<, <=, >, >=` are the ORDER BY comparison restricted to
    comparable classes -/
theorem cv_plain (op : CmpOp) (a b : Value) (ca : clean a = true) (cb : clean b = true) (pa : plain a = true)
    (pb : plain b = true) :
    compareValues E op a b = if sameClass a b then .bool (op.test (orderCompare E a b)) else .null := by
  cases a <;> first | (simp [clean] at ca; done) | (simp [plain] at pa; done) | skip
  all_goals (cases b <;> first | (simp [clean] at cb; done) | (simp [plain] at pb; done) | skip)
  all_goals try (simp only [compareValues, sameClass, Bool.false_eq_true, if_false]; done)
  case bool.bool x y => simp [compareValues, sameClass, orderCompare, orderCompareNonNull]
  case str.str x y => simp [compareValues, sameClass, orderCompare, orderCompareNonNull]
  case list.list xs ys =>
    obtain ⟨o, ho, hr⟩ := clfr_of_clo E op xs ys ca cb pa pb
    simp only [compareValues, sameClass, if_true, orderCompare_list, ho, Option.getD, hr]
  all_goals
    simp only [compareValues, sameClass, if_true, compareNumbersForRange]
    rw [numCmp_nonNaN _ _ rfl rfl ca cb, orderCompare_num E _ _ rfl rfl]

/-- coherence of the strings of two values: ordered-equal coincides with text equality -/
def Coh (a b : List Str) : Prop := ∀ x ∈ a, ∀ y ∈ b, (strCmp E x y = .eq ↔ x = y)

theorem Coh.mono {a b a' b' : List Str} (h : Coh E a b) (ha : ∀ x ∈ a', x ∈ a) (hb : ∀ x ∈ b', x ∈ b) : Coh E a' b' :=
  fun x hx y hy => h x (ha x hx) y (hb y hy)

theorem numCmp_spec_nonNaN (a b : Value) (ha : isNum a = true) (hb : isNum b = true) (ca : clean a = true)
    (cb : clean b = true) : Spec.numCmp a b = some (cmpTK (numF a) (numF b)) := by
  cases a <;> simp [isNum] at ha <;> cases b <;> simp [isNum] at hb <;>
    simp only [clean, Bool.not_eq_true'] at ca cb <;>
    simp [Spec.numCmp, Spec.numVal, numF, F64.cmp, isNaN_exact, ca, cb]

theorem beq_some_eq (o : Ordering) : (some o == some Ordering.eq) = (o == Ordering.eq) := by
  cases o <;> rfl

/-- the rank table separates the comparable classes: values of different classes are never `Equal` -/
macro "diff_class" : tactic => `(tactic|
  (simp [cypherEquals, deq, orderCompare, orderCompareNonNull, rank, cmpNat, dcmp, vidx, Generated.rankNull,
    Generated.rankBool, Generated.rankInt, Generated.rankFloat, Generated.rankString, Generated.rankList,
    Generated.rankMap]))

mutual
/-- **(ii)** on null/NaN-free plain values whose strings are compared as text, `=` holds exactly when the
    ORDER BY comparison says `Equal` -/
theorem ce_eq_oc : ∀ (a b : Value), clean a = true → clean b = true → plain a = true → plain b = true →
    a.wf = true → b.wf = true → Coh E (stringsOf a) (stringsOf b) →
    cypherEquals a b = .bool (orderCompare E a b == .eq)
  | .list xs, b, ca, cb, pa, pb, wa, wb, hS => by
    cases b <;> first | (simp [clean] at cb; done) | (simp [plain] at pb; done) | skip
    case list ys =>
      obtain ⟨o, ho, _⟩ := clfr_of_clo E .lt xs ys ca cb pa pb
      rw [list_eq_clo xs ys ca cb pa pb wa wb hS, orderCompare_list, ho, beq_some_eq]; rfl
    all_goals diff_class
  | .int x, b, ca, cb, pa, pb, wa, wb, hS => by
    cases b <;> first | (simp [clean] at cb; done) | (simp [plain] at pb; done) | skip
    case int y =>
      rw [cypherEquals_num _ _ rfl rfl wa wb, numCmp_spec_nonNaN _ _ rfl rfl ca cb, orderCompare_num E _ _ rfl rfl,
        numCmpNanLast_exact _ _ rfl rfl wa wb, beq_some_eq]
    case float y =>
      rw [cypherEquals_num _ _ rfl rfl wa wb, numCmp_spec_nonNaN _ _ rfl rfl ca cb, orderCompare_num E _ _ rfl rfl,
        numCmpNanLast_exact _ _ rfl rfl wa wb, beq_some_eq]
    all_goals diff_class
  | .float x, b, ca, cb, pa, pb, wa, wb, hS => by
    cases b <;> first | (simp [clean] at cb; done) | (simp [plain] at pb; done) | skip
    case int y =>
      rw [cypherEquals_num _ _ rfl rfl wa wb, numCmp_spec_nonNaN _ _ rfl rfl ca cb, orderCompare_num E _ _ rfl rfl,
        numCmpNanLast_exact _ _ rfl rfl wa wb, beq_some_eq]
    case float y =>
      rw [cypherEquals_num _ _ rfl rfl wa wb, numCmp_spec_nonNaN _ _ rfl rfl ca cb, orderCompare_num E _ _ rfl rfl,
        numCmpNanLast_exact _ _ rfl rfl wa wb, beq_some_eq]
    all_goals diff_class
  | .bool x, b, ca, cb, pa, pb, wa, wb, hS => by
    cases b <;> first | (simp [clean] at cb; done) | (simp [plain] at pb; done) | skip
    case bool y => cases x <;> cases y <;> rfl
    all_goals diff_class
  | .str x, b, ca, cb, pa, pb, wa, wb, hS => by
    cases b <;> first | (simp [clean] at cb; done) | (simp [plain] at pb; done) | skip
    case str y =>
      have hxy := hS x (by simp [stringsOf]) y (by simp [stringsOf])
      simp only [cypherEquals, deq, orderCompare, orderCompareNonNull, Option.getD]
      congr 1
      by_cases h : x = y
      · subst h; rw [hxy.2 rfl]; simp
      · have hne : strCmp E x y ≠ .eq := fun e => h (hxy.1 e)
        rw [beq_eq_false_iff_ne.2 h]
        cases hc : strCmp E x y <;> first | rfl | exact absurd hc hne
    all_goals diff_class
  | .null, _, ca, _, _, _, _, _, _ => by simp [clean] at ca
  | .map _, _, _, _, pa, _, _, _, _ => by simp [plain] at pa
  | .nodeId _, _, _, _, pa, _, _, _, _ => by simp [plain] at pa
  | .externalId _, _, _, _, pa, _, _, _, _ => by simp [plain] at pa
  | .edgeKey _, _, _, _, pa, _, _, _, _ => by simp [plain] at pa
  | .dateTime _, _, _, _, pa, _, _, _, _ => by simp [plain] at pa
  | .blob _, _, _, _, pa, _, _, _, _ => by simp [plain] at pa
  | .path _ _, _, _, _, pa, _, _, _, _ => by simp [plain] at pa
theorem list_eq_clo : ∀ (xs ys : List Value), clean.cleanList xs = true → clean.cleanList ys = true →
    plain.plainList xs = true → plain.plainList ys = true → wfList xs = true → wfList ys = true →
    Coh E (stringsOf (.list xs)) (stringsOf (.list ys)) →
    cypherEquals (.list xs) (.list ys) = .bool (compareListsOrdering E xs ys == some .eq)
  | [], [], _, _, _, _, _, _, _ => rfl
  | [], _ :: _, _, _, _, _, _, _, _ => rfl
  | _ :: _, [], _, _, _, _, _, _, _ => rfl
  | x :: xs, y :: ys, cx, cy, px, py, wx, wy, hS => by
    simp only [clean.cleanList, plain.plainList, wfList, Bool.and_eq_true] at cx cy px py wx wy
    rw [stringsOf_list_cons, stringsOf_list_cons] at hS
    have hS1 : Coh E (stringsOf x) (stringsOf y) :=
      hS.mono E (fun _ h => List.mem_append_left _ h) (fun _ h => List.mem_append_left _ h)
    have hS2 : Coh E (stringsOf (.list xs)) (stringsOf (.list ys)) :=
      hS.mono E (fun _ h => List.mem_append_right _ h) (fun _ h => List.mem_append_right _ h)
    have ih := list_eq_clo xs ys cx.2 cy.2 px.2 py.2 wx.2 wy.2 hS2
    have he := ce_eq_oc x y cx.1 cy.1 px.1 py.1 wx.1 wy.1 hS1
    have nx := clean_ne_null cx.1
    have ny := clean_ne_null cy.1
    have hoc := orderCompare_eq_ocnn E x y nx ny (plain_mapsNaNFree x px.1) (plain_mapsNaNFree y py.1)
    rw [clo_cons, ocElem_nonnull E x y nx ny, hoc]
    simp only [cypherEquals] at ih ⊢
    by_cases hl : xs.length = ys.length
    · have e1 : (xs.length != ys.length) = false := by simpa using hl
      have e2 : ((x :: xs).length != (y :: ys).length) = false := by simpa using hl
      simp only [e1, Bool.false_eq_true, if_false] at ih
      simp only [e2, Bool.false_eq_true, if_false]
      rw [cypherEqualsSeq, he, ih]
      cases orderCompare E x y <;> cases h2 : compareListsOrdering E xs ys <;> simp [eqStep, thenP] <;>
        rename_i o <;> cases o <;> simp
    · have e1 : (xs.length != ys.length) = true := by simpa using hl
      have e2 : ((x :: xs).length != (y :: ys).length) = true := by simpa using hl
      simp only [e1, if_true, Value.bool.injEq] at ih
      simp only [e2, if_true, Value.bool.injEq]
      have ih' : ¬ compareListsOrdering E xs ys = some Ordering.eq := by
        intro e; rw [e] at ih; simp at ih
      cases orderCompare E x y <;> simp [thenP] <;> exact ih'
end

/-! ### converse: `a < b ⇔ b > a`, `a <= b ⇔ b >= a` — for ALL values -/

def Eval.CmpOp.conv : CmpOp → CmpOp
  | .lt => .gt | .le => .ge | .gt => .lt | .ge => .le

theorem test_conv (op : CmpOp) (o : Ordering) : op.test o = op.conv.test o.swap := by
  cases op <;> cases o <;> rfl

theorem numCmp_swap (a b : Value) : Eval.numCmp a b = (Eval.numCmp b a).map Ordering.swap := by
  cases a <;> cases b <;> simp only [Eval.numCmp, Option.map] <;> try rfl
  case int.int x y => rw [cmpInt_laws.swap]
  case int.float x y => by_cases h : fNaN y = true <;> simp [h]
  case float.int x y => by_cases h : fNaN x = true <;> simp [h]
  case float.float x y => exact f64cmp_plaws.swap _ _

theorem cvflr_swap (x y : Value) :
    compareValueForListRange E x y = (compareValueForListRange E y x).map Ordering.swap := by
  cases x <;> cases y <;> first | rfl | exact ocnn_swap E _ _

theorem clfr_conv (op : CmpOp) : ∀ (xs ys : List Value),
    compareListsForRange E op xs ys = compareListsForRange E op.conv ys xs
  | [], [] => by simp [compareListsForRange, test_conv op]
  | [], _ :: _ => by simp [compareListsForRange, test_conv op]
  | _ :: _, [] => by simp [compareListsForRange, test_conv op]
  | x :: xs, y :: ys => by
    simp only [compareListsForRange]
    rw [cvflr_swap E x y]
    cases h : compareValueForListRange E y x with
    | none => rfl
    | some o =>
      cases o <;> simp only [Option.map, Ordering.swap]
      · rw [test_conv op]; rfl
      · exact clfr_conv op xs ys
      · rw [test_conv op]; rfl

/-- **converse law, all values**: `a op b = b op⁻¹ a` -/
theorem cv_conv (op : CmpOp) (a b : Value) : compareValues E op a b = compareValues E op.conv b a := by
  cases a <;> cases b <;> simp only [compareValues] <;> try rfl
  case bool.bool x y => rw [cmpBool_laws.swap, test_conv op]; simp
  case str.str x y => rw [strCmp_swap, test_conv op]; simp
  case list.list xs ys => exact clfr_conv E op xs ys
  all_goals
    simp only [compareNumbersForRange]
    rw [numCmp_swap]
    cases Eval.numCmp _ _ <;> simp [test_conv op]

/-! ### consistency of `<`, `<=`, `>`, `>=` with `=` on null/NaN-free plain values compared as text -/

theorem coh_of_strEqOK (ss : List Str) (h : strEqOK E ss = true) : Coh E ss ss := by
  simp only [strEqOK, List.all_eq_true, beq_iff_eq] at h
  intro x hx y hy
  have := h x hx y hy
  constructor
  · intro e; rw [e] at this; simpa using this.symm
  · intro e; subst e
    cases hc : strCmp E x x <;> simp [hc] at this ⊢

/-- the domain of the ordering laws of C23: well-formed, null/NaN-free, plain values on whose strings
    ordered-equal is text equality and the comparison is transitive (no trigger of C23 holds) -/
def lawDomain (vs : List Value) : Bool :=
  vs.all (fun v => v.wf && clean v && plain v) &&
    (strEqOK E (vs.flatMap stringsOf) && strTransOn E (vs.flatMap stringsOf))

theorem lawDomain_ordOK (vs : List Value) (h : lawDomain E vs = true) : ordOK E vs = true := by
  simp only [lawDomain, Bool.and_eq_true, List.all_eq_true] at h
  simp only [ordOK, Bool.and_eq_true, List.all_eq_true]
  exact ⟨fun v hv => ⟨(h.1 v hv).1.1, plain_mapsNaNFree v (h.1 v hv).2⟩, h.2.2⟩

theorem lawDomain_mem {vs : List Value} (h : lawDomain E vs = true) {v : Value} (hv : v ∈ vs) :
    v.wf = true ∧ clean v = true ∧ plain v = true := by
  simp only [lawDomain, Bool.and_eq_true, List.all_eq_true] at h
  exact ⟨(h.1 v hv).1.1, (h.1 v hv).1.2, (h.1 v hv).2⟩

theorem lawDomain_coh {vs : List Value} (h : lawDomain E vs = true) {a b : Value} (ha : a ∈ vs) (hb : b ∈ vs) :
    Coh E (stringsOf a) (stringsOf b) := by
  simp only [lawDomain, Bool.and_eq_true] at h
  exact (coh_of_strEqOK E _ h.2.1).mono E (fun x hx => List.mem_flatMap.2 ⟨a, ha, hx⟩)
    (fun x hx => List.mem_flatMap.2 ⟨b, hb, hx⟩)

/-- both facts about a pair of the domain -/
theorem pair_facts {vs : List Value} (h : lawDomain E vs = true) {a b : Value} (ha : a ∈ vs) (hb : b ∈ vs)
    (op : CmpOp) :
    compareValues E op a b = (if sameClass a b then .bool (op.test (orderCompare E a b)) else .null) ∧
    cypherEquals a b = .bool (orderCompare E a b == .eq) := by
  obtain ⟨wa, ca, pa⟩ := lawDomain_mem E h ha
  obtain ⟨wb, cb, pb⟩ := lawDomain_mem E h hb
  exact ⟨cv_plain E op a b ca cb pa pb, ce_eq_oc E a b ca cb pa pb wa wb (lawDomain_coh E h ha hb)⟩

theorem sameClass_trans {a b c : Value} (h1 : sameClass a b = true) (h2 : sameClass b c = true) :
    sameClass a c = true := by
  cases a <;> cases b <;> simp [sameClass] at h1 <;> cases c <;> simp [sameClass] at h2 <;> rfl

/-- combine `<` (or `>`) with `=`: the Kleene "or" restricted to comparable operands -/
def orEq : Value → Value → Value
  | .bool l, .bool e => .bool (l || e)
  | _, _ => .null

/-- **`<=` is `<` or `=`**, **`>=` is `>` or `=`** -/
theorem law_le_iff {vs : List Value} (h : lawDomain E vs = true) {a b : Value} (ha : a ∈ vs) (hb : b ∈ vs) :
    compareValues E .le a b = orEq (compareValues E .lt a b) (cypherEquals a b) ∧
    compareValues E .ge a b = orEq (compareValues E .gt a b) (cypherEquals a b) := by
  have f := fun op => pair_facts E h ha hb op
  rw [(f .le).1, (f .lt).1, (f .ge).1, (f .gt).1, (f .lt).2]
  cases sameClass a b <;> cases orderCompare E a b <;> simp [orEq, CmpOp.test]

/-- **trichotomy**: for comparable operands exactly one of `<`, `=`, `>` holds -/
theorem law_trichotomy {vs : List Value} (h : lawDomain E vs = true) {a b : Value} (ha : a ∈ vs) (hb : b ∈ vs)
    (hc : compareValues E .lt a b ≠ .null) :
    ∃ l e g, compareValues E .lt a b = .bool l ∧ cypherEquals a b = .bool e ∧ compareValues E .gt a b = .bool g ∧
      ((l && !e && !g) || (!l && e && !g) || (!l && !e && g)) = true := by
  have f := fun op => pair_facts E h ha hb op
  rw [(f .lt).1] at hc
  rw [(f .lt).1, (f .gt).1, (f .lt).2]
  cases hs : sameClass a b
  · simp [hs] at hc
  · cases orderCompare E a b <;> simp [CmpOp.test]

/-- `=` and `<` exclude each other, `=` implies `<=` and `>=` -/
theorem law_eq_le {vs : List Value} (h : lawDomain E vs = true) {a b : Value} (ha : a ∈ vs) (hb : b ∈ vs)
    (he : cypherEquals a b = .bool true) (hc : sameClass a b = true) :
    compareValues E .le a b = .bool true ∧ compareValues E .ge a b = .bool true ∧
    compareValues E .lt a b = .bool false ∧ compareValues E .gt a b = .bool false := by
  have f := fun op => pair_facts E h ha hb op
  rw [(f .lt).2] at he
  rw [(f .le).1, (f .ge).1, (f .lt).1, (f .gt).1, hc]
  cases ho : orderCompare E a b <;> simp [ho] at he <;> simp [CmpOp.test]

/-- **`<` is transitive** -/
theorem law_lt_trans {vs : List Value} (h : lawDomain E vs = true) {a b c : Value} (ha : a ∈ vs) (hb : b ∈ vs)
    (hc : c ∈ vs) (h1 : compareValues E .lt a b = .bool true) (h2 : compareValues E .lt b c = .bool true) :
    compareValues E .lt a c = .bool true := by
  have laws := orderCompare_lawsOn E vs (lawDomain_ordOK E vs h)
  rw [(pair_facts E h ha hb .lt).1] at h1
  rw [(pair_facts E h hb hc .lt).1] at h2
  rw [(pair_facts E h ha hc .lt).1]
  cases s1 : sameClass a b <;> simp [s1] at h1
  cases s2 : sameClass b c <;> simp [s2] at h2
  rw [sameClass_trans s1 s2]
  have e1 : orderCompare E a b = .lt := by cases ho : orderCompare E a b <;> simp [ho, CmpOp.test] at h1 <;> rfl
  have e2 : orderCompare E b c = .lt := by cases ho : orderCompare E b c <;> simp [ho, CmpOp.test] at h2 <;> rfl
  have := laws.trans a b c ha hb hc (by simp [e1]) (by simp [e2])
  rw [e1, e2] at this
  simp [this, CmpOp.test, Ordering.then]

/-- **`<=` is transitive** -/
theorem law_le_trans {vs : List Value} (h : lawDomain E vs = true) {a b c : Value} (ha : a ∈ vs) (hb : b ∈ vs)
    (hc : c ∈ vs) (h1 : compareValues E .le a b = .bool true) (h2 : compareValues E .le b c = .bool true) :
    compareValues E .le a c = .bool true := by
  have laws := orderCompare_lawsOn E vs (lawDomain_ordOK E vs h)
  rw [(pair_facts E h ha hb .le).1] at h1
  rw [(pair_facts E h hb hc .le).1] at h2
  rw [(pair_facts E h ha hc .le).1]
  cases s1 : sameClass a b <;> simp [s1] at h1
  cases s2 : sameClass b c <;> simp [s2] at h2
  rw [sameClass_trans s1 s2]
  have e1 : orderCompare E a b ≠ .gt := by cases ho : orderCompare E a b <;> simp [ho, CmpOp.test] at h1 <;> simp
  have e2 : orderCompare E b c ≠ .gt := by cases ho : orderCompare E b c <;> simp [ho, CmpOp.test] at h2 <;> simp
  have := laws.le_trans ha hb hc e1 e2
  cases ho : orderCompare E a c <;> simp [ho] at this <;> simp [CmpOp.test]

/-- outside the plain values `<` is undefined (`null`): maps, graph ids, blobs, paths are not ordered -/
theorem cv_nonplain (op : CmpOp) (a b : Value) (ha : inScope a = true) (hb : inScope b = true)
    (hp : plain a = false ∨ plain b = false) : compareValues E op a b = .null := by
  cases a <;> cases b <;> first | rfl | (simp [plain] at hp; done) | (simp [inScope] at ha hb; rcases hp with hp | hp <;> simp_all; done)
end
end Nervus
