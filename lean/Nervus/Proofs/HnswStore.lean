/-
  Helper lemmas for C31, durability part: after every successful engine insert the catalog records
  the root the in-memory tree uses, so the next open sees the very same tree.
-/
import Nervus.Model.HnswStore
namespace Nervus.HnswStore
open Nervus Nervus.BTree

variable {κ : Type} [KeyOrd κ]

/-- the catalog points at the root the running engine uses -/
def Synced (s : SysTree κ) : Prop := s.catRoot = s.tree.root

theorem sync_synced (s : SysTree κ) : Synced (s.sync true) := by
  unfold SysTree.sync Synced
  by_cases h : s.catRoot = s.tree.root
  · simp [h]
  · simp [h]

theorem reopen_of_synced (s : SysTree κ) (h : Synced s) : s.reopen = s := by
  obtain ⟨⟨pages, root, next⟩, cat⟩ := s
  unfold Synced at h
  simp only at h
  subst h
  rfl

theorem create_synced (c : Cfg) : Synced (SysTree.create c : SysTree κ) := rfl

theorem insertVector_synced (c : Cfg) (s s' : Store κ) (vw gw : List (κ × Nat))
    (h : insertVector true c s vw gw = (s', true)) : Synced s'.vec ∧ Synced s'.graph := by
  unfold insertVector at h
  cases hrv : writes c s.vec.tree vw with
  | mk tv okv =>
    rw [hrv] at h
    cases okv with
    | false => simp at h
    | true =>
      cases hrg : writes c s.graph.tree gw with
      | mk tg okg =>
        simp only [if_true, hrg] at h
        cases okg with
        | false => simp at h
        | true =>
          simp only [Bool.and_self, if_true, Prod.mk.injEq, and_true] at h
          rw [← h]
          exact ⟨sync_synced _, sync_synced _⟩

theorem runStore_synced (c : Cfg) : ∀ (ops : List (List (κ × Nat) × List (κ × Nat))) (s s' : Store κ),
    Synced s.vec → Synced s.graph → runStore true c s ops = (s', true) → Synced s'.vec ∧ Synced s'.graph
  | [], s, s', hv, hg, h => by
    simp only [runStore, Prod.mk.injEq] at h; obtain ⟨rfl, _⟩ := h; exact ⟨hv, hg⟩
  | (vw, gw) :: rest, s, s', _, _, h => by
    unfold runStore at h
    cases hi : insertVector true c s vw gw with
    | mk s1 ok =>
      rw [hi] at h
      cases ok with
      | false => simp at h
      | true =>
        simp only at h
        obtain ⟨a, b⟩ := insertVector_synced c s s1 vw gw hi
        exact runStore_synced c rest s1 s' a b h

theorem store_reopen_of_synced (s : Store κ) (hv : Synced s.vec) (hg : Synced s.graph) : s.reopen = s := by
  obtain ⟨v, g⟩ := s
  unfold Store.reopen
  simp only at hv hg
  rw [reopen_of_synced v hv, reopen_of_synced g hg]

end Nervus.HnswStore
