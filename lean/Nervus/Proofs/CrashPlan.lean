/-
  Proofs.CrashPlan — replay of logged node creations is idempotent and dense: whatever prefix of
  the node table reached the disk, recovery ends with the full node list.
-/
import Nervus.Proofs.CrashWal
namespace Nervus.Crash

def nodesOfOps : List Rec → List (Nat × Nat)
  | [] => []
  | .node x i :: r => (x, i) :: nodesOfOps r
  | _ :: r => nodesOfOps r

/-- the node records `(N[i], i), (N[i+1], i+1), …` of `k` consecutive nodes -/
def seqFrom (N : List Nat) (i : Nat) : Nat → List (Nat × Nat)
  | 0 => []
  | k + 1 => (getSlot N i, i) :: seqFrom N (i + 1) k

theorem nodesOfOps_append (a b : List Rec) : nodesOfOps (a ++ b) = nodesOfOps a ++ nodesOfOps b := by
  induction a with
  | nil => rfl
  | cons r a ih => cases r <;> simp [nodesOfOps, ih]

theorem seqFrom_append (N : List Nat) (i a b : Nat) :
    seqFrom N i (a + b) = seqFrom N i a ++ seqFrom N (i + a) b := by
  induction a generalizing i with
  | zero => simp [seqFrom]
  | succ a ih =>
    have : a + 1 + b = (a + b) + 1 := by omega
    rw [this]
    simp [seqFrom, ih, show i + 1 + a = i + (a + 1) by omega]

/-! ### list positions -/

theorem getSlot_mem : ∀ (N : List Nat) (i : Nat), i < N.length → getSlot N i ∈ N
  | [], i, h => by simp at h
  | x :: xs, 0, _ => by simp [getSlot]
  | x :: xs, i + 1, h => by
    have := getSlot_mem xs i (by simp at h; omega)
    simp [getSlot, this]

theorem posOf_take_of_nodup : ∀ (N : List Nat) (i l : Nat), N.Nodup → i < l → l ≤ N.length →
    posOf (getSlot N i) (N.take l) = some i
  | [], i, l, _, hi, hl => by simp at hl; omega
  | y :: ys, 0, l + 1, _, _, _ => by simp [posOf, getSlot]
  | y :: ys, i + 1, l + 1, hnd, hi, hl => by
    have hnd' := List.nodup_cons.mp hnd
    have hlen : i < ys.length := by simp at hl; omega
    have hne : y ≠ getSlot ys i := by
      intro h
      exact hnd'.1 (h ▸ getSlot_mem ys i hlen)
    have ih := posOf_take_of_nodup ys i l hnd'.2 (by omega) (by simp at hl; omega)
    simp [posOf, getSlot, hne, ih]

theorem posOf_none_of_not_mem : ∀ (xs : List Nat) (x : Nat), x ∉ xs → posOf x xs = none
  | [], _, _ => rfl
  | y :: ys, x, h => by
    have h1 : y ≠ x := fun e => h (by simp [e])
    have h2 : x ∉ ys := fun e => h (by simp [e])
    simp [posOf, h1, posOf_none_of_not_mem ys x h2]

theorem getSlot_not_mem_take : ∀ (N : List Nat) (l : Nat), N.Nodup → l < N.length →
    getSlot N l ∉ N.take l
  | [], l, _, h => by simp at h
  | x :: xs, 0, _, _ => by simp
  | x :: xs, l + 1, hnd, h => by
    have hnd' := List.nodup_cons.mp hnd
    have hlen : l < xs.length := by simp at h; omega
    have ih := getSlot_not_mem_take xs l hnd'.2 hlen
    have hne : getSlot xs l ≠ x := fun e => hnd'.1 (e ▸ getSlot_mem xs l hlen)
    simp [getSlot, ih, hne]

theorem take_succ_getSlot : ∀ (N : List Nat) (l : Nat), l < N.length →
    N.take (l + 1) = N.take l ++ [getSlot N l]
  | [], l, h => by simp at h
  | x :: xs, 0, _ => by simp [getSlot]
  | x :: xs, l + 1, h => by
    have := take_succ_getSlot xs l (by simp at h; omega)
    simp [getSlot, this]

theorem drop_take_cons : ∀ (N : List Nat) (i m : Nat), i < m → m ≤ N.length →
    (N.take m).drop i = getSlot N i :: (N.take m).drop (i + 1)
  | [], i, m, h1, h2 => by simp at h2; omega
  | x :: xs, 0, m + 1, _, _ => by simp [getSlot]
  | x :: xs, i + 1, m + 1, h1, h2 => by
    have := drop_take_cons xs i m (by omega) (by simp at h2; omega)
    simp [getSlot, this]

/-! ### planNodes -/

theorem planNodes_acc (ops : List Rec) (exts : List Nat) (len : Nat) (acc : List Nat) :
    planNodes ops exts len acc =
      ((planNodes ops exts len []).1, (planNodes ops exts len []).2.1, (planNodes ops exts len []).2.2.1,
        acc ++ (planNodes ops exts len []).2.2.2) := by
  induction ops generalizing exts len acc with
  | nil => simp [planNodes]
  | cons r ops ih =>
    cases r <;> simp only [planNodes] <;> try (rw [ih])
    case node x i =>
      split
      · split
        · simp
        · rw [ih]
      · split
        · simp
        · rw [ih, ih (acc := [] ++ [x])]; simp

theorem planNodes_append (a b : List Rec) (exts : List Nat) (len : Nat) (acc : List Nat) :
    planNodes (a ++ b) exts len acc =
      (match planNodes a exts len acc with
       | (none, e', l', acc') => planNodes b e' l' acc'
       | r => r) := by
  induction a generalizing exts len acc with
  | nil => simp [planNodes]
  | cons r a ih =>
    cases r <;> simp only [List.cons_append, planNodes] <;> try (exact ih _ _ _)
    case node x i =>
      split
      · split
        · rfl
        · exact ih _ _ _
      · split
        · rfl
        · exact ih _ _ _

/-- **idempotent, dense replay**: the logged nodes are positions `i … i+k-1` of the node list `N`,
    the node table already holds the first `l ≥ i` nodes: replay skips the ones that are there and
    appends the others in order, without error. -/
theorem planNodes_seq (N : List Nat) (hnd : N.Nodup) (h0 : 0 ∉ N) :
    ∀ (ops : List Rec) (i k l : Nat) (acc : List Nat),
      nodesOfOps ops = seqFrom N i k → i + k ≤ N.length → i ≤ l → l ≤ N.length →
      planNodes ops (N.take l) l acc =
        (none, N.take (max l (i + k)), max l (i + k), acc ++ (N.take (max l (i + k))).drop l) := by
  intro ops
  induction ops with
  | nil =>
    intro i k l acc h hk hil hl
    cases k with
    | zero =>
      have h1 : max l (i + 0) = l := by omega
      rw [h1]
      simp [planNodes]
    | succ k => simp [nodesOfOps, seqFrom] at h
  | cons r ops ih =>
    intro i k l acc h hk hil hl
    cases r
    case node x j =>
      cases k with
      | zero => simp [nodesOfOps, seqFrom] at h
      | succ k =>
        simp only [nodesOfOps, seqFrom, List.cons.injEq, Prod.mk.injEq] at h
        obtain ⟨⟨hx, hj⟩, hrest⟩ := h
        have hiN : i < N.length := by omega
        have hx0 : x ≠ 0 := by
          intro e; apply h0; rw [← e, hx]; exact getSlot_mem N i hiN
        simp only [planNodes, hx0, if_false]
        by_cases hlt : i < l
        · rw [hx, posOf_take_of_nodup N i l hnd hlt hl]
          simp only [hj, ne_eq, not_true_eq_false, if_false]
          rw [ih (i + 1) k l acc hrest (by omega) (by omega) hl]
          simp [show i + 1 + k = i + (k + 1) by omega]
        · have hil' : i = l := by omega
          subst hil'
          rw [hx, posOf_none_of_not_mem _ _ (getSlot_not_mem_take N i hnd hiN)]
          simp only [hj, ne_eq, not_true_eq_false, if_false]
          rw [← take_succ_getSlot N i hiN]
          rw [ih (i + 1) k (i + 1) _ hrest (by omega) (by omega) (by omega)]
          have hm : max (i + 1) (i + 1 + k) = max i (i + (k + 1)) := by omega
          have hm2 : max i (i + (k + 1)) = i + (k + 1) := by omega
          rw [hm]
          simp only [List.append_assoc, Prod.mk.injEq, true_and]
          rw [hm2]
          rw [drop_take_cons N i (i + (k + 1)) (by omega) (by omega)]; simp
    all_goals (simp only [nodesOfOps] at h; simp only [planNodes]; exact ih i k l acc h hk hil hl)

/-! ### planTxs -/

def flatOps (ckpt : Nat) : List CTx → List Rec
  | [] => []
  | tx :: rest => if tx.txid ≤ ckpt then flatOps ckpt rest else tx.ops ++ flatOps ckpt rest

def logRuns (ckpt : Nat) : List CTx → List Run
  | [] => []
  | tx :: rest =>
    if tx.txid ≤ ckpt then logRuns ckpt rest
    else if (runOf tx).edges.isEmpty && (runOf tx).props.isEmpty then logRuns ckpt rest
    else runOf tx :: logRuns ckpt rest

theorem planTxs_ok (ckpt : Nat) : ∀ (cs : List CTx) (exts : List Nat) (len : Nat) (pl : Plan)
    (e' : List Nat) (l' : Nat) (acc : List Nat),
    planNodes (flatOps ckpt cs) exts len [] = (none, e', l', acc) →
    planTxs ckpt cs exts len pl =
      { apply := pl.apply ++ acc, runs := pl.runs ++ logRuns ckpt cs, err := pl.err } := by
  intro cs
  induction cs with
  | nil =>
    intro exts len pl e' l' acc h
    simp [flatOps, planNodes] at h
    obtain ⟨_, _, h3⟩ := h
    subst h3
    simp [planTxs, logRuns]
  | cons tx rest ih =>
    intro exts len pl e' l' acc h
    by_cases hc : tx.txid ≤ ckpt
    · simp only [flatOps, hc, if_true] at h
      simp only [planTxs, hc, if_true, logRuns]
      exact ih exts len pl e' l' acc h
    · simp only [flatOps, hc, if_false] at h
      rw [planNodes_append] at h
      simp only [planTxs, hc, if_false, logRuns]
      rcases hp : planNodes tx.ops exts len [] with ⟨err1, x1, l1, a1⟩
      rw [hp] at h
      cases err1 with
      | some e => simp at h
      | none =>
        simp only at h
        rw [planNodes_acc] at h
        rcases hq : planNodes (flatOps ckpt rest) x1 l1 [] with ⟨err2, x2, l2, a2⟩
        rw [hq] at h
        simp only [Prod.mk.injEq] at h
        obtain ⟨he, _, _, hacc⟩ := h
        subst he
        simp only
        by_cases hr : ((runOf tx).edges.isEmpty && (runOf tx).props.isEmpty) = true
        · simp only [hr, if_true]
          rw [ih x1 l1 _ x2 l2 a2 hq]
          simp [← hacc]
        · simp only [hr, if_false]
          rw [ih x1 l1 _ x2 l2 a2 hq]
          simp [← hacc]

end Nervus.Crash
