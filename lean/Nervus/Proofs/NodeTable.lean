/-
  Proofs/NodeTable.lean — the node table reloads exactly what was written, for every size (C04, seed
  C04-seed2): record `k` is read from page `k / R`, slot `k % R`.
-/
import Nervus.Model.IdMap
namespace Nervus.Storage
namespace IdMap

theorem range_filterMap_get {α} (l : List α) : (List.range l.length).filterMap (fun k => l[k]?) = l := by
  induction l with
  | nil => rfl
  | cons a as ih =>
    rw [List.length_cons, List.range_succ_eq_map, List.filterMap_cons]
    simp only [List.getElem?_cons_zero, List.filterMap_map]
    congr 1

theorem filterMap_congr_mem {α β} (f g : α → Option β) (l : List α) (h : ∀ a ∈ l, f a = g a) :
    l.filterMap f = l.filterMap g := by
  induction l with
  | nil => rfl
  | cons a as ih =>
    rw [List.filterMap_cons, List.filterMap_cons, h a List.mem_cons_self,
      ih (fun x hx => h x (List.mem_cons_of_mem _ hx))]

theorem tablePages_get (R : Nat) (hR : 1 ≤ R) (recs : List I2e) (k : Nat) (hk : k < recs.length) :
    readRec R (tablePages R recs) k = recs[k]? := by
  unfold readRec tablePages
  have hdiv : k / R < (recs.length + R - 1) / R := by
    rw [Nat.div_lt_iff_lt_mul (by omega)]
    have h1 : recs.length ≤ (recs.length + R - 1) / R * R := by
      have := Nat.div_add_mod (recs.length + R - 1) R
      have hm : (recs.length + R - 1) % R < R := Nat.mod_lt _ (by omega)
      have hc : R * ((recs.length + R - 1) / R) = (recs.length + R - 1) / R * R := Nat.mul_comm _ _
      omega
    omega
  rw [List.getElem?_map, List.getElem?_range hdiv]
  simp only [Option.map_some, Option.bind_some]
  have hmod : k % R < R := Nat.mod_lt _ (by omega)
  rw [List.getElem?_take_of_lt hmod, List.getElem?_drop]
  congr 1
  have := Nat.div_add_mod k R
  rw [Nat.mul_comm] at this
  omega

/-- **load_reads_all**: for EVERY record list and every page capacity `R ≥ 1`, reading `n = length`
    records record by record — record `k` from page `k / R`, slot `k % R` — returns exactly the records
    that were written, in order (511, 512, 513, … : every size) -/
theorem load_reads_all (R : Nat) (hR : 1 ≤ R) (recs : List I2e) :
    readPerRecord R (tablePages R recs) recs.length = recs := by
  unfold readPerRecord
  have : (List.range recs.length).filterMap (readRec R (tablePages R recs)) =
      (List.range recs.length).filterMap (fun k => recs[k]?) := by
    apply filterMap_congr_mem
    intro k hk
    exact tablePages_get R hR recs k (List.mem_range.mp hk)
  rw [this, range_filterMap_get]

/-- the current source reads the node table record by record (regenerated facts) -/
theorem idmap_load_per_record : Generated.idmapLoadPerRecord = true := by decide
theorem records_per_page_pos : 1 ≤ Generated.i2eRecordsPerPage := by decide

/-- what `IdMap::load` gets out of the file is what was written -/
theorem readNodeTable_eq (recs : List I2e) : readNodeTable recs = recs := by
  unfold readNodeTable
  rw [idmap_load_per_record]
  exact load_reads_all _ records_per_page_pos recs

end IdMap
end Nervus.Storage
