/-
  Proofs.Agg — aggregates of `Model.Agg`: `sum` follows THE overflow rule and never wraps (`sum_spec`,
  `sum_never_wraps`), is the fold with Cypher `+` where that is defined (`sum_eq_fold_add_*`); `min_by` /
  `max_by` return a least / greatest element for any total preorder; DISTINCT keeps pairwise non-`==` first
  representatives; grouping preserves rows, is key-homogeneous and has one group per NaN-free key.  Core only.
-/
import Nervus.Proofs.Logic
import Nervus.Model.Agg
namespace Nervus
open F64 Value Eval Spec Agg

def isFloatV : Value → Bool
  | .float _ => true
  | _ => false

/-- the float accumulator of `sum`: left fold of the float addition over the numbers (integers cast) -/
def ffold (F : FArith) (vs : List Value) : Nat := (vs.foldl (sumStep F) sumInit).floatSum

theorem sum_fold_inv (F : FArith) : ∀ (vs : List Value) (acc : SumAcc),
    (vs.foldl (sumStep F) acc).sawFloat = (acc.sawFloat || vs.any isFloatV) ∧
    (vs.foldl (sumStep F) acc).intSum = acc.intSum + Spec.intSum vs
  | [], acc => by simp [Spec.intSum]
  | v :: vs, acc => by
    have ih := sum_fold_inv F vs (sumStep F acc v)
    simp only [List.foldl_cons, List.any_cons]
    rw [ih.1, ih.2]
    cases v <;> simp [sumStep, isFloatV, Spec.intSum] <;> omega

/-- **sum follows THE overflow rule**: a float among the values ⇒ the Float fold; otherwise the exact
    integer sum when it fits an i64, else the Float fold — never a wrapped integer -/
theorem sum_spec (F : FArith) (vs : List Value) :
    Agg.sum F vs = if vs.any isFloatV then .float (ffold F vs) else Spec.intRule (Spec.intSum vs) (ffold F vs) := by
  have inv := sum_fold_inv F vs sumInit
  simp only [sumInit, Bool.false_or, Int.zero_add] at inv
  simp only [Agg.sum, sumFinish, ffold, sumInit, inv.1, inv.2]
  by_cases h : vs.any isFloatV = true
  · simp [h]
  · simp only [h, Bool.false_eq_true, if_false]
    exact intRule_eq _ _

theorem sum_never_wraps (F : FArith) (vs : List Value) (s : Int) (h : Agg.sum F vs = .int s) :
    s = Spec.intSum vs ∧ Spec.i64Min ≤ s ∧ s ≤ Spec.i64Max := by
  rw [sum_spec] at h
  by_cases hf : vs.any isFloatV = true
  · simp [hf] at h
  · simp only [hf, Bool.false_eq_true, if_false, Spec.intRule] at h
    by_cases hr : Spec.i64Min ≤ Spec.intSum vs ∧ Spec.intSum vs ≤ Spec.i64Max
    · rw [if_pos hr] at h; cases h; exact ⟨rfl, hr⟩
    · rw [if_neg hr] at h; cases h

/-- the pinned tree wrapped: `sum` of the same list could be an integer different from the exact sum -/
theorem pinned_sum_spec (F : FArith) (vs : List Value) (hf : vs.any isFloatV = false) :
    Agg.Pinned.sum F vs = .int (wrapI64 (Spec.intSum vs)) := by
  have inv := sum_fold_inv F vs sumInit
  simp only [sumInit, Bool.false_or, Int.zero_add] at inv
  simp [Agg.Pinned.sum, Agg.Pinned.sumFinish, sumInit, inv.1, inv.2, hf]

/-! `sum` as the fold with Cypher `+` -/

section
variable (E : Env)

/-- every value is an integer and every running total (starting from `s`) fits an i64 -/
def prefixOk : Int → List Value → Bool
  | _, [] => true
  | s, .int i :: vs => inI64 (s + i) && prefixOk (s + i) vs
  | _, _ :: _ => false

theorem fold_add_ints : ∀ (vs : List Value) (s : Int) (acc : SumAcc), acc.sawFloat = false → acc.intSum = s →
    inI64 s = true → prefixOk s vs = true →
    vs.foldl (fun a v => evalBin E .add a v) (.int s) = sumFinish (vs.foldl (sumStep E.F) acc)
  | [], s, acc, h1, h2, h3, _ => by simp [sumFinish, h1, h2, h3]
  | v :: vs, s, acc, h1, h2, h3, h4 => by
    cases v <;> simp only [prefixOk, Bool.and_eq_true, Bool.false_eq_true] at h4
    rename_i i
    simp only [List.foldl_cons]
    rw [add_int E s i, Spec.intRule, if_pos ((inI64_iff _).1 h4.1)]
    exact fold_add_ints vs (s + i) (sumStep E.F acc (.int i)) (by simp [sumStep, h1]) (by simp [sumStep, h2]) h4.1 h4.2

/-- **sum = fold with the Cypher `+`** for integer groups whose running totals stay in range -/
theorem sum_eq_fold_add_ints (vs : List Value) (h : prefixOk 0 vs = true) :
    Agg.sum E.F vs = vs.foldl (fun a v => evalBin E .add a v) (.int 0) :=
  (fold_add_ints E vs 0 sumInit rfl rfl (by decide) h).symm

theorem fold_add_floats : ∀ (vs : List Value) (x : Nat) (acc : SumAcc), acc.sawFloat = true → acc.floatSum = x →
    vs.all isFloatV = true →
    vs.foldl (fun a v => evalBin E .add a v) (.float x) = sumFinish (vs.foldl (sumStep E.F) acc)
  | [], x, acc, h1, h2, _ => by simp [sumFinish, h1, h2]
  | v :: vs, x, acc, h1, h2, h3 => by
    cases v <;> simp only [List.all_cons, isFloatV, Bool.and_eq_true, Bool.false_eq_true, false_and] at h3
    rename_i f
    simp only [List.foldl_cons]
    have : evalBin E .add (.float x) (.float f) = .float (E.F.add x f) := by
      simp [evalBin, addValues, addValues.addRest, addValues.addTail, isDuration, numericBinop]
    rw [this]
    exact fold_add_floats vs _ (sumStep E.F acc (.float f)) (by simp [sumStep]) (by simp [sumStep, h2]) h3.2

/-- **sum = fold with the Cypher `+`** for float groups (including the empty group: 0) -/
theorem sum_eq_fold_add_floats (vs : List Value) (h : vs.all isFloatV = true) :
    Agg.sum E.F vs = vs.foldl (fun a v => evalBin E .add a v) (.int 0) := by
  cases vs with
  | nil => rfl
  | cons v vs =>
    cases v <;> simp only [List.all_cons, isFloatV, Bool.and_eq_true, Bool.false_eq_true, false_and] at h
    rename_i f
    simp only [List.foldl_cons]
    have : evalBin E .add (.int 0) (.float f) = .float (E.F.add (castF 0) f) := by
      simp [evalBin, addValues, addValues.addRest, addValues.addTail, isDuration, numericBinop]
    rw [this]
    have c0 : castF 0 = 0 := by decide
    rw [c0]
    exact (fold_add_floats E vs _ (sumStep E.F sumInit (.float f)) (by simp [sumStep]) (by simp [sumStep, sumInit]) h.2).symm
end

/-! ### min / max: `Iterator::min_by` / `max_by` -/

section
variable {α : Type} (cmp : α → α → Ordering) {P : α → Prop}

theorem minFold_spec (h : CmpLawsOn cmp P) : ∀ (xs : List α) (m : α), P m → (∀ x ∈ xs, P x) →
    let r := xs.foldl (fun m y => if cmp m y == .gt then y else m) m
    (r = m ∨ r ∈ xs) ∧ cmp r m ≠ .gt ∧ ∀ x ∈ xs, cmp r x ≠ .gt
  | [], m, hm, _ => by simp [h.refl hm]
  | y :: ys, m, hm, hP => by
    have hy : P y := hP y (by simp)
    have hys : ∀ x ∈ ys, P x := fun x hx => hP x (by simp [hx])
    simp only [List.foldl_cons]
    by_cases hc : (cmp m y == .gt) = true
    · simp only [hc, if_true]
      have ih := minFold_spec h ys y hy hys
      simp only at ih
      have hgt : cmp m y = .gt := by simpa using hc
      have hym : cmp y m ≠ .gt := h.le_of_gt hm hy hgt
      obtain ⟨i1, i2, i3⟩ := ih
      have hr : P (ys.foldl (fun m y => if cmp m y == .gt then y else m) y) := by
        rcases i1 with e | e
        · rw [e]; exact hy
        · exact hys _ e
      refine ⟨?_, h.le_trans hr hy hm i2 hym, ?_⟩
      · rcases i1 with e | e
        · exact Or.inr (List.mem_cons.2 (Or.inl e))
        · exact Or.inr (List.mem_cons.2 (Or.inr e))
      · intro x hx
        rcases List.mem_cons.1 hx with rfl | hx
        · exact i2
        · exact i3 x hx
    · simp only [hc, Bool.false_eq_true, if_false]
      have ih := minFold_spec h ys m hm hys
      simp only at ih
      obtain ⟨i1, i2, i3⟩ := ih
      have hmy : cmp m y ≠ .gt := by simpa using hc
      have hr : P (ys.foldl (fun m y => if cmp m y == .gt then y else m) m) := by
        rcases i1 with e | e
        · rw [e]; exact hm
        · exact hys _ e
      refine ⟨?_, i2, ?_⟩
      · rcases i1 with e | e
        · exact Or.inl e
        · exact Or.inr (List.mem_cons.2 (Or.inr e))
      · intro x hx
        rcases List.mem_cons.1 hx with rfl | hx
        · exact h.le_trans hr hm hy i2 hmy
        · exact i3 x hx

/-- **min**: the result is an element of the group and not greater than any element -/
theorem minBy_spec (h : CmpLawsOn cmp P) (xs : List α) (hP : ∀ x ∈ xs, P x) (m : α)
    (hm : Agg.minBy cmp xs = some m) : m ∈ xs ∧ ∀ x ∈ xs, cmp m x ≠ .gt := by
  cases xs with
  | nil => simp [Agg.minBy] at hm
  | cons x xs =>
    simp only [Agg.minBy, Option.some.injEq] at hm
    have s := minFold_spec cmp h xs x (hP x (by simp)) (fun y hy => hP y (by simp [hy]))
    simp only at s
    rw [hm] at s
    obtain ⟨s1, s2, s3⟩ := s
    refine ⟨?_, ?_⟩
    · rcases s1 with e | e
      · simp [e]
      · simp [e]
    · intro y hy
      rcases List.mem_cons.1 hy with rfl | hy
      · exact s2
      · exact s3 y hy

theorem maxFold_spec (h : CmpLawsOn cmp P) : ∀ (xs : List α) (m : α), P m → (∀ x ∈ xs, P x) →
    let r := xs.foldl (fun m y => if cmp m y == .gt then m else y) m
    (r = m ∨ r ∈ xs) ∧ cmp m r ≠ .gt ∧ ∀ x ∈ xs, cmp x r ≠ .gt
  | [], m, hm, _ => by simp [h.refl hm]
  | y :: ys, m, hm, hP => by
    have hy : P y := hP y (by simp)
    have hys : ∀ x ∈ ys, P x := fun x hx => hP x (by simp [hx])
    simp only [List.foldl_cons]
    by_cases hc : (cmp m y == .gt) = true
    · simp only [hc, if_true]
      have ih := maxFold_spec h ys m hm hys
      simp only at ih
      obtain ⟨i1, i2, i3⟩ := ih
      have hgt : cmp m y = .gt := by simpa using hc
      have hym : cmp y m ≠ .gt := h.le_of_gt hm hy hgt
      have hr : P (ys.foldl (fun m y => if cmp m y == .gt then m else y) m) := by
        rcases i1 with e | e
        · rw [e]; exact hm
        · exact hys _ e
      refine ⟨?_, i2, ?_⟩
      · rcases i1 with e | e
        · exact Or.inl e
        · exact Or.inr (List.mem_cons.2 (Or.inr e))
      · intro x hx
        rcases List.mem_cons.1 hx with rfl | hx
        · exact h.le_trans hy hm hr hym i2
        · exact i3 x hx
    · simp only [hc, Bool.false_eq_true, if_false]
      have ih := maxFold_spec h ys y hy hys
      simp only at ih
      obtain ⟨i1, i2, i3⟩ := ih
      have hmy : cmp m y ≠ .gt := by simpa using hc
      have hr : P (ys.foldl (fun m y => if cmp m y == .gt then m else y) y) := by
        rcases i1 with e | e
        · rw [e]; exact hy
        · exact hys _ e
      refine ⟨?_, h.le_trans hm hy hr hmy i2, ?_⟩
      · rcases i1 with e | e
        · exact Or.inr (List.mem_cons.2 (Or.inl e))
        · exact Or.inr (List.mem_cons.2 (Or.inr e))
      · intro x hx
        rcases List.mem_cons.1 hx with rfl | hx
        · exact i2
        · exact i3 x hx

/-- **max**: the result is an element of the group and not smaller than any element -/
theorem maxBy_spec (h : CmpLawsOn cmp P) (xs : List α) (hP : ∀ x ∈ xs, P x) (m : α)
    (hm : Agg.maxBy cmp xs = some m) : m ∈ xs ∧ ∀ x ∈ xs, cmp x m ≠ .gt := by
  cases xs with
  | nil => simp [Agg.maxBy] at hm
  | cons x xs =>
    simp only [Agg.maxBy, Option.some.injEq] at hm
    have s := maxFold_spec cmp h xs x (hP x (by simp)) (fun y hy => hP y (by simp [hy]))
    simp only at s
    rw [hm] at s
    obtain ⟨s1, s2, s3⟩ := s
    refine ⟨?_, ?_⟩
    · rcases s1 with e | e
      · simp [e]
      · simp [e]
    · intro y hy
      rcases List.mem_cons.1 hy with rfl | hy
      · exact s2
      · exact s3 y hy
end

/-! ### the grouping / DISTINCT equivalence `keyEq` is the kernel of `norm` -/

theorem keyEq_iff (a b : Value) : keyEq a b = true ↔ norm a = norm b := by
  unfold keyEq
  exact ⟨same_sound _ _, fun h => by rw [h]; exact same_refl _⟩

theorem keyEq_refl (a : Value) : keyEq a a = true := (keyEq_iff a a).2 rfl
theorem keyEq_symm (a b : Value) : keyEq a b = keyEq b a := by
  cases h : keyEq b a
  · cases h' : keyEq a b
    · rfl
    · rw [(keyEq_iff b a).2 ((keyEq_iff a b).1 h').symm] at h; cases h
  · exact (keyEq_iff a b).2 ((keyEq_iff b a).1 h).symm
theorem keyEq_trans {a b c : Value} (h1 : keyEq a b = true) (h2 : keyEq b c = true) : keyEq a c = true :=
  (keyEq_iff a c).2 (((keyEq_iff a b).1 h1).trans ((keyEq_iff b c).1 h2))

/-! ### DISTINCT: first representatives w.r.t. `keyEq` -/

theorem dedupInto_prefix : ∀ (vs seen : List Value), ∀ x ∈ seen, x ∈ dedupInto seen vs
  | [], _, x, hx => hx
  | v :: vs, seen, x, hx => by
    simp only [dedupInto]
    split
    · exact dedupInto_prefix vs seen x hx
    · split
      · exact dedupInto_prefix vs seen x hx
      · exact dedupInto_prefix vs _ x (List.mem_append_left _ hx)

/-- every result element is a non-null element of the input (or was already seen) -/
theorem dedupInto_sub : ∀ (vs seen : List Value), ∀ x ∈ dedupInto seen vs, x ∈ seen ∨ (x ∈ vs ∧ x.isNull = false)
  | [], _, x, hx => Or.inl hx
  | v :: vs, seen, x, hx => by
    simp only [dedupInto] at hx
    split at hx
    · rcases dedupInto_sub vs seen x hx with h | h
      · exact Or.inl h
      · exact Or.inr ⟨List.mem_cons_of_mem _ h.1, h.2⟩
    · rename_i hn
      split at hx
      · rcases dedupInto_sub vs seen x hx with h | h
        · exact Or.inl h
        · exact Or.inr ⟨List.mem_cons_of_mem _ h.1, h.2⟩
      · rcases dedupInto_sub vs _ x hx with h | h
        · rcases List.mem_append.1 h with h | h
          · exact Or.inl h
          · have : x = v := by simpa using h
            subst this
            exact Or.inr ⟨by simp, by simpa using hn⟩
        · exact Or.inr ⟨List.mem_cons_of_mem _ h.1, h.2⟩

/-- no two result elements are equivalent -/
theorem dedupInto_pairwise : ∀ (vs seen : List Value), seen.Pairwise (fun a b => keyEq a b = false) →
    (dedupInto seen vs).Pairwise (fun a b => keyEq a b = false)
  | [], _, h => h
  | v :: vs, seen, h => by
    simp only [dedupInto]
    split
    · exact dedupInto_pairwise vs seen h
    · split
      · exact dedupInto_pairwise vs seen h
      · rename_i hany
        apply dedupInto_pairwise vs
        rw [List.pairwise_append]
        refine ⟨h, by simp, ?_⟩
        intro a ha b hb
        have : b = v := by simpa using hb
        subst this
        simp only [List.any_eq_true, not_exists, not_and, Bool.not_eq_true] at hany
        exact hany a ha

/-- EVERY non-null input value has a representative (NaN included) -/
theorem dedupInto_complete : ∀ (vs seen : List Value), ∀ x ∈ vs, x.isNull = false →
    ∃ e ∈ dedupInto seen vs, keyEq e x = true
  | [], _, x, hx, _ => by simp at hx
  | v :: vs, seen, x, hx, hn => by
    simp only [dedupInto]
    rcases List.mem_cons.1 hx with e | hx'
    · subst e
      rw [if_neg (by simp [hn])]
      by_cases hany : seen.any (fun e => keyEq e x) = true
      · rw [if_pos hany]
        obtain ⟨e, he, hd⟩ := List.any_eq_true.1 hany
        exact ⟨e, dedupInto_prefix vs seen e he, hd⟩
      · rw [if_neg hany]
        exact ⟨x, dedupInto_prefix vs _ x (by simp), keyEq_refl x⟩
    · split
      · exact dedupInto_complete vs seen x hx' hn
      · split
        · exact dedupInto_complete vs seen x hx' hn
        · exact dedupInto_complete vs _ x hx' hn

/-! ### grouping -/

theorem groupKeyEq_iff (a b : List Value) : groupKeyEq a b = true ↔ norm.normList a = norm.normList b := by
  unfold groupKeyEq
  exact ⟨sameList_sound _ _, fun h => by rw [h]; exact sameList_refl _⟩

section
variable {α : Type}

/-- all rows of all groups -/
def allRows (g : List (List Value × List α)) : List α := g.flatMap Prod.snd

theorem groupInsert_rows (k : List Value) (r : α) : ∀ (g : List (List Value × List α)),
    (allRows (groupInsert k r g)).Perm (allRows g ++ [r])
  | [] => by simp [groupInsert, allRows]
  | (k', rs) :: rest => by
    simp only [groupInsert]
    split
    · simp only [allRows, List.flatMap_cons, List.append_assoc]
      exact List.Perm.append_left rs List.perm_append_comm
    · simp only [allRows, List.flatMap_cons, List.append_assoc]
      exact List.Perm.append_left rs (groupInsert_rows k r rest)

/-- **no row is lost or duplicated by grouping** -/
theorem groupFold_rows : ∀ (rows : List (List Value × α)) (g : List (List Value × List α)),
    (allRows (rows.foldl (fun g kr => groupInsert kr.1 kr.2 g) g)).Perm (allRows g ++ rows.map Prod.snd)
  | [], g => by simp
  | (k, r) :: rows, g => by
    simp only [List.foldl_cons, List.map_cons]
    refine (groupFold_rows rows (groupInsert k r g)).trans ?_
    refine ((groupInsert_rows k r g).append_right _).trans ?_
    simp

/-- the normalised keys of the groups -/
def normKeys (g : List (List Value × List α)) : List (List Value) := g.map (fun kr => norm.normList kr.1)

theorem groupInsert_keys (k : List Value) (r : α) : ∀ (g : List (List Value × List α)),
    normKeys (groupInsert k r g) = normKeys g ∨ normKeys (groupInsert k r g) = normKeys g ++ [norm.normList k]
  | [] => Or.inr rfl
  | (k', rs) :: rest => by
    simp only [groupInsert]
    split
    · exact Or.inl rfl
    · rcases groupInsert_keys k r rest with h | h
      · exact Or.inl (by simp only [normKeys, List.map_cons] at h ⊢; rw [h])
      · exact Or.inr (by simp only [normKeys, List.map_cons, List.cons_append] at h ⊢; rw [h])

/-- a new group is opened only when no group has an equivalent key: the groups' keys stay pairwise
    inequivalent — for ALL keys -/
theorem groupInsert_nodup (k : List Value) (r : α) : ∀ (g : List (List Value × List α)),
    (normKeys g).Nodup → (normKeys (groupInsert k r g)).Nodup
  | [], _ => by simp [groupInsert, normKeys]
  | (k', rs) :: rest, h => by
    simp only [groupInsert]
    split
    · exact h
    · rename_i hne
      simp only [normKeys, List.map_cons, List.nodup_cons] at h ⊢
      refine ⟨?_, groupInsert_nodup k r rest h.2⟩
      rcases groupInsert_keys k r rest with e | e
      · simp only [normKeys] at e; rw [e]; exact h.1
      · simp only [normKeys] at e; rw [e]
        simp only [List.mem_append, List.mem_singleton, not_or]
        refine ⟨h.1, ?_⟩
        intro e'
        exact hne ((groupKeyEq_iff k' k).2 e')

/-- every row of a group was inserted under a key equivalent to the group's key -/
def Homog (orig : List (List Value × α)) (g : List (List Value × List α)) : Prop :=
  ∀ kr ∈ g, ∀ r ∈ kr.2, ∃ k, (k, r) ∈ orig ∧ norm.normList k = norm.normList kr.1

theorem groupInsert_homog (orig : List (List Value × α)) (k : List Value) (r : α) (hkr : (k, r) ∈ orig) :
    ∀ (g : List (List Value × List α)), Homog orig g → Homog orig (groupInsert k r g)
  | [], _ => by
    intro kr hkr' x hx
    simp only [groupInsert, List.mem_singleton] at hkr'
    subst hkr'
    simp only [List.mem_singleton] at hx
    subst hx; exact ⟨k, hkr, rfl⟩
  | (k', rs) :: rest, h => by
    simp only [groupInsert]
    split
    · rename_i he
      have ek := (groupKeyEq_iff k' k).1 he
      intro kr hkr' x hx
      rcases List.mem_cons.1 hkr' with e | e
      · subst e
        rcases List.mem_append.1 hx with hx | hx
        · exact h (k', rs) (by simp) x hx
        · simp only [List.mem_singleton] at hx
          subst hx; exact ⟨k, hkr, ek.symm⟩
      · exact h kr (by simp [e]) x hx
    · intro kr hkr' x hx
      rcases List.mem_cons.1 hkr' with e | e
      · subst e; exact h (k', rs) (by simp) x hx
      · exact groupInsert_homog orig k r hkr rest (fun kr' hk' => h kr' (by simp [hk'])) kr e x hx

theorem groupFold_nodup : ∀ (rows : List (List Value × α)) (g : List (List Value × List α)),
    (normKeys g).Nodup → (normKeys (rows.foldl (fun g kr => groupInsert kr.1 kr.2 g) g)).Nodup
  | [], _, h => h
  | (k, r) :: rows, g, h => by
    simp only [List.foldl_cons]
    exact groupFold_nodup rows _ (groupInsert_nodup k r g h)

theorem groupFold_homog (orig : List (List Value × α)) : ∀ (rows : List (List Value × α))
    (g : List (List Value × List α)), (∀ kr ∈ rows, kr ∈ orig) → Homog orig g →
    Homog orig (rows.foldl (fun g kr => groupInsert kr.1 kr.2 g) g)
  | [], _, _, h => h
  | (k, r) :: rows, g, hs, h => by
    simp only [List.foldl_cons]
    exact groupFold_homog orig rows _ (fun kr hkr => hs kr (by simp [hkr]))
      (groupInsert_homog orig k r (hs (k, r) (by simp)) g h)

theorem groupRows_eq_fold (rows : List (List Value × α)) (_h : rows ≠ []) :
    groupRows false rows = rows.foldl (fun g kr => groupInsert kr.1 kr.2 g) [] := by
  simp [groupRows]
end

/-! ### hash-based de-duplication is only correct when the hash respects the equality -/

section
variable {α H : Type} [DecidableEq H]

/-- de-duplication through a hash set: an element is "already there" iff an element with the same hash AND
    equal to it was kept (what `HashSet::insert` does) -/
def hashDedupInto (h : α → H) (eq : α → α → Bool) (seen : List α) : List α → List α
  | [] => seen
  | v :: vs =>
    if seen.any (fun e => decide (h e = h v) && eq e v) then hashDedupInto h eq seen vs
    else hashDedupInto h eq (seen ++ [v]) vs

/-- de-duplication by the equality alone (the quadratic scan) -/
def eqDedupInto (eq : α → α → Bool) (seen : List α) : List α → List α
  | [] => seen
  | v :: vs =>
    if seen.any (fun e => eq e v) then eqDedupInto eq seen vs else eqDedupInto eq (seen ++ [v]) vs

/-- **if the hash respects the equality, the hash set computes the same DISTINCT set as the scan** -/
theorem hashDedup_eq_of_respects (h : α → H) (eq : α → α → Bool) (hr : ∀ a b, eq a b = true → h a = h b) :
    ∀ (vs seen : List α), hashDedupInto h eq seen vs = eqDedupInto eq seen vs
  | [], _ => rfl
  | v :: vs, seen => by
    have : seen.any (fun e => decide (h e = h v) && eq e v) = seen.any (fun e => eq e v) := by
      congr 1; funext e
      cases he : eq e v
      · simp
      · simp [hr e v he]
    simp only [hashDedupInto, eqDedupInto, this]
    split
    · exact hashDedup_eq_of_respects h eq hr vs seen
    · exact hashDedup_eq_of_respects h eq hr vs _
end

/-- on normalised keys `vhash` respects the key equivalence (what makes `HashMap<GroupKey, _>` sound) -/
theorem vhash_respects_keyEq (a b : Value) (h : keyEq a b = true) : vhash (norm a) = vhash (norm b) := by
  rw [(keyEq_iff a b).1 h]

mutual
theorem deq_refl_of_noNaN : ∀ (a : Value), hasNaN a = false → deq a a = true
  | .list xs, h => by simp only [deq]; exact deqList_refl xs h
  | .map xs, h => by simp only [deq]; exact deqMap_refl xs h
  | .float x, h => by
    simp only [hasNaN] at h
    simp only [deq]; exact eqv_refl _ h
  | .null, _ | .bool _, _ | .int _, _ | .str _, _ | .nodeId _, _ | .externalId _, _ | .edgeKey _, _
  | .dateTime _, _ | .blob _, _ | .path _ _, _ => by simp [deq]
theorem deqList_refl : ∀ (xs : List Value), hasNaN.hasNaNList xs = false → deqList xs xs = true
  | [], _ => rfl
  | x :: xs, h => by
    simp only [hasNaN.hasNaNList, Bool.or_eq_false_iff] at h
    simp only [deqList, deq_refl_of_noNaN x h.1, deqList_refl xs h.2, Bool.and_self]
theorem deqMap_refl : ∀ (xs : List (Str × Value)), hasNaN.hasNaNMap xs = false → deqMap xs xs = true
  | [], _ => rfl
  | (k, x) :: xs, h => by
    simp only [hasNaN.hasNaNMap, Bool.or_eq_false_iff] at h
    simp only [deqMap, deq_refl_of_noNaN x h.1, deqMap_refl xs h.2, beq_self_eq_true, Bool.and_self]
end

end Nervus
