/-
  Proofs/EngineReadsAgree.lean — the invariant `Sim` implies that every read interface of the engine
  answers what the Spec graph answers.
-/
import Nervus.Proofs.EngineC06
import Nervus.Proofs.StoreRoot
import Nervus.Proofs.IterFlush
namespace Nervus.Storage
open Nervus.GraphSpec (Graph TxOp Op Rel)

/-- rel filter of a read, as id (model) and as name (spec) -/
def RelMatch (s : Engine) (rel : Option Nat) (t : Option Nat) : Prop :=
  (rel = none ∧ t = none) ∨ (∃ r nm, rel = some r ∧ t = some nm ∧ s.interner[r]? = some nm)

/-- every read interface agrees with the Spec graph (reads are issued for live nodes and for
    relationships between live nodes; external-id lookup for ids that did not belong to a deleted node) -/
structure ReadsAgree (c : Cfg) (s : Engine) (g : Graph) : Prop where
  nodes : s.nodes = g.nodes
  nodesSnap : s.nodesSnap = g.nodes
  ext : ∀ n, g.live n = true → s.resolveExternal n = g.extOf n
  labels : ∀ n l, g.live n = true → (l ∈ s.nodeLabelNames n ↔ g.hasLabel n l = true)
  nprop : ∀ n k, g.live n = true → s.nodeProp n k = g.nprop n k
  nprops : ∀ n k, g.live n = true → (s.nodeProps n).lookup k = g.nprop n k
  out : ∀ n rel t, g.live n = true → RelMatch s rel t →
    ∃ es, s.neighbors n rel = some es ∧ (∀ e ∈ es, ∃ nm, s.interner[e.rel]? = some nm) ∧
      ∀ r nm a b, s.interner[r]? = some nm → es.count ⟨a, r, b⟩ = (g.out n t).count ⟨a, nm, b⟩
  inc : ∀ n rel t, g.live n = true → RelMatch s rel t →
    ∃ es, s.incoming c n rel = some es ∧ (∀ e ∈ es, ∃ nm, s.interner[e.rel]? = some nm) ∧
      ∀ r nm a b, s.interner[r]? = some nm → es.count ⟨a, r, b⟩ = (g.inc n t).count ⟨a, nm, b⟩
  eprop : ∀ r nm a b k, s.interner[r]? = some nm → g.live a = true → g.live b = true →
    s.edgeProp ⟨a, r, b⟩ k = g.eprop ⟨a, nm, b⟩ k
  eprops : ∀ r nm a b k, s.interner[r]? = some nm → g.live a = true → g.live b = true →
    (s.edgeProps ⟨a, r, b⟩).lookup k = g.eprop ⟨a, nm, b⟩ k
  extLookup : ∀ x, GraphSpec.extOfDeleted g x = false → s.lookupInternal x = g.extLookup x

theorem visE_pos_mem (e : Edge) (runs : List Run) (h : 0 < visE e runs) : ∃ run ∈ runs, e ∈ run.edges := by
  induction runs with
  | nil => simp [visE] at h
  | cons r rs ih =>
    rw [visE_cons'] at h
    by_cases hc : 0 < r.edges.count e
    · exact ⟨r, List.mem_cons_self, List.count_pos_iff.mp hc⟩
    · have hz : r.edges.count e = 0 := by omega
      rw [hz, Nat.zero_add] at h
      split at h
      · omega
      · obtain ⟨run, hr, he⟩ := ih h
        exact ⟨run, List.mem_cons_of_mem _ hr, he⟩

theorem lookup_swap (l : List (Nat × Nat)) (x : Nat) :
    (l.map (fun p => (p.2, p.1))).lookup x = (l.find? (·.2 == x)).map (·.1) := by
  induction l with
  | nil => rfl
  | cons p ps ih =>
    obtain ⟨a, b⟩ := p
    simp only [List.map_cons, List.lookup_cons, List.find?_cons]
    by_cases h : x = b
    · subst h; simp
    · have h1 : (x == b) = false := by simpa using h
      have h2 : (b == x) = false := by simpa using (Ne.symm h)
      simp only [h1, h2]; exact ih

theorem find_congr' {α} (p q : α → Bool) (l : List α) (h : ∀ a ∈ l, p a = q a) : l.find? p = l.find? q := by
  induction l with
  | nil => rfl
  | cons a as ih =>
    rw [List.find?_cons, List.find?_cons, h a List.mem_cons_self,
      ih (fun b hb => h b (List.mem_cons_of_mem _ hb))]

theorem find_mem {α} (p : α → Bool) (l : List α) (a : α) (h : l.find? p = some a) : a ∈ l ∧ p a = true :=
  ⟨List.mem_of_find?_eq_some h, List.find?_some h⟩

theorem Sim.reads (c : Cfg) {s g} (h : Sim s g) : ReadsAgree c s g := by
  have hG := h.G
  have hL := h.L
  have hlive : ∀ n, g.live n = true → (n < g.next ∧ n ∉ g.dead ∧ isTombNode s.runs n = false) := by
    intro n hn
    obtain ⟨h1, h2⟩ := (live_iff g n).mp hn
    refine ⟨h1, h2, ?_⟩
    rw [Bool.eq_false_iff]; intro ht; exact h2 ((hG.dead n).mp ht)
  have hpred : ∀ n, (!isTombNode s.runs n) = (!g.dead.contains n) := by
    intro n
    congr 1
    rw [Bool.eq_iff_iff, hG.dead n]; simp
  have hres : ∀ r, r < s.interner.length → ∃ nm, s.interner[r]? = some nm := by
    intro r hr; exact ⟨s.interner[r], List.getElem?_eq_getElem hr⟩
  -- the two neighbour directions
  have hout : ∀ n rel t, g.live n = true → RelMatch s rel t →
      ∃ es, s.neighbors n rel = some es ∧ (∀ e ∈ es, ∃ nm, s.interner[e.rel]? = some nm) ∧
        ∀ r nm a b, s.interner[r]? = some nm → es.count ⟨a, r, b⟩ = (g.out n t).count ⟨a, nm, b⟩ := by
    intro n rel t hn hm
    obtain ⟨_, _, htomb⟩ := hlive n hn
    have hc := fun e => outRuns_count n rel s.runs [] [] rfl htomb e
    have hsome := (hc ⟨0, 0, 0⟩).2
    cases hfin : (outRuns n rel s.runs [] []).2 with
    | none => rw [hfin] at hsome; cases hsome
    | some fin =>
      have hcnt : ∀ e, (outRuns n rel s.runs [] []).1.count e =
          if e.src = n ∧ relOk rel e = true then visE e s.runs else 0 := by
        intro e
        rw [(hc e).1]
        split
        · rename_i hh; rw [countOut_eq_visE e s.runs (by rw [hh.1]; exact htomb)]
        · rfl
      refine ⟨(outRuns n rel s.runs [] []).1, ?_, ?_, ?_⟩
      · rw [neighbors_eq]; unfold Engine.neighborsFlushed
        have : outRuns n rel s.runs [] [] = ((outRuns n rel s.runs [] []).1, some fin) := by
          rw [← hfin]
        rw [this, hG.segs]; simp
      · intro e he
        have hpos : 0 < (outRuns n rel s.runs [] []).1.count e := List.count_pos_iff.mpr he
        rw [hcnt e] at hpos
        split at hpos
        · obtain ⟨run, hr, hme⟩ := visE_pos_mem e s.runs hpos
          exact hres _ (hG.runsRel run hr e hme)
        · omega
      · intro r nm a b hr
        rw [hcnt ⟨a, r, b⟩]
        unfold Graph.out
        rw [count_filter_pred]
        have hrel : relOk rel ⟨a, r, b⟩ = Graph.relOk t (⟨a, nm, b⟩ : Rel) := by
          rcases hm with ⟨h1, h2⟩ | ⟨r0, nm0, h1, h2, h3⟩
          · subst h1; subst h2; rfl
          · subst h1; subst h2
            simp only [relOk, Graph.relOk]
            rw [Bool.eq_iff_iff]
            simp only [beq_iff_eq]
            constructor
            · intro hh; subst hh; rw [hr] at h3; exact Option.some.inj h3
            · intro hh; subst hh; exact name_inj _ hG.nodup _ _ _ hr h3
        simp only [Bool.and_eq_true, beq_iff_eq]
        rw [hrel]
        by_cases hq : a = n ∧ Graph.relOk t (⟨a, nm, b⟩ : Rel) = true
        · rw [if_pos hq, if_pos hq]; exact hG.edges r nm a b hr
        · rw [if_neg hq, if_neg hq]
  have hinc : ∀ n rel t, g.live n = true → RelMatch s rel t →
      ∃ es, s.incoming c n rel = some es ∧ (∀ e ∈ es, ∃ nm, s.interner[e.rel]? = some nm) ∧
        ∀ r nm a b, s.interner[r]? = some nm → es.count ⟨a, r, b⟩ = (g.inc n t).count ⟨a, nm, b⟩ := by
    intro n rel t hn hm
    obtain ⟨_, _, htomb⟩ := hlive n hn
    have hc := fun e => inRuns_count n rel s.runs [] [] rfl htomb e
    have hsome := (hc ⟨0, 0, 0⟩).2
    cases hfin : (inRuns n rel s.runs [] []).2 with
    | none => rw [hfin] at hsome; cases hsome
    | some fin =>
      have hcnt : ∀ e, (inRuns n rel s.runs [] []).1.count e =
          if e.dst = n ∧ relOk rel e = true then visE e s.runs else 0 := by
        intro e
        rw [(hc e).1]
        split
        · rename_i hh; rw [countIn_eq_visE e s.runs (by rw [hh.1]; exact htomb)]
        · rfl
      refine ⟨(inRuns n rel s.runs [] []).1, ?_, ?_, ?_⟩
      · rw [incoming_eq]; unfold Engine.incomingFlushed
        have : inRuns n rel s.runs [] [] = ((inRuns n rel s.runs [] []).1, some fin) := by
          rw [← hfin]
        rw [this, hG.segs]; simp
      · intro e he
        have hpos : 0 < (inRuns n rel s.runs [] []).1.count e := List.count_pos_iff.mpr he
        rw [hcnt e] at hpos
        split at hpos
        · obtain ⟨run, hr, hme⟩ := visE_pos_mem e s.runs hpos
          exact hres _ (hG.runsRel run hr e hme)
        · omega
      · intro r nm a b hr
        rw [hcnt ⟨a, r, b⟩]
        unfold Graph.inc
        rw [count_filter_pred]
        have hrel : relOk rel ⟨a, r, b⟩ = Graph.relOk t (⟨a, nm, b⟩ : Rel) := by
          rcases hm with ⟨h1, h2⟩ | ⟨r0, nm0, h1, h2, h3⟩
          · subst h1; subst h2; rfl
          · subst h1; subst h2
            simp only [relOk, Graph.relOk]
            rw [Bool.eq_iff_iff]
            simp only [beq_iff_eq]
            constructor
            · intro hh; subst hh; rw [hr] at h3; exact Option.some.inj h3
            · intro hh; subst hh; exact name_inj _ hG.nodup _ _ _ hr h3
        simp only [Bool.and_eq_true, beq_iff_eq]
        rw [hrel]
        by_cases hq : b = n ∧ Graph.relOk t (⟨a, nm, b⟩ : Rel) = true
        · rw [if_pos hq, if_pos hq]; exact hG.edges r nm a b hr
        · rw [if_neg hq, if_neg hq]
  refine { nodes := ?_, nodesSnap := ?_, ext := ?_, labels := ?_, nprop := ?_, nprops := ?_, out := hout,
           inc := hinc, eprop := ?_, eprops := ?_, extLookup := ?_ }
  · unfold Engine.nodes liveNodeIds Graph.nodes
    rw [hL.lenE]
    exact List.filter_congr (fun n _ => hpred n)
  · unfold Engine.nodesSnap liveNodeIds Graph.nodes
    rw [hL.lenL]
    exact List.filter_congr (fun n _ => hpred n)
  · intro n hn
    unfold Engine.resolveExternal
    have hpt := hL.extPt n
    cases hi : s.idmap.i2e[n]? with
    | none => rw [hi] at hpt; simp only [Option.map_none] at hpt; rw [hpt]
    | some r =>
      rw [hi] at hpt
      simp only [Option.map_some] at hpt
      have hmem : (n, r.ext) ∈ g.ext := by
        unfold Graph.extOf at hpt
        cases hf : g.ext.find? (·.1 == n) with
        | none => rw [hf] at hpt; cases hpt
        | some p =>
          rw [hf] at hpt
          obtain ⟨hm, hp⟩ := find_mem _ _ _ hf
          simp only [Option.map_some, Option.some.injEq] at hpt
          have : p = (n, r.ext) := by
            obtain ⟨a, b⟩ := p
            simp only [beq_iff_eq] at hp
            simp only at hpt
            rw [hp, hpt]
          rw [← this]; exact hm
      have hnz := hL.extNZ _ hmem
      simp only at hnz
      have : (r.ext == 0) = false := by simpa using hnz
      simp only [this, Bool.false_eq_true, if_false]
      exact hpt.symm
  · intro n l hn
    obtain ⟨h1, h2, _⟩ := hlive n hn
    unfold Engine.nodeLabelNames Engine.nodeLabels Graph.hasLabel Interner.getName
    rw [List.mem_filterMap, List.contains_eq_mem, decide_eq_true_eq]
    constructor
    · rintro ⟨lid, hmem, hname⟩
      exact (hL.labels n lid l hname h1 h2).mp hmem
    · intro hmem
      have hint := hL.labelsInt _ hmem
      simp only at hint
      obtain ⟨lid, hlt, hget⟩ := List.mem_iff_getElem.mp hint
      have hname : s.interner[lid]? = some l := by rw [List.getElem?_eq_getElem hlt, hget]
      exact ⟨lid, (hL.labels n lid l hname h1 h2).mpr hmem, hname⟩
  · intro n k hn
    obtain ⟨_, h2, _⟩ := hlive n hn
    unfold Engine.nodeProp
    rw [visibleStore_noRoot hG.root, ← hG.nprops n k h2]
    cases npropRuns n k s.runs <;> rfl
  · intro n k hn
    obtain ⟨_, h2, _⟩ := hlive n hn
    unfold Engine.nodeProps
    rw [hG.root]
    simp only [bne_self_eq_false, Bool.false_eq_true, if_false]
    rw [mergeNProps_eq_npropRuns]; exact hG.nprops n k h2
  · intro r nm a b k hr ha hb
    obtain ⟨_, ha2, _⟩ := hlive a ha
    obtain ⟨_, hb2, _⟩ := hlive b hb
    unfold Engine.edgeProp
    rw [visibleStore_noRoot hG.root, ← hG.eprops r nm a b k hr ha2 hb2]
    cases epropRuns ⟨a, r, b⟩ k s.runs <;> rfl
  · intro r nm a b k hr ha hb
    obtain ⟨_, ha2, _⟩ := hlive a ha
    obtain ⟨_, hb2, _⟩ := hlive b hb
    unfold Engine.edgeProps
    rw [hG.root]
    simp only [bne_self_eq_false, Bool.false_eq_true, if_false]
    rw [mergeEProps_eq_epropRuns]; exact hG.eprops r nm a b k hr ha2 hb2
  · intro x hx
    unfold Engine.lookupInternal Graph.extLookup
    rw [hL.e2i x, lookup_swap]
    congr 1
    apply find_congr'
    intro p hp
    unfold GraphSpec.extOfDeleted at hx
    rw [List.any_eq_false] at hx
    have := hx p hp
    by_cases hpx : p.2 = x
    · simp only [hpx, beq_self_eq_true, Bool.true_and, Bool.not_eq_true] at this ⊢
      have hnm : p.1 ∉ g.dead := by simpa using this
      simp [hnm]
    · have : (p.2 == x) = false := by simpa using hpx
      simp [this]

end Nervus.Storage
