/-
  Proofs/ReopenMain.lean — reopen preserves the refinement invariant (C04, compaction-free histories).
-/
import Nervus.Proofs.ReopenSim
namespace Nervus.Storage
open Nervus.GraphSpec (Graph TxOp Op)

/-- the refinement invariant only looks at the run list up to read-equivalence -/
theorem SimG.of_runsEq {s s' : Engine} {g : Graph} (hG : SimG s g) (hr : RunsEq s'.runs s.runs)
    (h1 : s'.segs = []) (h2 : s'.propsRoot = 0) (h3 : s'.interner = s.interner) : SimG s' g := by
  obtain ⟨b1, b2⟩ := hr.bounds s.interner.length hG.runsRel hG.runsERel
  refine { segs := h1, root := h2, nodup := by rw [h3]; exact hG.nodup, dead := ?_, edges := ?_,
           runsOK := hr.runsOK hG.runsOK, runsRel := by rw [h3]; exact b1,
           relsInt := by rw [h3]; exact hG.relsInt, nprops := ?_, eprops := ?_,
           runsERel := by rw [h3]; exact b2, epropsInt := by rw [h3]; exact hG.epropsInt }
  · intro n; rw [RunEq.isTombNode hr n]; exact hG.dead n
  · intro r nm a b hn; rw [h3] at hn; rw [RunEq.visE hr]; exact hG.edges r nm a b hn
  · intro n k hd; rw [RunEq.npropRuns hr]; exact hG.nprops n k hd
  · intro r nm a b k hn ha hb; rw [h3] at hn; rw [RunEq.epropRuns hr]; exact hG.eprops r nm a b k hn ha hb

/-- **reopen**: from an engine that satisfies `Sim` and `Rec`, `open` on its files succeeds and the
    reopened engine satisfies `Sim` for the SAME Spec graph, and `Rec` again -/
theorem reopen_sim {s : Engine} {g : Graph} (hS : Sim s g) (hR : Rec s) :
    ∃ s', s.reopen = .ok s' ∧ Sim s' g ∧ Rec s' := by
  obtain ⟨⟨txs, hb, hl, hs, hg⟩, hp⟩ := hR
  obtain ⟨sc1, sc2, sc3, sc4⟩ := hs
  have hcov : ∀ x iid, s.idmap.lookup x = some iid → (IdMap.load s.idmap.i2e).lookup x = some iid := by
    intro x iid hx; rw [load_lookup_eq hS.L x]; exact hx
  obtain ⟨R, hRg, hE⟩ := hg (IdMap.load s.idmap.i2e) [] hcov (by simp [IdMap.load])
  let m' : IdMap := { IdMap.load s.idmap.i2e with i2l := s.idmap.i2l ++ [] }
  let s' : Engine :=
    { wal := s.wal, idmap := m', interner := s.interner, runs := R.reverse, segs := [], segStore := s.segStore,
      store := s.store, vecs := s.vecs, nextTxid := max ((scanRecovery txs).maxTxid + 1) 1,
      nextSegId := 1, epoch := 0, ckptTxid := 0, propsRoot := 0 }
  have hopen : s.reopen = .ok s' := by
    unfold Engine.reopen Engine.open
    have e1 : replayCommitted s.disk.wal none [] = .ok txs := hb.parse
    have e3 : replayGraph txs 0 (IdMap.load s.disk.i2e) = .ok (m', R) := hRg
    simp only [e1, hl, e3, sc1, sc2, sc3, sc4, bind, Except.bind, List.mapM_nil, pure, Except.pure,
      List.foldl_nil]
    rfl
  have hlk : ∀ x, s'.idmap.lookup x = s.idmap.lookup x := fun x => load_lookup_eq hS.L x
  refine ⟨s', hopen, ⟨?_, ?_⟩, ?_⟩
  · exact hS.G.of_runsEq hE rfl rfl rfl
  · have hL := hS.L
    refine { lenE := hL.lenE, lenL := by show (s.idmap.i2l ++ []).length = _; rw [List.append_nil]; exact hL.lenL,
             e2i := fun x => (hlk x).trans (hL.e2i x), extPt := hL.extPt, extLt := hL.extLt, extNZ := hL.extNZ,
             extND := hL.extND, extIdND := hL.extIdND, labels := ?_, labelsInt := hL.labelsInt,
             labelsLt := hL.labelsLt, deadLt := hL.deadLt, small := hL.small, i2lOK := ?_ }
    · intro n lid nm; show _ → _ → _ → (lid ∈ ((s.idmap.i2l ++ [])[n]?).getD [] ↔ _)
      rw [List.append_nil]; exact hL.labels n lid nm
    · intro n l; show l ∈ ((s.idmap.i2l ++ [])[n]?).getD [] → _
      rw [List.append_nil]; exact hL.i2lOK n l
  · refine ⟨⟨txs, hb, hl, ⟨sc1, sc2, sc3, sc4⟩, ?_⟩, Nat.le_max_right _ _⟩
    intro m0 T hc hi
    have hc' : ∀ x iid, s.idmap.lookup x = some iid → m0.lookup x = some iid := by
      intro x iid hx; exact hc x iid (by rw [hlk x]; exact hx)
    obtain ⟨R0, h1, h2⟩ := hg m0 T hc' hi
    refine ⟨R0, ?_, h2.trans hE.symm⟩
    show replayGraph txs 0 m0 = .ok ({ m0 with i2l := (s.idmap.i2l ++ []) ++ T }, R0)
    rw [List.append_nil]; exact h1

end Nervus.Storage
