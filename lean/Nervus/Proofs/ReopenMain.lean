/-
  Proofs/ReopenMain.lean — reopen preserves the refinement invariant (C04, compaction-free histories).
-/
import Nervus.Proofs.ReopenSim
import Nervus.Proofs.NodeTable
namespace Nervus.Storage
open Nervus.GraphSpec (Graph TxOp Op)

/-- the refinement invariant only looks at the run list up to read-equivalence -/
theorem SimG.of_runsEq {s s' : Engine} {g : Graph} (hG : SimG s g) (hr : RunsEq s'.runs s.runs)
    (h1 : s'.segs = []) (h2 : s'.propsRoot = 0) (h3 : s'.interner = s.interner) : SimG s' g := by
  obtain ⟨b1, b2⟩ := hr.bounds s.interner.length hG.runsRel hG.runsERel
  refine { segs := h1, root := h2, nodup := by rw [h3]; exact hG.nodup, dead := ?_, edges := ?_,
           runsOK := hr.runsOK hG.runsOK, runsRel := by rw [h3]; exact b1,
           relsInt := by rw [h3]; exact hG.relsInt, nprops := ?_, eprops := ?_,
           runsERel := by rw [h3]; exact b2, epropsInt := by rw [h3]; exact hG.epropsInt }
  · intro n; rw [RunEq.isTombNode hr n]; exact hG.dead n
  · intro r nm a b hn; rw [h3] at hn; rw [RunEq.visE hr]; exact hG.edges r nm a b hn
  · intro n k hd; rw [RunEq.npropRuns hr]; exact hG.nprops n k hd
  · intro r nm a b k hn ha hb; rw [h3] at hn; rw [RunEq.epropRuns hr]; exact hG.eprops r nm a b k hn ha hb

/-- segment bookkeeping: every segment in the file is published, ids are distinct -/
structure SegOK (s : Engine) : Prop where
  store : s.segStore = s.segs
  nodup : (s.segs.map (·.id)).Nodup

theorem find_id_self (segs : List Seg) (hn : (segs.map (·.id)).Nodup) :
    ∀ g ∈ segs, segs.find? (·.id == g.id) = some g := by
  induction segs with
  | nil => intro g hg; cases hg
  | cons a as ih =>
    intro g hg
    rw [List.map_cons, List.nodup_cons] at hn
    rcases List.mem_cons.mp hg with rfl | h
    · simp [List.find?_cons]
    · have hne : (a.id == g.id) = false := by
        apply beq_false_of_ne
        intro heq
        exact hn.1 (heq ▸ List.mem_map.mpr ⟨g, h, rfl⟩)
      rw [List.find?_cons, hne]
      exact ih hn.2 g h

theorem mapM_find_self (store : List Seg) (segs : List Seg)
    (h : ∀ g ∈ segs, store.find? (·.id == g.id) = some g) :
    (segs.map (·.id)).mapM (findSeg store) = .ok segs := by
  induction segs with
  | nil => rfl
  | cons a as ih =>
    have ha : findSeg store a.id = .ok a := by
      unfold findSeg; rw [h a List.mem_cons_self]
    rw [List.map_cons, List.mapM_cons, ha, ih (fun g hg => h g (List.mem_cons_of_mem _ hg))]
    rfl

theorem RunsEq.txid_mem {a b : List Run} (h : RunsEq a b) : ∀ r ∈ a, ∃ r' ∈ b, r.txid = r'.txid := by
  induction h with
  | nil => intro r hr; cases hr
  | cons hr _ ih =>
    intro r hm
    rcases List.mem_cons.mp hm with rfl | h'
    · exact ⟨_, List.mem_cons_self, hr.txid⟩
    · obtain ⟨r', hr', he⟩ := ih r h'
      exact ⟨r', List.mem_cons_of_mem _ hr', he⟩

theorem segs_max_ge (gs : List Seg) : ∀ a : Nat, a ≤ gs.foldl (fun m g => max m g.id) a ∧
    ∀ g ∈ gs, g.id ≤ gs.foldl (fun m g => max m g.id) a := by
  induction gs with
  | nil => intro a; exact ⟨Nat.le_refl _, fun g h => by cases h⟩
  | cons x xs ih =>
    intro a
    obtain ⟨h1, h2⟩ := ih (max a x.id)
    refine ⟨Nat.le_trans (Nat.le_max_left _ _) h1, ?_⟩
    intro g hg
    rcases List.mem_cons.mp hg with rfl | h'
    · exact Nat.le_trans (Nat.le_max_right _ _) h1
    · exact h2 g h'

/-- **reopen, general form**: from an engine that satisfies `Rec` and `SegOK` and whose external-id map
    can be rebuilt from the node table (every published segment is found in the file), `open` on its
    files succeeds; the reopened engine has the same
    segments, store, root, interner, vectors and label vectors, an idmap rebuilt from the node table,
    runs that no read can tell from the old ones, and satisfies `Rec` again -/
theorem reopen_rec {s : Engine} (hR : Rec s)
    (hK : ∀ g ∈ s.segs, s.segStore.find? (·.id == g.id) = some g)
    (hload : ∀ x, (IdMap.load s.idmap.i2e).lookup x = s.idmap.lookup x) :
    ∃ s', s.reopen = .ok s' ∧ s'.segs = s.segs ∧ s'.segStore = s.segStore ∧ s'.store = s.store ∧
      s'.propsRoot = s.propsRoot ∧ s'.interner = s.interner ∧ s'.vecs = s.vecs ∧ s'.epoch = s.epoch ∧
      s'.ckptTxid = s.ckptTxid ∧ s'.wal = s.wal ∧
      s'.idmap = { IdMap.load s.idmap.i2e with i2l := s.idmap.i2l } ∧ RunsEq s'.runs s.runs ∧ Rec s' ∧
      (∀ g ∈ s'.segs, g.id < s'.nextSegId) ∧ s'.storeRoot = s.storeRoot := by
  obtain ⟨⟨txs, hb, hl, hs, hg, b1, b2, b3⟩, hp, ha⟩ := hR
  obtain ⟨sc1, sc2, sc3, sc4⟩ := hs
  have hcov : ∀ x iid, s.idmap.lookup x = some iid → (IdMap.load s.idmap.i2e).lookup x = some iid := by
    intro x iid hx; rw [hload x]; exact hx
  obtain ⟨R, hRg, hE⟩ := hg (IdMap.load s.idmap.i2e) [] hcov (by simp [IdMap.load])
  let m' : IdMap := { IdMap.load s.idmap.i2e with i2l := s.idmap.i2l ++ [] }
  let s' : Engine :=
    { wal := s.wal, idmap := m', interner := s.interner, runs := R.reverse, segs := s.segs, segStore := s.segStore,
      store := s.store, storeRoot := s.storeRoot, vecs := s.vecs, nextTxid := max ((scanRecovery txs).maxTxid + 1) 1,
      nextSegId := max (s.segs.foldl (fun m g => max m g.id) 0 + 1) 1, epoch := s.epoch,
      ckptTxid := s.ckptTxid, propsRoot := s.propsRoot }
  have hfind := mapM_find_self s.segStore s.segs hK
  have hopen : s.reopen = .ok s' := by
    unfold Engine.reopen Engine.open
    have e1 : replayCommitted s.disk.wal none [] = .ok txs := hb.parse
    have e3 : replayGraph txs s.ckptTxid (IdMap.load (IdMap.readNodeTable s.disk.i2e)) = .ok (m', R) := by
      rw [IdMap.readNodeTable_eq]; exact hRg
    have e4 : (List.map (fun x => x.id) s.segs).mapM (findSeg s.disk.segStore) = .ok s.segs := hfind
    simp only [e1, hl, sc1, sc2, sc3, sc4, e3, e4, bind, Except.bind, pure, Except.pure]
    rfl
  have hlk : ∀ x, s'.idmap.lookup x = s.idmap.lookup x := hload
  refine ⟨s', hopen, rfl, rfl, rfl, rfl, rfl, rfl, rfl, rfl, rfl, ?_, hE, ?_, ?_, rfl⟩
  rotate_left 2
  · intro g hg
    show g.id < max (s.segs.foldl (fun m g => max m g.id) 0 + 1) 1
    have := (segs_max_ge s.segs 0).2 g hg
    omega
  · show ({ IdMap.load s.idmap.i2e with i2l := s.idmap.i2l ++ [] } : IdMap) = _
    rw [List.append_nil]
  · refine ⟨⟨txs, hb, hl, ⟨sc1, sc2, sc3, sc4⟩, ?_, b1, ?_, ?_⟩, Nat.le_max_right _ _, ?_⟩
    · intro m0 T hc hi
      have hc' : ∀ x iid, s.idmap.lookup x = some iid → m0.lookup x = some iid := by
        intro x iid hx; exact hc x iid (by rw [hlk x]; exact hx)
      obtain ⟨R0, h1, h2⟩ := hg m0 T hc' hi
      refine ⟨R0, ?_, h2.trans hE.symm⟩
      show replayGraph txs s.ckptTxid m0 = .ok ({ m0 with i2l := (s.idmap.i2l ++ []) ++ T }, R0)
      rw [List.append_nil]; exact h1
    · intro r hr
      obtain ⟨r', hr', he⟩ := hE.txid_mem r hr
      rw [he]; exact b2 r' hr'
    · show (scanRecovery txs).maxTxid < max ((scanRecovery txs).maxTxid + 1) 1
      omega
    · intro r hr
      obtain ⟨r', hr', he⟩ := hE.txid_mem r hr
      rw [he]; exact ha r' hr'

/-- **reopen**: from an engine that satisfies `Sim` and `Rec`, `open` on its files succeeds and the
    reopened engine satisfies `Sim` for the SAME Spec graph, and `Rec` again -/
theorem reopen_sim {s : Engine} {g : Graph} (hS : Sim s g) (hR : Rec s) :
    ∃ s', s.reopen = .ok s' ∧ Sim s' g ∧ Rec s' := by
  obtain ⟨s', hopen, h1, _, _, h4, h5, _, _, _, _, hid, hE, hR', _, _⟩ :=
    reopen_rec hR (by rw [hS.G.segs]; intro g hg; cases hg) (load_lookup_eq hS.L)
  have hlk : ∀ x, s'.idmap.lookup x = s.idmap.lookup x := by
    intro x; rw [hid]; exact load_lookup_eq hS.L x
  have hi2e : s'.idmap.i2e = s.idmap.i2e := by rw [hid]; rfl
  have hi2l : s'.idmap.i2l = s.idmap.i2l := by rw [hid]
  refine ⟨s', hopen, ⟨?_, ?_⟩, hR'⟩
  · exact hS.G.of_runsEq hE (by rw [h1]; exact hS.G.segs) (by rw [h4]; exact hS.G.root) h5
  · have hL := hS.L
    refine { lenE := by rw [hi2e]; exact hL.lenE, lenL := by rw [hi2l]; exact hL.lenL,
             e2i := fun x => (hlk x).trans (hL.e2i x), extPt := by rw [hi2e]; exact hL.extPt,
             extLt := hL.extLt, extNZ := hL.extNZ,
             extND := hL.extND, extIdND := hL.extIdND, labels := ?_, labelsInt := by rw [h5]; exact hL.labelsInt,
             labelsLt := hL.labelsLt, deadLt := hL.deadLt, small := by rw [h5]; exact hL.small, i2lOK := ?_ }
    · intro n lid nm; rw [hi2l, h5]; exact hL.labels n lid nm
    · intro n l; rw [hi2l, h5]; exact hL.i2lOK n l

end Nervus.Storage
