/-
  C11 on F1b: `MATCH (a:La) OPTIONAL MATCH (a)-[ev:T…]-(d:Ld)` (any direction) followed by core clauses — the
  OPTIONAL MATCH clause as the next step of the clause-list induction (OptionalWhereFixup over the node rows).
-/
import Nervus.Proofs.CypherF1aDir
namespace Nervus.Cy
open Nervus.Cy Nervus.Cy.Compile

variable (A : Algebra) (env : Env)

theorem compileChain_node_st (a : String) (ls : List String) (preds : Preds) :
    (compileChain none ⟨⟨some a, ls, []⟩, []⟩ preds [] {}).2 = { nextAnon := 1 } := by
  have h1 : (compileChain none ⟨⟨some a, ls, []⟩, []⟩ preds [] {}).2 = (genPath {}).2 := by
    unfold compileChain
    simp only [compileChain.hops]
  rw [h1]
  rfl

/-- the hidden path alias of the second chain of a query whose first chain is a single named node -/
def pa1 : String := (genPath { nextAnon := 1 }).1

/-- the filtered side of the OptionalWhereFixup: one hop from the bound variable over the existing plan -/
def optHop (dir : Dir) (a : String) (la : List String) (ev : Option String) (rels : List String) (d : String)
    (dl : List String) : Plan :=
  mkHop dir (nodePlan a la []) a rels ev d dl true (some pa1)

theorem compileMatch_optHop (dir : Dir) (a d : String) (la dl rels : List String) (ev : Option String)
    (had : a ≠ d) (hev : ∀ e, ev = some e → e ≠ a) :
    compileMatch (some (nodePlan a la [])) [hopPatD dir a [] ev rels d dl] [] { nextAnon := 1 } =
      .ok (compileChain (some (nodePlan a la [])) (hopPatD dir a [] ev rels d dl) [] [(a, Kind.node)] { nextAnon := 1 }) := by
  have hda : (d == a) = false := by simpa using fun h : d = a => had h.symm
  cases ev with
  | none =>
    simp [compileMatch, maybeReanchor, validatePattern, boundAsNode, usesOuter, lastNode, bind, Except.bind, pure,
      Except.pure, List.lookup, outKinds_nodePlan, hda]
  | some e =>
    have hea : (e == a) = false := by simpa using hev e rfl
    simp [compileMatch, maybeReanchor, validatePattern, boundAsNode, usesOuter, lastNode, bind, Except.bind, pure,
      Except.pure, List.lookup, outKinds_nodePlan, hda, hea]

theorem compileChain_optHop (dir : Dir) (a d : String) (la dl rels : List String) (ev : Option String) :
    (compileChain (some (nodePlan a la [])) (hopPatD dir a [] ev rels d dl) [] [(a, Kind.node)] { nextAnon := 1 }).1 =
      optHop dir a la ev rels d dl := by
  unfold compileChain optHop pa1
  cases ev <;>
  simp [compileChain.hops, extendPreds, boundAsNode, List.lookup, applyFilters, applyLabelFilters, andChain]

def optAliases (dir : Dir) (a : String) (la : List String) (ev : Option String) (rels : List String) (d : String)
    (dl : List String) : List String :=
  optionalAliases [hopPatD dir a [] ev rels d dl] [(a, Kind.node)] (outKinds (optHop dir a la ev rels d dl))

def optPlan (dir : Dir) (a : String) (la : List String) (ev : Option String) (rels : List String) (d : String)
    (dl : List String) : Plan :=
  .optionalWhereFixup (nodePlan a la []) (optHop dir a la ev rels d dl) (optAliases dir a la ev rels d dl)

theorem compileClauses_F1b (dir : Dir) (a d : String) (la dl rels : List String) (ev : Option String) (tail : Query)
    (had : a ≠ d) (hev : ∀ e, ev = some e → e ≠ a) (hnw : ∀ w rest, tail ≠ .where_ w :: rest) :
    ∃ st, compileClauses (.match_ false [⟨⟨some a, la, []⟩, []⟩] :: .match_ true [hopPatD dir a [] ev rels d dl] :: tail) {} =
      compileClauses tail { plan := some (optPlan dir a la ev rels d dl), st := st, pending := none } := by
  have hm : compileMatch none [⟨⟨some a, la, []⟩, []⟩] [] {} =
      .ok (compileChain none ⟨⟨some a, la, []⟩, []⟩ [] [] {}) := by
    simp only [compileMatch, List.forIn_cons, List.forIn_nil, maybeReanchor, List.isEmpty_nil, ↓reduceIte,
      validatePattern, bind, Except.bind, pure, Except.pure, List.lookup, boundAsNode, usesOuter, List.map_nil,
      List.any_cons, List.any_nil, Bool.or_false, Bool.false_eq_true]
  have hpair1 : compileChain none ⟨⟨some a, la, []⟩, []⟩ [] [] {} = (nodePlan a la [], { nextAnon := 1 }) := by
    rw [← compileChain_node a la [] {}, ← compileChain_node_st a la []]
  have hpair2 : compileChain (some (nodePlan a la [])) (hopPatD dir a [] ev rels d dl) [] [(a, Kind.node)] { nextAnon := 1 } =
      (optHop dir a la ev rels d dl,
        (compileChain (some (nodePlan a la [])) (hopPatD dir a [] ev rels d dl) [] [(a, Kind.node)] { nextAnon := 1 }).2) := by
    rw [← compileChain_optHop dir a d la dl rels ev]
  refine ⟨(compileChain (some (nodePlan a la [])) (hopPatD dir a [] ev rels d dl) [] [(a, Kind.node)] { nextAnon := 1 }).2, ?_⟩
  have hstep1 : compileClauses (.match_ false [⟨⟨some a, la, []⟩, []⟩] :: .match_ true [hopPatD dir a [] ev rels d dl] :: tail) {} =
      compileClauses (.match_ true [hopPatD dir a [] ev rels d dl] :: tail)
        { plan := some (nodePlan a la []), st := { nextAnon := 1 }, pending := none } := by
    simp only [compileClauses, bind, Except.bind]
    rw [hm, hpair1]
    simp only [Bool.false_eq_true, ↓reduceIte]
  rw [hstep1]
  cases tail with
  | nil =>
    simp only [compileClauses, bind, Except.bind, Option.getD_some, outKinds_nodePlan]
    rw [compileMatch_optHop dir a d la dl rels ev had hev, hpair2]
    simp [optPlan, optAliases]
  | cons c rest =>
    cases c with
    | where_ w => exact absurd rfl (hnw w rest)
    | match_ o ps =>
      simp only [compileClauses, bind, Except.bind, Option.getD_some, outKinds_nodePlan]
      rw [compileMatch_optHop dir a d la dl rels ev had hev, hpair2]
      simp [optPlan, optAliases]
    | unwind e x =>
      simp only [compileClauses, bind, Except.bind, Option.getD_some, outKinds_nodePlan]
      rw [compileMatch_optHop dir a d la dl rels ev had hev, hpair2]
      simp [optPlan, optAliases]
    | with_ p w =>
      simp only [compileClauses, bind, Except.bind, Option.getD_some, outKinds_nodePlan]
      rw [compileMatch_optHop dir a d la dl rels ev had hev, hpair2]
      simp [optPlan, optAliases]
    | return_ p =>
      simp only [compileClauses, bind, Except.bind, Option.getD_some, outKinds_nodePlan]
      rw [compileMatch_optHop dir a d la dl rels ev had hev, hpair2]
      simp [optPlan, optAliases]

/-! ### rows of the fixup plan -/

def nodeRows0 (a : String) (la : List String) : Table :=
  ((scanRows env a la.head?).filter (pushedOK A env a [])).filter (labelOK A env a la)

theorem nodeRows0_shape (a : String) (la : List String) :
    ∀ r ∈ nodeRows0 A env a la, ∃ nd ∈ env.g.nodes, r = [(a, Val.node nd.id)] := by
  intro r hr
  have h1 := (List.mem_filter.mp (List.mem_filter.mp hr).1).1
  unfold scanRows at h1
  obtain ⟨n, hn, rfl⟩ := List.mem_map.mp h1
  exact ⟨n, (List.mem_filter.mp hn).1, rfl⟩

theorem nodeRows0_nodup (hg : env.g.NodesDistinct) (a : String) (la : List String) : (nodeRows0 A env a la).Nodup := by
  unfold nodeRows0 scanRows
  apply List.Pairwise.filter
  apply List.Pairwise.filter
  rw [List.pairwise_map]
  refine (List.Pairwise.filter _ hg).imp ?_
  intro x y hxy h
  simp at h
  exact hxy h

theorem exec_optHop (dir : Dir) (a d : String) (la dl rels : List String) (ev : Option String) :
    Exec.exec A env (optHop dir a la ev rels d dl) =
      .ok ((nodeRows0 A env a la).flatMap (stepRowD env dir a rels ev d dl pa1)) := by
  unfold optHop nodeRows0
  cases dir with
  | out =>
    simp only [mkHop, Exec.exec, exec_nodePlan, bind, Except.bind]
    rw [expandOut_flatMap]
    · rfl
    · intro r hr
      obtain ⟨id, rfl⟩ := nodeRows_shape A env a la [] r hr
      exact ⟨id, Row.get_singleton a _⟩
  | inn => simp only [mkHop, Exec.exec, exec_nodePlan, bind, Except.bind, pure, Except.pure]; rfl
  | both => simp only [mkHop, Exec.exec, exec_nodePlan, bind, Except.bind, pure, Except.pure]; rfl

/-- the rows of `MATCH (a:La) OPTIONAL MATCH (a)-[ev]-(d)`: every node row keeps its own expansions, or is padded -/
theorem exec_optPlan (hg : env.g.NodesDistinct) (dir : Dir) (a d : String) (la dl rels : List String)
    (ev : Option String) (had : a ≠ d) (hap : a ≠ pa1) (hae : ∀ e, ev = some e → a ≠ e) :
    Exec.exec A env (optPlan dir a la ev rels d dl) = .ok ((nodeRows0 A env a la).flatMap fun o =>
      if (stepRowD env dir a rels ev d dl pa1 o).isEmpty then
        [(optAliases dir a la ev rels d dl).foldl (fun r x => r.set x .null) o]
      else stepRowD env dir a rels ev d dl pa1 o) := by
  have hfix := optionalFixup_correct (nodeRows0 A env a la) (stepRowD env dir a rels ev d dl pa1)
    (optAliases dir a la ev rels d dl) (nodeRows0_nodup A env hg a la)
    (by
      intro o ho r hr
      obtain ⟨nd, _, rfl⟩ := nodeRows0_shape A env a la o ho
      simp only [stepRowD, Row.get_singleton] at hr
      have hget := stepDir_get env.g dir _ nd.id rels ev d dl pa1 a had hap hae r hr
      simp [Exec.containsAllBindings, hget, Row.get_singleton])
    (by
      intro o ho o' ho' hne r hr
      obtain ⟨nd, _, rfl⟩ := nodeRows0_shape A env a la o ho
      obtain ⟨nd', _, rfl⟩ := nodeRows0_shape A env a la o' ho'
      simp only [stepRowD, Row.get_singleton] at hr
      have hget := stepDir_get env.g dir _ nd'.id rels ev d dl pa1 a had hap hae r hr
      have hid : nd'.id ≠ nd.id := fun h => hne (by rw [h])
      simp [Exec.containsAllBindings, hget, Row.get_singleton, hid])
  unfold optPlan
  simp only [Exec.exec, exec_optHop, bind, Except.bind, pure, Except.pure]
  have hnode : Exec.exec A env (nodePlan a la []) = .ok (nodeRows0 A env a la) := exec_nodePlan A env a la []
  rw [hnode]
  simp only [hfix]

/-! ### the null aliases -/

theorem lookup_isSome_iff {β} (m : List (String × β)) (x : String) : (m.lookup x).isSome = true ↔ x ∈ m.map (·.1) := by
  induction m with
  | nil => simp [List.lookup]
  | cons p rest ih =>
    obtain ⟨k, v⟩ := p
    simp only [List.lookup, List.map_cons, List.mem_cons]
    by_cases h : x = k
    · subst h; simp
    · have : (x == k) = false := by simpa using h
      simp [this, ih, h]

theorem lookup_foldl_insertSorted (xs : List String) (acc : List (String × Unit)) (x : String) :
    ((xs.foldl (fun (m : List (String × Unit)) a => insertSorted m a ()) acc).lookup x).isSome =
      (xs.contains x || (acc.lookup x).isSome) := by
  induction xs generalizing acc with
  | nil => simp
  | cons y ys ih =>
    simp only [List.foldl_cons, ih, lookup_insertSorted, List.contains_cons]
    by_cases h : x = y
    · subst h; simp
    · have : (x == y) = false := by simpa using h
      simp [this]

theorem pa1_internal : isInternalPath pa1 = true := by decide

theorem lookup_outKinds_optHop (dir : Dir) (a d : String) (la dl rels : List String) (ev : Option String)
    (had : a ≠ d) (hev : ∀ e, ev = some e → e ≠ a ∧ e ≠ d) (x : String) :
    (outKinds (optHop dir a la ev rels d dl)).lookup x =
      match ev with
      | some e => if x == e then some Kind.rel else if x == d then some .node else if x == a then some .node else none
      | none => if x == d then some Kind.node else if x == a then some .node else none := by
  have hbase : outKinds (optHop dir a la ev rels d dl) = matchKinds [(a, Kind.node)] a ev d (some pa1) := by
    unfold optHop
    cases dir <;> (show matchKinds (outKinds (nodePlan a la [])) a ev d (some pa1) = _; rw [outKinds_nodePlan])
  have hda : (d == a) = false := by simpa using fun h : d = a => had h.symm
  have h1 : mergeKind [(a, Kind.node)] a .node = [(a, Kind.node)] := mergeKind_same _ _ _ (by simp [List.lookup])
  have h2 : ([(a, Kind.node)] : Kinds).lookup d = none := by simp [List.lookup, hda]
  rw [hbase]
  cases ev with
  | none =>
    simp only [matchKinds, pa1_internal, ↓reduceIte, h1]
    rw [lookup_mergeKind_fresh _ d .node h2]
    simp [List.lookup]
    cases hxa : x == a <;> simp_all
  | some e =>
    obtain ⟨hea, hed⟩ := hev e rfl
    simp only [matchKinds, pa1_internal, ↓reduceIte, h1]
    have h3 : (mergeKind [(a, Kind.node)] d .node).lookup e = none := by
      rw [lookup_mergeKind_fresh _ d .node h2]
      have : (e == d) = false := by simpa using hed
      have : (e == a) = false := by simpa using hea
      simp [List.lookup, *]
    rw [lookup_mergeKind_fresh _ e .rel h3, lookup_mergeKind_fresh _ d .node h2]
    simp [List.lookup]
    cases hxa : x == a <;> simp_all

/-- the null aliases of the fixup are exactly the new variables `d` and `ev` -/
theorem mem_optAliases (dir : Dir) (a d : String) (la dl rels : List String) (ev : Option String)
    (had : a ≠ d) (hev : ∀ e, ev = some e → e ≠ a ∧ e ≠ d) (x : String) :
    x ∈ optAliases dir a la ev rels d dl ↔ (x = d ∨ ev = some x) := by
  unfold optAliases optionalAliases
  rw [← lookup_isSome_iff, lookup_foldl_insertSorted]
  simp only [List.lookup, Option.isSome_none, Bool.or_false, List.contains_eq_mem, List.mem_filter,
    decide_eq_true_eq, List.mem_append, List.flatMap_cons, List.flatMap_nil, List.append_nil, List.mem_map]
  have hk : ∀ y, (∃ p ∈ outKinds (optHop dir a la ev rels d dl), p.1 = y) ↔
      ((outKinds (optHop dir a la ev rels d dl)).lookup y).isSome = true := by
    intro y
    rw [lookup_isSome_iff]
    simp [List.mem_map]
  simp only [hk, lookup_outKinds_optHop dir a d la dl rels ev had hev]
  have hda : d ≠ a := fun h => had h.symm
  have hdab : (d == a) = false := by simpa using hda
  cases ev with
  | none =>
    by_cases hxd : x = d
    · subst hxd; simp [hdab]
    · by_cases hxa : x = a
      · subst hxa; simp [hxd]
      · have hxab : (x == a) = false := by simpa using hxa
        simp [hxd, hxa, hxab]
  | some e =>
    obtain ⟨hea, hed⟩ := hev e rfl
    have heab : (e == a) = false := by simpa using hea
    by_cases hxe : x = e
    · subst hxe; simp [heab]
    · have hex : ¬ e = x := fun h => hxe h.symm
      by_cases hxd : x = d
      · subst hxd; simp [hdab, hxe, hex]
      · by_cases hxa : x = a
        · subst hxa; simp [hxd, hxe, hex]
        · have hxab : (x == a) = false := by simpa using hxa
          simp [hxd, hxa, hxe, hex, hxab]

end Nervus.Cy
