/-
  C11 on F1b: `MATCH (a:La) OPTIONAL MATCH (a)-[ev:T…]-(d:Ld)` (any direction) followed by core clauses — the
  OPTIONAL MATCH clause as the next step of the clause-list induction (OptionalWhereFixup over the node rows).
-/
import Nervus.Proofs.CypherF1aDir
namespace Nervus.Cy
open Nervus.Cy Nervus.Cy.Compile

variable (A : Algebra) (env : Env)

theorem compileChain_node_st (a : String) (ls : List String) (preds : Preds) :
    (compileChain none ⟨⟨some a, ls, []⟩, []⟩ preds [] {}).2 = { nextAnon := 1 } := by
  have h1 : (compileChain none ⟨⟨some a, ls, []⟩, []⟩ preds [] {}).2 = (genPath {}).2 := by
    unfold compileChain
    simp only [compileChain.hops]
  rw [h1]
  rfl

/-- the hidden path alias of the second chain of a query whose first chain is a single named node -/
def pa1 : String := (genPath { nextAnon := 1 }).1

/-- the filtered side of the OptionalWhereFixup: one hop from the bound variable over the existing plan -/
def optHop (dir : Dir) (a : String) (la : List String) (ev : Option String) (rels : List String) (d : String)
    (dl : List String) : Plan :=
  mkHop dir (nodePlan a la []) a rels ev d dl true (some pa1)

theorem compileMatch_optHop (dir : Dir) (a d : String) (la dl rels : List String) (ev : Option String)
    (had : a ≠ d) (hev : ∀ e, ev = some e → e ≠ a) :
    compileMatch (some (nodePlan a la [])) [hopPatD dir a [] ev rels d dl] [] { nextAnon := 1 } =
      .ok (compileChain (some (nodePlan a la [])) (hopPatD dir a [] ev rels d dl) [] [(a, Kind.node)] { nextAnon := 1 }) := by
  have hda : (d == a) = false := by simpa using fun h : d = a => had h.symm
  cases ev with
  | none =>
    simp [compileMatch, maybeReanchor, validatePattern, boundAsNode, usesOuter, lastNode, bind, Except.bind, pure,
      Except.pure, List.lookup, outKinds_nodePlan, hda]
  | some e =>
    have hea : (e == a) = false := by simpa using hev e rfl
    simp [compileMatch, maybeReanchor, validatePattern, boundAsNode, usesOuter, lastNode, bind, Except.bind, pure,
      Except.pure, List.lookup, outKinds_nodePlan, hda, hea]

theorem compileChain_optHop (dir : Dir) (a d : String) (la dl rels : List String) (ev : Option String) :
    (compileChain (some (nodePlan a la [])) (hopPatD dir a [] ev rels d dl) [] [(a, Kind.node)] { nextAnon := 1 }).1 =
      optHop dir a la ev rels d dl := by
  unfold compileChain optHop pa1
  cases ev <;>
  simp [compileChain.hops, extendPreds, boundAsNode, List.lookup, applyFilters, applyLabelFilters, andChain]

def optAliases (dir : Dir) (a : String) (la : List String) (ev : Option String) (rels : List String) (d : String)
    (dl : List String) : List String :=
  optionalAliases [hopPatD dir a [] ev rels d dl] [(a, Kind.node)] (outKinds (optHop dir a la ev rels d dl))

def optPlan (dir : Dir) (a : String) (la : List String) (ev : Option String) (rels : List String) (d : String)
    (dl : List String) : Plan :=
  .optionalWhereFixup (nodePlan a la []) (optHop dir a la ev rels d dl) (optAliases dir a la ev rels d dl)

theorem compileClauses_F1b (dir : Dir) (a d : String) (la dl rels : List String) (ev : Option String) (tail : Query)
    (had : a ≠ d) (hev : ∀ e, ev = some e → e ≠ a) (hnw : ∀ w rest, tail ≠ .where_ w :: rest) :
    ∃ st, compileClauses (.match_ false [⟨⟨some a, la, []⟩, []⟩] :: .match_ true [hopPatD dir a [] ev rels d dl] :: tail) {} =
      compileClauses tail { plan := some (optPlan dir a la ev rels d dl), st := st, pending := none } := by
  have hm : compileMatch none [⟨⟨some a, la, []⟩, []⟩] [] {} =
      .ok (compileChain none ⟨⟨some a, la, []⟩, []⟩ [] [] {}) := by
    simp only [compileMatch, List.forIn_cons, List.forIn_nil, maybeReanchor, List.isEmpty_nil, ↓reduceIte,
      validatePattern, bind, Except.bind, pure, Except.pure, List.lookup, boundAsNode, usesOuter, List.map_nil,
      List.any_cons, List.any_nil, Bool.or_false, Bool.false_eq_true]
  have hpair1 : compileChain none ⟨⟨some a, la, []⟩, []⟩ [] [] {} = (nodePlan a la [], { nextAnon := 1 }) := by
    rw [← compileChain_node a la [] {}, ← compileChain_node_st a la []]
  have hpair2 : compileChain (some (nodePlan a la [])) (hopPatD dir a [] ev rels d dl) [] [(a, Kind.node)] { nextAnon := 1 } =
      (optHop dir a la ev rels d dl,
        (compileChain (some (nodePlan a la [])) (hopPatD dir a [] ev rels d dl) [] [(a, Kind.node)] { nextAnon := 1 }).2) := by
    rw [← compileChain_optHop dir a d la dl rels ev]
  refine ⟨(compileChain (some (nodePlan a la [])) (hopPatD dir a [] ev rels d dl) [] [(a, Kind.node)] { nextAnon := 1 }).2, ?_⟩
  have hstep1 : compileClauses (.match_ false [⟨⟨some a, la, []⟩, []⟩] :: .match_ true [hopPatD dir a [] ev rels d dl] :: tail) {} =
      compileClauses (.match_ true [hopPatD dir a [] ev rels d dl] :: tail)
        { plan := some (nodePlan a la []), st := { nextAnon := 1 }, pending := none } := by
    simp only [compileClauses, bind, Except.bind]
    rw [hm, hpair1]
    simp only [Bool.false_eq_true, ↓reduceIte]
  rw [hstep1]
  cases tail with
  | nil =>
    simp only [compileClauses, bind, Except.bind, Option.getD_some, outKinds_nodePlan]
    rw [compileMatch_optHop dir a d la dl rels ev had hev, hpair2]
    simp [optPlan, optAliases]
  | cons c rest =>
    cases c with
    | where_ w => exact absurd rfl (hnw w rest)
    | match_ o ps =>
      simp only [compileClauses, bind, Except.bind, Option.getD_some, outKinds_nodePlan]
      rw [compileMatch_optHop dir a d la dl rels ev had hev, hpair2]
      simp [optPlan, optAliases]
    | unwind e x =>
      simp only [compileClauses, bind, Except.bind, Option.getD_some, outKinds_nodePlan]
      rw [compileMatch_optHop dir a d la dl rels ev had hev, hpair2]
      simp [optPlan, optAliases]
    | with_ p w =>
      simp only [compileClauses, bind, Except.bind, Option.getD_some, outKinds_nodePlan]
      rw [compileMatch_optHop dir a d la dl rels ev had hev, hpair2]
      simp [optPlan, optAliases]
    | return_ p =>
      simp only [compileClauses, bind, Except.bind, Option.getD_some, outKinds_nodePlan]
      rw [compileMatch_optHop dir a d la dl rels ev had hev, hpair2]
      simp [optPlan, optAliases]

end Nervus.Cy
