/-
  Proofs/EngineStaged2.lean — per-operation simulation lemmas, part 2: deletions and properties.
-/
import Nervus.Proofs.EngineStaged
namespace Nervus.Storage
open Nervus.GraphSpec (Graph TxOp Op Rel)

theorem count_filter_pred {α} [DecidableEq α] (p : α → Bool) (l : List α) (a : α) :
    (l.filter p).count a = if p a = true then l.count a else 0 := by
  by_cases h : p a = true
  · rw [if_pos h]; exact List.count_filter h
  · rw [if_neg h]
    apply List.count_eq_zero.mpr
    intro hm; exact h (List.mem_filter.mp hm).2

/-- `tombstone_edge` against `tombEdge`, when the relationship has no properties -/
theorem Staged.tombEdge {s0 g0 s t g} (hst : Staged s0 g0 s t g) {r nm a b : Nat}
    (hr : s.interner[r]? = some nm) (hnp : ∀ p ∈ g.eprops, p.1.1 ≠ ⟨a, nm, b⟩) :
    Staged s0 g0 s (t.tombstoneEdge ⟨a, r, b⟩) (g.step (.tombEdge a nm b)) := by
  have hep : g.eprops.filter (fun p => p.1.1 != (⟨a, nm, b⟩ : Rel)) = g.eprops := by
    apply List.filter_eq_self.mpr
    intro p hp; simpa using hnp p hp
  refine { ext := hst.ext, dead := hst.dead, edges := ?_, mtOK := ?_, relsInt := ?_, rels0 := hst.rels0,
           nprops := hst.nprops, mtN := hst.mtN, eprops := ?_, mtE := hst.mtE, mtERel := hst.mtERel,
           epropsInt := ?_, eprops0 := hst.eprops0 }
  · intro r' nm' a' b' h'
    have hold := hst.edges r' nm' a' b' h'
    have hiff := edge_eq_iff hst.ext.nodup hr h' a b a' b'
    show (g.rels.filter (· != (⟨a, nm, b⟩ : Rel))).count (⟨a', nm', b'⟩ : Rel) =
      (t.mt.edges.filter (· != (⟨a, r, b⟩ : Edge))).count (⟨a', r', b'⟩ : Edge) +
      (if ((⟨a', r', b'⟩ : Edge) ∈ setInsert (⟨a, r, b⟩ : Edge) t.mt.tombEdges ∨ a' ∈ t.mt.tombNodes ∨ b' ∈ t.mt.tombNodes)
        then 0 else g0.mult ⟨a', nm', b'⟩)
    rw [count_filter_ne, count_filter_ne]
    by_cases he : (⟨a', r', b'⟩ : Edge) = ⟨a, r, b⟩
    · have he' := hiff.mpr he
      rw [if_pos he', if_pos he, if_pos (Or.inl ((mem_setInsert _ _ _).mpr (Or.inl he)))]
    · have he' : ¬ ((⟨a', nm', b'⟩ : Rel) = ⟨a, nm, b⟩) := fun h => he (hiff.mp h)
      rw [if_neg he', if_neg he]
      have hold' : g.rels.count (⟨a', nm', b'⟩ : Rel) = _ := hold
      rw [hold']
      congr 1
      simp only [mem_setInsert, he, false_or]
  · intro e he
    exact hst.mtOK e (List.mem_filter.mp he).1
  · intro e he
    exact hst.relsInt e (List.mem_filter.mp he).1
  · intro r' nm' a' b' k h' ha hb
    show (g.eprops.filter (fun p => p.1.1 != (⟨a, nm, b⟩ : Rel))).lookup (⟨a', nm', b'⟩, k) = _
    rw [hep]
    exact hst.eprops r' nm' a' b' k h' ha hb
  · intro p hp
    exact hst.epropsInt p (List.mem_filter.mp hp).1

theorem touches_iff (e : Rel) (n : Nat) : e.touches n = true ↔ (e.src = n ∨ e.dst = n) := by
  simp [Rel.touches]

/-- `tombstone_node` against `tombNode`, when no staged edge ends at the node -/
theorem Staged.tombNode {s0 g0 s t g} (hst : Staged s0 g0 s t g) {n : Nat}
    (hne : ∀ e ∈ t.mt.edges, e.src ≠ n ∧ e.dst ≠ n) :
    Staged s0 g0 s (t.tombstoneNode n) (g.step (.tombNode n)) := by
  refine { ext := hst.ext, dead := ?_, edges := ?_, mtOK := ?_, relsInt := ?_, rels0 := hst.rels0,
           nprops := ?_, mtN := hst.mtN, eprops := ?_, mtE := hst.mtE, mtERel := hst.mtERel,
           epropsInt := ?_, eprops0 := hst.eprops0 }
  · intro n'
    show n' ∈ n :: g.dead ↔ (n' ∈ g0.dead ∨ n' ∈ setInsert n t.mt.tombNodes)
    rw [List.mem_cons, mem_setInsert, hst.dead n']
    constructor
    · rintro (h | h | h)
      · exact Or.inr (Or.inl h)
      · exact Or.inl h
      · exact Or.inr (Or.inr h)
    · rintro (h | h | h)
      · exact Or.inr (Or.inl h)
      · exact Or.inl h
      · exact Or.inr (Or.inr h)
  · intro r' nm' a' b' h'
    have hold := hst.edges r' nm' a' b' h'
    show (g.rels.filter (fun e => !e.touches n)).count (⟨a', nm', b'⟩ : Rel) =
      t.mt.edges.count (⟨a', r', b'⟩ : Edge) +
      (if ((⟨a', r', b'⟩ : Edge) ∈ t.mt.tombEdges ∨ a' ∈ setInsert n t.mt.tombNodes ∨ b' ∈ setInsert n t.mt.tombNodes)
        then 0 else g0.mult ⟨a', nm', b'⟩)
    rw [count_filter_pred]
    by_cases ht : a' = n ∨ b' = n
    · have h1 : ¬ ((!(⟨a', nm', b'⟩ : Rel).touches n) = true) := by
        simp only [Bool.not_eq_true', Bool.not_eq_false]; exact (touches_iff _ _).mpr ht
      rw [if_neg h1]
      have h2 : t.mt.edges.count (⟨a', r', b'⟩ : Edge) = 0 := by
        apply List.count_eq_zero.mpr
        intro hm
        have := hne _ hm
        simp only at this
        rcases ht with h | h
        · exact this.1 h
        · exact this.2 h
      rw [h2, if_pos]
      rcases ht with h | h
      · exact Or.inr (Or.inl ((mem_setInsert _ _ _).mpr (Or.inl h)))
      · exact Or.inr (Or.inr ((mem_setInsert _ _ _).mpr (Or.inl h)))
    · have h1 : (!(⟨a', nm', b'⟩ : Rel).touches n) = true := by
        simp only [Bool.not_eq_true']
        cases hq : (⟨a', nm', b'⟩ : Rel).touches n with
        | false => rfl
        | true => exact absurd ((touches_iff _ _).mp hq) ht
      rw [if_pos h1]
      have hold' : g.rels.count (⟨a', nm', b'⟩ : Rel) = _ := hold
      rw [hold']
      simp only [not_or] at ht
      simp only [mem_setInsert, ht.1, ht.2, false_or]
  · intro e he
    obtain ⟨h1, h2, h3⟩ := hst.mtOK e he
    have := hne e he
    refine ⟨?_, ?_, h3⟩
    · show e.src ∉ n :: g.dead
      simp only [List.mem_cons, not_or]; exact ⟨this.1, h1⟩
    · show e.dst ∉ n :: g.dead
      simp only [List.mem_cons, not_or]; exact ⟨this.2, h2⟩
  · intro e he
    exact hst.relsInt e (List.mem_filter.mp he).1
  · intro n' k hn'
    have hn'' : n' ∉ n :: g.dead := hn'
    simp only [List.mem_cons, not_or] at hn''
    show (g.nprops.filter (fun p => p.1.1 != n)).lookup (n', k) = _
    rw [lookup_filter_keep]
    · exact hst.nprops n' k hn''.2
    · intro v; simpa using hn''.1
  · intro r' nm' a' b' k h' ha hb
    have ha' : a' ∉ n :: g.dead := ha
    have hb' : b' ∉ n :: g.dead := hb
    simp only [List.mem_cons, not_or] at ha' hb'
    show (g.eprops.filter (fun p => !p.1.1.touches n)).lookup (⟨a', nm', b'⟩, k) = _
    rw [lookup_filter_keep]
    · exact hst.eprops r' nm' a' b' k h' ha'.2 hb'.2
    · intro v
      simp only [Bool.not_eq_true']
      cases hq : (⟨a', nm', b'⟩ : Rel).touches n with
      | false => rfl
      | true =>
        rcases (touches_iff _ _).mp hq with h | h
        · exact absurd h ha'.1
        · exact absurd h hb'.1
  · intro p hp
    exact hst.epropsInt p (List.mem_filter.mp hp).1

/-- `set_node_property` against `nprop` -/
theorem Staged.nprop {s0 g0 s t g} (hst : Staged s0 g0 s t g) (n k : Nat) (v : PV) :
    Staged s0 g0 s (t.setNodeProp n k v) (g.step (.nprop n k v)) := by
  refine { ext := hst.ext, dead := hst.dead, edges := hst.edges, mtOK := hst.mtOK, relsInt := hst.relsInt,
           rels0 := hst.rels0, nprops := ?_, mtN := ?_, eprops := hst.eprops, mtE := hst.mtE,
           mtERel := hst.mtERel, epropsInt := hst.epropsInt, eprops0 := hst.eprops0 }
  · intro n' k' hn'
    have hold := hst.nprops n' k' hn'
    show (((n, k), v) :: g.nprops.filter (fun p => p.1 != (n, k))).lookup (n', k') =
      (match (upsert (n, k) v t.mt.nprops).lookup (n', k') with
        | some v => some v
        | none => if (n', k') ∈ t.mt.nDel.filter (· != (n, k)) then none else g0.nprop n' k')
    rw [lookup_upsert]
    by_cases hk : (n', k') = (n, k)
    · rw [hk]; simp [List.lookup]
    · have hne : ((n', k') == (n, k)) = false := by simpa using hk
      rw [List.lookup_cons, hne, if_neg hk]
      simp only
      rw [lookup_filter_keep]
      · have hold' : g.nprops.lookup (n', k') = _ := hold
        rw [hold']
        cases hl : t.mt.nprops.lookup (n', k') <;> by_cases hm : (n', k') ∈ t.mt.nDel <;>
          simp [mem_filter_ne, hk, hm]
      · intro v'; simpa using hk
  · intro key hkey
    have hkey' : key ∈ t.mt.nDel.filter (· != (n, k)) := hkey
    rw [mem_filter_ne] at hkey'
    show (upsert (n, k) v t.mt.nprops).lookup key = none
    rw [lookup_upsert, if_neg hkey'.2]
    exact hst.mtN key hkey'.1

/-- `remove_node_property` against `npropDel` -/
theorem Staged.npropDel {s0 g0 s t g} (hst : Staged s0 g0 s t g) (n k : Nat) :
    Staged s0 g0 s (t.removeNodeProp n k) (g.step (.npropDel n k)) := by
  refine { ext := hst.ext, dead := hst.dead, edges := hst.edges, mtOK := hst.mtOK, relsInt := hst.relsInt,
           rels0 := hst.rels0, nprops := ?_, mtN := ?_, eprops := hst.eprops, mtE := hst.mtE,
           mtERel := hst.mtERel, epropsInt := hst.epropsInt, eprops0 := hst.eprops0 }
  · intro n' k' hn'
    have hold := hst.nprops n' k' hn'
    show (g.nprops.filter (fun p => p.1 != (n, k))).lookup (n', k') =
      (match (mapErase (n, k) t.mt.nprops).lookup (n', k') with
        | some v => some v
        | none => if (n', k') ∈ setInsert (n, k) t.mt.nDel then none else g0.nprop n' k')
    rw [lookup_mapErase]
    by_cases hk : (n', k') = (n, k)
    · rw [hk, lookup_filter_drop]
      · simp [mem_setInsert]
      · intro v; simp
    · rw [if_neg hk, lookup_filter_keep]
      · have hold' : g.nprops.lookup (n', k') = _ := hold
        rw [hold']
        cases hl : t.mt.nprops.lookup (n', k') <;> by_cases hm : (n', k') ∈ t.mt.nDel <;>
          simp [mem_setInsert, hk, hm]
      · intro v'; simpa using hk
  · intro key hkey
    have hkey' : key ∈ setInsert (n, k) t.mt.nDel := hkey
    rw [mem_setInsert] at hkey'
    show (mapErase (n, k) t.mt.nprops).lookup key = none
    rw [lookup_mapErase]
    rcases hkey' with h | h
    · rw [if_pos h]
    · split
      · rfl
      · exact hst.mtN key h

theorem ekey_eq_iff {t : Interner} (hn : t.Nodup) {r r' nm nm' : Nat} (h : t[r]? = some nm) (h' : t[r']? = some nm')
    (a b a' b' k k' : Nat) :
    (((⟨a', nm', b'⟩ : Rel), k') = (⟨a, nm, b⟩, k)) ↔ (((⟨a', r', b'⟩ : Edge), k') = (⟨a, r, b⟩, k)) := by
  simp only [Prod.mk.injEq]
  rw [edge_eq_iff hn h h' a b a' b']

/-- `set_edge_property` against `eprop` -/
theorem Staged.eprop {s0 g0 s t g} (hst : Staged s0 g0 s t g) {r nm a b : Nat} (k : Nat) (v : PV)
    (hr : s.interner[r]? = some nm) :
    Staged s0 g0 s (t.setEdgeProp ⟨a, r, b⟩ k v) (g.step (.eprop a nm b k v)) := by
  refine { ext := hst.ext, dead := hst.dead, edges := hst.edges, mtOK := hst.mtOK, relsInt := hst.relsInt,
           rels0 := hst.rels0, nprops := hst.nprops, mtN := hst.mtN, eprops := ?_, mtE := ?_,
           mtERel := ?_, epropsInt := ?_, eprops0 := hst.eprops0 }
  · intro r' nm' a' b' k' h' ha hb
    have hold := hst.eprops r' nm' a' b' k' h' ha hb
    have hiff := ekey_eq_iff hst.ext.nodup hr h' a b a' b' k k'
    show ((((⟨a, nm, b⟩ : Rel), k), v) :: g.eprops.filter (fun p => p.1 != ((⟨a, nm, b⟩ : Rel), k))).lookup (⟨a', nm', b'⟩, k') =
      (match (upsert ((⟨a, r, b⟩ : Edge), k) v t.mt.eprops).lookup (⟨a', r', b'⟩, k') with
        | some v => some v
        | none => if ((⟨a', r', b'⟩ : Edge), k') ∈ t.mt.eDel.filter (· != ((⟨a, r, b⟩ : Edge), k)) then none
                  else g0.eprop ⟨a', nm', b'⟩ k')
    rw [lookup_upsert]
    by_cases hk : (((⟨a', r', b'⟩ : Edge), k') = (⟨a, r, b⟩, k))
    · have hk' := hiff.mpr hk
      rw [if_pos hk, hk']; simp [List.lookup]
    · have hk' : ¬ (((⟨a', nm', b'⟩ : Rel), k') = (⟨a, nm, b⟩, k)) := fun h => hk (hiff.mp h)
      have hne : ((((⟨a', nm', b'⟩ : Rel), k')) == (⟨a, nm, b⟩, k)) = false := by simpa using hk'
      rw [List.lookup_cons, hne, if_neg hk]
      simp only
      rw [lookup_filter_keep]
      · have hold' : g.eprops.lookup (⟨a', nm', b'⟩, k') = _ := hold
        rw [hold']
        cases hl : t.mt.eprops.lookup ((⟨a', r', b'⟩ : Edge), k') <;>
          by_cases hm : ((⟨a', r', b'⟩ : Edge), k') ∈ t.mt.eDel <;> simp [mem_filter_ne, hk, hm]
      · intro v'; simpa using hk'
  · intro key hkey
    have hkey' : key ∈ t.mt.eDel.filter (· != ((⟨a, r, b⟩ : Edge), k)) := hkey
    rw [mem_filter_ne] at hkey'
    show (upsert ((⟨a, r, b⟩ : Edge), k) v t.mt.eprops).lookup key = none
    rw [lookup_upsert, if_neg hkey'.2]
    exact hst.mtE key hkey'.1
  · intro p hp
    have hp' : p ∈ upsert ((⟨a, r, b⟩ : Edge), k) v t.mt.eprops := hp
    unfold upsert at hp'
    rw [List.mem_cons] at hp'
    rcases hp' with h | h
    · subst h; exact lt_of_getElem?_eq_some hr
    · exact hst.mtERel p (List.mem_filter.mp h).1
  · intro p hp
    have hp' : p ∈ (((⟨a, nm, b⟩ : Rel), k), v) :: g.eprops.filter (fun p => p.1 != ((⟨a, nm, b⟩ : Rel), k)) := hp
    rw [List.mem_cons] at hp'
    rcases hp' with h | h
    · subst h; exact mem_of_getElem?_eq_some hr
    · exact hst.epropsInt p (List.mem_filter.mp h).1

/-- `remove_edge_property` against `epropDel` -/
theorem Staged.epropDel {s0 g0 s t g} (hst : Staged s0 g0 s t g) {r nm a b : Nat} (k : Nat)
    (hr : s.interner[r]? = some nm) :
    Staged s0 g0 s (t.removeEdgeProp ⟨a, r, b⟩ k) (g.step (.epropDel a nm b k)) := by
  refine { ext := hst.ext, dead := hst.dead, edges := hst.edges, mtOK := hst.mtOK, relsInt := hst.relsInt,
           rels0 := hst.rels0, nprops := hst.nprops, mtN := hst.mtN, eprops := ?_, mtE := ?_,
           mtERel := ?_, epropsInt := ?_, eprops0 := hst.eprops0 }
  · intro r' nm' a' b' k' h' ha hb
    have hold := hst.eprops r' nm' a' b' k' h' ha hb
    have hiff := ekey_eq_iff hst.ext.nodup hr h' a b a' b' k k'
    show (g.eprops.filter (fun p => p.1 != ((⟨a, nm, b⟩ : Rel), k))).lookup (⟨a', nm', b'⟩, k') =
      (match (mapErase ((⟨a, r, b⟩ : Edge), k) t.mt.eprops).lookup (⟨a', r', b'⟩, k') with
        | some v => some v
        | none => if ((⟨a', r', b'⟩ : Edge), k') ∈ setInsert ((⟨a, r, b⟩ : Edge), k) t.mt.eDel then none
                  else g0.eprop ⟨a', nm', b'⟩ k')
    rw [lookup_mapErase]
    by_cases hk : (((⟨a', r', b'⟩ : Edge), k') = (⟨a, r, b⟩, k))
    · have hk' := hiff.mpr hk
      rw [if_pos hk, hk', lookup_filter_drop]
      · simp [mem_setInsert, hk]
      · intro v; simp
    · have hk' : ¬ (((⟨a', nm', b'⟩ : Rel), k') = (⟨a, nm, b⟩, k)) := fun h => hk (hiff.mp h)
      rw [if_neg hk, lookup_filter_keep]
      · have hold' : g.eprops.lookup (⟨a', nm', b'⟩, k') = _ := hold
        rw [hold']
        cases hl : t.mt.eprops.lookup ((⟨a', r', b'⟩ : Edge), k') <;>
          by_cases hm : ((⟨a', r', b'⟩ : Edge), k') ∈ t.mt.eDel <;> simp [mem_setInsert, hk, hm]
      · intro v'; simpa using hk'
  · intro key hkey
    have hkey' : key ∈ setInsert ((⟨a, r, b⟩ : Edge), k) t.mt.eDel := hkey
    rw [mem_setInsert] at hkey'
    show (mapErase ((⟨a, r, b⟩ : Edge), k) t.mt.eprops).lookup key = none
    rw [lookup_mapErase]
    rcases hkey' with h | h
    · rw [if_pos h]
    · split
      · rfl
      · exact hst.mtE key h
  · intro p hp
    exact hst.mtERel p (List.mem_filter.mp hp).1
  · intro p hp
    exact hst.epropsInt p (List.mem_filter.mp hp).1

end Nervus.Storage
