/-
  Helper lemmas for C31, part 2: invariants of `search_layer` (soundness for any distance, and
  completeness when `ef` is at least the number of stored vectors).
-/
import Nervus.Proofs.HnswHeap
namespace Nervus.Hnsw

variable {V D : Type}

/-- the pair carries the distance of the query to the stored vector of its id -/
def GoodPair (sp : Space V D) (ix : Index V) (q : V) (h : D × Nat) : Prop :=
  ∃ v, ix.vecs.lookup h.2 = some v ∧ h.1 = sp.dist q v

theorem getVec_ok {ix : Index V} {i : Nat} {v : V} (h : getVec ix i = .ok v) : ix.vecs.lookup i = some v := by
  unfold getVec at h
  cases hl : ix.vecs.lookup i with
  | none => rw [hl] at h; cases h
  | some w => rw [hl] at h; cases h; rfl

/-- what holds of a `search_layer` state; `P` is any set of ids containing the entry points and
    closed under the layer's adjacency -/
structure SLInv (sp : Space V D) (ix : Index V) (q : V) (P : Nat → Prop) (st : SL D) : Prop where
  vis : ∀ i, i ∈ st.visited → P i
  cands : ∀ h, h ∈ st.cands → h.2 ∈ st.visited ∧ GoodPair sp ix q h
  near : ∀ h, h ∈ st.nearest → h.2 ∈ st.visited ∧ GoodPair sp ix q h
  nodup : (st.nearest.map (·.2)).Nodup

theorem contains_false_iff {l : List Nat} {a : Nat} : l.contains a = false ↔ a ∉ l := by
  simp

/-- pushing a freshly visited id -/
theorem SLInv.push {sp : Space V D} {ix : Index V} {q : V} {P : Nat → Prop} {st : SL D}
    (h : SLInv sp ix q P st) {n : Nat} {v : V} (hn : n ∉ st.visited) (hP : P n)
    (hv : ix.vecs.lookup n = some v) :
    SLInv sp ix q P ⟨(sp.dist q v, n) :: st.cands, n :: st.visited, (sp.dist q v, n) :: st.nearest⟩ := by
  refine ⟨?_, ?_, ?_, ?_⟩
  · intro i hi
    rcases List.mem_cons.mp hi with rfl | hi
    · exact hP
    · exact h.vis i hi
  · intro x hx
    rcases List.mem_cons.mp hx with rfl | hx
    · exact ⟨List.mem_cons_self, v, hv, rfl⟩
    · exact ⟨List.mem_cons_of_mem _ (h.cands x hx).1, (h.cands x hx).2⟩
  · intro x hx
    rcases List.mem_cons.mp hx with rfl | hx
    · exact ⟨List.mem_cons_self, v, hv, rfl⟩
    · exact ⟨List.mem_cons_of_mem _ (h.near x hx).1, (h.near x hx).2⟩
  · simp only [List.map_cons, List.nodup_cons]
    refine ⟨?_, h.nodup⟩
    intro hin
    rcases List.mem_map.mp hin with ⟨x, hx, hx2⟩
    apply hn; rw [← hx2]; exact (h.near x hx).1

/-- shrinking `nearest` to a sub-permutation keeps the invariant -/
theorem SLInv.shrink {sp : Space V D} {ix : Index V} {q : V} {P : Nat → Prop} {st : SL D}
    (h : SLInv sp ix q P st) {x : D × Nat} {r : List (D × Nat)} (hp : (x :: r).Perm st.nearest) :
    SLInv sp ix q P { st with nearest := r } := by
  refine ⟨h.vis, h.cands, ?_, ?_⟩
  · intro y hy; exact h.near y (hp.subset (List.mem_cons_of_mem _ hy))
  · have := (hp.map (·.2)).nodup_iff.mpr h.nodup
    simp only [List.map_cons, List.nodup_cons] at this
    exact this.2

theorem SLInv.visitOnly {sp : Space V D} {ix : Index V} {q : V} {P : Nat → Prop} {st : SL D}
    (h : SLInv sp ix q P st) {n : Nat} (hP : P n) :
    SLInv sp ix q P { st with visited := n :: st.visited } := by
  refine ⟨?_, ?_, ?_, h.nodup⟩
  · intro i hi
    rcases List.mem_cons.mp hi with rfl | hi
    · exact hP
    · exact h.vis i hi
  · intro x hx; exact ⟨List.mem_cons_of_mem _ (h.cands x hx).1, (h.cands x hx).2⟩
  · intro x hx; exact ⟨List.mem_cons_of_mem _ (h.near x hx).1, (h.near x hx).2⟩

/-- the optional `nearest.pop()` after a push -/
def trunc (sp : Space V D) (ef : Nat) (nearest : List (D × Nat)) : List (D × Nat) :=
  if nearest.length > ef then
    (match popMax sp nearest with | some (_, r) => r | none => nearest) else nearest

theorem SLInv.trunc {sp : Space V D} {ix : Index V} {q : V} {P : Nat → Prop} {st : SL D}
    (h : SLInv sp ix q P st) (ef : Nat) :
    SLInv sp ix q P { st with nearest := trunc sp ef st.nearest } := by
  unfold Hnsw.trunc
  split
  · cases hp : popMax sp st.nearest with
    | none => exact h
    | some xr =>
      obtain ⟨x, r⟩ := xr
      exact h.shrink (popMax_perm sp _ _ _ hp)
  · exact h

theorem trunc_ne_nil (sp : Space V D) (ef : Nat) (l : List (D × Nat)) (hef : 1 ≤ ef) (hl : l ≠ []) :
    trunc sp ef l ≠ [] := by
  unfold trunc
  split
  · rename_i hlen
    cases hp : popMax sp l with
    | none => exact hl
    | some xr =>
      obtain ⟨x, r⟩ := xr
      simp only
      have := (popMax_perm sp _ _ _ hp).length_eq
      simp only [List.length_cons] at this
      intro hr; subst hr; simp at this; omega
  · exact hl

/-! ### the three loops -/

theorem slInit_inv {sp : Space V D} {ix : Index V} {q : V} {P : Nat → Prop} :
    ∀ (eps : List Nat) (st st' : SL D), SLInv sp ix q P st → (∀ e, e ∈ eps → P e) →
      (∀ i, i ∈ st.visited → i ∈ st.nearest.map (·.2)) →
      slInit sp ix q eps st = .ok st' →
      SLInv sp ix q P st' ∧ (∀ e, e ∈ eps → e ∈ st'.visited) ∧ (∀ i, i ∈ st.visited → i ∈ st'.visited) ∧
        (∀ i, i ∈ st'.visited → i ∈ st'.nearest.map (·.2))
  | [], st, st', h, _, hcov, hr => by
    simp only [slInit, Except.ok.injEq] at hr; subst hr
    exact ⟨h, (fun _ he => by cases he), fun _ hi => hi, hcov⟩
  | ep :: eps, st, st', h, hP, hcov, hr => by
    unfold slInit at hr
    by_cases hc : st.visited.contains ep = true
    · simp only [hc, if_true] at hr
      obtain ⟨h1, h2, h3, h4⟩ := slInit_inv eps st st' h (fun e he => hP e (List.mem_cons_of_mem _ he)) hcov hr
      refine ⟨h1, ?_, h3, h4⟩
      intro e he
      rcases List.mem_cons.mp he with rfl | he
      · exact h3 e (by simpa using hc)
      · exact h2 e he
    · simp only [hc] at hr
      have hn : ep ∉ st.visited := by simpa using hc
      cases hg : getVec ix ep with
      | error e => rw [hg] at hr; simp at hr
      | ok v =>
        rw [hg] at hr
        simp only [Bool.false_eq_true, if_false] at hr
        have hinv := h.push hn (hP ep List.mem_cons_self) (getVec_ok hg)
        obtain ⟨h1, h2, h3, h4⟩ := slInit_inv eps _ st' hinv (fun e he => hP e (List.mem_cons_of_mem _ he))
          (by
            intro i hi
            simp only [List.map_cons]
            rcases List.mem_cons.mp hi with rfl | hi
            · exact List.mem_cons_self
            · exact List.mem_cons_of_mem _ (hcov i hi)) hr
        refine ⟨h1, ?_, fun i hi => h3 i (List.mem_cons_of_mem _ hi), h4⟩
        intro e he
        rcases List.mem_cons.mp he with rfl | he
        · exact h3 e List.mem_cons_self
        · exact h2 e he

theorem slVisit_inv {sp : Space V D} {ix : Index V} {q : V} {P : Nat → Prop} (ef : Nat) :
    ∀ (ns : List Nat) (st st' : SL D), SLInv sp ix q P st → (∀ n, n ∈ ns → P n) →
      slVisit sp ix q ef ns st = .ok st' →
      SLInv sp ix q P st' ∧ (∀ i, i ∈ st.visited → i ∈ st'.visited) ∧ (∀ n, n ∈ ns → n ∈ st'.visited) ∧
        (1 ≤ ef → st.nearest ≠ [] → st'.nearest ≠ [])
  | [], st, st', h, _, hr => by
    simp only [slVisit, Except.ok.injEq] at hr; subst hr
    exact ⟨h, fun _ hi => hi, (fun _ hn => by cases hn), fun _ hne => hne⟩
  | n :: ns, st, st', h, hP, hr => by
    unfold slVisit at hr
    have hPns : ∀ m, m ∈ ns → P m := fun m hm => hP m (List.mem_cons_of_mem _ hm)
    by_cases hc : st.visited.contains n = true
    · simp only [hc, if_true] at hr
      obtain ⟨h1, h2, h3, h4⟩ := slVisit_inv ef ns st st' h hPns hr
      refine ⟨h1, h2, ?_, h4⟩
      intro m hm
      rcases List.mem_cons.mp hm with rfl | hm
      · exact h2 m (by simpa using hc)
      · exact h3 m hm
    · simp only [hc] at hr
      have hn : n ∉ st.visited := by simpa using hc
      cases hg : getVec ix n with
      | error e => rw [hg] at hr; simp at hr
      | ok v =>
        rw [hg] at hr
        simp only [Bool.false_eq_true, if_false] at hr
        have hpush := h.push hn (hP n List.mem_cons_self) (getVec_ok hg)
        -- the state after a push (with the optional pop)
        have hpushed : ∀ st'', slVisit sp ix q ef ns
            ⟨(sp.dist q v, n) :: st.cands, n :: st.visited, trunc sp ef ((sp.dist q v, n) :: st.nearest)⟩ = .ok st'' →
            SLInv sp ix q P st'' ∧ (∀ i, i ∈ st.visited → i ∈ st''.visited) ∧
              (∀ m, m ∈ n :: ns → m ∈ st''.visited) ∧ (1 ≤ ef → st.nearest ≠ [] → st''.nearest ≠ []) := by
          intro st'' hr''
          obtain ⟨h1, h2, h3, h4⟩ := slVisit_inv ef ns _ st'' (hpush.trunc ef) hPns hr''
          refine ⟨h1, fun i hi => h2 i (List.mem_cons_of_mem _ hi), ?_, ?_⟩
          · intro m hm
            rcases List.mem_cons.mp hm with rfl | hm
            · exact h2 m List.mem_cons_self
            · exact h3 m hm
          · intro hef _
            exact h4 hef (trunc_ne_nil sp ef _ hef (by simp))
        split at hr
        · exact hpushed st' hr
        · cases hpk : peekMax sp st.nearest with
          | none => rw [hpk] at hr; simp at hr
          | some mx =>
            rw [hpk] at hr
            simp only at hr
            split at hr
            · exact hpushed st' hr
            · obtain ⟨h1, h2, h3, h4⟩ := slVisit_inv ef ns _ st' (h.visitOnly (hP n List.mem_cons_self)) hPns hr
              refine ⟨h1, fun i hi => h2 i (List.mem_cons_of_mem _ hi), ?_, h4⟩
              intro m hm
              rcases List.mem_cons.mp hm with rfl | hm
              · exact h2 m List.mem_cons_self
              · exact h3 m hm

theorem slLoop_inv {sp : Space V D} {ix : Index V} {q : V} {P : Nat → Prop} (ef layer : Nat)
    (hcl : ∀ i, P i → ∀ j, j ∈ getNbrs ix layer i → P j) :
    ∀ (fuel : Nat) (st : SL D) (r : List (D × Nat)), SLInv sp ix q P st →
      slLoop sp ix q ef layer fuel st = .ok r →
      (∀ h, h ∈ r → P h.2 ∧ GoodPair sp ix q h) ∧ (r.map (·.2)).Nodup ∧
        (1 ≤ ef → st.nearest ≠ [] → r ≠ [])
  | 0, _, _, _, hr => by simp [slLoop] at hr
  | fuel + 1, st, r, h, hr => by
    have hfin : ∀ r', r' = st.nearest →
        (∀ x, x ∈ r' → P x.2 ∧ GoodPair sp ix q x) ∧ (r'.map (·.2)).Nodup ∧ (1 ≤ ef → st.nearest ≠ [] → r' ≠ []) := by
      intro r' hr'; subst hr'
      exact ⟨fun x hx => ⟨h.vis _ (h.near x hx).1, (h.near x hx).2⟩, h.nodup, fun _ hne => hne⟩
    unfold slLoop at hr
    cases hp : popMin sp st.cands with
    | none => rw [hp] at hr; simp only [Except.ok.injEq] at hr; exact hfin r hr.symm
    | some cr =>
      obtain ⟨c, rest⟩ := cr
      rw [hp] at hr
      simp only at hr
      cases hpk : peekMax sp st.nearest with
      | none => rw [hpk] at hr; simp at hr
      | some f =>
        rw [hpk] at hr
        simp only at hr
        split at hr
        · simp only [Except.ok.injEq] at hr; exact hfin r hr.symm
        · have hperm := popMin_perm sp _ _ _ hp
          have hc := h.cands c (hperm.subset List.mem_cons_self)
          have hst : SLInv sp ix q P { st with cands := rest } :=
            ⟨h.vis, fun x hx => h.cands x (hperm.subset (List.mem_cons_of_mem _ hx)), h.near, h.nodup⟩
          cases hv : slVisit sp ix q ef (getNbrs ix layer c.2) { st with cands := rest } with
          | error e => rw [hv] at hr; simp at hr
          | ok st' =>
            rw [hv] at hr
            simp only at hr
            obtain ⟨h1, _, _, h4⟩ := slVisit_inv ef _ _ st' hst (hcl c.2 (h.vis _ hc.1)) hv
            obtain ⟨g1, g2, g3⟩ := slLoop_inv ef layer hcl fuel st' r h1 hr
            exact ⟨g1, g2, fun hef hne => g3 hef (h4 hef hne)⟩

/-- **soundness of `search_layer`** for any distance: every returned pair has an id inside `P`, a stored
    vector and the right distance; ids are distinct; non-empty entry points give a non-empty result -/
theorem searchLayer_sound {sp : Space V D} {ix : Index V} {q : V} {P : Nat → Prop} (eps : List Nat)
    (ef layer : Nat) (hP : ∀ e, e ∈ eps → P e)
    (hcl : ∀ i, P i → ∀ j, j ∈ getNbrs ix layer i → P j) (r : List (D × Nat))
    (hr : searchLayer sp ix q eps ef layer = .ok r) :
    (∀ h, h ∈ r → P h.2 ∧ GoodPair sp ix q h) ∧ (r.map (·.2)).Nodup ∧ (1 ≤ ef → eps ≠ [] → r ≠ []) := by
  unfold searchLayer at hr
  cases hi : slInit sp ix q eps ⟨[], [], []⟩ with
  | error e => rw [hi] at hr; simp at hr
  | ok st =>
    rw [hi] at hr
    simp only at hr
    have h0 : SLInv sp ix q P (⟨[], [], []⟩ : SL D) :=
      ⟨(fun _ h => by cases h), (fun _ h => by cases h), (fun _ h => by cases h), List.nodup_nil⟩
    obtain ⟨h1, h2, _, h4⟩ := slInit_inv eps _ st h0 hP (fun _ h => by cases h) hi
    obtain ⟨g1, g2, g3⟩ := slLoop_inv ef layer hcl _ st r h1 hr
    refine ⟨g1, g2, fun hef hne => g3 hef ?_⟩
    cases eps with
    | nil => exact absurd rfl hne
    | cons e es =>
      have := h4 e (h2 e List.mem_cons_self)
      intro hnil; rw [hnil] at this; cases this

/-! ### completeness of `search_layer` when `ef` is at least the number of stored vectors -/

/-- reachability through the adjacency lists of one layer -/
inductive Reach (ix : Index V) (layer : Nat) : Nat → Nat → Prop
  | refl (i : Nat) : Reach ix layer i i
  | step {i j k : Nat} : j ∈ getNbrs ix layer i → Reach ix layer j k → Reach ix layer i k

def ClosedAt (ix : Index V) (layer : Nat) (vis : List Nat) (i : Nat) : Prop :=
  ∀ j, j ∈ getNbrs ix layer i → j ∈ vis

theorem reach_in_closed {ix : Index V} {layer : Nat} {vis : List Nat}
    (hcl : ∀ i, i ∈ vis → ClosedAt ix layer vis i) {i u : Nat} (hr : Reach ix layer i u) (hi : i ∈ vis) :
    u ∈ vis := by
  induction hr with
  | refl => exact hi
  | step hj _ ih => exact ih (hcl _ hi _ hj)

theorem reach_in_set {ix : Index V} {layer : Nat} {P : Nat → Prop}
    (hcl : ∀ i, P i → ∀ j, j ∈ getNbrs ix layer i → P j) {i u : Nat} (hr : Reach ix layer i u) (hi : P i) :
    P u := by
  induction hr with
  | refl => exact hi
  | step hj _ ih => exact ih (hcl _ hi _ hj)

/-- additional invariants when nothing is ever dropped from `nearest` -/
structure CInv (ix : Index V) (layer : Nat) (exempt : Option Nat) (st : SL D) : Prop where
  cov : ∀ i, i ∈ st.visited → i ∈ st.nearest.map (·.2)
  closed : ∀ i, i ∈ st.visited → some i ≠ exempt → i ∉ st.cands.map (·.2) → ClosedAt ix layer st.visited i

theorem near_ids_subset {sp : Space V D} {ix : Index V} {q : V} {P : Nat → Prop} {st : SL D}
    (h : SLInv sp ix q P st) : ∀ i, i ∈ st.nearest.map (·.2) → i ∈ st.visited := by
  intro i hi
  rcases List.mem_map.mp hi with ⟨x, hx, rfl⟩
  exact (h.near x hx).1

/-- with `ef ≥ |U|` a freshly visited id always finds room in `nearest` -/
theorem room {sp : Space V D} {ix : Index V} {q : V} {U : List Nat} {st : SL D} {ef n : Nat}
    (h : SLInv sp ix q (· ∈ U) st) (hef : U.length ≤ ef) (hn : n ∉ st.visited) (hU : n ∈ U) :
    st.nearest.length < ef := by
  have hsub : ∀ x, x ∈ st.nearest.map (·.2) → x ∈ U.erase n := by
    intro x hx
    have hv := near_ids_subset h x hx
    have hne : x ≠ n := by intro e; subst e; exact hn hv
    exact (List.mem_erase_of_ne hne).mpr (h.vis x hv)
  have := length_le_of_nodup_subset _ _ h.nodup hsub
  rw [List.length_map, List.length_erase_of_mem hU] at this
  have : 0 < U.length := List.length_pos_of_mem hU
  omega

theorem slVisit_complete {sp : Space V D} {ix : Index V} {q : V} {U : List Nat} (ef layer : Nat) (c : Nat)
    (hef : U.length ≤ ef) :
    ∀ (ns : List Nat) (st st' : SL D), SLInv sp ix q (· ∈ U) st → CInv ix layer (some c) st →
      (∀ n, n ∈ ns → n ∈ U) → slVisit sp ix q ef ns st = .ok st' → CInv ix layer (some c) st'
  | [], st, st', _, hc, _, hr => by
    simp only [slVisit, Except.ok.injEq] at hr; subst hr; exact hc
  | n :: ns, st, st', h, hc, hU, hr => by
    unfold slVisit at hr
    have hUns : ∀ m, m ∈ ns → m ∈ U := fun m hm => hU m (List.mem_cons_of_mem _ hm)
    by_cases hcn : st.visited.contains n = true
    · simp only [hcn, if_true] at hr
      exact slVisit_complete ef layer c hef ns st st' h hc hUns hr
    · simp only [hcn] at hr
      have hn : n ∉ st.visited := by simpa using hcn
      cases hg : getVec ix n with
      | error e => rw [hg] at hr; simp at hr
      | ok v =>
        rw [hg] at hr
        simp only [Bool.false_eq_true, if_false] at hr
        have hroom := room h hef hn (hU n List.mem_cons_self)
        simp only [hroom, if_true] at hr
        -- no truncation: the list has at most `ef` elements
        have hnt : ¬ ((sp.dist q v, n) :: st.nearest).length > ef := by
          simp only [List.length_cons]; omega
        simp only [hnt, if_false] at hr
        have hpush := h.push hn (hU n List.mem_cons_self) (getVec_ok hg)
        refine slVisit_complete ef layer c hef ns _ st' hpush ?_ hUns hr
        refine ⟨?_, ?_⟩
        · intro i hi
          simp only [List.map_cons]
          rcases List.mem_cons.mp hi with rfl | hi
          · exact List.mem_cons_self
          · exact List.mem_cons_of_mem _ (hc.cov i hi)
        · intro i hi hne hnc
          simp only [List.map_cons, List.mem_cons, not_or] at hnc
          rcases List.mem_cons.mp hi with rfl | hi
          · exact absurd rfl hnc.1
          · intro j hj
            exact List.mem_cons_of_mem _ (hc.closed i hi hne hnc.2 j hj)

theorem slLoop_complete {sp : Space V D} {ix : Index V} {q : V} {U : List Nat} (ef layer : Nat)
    (hef : U.length ≤ ef)
    (hcl : ∀ i, i ∈ U → ∀ j, j ∈ getNbrs ix layer i → j ∈ U) :
    ∀ (fuel : Nat) (st : SL D) (r : List (D × Nat)), SLInv sp ix q (· ∈ U) st → CInv ix layer none st →
      slLoop sp ix q ef layer fuel st = .ok r →
      ∀ i, i ∈ st.visited → ∀ u, Reach ix layer i u → u ∈ r.map (·.2)
  | 0, _, _, _, _, hr => by simp [slLoop] at hr
  | fuel + 1, st, r, h, hc, hr => by
    unfold slLoop at hr
    cases hp : popMin sp st.cands with
    | none =>
      rw [hp] at hr
      simp only [Except.ok.injEq] at hr; subst hr
      have hnil := popMin_none sp _ hp
      intro i hi u hu
      apply hc.cov
      refine reach_in_closed ?_ hu hi
      intro i' hi'
      exact hc.closed i' hi' (by simp) (by rw [hnil]; simp)
    | some cr =>
      obtain ⟨c, rest⟩ := cr
      rw [hp] at hr
      simp only at hr
      cases hpk : peekMax sp st.nearest with
      | none => rw [hpk] at hr; simp at hr
      | some f =>
        rw [hpk] at hr
        simp only at hr
        split at hr
        · -- early exit: `nearest` already holds `ef ≥ |U|` distinct stored ids, i.e. all of them
          rename_i hbr
          simp only [Except.ok.injEq] at hr; subst hr
          simp only [Bool.and_eq_true, decide_eq_true_eq] at hbr
          intro i hi u hu
          have huU : u ∈ U := reach_in_set (P := (· ∈ U)) hcl hu (h.vis i hi)
          refine covers_of_length_ge _ U h.nodup (fun x hx => h.vis x (near_ids_subset h x hx)) ?_ u huU
          rw [List.length_map]; omega
        · have hperm := popMin_perm sp _ _ _ hp
          have hcv := h.cands c (hperm.subset List.mem_cons_self)
          have hst : SLInv sp ix q (· ∈ U) { st with cands := rest } :=
            ⟨h.vis, fun x hx => h.cands x (hperm.subset (List.mem_cons_of_mem _ hx)), h.near, h.nodup⟩
          have hcst : CInv ix layer (some c.2) { st with cands := rest } := by
            refine ⟨hc.cov, ?_⟩
            intro i hi hne hnc
            apply hc.closed i hi (by simp)
            intro hin
            have := (hperm.map (·.2)).symm.subset hin
            simp only [List.map_cons, List.mem_cons] at this
            rcases this with h1 | h1
            · apply hne; rw [h1]
            · exact hnc h1
          cases hv : slVisit sp ix q ef (getNbrs ix layer c.2) { st with cands := rest } with
          | error e => rw [hv] at hr; simp at hr
          | ok st' =>
            rw [hv] at hr
            simp only at hr
            have hnb : ∀ n, n ∈ getNbrs ix layer c.2 → n ∈ U := hcl c.2 (h.vis _ hcv.1)
            obtain ⟨h1, hmono, hall, _⟩ := slVisit_inv ef _ _ st' hst hnb hv
            have hc1 := slVisit_complete ef layer c.2 hef _ _ st' hst hcst hnb hv
            have hc2 : CInv ix layer none st' := by
              refine ⟨hc1.cov, ?_⟩
              intro i hi _ hnc
              by_cases hic : i = c.2
              · subst hic; intro j hj; exact hall j hj
              · exact hc1.closed i hi (by simpa using hic) hnc
            intro i hi u hu
            exact slLoop_complete ef layer hef hcl fuel st' r h1 hc2 hr i (hmono i hi) u hu

theorem slInit_cands {sp : Space V D} {ix : Index V} {q : V} :
    ∀ (eps : List Nat) (st st' : SL D), (∀ i, i ∈ st.visited → i ∈ st.cands.map (·.2)) →
      slInit sp ix q eps st = .ok st' → ∀ i, i ∈ st'.visited → i ∈ st'.cands.map (·.2)
  | [], st, st', h, hr => by
    simp only [slInit, Except.ok.injEq] at hr; subst hr; exact h
  | ep :: eps, st, st', h, hr => by
    unfold slInit at hr
    by_cases hc : st.visited.contains ep = true
    · simp only [hc, if_true] at hr
      exact slInit_cands eps st st' h hr
    · simp only [hc] at hr
      cases hg : getVec ix ep with
      | error e => rw [hg] at hr; simp at hr
      | ok v =>
        rw [hg] at hr
        simp only [Bool.false_eq_true, if_false] at hr
        refine slInit_cands eps _ st' ?_ hr
        intro i hi
        simp only [List.map_cons]
        rcases List.mem_cons.mp hi with rfl | hi
        · exact List.mem_cons_self
        · exact List.mem_cons_of_mem _ (h i hi)

/-- **completeness of `search_layer`**: with `ef` at least the number of stored ids, everything
    reachable from an entry point is returned -/
theorem searchLayer_complete {sp : Space V D} {ix : Index V} {q : V} {U : List Nat} (eps : List Nat)
    (ef layer : Nat) (hef : U.length ≤ ef) (hP : ∀ e, e ∈ eps → e ∈ U)
    (hcl : ∀ i, i ∈ U → ∀ j, j ∈ getNbrs ix layer i → j ∈ U) (r : List (D × Nat))
    (hr : searchLayer sp ix q eps ef layer = .ok r) :
    ∀ e, e ∈ eps → ∀ u, Reach ix layer e u → u ∈ r.map (·.2) := by
  unfold searchLayer at hr
  cases hi : slInit sp ix q eps ⟨[], [], []⟩ with
  | error e => rw [hi] at hr; simp at hr
  | ok st =>
    rw [hi] at hr
    simp only at hr
    have h0 : SLInv sp ix q (· ∈ U) (⟨[], [], []⟩ : SL D) :=
      ⟨(fun _ h => by cases h), (fun _ h => by cases h), (fun _ h => by cases h), List.nodup_nil⟩
    obtain ⟨h1, h2, _, h4⟩ := slInit_inv eps _ st h0 hP (fun _ h => by cases h) hi
    have h5 := slInit_cands eps _ st (fun _ h => by cases h) hi
    have hc : CInv ix layer none st := ⟨h4, fun i hi _ hnc => absurd (h5 i hi) hnc⟩
    intro e he u hu
    exact slLoop_complete ef layer hef hcl _ st r h1 hc hr e (h2 e he) u hu

end Nervus.Hnsw
