/-
  Proofs/EngineDangling.lean — no dangling relationships (C14): the Spec graph of a well-formed
  history only holds relationships between live nodes, hence (C06 refinement) so does every read of
  the engine; the query-level DELETE check against the snapshot.
-/
import Nervus.Proofs.EngineReadsAgree
import Nervus.Model.QueryDelete
namespace Nervus.Storage
open Nervus.GraphSpec (Graph TxOp Op Rel opWF txWF wfFrom)

/-- every relationship of the graph connects two live nodes -/
def RelsLive (g : Graph) : Prop := ∀ e ∈ g.rels, g.live e.src = true ∧ g.live e.dst = true

theorem live_mono_next (g : Graph) (n : Nat) (h : g.live n = true) (g' : Graph)
    (h1 : g.next ≤ g'.next) (h2 : g'.dead = g.dead) : g'.live n = true := by
  rw [live_iff] at h ⊢
  rw [h2]; exact ⟨Nat.lt_of_lt_of_le h.1 h1, h.2⟩

theorem RelsLive.step {g : Graph} (h : RelsLive g) (op : TxOp) (hwf : opWF g op = true) :
    RelsLive (g.step op) := by
  have same : ∀ g' : Graph, g'.rels = g.rels → g.next ≤ g'.next → g'.dead = g.dead → RelsLive g' := by
    intro g' h1 h2 h3 e he
    rw [h1] at he
    exact ⟨live_mono_next g _ (h e he).1 g' h2 h3, live_mono_next g _ (h e he).2 g' h2 h3⟩
  cases op with
  | node x lab =>
    show RelsLive (if (g.extLookup x).isSome then g else _)
    split
    · exact h
    · exact same _ rfl (Nat.le_succ _) rfl
  | labelAdd n l =>
    show RelsLive (if g.labels.contains (n, l) then g else _)
    split
    · exact h
    · exact same _ rfl (Nat.le_refl _) rfl
  | labelDel n l => exact same _ rfl (Nat.le_refl _) rfl
  | edge s t d =>
    simp only [opWF, Bool.and_eq_true] at hwf
    intro e he
    have he' : e ∈ (⟨s, t, d⟩ : Rel) :: g.rels := he
    rw [List.mem_cons] at he'
    rcases he' with rfl | he'
    · exact ⟨live_mono_next g _ hwf.1 _ (Nat.le_refl _) rfl, live_mono_next g _ hwf.2 _ (Nat.le_refl _) rfl⟩
    · exact ⟨live_mono_next g _ (h e he').1 _ (Nat.le_refl _) rfl, live_mono_next g _ (h e he').2 _ (Nat.le_refl _) rfl⟩
  | tombNode n =>
    intro e he
    have he' : e ∈ g.rels.filter (fun e => !e.touches n) := he
    obtain ⟨hm, ht⟩ := List.mem_filter.mp he'
    have hnt : ¬ (e.src = n ∨ e.dst = n) := by
      intro hh; have := (touches_iff e n).mpr hh; simp [this] at ht
    simp only [not_or] at hnt
    obtain ⟨h1, h2⟩ := h e hm
    rw [live_iff] at h1 h2
    constructor
    · rw [live_iff]; refine ⟨h1.1, ?_⟩
      show e.src ∉ n :: g.dead
      simp only [List.mem_cons, not_or]; exact ⟨hnt.1, h1.2⟩
    · rw [live_iff]; refine ⟨h2.1, ?_⟩
      show e.dst ∉ n :: g.dead
      simp only [List.mem_cons, not_or]; exact ⟨hnt.2, h2.2⟩
  | tombEdge s t d =>
    intro e he
    have he' : e ∈ g.rels.filter (· != (⟨s, t, d⟩ : Rel)) := he
    have := h e (List.mem_filter.mp he').1
    exact ⟨live_mono_next g _ this.1 _ (Nat.le_refl _) rfl, live_mono_next g _ this.2 _ (Nat.le_refl _) rfl⟩
  | nprop n k v => exact same _ rfl (Nat.le_refl _) rfl
  | npropDel n k => exact same _ rfl (Nat.le_refl _) rfl
  | eprop s t d k v => exact same _ rfl (Nat.le_refl _) rfl
  | epropDel s t d k => exact same _ rfl (Nat.le_refl _) rfl
  | vec n v => exact same _ rfl (Nat.le_refl _) rfl

theorem RelsLive.apply (ops : List TxOp) : ∀ g, RelsLive g → txWF g ops = true → RelsLive (g.apply ops) := by
  induction ops with
  | nil => intro g h _; exact h
  | cons op ops ih =>
    intro g h hwf
    simp only [txWF, Bool.and_eq_true] at hwf
    exact ih (g.step op) (h.step op hwf.1) hwf.2

theorem RelsLive.hist (h : List Op) : ∀ g, RelsLive g → wfFrom g h = true → RelsLive (h.foldl Graph.opStep g) := by
  induction h with
  | nil => intro g hg _; exact hg
  | cons op h ih =>
    intro g hg hwf
    cases op with
    | tx ops commit =>
      simp only [wfFrom, Bool.and_eq_true] at hwf
      cases commit with
      | true => exact ih _ (RelsLive.apply ops g hg hwf.1) hwf.2
      | false => exact ih _ hg hwf.2
    | compact => exact ih _ hg hwf
    | close => exact ih _ hg hwf
    | reopen => exact ih _ hg hwf

/-- the Spec graph of a well-formed history has no dangling relationship -/
theorem spec_no_dangling (h : List Op) (hwf : GraphSpec.wellFormed h = true) : RelsLive (GraphSpec.run h) :=
  RelsLive.hist h {} (fun e he => absurd he List.not_mem_nil) hwf

theorem mem_nodes_iff_live (g : Graph) (n : Nat) : n ∈ g.nodes ↔ g.live n = true := by
  unfold Graph.nodes
  rw [List.mem_filter, List.mem_range, live_iff]
  simp

/-- reads that agree with a dangling-free Spec graph return no dangling relationship -/
theorem reads_no_dangling (c : Cfg) {s : Engine} {g : Graph} (hr : ReadsAgree c s g) (hl : RelsLive g)
    (n : Nat) (hn : n ∈ s.nodes) :
    (∃ es, s.neighbors n none = some es ∧ ∀ e ∈ es, e.src ∈ s.nodes ∧ e.dst ∈ s.nodes) ∧
    (∃ es, s.incoming c n none = some es ∧ ∀ e ∈ es, e.src ∈ s.nodes ∧ e.dst ∈ s.nodes) := by
  have hlive : g.live n = true := by rw [← mem_nodes_iff_live, ← hr.nodes]; exact hn
  constructor
  · obtain ⟨es, h1, h2, h3⟩ := hr.out n none none hlive (Or.inl ⟨rfl, rfl⟩)
    refine ⟨es, h1, ?_⟩
    intro e he
    obtain ⟨nm, hnm⟩ := h2 e he
    have hc := h3 e.rel nm e.src e.dst hnm
    have hpos : 0 < es.count (⟨e.src, e.rel, e.dst⟩ : Edge) := List.count_pos_iff.mpr he
    rw [hc] at hpos
    have hm := List.count_pos_iff.mp hpos
    have hm' := (List.mem_filter.mp hm).1
    have := hl _ hm'
    rw [hr.nodes, mem_nodes_iff_live, mem_nodes_iff_live]
    exact this
  · obtain ⟨es, h1, h2, h3⟩ := hr.inc n none none hlive (Or.inl ⟨rfl, rfl⟩)
    refine ⟨es, h1, ?_⟩
    intro e he
    obtain ⟨nm, hnm⟩ := h2 e he
    have hc := h3 e.rel nm e.src e.dst hnm
    have hpos : 0 < es.count (⟨e.src, e.rel, e.dst⟩ : Edge) := List.count_pos_iff.mpr he
    rw [hc] at hpos
    have hm := List.count_pos_iff.mp hpos
    have hm' := (List.mem_filter.mp hm).1
    have := hl _ hm'
    rw [hr.nodes, mem_nodes_iff_live, mem_nodes_iff_live]
    exact this

/-! ### the query-level DELETE check -/

/-- a non-DETACH delete of a node that has, in the snapshot, a relationship which the statement does
    not delete explicitly fails -/
theorem delete_with_snapshot_rels_fails (c : Cfg) (snap : Engine) (t : Txn) (nodes : List Nat)
    (explicit : List Edge) (ls : List (List Edge)) (hl : nodes.mapM (attached c snap) = some ls)
    (e : Edge) (he : e ∈ ls.flatten) (hne : e ∉ explicit) :
    (match execDelete c snap t false nodes explicit with | .hasRels => true | _ => false) = true := by
  unfold execDelete deleteSafe
  simp only [Bool.false_eq_true, if_false, hl, Option.map_some]
  have : ls.flatten.all explicit.contains = false := by
    rw [List.all_eq_false]
    exact ⟨e, he, by simpa using hne⟩
  rw [this]

/-- a successful non-DETACH delete only deletes nodes whose snapshot relationships are all deleted
    explicitly by the same statement -/
theorem delete_ok_covers_snapshot (c : Cfg) (snap : Engine) (t t' : Txn) (k : Nat) (nodes : List Nat)
    (explicit : List Edge) (h : execDelete c snap t false nodes explicit = .ok t' k) :
    ∃ ls, nodes.mapM (attached c snap) = some ls ∧ ∀ e ∈ ls.flatten, e ∈ explicit := by
  unfold execDelete deleteSafe at h
  simp only [Bool.false_eq_true, if_false] at h
  cases hl : nodes.mapM (attached c snap) with
  | none => rw [hl] at h; simp at h
  | some ls =>
    rw [hl] at h
    simp only [Option.map_some] at h
    refine ⟨ls, rfl, ?_⟩
    cases ha : ls.flatten.all explicit.contains with
    | false => rw [ha] at h; simp at h
    | true =>
      intro e he
      have := List.all_eq_true.mp ha e he
      simpa using this

end Nervus.Storage
