/-
  Proofs/EngineStaged.lean — per-operation simulation lemmas of the C06 refinement, part 1:
  the relation between an open write transaction (memtable, pending lists) and the Spec graph
  staged so far, and its preservation by every staged write.
-/
import Nervus.Proofs.EngineSimBase
namespace Nervus.Storage
open Nervus.GraphSpec (Graph TxOp Op Rel)

/-- how the engine may differ from the engine at `begin_write` while the transaction is open:
    only by interned names (plus log, txid counter, vectors) -/
structure Ext (s0 s : Engine) : Prop where
  runs : s.runs = s0.runs
  idmap : s.idmap = s0.idmap
  segs : s.segs = s0.segs
  root : s.propsRoot = s0.propsRoot
  pre : s0.interner <+: s.interner
  nodup : s.interner.Nodup

/-- graph-structure and property columns of the staged relation -/
structure Staged (s0 : Engine) (g0 : Graph) (s : Engine) (t : Txn) (g : Graph) : Prop where
  ext : Ext s0 s
  dead : ∀ n, n ∈ g.dead ↔ (n ∈ g0.dead ∨ n ∈ t.mt.tombNodes)
  edges : ∀ r nm a b, s.interner[r]? = some nm →
    g.mult ⟨a, nm, b⟩ = t.mt.edges.count ⟨a, r, b⟩ +
      (if (⟨a, r, b⟩ ∈ t.mt.tombEdges ∨ a ∈ t.mt.tombNodes ∨ b ∈ t.mt.tombNodes)
       then 0 else g0.mult ⟨a, nm, b⟩)
  mtOK : ∀ e ∈ t.mt.edges, e.src ∉ g.dead ∧ e.dst ∉ g.dead ∧ e.rel < s.interner.length
  relsInt : ∀ e ∈ g.rels, e.typ ∈ s.interner
  rels0 : ∀ e ∈ g0.rels, e.typ ∈ s0.interner
  nprops : ∀ n k, n ∉ g.dead →
    g.nprop n k = (match t.mt.nprops.lookup (n, k) with
      | some v => some v
      | none => if (n, k) ∈ t.mt.nDel then none else g0.nprop n k)
  mtN : ∀ key, key ∈ t.mt.nDel → t.mt.nprops.lookup key = none
  eprops : ∀ r nm a b k, s.interner[r]? = some nm → a ∉ g.dead → b ∉ g.dead →
    g.eprop ⟨a, nm, b⟩ k = (match t.mt.eprops.lookup (⟨a, r, b⟩, k) with
      | some v => some v
      | none => if ((⟨a, r, b⟩ : Edge), k) ∈ t.mt.eDel then none else g0.eprop ⟨a, nm, b⟩ k)
  mtE : ∀ key, key ∈ t.mt.eDel → t.mt.eprops.lookup key = none
  mtERel : ∀ p ∈ t.mt.eprops, p.1.1.rel < s.interner.length
  epropsInt : ∀ p ∈ g.eprops, p.1.1.typ ∈ s.interner
  eprops0 : ∀ p ∈ g0.eprops, p.1.1.typ ∈ s0.interner

theorem mult_zero_of_typ_not_mem (g : Graph) (t : Interner) (h : ∀ e ∈ g.rels, e.typ ∈ t)
    (nm : Nat) (hn : nm ∉ t) (a b : Nat) : g.mult ⟨a, nm, b⟩ = 0 := by
  unfold Graph.mult
  apply List.count_eq_zero.mpr
  intro hm; exact hn (h _ hm)

theorem eprop_none_of_typ_not_mem (g : Graph) (t : Interner) (h : ∀ p ∈ g.eprops, p.1.1.typ ∈ t)
    (nm : Nat) (hn : nm ∉ t) (a b k : Nat) : g.eprop ⟨a, nm, b⟩ k = none := by
  unfold Graph.eprop
  cases hl : g.eprops.lookup (⟨a, nm, b⟩, k) with
  | none => rfl
  | some v =>
    have := h _ (mem_of_lookup_eq_some _ _ _ hl)
    exact absurd this hn

theorem lookup_none_of_rel_ge {ν} (m : List ((Edge × Nat) × ν)) (n : Nat)
    (h : ∀ p ∈ m, p.1.1.rel < n) (e : Edge) (k : Nat) (he : n ≤ e.rel) : m.lookup (e, k) = none := by
  induction m with
  | nil => rfl
  | cons p ps ih =>
    obtain ⟨⟨e', k'⟩, v⟩ := p
    have h1 := h _ List.mem_cons_self
    simp only at h1
    have hne : ((e, k) == (e', k')) = false := by
      simp only [beq_eq_false_iff_ne, ne_eq, Prod.mk.injEq, not_and]
      intro hh; subst hh; omega
    simp only [List.lookup, hne]
    exact ih (fun p hp => h p (List.mem_cons_of_mem _ hp))

/-- interning a name preserves the staged relation -/
theorem Staged.intern {s0 g0 s t g} (hst : Staged s0 g0 s t g) (nm : Nat) :
    Staged s0 g0 (s.getOrCreateLabel nm).1 t g := by
  have hsp := getOrCreateLabel_spec s nm hst.ext.nodup
  simp only at hsp
  obtain ⟨_, hpre, hnd, hmem, hruns, hid, hsegs, hroot, _, _⟩ := hsp
  -- an entry of the extended interner is an old entry, or the new name at the old length
  have key : ∀ r x, (s.getOrCreateLabel nm).1.interner[r]? = some x →
      s.interner[r]? = some x ∨ (x ∉ s.interner ∧ s.interner.length ≤ r) := by
    intro r x hx
    by_cases hr : r < s.interner.length
    · left
      obtain ⟨y, hy⟩ := hpre
      rw [← hy, List.getElem?_append_left hr] at hx; exact hx
    · right
      refine ⟨?_, Nat.le_of_not_lt hr⟩
      intro hxs
      obtain ⟨i, hi, hget⟩ := List.mem_iff_getElem.mp hxs
      have h1 : (s.getOrCreateLabel nm).1.interner[i]? = some x := by
        apply prefix_getElem? hpre; rw [List.getElem?_eq_getElem hi, hget]
      have := name_inj _ hnd _ _ _ hx h1
      omega
  have hlen : s.interner.length ≤ (s.getOrCreateLabel nm).1.interner.length := hpre.length_le
  have hsub : ∀ x ∈ s.interner, x ∈ (s.getOrCreateLabel nm).1.interner := fun x hx => hpre.subset hx
  have hsub0 : ∀ x, x ∉ s.interner → x ∉ s0.interner := fun x hx h0 => hx (hst.ext.pre.subset h0)
  refine { ext := ⟨by rw [hruns, hst.ext.runs], by rw [hid, hst.ext.idmap], by rw [hsegs, hst.ext.segs],
                   by rw [hroot, hst.ext.root], hst.ext.pre.trans hpre, hnd⟩,
           dead := hst.dead, edges := ?_, mtOK := ?_, relsInt := fun e he => hsub _ (hst.relsInt e he),
           rels0 := hst.rels0, nprops := hst.nprops, mtN := hst.mtN, eprops := ?_, mtE := hst.mtE,
           mtERel := fun p hp => Nat.lt_of_lt_of_le (hst.mtERel p hp) hlen,
           epropsInt := fun p hp => hsub _ (hst.epropsInt p hp), eprops0 := hst.eprops0 }
  · intro r x a b hx
    rcases key r x hx with hold | ⟨hnew, hge⟩
    · exact hst.edges r x a b hold
    · rw [mult_zero_of_typ_not_mem g _ hst.relsInt x hnew, mult_zero_of_typ_not_mem g0 _ hst.rels0 x (hsub0 x hnew)]
      have : t.mt.edges.count ⟨a, r, b⟩ = 0 := by
        apply List.count_eq_zero.mpr
        intro hm; have := (hst.mtOK _ hm).2.2; simp only at this; omega
      rw [this]; simp
  · intro e he
    obtain ⟨h1, h2, h3⟩ := hst.mtOK e he
    exact ⟨h1, h2, Nat.lt_of_lt_of_le h3 hlen⟩
  · intro r x a b k hx ha hb
    rcases key r x hx with hold | ⟨hnew, hge⟩
    · exact hst.eprops r x a b k hold ha hb
    · rw [eprop_none_of_typ_not_mem g _ hst.epropsInt x hnew, eprop_none_of_typ_not_mem g0 _ hst.eprops0 x (hsub0 x hnew)]
      rw [lookup_none_of_rel_ge _ _ hst.mtERel ⟨a, r, b⟩ k hge]
      simp


theorem mem_of_getElem?_eq_some {t : Interner} {r nm : Nat} (h : t[r]? = some nm) : nm ∈ t :=
  List.mem_of_getElem? h

theorem lt_of_getElem?_eq_some {t : Interner} {r nm : Nat} (h : t[r]? = some nm) : r < t.length := by
  rcases List.getElem?_eq_some_iff.mp h with ⟨hl, _⟩; exact hl

/-- ids and names determine each other -/
theorem edge_eq_iff {t : Interner} (hn : t.Nodup) {r r' nm nm' : Nat} (h : t[r]? = some nm) (h' : t[r']? = some nm')
    (a b a' b' : Nat) : ((⟨a', nm', b'⟩ : Rel) = ⟨a, nm, b⟩) ↔ ((⟨a', r', b'⟩ : Edge) = ⟨a, r, b⟩) := by
  constructor
  · intro he
    injection he with h1 h2 h3
    subst h1 h2 h3
    rw [name_inj t hn _ _ _ h h']
  · intro he
    injection he with h1 h2 h3
    subst h1 h2 h3
    rw [h] at h'; injection h' with h'; rw [h']

/-- `create_edge` against `edge` -/
theorem Staged.edge {s0 g0 s t g} (hst : Staged s0 g0 s t g) {r nm a b : Nat}
    (hr : s.interner[r]? = some nm) (ha : a ∉ g.dead) (hb : b ∉ g.dead) :
    Staged s0 g0 s (t.createEdge ⟨a, r, b⟩) (g.step (.edge a nm b)) := by
  refine { ext := hst.ext, dead := hst.dead, edges := ?_, mtOK := ?_, relsInt := ?_, rels0 := hst.rels0,
           nprops := hst.nprops, mtN := hst.mtN, eprops := hst.eprops, mtE := hst.mtE, mtERel := hst.mtERel,
           epropsInt := hst.epropsInt, eprops0 := hst.eprops0 }
  · intro r' nm' a' b' h'
    have hold := hst.edges r' nm' a' b' h'
    have hiff := edge_eq_iff hst.ext.nodup hr h' a b a' b'
    show ((⟨a, nm, b⟩ : Rel) :: g.rels).count (⟨a', nm', b'⟩ : Rel) = (t.mt.edges ++ [(⟨a, r, b⟩ : Edge)]).count (⟨a', r', b'⟩ : Edge) +
      (if ((⟨a', r', b'⟩ : Edge) ∈ t.mt.tombEdges ∨ a' ∈ t.mt.tombNodes ∨ b' ∈ t.mt.tombNodes) then 0 else g0.mult ⟨a', nm', b'⟩)
    rw [count_append_singleton, List.count_cons]
    have hold' : g.rels.count (⟨a', nm', b'⟩ : Rel) = _ := hold
    rw [hold']
    by_cases he : (⟨a', r', b'⟩ : Edge) = ⟨a, r, b⟩
    · have he' := hiff.mpr he
      have : ((⟨a, nm, b⟩ : Rel) == ⟨a', nm', b'⟩) = true := by simp [he']
      rw [this, if_pos he, if_pos rfl]; omega
    · have he' : ¬ ((⟨a', nm', b'⟩ : Rel) = ⟨a, nm, b⟩) := fun h => he (hiff.mp h)
      have : ((⟨a, nm, b⟩ : Rel) == ⟨a', nm', b'⟩) = false := by
        simp only [beq_eq_false_iff_ne, ne_eq]; exact fun h => he' h.symm
      rw [this, if_neg he]; simp only [Bool.false_eq_true, if_false]; omega
  · intro e he
    have he' : e ∈ t.mt.edges ++ [⟨a, r, b⟩] := he
    rw [List.mem_append, List.mem_singleton] at he'
    rcases he' with h | h
    · exact hst.mtOK e h
    · subst h; exact ⟨ha, hb, lt_of_getElem?_eq_some hr⟩
  · intro e he
    have he' : e ∈ (⟨a, nm, b⟩ : Rel) :: g.rels := he
    rw [List.mem_cons] at he'
    rcases he' with h | h
    · subst h; exact mem_of_getElem?_eq_some hr
    · exact hst.relsInt e h

end Nervus.Storage
