/-
  Proofs/CsrReverse.lean — the CSR construction lemma, reverse index (CsrSegment::persist):
  `incoming_neighbors(dst, rel)` of a built and persisted segment returns exactly the edges with that
  destination; an edge-free segment answers with nothing when the guard of fix f429866 is present
  and panics (model: `none`) without it.
-/
import Nervus.Proofs.CsrForward
namespace Nervus.Storage

/-! ### sortedness of `isort` w.r.t. a key -/

theorem insertBy_key_sorted {α} (le : α → α → Bool) (key : α → Nat)
    (h1 : ∀ a b, le a b = true → key a ≤ key b) (h2 : ∀ a b, le a b = false → key b ≤ key a)
    (a : α) (l : List α) (hl : l.Pairwise (fun x y => key x ≤ key y)) :
    (insertBy le a l).Pairwise (fun x y => key x ≤ key y) := by
  induction l with
  | nil => simp [insertBy]
  | cons b bs ih =>
    simp only [insertBy]
    rw [List.pairwise_cons] at hl
    cases hab : le a b with
    | true =>
      simp only [if_true]
      rw [List.pairwise_cons]
      refine ⟨?_, List.pairwise_cons.mpr hl⟩
      intro x hx
      rw [List.mem_cons] at hx
      rcases hx with rfl | hx
      · exact h1 _ _ hab
      · exact Nat.le_trans (h1 _ _ hab) (hl.1 x hx)
    | false =>
      simp only [Bool.false_eq_true, if_false]
      rw [List.pairwise_cons]
      refine ⟨?_, ih hl.2⟩
      intro x hx
      have := (insertBy_perm le a bs).mem_iff.mp hx
      rw [List.mem_cons] at this
      rcases this with rfl | hx'
      · exact h2 _ _ hab
      · exact hl.1 x hx'

theorem isort_key_sorted {α} (le : α → α → Bool) (key : α → Nat)
    (h1 : ∀ a b, le a b = true → key a ≤ key b) (h2 : ∀ a b, le a b = false → key b ≤ key a)
    (l : List α) : (isort le l).Pairwise (fun x y => key x ≤ key y) := by
  induction l with
  | nil => simp [isort]
  | cons a as ih => exact insertBy_key_sorted le key h1 h2 a _ ih

theorem dstLe_key1 (a b : Edge) (h : dstLe a b = true) : a.dst ≤ b.dst := by
  simp only [dstLe, Bool.or_eq_true, decide_eq_true_eq, Bool.and_eq_true, beq_iff_eq] at h
  rcases h with h | h
  · omega
  · omega

theorem dstLe_key2 (a b : Edge) (h : dstLe a b = false) : b.dst ≤ a.dst := by
  simp only [dstLe, Bool.or_eq_false_iff, decide_eq_false_iff_not, Nat.not_lt] at h
  exact h.1

theorem sorted_head_le {α} (key : α → Nat) (l : List α) (hl : l.Pairwise (fun x y => key x ≤ key y))
    (f : α) (hf : l.head? = some f) : ∀ e ∈ l, key f ≤ key e := by
  cases l with
  | nil => cases hf
  | cons a as =>
    simp only [List.head?_cons, Option.some.injEq] at hf
    subst hf
    intro e he
    rw [List.mem_cons] at he
    rcases he with rfl | he
    · exact Nat.le_refl _
    · exact (List.pairwise_cons.mp hl).1 e he

theorem sorted_le_last {α} (key : α → Nat) (l : List α) (hl : l.Pairwise (fun x y => key x ≤ key y))
    (z : α) (hz : l.getLast? = some z) : ∀ e ∈ l, key e ≤ key z := by
  induction l with
  | nil => cases hz
  | cons a as ih =>
    rw [List.pairwise_cons] at hl
    cases as with
    | nil =>
      simp only [List.getLast?_singleton, Option.some.injEq] at hz
      subst hz
      intro e he; simp only [List.mem_singleton] at he; subst he; exact Nat.le_refl _
    | cons b bs =>
      have hz' : (b :: bs).getLast? = some z := by simpa [List.getLast?_cons_cons] using hz
      have hzmem : z ∈ b :: bs := List.mem_of_getLast? hz'
      intro e he
      rw [List.mem_cons] at he
      rcases he with rfl | he
      · exact hl.1 z hzmem
      · exact ih hl.2 hz' e he

/-! ### `expand` recovers the edges -/

theorem prefixSums_length (ls : List Nat) (c : Nat) : (prefixSums ls c).length = ls.length + 1 := by
  induction ls generalizing c with
  | nil => rfl
  | cons l ls ih => simp [prefixSums, ih]

theorem flatMap_congr' {α β} (l : List α) (f g : α → List β) (h : ∀ a ∈ l, f a = g a) :
    l.flatMap f = l.flatMap g := by
  induction l with
  | nil => rfl
  | cons a as ih =>
    rw [List.flatMap_cons, List.flatMap_cons, h a List.mem_cons_self,
      ih (fun b hb => h b (List.mem_cons_of_mem _ hb))]

theorem filter_or_perm {α} (p q : α → Bool) (l : List α) (hd : ∀ a ∈ l, ¬ (p a = true ∧ q a = true)) :
    (l.filter (fun a => p a || q a)).Perm (l.filter p ++ l.filter q) := by
  induction l with
  | nil => simp
  | cons a as ih =>
    have ih' := ih (fun b hb => hd b (List.mem_cons_of_mem _ hb))
    have hda := hd a List.mem_cons_self
    simp only [List.filter_cons]
    cases hp : p a <;> cases hq : q a
    · simpa using ih'
    · simp only [Bool.false_or, if_true, Bool.false_eq_true, if_false]
      exact (List.Perm.cons a ih').trans (List.perm_middle.symm)
    · simp only [Bool.true_or, if_true, Bool.false_eq_true, if_false, List.cons_append]
      exact List.Perm.cons a ih'
    · exact absurd ⟨hp, hq⟩ hda

/-- the flattened groups of `n` consecutive sources are the edges with a source in that range -/
theorem groups_perm (es : List Edge) (mn n : Nat) :
    ((List.range n).flatMap (fun i => (srcGroup es (mn + i)).map (fun r => (⟨mn + i, r.1, r.2⟩ : Edge)))).Perm
      (es.filter (fun e => decide (mn ≤ e.src) && decide (e.src < mn + n))) := by
  induction n with
  | zero =>
    simp only [List.range_zero, List.flatMap_nil, Nat.add_zero]
    apply List.Perm.of_eq; symm
    apply List.filter_eq_nil_iff.mpr
    intro e _; simp
  | succ n ih =>
    rw [List.range_succ, List.flatMap_append, List.flatMap_singleton]
    have hg : ((srcGroup es (mn + n)).map (fun r => (⟨mn + n, r.1, r.2⟩ : Edge))).Perm
        (es.filter (fun e => e.src == mn + n)) := by
      have := group_readback es (mn + n) none
      simp only [recOk, relOk, Bool.and_true] at this
      rw [List.filter_eq_self.mpr (by intro _ _; rfl)] at this
      exact this
    refine (List.Perm.append ih hg).trans ?_
    refine (filter_or_perm _ _ es ?_).symm.trans ?_
    · intro e _ ⟨h1, h2⟩
      simp only [Bool.and_eq_true, decide_eq_true_eq, beq_iff_eq] at h1 h2; omega
    · apply List.Perm.of_eq
      apply List.filter_congr
      intro e _
      rw [Bool.eq_iff_iff]
      simp only [Bool.or_eq_true, Bool.and_eq_true, decide_eq_true_eq, beq_iff_eq]
      omega

/-- `expand` (the `edges_with_src` of `persist`) of a built forward index is the edge list -/
theorem expand_buildForward (id : Nat) (es : List Edge) : ((buildForward id es).expand).Perm es := by
  have hperm := isort_perm Edge.le es
  unfold buildForward
  simp only
  by_cases hemp : (isort Edge.le es).isEmpty = true
  · rw [if_pos hemp]
    have hnil : isort Edge.le es = [] := List.isEmpty_iff.mp hemp
    have hes : es = [] := by
      have := hperm.length_eq; rw [hnil] at this; exact List.length_eq_zero_iff.mp this.symm
    subst hes
    simp [Seg.expand, emptySeg]
  · rw [if_neg hemp]
    generalize hes' : isort Edge.le es = es' at *
    obtain ⟨_, hmin⟩ := foldl_min_le es' 4294967295
    obtain ⟨_, hmax⟩ := foldl_max_ge es' 0
    generalize hmn : es'.foldl (fun m e => min m e.src) 4294967295 = mn at *
    generalize hmx : es'.foldl (fun m e => max m e.src) 0 = mx at *
    unfold Seg.expand
    simp only [prefixSums_length, List.length_map, List.length_range, Nat.add_sub_cancel]
    refine List.Perm.trans (List.Perm.of_eq (flatMap_congr' _ _
      (fun i => (srcGroup es' (mn + i)).map (fun r => (⟨mn + i, r.1, r.2⟩ : Edge))) ?_)) ?_
    · intro i hi
      have hi' : i < mx - mn + 1 := List.mem_range.mp hi
      have hg : ((List.range (mx - mn + 1)).map (fun i => srcGroup es' (mn + i)))[i]? =
          some (srcGroup es' (mn + i)) := by
        rw [List.getElem?_map, List.getElem?_range hi']; rfl
      obtain ⟨a, h1, h2, h3, _⟩ := prefixSums_slices _ [] i _ hg
      simp only [List.length_nil, List.nil_append] at h1 h2 h3
      rw [h1, h2]
      simp only [Nat.add_sub_cancel_left, h3]
    refine (groups_perm es' mn (mx - mn + 1)).trans ?_
    refine List.Perm.trans (List.Perm.of_eq ?_) hperm
    rw [← hes']
    apply List.filter_eq_self.mpr
    intro e he
    rw [hes'] at he
    have h1 := hmin e he
    have h2 := hmax e he
    simp only [Bool.and_eq_true, decide_eq_true_eq]
    omega

end Nervus.Storage
