/-
  C12: the multi-row induction (`rows_simulation`: a per-row simulation between a write stage of the model and an
  update clause of the reference lifts to the whole driving table, threading the accumulated WriteableGraph calls
  on one side and the current graph on the other), and its instances.
-/
import Nervus.Proofs.CypherUpdate
namespace Nervus.Cy
open Nervus.Cy

variable (A : Algebra) (params : List (String × Val))

/-! ### the loop of a stage, as a fold -/

theorem forIn_stage_eq_foldlM (fm : Update.St → Update.URow → Except Err (Update.St × Update.URow))
    (T : List Update.URow) (acc : Update.St × List Update.URow) :
    (forIn T acc fun u (a : Update.St × List Update.URow) => do
        let x ← fm a.1 u
        pure (ForInStep.yield (x.1, a.2 ++ [x.2]))) =
      T.foldlM (fun (a : Update.St × List Update.URow) u => do
        let x ← fm a.1 u
        pure (x.1, a.2 ++ [x.2])) acc := by
  induction T generalizing acc with
  | nil => rfl
  | cons u us ih =>
    simp only [List.forIn_cons, List.foldlM_cons, bind, Except.bind]
    cases fm acc.1 u with
    | error e => rfl
    | ok x => simp only [pure, Except.pure]; exact ih _

/-- **the multi-row induction** — if on every row of the table one step of the model stage and one step of the
    reference clause preserve the simulation relation `R` (model: calls issued so far + reported count; reference:
    current graph + counters), then the whole stage and the whole clause do, and both keep the rows. -/
theorem rows_simulation (fm : Update.St → Update.URow → Except Err (Update.St × Update.URow))
    (fs : Spec.St → Row → Except Err Spec.St) (R : Update.St → Spec.St → Prop) (T : List Update.URow)
    (hstep : ∀ u ∈ T, ∀ m sp, R m sp →
      ∃ m' u' sp', fm m u = .ok (m', u') ∧ fs sp u.row = .ok sp' ∧ R m' sp') :
    ∀ (m : Update.St) (sp : Spec.St) (out : List Update.URow) (outS : Table), R m sp →
      ∃ m' T' sp',
        T.foldlM (fun (a : Update.St × List Update.URow) u => do
          let x ← fm a.1 u
          pure (x.1, a.2 ++ [x.2])) (m, out) = .ok (m', T') ∧
        (T.map (·.row)).foldlM (fun (acc : Spec.St × Table) r => do
          let (s, rs) ← (do pure (← fs acc.1 r, [r]) : Except Err (Spec.St × Table))
          pure (s, acc.2 ++ rs)) (sp, outS) = .ok (sp', outS ++ T.map (·.row)) ∧
        R m' sp' ∧ T'.length = out.length + T.length := by
  induction T with
  | nil => intro m sp out outS hR; exact ⟨m, out, sp, rfl, by simp [pure, Except.pure], hR, by simp⟩
  | cons u us ih =>
    intro m sp out outS hR
    obtain ⟨m1, u1, sp1, h1, h2, hR1⟩ := hstep u (by simp) m sp hR
    obtain ⟨m', T', sp', h3, h4, hR', hlen⟩ :=
      ih (fun v hv => hstep v (List.mem_cons_of_mem _ hv)) m1 sp1 (out ++ [u1]) (outS ++ [u.row]) hR1
    refine ⟨m', T', sp', ?_, ?_, hR', by simp at hlen ⊢; omega⟩
    · simp only [List.foldlM_cons, h1, bind, Except.bind, pure, Except.pure]
      exact h3
    · simp only [List.map_cons, List.foldlM_cons, h2, bind, Except.bind, pure, Except.pure]
      simp only [bind, Except.bind, pure, Except.pure, List.append_assoc, List.singleton_append] at h4
      exact h4

/-! ### the simulation relation -/

/-- model state (calls issued, nodes created, reported count) against reference state (current graph, next id,
    counters): committing the calls to the snapshot gives the reference's current graph -/
structure USim (g : Graph) (next : Nat) (m : Update.St) (sp : Spec.St) : Prop where
  graph : sp.g = Update.applyOps g m.ops
  next : sp.next = next + m.created
  count : sp.c.total = m.count
  distinct : sp.g.nodes.Pairwise fun a b => a.id ≠ b.id

theorem USim.init (g : Graph) (hg : g.nodes.Pairwise fun a b => a.id ≠ b.id) (next : Nat) :
    USim g next {} { g, next } := ⟨rfl, rfl, rfl, hg⟩

theorem applyOps_snoc (g : Graph) (ops : List Update.TxOp) (op : Update.TxOp) :
    Update.applyOps g (ops ++ [op]) = Update.applyOp (Update.applyOps g ops) op := by
  simp [Update.applyOps, List.foldl_append]

theorem updNode_distinct (g : Graph) (n : Nat) (f : NodeRec → NodeRec) (hf : ∀ nd, (f nd).id = nd.id)
    (hg : g.nodes.Pairwise fun a b => a.id ≠ b.id) : (Spec.updNode g n f).nodes.Pairwise fun a b => a.id ≠ b.id := by
  simp only [Spec.updNode, List.pairwise_map]
  refine hg.imp ?_
  intro a b hab
  have ha : (if (a.id == n) = true then f a else a).id = a.id := by split <;> simp [hf]
  have hb : (if (b.id == n) = true then f b else b).id = b.id := by split <;> simp [hf]
  rw [ha, hb]; exact hab

/-! ### SET x.k = e on nodes, storable non-null values: every table -/

/-- one row, from any simulated state -/
theorem set_prop_row (g : Graph) (next : Nat) (m : Update.St) (sp : Spec.St) (hR : USim g next m sp)
    (r : Row) (x k : String) (e : Expr) (n : Nat) (pv : Scalar)
    (hx : r.get x = some (.node n)) (hv : Update.toProp (eval A { g, params } r e) = .ok pv) (hnn : pv ≠ .null) :
    ∃ m' u' sp', Update.setPropertyRow A params g [(x, k, e)] m ⟨r, []⟩ = .ok (m', u') ∧
      Spec.applySetItems A params g r sp [.prop x k e] = .ok sp' ∧ USim g next m' sp' ∧
      m'.ops = m.ops ++ [.setNodeProp n k pv] ∧ m'.count = m.count + 1 := by
  have hb : (pv == Scalar.null) = false := by simpa using hnn
  have hs : (eval A { g, params } r e).toScalar? = some pv ∧ (∀ q, pv ≠ .node q) ∧ (∀ q, pv ≠ .rel q) := by
    cases hev : eval A { g, params } r e <;> simp [hev, Update.toProp] at hv <;> subst hv <;>
      simp [Val.toScalar?]
  obtain ⟨h1, h2, h3⟩ := hs
  have hw : Spec.writeProp (Spec.propsOf sp.g (.node n)) k (eval A { g, params } r e) =
      .ok (Spec.setKey (Spec.propsOf sp.g (.node n)) k pv, 1) := by
    unfold Spec.writeProp
    rw [h1]
    cases pv with
    | null => exact absurd rfl hnn
    | node q => exact absurd rfl (h2 q)
    | rel q => exact absurd rfl (h3 q)
    | bool b => rfl
    | int i => rfl
    | str s => rfl
  have hmodel : ∃ u', Update.setPropertyRow A params g [(x, k, e)] m ⟨r, []⟩ =
      .ok ({ m with ops := m.ops ++ [.setNodeProp n k pv], count := m.count + 1 }, u') := by
    simp only [Update.setPropertyRow, List.forIn_cons, List.forIn_nil, ev_noOverlay, hv, bind, Except.bind, pure,
      Except.pure, Update.rowNode, hx, hb, Bool.false_eq_true, ↓reduceIte, Update.URow.ent, List.lookup]
    exact ⟨_, rfl⟩
  obtain ⟨u', hu'⟩ := hmodel
  refine ⟨{ m with ops := m.ops ++ [.setNodeProp n k pv], count := m.count + 1 }, u',
    { sp with g := Update.applyOp sp.g (.setNodeProp n k pv), c := { sp.c with propsSet := sp.c.propsSet + 1 } },
    hu', ?_, ?_, rfl, rfl⟩
  · simp only [Spec.applySetItems, List.foldlM_cons, List.foldlM_nil, Spec.setItem, hx, Spec.target?, Spec.evalIn,
      hw, bind, Except.bind, pure, Except.pure, set_prop_graph_eq sp.g hR.distinct n k pv]
  · refine ⟨?_, hR.next, ?_, ?_⟩
    · simp only [applyOps_snoc, hR.graph]
    · have := hR.count
      simp only [Counts.total] at this ⊢
      omega
    · exact updNode_distinct sp.g n _ (fun _ => rfl) hR.distinct

/-- **update_refines (SET x.k = e, all rows)** — for every driving table whose rows bind `x` to nodes and give `e`
    a storable non-null value: the model's SetProperty stage issues one `set_node_property` call per row, in row
    order, and reports the number of rows; committing the calls to the snapshot yields exactly the graph the
    reference SET clause yields, with the same total count.  (No "distinct targets" proviso: a non-null write is
    counted unconditionally on both sides.) -/
theorem update_refines_set_prop_rows (g : Graph) (hg : g.nodes.Pairwise fun a b => a.id ≠ b.id) (next : Nat)
    (names : List String) (w : Update.WPlan) (x k : String) (e : Expr) (T : Table)
    (hT : ∀ r ∈ T, ∃ n pv, r.get x = some (.node n) ∧ Update.toProp (eval A { g, params } r e) = .ok pv ∧
      pv ≠ .null) :
    ∃ m T' sp, Update.runStage A params g next names w {} (T.map fun r => { row := r }) (.setProperty [(x, k, e)]) =
        .ok (m, T') ∧
      Spec.applyClause A params { g, next } T (.set [.prop x k e]) = .ok (sp, T) ∧
      USim g next m sp := by
  have hmapRow : (T.map fun r => ({ row := r } : Update.URow)).map (·.row) = T := by
    simp [List.map_map, Function.comp_def]
  obtain ⟨m, T', sp, h1, h2, hR, _⟩ := rows_simulation
    (fun m u => Update.setPropertyRow A params g [(x, k, e)] m u)
    (fun sp r => Spec.applySetItems A params g r sp [.prop x k e])
    (fun m sp => USim g next m sp)
    (T.map fun r => { row := r })
    (by
      intro u hu m sp hR
      obtain ⟨r, hr, rfl⟩ := List.mem_map.mp hu
      obtain ⟨n, pv, hx, hv, hnn⟩ := hT r hr
      obtain ⟨m', u', sp', a1, a2, a3, _, _⟩ := set_prop_row A params g next m sp hR r x k e n pv hx hv hnn
      exact ⟨m', u', sp', a1, a2, a3⟩)
    {} { g, next } [] [] (USim.init g hg next)
  refine ⟨m, T', sp, ?_, ?_, hR⟩
  · simp only [Update.runStage]
    rw [forIn_stage_eq_foldlM (fun m u => Update.setPropertyRow A params g [(x, k, e)] m u), h1]
    rfl
  · rw [hmapRow] at h2
    simp only [Spec.applyClause, Spec.forRows]
    simpa using h2

/-! ### the induction with a view of the rows already processed -/

/-- as `rows_simulation`, with a relation that may mention the prefix of rows already processed (needed when the
    per-row step is only correct for a row whose target no earlier row touched) -/
theorem rows_simulation_prefix (fm : Update.St → Update.URow → Except Err (Update.St × Update.URow))
    (fs : Spec.St → Row → Except Err Spec.St) (R : List Update.URow → Update.St → Spec.St → Prop)
    (T : List Update.URow)
    (hstep : ∀ pre u post, T = pre ++ u :: post → ∀ m sp, R pre m sp →
      ∃ m' u' sp', fm m u = .ok (m', u') ∧ fs sp u.row = .ok sp' ∧ R (pre ++ [u]) m' sp') :
    ∀ (rest pre : List Update.URow), T = pre ++ rest →
      ∀ (m : Update.St) (sp : Spec.St) (out : List Update.URow) (outS : Table), R pre m sp →
      ∃ m' T' sp',
        rest.foldlM (fun (a : Update.St × List Update.URow) u => do
          let x ← fm a.1 u
          pure (x.1, a.2 ++ [x.2])) (m, out) = .ok (m', T') ∧
        (rest.map (·.row)).foldlM (fun (acc : Spec.St × Table) r => do
          let (s, rs) ← (do pure (← fs acc.1 r, [r]) : Except Err (Spec.St × Table))
          pure (s, acc.2 ++ rs)) (sp, outS) = .ok (sp', outS ++ rest.map (·.row)) ∧
        R T m' sp' := by
  intro rest
  induction rest with
  | nil =>
    intro pre hT m sp out outS hR
    simp only [List.append_nil] at hT
    subst hT
    exact ⟨m, out, sp, rfl, by simp [pure, Except.pure], hR⟩
  | cons u us ih =>
    intro pre hT m sp out outS hR
    obtain ⟨m1, u1, sp1, h1, h2, hR1⟩ := hstep pre u us hT m sp hR
    obtain ⟨m', T', sp', h3, h4, hR'⟩ :=
      ih (pre ++ [u]) (by simp [hT]) m1 sp1 (out ++ [u1]) (outS ++ [u.row]) hR1
    refine ⟨m', T', sp', ?_, ?_, hR'⟩
    · simp only [List.foldlM_cons, h1, bind, Except.bind, pure, Except.pure]
      exact h3
    · simp only [List.map_cons, List.foldlM_cons, h2, bind, Except.bind, pure, Except.pure]
      simp only [bind, Except.bind, pure, Except.pure, List.append_assoc, List.singleton_append] at h4
      exact h4

/-! ### SET x:L1:L2 on nodes -/

def addLabels (old ls : List String) : List String :=
  ls.foldl (fun acc l => if acc.contains l then acc else acc ++ [l]) old

theorem forIn_addLabels (n : Nat) (c : String → Nat) (ls : List String) (m : Update.St) :
    (forIn ls m fun l (s : Update.St) => (Except.ok (ForInStep.yield
        { s with ops := s.ops ++ [Update.TxOp.addLabel n l], count := s.count + c l }) : Except Err _)) =
      .ok { m with ops := m.ops ++ ls.map (Update.TxOp.addLabel n), count := m.count + (ls.map c).sum } := by
  induction ls generalizing m with
  | nil => simp [pure, Except.pure]
  | cons l rest ih =>
    simp only [List.forIn_cons, bind, Except.bind]
    rw [ih]
    simp [Nat.add_assoc]

theorem sum_ite_filter (have_ : List String) (ls : List String) :
    (ls.map fun l => if have_.contains l = true then 0 else 1).sum = (ls.filter (!have_.contains ·)).length := by
  induction ls with
  | nil => rfl
  | cons l rest ih =>
    simp only [List.map_cons, List.sum_cons, List.filter_cons, ih]
    cases have_.contains l <;> simp [Nat.add_comm]

theorem updNode_updNode (g : Graph) (n : Nat) (f f' : NodeRec → NodeRec) (hf : ∀ nd, (f nd).id = nd.id) :
    Spec.updNode (Spec.updNode g n f) n f' = Spec.updNode g n (f' ∘ f) := by
  simp only [Spec.updNode, List.map_map]
  congr 1
  apply List.map_congr_left
  intro nd _
  simp only [Function.comp]
  by_cases h : (nd.id == n) = true
  · simp [h, hf]
  · simp [h]

theorem updNode_id (g : Graph) (n : Nat) : Spec.updNode g n (fun nd => nd) = g := by
  simp [Spec.updNode]

theorem applyOps_addLabels (G : Graph) (n : Nat) (ls : List String) :
    Update.applyOps G (ls.map (Update.TxOp.addLabel n)) =
      Spec.updNode G n (fun nd => { nd with labels := addLabels nd.labels ls }) := by
  induction ls generalizing G with
  | nil => simp [Update.applyOps, addLabels, Spec.updNode]
  | cons l rest ih =>
    have : Update.applyOps G ((l :: rest).map (Update.TxOp.addLabel n)) =
        Update.applyOps (Update.applyOp G (.addLabel n l)) (rest.map (Update.TxOp.addLabel n)) := rfl
    rw [this, ih, Update.applyOp, updNode_updNode _ _ _ _ (fun nd => by split <;> rfl)]
    congr 1
    funext nd
    simp only [Function.comp, addLabels, List.foldl_cons]
    split <;> rfl

theorem addLabels_length (old ls : List String) (hnd : ls.Nodup) :
    (addLabels old ls).length = old.length + (ls.filter (!old.contains ·)).length := by
  induction ls generalizing old with
  | nil => simp [addLabels]
  | cons l rest ih =>
    rw [List.nodup_cons] at hnd
    simp only [addLabels, List.foldl_cons, List.filter_cons]
    by_cases hc : old.contains l = true
    · simp only [hc, ↓reduceIte, Bool.not_true, Bool.false_eq_true]
      exact ih old hnd.2
    · simp only [hc, Bool.false_eq_true, ↓reduceIte, Bool.not_false, List.length_cons]
      have h := ih (old ++ [l]) hnd.2
      simp only [addLabels] at h
      rw [h]
      have hf : rest.filter (fun x => !(old ++ [l]).contains x) = rest.filter (fun x => !old.contains x) := by
        apply List.filter_congr
        intro y hy
        have : y ≠ l := fun h => hnd.1 (h ▸ hy)
        simp [this]
      rw [hf]
      simp only [List.length_append, List.length_cons, List.length_nil]
      omega

theorem node?_updNode_ne (g : Graph) (n n' : Nat) (f : NodeRec → NodeRec) (hf : ∀ nd, (f nd).id = nd.id)
    (hne : n' ≠ n) : (Spec.updNode g n f).node? n' = g.node? n' := by
  simp only [Graph.node?, Spec.updNode]
  induction g.nodes with
  | nil => rfl
  | cons nd rest ih =>
    simp only [List.map_cons, List.find?_cons]
    by_cases h : (nd.id == n) = true
    · have hid : nd.id = n := by simpa using h
      have h1 : ((f nd).id == n') = false := by rw [hf]; simpa [hid] using hne.symm
      have h2 : (nd.id == n') = false := by simpa [hid] using hne.symm
      simp only [h, ↓reduceIte, h1, h2]
      exact ih
    · simp only [h, Bool.false_eq_true, ↓reduceIte]
      cases hq : nd.id == n'
      · exact ih
      · rfl

/-- one row of `SET x:ls` from any simulated state in which the reference's current labels of the target are
    still the snapshot's (what the model counts against) -/
theorem set_labels_row (g : Graph) (next : Nat) (m : Update.St) (sp : Spec.St) (hR : USim g next m sp)
    (r : Row) (x : String) (ls : List String) (n : Nat) (hx : r.get x = some (.node n)) (hnd : ls.Nodup)
    (hsame : Update.nodeLabels sp.g n = Update.nodeLabels g n) :
    ∃ m' u' sp', Update.setLabelsRow g [(x, ls)] m ⟨r, []⟩ = .ok (m', u') ∧
      Spec.applySetItems A params g r sp [.labels x ls] = .ok sp' ∧ USim g next m' sp' ∧
      (∀ n', n' ≠ n → Update.nodeLabels sp'.g n' = Update.nodeLabels sp.g n') ∧
      m'.ops = m.ops ++ ls.map (Update.TxOp.addLabel n) := by
  have hmodel : ∃ u', Update.setLabelsRow g [(x, ls)] m ⟨r, []⟩ =
      .ok ({ m with ops := m.ops ++ ls.map (Update.TxOp.addLabel n),
                    count := m.count +
                      (ls.map fun l => if (Update.nodeLabels g n).contains l = true then 0 else 1).sum }, u') := by
    simp only [Update.setLabelsRow, List.forIn_cons, List.forIn_nil, Update.rowNode, hx, List.lookup,
      bind, Except.bind, pure, Except.pure]
    rw [forIn_addLabels]
    exact ⟨_, rfl⟩
  obtain ⟨u', hu'⟩ := hmodel
  have hgraph : Spec.updNode sp.g n (fun nd => { nd with labels := addLabels (Update.nodeLabels sp.g n) ls }) =
      Update.applyOps sp.g (ls.map (Update.TxOp.addLabel n)) := by
    rw [applyOps_addLabels]
    apply updNode_congr
    intro nd hnd' hid
    subst hid
    have : sp.g.node? nd.id = some nd := find?_of_mem_distinct sp.g.nodes hR.distinct hnd'
    simp [Update.nodeLabels, this]
  have hspec : Spec.applySetItems A params g r sp [.labels x ls] = .ok
      { g := Update.applyOps sp.g (ls.map (Update.TxOp.addLabel n)), next := sp.next,
        c := { sp.c with labelsAdded := sp.c.labelsAdded +
          ((addLabels (Update.nodeLabels sp.g n) ls).length - (Update.nodeLabels sp.g n).length) } } := by
    simp only [Spec.applySetItems, List.foldlM_cons, List.foldlM_nil, Spec.setItem, hx, bind, Except.bind, pure,
      Except.pure]
    rw [← hgraph]
    rfl
  refine ⟨_, u', _, hu', hspec, ?_, ?_, rfl⟩
  · refine ⟨?_, hR.next, ?_, ?_⟩
    · simp only [hR.graph, Update.applyOps, List.foldl_append]
    · have := hR.count
      have hl := addLabels_length (Update.nodeLabels sp.g n) ls hnd
      have hsum := sum_ite_filter (Update.nodeLabels g n) ls
      simp only [Counts.total] at this ⊢
      rw [hsame] at hl ⊢
      omega
    · rw [← hgraph]; exact updNode_distinct sp.g n _ (fun _ => rfl) hR.distinct
  · intro n' hne
    show Update.nodeLabels (Update.applyOps sp.g (ls.map (Update.TxOp.addLabel n))) n' = _
    rw [← hgraph]
    have := node?_updNode_ne sp.g n n'
      (fun nd => { nd with labels := addLabels (Update.nodeLabels sp.g n) ls }) (fun _ => rfl) hne
    unfold Update.nodeLabels at this ⊢
    rw [this]

def targetsOf (x : String) (T : List Update.URow) : List Nat := T.filterMap fun u => Update.rowNode u.row x

/-- **update_refines (SET x:ls, all rows, every node targeted by at most one row)** — the model's SetLabels stage
    issues `add_label` for every label of every row and counts the labels the SNAPSHOT does not show; the reference
    counts the labels the CURRENT graph does not show.  When no two rows target the same node the two coincide:
    same committed graph, same count.  (The side condition is exactly what the known finding
    C12-writes-decided-against-snapshot drops.) -/
theorem update_refines_set_labels_rows (g : Graph) (hg : g.nodes.Pairwise fun a b => a.id ≠ b.id) (next : Nat)
    (names : List String) (w : Update.WPlan) (x : String) (ls : List String) (hls : ls.Nodup) (T : Table)
    (hT : ∀ r ∈ T, ∃ n, r.get x = some (.node n))
    (hdist : (targetsOf x (T.map fun r => { row := r })).Nodup) :
    ∃ m T' sp, Update.runStage A params g next names w {} (T.map fun r => { row := r }) (.setLabels [(x, ls)]) =
        .ok (m, T') ∧
      Spec.applyClause A params { g, next } T (.set [.labels x ls]) = .ok (sp, T) ∧
      USim g next m sp := by
  have hmapRow : (T.map fun r => ({ row := r } : Update.URow)).map (·.row) = T := by
    simp [List.map_map, Function.comp_def]
  obtain ⟨m, T', sp, h1, h2, hR⟩ := rows_simulation_prefix
    (fun m u => Update.setLabelsRow g [(x, ls)] m u)
    (fun sp r => Spec.applySetItems A params g r sp [.labels x ls])
    (fun pre m sp => USim g next m sp ∧
      ∀ n, n ∉ targetsOf x pre → Update.nodeLabels sp.g n = Update.nodeLabels g n)
    (T.map fun r => { row := r })
    (by
      intro pre u post hsplit m sp hR
      have hu : u ∈ T.map fun r => ({ row := r } : Update.URow) := by rw [hsplit]; simp
      obtain ⟨r, hr, rfl⟩ := List.mem_map.mp hu
      obtain ⟨n, hx⟩ := hT r hr
      have htn : Update.rowNode r x = some n := by simp [Update.rowNode, hx]
      have hnotin : n ∉ targetsOf x pre := by
        rw [hsplit] at hdist
        simp only [targetsOf, List.filterMap_append, List.filterMap_cons, htn] at hdist
        have := (List.nodup_append.mp hdist).2.2
        intro hmem
        exact this n hmem n (by simp) rfl
      obtain ⟨m', u', sp', a1, a2, a3, a4, _⟩ :=
        set_labels_row A params g next m sp hR.1 r x ls n hx hls (hR.2 n hnotin)
      refine ⟨m', u', sp', a1, a2, a3, ?_⟩
      intro n' hn'
      have hne : n' ≠ n := by
        intro h; subst h
        exact hn' (by simp [targetsOf, List.filterMap_append, htn])
      have hpre : n' ∉ targetsOf x pre := by
        intro h; exact hn' (by simp only [targetsOf, List.filterMap_append, List.mem_append]; exact Or.inl h)
      rw [a4 n' hne, hR.2 n' hpre])
    (T.map fun r => { row := r }) [] (by simp) {} { g, next } [] []
    ⟨USim.init g hg next, fun _ _ => rfl⟩
  refine ⟨m, T', sp, ?_, ?_, hR.1⟩
  · simp only [Update.runStage]
    rw [forIn_stage_eq_foldlM (fun m u => Update.setLabelsRow g [(x, ls)] m u), h1]
    rfl
  · rw [hmapRow] at h2
    simp only [Spec.applyClause, Spec.forRows]
    simpa using h2

/-! ### CREATE (x:Ls) — a single fresh node per row -/

/-- the induction for clauses that change the rows (CREATE binds its variables): the reference side is any
    `forRows` body -/
theorem rows_simulation_out (fm : Update.St → Update.URow → Except Err (Update.St × Update.URow))
    (fs : Spec.St → Row → Except Err (Spec.St × Table)) (R : Update.St → Spec.St → Prop) (T : List Update.URow)
    (hstep : ∀ u ∈ T, ∀ m sp, R m sp →
      ∃ m' u' sp' rs, fm m u = .ok (m', u') ∧ fs sp u.row = .ok (sp', rs) ∧ R m' sp') :
    ∀ (m : Update.St) (sp : Spec.St) (out : List Update.URow) (outS : Table), R m sp →
      ∃ m' T' sp' outS',
        T.foldlM (fun (a : Update.St × List Update.URow) u => do
          let x ← fm a.1 u
          pure (x.1, a.2 ++ [x.2])) (m, out) = .ok (m', T') ∧
        (T.map (·.row)).foldlM (fun (acc : Spec.St × Table) r => do
          let (s, rs) ← fs acc.1 r
          pure (s, acc.2 ++ rs)) (sp, outS) = .ok (sp', outS') ∧
        R m' sp' := by
  induction T with
  | nil => intro m sp out outS hR; exact ⟨m, out, sp, outS, rfl, rfl, hR⟩
  | cons u us ih =>
    intro m sp out outS hR
    obtain ⟨m1, u1, sp1, rs, h1, h2, hR1⟩ := hstep u (by simp) m sp hR
    obtain ⟨m', T', sp', outS', h3, h4, hR'⟩ :=
      ih (fun v hv => hstep v (List.mem_cons_of_mem _ hv)) m1 sp1 (out ++ [u1]) (outS ++ rs) hR1
    refine ⟨m', T', sp', outS', ?_, ?_, hR'⟩
    · simp only [List.foldlM_cons, h1, bind, Except.bind, pure, Except.pure]
      exact h3
    · simp only [List.map_cons, List.foldlM_cons, h2, bind, Except.bind, pure, Except.pure]
      exact h4

theorem foldl_max_eq (l : List NodeRec) (nxt : Nat) (h : ∀ nd ∈ l, nd.id < nxt) :
    l.foldl (fun m n => max m (n.id + 1)) nxt = nxt := by
  induction l with
  | nil => rfl
  | cons nd rest ih =>
    simp only [List.foldl_cons]
    have h1 : nd.id < nxt := h nd (by simp)
    have : max nxt (nd.id + 1) = nxt := by omega
    rw [this]
    exact ih (fun x hx => h x (List.mem_cons_of_mem _ hx))

theorem freshId_eq (G : Graph) (nxt : Nat) (h : ∀ nd ∈ G.nodes, nd.id < nxt) : Spec.freshId G nxt = nxt :=
  foldl_max_eq G.nodes nxt h

/-- one row of `CREATE (x:ls)` (or an anonymous node) on a row that does not bind `x` -/
theorem create_node_row (g : Graph) (next : Nat) (m : Update.St) (sp : Spec.St) (hR : USim g next m sp)
    (hfresh : ∀ nd ∈ sp.g.nodes, nd.id < sp.next)
    (r : Row) (var : Option String) (ls : List String) (hx : ∀ x, var = some x → r.get x = none) :
    ∃ m' u' sp' r', Update.createRow A params g next ⟨⟨var, ls, []⟩, []⟩ m ⟨r, []⟩ = .ok (m', u') ∧
      Spec.createPath A params g sp r ⟨⟨var, ls, []⟩, []⟩ = .ok (sp', r') ∧ USim g next m' sp' ∧
      (∀ nd ∈ sp'.g.nodes, nd.id < sp'.next) ∧
      m'.ops = m.ops ++ [.createNode (next + m.created) ls] := by
  have hid : Spec.freshId sp.g sp.next = next + m.created := by rw [freshId_eq sp.g sp.next hfresh, hR.next]
  have hsim : USim g next
      { m with ops := m.ops ++ [.createNode (next + m.created) ls], created := m.created + 1, count := m.count + 1 }
      { sp with g := { sp.g with nodes := sp.g.nodes ++ [⟨next + m.created, ls.eraseDups, []⟩] },
                next := next + m.created + 1,
                c := { sp.c with nodesCreated := sp.c.nodesCreated + 1 } } := by
    refine ⟨?_, by simp [Nat.add_assoc], ?_, ?_⟩
    · simp only [applyOps_snoc, ← hR.graph, Update.applyOp]
    · have := hR.count
      simp only [Counts.total] at this ⊢
      omega
    · simp only [List.pairwise_append, hR.distinct, List.pairwise_cons, List.Pairwise.nil, true_and,
        List.mem_singleton, forall_eq]
      refine ⟨by simp, ?_⟩
      intro a ha
      have := hfresh a ha
      rw [hR.next] at this
      omega
  have hfresh' : ∀ nd ∈ sp.g.nodes ++ [(⟨next + m.created, ls.eraseDups, []⟩ : NodeRec)], nd.id < next + m.created + 1 := by
    intro nd hnd
    rcases List.mem_append.mp hnd with h | h
    · have := hfresh nd h; rw [hR.next] at this; omega
    · simp only [List.mem_singleton] at h; subst h; simp
  cases var with
  | none =>
    refine ⟨_, ⟨r, []⟩, _, r, ?_, ?_, hsim, hfresh', rfl⟩
    · simp only [Update.createRow, List.map_nil, List.forIn_cons, List.forIn_nil, Option.bind, bind, Except.bind,
        pure, Except.pure, List.nil_append]
    · simp only [Spec.createPath, Spec.nodeFor, Option.bind, Spec.createNode, Spec.createMap, List.foldlM_nil, hid,
        Spec.createSteps, bind, Except.bind, pure, Except.pure]
  | some x =>
    have hx' := hx x rfl
    have hmodel : ∃ u', Update.createRow A params g next ⟨⟨some x, ls, []⟩, []⟩ m ⟨r, []⟩ = .ok
        ({ m with ops := m.ops ++ [.createNode (next + m.created) ls], created := m.created + 1,
                  count := m.count + 1 }, u') := by
      simp only [Update.createRow, List.map_nil, List.forIn_cons, List.forIn_nil, Option.bind, Update.rowNode, hx',
        bind, Except.bind, pure, Except.pure, List.nil_append]
      exact ⟨_, rfl⟩
    obtain ⟨u', hu'⟩ := hmodel
    refine ⟨_, u', _, r.set x (.node (next + m.created)), hu', ?_, hsim, hfresh', rfl⟩
    · simp only [Spec.createPath, Spec.nodeFor, Option.bind, hx', Spec.createNode, Spec.createMap, List.foldlM_nil,
        hid, Spec.createSteps, bind, Except.bind, pure, Except.pure]

/-- **update_refines (CREATE (x:ls), all rows)** — one `create_node` call per row with consecutive fresh ids
    (`next`, `next+1`, …), count = number of rows; the committed graph is the reference's.  `next` is above every
    node id of the snapshot (ids are never re-used), `x` is not bound by the rows. -/
theorem update_refines_create_node_rows (g : Graph) (hg : g.nodes.Pairwise fun a b => a.id ≠ b.id) (next : Nat)
    (hnext : ∀ nd ∈ g.nodes, nd.id < next) (names : List String) (w : Update.WPlan)
    (var : Option String) (ls : List String) (T : Table) (hT : ∀ r ∈ T, ∀ x, var = some x → r.get x = none) :
    ∃ m T' sp outS, Update.runStage A params g next names w {} (T.map fun r => { row := r })
        (.create ⟨⟨var, ls, []⟩, []⟩ false) = .ok (m, T') ∧
      Spec.applyClause A params { g, next } T (.create [⟨⟨var, ls, []⟩, []⟩]) = .ok (sp, outS) ∧
      USim g next m sp := by
  have hmapRow : (T.map fun r => ({ row := r } : Update.URow)).map (·.row) = T := by
    simp [List.map_map, Function.comp_def]
  obtain ⟨m, T', sp, outS, h1, h2, hR⟩ := rows_simulation_out
    (fun m u => Update.createRow A params g next ⟨⟨var, ls, []⟩, []⟩ m u)
    (fun sp r => do
      let (s, r) ← [(⟨⟨var, ls, []⟩, []⟩ : PathPat)].foldlM
        (fun (acc : Spec.St × Row) p => Spec.createPath A params g acc.1 acc.2 p) (sp, r)
      pure (s, [r]))
    (fun m sp => USim g next m sp ∧ (∀ nd ∈ sp.g.nodes, nd.id < sp.next))
    (T.map fun r => { row := r })
    (by
      intro u hu m sp hR
      obtain ⟨r, hr, rfl⟩ := List.mem_map.mp hu
      obtain ⟨m', u', sp', r', a1, a2, a3, a4, _⟩ :=
        create_node_row A params g next m sp hR.1 hR.2 r var ls (hT r hr)
      refine ⟨m', u', sp', [r'], a1, ?_, a3, a4⟩
      simp only [List.foldlM_cons, List.foldlM_nil, a2, bind, Except.bind, pure, Except.pure])
    {} { g, next } [] [] ⟨USim.init g hg next, hnext⟩
  refine ⟨m, T', sp, outS, ?_, ?_, hR.1⟩
  · simp only [Update.runStage]
    rw [forIn_stage_eq_foldlM (fun m u => Update.createRow A params g next ⟨⟨var, ls, []⟩, []⟩ m u), h1]
    rfl
  · rw [hmapRow] at h2
    simp only [Spec.applyClause, Spec.forRows]
    exact h2

/-! ### REMOVE x.k on nodes: every table in which no node is targeted by two rows -/

/-- one row of `REMOVE x.k` from any simulated state in which the reference's current properties of the target are
    still the snapshot's (what the model decides the count against) -/
theorem remove_prop_row (g : Graph) (next : Nat) (m : Update.St) (sp : Spec.St) (hR : USim g next m sp)
    (r : Row) (x k : String) (n : Nat) (hx : r.get x = some (.node n))
    (hsame : Spec.propsOf sp.g (.node n) = Update.nodeProps g n) :
    ∃ m' u' sp', Update.removePropertyRow g [(x, k)] m ⟨r, []⟩ = .ok (m', u') ∧
      [RemItem.prop x k].foldlM (Spec.remItem r) sp = .ok sp' ∧ USim g next m' sp' ∧
      (∀ n', n' ≠ n → Spec.propsOf sp'.g (.node n') = Spec.propsOf sp.g (.node n')) ∧
      m'.ops = m.ops ++ [.removeNodeProp n k] := by
  have hmodel : ∃ u', Update.removePropertyRow g [(x, k)] m ⟨r, []⟩ =
      .ok ({ m with ops := m.ops ++ [.removeNodeProp n k],
                    count := m.count + if (Update.nodeProps g n).any (·.1 == k) then 1 else 0 }, u') := by
    simp only [Update.removePropertyRow, List.forIn_cons, List.forIn_nil, hx, Update.URow.props, List.lookup, bind,
      Except.bind, pure, Except.pure, Update.URow.ent]
    exact ⟨_, rfl⟩
  obtain ⟨u', hu'⟩ := hmodel
  have hspec : [RemItem.prop x k].foldlM (Spec.remItem r) sp = .ok
      { sp with g := Update.applyOp sp.g (.removeNodeProp n k),
                c := { sp.c with propsSet := sp.c.propsSet +
                  (if (Spec.propsOf sp.g (.node n)).any (·.1 == k) then 1 else 0) } } := by
    simp only [List.foldlM_cons, List.foldlM_nil, Spec.remItem, hx, Spec.target?, bind, Except.bind, pure, Except.pure,
      remove_prop_graph_eq sp.g hR.distinct n k]
  refine ⟨_, u', _, hu', hspec, ⟨?_, hR.next, ?_, ?_⟩, ?_, rfl⟩
  · simp only [applyOps_snoc, hR.graph]
  · have := hR.count
    rw [hsame]
    simp only [Counts.total] at this ⊢
    omega
  · exact updNode_distinct sp.g n _ (fun _ => rfl) hR.distinct
  · intro n' hne
    show Spec.propsOf (Update.applyOp sp.g (.removeNodeProp n k)) (.node n') = _
    simp only [Update.applyOp, Spec.propsOf]
    rw [node?_updNode_ne sp.g n n' (fun nd => { nd with props := Spec.delKey nd.props k }) (fun _ => rfl) hne]

/-- **update_refines (REMOVE x.k, all rows, every node targeted by at most one row)** — the model counts a removal
    when the SNAPSHOT has the property, the reference when the CURRENT graph has it; with pairwise distinct targets
    they coincide: same committed graph, same count. -/
theorem update_refines_remove_prop_rows (g : Graph) (hg : g.nodes.Pairwise fun a b => a.id ≠ b.id) (next : Nat)
    (names : List String) (w : Update.WPlan) (x k : String) (T : Table)
    (hT : ∀ r ∈ T, ∃ n, r.get x = some (.node n))
    (hdist : (targetsOf x (T.map fun r => { row := r })).Nodup) :
    ∃ m T' sp, Update.runStage A params g next names w {} (T.map fun r => { row := r }) (.removeProperty [(x, k)]) =
        .ok (m, T') ∧
      Spec.applyClause A params { g, next } T (.remove [.prop x k]) = .ok (sp, T) ∧
      USim g next m sp := by
  have hmapRow : (T.map fun r => ({ row := r } : Update.URow)).map (·.row) = T := by
    simp [List.map_map, Function.comp_def]
  obtain ⟨m, T', sp, h1, h2, hR⟩ := rows_simulation_prefix
    (fun m u => Update.removePropertyRow g [(x, k)] m u)
    (fun sp r => [RemItem.prop x k].foldlM (Spec.remItem r) sp)
    (fun pre m sp => USim g next m sp ∧
      ∀ n, n ∉ targetsOf x pre → Spec.propsOf sp.g (.node n) = Update.nodeProps g n)
    (T.map fun r => { row := r })
    (by
      intro pre u post hsplit m sp hR
      have hu : u ∈ T.map fun r => ({ row := r } : Update.URow) := by rw [hsplit]; simp
      obtain ⟨r, hr, rfl⟩ := List.mem_map.mp hu
      obtain ⟨n, hx⟩ := hT r hr
      have htn : Update.rowNode r x = some n := by simp [Update.rowNode, hx]
      have hnotin : n ∉ targetsOf x pre := by
        rw [hsplit] at hdist
        simp only [targetsOf, List.filterMap_append, List.filterMap_cons, htn] at hdist
        have := (List.nodup_append.mp hdist).2.2
        intro hmem
        exact this n hmem n (by simp) rfl
      obtain ⟨m', u', sp', a1, a2, a3, a4, _⟩ := remove_prop_row g next m sp hR.1 r x k n hx (hR.2 n hnotin)
      refine ⟨m', u', sp', a1, a2, a3, ?_⟩
      intro n' hn'
      have hne : n' ≠ n := by
        intro h; subst h
        exact hn' (by simp [targetsOf, List.filterMap_append, htn])
      have hpre : n' ∉ targetsOf x pre := by
        intro h; exact hn' (by simp only [targetsOf, List.filterMap_append, List.mem_append]; exact Or.inl h)
      rw [a4 n' hne, hR.2 n' hpre])
    (T.map fun r => { row := r }) [] (by simp) {} { g, next } [] []
    ⟨USim.init g hg next, fun _ _ => rfl⟩
  refine ⟨m, T', sp, ?_, ?_, hR.1⟩
  · simp only [Update.runStage]
    rw [forIn_stage_eq_foldlM (fun m u => Update.removePropertyRow g [(x, k)] m u), h1]
    rfl
  · rw [hmapRow] at h2
    simp only [Spec.applyClause, Spec.forRows]
    simpa using h2

/-! ### SET x.k = null (a removal) on nodes: distinct targets -/

theorem set_null_row (g : Graph) (next : Nat) (m : Update.St) (sp : Spec.St) (hR : USim g next m sp)
    (r : Row) (x k : String) (e : Expr) (n : Nat) (hx : r.get x = some (.node n))
    (hv : eval A { g, params } r e = .null)
    (hsame : Spec.propsOf sp.g (.node n) = Update.nodeProps g n) :
    ∃ m' u' sp', Update.setPropertyRow A params g [(x, k, e)] m ⟨r, []⟩ = .ok (m', u') ∧
      Spec.applySetItems A params g r sp [.prop x k e] = .ok sp' ∧ USim g next m' sp' ∧
      (∀ n', n' ≠ n → Spec.propsOf sp'.g (.node n') = Spec.propsOf sp.g (.node n')) := by
  have hmodel : ∃ u', Update.setPropertyRow A params g [(x, k, e)] m ⟨r, []⟩ =
      .ok ({ m with ops := m.ops ++ [.removeNodeProp n k],
                    count := m.count + if (Update.nodeProps g n).any (·.1 == k) then 1 else 0 }, u') := by
    simp only [Update.setPropertyRow, List.forIn_cons, List.forIn_nil, ev_noOverlay, hv, Update.toProp, bind,
      Except.bind, pure, Except.pure, Update.rowNode, hx, BEq.rfl, ↓reduceIte, Update.URow.props, List.lookup,
      Update.URow.ent]
    exact ⟨_, rfl⟩
  obtain ⟨u', hu'⟩ := hmodel
  have hspec : Spec.applySetItems A params g r sp [.prop x k e] = .ok
      { sp with g := Update.applyOp sp.g (.removeNodeProp n k),
                c := { sp.c with propsSet := sp.c.propsSet +
                  (if (Spec.propsOf sp.g (.node n)).any (·.1 == k) then 1 else 0) } } := by
    simp only [Spec.applySetItems, List.foldlM_cons, List.foldlM_nil, Spec.setItem, hx, Spec.target?, Spec.evalIn, hv,
      Spec.writeProp, Val.toScalar?, bind, Except.bind, pure, Except.pure, remove_prop_graph_eq sp.g hR.distinct n k]
  refine ⟨_, u', _, hu', hspec, ⟨?_, hR.next, ?_, ?_⟩, ?_⟩
  · simp only [applyOps_snoc, hR.graph]
  · have := hR.count
    rw [hsame]
    simp only [Counts.total] at this ⊢
    omega
  · exact updNode_distinct sp.g n _ (fun _ => rfl) hR.distinct
  · intro n' hne
    show Spec.propsOf (Update.applyOp sp.g (.removeNodeProp n k)) (.node n') = _
    simp only [Update.applyOp, Spec.propsOf]
    rw [node?_updNode_ne sp.g n n' (fun nd => { nd with props := Spec.delKey nd.props k }) (fun _ => rfl) hne]

/-- **update_refines (SET x.k = e with e null on every row — a removal — distinct targets)** -/
theorem update_refines_set_null_rows (g : Graph) (hg : g.nodes.Pairwise fun a b => a.id ≠ b.id) (next : Nat)
    (names : List String) (w : Update.WPlan) (x k : String) (e : Expr) (T : Table)
    (hT : ∀ r ∈ T, (∃ n, r.get x = some (.node n)) ∧ eval A { g, params } r e = .null)
    (hdist : (targetsOf x (T.map fun r => { row := r })).Nodup) :
    ∃ m T' sp, Update.runStage A params g next names w {} (T.map fun r => { row := r }) (.setProperty [(x, k, e)]) =
        .ok (m, T') ∧
      Spec.applyClause A params { g, next } T (.set [.prop x k e]) = .ok (sp, T) ∧
      USim g next m sp := by
  have hmapRow : (T.map fun r => ({ row := r } : Update.URow)).map (·.row) = T := by
    simp [List.map_map, Function.comp_def]
  obtain ⟨m, T', sp, h1, h2, hR⟩ := rows_simulation_prefix
    (fun m u => Update.setPropertyRow A params g [(x, k, e)] m u)
    (fun sp r => Spec.applySetItems A params g r sp [.prop x k e])
    (fun pre m sp => USim g next m sp ∧
      ∀ n, n ∉ targetsOf x pre → Spec.propsOf sp.g (.node n) = Update.nodeProps g n)
    (T.map fun r => { row := r })
    (by
      intro pre u post hsplit m sp hR
      have hu : u ∈ T.map fun r => ({ row := r } : Update.URow) := by rw [hsplit]; simp
      obtain ⟨r, hr, rfl⟩ := List.mem_map.mp hu
      obtain ⟨⟨n, hx⟩, hv⟩ := hT r hr
      have htn : Update.rowNode r x = some n := by simp [Update.rowNode, hx]
      have hnotin : n ∉ targetsOf x pre := by
        rw [hsplit] at hdist
        simp only [targetsOf, List.filterMap_append, List.filterMap_cons, htn] at hdist
        have := (List.nodup_append.mp hdist).2.2
        intro hmem
        exact this n hmem n (by simp) rfl
      obtain ⟨m', u', sp', a1, a2, a3, a4⟩ := set_null_row A params g next m sp hR.1 r x k e n hx hv (hR.2 n hnotin)
      refine ⟨m', u', sp', a1, a2, a3, ?_⟩
      intro n' hn'
      have hne : n' ≠ n := by
        intro h; subst h
        exact hn' (by simp [targetsOf, List.filterMap_append, htn])
      have hpre : n' ∉ targetsOf x pre := by
        intro h; exact hn' (by simp only [targetsOf, List.filterMap_append, List.mem_append]; exact Or.inl h)
      rw [a4 n' hne, hR.2 n' hpre])
    (T.map fun r => { row := r }) [] (by simp) {} { g, next } [] []
    ⟨USim.init g hg next, fun _ _ => rfl⟩
  refine ⟨m, T', sp, ?_, ?_, hR.1⟩
  · simp only [Update.runStage]
    rw [forIn_stage_eq_foldlM (fun m u => Update.setPropertyRow A params g [(x, k, e)] m u), h1]
    rfl
  · rw [hmapRow] at h2
    simp only [Spec.applyClause, Spec.forRows]
    simpa using h2

end Nervus.Cy
