/-
  `WalRecord::decode_body` never panics (C25): every slice expression is covered by the length check in front of it
  — provided the ManifestSwitch arm checks the whole 16-byte trailer (`manifestTailCheck ≥ 16`, the `fix:`).
-/
import Nervus.Proofs.WalRec
namespace Nervus.WalRec
open Nervus Nervus.PropVal

def NoPanic {α : Type} (x : Except WErr α) : Prop := x ≠ .error .panic

variable {α β : Type}

theorem np_ok (a : α) : NoPanic (Except.ok a : Except WErr α) := by intro h; cases h
theorem np_pure (a : α) : NoPanic (pure a : Except WErr α) := by intro h; cases h
theorem np_proto (m : String) : NoPanic (Except.error (.proto m) : Except WErr α) := by intro h; cases h

theorem np_bind {x : Except WErr α} {f : α → Except WErr β} (hx : NoPanic x)
    (hf : ∀ a, x = .ok a → NoPanic (f a)) : NoPanic (x >>= f) := by
  cases x with
  | error e => intro h; apply hx; simp [bind, Except.bind] at h; rw [h]
  | ok a => simpa [bind, Except.bind] using hf a rfl

theorem np_map {x : Except WErr α} (f : α → β) (hx : NoPanic x) : NoPanic (x.map f) := by
  cases x with
  | error e => intro h; apply hx; simp [Except.map] at h; rw [h]
  | ok a => intro h; simp [Except.map] at h

theorem np_rd {p : Bytes} {a b : Nat} (h1 : a ≤ b) (h2 : b ≤ p.length) : NoPanic (rd p a b) := by
  unfold rd; rw [slice_eq_some h1 h2]; exact np_ok _

theorem np_readU64 (p : Bytes) : NoPanic (readU64 p) := by
  unfold readU64
  split
  · exact np_proto _
  · exact np_rd (by omega) (by omega)

theorem np_rdStr {p : Bytes} {a b : Nat} (msg : String) (h1 : a ≤ b) (h2 : b ≤ p.length) : NoPanic (rdStr p a b msg) := by
  unfold rdStr; rw [slice_eq_some h1 h2]; simp only
  split
  · exact np_ok _
  · exact np_proto _

theorem np_rdVal (cfg : Cfg) (bs : Bytes) : NoPanic (rdVal cfg bs) := by
  unfold rdVal
  have h := decode_no_panic cfg.pv bs
  split
  · exact np_ok _
  · rename_i e; exact absurd e h.1
  · rename_i e; exact absurd e h.2
  · exact np_proto _

theorem np_rdSegs (p : Bytes) : ∀ (n off : Nat), off + n * 16 ≤ p.length → NoPanic (rdSegs p n off)
  | 0, _, _ => np_ok _
  | n + 1, off, h => by
    unfold rdSegs
    refine np_bind (np_rd (by omega) (by omega)) fun _ _ => ?_
    refine np_bind (np_rd (by omega) (by omega)) fun _ _ => ?_
    refine np_bind (np_rdSegs p n (off + 16) (by omega)) fun _ _ => ?_
    exact np_pure _

macro "np_step" : tactic => `(tactic| first
  | exact np_ok _
  | exact np_pure _
  | exact np_proto _
  | exact np_map _ (np_readU64 _)
  | (refine np_bind (np_rd (by omega) (by omega)) (fun _ _ => ?_))
  | (refine np_bind (np_rdStr _ (by omega) (by omega)) (fun _ _ => ?_))
  | (refine np_bind (np_rdVal _ _) (fun _ _ => ?_))
  | (refine np_bind (np_rdSegs _ _ _ (by omega)) (fun _ _ => ?_)))

theorem np_armPageWrite (p : Bytes) : NoPanic (armPageWrite p) := by
  unfold armPageWrite
  split
  · np_step
  · rename_i hl
    np_step
    have hs : slice p 8 p.length = some ((p.drop 8).take (p.length - 8)) := slice_eq_some (by omega) (Nat.le_refl _)
    rw [hs]; simp only
    have : ((p.drop 8).take (p.length - 8)).length = Generated.walPageSize := by
      simp [List.length_take, List.length_drop]; omega
    rw [if_pos this]; np_step

theorem np_armCreateLabel (p : Bytes) : NoPanic (armCreateLabel p) := by
  unfold armCreateLabel
  split
  · np_step
  · np_step; np_step; split
    · np_step
    · np_step; np_step

theorem np_armCreateNode (p : Bytes) : NoPanic (armCreateNode p) := by
  unfold armCreateNode
  split
  · np_step
  · np_step; np_step; np_step; np_step

theorem np_armAddNodeLabel (p : Bytes) : NoPanic (armAddNodeLabel p) := by
  unfold armAddNodeLabel
  split
  · np_step
  · np_step; np_step; np_step

theorem np_armRemoveNodeLabel (p : Bytes) : NoPanic (armRemoveNodeLabel p) := by
  unfold armRemoveNodeLabel
  split
  · np_step
  · np_step; np_step; np_step

theorem np_armCreateEdge (p : Bytes) : NoPanic (armCreateEdge p) := by
  unfold armCreateEdge
  split
  · np_step
  · np_step; np_step; np_step; np_step

theorem np_armTombstoneNode (p : Bytes) : NoPanic (armTombstoneNode p) := by
  unfold armTombstoneNode
  split
  · np_step
  · np_step; np_step

theorem np_armTombstoneEdge (p : Bytes) : NoPanic (armTombstoneEdge p) := by
  unfold armTombstoneEdge
  split
  · np_step
  · np_step; np_step; np_step; np_step

theorem np_armManifestSwitch (cfg : Cfg) (hk : 16 ≤ cfg.manifestTailCheck) (p : Bytes) :
    NoPanic (armManifestSwitch cfg p) := by
  unfold armManifestSwitch
  split
  · np_step
  · np_step; np_step
    split
    · np_step
    · np_step; np_step; np_step; np_step

theorem np_armCheckpoint (p : Bytes) : NoPanic (armCheckpoint p) := by
  unfold armCheckpoint
  split
  · np_step
  · np_step; np_step; np_step; np_step; np_step

theorem np_armSetNodeProperty (cfg : Cfg) (p : Bytes) : NoPanic (armSetNodeProperty cfg p) := by
  unfold armSetNodeProperty
  split
  · np_step
  · np_step; np_step; split
    · np_step
    · np_step; np_step; np_step

theorem np_armSetEdgeProperty (cfg : Cfg) (p : Bytes) : NoPanic (armSetEdgeProperty cfg p) := by
  unfold armSetEdgeProperty
  split
  · np_step
  · np_step; np_step; np_step; np_step; split
    · np_step
    · np_step; np_step; np_step

theorem np_armRemoveNodeProperty (p : Bytes) : NoPanic (armRemoveNodeProperty p) := by
  unfold armRemoveNodeProperty
  split
  · np_step
  · np_step; np_step; split
    · np_step
    · np_step; np_step

theorem np_armRemoveEdgeProperty (p : Bytes) : NoPanic (armRemoveEdgeProperty p) := by
  unfold armRemoveEdgeProperty
  split
  · np_step
  · np_step; np_step; np_step; np_step; split
    · np_step
    · np_step; np_step

theorem np_ite {c : Prop} [Decidable c] {a b : Except WErr α} (ha : NoPanic a) (hb : NoPanic b) :
    NoPanic (if c then a else b) := by
  split <;> assumption

/-- **decode_body never panics** on any byte string -/
theorem decodeBody_noPanic (cfg : Cfg) (hk : 16 ≤ cfg.manifestTailCheck) (body : Bytes) :
    NoPanic (decodeBody cfg body) := by
  cases body with
  | nil => exact np_proto _
  | cons ty p =>
    show NoPanic (if ty = Generated.walTagBeginTx then _ else _)
    exact np_ite (np_map _ (np_readU64 _)) <| np_ite (np_map _ (np_readU64 _)) <| np_ite (np_armPageWrite p) <|
      np_ite (np_map _ (np_readU64 _)) <| np_ite (np_armCreateLabel p) <| np_ite (np_armCreateNode p) <|
      np_ite (np_armAddNodeLabel p) <| np_ite (np_armRemoveNodeLabel p) <| np_ite (np_armCreateEdge p) <|
      np_ite (np_armTombstoneNode p) <| np_ite (np_armTombstoneEdge p) <| np_ite (np_armManifestSwitch cfg hk p) <|
      np_ite (np_armCheckpoint p) <| np_ite (np_armSetNodeProperty cfg p) <| np_ite (np_armSetEdgeProperty cfg p) <|
      np_ite (np_armRemoveNodeProperty p) <| np_ite (np_armRemoveEdgeProperty p) <| np_proto _

end Nervus.WalRec
