/-
  Operator lemmas 5 and 6 for C11: a further MATCH as a join on shared variables (bound start node = label filter
  + expansion from the bound node; fresh start node = cartesian product with a scan), and OPTIONAL MATCH
  (OptionalWhereFixup) as per-row null padding.
-/
import Nervus.Proofs.CypherExpand
namespace Nervus.Cy
open Nervus.Cy

variable (A : Algebra) (env : Env)

theorem flatMap_congr_mem {α β} (l : List α) (f g : α → List β) (h : ∀ x ∈ l, f x = g x) :
    l.flatMap f = l.flatMap g := by
  induction l with
  | nil => rfl
  | cons x xs ih =>
    simp only [List.flatMap_cons, h x (by simp)]
    rw [ih (fun y hy => h y (List.mem_cons_of_mem _ hy))]

theorem all_congr_mem {α} (l : List α) (p q : α → Bool) (h : ∀ x ∈ l, p x = q x) : l.all p = l.all q := by
  induction l with
  | nil => rfl
  | cons x xs ih =>
    simp only [List.all_cons, h x (by simp)]
    rw [ih (fun y hy => h y (List.mem_cons_of_mem _ hy))]

/-! ### 6. OPTIONAL MATCH: OptionalWhereFixup = per-row padding, when the outer rows are pairwise distinct -/

theorem filter_flatMap_unique {α β} [DecidableEq α] (l : List α) (ext : α → List β) (p : β → Bool) (o : α)
    (hnd : l.Nodup) (ho : o ∈ l) (hself : ∀ r ∈ ext o, p r = true)
    (hother : ∀ o' ∈ l, o' ≠ o → ∀ r ∈ ext o', p r = false) :
    (l.flatMap ext).filter p = ext o := by
  induction l with
  | nil => cases ho
  | cons x xs ih =>
    rw [List.nodup_cons] at hnd
    simp only [List.flatMap_cons, List.filter_append]
    by_cases hx : x = o
    · subst hx
      have h1 : (ext x).filter p = ext x := List.filter_eq_self.mpr hself
      have h2 : (xs.flatMap ext).filter p = [] := by
        rw [List.filter_eq_nil_iff]
        intro r hr
        obtain ⟨o', ho', hr'⟩ := List.mem_flatMap.mp hr
        have hne : o' ≠ x := fun h => hnd.1 (h ▸ ho')
        simp [hother o' (List.mem_cons_of_mem _ ho') hne r hr']
      rw [h1, h2, List.append_nil]
    · have hox : o ∈ xs := by
        rcases List.mem_cons.mp ho with h | h
        · exact absurd h.symm hx
        · exact h
      have h1 : (ext x).filter p = [] := by
        rw [List.filter_eq_nil_iff]
        intro r hr
        simp [hother x (by simp) hx r hr]
      rw [h1, List.nil_append]
      exact ih hnd.2 hox (fun o' ho' hne => hother o' (List.mem_cons_of_mem _ ho') hne)

/-- **operator lemma 6** — OptionalWhereFixup over pairwise distinct outer rows: every outer row keeps exactly
    its own matches, or is padded with nulls when it has none.  `ext o` are the rows the filtered plan derives
    from outer row `o`; they carry `o`'s bindings (`hself`) and no other outer row's (`hother`). -/
theorem optionalFixup_correct (outer : Table) (ext : Row → Table) (nulls : List String) (hnd : outer.Nodup)
    (hself : ∀ o ∈ outer, ∀ r ∈ ext o, Exec.containsAllBindings r o = true)
    (hother : ∀ o ∈ outer, ∀ o' ∈ outer, o' ≠ o → ∀ r ∈ ext o', Exec.containsAllBindings r o = false) :
    Exec.optionalFixup outer (outer.flatMap ext) nulls =
      outer.flatMap fun o => if (ext o).isEmpty then [nulls.foldl (fun r a => r.set a .null) o] else ext o := by
  unfold Exec.optionalFixup
  apply flatMap_congr_mem
  intro o ho
  show (if ((outer.flatMap ext).filter fun r => Exec.containsAllBindings r o).isEmpty then _ else _) = _
  rw [filter_flatMap_unique outer ext (fun r => Exec.containsAllBindings r o) o hnd ho (hself o ho)
    (fun o' ho' hne => hother o ho o' ho' hne)]

/-- the engine pads by overwriting the listed aliases with null, the reference by binding the still unbound
    pattern variables to null: the same row when none of the aliases is bound -/
theorem padNulls_eq_foldl (r : Row) (xs : List String) (h : ∀ x ∈ xs, r.get x = none) :
    Spec.padNulls r xs = xs.foldl (fun r a => r.set a .null) r := by
  unfold Spec.padNulls
  induction xs generalizing r with
  | nil => rfl
  | cons x xs ih =>
    simp only [List.foldl_cons, h x (by simp), Option.isSome_none, Bool.false_eq_true, ↓reduceIte]
    -- after binding x, a later occurrence of x is skipped by the reference and overwritten with the same null
    -- by the engine; handle both by the general statement below
    have key : ∀ (r : Row) (ys : List String), (∀ y ∈ ys, r.get y = none ∨ r.get y = some .null) →
        ys.foldl (fun r x => if (r.get x).isSome then r else r.set x .null) r =
        ys.foldl (fun r a => r.set a .null) r := by
      intro r ys
      induction ys generalizing r with
      | nil => intro _; rfl
      | cons y ys ihy =>
        intro hy
        simp only [List.foldl_cons]
        have hstep : (if (r.get y).isSome then r else r.set y .null) = r.set y .null := by
          rcases hy y (by simp) with h0 | h1
          · simp [h0]
          · simp [h1, Row.set_same r y .null h1]
        rw [hstep]
        apply ihy
        intro z hz
        by_cases hzy : z = y
        · subst hzy; right; exact Row.get_set_self r z .null
        · rw [Row.get_set_ne r y z .null hzy]; exact hy z (List.mem_cons_of_mem _ hz)
    apply key
    intro y hy
    by_cases hyx : y = x
    · subst hyx; right; exact Row.get_set_self r y .null
    · left; rw [Row.get_set_ne r x y .null hyx]; exact h y (List.mem_cons_of_mem _ hy)

/-! ### 5. a further MATCH: join on a shared (bound) start variable, cartesian product for a fresh one -/

/-- the label filter `apply_label_filters_for_alias` on a row that binds `a` to a node -/
theorem evalBool_labelFilter_bound (r : Row) (a : String) (n : Nat) (ls : List String) (e : Expr)
    (hr : r.get a = some (.node n))
    (he : Compile.andChain (ls.map fun l => Expr.bool .or (.isNull (.var a)) (.hasLabel (.var a) l)) = some e) :
    evalBool A env r e = ls.all (env.g.hasLabel n) := by
  rw [evalBool_andChain A env r _ e he, List.all_map]
  apply all_congr_mem
  intro l _
  simp only [Function.comp, evalBool, eval, hr, hasLabelVal]
  have : (Val.node n == Val.null) = false := by simp
  rw [this, boolOp_or_bool]
  cases env.g.hasLabel n l <;> simp

theorem flatMap_unique_node (nodes : List NodeRec) (hnd : nodes.Pairwise fun a b => a.id ≠ b.id) (nd : NodeRec)
    (hmem : nd ∈ nodes) {β} (f : NodeRec → List β) (hf : ∀ m ∈ nodes, m.id ≠ nd.id → f m = []) :
    nodes.flatMap f = f nd := by
  induction nodes with
  | nil => cases hmem
  | cons x xs ih =>
    rw [List.pairwise_cons] at hnd
    simp only [List.flatMap_cons]
    rcases List.mem_cons.mp hmem with rfl | hm
    · have : xs.flatMap f = [] := by
        rw [List.flatMap_eq_nil_iff]
        intro m hm
        exact hf m (List.mem_cons_of_mem _ hm) (fun h => hnd.1 m hm h.symm)
      rw [this, List.append_nil]
    · have hx : f x = [] := hf x (by simp) (hnd.1 nd hm)
      rw [hx, List.nil_append]
      exact ih hnd.2 hm (fun m hm' hne => hf m (List.mem_cons_of_mem _ hm') hne)

/-- **operator lemma 5a (join on a bound start variable)** — the reference matching of a pattern whose first
    node variable is already bound to a live node `n` is: check its labels, then continue the chain from `n`.
    (The engine plans exactly that: label Filter on the existing rows, then the hops.) -/
theorem matchPath_bound (hg : env.g.NodesDistinct) (used : List RelId) (r : Row) (a : String) (nd : NodeRec)
    (hmem : nd ∈ env.g.nodes) (hr : r.get a = some (.node nd.id)) (ls : List String)
    (steps : List (RelPat × NodePat)) :
    Spec.matchPath A env used r ⟨⟨some a, ls, []⟩, steps⟩ =
      if ls.all (env.g.hasLabel nd.id) then Spec.matchSteps A env used nd.id r steps else [] := by
  unfold Spec.matchPath
  rw [flatMap_unique_node env.g.nodes hg nd hmem]
  · simp only [Spec.nodeOk, Spec.propsOk, List.all_nil, Bool.and_true, Spec.bind, hr, beq_self_eq_true, ↓reduceIte]
    cases ls.all (env.g.hasLabel nd.id) <;> simp
  · intro m _ hne
    have : (Val.node nd.id == Val.node m.id) = false := by
      simpa using (fun h : nd.id = m.id => hne h.symm)
    simp only [Spec.bind, hr, this, Bool.false_eq_true, ↓reduceIte]
    split <;> rfl

/-- **operator lemma 5b (fresh start variable = cartesian product with a scan)** — for a row that does not
    mention `a`, the reference binds `a` to every node with the labels, appending the column: exactly
    `CartesianProduct(existing, NodeScan a)` followed by the label filter. -/
theorem matchPath_fresh (used : List RelId) (r : Row) (a : String) (ha : a ∉ r.cols) (ls : List String) :
    (Spec.matchPath A env used r ⟨⟨some a, ls, []⟩, []⟩).map (·.1) =
      (env.g.nodes.filter fun n => ls.all (env.g.hasLabel n.id)).map fun n => r ++ [(a, Val.node n.id)] := by
  have hget : r.get a = none := by
    unfold Row.get
    induction r with
    | nil => rfl
    | cons p rest ih =>
      obtain ⟨y, w⟩ := p
      simp only [Row.cols, List.map_cons, List.mem_cons, not_or] at ha
      have : (a == y) = false := by simpa using ha.1
      simp only [List.lookup, this]
      exact ih (by simpa [Row.cols] using ha.2)
  simp only [Spec.matchPath, Spec.nodeOk, Spec.propsOk, List.all_nil, Bool.and_true, Spec.bind, hget,
    Spec.matchSteps, Row.set_append_fresh r a _ ha]
  rw [flatMap_ite_singleton]
  simp [List.map_map, Function.comp]

end Nervus.Cy
